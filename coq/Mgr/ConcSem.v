(** * C07 — no corruption: the function denoted by a handle never changes

    [step_sem_preserved]: an enabled action of any thread (or of the collector) leaves
    the denotation ([sem_edge] on the snapshot) of every edge whose target is in use
    (owned by some thread or referenced by a stored node) unchanged.
    [run_sem_idle]: while a thread sits on a handle, no schedule of the other
    threads and the collector changes what the handle denotes. *)

From Coq Require Import List NArith PArith Bool Arith Lia FMapPositive.
From OxiVerif Require Import DD.Table DD.TableExtra DD.TableProofs
  Mgr.Conc Mgr.ConcBase Mgr.ConcProofs Mgr.ConcSnap.
Import ListNotations.

(** ** two snapshots that agree on a child-closed set of references *)

Section Agree.
Variables s1 s2 : snap.
Variable P : ref -> Prop.
Hypothesis Hkind : s_kind s1 = s_kind s2.
Hypothesis Hterms : s_terms s1 = s_terms s2.
Hypothesis Hlev : nlevels s1 = nlevels s2.
Hypothesis Hagree : forall id, P (RN id) ->
  match find_node s1 id with
  | None => True
  | Some n1 =>
    exists n2, find_node s2 id = Some n2 /\ nlevel n2 = nlevel n1 /\ nchildren n2 = nchildren n1 /\
               forall e, In e (nchildren n1) -> P (eref e)
  end.
Hypothesis Hpresent : forall id, P (RN id) -> find_node s1 id <> None.

Lemma term_val_agree : forall t, term_val s1 t = term_val s2 t.
Proof. intros t. unfold term_val. rewrite Hterms. reflexivity. Qed.

Lemma semk_agree : forall f r c, P r -> semk s1 f r c = semk s2 f r c.
Proof.
  induction f as [|f IH]; intros r c Hp; destruct r as [t|id];
    try (rewrite !semk_T; apply term_val_agree).
  - reflexivity.
  - rewrite !semk_S. pose proof (Hagree id Hp) as Ha. pose proof (Hpresent id Hp) as Hq.
    destruct (find_node s1 id) as [n1|]; [|congruence].
    destruct Ha as [n2 [F2 [Hl [Hc Hch]]]]. rewrite F2, Hl, Hc.
    destruct (nth_error (nchildren n1) (c (nlevel n1))) as [e|] eqn:He; [|reflexivity].
    apply IH. apply Hch. eapply nth_error_In. exact He.
Qed.

Lemma semc_agree : forall f e c, P (eref e) -> semc s1 f e c = semc s2 f e c.
Proof.
  induction f as [|f IH]; intros e c Hp; destruct (eref e) as [t|id] eqn:Er;
    try (rewrite !(semc_T _ _ _ _ t Er); reflexivity).
  - rewrite !(semc_O _ _ _ id Er). reflexivity.
  - rewrite !(semc_S _ _ _ _ id Er). pose proof (Hagree id Hp) as Ha. pose proof (Hpresent id Hp) as Hq.
    destruct (find_node s1 id) as [n1|]; [|congruence].
    destruct Ha as [n2 [F2 [Hl [Hc Hch]]]]. rewrite F2, Hl, Hc.
    destruct (nth_error (nchildren n1) (c (nlevel n1))) as [e'|] eqn:He; [|reflexivity].
    rewrite (IH e' c); [reflexivity|]. apply Hch. eapply nth_error_In. exact He.
Qed.

Lemma semz_agree : forall f lvl r c, P r -> semz s1 f lvl r c = semz s2 f lvl r c.
Proof.
  induction f as [|f IH]; intros lvl r c Hp; destruct r as [t|id];
    try (rewrite !semz_T, term_val_agree, Hlev; reflexivity).
  - reflexivity.
  - rewrite !semz_S. pose proof (Hagree id Hp) as Ha. pose proof (Hpresent id Hp) as Hq.
    destruct (find_node s1 id) as [n1|]; [|congruence].
    destruct Ha as [n2 [F2 [Hl [Hc Hch]]]]. rewrite F2, Hl, Hc.
    destruct (Nat.ltb (nlevel n1) lvl); [reflexivity|].
    destruct (all_lo c lvl (nlevel n1 - lvl)); [|reflexivity].
    destruct (nth_error (nchildren n1) (c (nlevel n1))) as [e|] eqn:He; [|reflexivity].
    apply IH. apply Hch. eapply nth_error_In. exact He.
Qed.

Lemma sem_edge_agree : forall e c, P (eref e) -> sem_edge s1 e c = sem_edge s2 e c.
Proof.
  intros e c Hp. unfold sem_edge. rewrite <- Hkind, <- Hlev.
  destruct (s_kind s1); try (apply semk_agree; exact Hp).
  - rewrite (semc_agree _ e c Hp). reflexivity.
  - rewrite (semz_agree _ 0 (eref e) c Hp). reflexivity.
Qed.

End Agree.

Section Sem.
Variable k : kind.
Variable terms : list (N * N).
Variable nl : nat.

Notation to_snap := (to_snap k terms nl).
Notation CInv := (CInv k terms nl).
Notation run := (run k terms nl).
Notation step := (step k terms nl).

(** the target of the reference is in use: a terminal, or a stored node with a
    positive count (owned by a thread or referenced by a stored node) *)
Definition live_ref (s : cst) (r : ref) : Prop :=
  forall id, r = RN id -> exists nd, cfind (cn s) id = Some nd /\ crc nd <> 0%N.

Lemma owned_live_ref : forall s tid e, CInv s -> In (tid, e) (cown s) -> live_ref s (eref e).
Proof. intros s tid e H Hin id Er. apply (owned_live k terms nl s (tid, e) id H Hin Er). Qed.

(** the premises of Section Agree for the snapshots before and after one action *)
Lemma step_agree_nodes : forall s a s' r, CInv s -> step s a = Some (s', r) ->
  forall id, live_ref s (RN id) ->
  match find_node (to_snap s) id with
  | None => True
  | Some n1 =>
    exists n2, find_node (to_snap s') id = Some n2 /\ nlevel n2 = nlevel n1 /\
               nchildren n2 = nchildren n1 /\
               forall e, In e (nchildren n1) -> live_ref s (eref e)
  end.
Proof.
  intros s a s' r H Hs id Hp. rewrite !find_node_to_snap.
  destruct (Hp id eq_refl) as [nd [F Hnz]]. rewrite F. simpl.
  destruct (step_frame k terms nl s a s' r id nd H Hs F Hnz) as [nd' [F' [L C]]].
  exists (to_node nd'). rewrite F'. simpl. repeat split; auto.
  intros x Hx j Er. destruct (child_live k terms nl s id nd x j H F Hx Er) as [ndc [Fc [Hc _]]]. eauto.
Qed.

Lemma step_agree_present : forall s id, live_ref s (RN id) -> find_node (to_snap s) id <> None.
Proof.
  intros s id Hp. rewrite find_node_to_snap. destruct (Hp id eq_refl) as [nd [F _]].
  rewrite F. discriminate.
Qed.

Lemma nlevels_step : forall s s', nlevels (to_snap s) = nlevels (to_snap s').
Proof. intros. rewrite !nlevels_to_snap. reflexivity. Qed.

(** 6'. one action of anybody does not change the meaning of any edge in use *)
Theorem step_sem_preserved : forall s a s' r e c, CInv s -> step s a = Some (s', r) ->
  live_ref s (eref e) -> sem_edge (to_snap s') e c = sem_edge (to_snap s) e c.
Proof.
  intros s a s' r e c H Hs Hl. symmetry.
  apply (sem_edge_agree (to_snap s) (to_snap s') (live_ref s) eq_refl eq_refl (nlevels_step s s')
           (step_agree_nodes s a s' r H Hs) (step_agree_present s)). exact Hl.
Qed.

Lemma step_semk_preserved : forall s a s' r f x c, CInv s -> step s a = Some (s', r) ->
  live_ref s x -> semk (to_snap s') f x c = semk (to_snap s) f x c.
Proof.
  intros s a s' r f x c H Hs Hl. symmetry.
  apply (semk_agree (to_snap s) (to_snap s') (live_ref s) eq_refl
           (step_agree_nodes s a s' r H Hs) (step_agree_present s)). exact Hl.
Qed.

Lemma step_semc_preserved : forall s a s' r f e c, CInv s -> step s a = Some (s', r) ->
  live_ref s (eref e) -> semc (to_snap s') f e c = semc (to_snap s) f e c.
Proof.
  intros s a s' r f e c H Hs Hl. symmetry.
  apply (semc_agree (to_snap s) (to_snap s') (live_ref s)
           (step_agree_nodes s a s' r H Hs) (step_agree_present s)). exact Hl.
Qed.

Lemma step_semz_preserved : forall s a s' r f lvl x c, CInv s -> step s a = Some (s', r) ->
  live_ref s x -> semz (to_snap s') f lvl x c = semz (to_snap s) f lvl x c.
Proof.
  intros s a s' r f lvl x c H Hs Hl. symmetry.
  apply (semz_agree (to_snap s) (to_snap s') (live_ref s) eq_refl (nlevels_step s s')
           (step_agree_nodes s a s' r H Hs) (step_agree_present s)). exact Hl.
Qed.

(** Corollary: while thread [tid] sits on the handle [e] (it performs no action), no
    schedule of the other threads and the collector changes what [e] denotes *)
Theorem run_sem_idle : forall sched s s' tid e c, CInv s -> run s sched = Some s' ->
  (forall a, In a sched -> act_tid a <> Some tid) ->
  In (tid, e) (cown s) ->
  In (tid, e) (cown s') /\ sem_edge (to_snap s') e c = sem_edge (to_snap s) e c.
Proof.
  induction sched as [|a rest IH]; intros s s' tid e c H Hr Hidle Hin; simpl in Hr.
  - inversion Hr; subst. auto.
  - destruct (Conc.step k terms nl s a) as [[s1 res]|] eqn:Hs; [|discriminate].
    pose proof (step_inv k terms nl s a s1 res H Hs) as H1.
    assert (Hin1 : In (tid, e) (cown s1)).
    { eapply step_keeps_token; eauto. apply Hidle. left. reflexivity. }
    destruct (IH s1 s' tid e c H1 Hr (fun a0 Ha => Hidle a0 (or_intror Ha)) Hin1) as [Hin' Hsem].
    split; [exact Hin'|]. rewrite Hsem.
    apply (step_sem_preserved s a s1 res e c H Hs). eapply owned_live_ref; eauto.
Qed.

(** the handle returned by get_or_insert denotes the node that was asked for:
    its children are the passed edges, and their meaning is the one they had before *)
Theorem goi_children_sem : forall s tid lvl ch fr s' id x c, CInv s ->
  step s (AGoi tid lvl ch fr) = Some (s', Some id) ->
  In x ch -> sem_edge (to_snap s') x c = sem_edge (to_snap s) x c.
Proof.
  intros s tid lvl ch fr s' id x c H Hs Hx.
  apply (step_sem_preserved s _ s' (Some id) x c H Hs).
  intros j Er. simpl in Hs.
  destruct (node_pre_b k terms nl (cn s) lvl ch) eqn:Hpre; [|discriminate].
  destruct (take_toks tid ch (cown s)) as [own1|] eqn:Ht; [|discriminate].
  apply (owned_live k terms nl s (tid, x) j H); [|exact Er].
  eapply take_toks_owned; eauto.
Qed.

(** ** what the handle returned by get_or_insert denotes

    The returned edge denotes "the child selected by the choice at level [lvl]",
    where the children are read in the state BEFORE the action: the result is a
    function of the caller's arguments only, whether the node was found (created
    earlier by any thread) or newly created, and whatever the other threads hold. *)

Lemma goi_facts : forall s tid lvl ch fr s' id, CInv s ->
  step s (AGoi tid lvl ch fr) = Some (s', Some id) ->
  CInv s' /\
  (exists nd, cfind (cn s') id = Some nd /\ cl nd = lvl /\ cch nd = ch) /\
  (forall x, In x ch -> live_ref s (eref x)).
Proof.
  intros s tid lvl ch fr s' id H Hs.
  split; [apply (step_inv k terms nl s _ s' (Some id) H Hs)|]. split.
  - destruct (goi_result k terms nl s tid lvl ch fr s' (Some id) H Hs)
      as [id' [nd [E [F [Hl [Hc _]]]]]]. inversion E; subst id'. eauto.
  - intros x Hx j Er. simpl in Hs.
    destruct (node_pre_b k terms nl (cn s) lvl ch) eqn:Hpre; [|discriminate].
    destruct (take_toks tid ch (cown s)) as [own1|] eqn:Ht; [|discriminate].
    apply (owned_live k terms nl s (tid, x) j H); [|exact Er].
    eapply take_toks_owned; eauto.
Qed.

(** a child of a stored node of the (well-formed) snapshot: enough fuel one level down *)
Lemma child_fuel : forall s id nd x, CInv s -> terms_unique_b terms = true ->
  cfind (cn s) id = Some nd -> In x (cch nd) ->
  ref_ok (to_snap s) (eref x) /\ nlevels (to_snap s) - rlevel (to_snap s) (eref x) < nl /\
  S (cl nd) <= rlevel (to_snap s) (eref x).
Proof.
  intros s id nd x H Ht F Hx.
  pose proof (conc_WF k terms nl s H Ht) as W.
  assert (Fs : find_node (to_snap s) id = Some (to_node nd)) by (rewrite find_node_to_snap, F; reflexivity).
  destruct (wf_child _ W id (to_node nd) x Fs Hx) as [Hok Hlt]. simpl in Hlt.
  pose proof (rlevel_le _ W (eref x)) as Hle. rewrite nlevels_to_snap in *.
  split; [exact Hok|]. split; lia.
Qed.

Theorem goi_sem_kary : forall s tid lvl ch fr s' id c, CInv s -> terms_unique_b terms = true ->
  k <> KBcdd -> k <> KZbdd ->
  step s (AGoi tid lvl ch fr) = Some (s', Some id) ->
  sem_edge (to_snap s') (mkEdge (RN id) false) c =
  match nth_error ch (c lvl) with
  | Some x => sem_edge (to_snap s) x c
  | None => None
  end.
Proof.
  intros s tid lvl ch fr s' id c H Ht K1 K2 Hs.
  destruct (goi_facts s tid lvl ch fr s' id H Hs) as [H' [[nd [F [Hl Hc]]] Hlive]].
  assert (Hk : forall st e, sem_edge (to_snap st) e c = semk (to_snap st) (S nl) (eref e) c).
  { intros st e. unfold sem_edge. rewrite nlevels_to_snap. simpl s_kind. destruct k; congruence. }
  rewrite Hk. simpl eref. rewrite semk_S, find_node_to_snap, F. simpl. rewrite Hl, Hc.
  destruct (nth_error ch (c lvl)) as [x|] eqn:Hx; [|reflexivity].
  assert (Hin : In x ch) by (eapply nth_error_In; eauto).
  destruct (child_fuel s' id nd x H' Ht F ltac:(rewrite Hc; exact Hin)) as [Hok [Hf _]].
  rewrite Hk. rewrite (semk_fuel _ (conc_WF k terms nl s' H' Ht) nl (S nl) (eref x) c Hok Hf ltac:(lia)).
  apply (step_semk_preserved s _ s' (Some id) _ _ c H Hs). apply Hlive. exact Hin.
Qed.

Theorem goi_sem_bcdd : forall s tid lvl ch fr s' id c, CInv s -> terms_unique_b terms = true ->
  k = KBcdd ->
  step s (AGoi tid lvl ch fr) = Some (s', Some id) ->
  sem_edge (to_snap s') (mkEdge (RN id) false) c =
  match nth_error ch (c lvl) with
  | Some x => sem_edge (to_snap s) x c
  | None => None
  end.
Proof.
  intros s tid lvl ch fr s' id c H Ht K Hs.
  destruct (goi_facts s tid lvl ch fr s' id H Hs) as [H' [[nd [F [Hl Hc]]] Hlive]].
  assert (Hk : forall st e, sem_edge (to_snap st) e c =
            option_map (fun b : bool => if b then 1%N else 0%N) (semc (to_snap st) (S nl) e c)).
  { intros st e. unfold sem_edge. rewrite nlevels_to_snap. simpl s_kind. rewrite K. reflexivity. }
  rewrite Hk. rewrite (semc_S (to_snap s') nl (mkEdge (RN id) false) c id eq_refl), find_node_to_snap, F. simpl. rewrite Hl, Hc.
  destruct (nth_error ch (c lvl)) as [x|] eqn:Hx; [|reflexivity].
  assert (Hin : In x ch) by (eapply nth_error_In; eauto).
  destruct (child_fuel s' id nd x H' Ht F ltac:(rewrite Hc; exact Hin)) as [Hok [Hf _]].
  rewrite Hk.
  rewrite (semc_fuel _ (conc_WF k terms nl s' H' Ht) nl (S nl) x c Hok Hf ltac:(lia)).
  rewrite (step_semc_preserved s _ s' (Some id) _ x c H Hs (Hlive x Hin)).
  destruct (semc (to_snap s) (S nl) x c) as [[|]|]; reflexivity.
Qed.

(** ZBDD: all skipped levels above the node must be "variable false"; below the node the
    child is read from the level after [lvl] *)
Theorem goi_sem_zbdd : forall s tid lvl ch fr s' id c, CInv s -> terms_unique_b terms = true ->
  step s (AGoi tid lvl ch fr) = Some (s', Some id) ->
  semz (to_snap s') (S nl) 0 (RN id) c =
  if all_lo c 0 lvl then
    match nth_error ch (c lvl) with
    | Some x => semz (to_snap s) (S nl) (S lvl) (eref x) c
    | None => None
    end
  else Some false.
Proof.
  intros s tid lvl ch fr s' id c H Ht Hs.
  destruct (goi_facts s tid lvl ch fr s' id H Hs) as [H' [[nd [F [Hl Hc]]] Hlive]].
  rewrite semz_S, find_node_to_snap, F. simpl. rewrite Hl, Hc, Nat.sub_0_r.
  destruct (all_lo c 0 lvl); [|reflexivity].
  destruct (nth_error ch (c lvl)) as [x|] eqn:Hx; [|reflexivity].
  assert (Hin : In x ch) by (eapply nth_error_In; eauto).
  destruct (child_fuel s' id nd x H' Ht F ltac:(rewrite Hc; exact Hin)) as [Hok [Hf _]].
  rewrite (semz_fuel _ (conc_WF k terms nl s' H' Ht) nl (S nl) (S lvl) (eref x) c Hok Hf ltac:(lia)).
  apply (step_semz_preserved s _ s' (Some id) _ _ _ c H Hs). apply Hlive. exact Hin.
Qed.

End Sem.
