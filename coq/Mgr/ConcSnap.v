(** * C07 — every concurrent state is a well-formed snapshot with exact counts

    [to_snap] turns a state of the interleaving model into the snapshot type of
    DD/Table.v.  Under [CInv] the snapshot satisfies [WF] (C03) and [rc_exact_b]
    (C05) ([conc_wf]), so the canonicity theorems of DD/CanonAll.v (C01) apply to
    every state reachable under any schedule ([conc_canonical]).  Also: the
    executable checker [cinv_b] decides [CInv] ([cinv_b_spec]). *)

From Coq Require Import List NArith PArith Bool Arith Lia FMapPositive Permutation.
From OxiVerif Require Import DD.Table DD.TableExtra DD.TableProofs DD.CanonAll
  Mgr.Conc Mgr.ConcBase Mgr.ConcProofs.
Import ListNotations.

Arguments N.add : simpl never.
Arguments N.sub : simpl never.
Arguments N.mul : simpl never.

Section Snap.
Variable k : kind.
Variable terms : list (N * N).
Variable nl : nat.

Notation to_snap := (to_snap k terms nl).
Notation CInv := (CInv k terms nl).
Notation run := (run k terms nl).
Notation step := (step k terms nl).
Notation node_pre_b := (node_pre_b k terms nl).
Notation edge_ok_b := (edge_ok_b k terms).

(** what the canonicity theorems need to know about the static terminal table *)
Definition terms_ok : Prop :=
  terms_unique_b terms = true /\
  match k with
  | KBcdd => length terms <= 1
  | KZbdd => forall p, In p terms -> snd p = 0%N \/ snd p = 1%N
  | _ => True
  end.

Lemma find_to_map : forall t id, PositiveMap.find id (to_map t) = option_map to_node (cfind t id).
Proof.
  induction t as [|[i n] r IH]; intros id; simpl.
  - apply PositiveMap.gempty.
  - destruct (Pos.eqb_spec i id) as [->|Hne].
    + apply PositiveMap.gss.
    + rewrite PositiveMap.gso by congruence. apply IH.
Qed.

Lemma find_node_to_snap : forall s id,
  find_node (to_snap s) id = option_map to_node (cfind (cn s) id).
Proof. intros s id. unfold find_node. simpl. apply find_to_map. Qed.

Lemma find_node_to_snap_inv : forall s id nd, find_node (to_snap s) id = Some nd ->
  exists cnd, cfind (cn s) id = Some cnd /\ nd = to_node cnd.
Proof.
  intros s id nd H. rewrite find_node_to_snap in H.
  destruct (cfind (cn s) id) as [cnd|]; simpl in H; [|discriminate].
  exists cnd. split; [reflexivity | congruence].
Qed.

Lemma nlevels_to_snap : forall s, nlevels (to_snap s) = nl.
Proof. intros s. unfold nlevels. simpl. apply seq_length. Qed.

Lemma rlevel_to_snap : forall s r, rlevel (to_snap s) r = crlevel nl (cn s) r.
Proof.
  intros s [x|id]; simpl rlevel; [apply nlevels_to_snap|].
  rewrite find_node_to_snap. simpl. destruct (cfind (cn s) id); simpl; [reflexivity | apply nlevels_to_snap].
Qed.

Lemma ref_ok_b_to_snap : forall s r, ref_ok_b (to_snap s) r = cref_ok_b terms (cn s) r.
Proof.
  intros s [x|id]; simpl ref_ok_b; [reflexivity|].
  rewrite find_node_to_snap. simpl. destruct (cfind (cn s) id); reflexivity.
Qed.

Lemma reduced_b_to_snap : forall s ch, reduced_b (to_snap s) ch = creduced_b k terms ch.
Proof. intros s ch. unfold reduced_b, creduced_b. simpl. destruct k; reflexivity. Qed.

Lemma tags_ok_b_to_snap : forall s ch, tags_ok_b (to_snap s) ch = ctags_ok_b k ch.
Proof. reflexivity. Qed.

Lemma node_ok_b_to_snap : forall s nd,
  node_ok_b (to_snap s) (to_node nd) = node_pre_b (cn s) (cl nd) (cch nd).
Proof.
  intros s nd. unfold node_ok_b, Conc.node_pre_b. simpl nchildren. simpl nlevel. simpl nstored.
  rewrite Nat.eqb_refl, andb_true_r, nlevels_to_snap, reduced_b_to_snap, tags_ok_b_to_snap.
  f_equal. f_equal. f_equal. apply forallb_ext'. intros e.
  rewrite ref_ok_b_to_snap, rlevel_to_snap. reflexivity.
Qed.

Lemma nth_error_seq0 : forall n i, i < n -> nth_error (seq 0 n) i = Some i.
Proof.
  intros n i Hi. rewrite (nth_error_nth' (seq 0 n) 0) by (rewrite seq_length; exact Hi).
  rewrite seq_nth by exact Hi. reflexivity.
Qed.

Lemma edge_ok_b_spec : forall s e, edge_ok_b (cn s) e = true ->
  ref_ok (to_snap s) (eref e) /\ (s_kind (to_snap s) <> KBcdd -> etag e = false).
Proof.
  intros s e H. unfold Conc.edge_ok_b in H. apply andb_true_iff in H. destruct H as [H1 H2].
  split.
  - apply ref_ok_b_spec. rewrite ref_ok_b_to_snap. exact H1.
  - simpl. intros Hk. destruct k; try congruence; apply negb_true_iff in H2; exact H2.
Qed.

(** 3a. the snapshot of a state that satisfies the invariant is well-formed (C03) *)
Theorem conc_WF : forall s, CInv s -> terms_unique_b terms = true -> WF (to_snap s).
Proof.
  intros s H Ht.
  assert (Hn : forall id nd, find_node (to_snap s) id = Some nd -> node_ok (to_snap s) nd).
  { intros id nd F. destruct (find_node_to_snap_inv s id nd F) as [cnd [Fc ->]].
    apply node_ok_b_spec. rewrite node_ok_b_to_snap.
    apply (ti_pre _ _ _ _ (ci_tbl _ _ _ s H) id cnd Fc). }
  constructor.
  - reflexivity.
  - intros i Hi. simpl in *. rewrite seq_length in Hi. exists i. split; apply nth_error_seq0; exact Hi.
  - intros i Hi. simpl in *. rewrite seq_length in Hi. exists i. split; apply nth_error_seq0; exact Hi.
  - intros id nd F. apply (Hn id nd F).
  - intros id nd F. apply (Hn id nd F).
  - intros id nd F. apply (Hn id nd F).
  - intros id nd e F. apply (Hn id nd F).
  - intros id nd F. apply (Hn id nd F).
  - intros Hk id nd e F. apply (Hn id nd F). exact Hk.
  - intros i1 i2 n1 n2 F1 F2 Hl Hc.
    destruct (find_node_to_snap_inv s i1 n1 F1) as [c1 [G1 ->]].
    destruct (find_node_to_snap_inv s i2 n2 F2) as [c2 [G2 ->]].
    apply (ti_uniq _ _ _ _ (ci_tbl _ _ _ s H) i1 i2 c1 c2 G1 G2 Hl Hc).
  - apply (proj1 (terms_unique_b_spec terms) Ht).
  - apply (proj1 (terms_unique_b_spec terms) Ht).
  - intros h Hh. simpl in Hh. apply in_map_iff in Hh. destruct Hh as [o [<- Ho]]. simpl snd.
    apply edge_ok_b_spec. apply (ci_own _ _ _ s H o Ho).
Qed.

(** ** the counts of the snapshot *)

Lemma refs_to_cnt : forall id l, refs_to id (map eref l) = cnt id l.
Proof.
  induction l as [|e r IH]; simpl; [reflexivity|].
  unfold refs_to in *. simpl. unfold points_to.
  destruct (ref_eq_dec (eref e) (RN id)) as [E|Hne].
  - rewrite E, Pos.eqb_refl, IH. reflexivity.
  - rewrite IH. destruct (eref e) as [x|j]; [reflexivity|].
    destruct (Pos.eqb_spec j id) as [->|_]; [congruence | reflexivity].
Qed.

Definition conv_entry (p : positive * cnode) : positive * node := (fst p, to_node (snd p)).

Lemma elements_to_map_perm : forall t, NoDup (map fst t) ->
  Permutation (PositiveMap.elements (to_map t)) (map conv_entry t).
Proof.
  intros t Hnd. apply NoDup_Permutation.
  - apply NoDup_map_inv with (f := fst). apply elements_keys_nodup.
  - apply NoDup_map_inv with (f := fst). rewrite map_map. simpl. exact Hnd.
  - intros [id nd]. split.
    + intros Hin. apply PositiveMap.elements_complete in Hin. rewrite find_to_map in Hin.
      destruct (cfind t id) as [cnd|] eqn:F; simpl in Hin; [|discriminate]. inversion Hin; subst.
      apply in_map_iff. exists (id, cnd). split; [reflexivity | apply cfind_In; exact F].
    + intros Hin. apply in_map_iff in Hin. destruct Hin as [[i cnd] [E Hin]].
      unfold conv_entry in E. simpl in E. inversion E; subst.
      apply PositiveMap.elements_correct. rewrite find_to_map, (In_cfind t id cnd Hnd Hin). reflexivity.
Qed.

Lemma refs_to_children_list : forall id t,
  refs_to id (flat_map (fun p : positive * node => map eref (nchildren (snd p))) (map conv_entry t)) =
  parents t id.
Proof.
  induction t as [|[i n] r IH]; simpl; [reflexivity|].
  rewrite refs_to_app, IH, refs_to_cnt. reflexivity.
Qed.

Lemma refs_to_child_refs : forall s id, NoDup (map fst (cn s)) ->
  refs_to id (child_refs (to_snap s)) = parents (cn s) id.
Proof.
  intros s id Hnd. unfold child_refs. simpl s_nodes.
  rewrite <- refs_to_children_list. unfold refs_to.
  apply Permutation_count_occ. apply Permutation_flat_map. apply elements_to_map_perm. exact Hnd.
Qed.

Lemma refs_to_handle_refs : forall s id, refs_to id (handle_refs (to_snap s)) = owners (cown s) id.
Proof.
  intros s id. unfold handle_refs, owners. simpl s_handles. rewrite map_map. simpl.
  rewrite <- refs_to_cnt, map_map. reflexivity.
Qed.

(** 3b. the reference counts of the snapshot are exact in the sense of C05 (no extra
    manager-internal owners) *)
Theorem conc_rc_exact : forall s, CInv s -> rc_exact_b (to_snap s) [] = true.
Proof.
  intros s H. apply rc_exact_b_spec. intros id nd F.
  destruct (find_node_to_snap_inv s id nd F) as [cnd [Fc ->]]. simpl nrc.
  rewrite (ci_rc _ _ _ s H id cnd Fc), refs_to_handle_refs,
    (refs_to_child_refs s id (ti_nodup _ _ _ _ (ci_tbl _ _ _ s H))).
  simpl. unfold refs_to. simpl. f_equal. lia.
Qed.

Theorem conc_wf : forall s, CInv s -> terms_unique_b terms = true ->
  WF (to_snap s) /\ rc_exact_b (to_snap s) [] = true.
Proof. intros s H Ht. split; [apply conc_WF; assumption | apply conc_rc_exact; assumption]. Qed.

(** the same through the executable checkers that the driver runs on real snapshots *)
Corollary conc_wf_b : forall s, CInv s -> terms_unique_b terms = true ->
  wf_b (to_snap s) = true /\ rc_exact_b (to_snap s) [] = true.
Proof.
  intros s H Ht. split; [apply wf_b_spec; apply conc_WF; assumption | apply conc_rc_exact; assumption].
Qed.

Lemma terms_kind_to_snap : forall s, terms_ok -> terms_kind (to_snap s).
Proof. intros s [_ H]. unfold terms_kind. simpl. destruct k; exact H. Qed.

(** ** 4. canonicity in every concurrent state *)

(** any two valid edge values with the same denotation are the same edge *)
Theorem conc_canonical_edges : forall s, CInv s -> terms_ok ->
  forall e1 e2, edge_ok_b (cn s) e1 = true -> edge_ok_b (cn s) e2 = true ->
  (forall c, (forall l, c l < arity k) -> sem_edge (to_snap s) e1 c = sem_edge (to_snap s) e2 c) ->
  e1 = e2.
Proof.
  intros s H Ht e1 e2 O1 O2 Hsem.
  destruct (edge_ok_b_spec s e1 O1) as [R1 T1]. destruct (edge_ok_b_spec s e2 O2) as [R2 T2].
  assert (Hfull : WFfull (to_snap s)).
  { split; [apply conc_WF; [exact H | apply Ht] | apply terms_kind_to_snap; exact Ht]. }
  apply (proj2 (canon_edges (to_snap s) Hfull e1 e2 R1 R2 (fun Hk => conj (T1 Hk) (T2 Hk)))).
  intros c Hc. apply Hsem. exact Hc.
Qed.

(** two owned edges (of any two threads) with the same denotation are equal *)
Theorem conc_canonical_inv : forall s, CInv s -> terms_ok ->
  forall t1 t2 e1 e2, In (t1, e1) (cown s) -> In (t2, e2) (cown s) ->
  (forall c, (forall l, c l < arity k) -> sem_edge (to_snap s) e1 c = sem_edge (to_snap s) e2 c) ->
  e1 = e2.
Proof.
  intros s H Ht t1 t2 e1 e2 H1 H2. apply conc_canonical_edges; auto.
  - apply (ci_own _ _ _ s H (t1, e1) H1).
  - apply (ci_own _ _ _ s H (t2, e2) H2).
Qed.

(** ... in every state reachable by any schedule from the empty manager *)
Theorem conc_canonical : forall sched s, terms_ok -> run cempty sched = Some s ->
  WF (to_snap s) /\ rc_exact_b (to_snap s) [] = true /\
  forall t1 t2 e1 e2, In (t1, e1) (cown s) -> In (t2, e2) (cown s) ->
  (forall c, (forall l, c l < arity k) -> sem_edge (to_snap s) e1 c = sem_edge (to_snap s) e2 c) ->
  e1 = e2.
Proof.
  intros sched s Ht Hr. pose proof (reachable_inv k terms nl sched s Hr) as H.
  split; [apply conc_WF; [exact H | apply Ht]|]. split; [apply conc_rc_exact; exact H|].
  apply conc_canonical_inv; assumption.
Qed.

(** owned edges always have a denotation (the interpreters do not run out of fuel and
    meet no dangling reference) *)
Theorem conc_sem_total : forall s, CInv s -> terms_unique_b terms = true ->
  forall tid e c, In (tid, e) (cown s) -> (forall l, c l < arity k) ->
  exists v, sem_edge (to_snap s) e c = Some v.
Proof.
  intros s H Ht tid e c Hin Hc.
  apply (sem_total (to_snap s) (conc_WF s H Ht)).
  - apply (edge_ok_b_spec s e (ci_own _ _ _ s H (tid, e) Hin)).
  - exact Hc.
Qed.

(** ** [cinv_b] decides [CInv] *)

Lemma keys_nodup_b_spec : forall t, keys_nodup_b t = true <-> NoDup (map fst t).
Proof.
  induction t as [|[i n] r IH]; simpl.
  - split; [constructor | reflexivity].
  - rewrite andb_true_iff, negb_true_iff, IH. split.
    + intros [H1 H2]. constructor; [|exact H2]. intros Hin.
      apply in_map_iff in Hin. destruct Hin as [p [Hp1 Hp2]].
      assert (X : existsb (fun p => Pos.eqb (fst p) i) r = true).
      { apply existsb_exists. exists p. split; [exact Hp2 | apply Pos.eqb_eq; exact Hp1]. }
      congruence.
    + intros H. inversion H as [|? ? Hi Hr]; subst. split; [|exact Hr].
      destruct (existsb _ r) eqn:E; [|reflexivity]. exfalso.
      apply existsb_exists in E. destruct E as [p [Hp1 Hp2]]. apply Pos.eqb_eq in Hp2.
      apply Hi. rewrite <- Hp2. apply in_map. exact Hp1.
Qed.

Lemma shapes_unique_b_spec : forall t, NoDup (map fst t) ->
  (shapes_unique_b t = true <->
   forall i1 i2 n1 n2, In (i1, n1) t -> In (i2, n2) t -> cl n1 = cl n2 -> cch n1 = cch n2 -> i1 = i2).
Proof.
  induction t as [|[i n] r IH]; intros Hnd; simpl.
  - split; [intros _ i1 i2 n1 n2 [] | reflexivity].
  - inversion Hnd as [|? ? Hi Hr]; subst.
    rewrite andb_true_iff, negb_true_iff, (IH Hr).
    assert (Hex : existsb (fun p => Nat.eqb (cl (snd p)) (cl n) && edges_eqb (cch (snd p)) (cch n)) r = false <->
                  forall j m, In (j, m) r -> ~ (cl m = cl n /\ cch m = cch n)).
    { split.
      - intros E j m Hin [H1 H2].
        assert (X : existsb (fun p => Nat.eqb (cl (snd p)) (cl n) && edges_eqb (cch (snd p)) (cch n)) r = true).
        { apply existsb_exists. exists (j, m). split; [exact Hin|]. simpl.
          apply andb_true_iff. split; [apply Nat.eqb_eq; exact H1 | apply edges_eqb_eq; exact H2]. }
        congruence.
      - intros H. destruct (existsb _ r) eqn:E; [|reflexivity]. exfalso.
        apply existsb_exists in E. destruct E as [[j m] [Hin E]]. simpl in E.
        apply andb_true_iff in E. destruct E as [E1 E2].
        apply Nat.eqb_eq in E1. apply edges_eqb_eq in E2. apply (H j m Hin). auto. }
    rewrite Hex. split.
    + intros [H1 H2] i1 i2 n1 n2 [E1|I1] [E2|I2] Hl Hc.
      * congruence.
      * inversion E1; subst. exfalso. apply (H1 i2 n2 I2). auto.
      * inversion E2; subst. exfalso. apply (H1 i1 n1 I1). auto.
      * apply (H2 i1 i2 n1 n2 I1 I2 Hl Hc).
    + intros H. split.
      * intros j m Hin [H1 H2]. apply Hi.
        rewrite (H i j n m (or_introl eq_refl) (or_intror Hin) (eq_sym H1) (eq_sym H2)).
        apply (in_map fst) in Hin. exact Hin.
      * intros i1 i2 n1 n2 I1 I2. apply H; right; assumption.
Qed.

Theorem cinv_b_spec : forall s, cinv_b k terms nl s = true <-> CInv s.
Proof.
  intros s. unfold cinv_b. rewrite !andb_true_iff, keys_nodup_b_spec, !forallb_forall.
  split.
  - intros [[[[H1 H2] H3] H4] H5]. constructor; [constructor|idtac|idtac].
    + exact H1.
    + intros id nd F. apply (H2 (id, nd)). apply cfind_In. exact F.
    + intros i1 i2 n1 n2 F1 F2. apply (proj1 (shapes_unique_b_spec (cn s) H1) H3);
        apply cfind_In; assumption.
    + exact H4.
    + intros id nd F. specialize (H5 (id, nd) (cfind_In _ _ _ F)). simpl in H5.
      apply N.eqb_eq in H5. exact H5.
  - intros [[H1 H2 H3] H4 H5]. repeat split.
    + exact H1.
    + intros [id nd] Hin. simpl. apply (H2 id nd). apply In_cfind; assumption.
    + apply (shapes_unique_b_spec (cn s) H1). intros i1 i2 n1 n2 I1 I2.
      apply (H3 i1 i2 n1 n2); apply In_cfind; assumption.
    + exact H4.
    + intros [id nd] Hin. simpl. apply N.eqb_eq. apply (H5 id nd). apply In_cfind; assumption.
Qed.

End Snap.
