(** * C07 — reference-counted TERMINALS next to the apply cache and the collector
      (executable definitions only, no proofs)

    Mgr/ConcCache.v treats terminals as static (BDD / BCDD / ZBDD: `StaticTerminalManager`,
    whose `gc()` is a no-op).  MTBDDs use the DYNAMIC terminal manager
    /repo/crates/oxidd-manager-index/src/terminal_manager/dynamic.rs
    (`DynamicTerminalManager`): terminals are hash-consed BY VALUE, reference counted and
    collected by `terminal_manager.gc()`, which `Manager::gc`
    (/repo/crates/oxidd-manager-index/src/manager.rs) calls after the sweep over the levels
    and BEFORE `post_gc`, i.e. while `pre_gc` (crates/oxidd-cache/src/direct.rs) has cleared
    every apply cache bucket and keeps all of them locked.  The apply cache stores WEAK
    (uncounted) edges, also to terminals (`Datum::write_edge`): operands of `apply_bin`
    (crates/oxidd-rules-mtbdd/src/apply_rec.rs) may be constants, and the value edge is a
    terminal whenever `reduce` collapses the two cofactor results (f + g = c).

    This file is the terminal-level complement of ConcCache.v: the state is the terminal
    table + the ownership tokens of COUNTED terminal edges + the cache buckets (terminal ids
    of the operand / value edges of their entries) + the collector's phase.

      [XGet h v]          `Manager::get_terminal(v)` = `DynamicTerminalManager::get_edge`
                          under the state mutex: `find_or_find_insert_slot(hash, value == v)`;
                          found: `retain(id)`; not found: `id = next_free` (= store.len():
                          `Err(OutOfMemory)`, nothing changes), the slot is popped from the
                          free chain and written with `rc = 2` (table + returned edge: [tn_rc]
                          = 1), the id enters the unique table.  [h] gets the token.
      [XRetain h x]       `Store::clone_edge` -> `terminal_manager.retain(x)` of an edge that
                          is borrowed from SOME counted edge (enabled iff somebody owns one)
      [XDrop h x]         `Store::drop_edge` -> `release(x)` of an edge [h] owns
      [XMove h h' x]      a counted edge changes its holder.  Holders are numbers: threads,
                          handles AND stored inner nodes (the child edges of a stored node are
                          counted edges; `get_or_insert` moves the caller's edges into the new
                          node, the collector's `free_slot` = `drop_with(drop_edge)` drops
                          them), so the inner-node table of ConcCache.v is abstracted to "some
                          holders are nodes".
      [XTryLock tid b]    `Entry::try_lock`: `!swap(true)`; busy bucket = miss / skipped insert
      [XAdd tid b e]      `EntryGuard::set` with the bucket's lock held: the terminal ids of
                          the BORROWED operand and value edges are written, no count changes
      [XLookup tid b args] `EntryGuard::get` with the lock held: operand edges compared BY
                          VALUE of the edge (no dereference); hit = `clone_edge` of every
                          value edge (count + 1, token for [tid])
      [XUnlock tid b]     `Drop for EntryGuard`
      [XGcBegin]          `gc_ongoing.try_lock()` succeeded, `pre_gc` starts
      [XGcLockBucket b]   one iteration of `pre_gc`: blocking `lock()` (enabled iff the bucket
                          is free), `clear()`, `forget(guard)`; ascending order
      [XGcSweepBegin]     all buckets are held: the sweep over the levels starts
      [XGcTerm x]         one iteration of `unique_table.retain(..)` in
                          `DynamicTerminalManager::gc`: the entry is removed iff
                          `rc.load(Acquire) == 1` ([tn_rc] = 0), the slot is pushed onto the
                          free chain.  THE PROTOCOL: enabled only in phase [PSweep] (= between
                          `pre_gc` and `post_gc`).  (Every entry is a step of its own that
                          interleaves with all other actions, also with [XGet], which the
                          state mutex excludes in the code: this only adds behaviours.)
      [XGcSweepDone]      `post_gc` starts
      [XGcUnlockBucket b] one iteration of `post_gc`: `unlock()`, ascending
      [XGcEnd]            `gc_ongoing.unlock()`

    PROTOCOL VARIANT [late] (the same step function): `store.terminal_manager.gc()` is called
    AFTER `post_gc` ("unlock the cache as early as possible"): [XGcTerm] is enabled only in the
    extra phase [PLate] that follows the last `unlock()`.  ConcTermExamples.v runs this variant
    to a cache hit that hands out a freed (and reused) terminal slot.

    [tn_rc] is the count WITHOUT the unique table's own reference (stored value - 1). *)

From Coq Require Import List NArith Bool Arith.
Import ListNotations.

(** a stored terminal: value code (`T: Eq + Hash`; equality of codes = `Eq`) and count *)
Record tnode := mkTN { tn_val : N; tn_rc : N }.

(** the unique table of the terminal manager: id |-> terminal *)
Definition ttab := list (N * tnode).

(** the terminal ids among the operand edges (the key) and among the value edges of an entry *)
Record tentry := mkTE { te_args : list N; te_vals : list N }.

Definition te_ids (e : tentry) : list N := te_args e ++ te_vals e.

(** who holds a bucket's spin lock *)
Inductive locker := LFree | LWorker (tid : nat) | LCollector.

Record tbucket := mkTB { tb_ent : option tentry; tb_lock : locker }.

Definition tbucket0 : tbucket := mkTB None LFree.

(** phases of `Manager::gc`; [PLate] only exists in the variant [late] *)
Inductive tphase := PIdle | PLock | PSweep | PUnlock | PLate.

(** [ct_free]: the free chain (head = `state.next_free`); [ct_own]: (holder, terminal id) for
    every counted edge; [ct_next]: buckets processed by `pre_gc` resp. `post_gc` *)
Record cts := mkCT {
  ct_tt : ttab; ct_free : list N; ct_own : list (nat * N);
  ct_b : list tbucket; ct_ph : tphase; ct_next : nat }.

(** `with_capacity(cap)` and a cache of [nb] buckets *)
Definition ctinit (cap nb : nat) : cts :=
  mkCT [] (map N.of_nat (seq 0 cap)) [] (repeat tbucket0 nb) PIdle 0.

Inductive xact :=
| XGet (h : nat) (v : N)
| XRetain (h : nat) (x : N)
| XDrop (h : nat) (x : N)
| XMove (h h' : nat) (x : N)
| XTryLock (tid b : nat)
| XAdd (tid b : nat) (e : tentry)
| XLookup (tid b : nat) (args : list N)
| XUnlock (tid b : nat)
| XGcBegin
| XGcLockBucket (b : nat)
| XGcSweepBegin
| XGcTerm (x : N)
| XGcSweepDone
| XGcUnlockBucket (b : nat)
| XGcLateBegin
| XGcEnd.

Inductive xres :=
| XRunit
| XRterm (x : N)
| XRoom
| XRbusy
| XRmiss
| XRhit (vals : list N)
| XRkept
| XRfreed.

(** `get_terminal(id)` *)
Fixpoint tfind (t : ttab) (x : N) : option tnode :=
  match t with
  | [] => None
  | (i, nd) :: r => if N.eqb i x then Some nd else tfind r x
  end.

Definition stored_b (t : ttab) (x : N) : bool :=
  match tfind t x with Some _ => true | None => false end.

(** `find_or_find_insert_slot(hash, |id| store[id].value == v)` *)
Fixpoint tfind_val (t : ttab) (v : N) : option N :=
  match t with
  | [] => None
  | (i, nd) :: r => if N.eqb (tn_val nd) v then Some i else tfind_val r v
  end.

(** atomic read-modify-write of the count of [x] *)
Fixpoint tupd (f : N -> N) (x : N) (t : ttab) : ttab :=
  match t with
  | [] => []
  | (i, nd) :: r =>
    if N.eqb i x then (i, mkTN (tn_val nd) (f (tn_rc nd))) :: r else (i, nd) :: tupd f x r
  end.

Fixpoint tremove (x : N) (t : ttab) : ttab :=
  match t with
  | [] => []
  | (i, nd) :: r => if N.eqb i x then r else (i, nd) :: tremove x r
  end.

(** number of counted edges to [x] *)
Fixpoint xowners (own : list (nat * N)) (x : N) : nat :=
  match own with
  | [] => 0
  | o :: r => (if N.eqb (snd o) x then 1 else 0) + xowners r x
  end.

Definition owned_b (own : list (nat * N)) (x : N) : bool := existsb (fun o => N.eqb (snd o) x) own.

Definition xtok_eqb (a b : nat * N) : bool := Nat.eqb (fst a) (fst b) && N.eqb (snd a) (snd b).

Fixpoint xtake_tok (x : nat * N) (own : list (nat * N)) : option (list (nat * N)) :=
  match own with
  | [] => None
  | y :: r =>
    if xtok_eqb x y then Some r
    else match xtake_tok x r with Some r' => Some (y :: r') | None => None end
  end.

Fixpoint ids_eqb (a b : list N) : bool :=
  match a, b with
  | [], [] => true
  | x :: r, y :: s => N.eqb x y && ids_eqb r s
  | _, _ => false
  end.

Fixpoint xupd_nth {A : Type} (l : list A) (i : nat) (x : A) : list A :=
  match l, i with
  | [], _ => []
  | _ :: r, O => x :: r
  | y :: r, S j => y :: xupd_nth r j x
  end.

(** `clone_edge` of every value edge of a hit *)
Fixpoint retain_vals (tid : nat) (vals : list N) (t : ttab) (own : list (nat * N)) : ttab * list (nat * N) :=
  match vals with
  | [] => (t, own)
  | x :: r => retain_vals tid r (tupd N.succ x t) ((tid, x) :: own)
  end.

Definition tphase_eqb (a b : tphase) : bool :=
  match a, b with
  | PIdle, PIdle | PLock, PLock | PSweep, PSweep | PUnlock, PUnlock | PLate, PLate => true
  | _, _ => false
  end.

Definition is_free (l : locker) : bool := match l with LFree => true | _ => false end.
Definition held_by (l : locker) (tid : nat) : bool :=
  match l with LWorker t => Nat.eqb t tid | _ => false end.
Definition is_collector (l : locker) : bool := match l with LCollector => true | _ => false end.

(** buckets the collector holds *)
Definition claimed_b (ph : tphase) (next b : nat) : bool :=
  match ph with
  | PIdle | PLate => false
  | PLock => Nat.ltb b next
  | PSweep => true
  | PUnlock => Nat.leb next b
  end.

Section Model.
(** [late = false]: the code; [late = true]: terminal collection after `post_gc` *)
Variable late : bool.

Definition xstep (s : cts) (a : xact) : option (cts * xres) :=
  let nb := length (ct_b s) in
  match a with
  | XGet h v =>
    match tfind_val (ct_tt s) v with
    | Some x =>
      Some (mkCT (tupd N.succ x (ct_tt s)) (ct_free s) ((h, x) :: ct_own s) (ct_b s) (ct_ph s) (ct_next s),
            XRterm x)
    | None =>
      match ct_free s with
      | [] => Some (s, XRoom)
      | x :: fr =>
        Some (mkCT ((x, mkTN v 1) :: ct_tt s) fr ((h, x) :: ct_own s) (ct_b s) (ct_ph s) (ct_next s),
              XRterm x)
      end
    end
  | XRetain h x =>
    if owned_b (ct_own s) x
    then Some (mkCT (tupd N.succ x (ct_tt s)) (ct_free s) ((h, x) :: ct_own s) (ct_b s) (ct_ph s) (ct_next s),
               XRunit)
    else None
  | XDrop h x =>
    match xtake_tok (h, x) (ct_own s) with
    | Some own' =>
      Some (mkCT (tupd N.pred x (ct_tt s)) (ct_free s) own' (ct_b s) (ct_ph s) (ct_next s), XRunit)
    | None => None
    end
  | XMove h h' x =>
    match xtake_tok (h, x) (ct_own s) with
    | Some own' =>
      Some (mkCT (ct_tt s) (ct_free s) ((h', x) :: own') (ct_b s) (ct_ph s) (ct_next s), XRunit)
    | None => None
    end
  | XTryLock tid b =>
    match nth_error (ct_b s) b with
    | None => None
    | Some bk =>
      if is_free (tb_lock bk)
      then Some (mkCT (ct_tt s) (ct_free s) (ct_own s) (xupd_nth (ct_b s) b (mkTB (tb_ent bk) (LWorker tid)))
                      (ct_ph s) (ct_next s), XRunit)
      else Some (s, XRbusy)
    end
  | XAdd tid b e =>
    match nth_error (ct_b s) b with
    | None => None
    | Some bk =>
      if held_by (tb_lock bk) tid && forallb (owned_b (ct_own s)) (te_ids e)
      then Some (mkCT (ct_tt s) (ct_free s) (ct_own s) (xupd_nth (ct_b s) b (mkTB (Some e) (tb_lock bk)))
                      (ct_ph s) (ct_next s), XRunit)
      else None
    end
  | XLookup tid b args =>
    match nth_error (ct_b s) b with
    | None => None
    | Some bk =>
      if held_by (tb_lock bk) tid then
        match tb_ent bk with
        | Some e =>
          if ids_eqb args (te_args e) then
            let (t', own') := retain_vals tid (te_vals e) (ct_tt s) (ct_own s) in
            Some (mkCT t' (ct_free s) own' (ct_b s) (ct_ph s) (ct_next s), XRhit (te_vals e))
          else Some (s, XRmiss)
        | None => Some (s, XRmiss)
        end
      else None
    end
  | XUnlock tid b =>
    match nth_error (ct_b s) b with
    | None => None
    | Some bk =>
      if held_by (tb_lock bk) tid
      then Some (mkCT (ct_tt s) (ct_free s) (ct_own s) (xupd_nth (ct_b s) b (mkTB (tb_ent bk) LFree))
                      (ct_ph s) (ct_next s), XRunit)
      else None
    end
  | XGcBegin =>
    match ct_ph s with
    | PIdle => Some (mkCT (ct_tt s) (ct_free s) (ct_own s) (ct_b s) PLock 0, XRunit)
    | _ => None
    end
  | XGcLockBucket b =>
    match ct_ph s with
    | PLock =>
      if Nat.eqb b (ct_next s) then
        match nth_error (ct_b s) b with
        | None => None
        | Some bk =>
          if is_free (tb_lock bk)
          then Some (mkCT (ct_tt s) (ct_free s) (ct_own s) (xupd_nth (ct_b s) b (mkTB None LCollector))
                          PLock (S (ct_next s)), XRunit)
          else None
        end
      else None
    | _ => None
    end
  | XGcSweepBegin =>
    match ct_ph s with
    | PLock => if Nat.eqb (ct_next s) nb
               then Some (mkCT (ct_tt s) (ct_free s) (ct_own s) (ct_b s) PSweep 0, XRunit) else None
    | _ => None
    end
  | XGcTerm x =>
    if tphase_eqb (ct_ph s) (if late then PLate else PSweep) then
      match tfind (ct_tt s) x with
      | None => None
      | Some nd =>
        if N.eqb (tn_rc nd) 0
        then Some (mkCT (tremove x (ct_tt s)) (x :: ct_free s) (ct_own s) (ct_b s) (ct_ph s) (ct_next s),
                   XRfreed)
        else Some (s, XRkept)
      end
    else None
  | XGcSweepDone =>
    match ct_ph s with
    | PSweep => Some (mkCT (ct_tt s) (ct_free s) (ct_own s) (ct_b s) PUnlock 0, XRunit)
    | _ => None
    end
  | XGcUnlockBucket b =>
    match ct_ph s with
    | PUnlock =>
      if Nat.eqb b (ct_next s) then
        match nth_error (ct_b s) b with
        | None => None
        | Some bk =>
          Some (mkCT (ct_tt s) (ct_free s) (ct_own s) (xupd_nth (ct_b s) b (mkTB (tb_ent bk) LFree))
                     PUnlock (S (ct_next s)), XRunit)
        end
      else None
    | _ => None
    end
  | XGcLateBegin =>
    match ct_ph s with
    | PUnlock => if late && Nat.eqb (ct_next s) nb
                 then Some (mkCT (ct_tt s) (ct_free s) (ct_own s) (ct_b s) PLate 0, XRunit) else None
    | _ => None
    end
  | XGcEnd =>
    match ct_ph s with
    | PUnlock => if negb late && Nat.eqb (ct_next s) nb
                 then Some (mkCT (ct_tt s) (ct_free s) (ct_own s) (ct_b s) PIdle 0, XRunit) else None
    | PLate => if late then Some (mkCT (ct_tt s) (ct_free s) (ct_own s) (ct_b s) PIdle 0, XRunit) else None
    | _ => None
    end
  end.

(** a schedule = any list of actions of any holders and of the collector *)
Fixpoint xrun (s : cts) (sched : list xact) : option cts :=
  match sched with
  | [] => Some s
  | a :: r =>
    match xstep s a with
    | None => None
    | Some (s', _) => xrun s' r
    end
  end.

Fixpoint xrun_results (s : cts) (sched : list xact) : option (cts * list xres) :=
  match sched with
  | [] => Some (s, [])
  | a :: r =>
    match xstep s a with
    | None => None
    | Some (s', x) =>
      match xrun_results s' r with
      | None => None
      | Some (s'', xs) => Some (s'', x :: xs)
      end
    end
  end.

End Model.

(** ** executable checkers *)

Fixpoint nodup_b (l : list N) : bool :=
  match l with
  | [] => true
  | x :: r => negb (existsb (N.eqb x) r) && nodup_b r
  end.

(** no weak edge of any bucket (locked or not) dangles *)
Definition xno_dangling_b (s : cts) : bool :=
  forallb (fun bk => match tb_ent bk with
                     | None => true
                     | Some e => forallb (stored_b (ct_tt s)) (te_ids e)
                     end) (ct_b s).

(** hash consing: ids and values are pairwise distinct; the free chain is disjoint *)
Definition xterms_unique_b (s : cts) : bool :=
  nodup_b (map fst (ct_tt s)) && nodup_b (map (fun p => tn_val (snd p)) (ct_tt s))
  && nodup_b (ct_free s) && forallb (fun x => negb (stored_b (ct_tt s) x)) (ct_free s).

(** exact counts: stored count = number of counted edges; every counted edge is to a stored terminal *)
Definition counts_exact_b (s : cts) : bool :=
  forallb (fun p => Nat.eqb (N.to_nat (tn_rc (snd p))) (xowners (ct_own s) (fst p))) (ct_tt s)
  && forallb (fun o => stored_b (ct_tt s) (snd o)) (ct_own s).

(** the buckets the collector holds are empty and carry its lock *)
Fixpoint claimed_ok_b (ph : tphase) (next : nat) (i : nat) (bs : list tbucket) : bool :=
  match bs with
  | [] => true
  | bk :: r =>
    (if claimed_b ph next i
     then match tb_ent bk with None => true | Some _ => false end && is_collector (tb_lock bk)
     else true)
    && claimed_ok_b ph next (S i) r
  end.

Definition phase_ok_b (s : cts) : bool :=
  claimed_ok_b (ct_ph s) (ct_next s) 0 (ct_b s).

Definition tinv_b (s : cts) : bool :=
  xterms_unique_b s && counts_exact_b s && xno_dangling_b s && phase_ok_b s.

(** ** lifting the end state of a parallel block (ocaml/c07_main.ml): the terminals listed by
    the manager, one counted edge per handle / per child edge of a stored node; the counts are
    the ones the invariant prescribes (the implementation's terminal counts cannot be read
    through the public API), the cache is empty (nothing is known about it), no collection runs *)
Definition lift_terms (terms : list (N * N)) (refs : list (nat * N)) (nb : nat) : cts :=
  mkCT (map (fun p => (fst p, mkTN (snd p) (N.of_nat (xowners refs (fst p))))) terms)
       [] refs (repeat tbucket0 nb) PIdle 0.
