(** * C07 — terminals, apply cache and collector: a complete collection of the code's protocol
    (non-vacuity) and the refutation of the variant that collects the terminals after `post_gc` *)

From Coq Require Import List NArith Bool Arith.
From OxiVerif Require Import Mgr.ConcTerm Mgr.ConcTermProofs Mgr.ConcTermThms.
Import ListNotations.

(** ** the code's protocol: insertion, hit by another thread, both results dropped, a full
    collection with a busy lookup, the terminal freed during the sweep and its slot reused *)

Definition key_res : tentry := mkTE [1%N] [0%N].     (* operand t1 (the constant 5), value t0 (= 7) *)

Definition tok_sched : list xact :=
  [ XGet 1 7; XGet 1 5;
    XTryLock 1 0; XAdd 1 0 key_res; XUnlock 1 0;
    XTryLock 2 0; XLookup 2 0 [1%N]; XUnlock 2 0;
    XDrop 1 0; XDrop 2 0;
    XGcBegin; XGcLockBucket 0; XTryLock 2 0; XGcLockBucket 1; XGcSweepBegin;
    XGcTerm 0; XGcTerm 1; XGet 2 9;
    XGcSweepDone; XGcUnlockBucket 0; XGcUnlockBucket 1; XGcEnd ].

Definition tok_mid : cts :=
  mkCT [(1%N, mkTN 5 1); (0%N, mkTN 7 2)] [2%N; 3%N] [(2, 0%N); (1, 1%N); (1, 0%N)]
       [mkTB (Some key_res) LFree; tbucket0] PIdle 0.

Definition tok_final : cts :=
  mkCT [(0%N, mkTN 9 1); (1%N, mkTN 5 1)] [2%N; 3%N] [(2, 0%N); (1, 1%N)]
       [tbucket0; tbucket0] PIdle 0.

Lemma tok_mid_run : xrun false (ctinit 4 2) (firstn 8 tok_sched) = Some tok_mid.
Proof. vm_compute. reflexivity. Qed.

Lemma tok_run : xrun false (ctinit 4 2) tok_sched = Some tok_final.
Proof. vm_compute. reflexivity. Qed.

Lemma tok_results :
  option_map snd (xrun_results false (ctinit 4 2) tok_sched) =
  Some [ XRterm 0; XRterm 1; XRunit; XRunit; XRunit; XRunit; XRhit [0%N]; XRunit; XRunit; XRunit;
         XRunit; XRunit; XRbusy; XRunit; XRunit; XRfreed; XRkept; XRterm 0;
         XRunit; XRunit; XRunit; XRunit ].
Proof. vm_compute. reflexivity. Qed.

Lemma tok_mid_inv : XInv tok_mid.
Proof. apply tinv_b_sound. vm_compute. reflexivity. Qed.

Lemma tok_mid_named : named tok_mid 0%N.
Proof. exists 0, (mkTB (Some key_res) LFree), key_res. simpl. auto. Qed.

(** ** REFUTED: `terminal_manager.gc()` after `post_gc` *)

(** a collection whose `post_gc` has unlocked the (only) bucket; then an operation inserts an
    entry whose value is a fresh terminal and drops its result; the late terminal collection
    frees the terminal; the collection ends *)
Definition late_sched : list xact :=
  [ XGcBegin; XGcLockBucket 0; XGcSweepBegin; XGcSweepDone; XGcUnlockBucket 0; XGcLateBegin;
    XGet 1 7; XGet 1 5;
    XTryLock 1 0; XAdd 1 0 key_res; XUnlock 1 0;
    XDrop 1 0;
    XGcTerm 0;
    XGcEnd ].

Definition late_bad : cts :=
  mkCT [(1%N, mkTN 5 1)] [0%N] [(1, 1%N)] [mkTB (Some key_res) LFree] PIdle 0.

Lemma late_run : xrun true (ctinit 2 1) late_sched = Some late_bad.
Proof. vm_compute. reflexivity. Qed.

(** a dangling weak edge in an unlocked bucket while no collection is running *)
Lemma late_dangling :
  xno_dangling_b late_bad = false /\ tfind (ct_tt late_bad) 0 = None /\ ct_ph late_bad = PIdle /\
  nth_error (ct_b late_bad) 0 = Some (mkTB (Some key_res) LFree) /\ tinv_b late_bad = false.
Proof. vm_compute. repeat split; reflexivity. Qed.

(** the next lookup of the memoised key is a hit that hands out the freed slot *)
Lemma late_hit_dangling :
  exists s, xrun_results true late_bad [ XTryLock 1 0; XLookup 1 0 [1%N] ] = Some (s, [ XRunit; XRhit [0%N] ]) /\
            tfind (ct_tt s) 0 = None /\ In (1, 0%N) (ct_own s) /\ counts_exact_b s = false.
Proof. eexists. vm_compute. repeat split; auto. Qed.

(** ... or, after another thread has created a new constant (the slot is reused), a terminal
    that carries the value 9 instead of the memoised 7: a wrong result *)
Lemma late_hit_wrong_value :
  exists s nd, xrun_results true late_bad [ XGet 2 9; XTryLock 1 0; XLookup 1 0 [1%N] ]
               = Some (s, [ XRterm 0; XRunit; XRhit [0%N] ]) /\
            tfind (ct_tt s) 0 = Some nd /\ tn_val nd = 9%N.
Proof. eexists. eexists. vm_compute. repeat split; auto. Qed.

(** the same schedule is not a behaviour of the code's protocol; nor is it with the terminal
    collection moved to where the code performs it (the insertion finds the bucket busy) *)
Lemma late_sched_impossible : xrun false (ctinit 2 1) late_sched = None.
Proof. vm_compute. reflexivity. Qed.

Definition good_order_sched : list xact :=
  [ XGcBegin; XGcLockBucket 0; XGcSweepBegin;
    XGet 1 7; XGet 1 5;
    XTryLock 1 0; XAdd 1 0 key_res ].

Lemma good_order_add_refused :
  xrun false (ctinit 2 1) good_order_sched = None /\
  option_map snd (xrun_results false (ctinit 2 1) (firstn 6 good_order_sched)) =
  Some [ XRunit; XRunit; XRunit; XRterm 0; XRterm 1; XRbusy ].
Proof. vm_compute. split; reflexivity. Qed.
