(** * C07t — log-level replay of the dynamic terminal manager (executable definitions only)

    The hooks of /repo (commit "verif hooks: terminal manager events", sites TERM_* of
    crates/oxidd-core/src/lib.rs, all inside
    crates/oxidd-manager-index/src/terminal_manager/dynamic.rs) report

      TERM_GET_FOUND id hash   `get_edge`, `Ok(slot)` arm, state mutex held, BEFORE `retain(id)`
      TERM_GET_NEW id hash     `get_edge`, `Err(table_slot)` arm, after `insert_in_slot_unchecked`
      TERM_GET_OOM hash        `get_edge`, `id == store.len()`, before `return Err(OutOfMemory)`
      TERM_RETAIN id           the free function `retain` after `fetch_add` (reached from
                               `Store::clone_edge`, from `get_edge` (found) and from
                               `DynamicTerminalIterator::next`)
      TERM_RELEASE id          `release` before `fetch_sub` (`Store::drop_edge`, `try_remove_node`)
      TERM_GC_BEGIN / TERM_GC_REMOVE id / TERM_GC_END n
                               `DynamicTerminalManager::gc` with the state mutex held: before
                               `unique_table.retain`, in its drop closure (the slot is pushed onto
                               the free chain), after `state.next_free = next_free`
      TERM_ITER id             `DynamicTerminalIterator::next` (the iterator holds the state
                               mutex) BEFORE `retain(self.store, id)`

    and the apply cache hooks report a hit with the bucket's lock held BEFORE the value edges are
    cloned (CACHE_HIT), the start of `pre_gc` (CACHE_PRE_GC), the start of the sweep (GC_BEGIN), the
    buckets `post_gc` unlocks (CACHE_POST_GC_BUCKET) and the end of the collection (GC_END).

    [ystep] is the projection of [xstep false] of Mgr/ConcTerm.v to what this log shows: the
    terminal table (id |-> value code, count without the table's own reference), the free chain,
    the collector's phase and, per thread, the reference count increments that an announced
    `found` / cache hit / iterator item still owes ([y_pend]).  The ownership tokens, the holders
    and the cache buckets of ConcTerm.v are erased (the buckets are replayed by [clstep] of
    Mgr/ConcCacheLog.v on the same log, with the terminals of [y_tt] as the stored terminals).
    The value code of a terminal is the hash the hook reports (`FxHasher` over `T: Hash`).

    Labels and what the code does there:

      [YFound t v x]   `find_or_find_insert_slot(hash, value == v)` = `Ok`: the model must hold the
                       value [v] under the id [x]; the increment is owed ([y_pend])
      [YNew t v x]     `Err(table_slot)`: the model must not hold [v]; [x] must be the head of the
                       free chain; entry with count 1 (`rc = 2`)
      [YOom t v]       [v] not stored and the chain empty: nothing changes
      [YHitVals t xs]  a cache hit whose value edges are the terminals [xs]: `clone_edge` of each is owed
      [YIter t x]      the iterator yields [x] (stored): the increment is owed
      [YRetain t x]    a `fetch_add`: if thread [t] owes increments, it must be the first one owed
                       (the terminal only has to be stored: the lender is the unique table resp. the
                       weak edge of the cache entry); otherwise it is `clone_edge` of a borrowed
                       edge: somebody holds a counted edge (count >= 1)
      [YRelease t x]   `fetch_sub`: the edge was counted (count >= 1)
      [YPreGc] [YSweep] [YPostGc] [YGcEnd]   the collector's phases as in ConcTerm.v
      [YScan]          `DynamicTerminalManager::gc` starts scanning: only in phase [PSweep]
      [YFree x]        its drop closure: only in phase [PSweep], [x] stored with count 0; the slot
                       is pushed onto the free chain
    A thread that owes increments can do nothing else first. *)

From Coq Require Import List NArith Bool Arith.
From OxiVerif Require Import Mgr.ConcTerm.
Import ListNotations.

Record yst := mkY {
  y_tt : ttab; y_free : list N; y_ph : tphase;
  y_pend : list (nat * N) }.          (* (thread, terminal): increments owed, oldest first *)

(** the slots [from, from + n) in ascending order (= [map N.of_nat (seq from n)], without the
    unary numbers: the driver starts managers with 4096 terminal slots) *)
Fixpoint nseq (n : nat) (from : N) : list N :=
  match n with
  | O => []
  | S k => from :: nseq k (N.succ from)
  end.

(** `with_capacity(cap)`: the projection of [ctinit cap nb] *)
Definition yinit (cap : nat) : yst := mkY [] (nseq cap 0) PIdle [].

Inductive ylab :=
| YFound (t : nat) (v x : N)
| YNew (t : nat) (v x : N)
| YOom (t : nat) (v : N)
| YHitVals (t : nat) (xs : list N)
| YIter (t : nat) (x : N)
| YRetain (t : nat) (x : N)
| YRelease (t : nat) (x : N)
| YPreGc
| YSweep
| YScan
| YFree (x : N)
| YPostGc
| YGcEnd.

(** the thread owes an increment *)
Definition yowes (p : list (nat * N)) (t : nat) : bool := existsb (fun o => Nat.eqb (fst o) t) p.

(** the first increment thread [t] owes is for [x]: it is taken out *)
Fixpoint ytake_pend (t : nat) (x : N) (p : list (nat * N)) : option (list (nat * N)) :=
  match p with
  | [] => None
  | o :: r =>
    if Nat.eqb (fst o) t
    then (if N.eqb (snd o) x then Some r else None)
    else match ytake_pend t x r with Some r' => Some (o :: r') | None => None end
  end.

Definition ycount (tt : ttab) (x : N) : option N :=
  match tfind tt x with Some nd => Some (tn_rc nd) | None => None end.

Definition ywith_tt (y : yst) (tt : ttab) : yst := mkY tt (y_free y) (y_ph y) (y_pend y).
Definition ywith_ph (y : yst) (ph : tphase) : yst := mkY (y_tt y) (y_free y) ph (y_pend y).
Definition ywith_pend (y : yst) (p : list (nat * N)) : yst := mkY (y_tt y) (y_free y) (y_ph y) p.

Definition ystep (y : yst) (l : ylab) : option yst :=
  match l with
  | YFound t v x =>
    if yowes (y_pend y) t then None else
    match tfind_val (y_tt y) v with
    | Some x' => if N.eqb x' x then Some (ywith_pend y (y_pend y ++ [(t, x)])) else None
    | None => None
    end
  | YNew t v x =>
    if yowes (y_pend y) t then None else
    match tfind_val (y_tt y) v, y_free y with
    | None, x' :: fr =>
      if N.eqb x' x then Some (mkY ((x, mkTN v 1) :: y_tt y) fr (y_ph y) (y_pend y)) else None
    | _, _ => None
    end
  | YOom t v =>
    if yowes (y_pend y) t then None else
    match tfind_val (y_tt y) v, y_free y with
    | None, [] => Some y
    | _, _ => None
    end
  | YHitVals t xs =>
    if yowes (y_pend y) t then None else
    if forallb (stored_b (y_tt y)) xs
    then Some (ywith_pend y (y_pend y ++ map (fun x => (t, x)) xs)) else None
  | YIter t x =>
    if yowes (y_pend y) t then None else
    if stored_b (y_tt y) x then Some (ywith_pend y (y_pend y ++ [(t, x)])) else None
  | YRetain t x =>
    if yowes (y_pend y) t then
      match ytake_pend t x (y_pend y) with
      | Some p' =>
        if stored_b (y_tt y) x
        then Some (mkY (tupd N.succ x (y_tt y)) (y_free y) (y_ph y) p') else None
      | None => None
      end
    else
      match ycount (y_tt y) x with
      | Some c => if N.ltb 0 c then Some (ywith_tt y (tupd N.succ x (y_tt y))) else None
      | None => None
      end
  | YRelease t x =>
    if yowes (y_pend y) t then None else
    match ycount (y_tt y) x with
    | Some c => if N.ltb 0 c then Some (ywith_tt y (tupd N.pred x (y_tt y))) else None
    | None => None
    end
  | YPreGc => match y_ph y with PIdle => Some (ywith_ph y PLock) | _ => None end
  | YSweep => match y_ph y with PLock => Some (ywith_ph y PSweep) | _ => None end
  | YScan => match y_ph y with PSweep => Some y | _ => None end
  | YFree x =>
    match y_ph y with
    | PSweep =>
      match ycount (y_tt y) x with
      | Some c =>
        if N.eqb c 0
        then Some (mkY (tremove x (y_tt y)) (x :: y_free y) (y_ph y) (y_pend y)) else None
      | None => None
      end
    | _ => None
    end
  | YPostGc => match y_ph y with PSweep => Some (ywith_ph y PUnlock) | _ => None end
  | YGcEnd => match y_ph y with PUnlock => Some (ywith_ph y PIdle) | _ => None end
  end.

Fixpoint yrun (y : yst) (log : list ylab) : option yst :=
  match log with
  | [] => Some y
  | l :: r => match ystep y l with Some y' => yrun y' r | None => None end
  end.

(** ** the projection of the full model *)

Definition yproj (s : cts) : yst := mkY (ct_tt s) (ct_free s) (ct_ph s) [].

(** the log of one action of ConcTerm.v ([r] = its result) *)
Definition xlabs (s : cts) (a : xact) (r : xres) : list ylab :=
  match a, r with
  | XGet h v, XRterm x =>
    match tfind_val (ct_tt s) v with
    | Some _ => [YFound h v x; YRetain h x]
    | None => [YNew h v x]
    end
  | XGet h v, XRoom => [YOom h v]
  | XRetain h x, _ => [YRetain h x]
  | XDrop h x, _ => [YRelease h x]
  | XLookup tid _ _, XRhit vals => YHitVals tid vals :: map (YRetain tid) vals
  | XGcBegin, _ => [YPreGc]
  | XGcSweepBegin, _ => [YSweep]
  | XGcTerm x, XRfreed => [YFree x]
  | XGcTerm x, XRkept => [YScan]
  | XGcSweepDone, _ => [YPostGc]
  | XGcEnd, _ => [YGcEnd]
  | _, _ => []
  end.

Fixpoint xtrace (s : cts) (sched : list xact) : option (cts * list ylab) :=
  match sched with
  | [] => Some (s, [])
  | a :: r =>
    match xstep false s a with
    | None => None
    | Some (s', res) =>
      match xtrace s' r with
      | None => None
      | Some (s'', log) => Some (s'', xlabs s a res ++ log)
      end
    end
  end.

(** ** the comparison with the snapshot after a block (ocaml/c07_main.ml)

    [terms]: the ids the manager lists; [refs]: one entry (holder, id) per counted edge the
    snapshot shows (handles, child edges of stored inner nodes).  The replayed table must hold
    exactly the listed ids, every counted edge must name one of them, the replayed count of
    every terminal must be the number of counted edges to it, and no thread owes an increment. *)
Definition ymatch_b (y : yst) (ids : list N) (refs : list (nat * N)) : bool :=
  forallb (fun x => stored_b (y_tt y) x) ids
  && forallb (fun p => existsb (N.eqb (fst p)) ids) (y_tt y)
  && forallb (fun o => stored_b (y_tt y) (snd o)) refs
  && forallb (fun p => Nat.eqb (N.to_nat (tn_rc (snd p))) (xowners refs (fst p))) (y_tt y)
  && match y_pend y with [] => true | _ => false end.

(** the invariant of the replayed state, executable *)
Definition yinv_b (y : yst) : bool :=
  nodup_b (map fst (y_tt y)) && nodup_b (map (fun p => tn_val (snd p)) (y_tt y))
  && nodup_b (y_free y) && forallb (fun x => negb (stored_b (y_tt y) x)) (y_free y).

(** the full-model state that the replayed table and the snapshot's counted edges make up *)
Definition ylift (y : yst) (refs : list (nat * N)) (nb : nat) : cts :=
  mkCT (y_tt y) (y_free y) refs (repeat tbucket0 nb) PIdle 0.
