(** * C07t — the log-level replay of the terminal manager (Mgr/ConcTermLog.v):
      it accepts the log of every behaviour of the interleaving model Mgr/ConcTerm.v, keeps the
      table's invariant, and a replayed table that matches a snapshot makes up, together with the
      snapshot's counted edges, a state of the full model that satisfies its invariant *)

From Coq Require Import List NArith Bool Arith Lia.
From OxiVerif Require Import Mgr.ConcTerm Mgr.ConcTermProofs Mgr.ConcTermLog.
Import ListNotations.

Arguments N.add : simpl never.
Arguments N.sub : simpl never.
Arguments N.mul : simpl never.

(** ** small facts *)

Lemma in_owners_pos : forall own o, In o own -> 0 < xowners own (snd o).
Proof.
  intros own o I. apply owned_b_owners. unfold owned_b. apply existsb_exists.
  exists o. split; [assumption|apply N.eqb_refl].
Qed.

Lemma tphase_eqb_eq : forall a b, tphase_eqb a b = true -> a = b.
Proof. intros [] []; simpl; intros H; try discriminate; reflexivity. Qed.

Lemma yowes_nil : forall t, yowes [] t = false.
Proof. reflexivity. Qed.

Lemma tfind_val_stored : forall t v x, NoDup (map fst t) -> tfind_val t v = Some x ->
  exists nd, tfind t x = Some nd /\ tn_val nd = v.
Proof.
  intros t v x ND H. apply tfind_val_some in H. destruct H as (nd & I & E).
  exists nd. split; [apply in_tfind; assumption|assumption].
Qed.

(** the increments a hit owes, one after the other *)
Lemma yrun_retains : forall tid vals tt fr ph own,
  (forall x, In x vals -> stored_b tt x = true) ->
  yrun (mkY tt fr ph (map (fun x => (tid, x)) vals)) (map (YRetain tid) vals) =
  Some (mkY (fst (retain_vals tid vals tt own)) fr ph []).
Proof.
  induction vals as [|x r IH]; intros tt fr ph own ST.
  - reflexivity.
  - cbn [map yrun]. unfold ystep. cbn [y_pend y_tt y_free y_ph].
    assert (O : yowes ((tid, x) :: map (fun x0 => (tid, x0)) r) tid = true).
    { unfold yowes. cbn. rewrite Nat.eqb_refl. reflexivity. }
    rewrite O. cbn [ytake_pend fst snd]. rewrite Nat.eqb_refl, N.eqb_refl.
    rewrite (ST x (or_introl eq_refl)).
    cbn [retain_vals]. apply IH.
    intros y I. rewrite stored_tupd. apply ST. right. assumption.
Qed.

(** ** the replay accepts the log of every action of the full model *)

Theorem ysim : forall s a s' r, XInv s -> xstep false s a = Some (s', r) ->
  yrun (yproj s) (xlabs s a r) = Some (yproj s').
Proof.
  intros s a s' r I H. destruct a; cbn [xstep] in H.
  - (* XGet *)
    destruct (tfind_val (ct_tt s) v) as [x|] eqn:FV.
    + inv_some. cbn [xlabs]. rewrite FV. cbn [yrun]. unfold ystep, yproj. cbn.
      rewrite FV, N.eqb_refl. cbn. rewrite Nat.eqb_refl, N.eqb_refl.
      destruct (tfind_val_stored _ _ _ (xi_ids _ I) FV) as (nd & F & _).
      unfold stored_b. rewrite F. reflexivity.
    + destruct (ct_free s) as [|x fr] eqn:FR.
      * inversion H; subst s' r. cbn [xlabs yrun]. unfold ystep, yproj. cbn. rewrite FV, FR. reflexivity.
      * inv_some. cbn [xlabs]. rewrite FV. cbn [yrun]. unfold ystep, yproj. cbn.
        rewrite FV, FR, N.eqb_refl. reflexivity.
  - (* XRetain *)
    destruct (owned_b (ct_own s) x) eqn:OW; [|discriminate]. inv_some.
    cbn [xlabs yrun]. unfold ystep, yproj. cbn. unfold ycount.
    destruct (owned_b_in _ _ OW) as (o & Io & Eo). subst x.
    assert (ST := xi_own _ I _ Io). apply stored_b_true in ST. destruct ST as (nd & F).
    rewrite F. assert (RC := xi_rc _ I _ _ F). assert (P := in_owners_pos _ _ Io).
    assert (L : N.ltb 0 (tn_rc nd) = true) by (apply N.ltb_lt; lia).
    rewrite L. reflexivity.
  - (* XDrop *)
    destruct (xtake_tok (h, x) (ct_own s)) as [own'|] eqn:TK; [|discriminate]. inv_some.
    cbn [xlabs yrun]. unfold ystep, yproj. cbn. unfold ycount.
    assert (Io := take_tok_has _ _ _ TK).
    assert (ST := xi_own _ I _ Io). cbn in ST. apply stored_b_true in ST. destruct ST as (nd & F).
    rewrite F. assert (RC := xi_rc _ I _ _ F). assert (P := in_owners_pos _ _ Io). cbn in P.
    assert (L : N.ltb 0 (tn_rc nd) = true) by (apply N.ltb_lt; lia).
    rewrite L. reflexivity.
  - (* XMove *)
    destruct (xtake_tok (h, x) (ct_own s)); [|discriminate]. inv_some. reflexivity.
  - (* XTryLock *)
    destruct (nth_error (ct_b s) b) as [bk|]; [|discriminate].
    destruct (is_free (tb_lock bk)); inv_some; reflexivity.
  - (* XAdd *)
    destruct (nth_error (ct_b s) b) as [bk|]; [|discriminate].
    destruct (held_by (tb_lock bk) tid && forallb (owned_b (ct_own s)) (te_ids e)); [|discriminate].
    inv_some. reflexivity.
  - (* XLookup *)
    destruct (nth_error (ct_b s) b) as [bk|] eqn:NB; [|discriminate].
    destruct (held_by (tb_lock bk) tid); [|discriminate].
    destruct (tb_ent bk) as [e|] eqn:EN; [|inv_some; reflexivity].
    destruct (ids_eqb args (te_args e)); [|inv_some; reflexivity].
    destruct (retain_vals tid (te_vals e) (ct_tt s) (ct_own s)) as [t' own'] eqn:RV. inv_some.
    assert (ST : forall x, In x (te_vals e) -> stored_b (ct_tt s) x = true).
    { intros x Ix. eapply (xi_cache _ I); eauto. unfold te_ids. apply in_or_app. right. assumption. }
    cbn [xlabs yrun]. unfold ystep at 1. unfold yproj. cbn.
    assert (FA : forallb (stored_b (ct_tt s)) (te_vals e) = true) by (apply forallb_forall; assumption).
    rewrite FA. unfold ywith_pend. cbn.
    rewrite (yrun_retains tid (te_vals e) (ct_tt s) (ct_free s) (ct_ph s) (ct_own s) ST).
    rewrite RV. reflexivity.
  - (* XUnlock *)
    destruct (nth_error (ct_b s) b) as [bk|]; [|discriminate].
    destruct (held_by (tb_lock bk) tid); [|discriminate]. inv_some. reflexivity.
  - (* XGcBegin *)
    destruct (ct_ph s) eqn:PH; try discriminate. inv_some.
    cbn [xlabs yrun]. unfold ystep, yproj. cbn. rewrite PH. reflexivity.
  - (* XGcLockBucket *)
    destruct (ct_ph s) eqn:PH; try discriminate.
    destruct (Nat.eqb b (ct_next s)); [|discriminate].
    destruct (nth_error (ct_b s) b) as [bk|]; [|discriminate].
    destruct (is_free (tb_lock bk)); [|discriminate]. inv_some.
    cbn. unfold yproj. cbn. rewrite PH. reflexivity.
  - (* XGcSweepBegin *)
    destruct (ct_ph s) eqn:PH; try discriminate.
    destruct (Nat.eqb (ct_next s) (length (ct_b s))); [|discriminate]. inv_some.
    cbn [xlabs yrun]. unfold ystep, yproj. cbn. rewrite PH. reflexivity.
  - (* XGcTerm *)
    destruct (tphase_eqb (ct_ph s) PSweep) eqn:PH; [|discriminate].
    apply tphase_eqb_eq in PH.
    destruct (tfind (ct_tt s) x) as [nd|] eqn:F; [|discriminate].
    destruct (N.eqb (tn_rc nd) 0) eqn:Z; inv_some.
    + cbn [xlabs yrun]. unfold ystep, yproj. cbn. rewrite PH. unfold ycount. rewrite F, Z.
      reflexivity.
    + cbn [xlabs yrun]. unfold ystep, yproj. cbn. rewrite PH. reflexivity.
  - (* XGcSweepDone *)
    destruct (ct_ph s) eqn:PH; try discriminate. inv_some.
    cbn [xlabs yrun]. unfold ystep, yproj. cbn. rewrite PH. reflexivity.
  - (* XGcUnlockBucket *)
    destruct (ct_ph s) eqn:PH; try discriminate.
    destruct (Nat.eqb b (ct_next s)); [|discriminate].
    destruct (nth_error (ct_b s) b) as [bk|]; [|discriminate]. inv_some.
    cbn. unfold yproj. cbn. rewrite PH. reflexivity.
  - (* XGcLateBegin *)
    destruct (ct_ph s); try discriminate.
  - (* XGcEnd *)
    destruct (ct_ph s) eqn:PH; try discriminate.
    cbn in H. destruct (Nat.eqb (ct_next s) (length (ct_b s))); [|discriminate]. inv_some.
    cbn [xlabs yrun]. unfold ystep, yproj. cbn. rewrite PH. reflexivity.
Qed.

Lemma yrun_app : forall l1 l2 y, yrun y (l1 ++ l2) =
  match yrun y l1 with Some y' => yrun y' l2 | None => None end.
Proof.
  induction l1 as [|a r IH]; intros l2 y; simpl; [reflexivity|].
  destruct (ystep y a); [apply IH|reflexivity].
Qed.

(** ... and of every schedule: the log of a behaviour of the model is accepted and leads to the
    projection of the state the model reaches *)
Theorem ytrace_sim : forall sched s s' log, XInv s -> xtrace s sched = Some (s', log) ->
  yrun (yproj s) log = Some (yproj s').
Proof.
  induction sched as [|a r IH]; intros s s' log I H; simpl in H.
  - inversion H; subst. reflexivity.
  - destruct (xstep false s a) as [[s1 res]|] eqn:ST; [|discriminate].
    destruct (xtrace s1 r) as [[s2 log2]|] eqn:TR; [|discriminate]. inversion H; subst.
    rewrite yrun_app. rewrite (ysim _ _ _ _ I ST).
    eapply IH; eauto. eapply xstep_inv; eauto.
Qed.

Lemma nseq_seq : forall n k, nseq n (N.of_nat k) = map N.of_nat (seq k n).
Proof.
  induction n as [|n IH]; intros k; simpl; [reflexivity|].
  rewrite <- Nat2N.inj_succ. rewrite IH. reflexivity.
Qed.

Lemma yinit_proj : forall cap nb, yinit cap = yproj (ctinit cap nb).
Proof.
  intros cap nb. unfold yinit, yproj, ctinit. cbn. change 0%N with (N.of_nat 0).
  rewrite nseq_seq. reflexivity.
Qed.

(** the log of a schedule exists whenever the schedule runs *)
Lemma xtrace_of_run : forall sched s s', xrun false s sched = Some s' ->
  exists log, xtrace s sched = Some (s', log).
Proof.
  induction sched as [|a r IH]; intros s s' H; simpl in *.
  - inversion H; subst. eauto.
  - destruct (xstep false s a) as [[s1 res]|]; [|discriminate].
    destruct (IH _ _ H) as (log & E). rewrite E. eauto.
Qed.

Theorem yreachable_accepted : forall cap nb sched s',
  xrun false (ctinit cap nb) sched = Some s' ->
  exists log, xtrace (ctinit cap nb) sched = Some (s', log) /\
              yrun (yinit cap) log = Some (yproj s').
Proof.
  intros cap nb sched s' H. destruct (xtrace_of_run _ _ _ H) as (log & E).
  exists log. split; [assumption|].
  rewrite (yinit_proj cap nb).
  eapply ytrace_sim; eauto. apply ctinit_inv.
Qed.

(** ** what the replay accepts *)

Record YInv (y : yst) : Prop := mkYInv {
  yi_ids : NoDup (map fst (y_tt y));
  yi_vals : NoDup (map tvalf (y_tt y));
  yi_free : NoDup (y_free y);
  yi_disj : forall x, In x (y_free y) -> tfind (y_tt y) x = None }.

Lemma yinit_inv : forall cap, YInv (yinit cap).
Proof.
  intros cap. rewrite (yinit_proj cap 0). destruct (ctinit_inv cap 0) as [A B C D _ _ _ _].
  constructor; assumption.
Qed.

Lemma yinv_tupd : forall y f x fr ph p, YInv y -> fr = y_free y ->
  YInv (mkY (tupd f x (y_tt y)) fr ph p).
Proof.
  intros y f x fr ph p [A B C D] E. subst. constructor; cbn.
  - rewrite tupd_fst. assumption.
  - rewrite tupd_vals. assumption.
  - assumption.
  - intros z Iz. apply stored_b_false. rewrite stored_tupd. apply stored_b_false. auto.
Qed.

Theorem ystep_inv : forall y l y', YInv y -> ystep y l = Some y' -> YInv y'.
Proof.
  intros y l y' I H. destruct l; cbn [ystep] in H.
  - destruct (yowes (y_pend y) t); [discriminate|].
    destruct (tfind_val (y_tt y) v) as [x'|]; [|discriminate].
    destruct (N.eqb x' x); inv_some. destruct I; constructor; assumption.
  - destruct (yowes (y_pend y) t); [discriminate|].
    destruct (tfind_val (y_tt y) v) eqn:FV; [discriminate|].
    destruct (y_free y) as [|x' fr] eqn:FR; [discriminate|].
    destruct (N.eqb_spec x' x); inv_some. destruct I as [A B C D]. rewrite FR in *.
    inversion C as [|? ? NI ND]; subst.
    constructor; cbn.
    + constructor; [|assumption]. apply tfind_none_notin. apply D. left. reflexivity.
    + constructor; [|assumption]. unfold tvalf at 1. cbn. apply tfind_val_none. assumption.
    + assumption.
    + intros z Iz. destruct (N.eqb_spec x z); [subst; contradiction|]. apply D. right. assumption.
  - destruct (yowes (y_pend y) t); [discriminate|].
    destruct (tfind_val (y_tt y) v); [discriminate|].
    destruct (y_free y); inv_some. assumption.
  - destruct (yowes (y_pend y) t); [discriminate|].
    destruct (forallb (stored_b (y_tt y)) xs); inv_some. destruct I; constructor; assumption.
  - destruct (yowes (y_pend y) t); [discriminate|].
    destruct (stored_b (y_tt y) x); inv_some. destruct I; constructor; assumption.
  - destruct (yowes (y_pend y) t).
    + destruct (ytake_pend t x (y_pend y)); [|discriminate].
      destruct (stored_b (y_tt y) x); inv_some. apply yinv_tupd; auto.
    + destruct (ycount (y_tt y) x) as [c|]; [|discriminate].
      destruct (N.ltb 0 c); inv_some. apply yinv_tupd; auto.
  - destruct (yowes (y_pend y) t); [discriminate|].
    destruct (ycount (y_tt y) x) as [c|]; [|discriminate].
    destruct (N.ltb 0 c); inv_some. apply yinv_tupd; auto.
  - destruct (y_ph y); inv_some. destruct I; constructor; assumption.
  - destruct (y_ph y); inv_some. destruct I; constructor; assumption.
  - destruct (y_ph y); inv_some. assumption.
  - destruct (y_ph y); try discriminate.
    destruct (ycount (y_tt y) x) as [c|] eqn:YC; [|discriminate].
    destruct (N.eqb c 0); inv_some. destruct I as [A B C D].
    unfold ycount in YC. destruct (tfind (y_tt y) x) as [nd|] eqn:F; [|discriminate].
    constructor; cbn.
    + apply tremove_nodup. assumption.
    + apply tremove_nodup. assumption.
    + constructor; [|assumption]. intros Ix. rewrite (D _ Ix) in F. discriminate.
    + intros z [E|Iz].
      * subst. apply tfind_tremove_same. assumption.
      * destruct (N.eq_dec x z); [subst; apply tfind_tremove_same; assumption|].
        rewrite tfind_tremove_other by assumption. auto.
  - destruct (y_ph y); inv_some. destruct I; constructor; assumption.
  - destruct (y_ph y); inv_some. destruct I; constructor; assumption.
Qed.

Theorem yrun_inv : forall log y y', YInv y -> yrun y log = Some y' -> YInv y'.
Proof.
  induction log as [|l r IH]; intros y y' I H; simpl in H.
  - inversion H; subst. assumption.
  - destruct (ystep y l) as [y0|] eqn:S; [|discriminate].
    apply (IH y0 y'); [eapply ystep_inv; eauto|assumption].
Qed.

Lemma YInv_def : forall y, YInv y <->
  NoDup (map fst (y_tt y)) /\ NoDup (map tvalf (y_tt y)) /\ NoDup (y_free y) /\
  (forall x, In x (y_free y) -> tfind (y_tt y) x = None).
Proof.
  intros y; split.
  - intros [A B C D]. auto.
  - intros (A & B & C & D). constructor; assumption.
Qed.

Theorem yrun_init_inv : forall log cap y, yrun (yinit cap) log = Some y -> YInv y.
Proof. intros log cap y H. eapply yrun_inv; [apply yinit_inv|exact H]. Qed.

(** the executable form *)
Lemma nodup_b_spec : forall l, nodup_b l = true <-> NoDup l.
Proof.
  induction l as [|x r IH]; simpl.
  - split; [constructor|reflexivity].
  - rewrite andb_true_iff, negb_true_iff, IH. split.
    + intros [A B]. constructor; [|assumption]. intros Ix.
      assert (E : existsb (N.eqb x) r = true) by (apply existsb_exists; exists x; split; [assumption|apply N.eqb_refl]).
      congruence.
    + intros ND. inversion ND as [|? ? NI ND']; subst. split; [|assumption].
      destruct (existsb (N.eqb x) r) eqn:E; [|reflexivity].
      apply existsb_exists in E. destruct E as (z & Iz & Ez). apply N.eqb_eq in Ez. subst. contradiction.
Qed.

Theorem yinv_b_spec : forall y, yinv_b y = true <-> YInv y.
Proof.
  intros y. unfold yinv_b. rewrite !andb_true_iff, !nodup_b_spec, forallb_forall. split.
  - intros [[[A B] C] D]. constructor; auto.
    intros x Ix. apply stored_b_false. apply negb_true_iff. auto.
  - intros [A B C D]. repeat split; auto.
    intros x Ix. apply negb_true_iff. apply stored_b_false. auto.
Qed.

(** the decisions the replay takes, label by label *)

(** a removal is accepted only in the sweep phase, for a stored terminal without counted edge;
    afterwards the terminal is gone and its slot heads the free chain *)
Theorem yfree_spec : forall y x y', YInv y -> ystep y (YFree x) = Some y' ->
  y_ph y = PSweep /\ (exists nd, tfind (y_tt y) x = Some nd /\ tn_rc nd = 0%N) /\
  tfind (y_tt y') x = None /\ y_free y' = x :: y_free y.
Proof.
  intros y x y' I H. cbn [ystep] in H.
  destruct (y_ph y) eqn:PH; try discriminate.
  unfold ycount in H. destruct (tfind (y_tt y) x) as [nd|] eqn:F; [|discriminate].
  destruct (N.eqb_spec (tn_rc nd) 0); inv_some. cbn.
  repeat split; eauto. apply tfind_tremove_same. apply (yi_ids _ I).
Qed.

Theorem yscan_spec : forall y y', ystep y YScan = Some y' -> y_ph y = PSweep /\ y' = y.
Proof.
  intros y y' H. cbn in H. destruct (y_ph y); try discriminate. inv_some. auto.
Qed.

(** `found`: the value is stored under exactly this id *)
Theorem yfound_spec : forall y t v x y', YInv y -> ystep y (YFound t v x) = Some y' ->
  exists nd, tfind (y_tt y) x = Some nd /\ tn_val nd = v.
Proof.
  intros y t v x y' I H. cbn [ystep] in H.
  destruct (yowes (y_pend y) t); [discriminate|].
  destruct (tfind_val (y_tt y) v) as [x'|] eqn:FV; [|discriminate].
  destruct (N.eqb_spec x' x); [|discriminate]. subst.
  eapply tfind_val_stored; eauto. apply (yi_ids _ I).
Qed.

(** `new`: the value is not stored, the id is the head of the free chain and not in use *)
Theorem ynew_spec : forall y t v x y', YInv y -> ystep y (YNew t v x) = Some y' ->
  ~ In v (map tvalf (y_tt y)) /\ tfind (y_tt y) x = None /\
  (exists fr, y_free y = x :: fr /\ y_free y' = fr) /\
  tfind (y_tt y') x = Some (mkTN v 1).
Proof.
  intros y t v x y' I H. cbn [ystep] in H.
  destruct (yowes (y_pend y) t); [discriminate|].
  destruct (tfind_val (y_tt y) v) eqn:FV; [discriminate|].
  destruct (y_free y) as [|x' fr] eqn:FR; [discriminate|].
  destruct (N.eqb_spec x' x); inv_some. cbn. rewrite N.eqb_refl.
  repeat split; eauto.
  - apply tfind_val_none. assumption.
  - apply (yi_disj _ I). rewrite FR. left. reflexivity.
Qed.

(** an increment / a decrement is accepted only on a stored terminal; a decrement and an
    increment that no `found` / hit / iterator item announced need a counted edge *)
Theorem yretain_spec : forall y t x y', ystep y (YRetain t x) = Some y' ->
  exists nd, tfind (y_tt y) x = Some nd /\
             (yowes (y_pend y) t = false -> (0 < tn_rc nd)%N) /\
             tfind (y_tt y') x = Some (mkTN (tn_val nd) (N.succ (tn_rc nd))).
Proof.
  intros y t x y' H. cbn [ystep] in H. destruct (yowes (y_pend y) t).
  - destruct (ytake_pend t x (y_pend y)); [|discriminate].
    destruct (stored_b (y_tt y) x) eqn:ST; inv_some.
    apply stored_b_true in ST. destruct ST as (nd & F). exists nd. cbn.
    split; [assumption|]. split; [discriminate|]. apply tfind_tupd_same. assumption.
  - unfold ycount in H. destruct (tfind (y_tt y) x) as [nd|] eqn:F; [|discriminate].
    destruct (N.ltb_spec 0 (tn_rc nd)); inv_some. exists nd. cbn.
    split; [reflexivity|]. split; [auto|]. apply tfind_tupd_same. assumption.
Qed.

Theorem yrelease_spec : forall y t x y', ystep y (YRelease t x) = Some y' ->
  exists nd, tfind (y_tt y) x = Some nd /\ (0 < tn_rc nd)%N /\
             tfind (y_tt y') x = Some (mkTN (tn_val nd) (N.pred (tn_rc nd))).
Proof.
  intros y t x y' H. cbn [ystep] in H. destruct (yowes (y_pend y) t); [discriminate|].
  unfold ycount in H. destruct (tfind (y_tt y) x) as [nd|] eqn:F; [|discriminate].
  destruct (N.ltb_spec 0 (tn_rc nd)); inv_some. exists nd. cbn.
  split; [reflexivity|]. split; [assumption|]. apply tfind_tupd_same. assumption.
Qed.

(** ** the comparison with the snapshot after a block *)

(** the check accepts every state of the model, with the model's own tokens as counted edges *)
Theorem ymatch_proj : forall s, XInv s -> ymatch_b (yproj s) (map fst (ct_tt s)) (ct_own s) = true.
Proof.
  intros s I. unfold ymatch_b, yproj. cbn. rewrite !andb_true_iff. repeat split.
  - apply forallb_forall. intros x Ix. apply in_map_iff in Ix. destruct Ix as ([i nd] & E & Ip).
    cbn in E. subst. apply stored_b_true. exists nd. apply in_tfind; [apply (xi_ids _ I)|assumption].
  - apply forallb_forall. intros p Ip. apply existsb_exists. exists (fst p).
    split; [apply in_map; assumption|apply N.eqb_refl].
  - apply forallb_forall. intros o Io. apply (xi_own _ I). assumption.
  - apply forallb_forall. intros [i nd] Ip. cbn. apply Nat.eqb_eq.
    apply (xi_rc _ I). apply in_tfind; [apply (xi_ids _ I)|assumption].
Qed.

(** a replayed state that passes the comparison: its table, with the counted edges the snapshot
    shows as tokens, an empty cache and no collection running, is a state of the full model that
    satisfies the invariant XInv (exact counts, no dangling counted edge, hash consing) *)
Theorem ymatch_lift : forall y ids refs nb, YInv y -> ymatch_b y ids refs = true ->
  XInv (ylift y refs nb) /\
  (forall x, In x ids <-> exists nd, tfind (y_tt y) x = Some nd) /\ y_pend y = [].
Proof.
  intros y ids refs nb [A B C D] M. unfold ymatch_b in M. rewrite !andb_true_iff in M.
  destruct M as [[[[M1 M2] M3] M4] M5].
  rewrite forallb_forall in M1, M2, M3, M4.
  split; [|split].
  - constructor; cbn; auto.
    + intros x nd F. apply tfind_in in F. apply M4 in F. cbn in F. apply Nat.eqb_eq in F. assumption.
    + intros b bk e x NB. apply nth_error_In in NB. apply repeat_spec in NB. subst. discriminate.
    + intros b bk _ CL. discriminate.
  - intros x. split.
    + intros Ix. apply stored_b_true. auto.
    + intros (nd & F). apply tfind_in in F. apply M2 in F. apply existsb_exists in F.
      destruct F as (z & Iz & Ez). cbn in Ez. apply N.eqb_eq in Ez. subst. assumption.
  - destruct (y_pend y); [reflexivity|discriminate].
Qed.

(** ** examples: a protocol-conforming log is accepted (non-vacuity of the hypotheses above),
       the late terminal collection and a removal of a counted terminal are refused *)

(** `get_terminal 7` (new, slot 0), `get_terminal 9` (new, slot 1), `get_terminal 7` again (found),
    clone and drop, a cache hit handing out terminal 1, drops, a collection that scans and frees
    slot 1 in the sweep, `get_terminal 5` reuses it *)
Definition ylog_ok : list ylab :=
  [ YNew 0 7 0; YNew 1 9 1; YFound 1 7 0; YRetain 1 0; YRetain 0 0; YRelease 0 0; YIter 2 1; YRetain 2 1;
    YHitVals 0 [1%N]; YRetain 0 1; YRelease 2 1; YRelease 0 1; YRelease 1 1;
    YPreGc; YSweep; YScan; YFree 1; YPostGc; YGcEnd; YNew 2 5 1; YOom 0 11 ].

Example ylog_ok_accepted :
  yrun (yinit 2) ylog_ok =
  Some (mkY [(1%N, mkTN 5 1); (0%N, mkTN 7 2)] [] PIdle []).
Proof. vm_compute. reflexivity. Qed.

Example ylog_ok_state_inv : forall y, yrun (yinit 2) ylog_ok = Some y ->
  YInv y /\ ymatch_b y [0%N; 1%N] [(0, 0%N); (1, 0%N); (2, 1%N)] = true.
Proof.
  intros y H. split.
  - eapply yrun_inv; [apply yinit_inv|exact H].
  - rewrite ylog_ok_accepted in H. inversion H; subst. vm_compute. reflexivity.
Qed.

(** the log of seeded change C07e (terminal collection after `post_gc` began): refused at the scan
    resp. at the removal; a removal of a terminal with a counted edge, a `found` of a collected
    slot, a new id that is in use, an increment nobody announced on an unreferenced terminal and
    an announced increment that does not come are refused as well *)
Example ylog_late_refused :
  yrun (yinit 2) [YNew 0 7 0; YRelease 0 0; YPreGc; YSweep; YPostGc; YScan] = None /\
  yrun (yinit 2) [YNew 0 7 0; YRelease 0 0; YPreGc; YSweep; YPostGc; YFree 0] = None /\
  yrun (yinit 2) [YNew 0 7 0; YPreGc; YSweep; YFree 0] = None /\
  yrun (yinit 2) [YNew 0 7 0; YRelease 0 0; YPreGc; YSweep; YFree 0; YFound 1 7 0] = None /\
  yrun (yinit 2) [YNew 0 7 0; YNew 1 9 0] = None /\
  yrun (yinit 2) [YNew 0 7 0; YNew 1 7 1] = None /\
  yrun (yinit 2) [YNew 0 7 0; YRelease 0 0; YRetain 1 0] = None /\
  yrun (yinit 2) [YNew 0 7 0; YRelease 0 0; YRelease 1 0] = None /\
  yrun (yinit 2) [YNew 0 7 0; YIter 1 0; YRelease 1 0] = None.
Proof. vm_compute. repeat split. Qed.
