(** * C07 — terminals, apply cache and collector: the invariant and its preservation
    (model: Mgr/ConcTerm.v) *)

From Coq Require Import List NArith Bool Arith Lia.
From OxiVerif Require Import Mgr.ConcTerm.
Import ListNotations.

Arguments N.add : simpl never.
Arguments N.sub : simpl never.
Arguments N.mul : simpl never.

(** ** the invariant *)

Definition tvalf (p : N * tnode) : N := tn_val (snd p).

Record XInv (s : cts) : Prop := mkXInv {
  xi_ids : NoDup (map fst (ct_tt s));
  xi_vals : NoDup (map tvalf (ct_tt s));
  xi_free : NoDup (ct_free s);
  xi_free_disj : forall x, In x (ct_free s) -> tfind (ct_tt s) x = None;
  xi_rc : forall x nd, tfind (ct_tt s) x = Some nd -> N.to_nat (tn_rc nd) = xowners (ct_own s) x;
  xi_own : forall o, In o (ct_own s) -> stored_b (ct_tt s) (snd o) = true;
  xi_cache : forall b bk e x, nth_error (ct_b s) b = Some bk -> tb_ent bk = Some e ->
             In x (te_ids e) -> stored_b (ct_tt s) x = true;
  xi_claim : forall b bk, nth_error (ct_b s) b = Some bk -> claimed_b (ct_ph s) (ct_next s) b = true ->
             tb_ent bk = None /\ tb_lock bk = LCollector }.

(** ** association-list lemmas *)

Lemma tfind_in : forall t x nd, tfind t x = Some nd -> In (x, nd) t.
Proof.
  induction t as [|[i n] r IH]; simpl; intros x nd H; [discriminate|].
  destruct (N.eqb_spec i x).
  - inversion H; subst; auto.
  - right; auto.
Qed.

Lemma tfind_none_notin : forall t x, tfind t x = None -> ~ In x (map fst t).
Proof.
  induction t as [|[i n] r IH]; simpl; intros x H; [tauto|].
  destruct (N.eqb_spec i x); [discriminate|].
  intros [E|E]; [congruence|]. eapply IH; eauto.
Qed.

Lemma notin_tfind_none : forall t x, ~ In x (map fst t) -> tfind t x = None.
Proof.
  induction t as [|[i n] r IH]; simpl; intros x H; [reflexivity|].
  destruct (N.eqb_spec i x); [subst; tauto|]. apply IH; tauto.
Qed.

Lemma in_tfind : forall t x nd, NoDup (map fst t) -> In (x, nd) t -> tfind t x = Some nd.
Proof.
  induction t as [|[i n] r IH]; simpl; intros x nd ND H; [tauto|].
  inversion ND as [|? ? NI ND']; subst.
  destruct H as [H|H].
  - inversion H; subst. rewrite N.eqb_refl. reflexivity.
  - destruct (N.eqb_spec i x).
    + subst. exfalso. apply NI. change x with (fst (x, nd)). apply in_map; auto.
    + auto.
Qed.

Lemma stored_b_true : forall t x, stored_b t x = true <-> exists nd, tfind t x = Some nd.
Proof.
  unfold stored_b; intros t x; destruct (tfind t x); split; intros H; eauto; try discriminate.
  destruct H; discriminate.
Qed.

Lemma stored_b_false : forall t x, stored_b t x = false <-> tfind t x = None.
Proof.
  unfold stored_b; intros t x; destruct (tfind t x); split; intros H; auto; discriminate.
Qed.

Lemma tupd_fst : forall f x t, map fst (tupd f x t) = map fst t.
Proof.
  induction t as [|[i n] r IH]; simpl; [reflexivity|].
  destruct (N.eqb i x); simpl; congruence.
Qed.

Lemma tupd_vals : forall f x t, map tvalf (tupd f x t) = map tvalf t.
Proof.
  induction t as [|[i n] r IH]; simpl; [reflexivity|].
  destruct (N.eqb i x); simpl; unfold tvalf in *; simpl; congruence.
Qed.

Lemma tfind_tupd_same : forall f x t nd, tfind t x = Some nd ->
  tfind (tupd f x t) x = Some (mkTN (tn_val nd) (f (tn_rc nd))).
Proof.
  induction t as [|[i n] r IH]; simpl; intros nd H; [discriminate|].
  destruct (N.eqb_spec i x).
  - inversion H; subst. simpl. rewrite N.eqb_refl. reflexivity.
  - simpl. destruct (N.eqb_spec i x); [contradiction|]. auto.
Qed.

Lemma tfind_tupd_other : forall f x y t, x <> y -> tfind (tupd f x t) y = tfind t y.
Proof.
  induction t as [|[i n] r IH]; simpl; intros NE; [reflexivity|].
  destruct (N.eqb_spec i x).
  - subst. simpl. destruct (N.eqb_spec x y); [contradiction|reflexivity].
  - simpl. destruct (N.eqb i y); auto.
Qed.

Lemma tfind_tupd_none : forall f x t, tfind t x = None -> tupd f x t = t.
Proof.
  induction t as [|[i n] r IH]; simpl; intros H; [reflexivity|].
  destruct (N.eqb i x); [discriminate|]. f_equal; auto.
Qed.

Lemma stored_tupd : forall f x t y, stored_b (tupd f x t) y = stored_b t y.
Proof.
  intros f x t y. unfold stored_b.
  destruct (N.eq_dec x y) as [E|NE].
  - subst. destruct (tfind t y) eqn:F.
    + rewrite (tfind_tupd_same f _ _ _ F). reflexivity.
    + rewrite tfind_tupd_none by assumption. rewrite F. reflexivity.
  - rewrite tfind_tupd_other by assumption. reflexivity.
Qed.

(** the value of a stored terminal never changes by a count update *)
Lemma tfind_tupd_val : forall f x t y,
  option_map tn_val (tfind (tupd f x t) y) = option_map tn_val (tfind t y).
Proof.
  intros f x t y. destruct (N.eq_dec x y) as [E|NE].
  - subst. destruct (tfind t y) eqn:F.
    + rewrite (tfind_tupd_same f _ _ _ F). reflexivity.
    + rewrite tfind_tupd_none by assumption. rewrite F. reflexivity.
  - rewrite tfind_tupd_other by assumption. reflexivity.
Qed.

Lemma tfind_val_some : forall t v x, tfind_val t v = Some x ->
  exists nd, In (x, nd) t /\ tn_val nd = v.
Proof.
  induction t as [|[i n] r IH]; simpl; intros v x H; [discriminate|].
  destruct (N.eqb_spec (tn_val n) v).
  - inversion H; subst. eauto.
  - destruct (IH _ _ H) as (nd & I & E). eauto.
Qed.

Lemma tfind_val_none : forall t v, tfind_val t v = None -> ~ In v (map tvalf t).
Proof.
  induction t as [|[i n] r IH]; simpl; intros v H; [tauto|].
  destruct (N.eqb_spec (tn_val n) v); [discriminate|].
  intros [E|E]; [unfold tvalf in E; simpl in E; congruence|]. eapply IH; eauto.
Qed.

Lemma tremove_in : forall x t p, In p (tremove x t) -> In p t.
Proof.
  induction t as [|[i n] r IH]; simpl; intros p H; [tauto|].
  destruct (N.eqb i x); [auto|]. destruct H; auto.
Qed.

Lemma tremove_nodup : forall (A : Type) (g : N * tnode -> A) x t,
  NoDup (map g t) -> NoDup (map g (tremove x t)).
Proof.
  induction t as [|[i n] r IH]; simpl; intros ND; [constructor|].
  inversion ND as [|? ? NI ND']; subst.
  destruct (N.eqb i x); [assumption|].
  simpl. constructor; auto.
  intros I. apply NI. apply in_map_iff in I. destruct I as (p & E & I).
  apply in_map_iff. exists p. split; auto. eapply tremove_in; eauto.
Qed.

Lemma tfind_tremove_same : forall x t, NoDup (map fst t) -> tfind (tremove x t) x = None.
Proof.
  induction t as [|[i n] r IH]; simpl; intros ND; [reflexivity|].
  inversion ND as [|? ? NI ND']; subst.
  destruct (N.eqb_spec i x).
  - subst. apply notin_tfind_none; assumption.
  - simpl. destruct (N.eqb_spec i x); [contradiction|]. auto.
Qed.

Lemma tfind_tremove_other : forall x y t, x <> y -> tfind (tremove x t) y = tfind t y.
Proof.
  induction t as [|[i n] r IH]; simpl; intros NE; [reflexivity|].
  destruct (N.eqb_spec i x).
  - subst. destruct (N.eqb_spec x y); [contradiction|reflexivity].
  - simpl. destruct (N.eqb i y); auto.
Qed.

(** ** tokens *)

Lemma owned_b_owners : forall own x, owned_b own x = true <-> 0 < xowners own x.
Proof.
  induction own as [|o r IH]; simpl; intros x.
  - split; [discriminate|lia].
  - destruct (N.eqb (snd o) x); simpl.
    + split; intros; [lia|reflexivity].
    + apply IH.
Qed.

Lemma owned_b_in : forall own x, owned_b own x = true -> exists o, In o own /\ snd o = x.
Proof.
  unfold owned_b; intros own x H. apply existsb_exists in H. destruct H as (o & I & E).
  apply N.eqb_eq in E. eauto.
Qed.

Lemma tok_eqb_eq : forall a b, xtok_eqb a b = true -> a = b.
Proof.
  intros [h x] [h' y]; unfold xtok_eqb; simpl; intros H.
  apply andb_true_iff in H. destruct H as [A B].
  apply Nat.eqb_eq in A. apply N.eqb_eq in B. congruence.
Qed.

Lemma take_tok_owners : forall o own own', xtake_tok o own = Some own' ->
  forall y, xowners own y = (if N.eqb (snd o) y then 1 else 0) + xowners own' y.
Proof.
  induction own as [|p r IH]; simpl; intros own' H y; [discriminate|].
  destruct (xtok_eqb o p) eqn:E.
  - inversion H; subst. apply tok_eqb_eq in E. subst. reflexivity.
  - destruct (xtake_tok o r) eqn:T; [|discriminate]. inversion H; subst. simpl.
    rewrite (IH _ eq_refl y). lia.
Qed.

Lemma take_tok_in : forall o own own', xtake_tok o own = Some own' -> forall p, In p own' -> In p own.
Proof.
  induction own as [|q r IH]; simpl; intros own' H p I; [discriminate|].
  destruct (xtok_eqb o q).
  - inversion H; subst. auto.
  - destruct (xtake_tok o r) eqn:T; [|discriminate]. inversion H; subst.
    destruct I; [auto|]. right. eapply IH; eauto.
Qed.

Lemma take_tok_has : forall o own own', xtake_tok o own = Some own' -> In o own.
Proof.
  induction own as [|q r IH]; simpl; intros own' H; [discriminate|].
  destruct (xtok_eqb o q) eqn:E.
  - apply tok_eqb_eq in E. auto.
  - destruct (xtake_tok o r) eqn:T; [|discriminate]. right. eapply IH; eauto.
Qed.

(** ** buckets *)

Lemma nth_upd_same : forall (A : Type) (l : list A) i x y, nth_error l i = Some y ->
  nth_error (xupd_nth l i x) i = Some x.
Proof.
  induction l as [|a r IH]; intros [|i] x y H; simpl in *; try discriminate; eauto.
Qed.

Lemma nth_upd_other : forall (A : Type) (l : list A) i j x, i <> j ->
  nth_error (xupd_nth l i x) j = nth_error l j.
Proof.
  induction l as [|a r IH]; intros [|i] [|j] x NE; simpl; auto; try congruence.
Qed.

Lemma upd_nth_length : forall (A : Type) (l : list A) i x, length (xupd_nth l i x) = length l.
Proof.
  induction l as [|a r IH]; intros [|i] x; simpl; auto.
Qed.

Lemma nth_upd_cases : forall (A : Type) (l : list A) i j x z,
  nth_error (xupd_nth l i x) j = Some z ->
  (i = j /\ z = x) \/ (i <> j /\ nth_error l j = Some z).
Proof.
  intros A l i j x z H. destruct (Nat.eq_dec i j) as [E|NE].
  - subst. left. split; auto.
    assert (L : j < length (xupd_nth l j x)) by (apply nth_error_Some; congruence).
    rewrite upd_nth_length in L. apply nth_error_Some in L.
    destruct (nth_error l j) eqn:F; [|congruence].
    rewrite (nth_upd_same _ _ _ x _ F) in H. congruence.
  - right. split; auto. rewrite nth_upd_other in H by assumption. assumption.
Qed.

Lemma ids_eqb_eq : forall a b, ids_eqb a b = true -> a = b.
Proof.
  induction a as [|x r IH]; intros [|y s] H; simpl in *; try discriminate; auto.
  apply andb_true_iff in H. destruct H as [A B]. apply N.eqb_eq in A. f_equal; auto.
Qed.

(** ** hits: `clone_edge` of the value edges *)

Lemma retain_vals_spec : forall tid vals t own t' own',
  retain_vals tid vals t own = (t', own') ->
  map fst t' = map fst t /\ map tvalf t' = map tvalf t /\
  (forall y, stored_b t' y = stored_b t y) /\
  (forall y, option_map tn_val (tfind t' y) = option_map tn_val (tfind t y)) /\
  (forall o, In o own' -> In o own \/ (fst o = tid /\ In (snd o) vals)) /\
  (forall o, In o own -> In o own') /\
  (forall x, In x vals -> In (tid, x) own').
Proof.
  induction vals as [|x r IH]; simpl; intros t own t' own' H.
  - inversion H; subst. repeat split; auto. intros x [].
  - apply IH in H. destruct H as (A & B & C & D & E & F & G).
    rewrite tupd_fst in A. rewrite tupd_vals in B.
    repeat split; auto.
    + intros y. rewrite C. apply stored_tupd.
    + intros y. rewrite D. apply tfind_tupd_val.
    + intros o I. destruct (E o I) as [[J|J]|J]; auto.
      * subst. right. simpl. auto.
      * right. destruct J; auto.
    + intros o I. apply F. right. assumption.
    + intros y [J|J]; [subst; apply F; left; reflexivity | auto].
Qed.

Lemma retain_vals_rc : forall tid vals t own t' own',
  retain_vals tid vals t own = (t', own') ->
  (forall x, In x vals -> stored_b t x = true) ->
  (forall x nd, tfind t x = Some nd -> N.to_nat (tn_rc nd) = xowners own x) ->
  (forall x nd, tfind t' x = Some nd -> N.to_nat (tn_rc nd) = xowners own' x).
Proof.
  induction vals as [|v r IH]; simpl; intros t own t' own' H ST RC.
  - inversion H; subst. assumption.
  - eapply IH; eauto.
    + intros x I. rewrite stored_tupd. auto.
    + intros x nd F. simpl.
      destruct (N.eqb_spec v x).
      * subst. assert (S := ST x (or_introl eq_refl)). apply stored_b_true in S.
        destruct S as (nd0 & F0). rewrite (tfind_tupd_same _ _ _ _ F0) in F.
        inversion F; subst; simpl. rewrite N2Nat.inj_succ. rewrite (RC _ _ F0). reflexivity.
      * rewrite tfind_tupd_other in F by assumption. simpl. auto.
Qed.

(** ** the invariant is preserved by every action of every holder and of the collector *)

Ltac inv_some :=
  match goal with
  | H : Some _ = Some _ |- _ => inversion H; subst; clear H
  | H : None = Some _ |- _ => discriminate H
  end.

(** the cache part and the phase part only depend on these components *)
Lemma tinv_same_cache : forall s t' fr' own',
  XInv s ->
  NoDup (map fst t') -> NoDup (map tvalf t') -> NoDup fr' ->
  (forall x, In x fr' -> tfind t' x = None) ->
  (forall x nd, tfind t' x = Some nd -> N.to_nat (tn_rc nd) = xowners own' x) ->
  (forall o, In o own' -> stored_b t' (snd o) = true) ->
  (forall y, stored_b (ct_tt s) y = true -> stored_b t' y = true) ->
  XInv (mkCT t' fr' own' (ct_b s) (ct_ph s) (ct_next s)).
Proof.
  intros s t' fr' own' I A B C D E F G. constructor; simpl; auto.
  - intros b bk e x N1 N2 N3. apply G. eapply (xi_cache _ I); eauto.
  - apply (xi_claim _ I).
Qed.

Lemma tinv_same_terms : forall s bs ph nx,
  XInv s ->
  (forall b bk e x, nth_error bs b = Some bk -> tb_ent bk = Some e -> In x (te_ids e) ->
                    stored_b (ct_tt s) x = true) ->
  (forall b bk, nth_error bs b = Some bk -> claimed_b ph nx b = true ->
                tb_ent bk = None /\ tb_lock bk = LCollector) ->
  XInv (mkCT (ct_tt s) (ct_free s) (ct_own s) bs ph nx).
Proof.
  intros s bs ph nx I A B. constructor; simpl; auto; apply I.
Qed.

Lemma not_claimed_of_lock : forall s b bk, XInv s -> nth_error (ct_b s) b = Some bk ->
  tb_lock bk <> LCollector -> claimed_b (ct_ph s) (ct_next s) b = false.
Proof.
  intros s b bk I N1 NL. destruct (claimed_b (ct_ph s) (ct_next s) b) eqn:C; [|reflexivity].
  destruct (xi_claim _ I _ _ N1 C) as [_ L]. contradiction.
Qed.

Theorem xstep_inv : forall s a s' r, XInv s -> xstep false s a = Some (s', r) -> XInv s'.
Proof.
  intros s a s' r I H. destruct a; simpl in H.
  - (* XGet *)
    destruct (tfind_val (ct_tt s) v) as [x|] eqn:FV.
    + inv_some. destruct (tfind_val_some _ _ _ FV) as (nd & IN & EV).
      assert (F : tfind (ct_tt s) x = Some nd) by (apply in_tfind; [apply I|assumption]).
      apply tinv_same_cache; auto.
      * rewrite tupd_fst. apply I.
      * rewrite tupd_vals. apply I.
      * apply I.
      * intros y J. assert (N0 := xi_free_disj _ I _ J).
        destruct (N.eq_dec x y); [subst; congruence|]. rewrite tfind_tupd_other; auto.
      * intros y nd' F'. simpl. destruct (N.eqb_spec x y).
        -- subst. rewrite (tfind_tupd_same _ _ _ _ F) in F'. inversion F'; subst; simpl.
           rewrite N2Nat.inj_succ. rewrite (xi_rc _ I _ _ F). reflexivity.
        -- rewrite tfind_tupd_other in F' by assumption. simpl. apply (xi_rc _ I _ _ F').
      * intros o [J|J]; rewrite stored_tupd.
        -- subst. simpl. apply stored_b_true. eauto.
        -- apply (xi_own _ I _ J).
      * intros y S. rewrite stored_tupd. assumption.
    + destruct (ct_free s) as [|x fr] eqn:FR.
      * inv_some. assumption.
      * inv_some.
        assert (NF : tfind (ct_tt s) x = None) by (apply (xi_free_disj _ I); rewrite FR; left; reflexivity).
        assert (NDF := xi_free _ I). rewrite FR in NDF. inversion NDF as [|? ? NI NDF']; subst.
        apply tinv_same_cache; auto; simpl.
        -- constructor; [apply tfind_none_notin; assumption | apply I].
        -- constructor; [unfold tvalf at 1; simpl; apply tfind_val_none; assumption | apply I].
        -- intros y J. destruct (N.eqb_spec x y); [subst; contradiction|].
           apply (xi_free_disj _ I). rewrite FR. right. assumption.
        -- intros y nd F. simpl. destruct (N.eqb_spec x y).
           ++ subst. inversion F; subst; simpl.
              assert (O : xowners (ct_own s) y = 0).
              { destruct (xowners (ct_own s) y) eqn:OW; [reflexivity|].
                assert (OB : owned_b (ct_own s) y = true) by (apply owned_b_owners; lia).
                destruct (owned_b_in _ _ OB) as (o & J & E). apply (xi_own _ I) in J.
                rewrite E in J. apply stored_b_true in J. destruct J. congruence. }
              rewrite O. reflexivity.
           ++ simpl. apply (xi_rc _ I _ _ F).
        -- intros o [J|J].
           ++ subst. simpl. unfold stored_b. simpl. rewrite N.eqb_refl. reflexivity.
           ++ assert (S := xi_own _ I _ J). unfold stored_b in *. simpl.
              destruct (N.eqb x (snd o)); auto.
        -- intros y S. unfold stored_b in *. simpl. destruct (N.eqb x y); auto.
  - (* XRetain *)
    destruct (owned_b (ct_own s) x) eqn:OB; [|discriminate]. inv_some.
    destruct (owned_b_in _ _ OB) as (o & J & E). assert (S := xi_own _ I _ J). rewrite E in S.
    apply stored_b_true in S. destruct S as (nd & F).
    apply tinv_same_cache; auto.
    + rewrite tupd_fst. apply I.
    + rewrite tupd_vals. apply I.
    + apply I.
    + intros y J'. assert (N0 := xi_free_disj _ I _ J').
      destruct (N.eq_dec x y); [subst; congruence|]. rewrite tfind_tupd_other; auto.
    + intros y nd' F'. simpl. destruct (N.eqb_spec x y).
      * subst. rewrite (tfind_tupd_same _ _ _ _ F) in F'. inversion F'; subst; simpl.
        rewrite N2Nat.inj_succ. rewrite (xi_rc _ I _ _ F). reflexivity.
      * rewrite tfind_tupd_other in F' by assumption. simpl. apply (xi_rc _ I _ _ F').
    + intros o' [J'|J']; rewrite stored_tupd.
      * subst. simpl. apply stored_b_true. eauto.
      * apply (xi_own _ I _ J').
    + intros y S. rewrite stored_tupd. assumption.
  - (* XDrop *)
    destruct (xtake_tok (h, x) (ct_own s)) as [own'|] eqn:TT; [|discriminate]. inv_some.
    assert (S := xi_own _ I _ (take_tok_has _ _ _ TT)). simpl in S.
    apply stored_b_true in S. destruct S as (nd & F).
    apply tinv_same_cache; auto.
    + rewrite tupd_fst. apply I.
    + rewrite tupd_vals. apply I.
    + apply I.
    + intros y J'. assert (N0 := xi_free_disj _ I _ J').
      destruct (N.eq_dec x y); [subst; congruence|]. rewrite tfind_tupd_other; auto.
    + intros y nd' F'. assert (TO := take_tok_owners _ _ _ TT y). simpl in TO.
      destruct (N.eqb_spec x y).
      * subst. rewrite (tfind_tupd_same _ _ _ _ F) in F'. inversion F'; subst; simpl.
        rewrite N2Nat.inj_pred. rewrite (xi_rc _ I _ _ F). lia.
      * rewrite tfind_tupd_other in F' by assumption. rewrite (xi_rc _ I _ _ F'). lia.
    + intros o J'. rewrite stored_tupd. apply (xi_own _ I). eapply take_tok_in; eauto.
    + intros y S. rewrite stored_tupd. assumption.
  - (* XMove *)
    destruct (xtake_tok (h, x) (ct_own s)) as [own'|] eqn:TT; [|discriminate]. inv_some.
    apply tinv_same_cache; auto; try apply I.
    + intros y nd F. assert (TO := take_tok_owners _ _ _ TT y). simpl in TO. simpl.
      rewrite (xi_rc _ I _ _ F). lia.
    + intros o [J|J].
      * subst. simpl. apply (xi_own _ I _ (take_tok_has _ _ _ TT)).
      * apply (xi_own _ I). eapply take_tok_in; eauto.
  - (* XTryLock *)
    destruct (nth_error (ct_b s) b) as [bk|] eqn:NB; [|discriminate].
    destruct (is_free (tb_lock bk)) eqn:FR; inv_some; [|assumption].
    apply tinv_same_terms; auto.
    + intros b' bk' e x N1 N2 N3. apply nth_upd_cases in N1. destruct N1 as [[E1 E2]|[NE N1]].
      * subst. simpl in N2. eapply (xi_cache _ I); eauto.
      * eapply (xi_cache _ I); eauto.
    + intros b' bk' N1 C. apply nth_upd_cases in N1. destruct N1 as [[E1 E2]|[NE N1]].
      * subst. destruct (xi_claim _ I _ _ NB C) as [_ L]. rewrite L in FR. discriminate.
      * eapply (xi_claim _ I); eauto.
  - (* XAdd *)
    destruct (nth_error (ct_b s) b) as [bk|] eqn:NB; [|discriminate].
    destruct (held_by (tb_lock bk) tid && forallb (owned_b (ct_own s)) (te_ids e)) eqn:C0; [|discriminate].
    inv_some. apply andb_true_iff in C0. destruct C0 as [HB FA].
    assert (NC : claimed_b (ct_ph s) (ct_next s) b = false).
    { eapply not_claimed_of_lock; eauto. destruct (tb_lock bk); simpl in HB; congruence. }
    apply tinv_same_terms; auto.
    + intros b' bk' e' x N1 N2 N3. apply nth_upd_cases in N1. destruct N1 as [[E1 E2]|[NE N1]].
      * subst. simpl in N2. inversion N2; subst.
        rewrite forallb_forall in FA. apply FA in N3.
        destruct (owned_b_in _ _ N3) as (o & J & E). rewrite <- E. apply (xi_own _ I _ J).
      * eapply (xi_cache _ I); eauto.
    + intros b' bk' N1 C. apply nth_upd_cases in N1. destruct N1 as [[E1 E2]|[NE N1]].
      * subst. congruence.
      * eapply (xi_claim _ I); eauto.
  - (* XLookup *)
    destruct (nth_error (ct_b s) b) as [bk|] eqn:NB; [|discriminate].
    destruct (held_by (tb_lock bk) tid) eqn:HB; [|discriminate].
    destruct (tb_ent bk) as [e|] eqn:EN; [|inv_some; assumption].
    destruct (ids_eqb args (te_args e)); [|inv_some; assumption].
    destruct (retain_vals tid (te_vals e) (ct_tt s) (ct_own s)) as [t' own'] eqn:RV. inv_some.
    assert (ST : forall x, In x (te_vals e) -> stored_b (ct_tt s) x = true).
    { intros x J. eapply (xi_cache _ I); eauto. unfold te_ids. apply in_or_app. auto. }
    destruct (retain_vals_spec _ _ _ _ _ _ RV) as (A & B & C & D & E & F & G).
    apply tinv_same_cache; auto.
    + rewrite A. apply I.
    + rewrite B. apply I.
    + apply I.
    + intros y J. apply stored_b_false. rewrite C. apply stored_b_false. apply (xi_free_disj _ I _ J).
    + eapply retain_vals_rc; eauto. apply (xi_rc _ I).
    + intros o J. rewrite C. destruct (E o J) as [K|[K1 K2]]; [apply (xi_own _ I _ K) | auto].
    + intros y S. rewrite C. assumption.
  - (* XUnlock *)
    destruct (nth_error (ct_b s) b) as [bk|] eqn:NB; [|discriminate].
    destruct (held_by (tb_lock bk) tid) eqn:HB; [|discriminate]. inv_some.
    assert (NC : claimed_b (ct_ph s) (ct_next s) b = false).
    { eapply not_claimed_of_lock; eauto. destruct (tb_lock bk); simpl in HB; congruence. }
    apply tinv_same_terms; auto.
    + intros b' bk' e x N1 N2 N3. apply nth_upd_cases in N1. destruct N1 as [[E1 E2]|[NE N1]].
      * subst. simpl in N2. eapply (xi_cache _ I); eauto.
      * eapply (xi_cache _ I); eauto.
    + intros b' bk' N1 C. apply nth_upd_cases in N1. destruct N1 as [[E1 E2]|[NE N1]].
      * subst. congruence.
      * eapply (xi_claim _ I); eauto.
  - (* XGcBegin *)
    destruct (ct_ph s) eqn:PH; try discriminate. inv_some.
    apply tinv_same_terms; auto.
    + apply (xi_cache _ I).
    + intros b bk N1 C. simpl in C. discriminate.
  - (* XGcLockBucket *)
    destruct (ct_ph s) eqn:PH; try discriminate.
    destruct (Nat.eqb_spec b (ct_next s)); [|discriminate].
    destruct (nth_error (ct_b s) b) as [bk|] eqn:NB; [|discriminate].
    destruct (is_free (tb_lock bk)) eqn:FR; [|discriminate]. inv_some.
    apply tinv_same_terms; auto.
    + intros b' bk' e' x N1 N2 N3. apply nth_upd_cases in N1. destruct N1 as [[E1 E2]|[NE N1]].
      * subst bk'. simpl in N2. discriminate.
      * eapply (xi_cache _ I); eauto.
    + intros b' bk' N1 C. apply nth_upd_cases in N1. destruct N1 as [[E1 E2]|[NE N1]].
      * subst bk'. simpl. auto.
      * apply (xi_claim _ I _ _ N1). rewrite PH. simpl in *.
        apply Nat.ltb_lt in C. apply Nat.ltb_lt. lia.
  - (* XGcSweepBegin *)
    destruct (ct_ph s) eqn:PH; try discriminate.
    destruct (Nat.eqb_spec (ct_next s) (length (ct_b s))); [|discriminate]. inv_some.
    apply tinv_same_terms; auto.
    + apply (xi_cache _ I).
    + intros b bk N1 _. apply (xi_claim _ I _ _ N1). rewrite PH. simpl.
      apply Nat.ltb_lt. rewrite e. apply nth_error_Some. congruence.
  - (* XGcTerm: only between pre_gc and post_gc *)
    destruct (tphase_eqb (ct_ph s) PSweep) eqn:PH; [|discriminate].
    assert (PS : ct_ph s = PSweep) by (destruct (ct_ph s); simpl in PH; congruence).
    destruct (tfind (ct_tt s) x) as [nd|] eqn:F; [|discriminate].
    destruct (N.eqb_spec (tn_rc nd) 0); inv_some; [|assumption].
    assert (O : xowners (ct_own s) x = 0) by (rewrite <- (xi_rc _ I _ _ F), e; reflexivity).
    constructor; simpl.
    + apply tremove_nodup. apply I.
    + apply tremove_nodup. apply I.
    + constructor; [|apply I]. intros J. apply (xi_free_disj _ I) in J. congruence.
    + intros y [J|J].
      * subst. apply tfind_tremove_same. apply I.
      * destruct (N.eq_dec x y); [subst; apply tfind_tremove_same; apply I|].
        rewrite tfind_tremove_other by assumption. apply (xi_free_disj _ I _ J).
    + intros y nd' F'. destruct (N.eq_dec x y).
      * subst. rewrite tfind_tremove_same in F' by apply I. discriminate.
      * rewrite tfind_tremove_other in F' by assumption. apply (xi_rc _ I _ _ F').
    + intros o J. assert (S := xi_own _ I _ J). destruct (N.eq_dec x (snd o)) as [E|NE].
      * exfalso. assert (OB : owned_b (ct_own s) x = true).
        { unfold owned_b. apply existsb_exists. exists o. split; auto. apply N.eqb_eq. auto. }
        apply owned_b_owners in OB. lia.
      * unfold stored_b in *. rewrite tfind_tremove_other by assumption. assumption.
    + (* all buckets are held by the collector, hence empty *)
      intros b bk e' y N1 N2 N3.
      assert (C : claimed_b (ct_ph s) (ct_next s) b = true) by (rewrite PS; reflexivity).
      destruct (xi_claim _ I _ _ N1 C) as [EN _]. congruence.
    + apply (xi_claim _ I).
  - (* XGcSweepDone *)
    destruct (ct_ph s) eqn:PH; try discriminate. inv_some.
    apply tinv_same_terms; auto.
    + apply (xi_cache _ I).
    + intros b bk N1 _. apply (xi_claim _ I _ _ N1). rewrite PH. reflexivity.
  - (* XGcUnlockBucket *)
    destruct (ct_ph s) eqn:PH; try discriminate.
    destruct (Nat.eqb_spec b (ct_next s)); [|discriminate].
    destruct (nth_error (ct_b s) b) as [bk|] eqn:NB; [|discriminate]. inv_some.
    assert (CB : claimed_b (ct_ph s) (ct_next s) (ct_next s) = true).
    { rewrite PH. simpl. apply Nat.leb_refl. }
    destruct (xi_claim _ I _ _ NB CB) as [EN _].
    apply tinv_same_terms; auto.
    + intros b' bk' e' x N1 N2 N3. apply nth_upd_cases in N1. destruct N1 as [[E1 E2]|[NE N1]].
      * subst bk'. simpl in N2. congruence.
      * eapply (xi_cache _ I); eauto.
    + intros b' bk' N1 C. cbn [claimed_b ct_ph ct_next] in C. apply Nat.leb_le in C.
      apply nth_upd_cases in N1. destruct N1 as [[E1 E2]|[NE N1]]; [lia|].
      apply (xi_claim _ I _ _ N1). rewrite PH. simpl. apply Nat.leb_le. lia.
  - (* XGcLateBegin: not part of the code's protocol *)
    destruct (ct_ph s); discriminate.
  - (* XGcEnd *)
    destruct (ct_ph s) eqn:PH; try discriminate.
    destruct (Nat.eqb (ct_next s) (length (ct_b s))); simpl in H; [|discriminate]. inv_some.
    apply tinv_same_terms; auto.
    + apply (xi_cache _ I).
    + intros b bk N1 C. simpl in C. discriminate.
Qed.

Theorem xrun_inv : forall sched s s', XInv s -> xrun false s sched = Some s' -> XInv s'.
Proof.
  induction sched as [|a r IH]; simpl; intros s s' I H.
  - inversion H; subst; assumption.
  - destruct (xstep false s a) as [[s1 x]|] eqn:ST; [|discriminate].
    eapply IH; [eapply xstep_inv; eauto | assumption].
Qed.

Lemma seq_N_nodup : forall n k, NoDup (map N.of_nat (seq k n)).
Proof.
  induction n as [|n IH]; simpl; intros k; constructor; auto.
  intros J. apply in_map_iff in J. destruct J as (m & E & J). apply in_seq in J.
  apply Nat2N.inj in E. lia.
Qed.

Lemma nth_repeat : forall (A : Type) (x y : A) n i, nth_error (repeat x n) i = Some y -> y = x.
Proof.
  induction n as [|n IH]; intros [|i] H; simpl in H; try discriminate; [congruence | eauto].
Qed.

Theorem ctinit_inv : forall cap nb, XInv (ctinit cap nb).
Proof.
  intros cap nb. constructor; simpl.
  - constructor.
  - constructor.
  - apply seq_N_nodup.
  - reflexivity.
  - intros x nd H. discriminate.
  - intros o [].
  - intros b bk e x N1 N2. apply nth_repeat in N1. subst. discriminate.
  - intros b bk _ C. discriminate.
Qed.

(** every state the code's protocol reaches from the empty manager, under every schedule *)
Definition xreachable (cap nb : nat) (s : cts) : Prop :=
  exists sched, xrun false (ctinit cap nb) sched = Some s.

Theorem xreachable_inv : forall cap nb s, xreachable cap nb s -> XInv s.
Proof.
  intros cap nb s (sched & H). eapply xrun_inv; [apply ctinit_inv | eassumption].
Qed.
