(** * C07 — terminals, apply cache and collector: consequences of the invariant
    (executable checkers, cache hits, the terminal collector, memoised values) *)

From Coq Require Import List NArith Bool Arith Lia.
From OxiVerif Require Import Mgr.ConcTerm Mgr.ConcTermProofs.
Import ListNotations.

(** ** the executable checkers decide the invariant *)

Lemma nodup_b_iff : forall l, nodup_b l = true <-> NoDup l.
Proof.
  induction l as [|x r IH]; simpl.
  - split; [constructor|reflexivity].
  - rewrite andb_true_iff, negb_true_iff, IH. split.
    + intros [A B]. constructor; auto. intros J.
      assert (E : existsb (N.eqb x) r = true) by (apply existsb_exists; exists x; split; auto; apply N.eqb_refl).
      congruence.
    + intros ND. inversion ND as [|? ? NI ND']; subst. split; auto.
      destruct (existsb (N.eqb x) r) eqn:E; [|reflexivity].
      apply existsb_exists in E. destruct E as (y & J & E). apply N.eqb_eq in E. subst. contradiction.
Qed.

Lemma claimed_ok_b_iff : forall ph next bs i,
  claimed_ok_b ph next i bs = true <->
  (forall b bk, nth_error bs b = Some bk -> claimed_b ph next (i + b) = true ->
                tb_ent bk = None /\ tb_lock bk = LCollector).
Proof.
  induction bs as [|bk0 r IH]; simpl; intros i.
  - split; [intros _ [|b] bk H; discriminate | reflexivity].
  - rewrite andb_true_iff, IH. split.
    + intros [A B] [|b] bk N1 C; simpl in N1.
      * inversion N1; subst. rewrite Nat.add_0_r in C. rewrite C in A.
        apply andb_true_iff in A. destruct A as [A1 A2].
        destruct (tb_ent bk); [discriminate|]. destruct (tb_lock bk); try discriminate. auto.
      * apply (B b bk N1). replace (S i + b) with (i + S b) by lia. assumption.
    + intros H. split.
      * destruct (claimed_b ph next i) eqn:C; [|reflexivity].
        destruct (H 0 bk0 eq_refl) as [A B]; [rewrite Nat.add_0_r; assumption|].
        rewrite A, B. reflexivity.
      * intros b bk N1 C. apply (H (S b) bk N1). replace (i + S b) with (S i + b) by lia. assumption.
Qed.

Theorem tinv_b_sound : forall s, tinv_b s = true -> XInv s.
Proof.
  intros s H. unfold tinv_b, xterms_unique_b, counts_exact_b, xno_dangling_b, phase_ok_b in H.
  apply andb_true_iff in H. destruct H as [H P].
  apply andb_true_iff in H. destruct H as [H D].
  apply andb_true_iff in H. destruct H as [U C].
  apply andb_true_iff in C. destruct C as [C1 C2].
  apply andb_true_iff in U. destruct U as [U U4].
  apply andb_true_iff in U. destruct U as [U U3].
  apply andb_true_iff in U. destruct U as [U1 U2].
  apply nodup_b_iff in U1. apply nodup_b_iff in U2. apply nodup_b_iff in U3.
  constructor; auto.
  - intros x J. rewrite forallb_forall in U4. apply U4 in J. apply negb_true_iff in J.
    apply stored_b_false. assumption.
  - intros x nd F. rewrite forallb_forall in C1. apply tfind_in in F. apply C1 in F.
    simpl in F. apply Nat.eqb_eq in F. assumption.
  - intros o J. rewrite forallb_forall in C2. auto.
  - intros b bk e x N1 N2 N3. rewrite forallb_forall in D. apply nth_error_In in N1.
    apply D in N1. rewrite N2 in N1. rewrite forallb_forall in N1. auto.
  - intros b bk N1 Cl. rewrite claimed_ok_b_iff in P. apply (P b bk N1). assumption.
Qed.

Theorem tinv_b_complete : forall s, XInv s -> tinv_b s = true.
Proof.
  intros s I. unfold tinv_b, xterms_unique_b, counts_exact_b, xno_dangling_b, phase_ok_b.
  repeat (apply andb_true_iff; split).
  - apply nodup_b_iff. apply I.
  - apply nodup_b_iff. apply I.
  - apply nodup_b_iff. apply I.
  - apply forallb_forall. intros x J. apply negb_true_iff. apply stored_b_false. apply (xi_free_disj _ I _ J).
  - apply forallb_forall. intros [x nd] J. simpl. apply Nat.eqb_eq.
    apply (xi_rc _ I). apply in_tfind; [apply I | assumption].
  - apply forallb_forall. intros o J. apply (xi_own _ I _ J).
  - apply forallb_forall. intros bk J. destruct (tb_ent bk) as [e|] eqn:EN; [|reflexivity].
    apply forallb_forall. intros x K. apply In_nth_error in J. destruct J as (b & N1).
    eapply (xi_cache _ I); eauto.
  - apply claimed_ok_b_iff. intros b bk N1 C. apply (xi_claim _ I _ _ N1). assumption.
Qed.

(** no weak edge dangles, the table is duplicate free, the counts are exact: in every state the
    code's protocol reaches *)
Theorem xreachable_checks : forall cap nb s, xreachable cap nb s ->
  xno_dangling_b s = true /\ xterms_unique_b s = true /\ counts_exact_b s = true.
Proof.
  intros cap nb s R. assert (H := tinv_b_complete _ (xreachable_inv _ _ _ R)).
  unfold tinv_b in H.
  apply andb_true_iff in H. destruct H as [H _].
  apply andb_true_iff in H. destruct H as [H D].
  apply andb_true_iff in H. destruct H as [U C]. auto.
Qed.

(** ** a cache hit *)

Lemma in_owners_pos : forall own o, In o own -> 0 < xowners own (snd o).
Proof.
  induction own as [|p r IH]; simpl; intros o J; [contradiction|]. destruct J as [J|J].
  - subst. rewrite N.eqb_refl. lia.
  - specialize (IH _ J). lia.
Qed.

(** the hit returns the value edges of the entry; every one of them is a stored terminal that
    carries the value it carried before, with a positive count, and the thread owns it *)
Theorem xhit_valid : forall s tid b args s' vals,
  XInv s -> xstep false s (XLookup tid b args) = Some (s', XRhit vals) ->
  XInv s' /\
  (exists bk e, nth_error (ct_b s) b = Some bk /\ tb_lock bk = LWorker tid /\ tb_ent bk = Some e /\
                args = te_args e /\ vals = te_vals e) /\
  (forall x, In x vals ->
     In (tid, x) (ct_own s') /\
     exists nd nd', tfind (ct_tt s) x = Some nd /\ tfind (ct_tt s') x = Some nd' /\
                    tn_val nd' = tn_val nd /\ (0 < tn_rc nd')%N).
Proof.
  intros s tid b args s' vals I H. split; [eapply xstep_inv; eauto|].
  assert (I' : XInv s') by (eapply xstep_inv; eauto).
  simpl in H. destruct (nth_error (ct_b s) b) as [bk|] eqn:NB; [|discriminate].
  destruct (held_by (tb_lock bk) tid) eqn:HB; [|discriminate].
  destruct (tb_ent bk) as [e|] eqn:EN; [|discriminate].
  destruct (ids_eqb args (te_args e)) eqn:IE; [|discriminate].
  destruct (retain_vals tid (te_vals e) (ct_tt s) (ct_own s)) as [t' own'] eqn:RV.
  inversion H; subst; clear H. split.
  - exists bk, e. repeat split; auto.
    + destruct (tb_lock bk); simpl in HB; try discriminate. apply Nat.eqb_eq in HB. congruence.
    + apply ids_eqb_eq. assumption.
  - destruct (retain_vals_spec _ _ _ _ _ _ RV) as (A & B & C & D & E & F & G).
    intros x J. simpl. split; [auto|].
    assert (S : stored_b (ct_tt s) x = true).
    { eapply (xi_cache _ I); eauto. unfold te_ids. apply in_or_app. auto. }
    apply stored_b_true in S. destruct S as (nd & F0).
    assert (S' : stored_b t' x = true) by (rewrite C; apply stored_b_true; eauto).
    apply stored_b_true in S'. destruct S' as (nd' & F1).
    exists nd, nd'. repeat split; auto.
    + specialize (D x). rewrite F0, F1 in D. simpl in D. congruence.
    + assert (RC := xi_rc _ I' _ _ F1). simpl in RC.
      assert (P := in_owners_pos _ _ (G x J)). simpl in P. lia.
Qed.

(** ** the terminal collector *)

(** whenever the collector frees a terminal: the sweep phase, every bucket is empty and held
    by the collector, nobody owns a counted edge to the terminal, no cache entry names it *)
Theorem xgc_term_safe : forall s x s',
  XInv s -> xstep false s (XGcTerm x) = Some (s', XRfreed) ->
  ct_ph s = PSweep /\
  (forall b bk, nth_error (ct_b s) b = Some bk -> tb_ent bk = None /\ tb_lock bk = LCollector) /\
  xowners (ct_own s) x = 0 /\
  (forall o, In o (ct_own s) -> snd o <> x) /\
  XInv s' /\ tfind (ct_tt s') x = None /\ In x (ct_free s').
Proof.
  intros s x s' I H. assert (I' : XInv s') by (eapply xstep_inv; eauto).
  simpl in H. destruct (tphase_eqb (ct_ph s) PSweep) eqn:PH; [|discriminate].
  assert (PS : ct_ph s = PSweep) by (destruct (ct_ph s); simpl in PH; congruence).
  destruct (tfind (ct_tt s) x) as [nd|] eqn:F; [|discriminate].
  destruct (N.eqb_spec (tn_rc nd) 0); [|discriminate]. inversion H; subst; clear H.
  assert (O : xowners (ct_own s) x = 0) by (rewrite <- (xi_rc _ I _ _ F), e; reflexivity).
  split; [assumption|].
  split. { intros b bk N1. apply (xi_claim _ I _ _ N1). rewrite PS. reflexivity. }
  split; [assumption|].
  split. { intros o J E. assert (P := in_owners_pos _ _ J). rewrite E in P. lia. }
  split; [assumption|].
  split; simpl; [apply tfind_tremove_same; apply I | auto].
Qed.

(** the collector keeps every terminal somebody holds a counted edge to *)
Theorem xgc_term_keeps_owned : forall s x s' r y,
  XInv s -> xstep false s (XGcTerm x) = Some (s', r) -> 0 < xowners (ct_own s) y ->
  tfind (ct_tt s') y = tfind (ct_tt s) y.
Proof.
  intros s x s' r y I H P. simpl in H.
  destruct (tphase_eqb (ct_ph s) PSweep); [|discriminate].
  destruct (tfind (ct_tt s) x) as [nd|] eqn:F; [|discriminate].
  destruct (N.eqb_spec (tn_rc nd) 0); inversion H; subst; clear H; [|reflexivity].
  simpl. destruct (N.eq_dec x y).
  - subst. assert (RC := xi_rc _ I _ _ F). rewrite e in RC. simpl in RC. lia.
  - apply tfind_tremove_other. assumption.
Qed.

(** ** memoised values *)

(** some cache entry names the terminal [x] *)
Definition named (s : cts) (x : N) : Prop :=
  exists b bk e, nth_error (ct_b s) b = Some bk /\ tb_ent bk = Some e /\ In x (te_ids e).

(** no action of any holder or of the collector removes or alters the value of a terminal
    that a cache entry names or that somebody holds a counted edge to *)
Theorem xstep_value_stable : forall s a s' r x nd,
  XInv s -> xstep false s a = Some (s', r) -> tfind (ct_tt s) x = Some nd ->
  named s x \/ 0 < xowners (ct_own s) x ->
  exists nd', tfind (ct_tt s') x = Some nd' /\ tn_val nd' = tn_val nd.
Proof.
  intros s a s' r x nd I H F NO.
  assert (UPD : forall f y, exists nd', tfind (tupd f y (ct_tt s)) x = Some nd' /\ tn_val nd' = tn_val nd).
  { intros f y. assert (D := tfind_tupd_val f y (ct_tt s) x). rewrite F in D. simpl in D.
    destruct (tfind (tupd f y (ct_tt s)) x) as [nd'|]; [|discriminate]. exists nd'. split; auto.
    simpl in D. congruence. }
  destruct a; simpl in H.
  - destruct (tfind_val (ct_tt s) v) as [y|].
    + inversion H; subst; simpl. apply UPD.
    + destruct (ct_free s) as [|y fr] eqn:FR; inversion H; subst; simpl; eauto.
      assert (NF : tfind (ct_tt s) y = None) by (apply (xi_free_disj _ I); rewrite FR; left; reflexivity).
      destruct (N.eqb_spec y x); [subst; congruence|]. eauto.
  - destruct (owned_b (ct_own s) x0); inversion H; subst; simpl. apply UPD.
  - destruct (xtake_tok (h, x0) (ct_own s)); inversion H; subst; simpl. apply UPD.
  - destruct (xtake_tok (h, x0) (ct_own s)); inversion H; subst; simpl. eauto.
  - destruct (nth_error (ct_b s) b) as [bk|]; [|discriminate].
    destruct (is_free (tb_lock bk)); inversion H; subst; simpl; eauto.
  - destruct (nth_error (ct_b s) b) as [bk|]; [|discriminate].
    destruct (held_by (tb_lock bk) tid && forallb (owned_b (ct_own s)) (te_ids e)); inversion H; subst; simpl; eauto.
  - destruct (nth_error (ct_b s) b) as [bk|]; [|discriminate].
    destruct (held_by (tb_lock bk) tid); [|discriminate].
    destruct (tb_ent bk) as [e|]; [|inversion H; subst; eauto].
    destruct (ids_eqb args (te_args e)); [|inversion H; subst; eauto].
    destruct (retain_vals tid (te_vals e) (ct_tt s) (ct_own s)) as [t' own'] eqn:RV.
    inversion H; subst; simpl.
    destruct (retain_vals_spec _ _ _ _ _ _ RV) as (_ & _ & _ & D & _).
    specialize (D x). rewrite F in D. simpl in D.
    destruct (tfind t' x) as [nd'|]; [|discriminate]. exists nd'. split; auto. simpl in D. congruence.
  - destruct (nth_error (ct_b s) b) as [bk|]; [|discriminate].
    destruct (held_by (tb_lock bk) tid); inversion H; subst; simpl; eauto.
  - destruct (ct_ph s); inversion H; subst; simpl; eauto.
  - destruct (ct_ph s); try discriminate. destruct (Nat.eqb b (ct_next s)); [|discriminate].
    destruct (nth_error (ct_b s) b) as [bk|]; [|discriminate].
    destruct (is_free (tb_lock bk)); inversion H; subst; simpl; eauto.
  - destruct (ct_ph s); try discriminate.
    destruct (Nat.eqb (ct_next s) (length (ct_b s))); inversion H; subst; simpl; eauto.
  - (* the terminal collector *)
    destruct NO as [(b & bk & e & N1 & N2 & N3)|P].
    + destruct (tphase_eqb (ct_ph s) PSweep) eqn:PH; [|discriminate].
      assert (PS : ct_ph s = PSweep) by (destruct (ct_ph s); simpl in PH; congruence).
      assert (C : claimed_b (ct_ph s) (ct_next s) b = true) by (rewrite PS; reflexivity).
      destruct (xi_claim _ I _ _ N1 C) as [EN _]. congruence.
    + rewrite <- (xgc_term_keeps_owned _ _ _ _ _ I H P) in F. eauto.
  - destruct (ct_ph s); inversion H; subst; simpl; eauto.
  - destruct (ct_ph s); try discriminate. destruct (Nat.eqb b (ct_next s)); [|discriminate].
    destruct (nth_error (ct_b s) b) as [bk|]; inversion H; subst; simpl; eauto.
  - destruct (ct_ph s); discriminate.
  - destruct (ct_ph s); try discriminate.
    destruct (Nat.eqb (ct_next s) (length (ct_b s))); simpl in H; inversion H; subst; simpl; eauto.
Qed.

(** a bucket's entry changes only by an insertion into this bucket or by the collector's clear *)
Theorem xstep_entry_cases : forall late s a s' r b bk,
  xstep late s a = Some (s', r) -> nth_error (ct_b s) b = Some bk ->
  exists bk', nth_error (ct_b s') b = Some bk' /\
    (tb_ent bk' = tb_ent bk \/ (exists tid e, a = XAdd tid b e) \/ a = XGcLockBucket b).
Proof.
  intros late s a s' r b bk H NB.
  assert (SAME : ct_b s' = ct_b s -> exists bk', nth_error (ct_b s') b = Some bk' /\
            (tb_ent bk' = tb_ent bk \/ (exists tid e, a = XAdd tid b e) \/ a = XGcLockBucket b)).
  { intros E. rewrite E. eauto. }
  assert (UPD : forall b0 bk0 l, nth_error (ct_b s) b0 = Some bk0 -> ct_b s' = xupd_nth (ct_b s) b0 (mkTB (tb_ent bk0) l) ->
            exists bk', nth_error (ct_b s') b = Some bk' /\
            (tb_ent bk' = tb_ent bk \/ (exists tid e, a = XAdd tid b e) \/ a = XGcLockBucket b)).
  { intros b0 bk0 l N0 E. rewrite E. destruct (Nat.eq_dec b0 b).
    - subst. rewrite (nth_upd_same _ _ _ _ _ NB). eexists; split; eauto. left. simpl. congruence.
    - rewrite nth_upd_other by assumption. eauto. }
  destruct a; simpl in H.
  - destruct (tfind_val (ct_tt s) v); [inversion H; subst; apply SAME; reflexivity|].
    destruct (ct_free s); inversion H; subst; apply SAME; reflexivity.
  - destruct (owned_b (ct_own s) x); inversion H; subst; apply SAME; reflexivity.
  - destruct (xtake_tok (h, x) (ct_own s)); inversion H; subst; apply SAME; reflexivity.
  - destruct (xtake_tok (h, x) (ct_own s)); inversion H; subst; apply SAME; reflexivity.
  - destruct (nth_error (ct_b s) b0) as [bk0|] eqn:N0; [|discriminate].
    destruct (is_free (tb_lock bk0)); inversion H; subst; [|apply SAME; reflexivity].
    eapply UPD; [exact N0 | reflexivity].
  - destruct (nth_error (ct_b s) b0) as [bk0|] eqn:N0; [|discriminate].
    destruct (held_by (tb_lock bk0) tid && forallb (owned_b (ct_own s)) (te_ids e)); inversion H; subst; simpl.
    destruct (Nat.eq_dec b0 b).
    + subst. rewrite (nth_upd_same _ _ _ _ _ NB). eexists; split; eauto.
    + rewrite nth_upd_other by assumption. eauto.
  - destruct (nth_error (ct_b s) b0) as [bk0|] eqn:N0; [|discriminate].
    destruct (held_by (tb_lock bk0) tid); [|discriminate].
    destruct (tb_ent bk0) as [e|]; [|inversion H; subst; apply SAME; reflexivity].
    destruct (ids_eqb args (te_args e)); [|inversion H; subst; apply SAME; reflexivity].
    destruct (retain_vals tid (te_vals e) (ct_tt s) (ct_own s)). inversion H; subst; apply SAME; reflexivity.
  - destruct (nth_error (ct_b s) b0) as [bk0|] eqn:N0; [|discriminate].
    destruct (held_by (tb_lock bk0) tid); inversion H; subst. eapply UPD; [exact N0 | reflexivity].
  - destruct (ct_ph s); inversion H; subst; apply SAME; reflexivity.
  - destruct (ct_ph s); try discriminate. destruct (Nat.eqb_spec b0 (ct_next s)); [|discriminate].
    destruct (nth_error (ct_b s) b0) as [bk0|] eqn:N0; [|discriminate].
    destruct (is_free (tb_lock bk0)); inversion H; subst; simpl.
    destruct (Nat.eq_dec (ct_next s) b).
    + subst. rewrite (nth_upd_same _ _ _ _ _ NB). eexists; split; eauto.
    + rewrite nth_upd_other by assumption. eauto.
  - destruct (ct_ph s); try discriminate.
    destruct (Nat.eqb (ct_next s) (length (ct_b s))); inversion H; subst; apply SAME; reflexivity.
  - destruct (tphase_eqb (ct_ph s) (if late then PLate else PSweep)); [|discriminate].
    destruct (tfind (ct_tt s) x) as [nd|]; [|discriminate].
    destruct (N.eqb (tn_rc nd) 0); inversion H; subst; apply SAME; reflexivity.
  - destruct (ct_ph s); inversion H; subst; apply SAME; reflexivity.
  - destruct (ct_ph s); try discriminate. destruct (Nat.eqb b0 (ct_next s)); [|discriminate].
    destruct (nth_error (ct_b s) b0) as [bk0|] eqn:N0; inversion H; subst. eapply UPD; [exact N0 | reflexivity].
  - destruct (ct_ph s); try discriminate.
    destruct (late && Nat.eqb (ct_next s) (length (ct_b s))); inversion H; subst; apply SAME; reflexivity.
  - destruct (ct_ph s); try discriminate.
    + destruct (negb late && Nat.eqb (ct_next s) (length (ct_b s))); inversion H; subst; apply SAME; reflexivity.
    + destruct late; inversion H; subst; apply SAME; reflexivity.
Qed.

(** actions that neither overwrite nor clear bucket [b] *)
Definition quiet (b : nat) (a : xact) : Prop :=
  match a with
  | XAdd _ b' _ => b' <> b
  | XGcLockBucket b' => b' <> b
  | _ => True
  end.

(** as long as an entry is neither overwritten nor cleared, it stays where it is and every
    terminal it names stays stored with the value it had: under every schedule *)
Theorem xrun_entry_memo : forall sched s s' b bk e,
  XInv s -> nth_error (ct_b s) b = Some bk -> tb_ent bk = Some e ->
  Forall (quiet b) sched -> xrun false s sched = Some s' ->
  XInv s' /\
  (exists bk', nth_error (ct_b s') b = Some bk' /\ tb_ent bk' = Some e) /\
  (forall x, In x (te_ids e) ->
     exists nd nd', tfind (ct_tt s) x = Some nd /\ tfind (ct_tt s') x = Some nd' /\ tn_val nd' = tn_val nd).
Proof.
  induction sched as [|a r IH]; simpl; intros s s' b bk e I NB EN Q H.
  - inversion H; subst. split; auto. split; eauto.
    intros x J. assert (S := xi_cache _ I _ _ _ _ NB EN J). apply stored_b_true in S.
    destruct S as (nd & F). eauto.
  - destruct (xstep false s a) as [[s1 res]|] eqn:ST; [|discriminate].
    inversion Q as [|? ? Qa Qr]; subst.
    assert (I1 : XInv s1) by (eapply xstep_inv; eauto).
    destruct (xstep_entry_cases _ _ _ _ _ _ _ ST NB) as (bk1 & N1 & C).
    assert (E1 : tb_ent bk1 = Some e).
    { destruct C as [C|[(tid & e' & C)|C]]; [congruence | subst a; simpl in Qa; congruence | subst a; simpl in Qa; congruence]. }
    destruct (IH _ _ _ _ _ I1 N1 E1 Qr H) as (I' & B' & V').
    split; auto. split; auto.
    intros x J. destruct (V' x J) as (nd1 & nd' & F1 & F' & EV).
    assert (S := xi_cache _ I _ _ _ _ NB EN J). apply stored_b_true in S. destruct S as (nd & F).
    destruct (xstep_value_stable _ _ _ _ x nd I ST F) as (nd1' & F1' & EV1).
    { left. exists b, bk, e. auto. }
    exists nd, nd'. repeat split; auto. congruence.
Qed.

(** hence a lookup with the memoised key by any thread, after any such schedule, is a hit that
    returns exactly the memoised value edges, denoting the memoised values *)
Theorem xhit_memo : forall sched s s1 b bk e tid s2 r,
  XInv s -> nth_error (ct_b s) b = Some bk -> tb_ent bk = Some e ->
  Forall (quiet b) sched -> xrun false s sched = Some s1 ->
  xstep false s1 (XLookup tid b (te_args e)) = Some (s2, r) ->
  r = XRhit (te_vals e) /\
  (forall x, In x (te_vals e) ->
     exists nd nd', tfind (ct_tt s) x = Some nd /\ tfind (ct_tt s2) x = Some nd' /\ tn_val nd' = tn_val nd).
Proof.
  intros sched s s1 b bk e tid s2 r I NB EN Q H L.
  destruct (xrun_entry_memo _ _ _ _ _ _ I NB EN Q H) as (I1 & (bk1 & N1 & E1) & V).
  assert (R : r = XRhit (te_vals e)).
  { simpl in L. rewrite N1 in L. destruct (held_by (tb_lock bk1) tid); [|discriminate].
    rewrite E1 in L.
    assert (IE : ids_eqb (te_args e) (te_args e) = true).
    { clear. induction (te_args e) as [|x l IHl]; simpl; auto. rewrite N.eqb_refl. auto. }
    rewrite IE in L. destruct (retain_vals tid (te_vals e) (ct_tt s1) (ct_own s1)). inversion L; reflexivity. }
  split; auto. subst r.
  destruct (xhit_valid _ _ _ _ _ _ I1 L) as (_ & _ & HV).
  intros x J. destruct (HV x J) as (_ & nd1 & nd2 & F1 & F2 & EV2 & _).
  destruct (V x) as (nd & nd1' & F & F1' & EV1); [unfold te_ids; apply in_or_app; auto|].
  exists nd, nd2. repeat split; auto. congruence.
Qed.

(** ** the lifted end state of a parallel block: what [tinv_b] says about a snapshot *)
Lemma owners_of_nat : forall refs x, N.to_nat (N.of_nat (xowners refs x)) = xowners refs x.
Proof. intros. apply Nat2N.id. Qed.

Lemma tfind_lift : forall terms refs x nd,
  tfind (map (fun p : N * N => (fst p, mkTN (snd p) (N.of_nat (xowners refs (fst p))))) terms) x = Some nd ->
  tn_rc nd = N.of_nat (xowners refs x).
Proof.
  induction terms as [|[i v] r IH]; simpl; intros refs x nd H; [discriminate|].
  destruct (N.eqb_spec i x); [inversion H; subst; reflexivity | eauto].
Qed.

Theorem lift_terms_inv : forall terms refs nb,
  NoDup (map fst terms) -> NoDup (map snd terms) ->
  (forall o, In o refs -> In (snd o) (map fst terms)) ->
  XInv (lift_terms terms refs nb).
Proof.
  intros terms refs nb A B C. unfold lift_terms.
  set (tt := map (fun p : N * N => (fst p, mkTN (snd p) (N.of_nat (xowners refs (fst p))))) terms).
  assert (F1 : map fst tt = map fst terms) by (unfold tt; rewrite map_map; reflexivity).
  assert (F2 : map tvalf tt = map snd terms) by (unfold tt; rewrite map_map; reflexivity).
  constructor; simpl.
  - rewrite F1. assumption.
  - rewrite F2. assumption.
  - constructor.
  - intros x [].
  - intros x nd F. rewrite (tfind_lift _ _ _ _ F). apply Nat2N.id.
  - intros o J. apply C in J. rewrite <- F1 in J.
    destruct (stored_b tt (snd o)) eqn:S; [reflexivity|]. apply stored_b_false in S.
    apply tfind_none_notin in S. contradiction.
  - intros b bk e x N1 N2. apply nth_repeat in N1. subst. discriminate.
  - intros b bk _ Cc. discriminate.
Qed.

(** the invariant, clause by clause *)
Theorem XInv_flat : forall s,
  XInv s <->
  (NoDup (map fst (ct_tt s)) /\
   NoDup (map (fun p => tn_val (snd p)) (ct_tt s)) /\
   NoDup (ct_free s) /\
   (forall x, In x (ct_free s) -> tfind (ct_tt s) x = None) /\
   (forall x nd, tfind (ct_tt s) x = Some nd -> N.to_nat (tn_rc nd) = xowners (ct_own s) x) /\
   (forall o, In o (ct_own s) -> stored_b (ct_tt s) (snd o) = true) /\
   (forall b bk e x, nth_error (ct_b s) b = Some bk -> tb_ent bk = Some e ->
                     In x (te_args e ++ te_vals e) -> stored_b (ct_tt s) x = true) /\
   (forall b bk, nth_error (ct_b s) b = Some bk -> claimed_b (ct_ph s) (ct_next s) b = true ->
                 tb_ent bk = None /\ tb_lock bk = LCollector)).
Proof.
  intros s. split.
  - intros [A B C D E F G H]. repeat split; auto; apply (H b bk); assumption.
  - intros (A & B & C & D & E & F & G & H). constructor; auto.
Qed.
