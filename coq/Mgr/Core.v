(** * STORECONC — the manager core as ONE state machine: the unique table and the reference counts
      of Mgr/Conc.v RUNNING ON the node store of Mgr/IndexStore.v (which runs on the slot allocator
      of Mgr/Alloc.v).  Executable definitions only, no proofs.

    Mirrors /repo/crates/oxidd-manager-index/src/manager.rs:

      [kstep (KGoi tid lvl ch)]   `LevelViewSet::get_or_insert` under the level mutex:
                                  `find_or_find_insert_slot` = Conc's [find_shape];
                                  found:     `drop(node)` = `node.drop_with(|e| store.drop_edge(e))`
                                             = one [IRelease] per inner child edge, in order, then
                                             `clone_edge_unchecked(table's edge)` = [IRetain ht h1]
                                             ([ht] = the edge value stored in the hash table);
                                  not found: `insert(node)` = `Store::add_node(node)` = [IAdd tid h1 h2 ..]
                                             with the child edges MOVED into the node: the store (i.e.
                                             the allocator) supplies the slot id -- there is no [fresh]
                                             argument any more --; `Ok([e1, e2])`: `e1` = [h1] goes into
                                             the hash table (`insert_in_slot_unchecked`), `e2` = [h2] is
                                             returned to the caller;
                                             `Err(OutOfMemory)` (the `?`): `add_node` has already run
                                             `node.drop_with(|e| self.drop_edge(e))` ([release_all] inside
                                             [IAdd]); the hash table is not touched
      [KRetain tid e]             `Store::clone_edge` = [IRetain]: only the TARGET of the borrowed edge
                                  is read (`fetch_add` on the node's counter), so the model clones the
                                  table's own edge value of the target node, which exists iff the node
                                  is stored
      [KRelease tid e]            `Store::drop_edge` of an owned edge = [IRelease]
      [KMove], [KNot]             as in Conc.v: no memory access
      [KGc t id]                  one iteration of `retain` in `LevelViewSet::gc` run by thread [t]:
                                  [IRemove t ht]: `load_rc != 1`: entry kept; `== 1`: `mem::forget(edge)`,
                                  `Store::free_slot` (children released, slot to the allocator), the
                                  entry leaves the hash table
      [KInternal a]               the allocator-internal actions of Alloc.v
      [kcollect t]                `Manager::gc` by thread [t]: the levels top-down, every entry of a level
                                  once (as [collect] of Mgr/ConcGc.v)

    The state is the product: [k_i] = IndexStore's state; [k_cn] = Conc's table (id |-> level,
    children, count as REPORTED by the API = stored count - 1: the agreement with [k_i] is a theorem,
    Mgr/CoreProofs.v [KInv]); [k_tok] = Conc's ownership tokens, each with the handle variable of its
    edge value; [k_hd] = the edge values stored in the hash tables (node id |-> handle variable).
    [kproj] erases the store.

    A step is [kops] (Conc's guard + the script of store operations), [irun] of that script on the
    store, [kfin] (the table update, from the store's results).  The [None] branches of [kfin] are
    result shapes that [istep] never produces for the script / a slot id 0: unreachable
    ([kstep_progress] in Mgr/CoreProofs.v).

    Terminal edges carry no count (`id < TERMINALS` branches) in both component models. *)

From Coq Require Import List NArith ZArith PArith Bool Arith FMapPositive.
From OxiVerif Require Import DD.Table Mgr.Alloc Tbl.RcStore Mgr.IndexStore Mgr.Conc Mgr.ConcGc.
Import ListNotations.

Definition ktoken := (nat * edge * nat)%type.      (* ((thread, edge value), handle variable) *)

Record kst := mkK {
  k_i : istate;
  k_cn : ctable;
  k_tok : list ktoken;
  k_hd : list (positive * nat)
}.

Definition kinit (c : cfg) (n : nat) : kst := mkK (iinit c n) [] [] [].

(** erase the store: a state of Mgr/Conc.v *)
Definition kproj (s : kst) : cst := mkCst (k_cn s) (map fst (k_tok s)).

Inductive kact :=
| KGoi (tid lvl : nat) (ch : list edge)
| KRetain (tid : nat) (e : edge)
| KRelease (tid : nat) (e : edge)
| KMove (tid tid' : nat) (e : edge)
| KNot (tid : nat) (e : edge)
| KGc (t : nat) (id : positive)
| KInternal (a : Alloc.act).

Inductive kres :=
| KRFound (id : positive)
| KRNew (id : positive)
| KROom
| KRUnit
| KRRemoved
| KRKept
| KRObs (o : obs).

Fixpoint hfind (id : positive) (hd : list (positive * nat)) : option nat :=
  match hd with
  | [] => None
  | (i, h) :: r => if Pos.eqb i id then Some h else hfind id r
  end.

Fixpoint hremove (id : positive) (hd : list (positive * nat)) : list (positive * nat) :=
  match hd with
  | [] => []
  | (i, h) :: r => if Pos.eqb i id then r else (i, h) :: hremove id r
  end.

(** Conc's [take_tok] with the handle variable of the token that is taken *)
Fixpoint take_tok3 (x : nat * edge) (l : list ktoken) : option (nat * list ktoken) :=
  match l with
  | [] => None
  | (y, h) :: r =>
    if tok_eqb x y then Some (h, r)
    else match take_tok3 x r with Some (h', r') => Some (h', (y, h) :: r') | None => None end
  end.

(** Conc's [take_toks]: the handle variables of the inner child edges, in order *)
Fixpoint take_toks3 (tid : nat) (ch : list edge) (l : list ktoken) : option (list nat * list ktoken) :=
  match ch with
  | [] => Some ([], l)
  | e :: r =>
    match eref e with
    | RT _ => take_toks3 tid r l
    | RN _ =>
      match take_tok3 (tid, e) l with
      | None => None
      | Some (h, l1) =>
        match take_toks3 tid r l1 with
        | None => None
        | Some (hs, l2) => Some (h :: hs, l2)
        end
      end
    end
  end.

(** the ids of the inner child edges, in order *)
Fixpoint inner_ids (ch : list edge) : list positive :=
  match ch with
  | [] => []
  | e :: r => match eref e with RN id => id :: inner_ids r | RT _ => inner_ids r end
  end.

Fixpoint oN_list_eqb (a b : list (option N)) : bool :=
  match a, b with
  | [], [] => true
  | Some x :: a', Some y :: b' => N.eqb x y && oN_list_eqb a' b'
  | None :: a', None :: b' => oN_list_eqb a' b'
  | _, _ => false
  end.

Section Core.
Variable k : kind.
Variable terms : list (N * N).
Variable nl : nat.

(** two handle variables that are not in use *)
Definition kh1 (s : kst) : nat := fresh_h 0 (i_hs (k_i s)).
Definition kh2 (s : kst) : nat := fresh_h (kh1 s) (i_hs (k_i s)).

(** the guard of Conc's [step] and the store operations the action performs *)
Definition kops (s : kst) (a : kact) : option (list iop) :=
  let cn := k_cn s in
  match a with
  | KGoi tid lvl ch =>
    if node_pre_b k terms nl cn lvl ch then
      match take_toks3 tid ch (k_tok s) with
      | None => None
      | Some (hs, _) =>
        match find_shape cn lvl ch with
        | Some id =>
          match hfind id (k_hd s) with
          | Some ht => Some (map IRelease hs ++ [IRetain ht (kh1 s)])
          | None => None
          end
        | None => Some [IAdd tid (kh1 s) (kh2 s) (N.of_nat lvl) hs]
        end
      end
    else None
  | KRetain tid e =>
    match eref e with
    | RT _ => if cref_ok_b terms cn (eref e) then Some [] else None
    | RN id =>
      if can_borrow_b nl (kproj s) e then
        match hfind id (k_hd s) with Some ht => Some [IRetain ht (kh1 s)] | None => None end
      else None
    end
  | KRelease tid e =>
    match eref e with
    | RT _ => if cref_ok_b terms cn (eref e) then Some [] else None
    | RN _ => match take_tok3 (tid, e) (k_tok s) with Some (h, _) => Some [IRelease h] | None => None end
    end
  | KMove tid _ e =>
    match eref e with
    | RT _ => if cref_ok_b terms cn (eref e) then Some [] else None
    | RN _ => match take_tok3 (tid, e) (k_tok s) with Some _ => Some [] | None => None end
    end
  | KNot tid e =>
    if is_bcdd k then
      match eref e with
      | RT _ => if cref_ok_b terms cn (eref e) then Some [] else None
      | RN _ => match take_tok3 (tid, e) (k_tok s) with Some _ => Some [] | None => None end
      end
    else None
  | KGc t id =>
    match cfind cn id, hfind id (k_hd s) with
    | Some _, Some ht => Some [IRemove t ht]
    | _, _ => None
    end
  | KInternal a => Some [IInternal a]
  end.

(** the update of table, tokens and hash-table edges, given the store's results *)
Definition kfin (s : kst) (a : kact) (i' : istate) (rs : list ires) : option (kst * kres) :=
  let cn := k_cn s in
  let tok := k_tok s in
  let hd := k_hd s in
  match a with
  | KGoi tid lvl ch =>
    match take_toks3 tid ch tok with
    | None => None
    | Some (_, tok1) =>
      match find_shape cn lvl ch with
      | Some id =>
        Some (mkK i' (rc_inc id (dec_children cn ch)) ((tid, mkEdge (RN id) false, kh1 s) :: tok1) hd, KRFound id)
      | None =>
        match rs with
        | [IRAdded (Npos fr) _] =>
          Some (mkK i' ((fr, mkC lvl ch 1%N) :: cn) ((tid, mkEdge (RN fr) false, kh2 s) :: tok1)
                    ((fr, kh1 s) :: hd), KRNew fr)
        | [IROom _] => Some (mkK i' (dec_children cn ch) tok1 hd, KROom)
        | _ => None
        end
      end
    end
  | KRetain tid e =>
    match eref e with
    | RT _ => Some (mkK i' cn tok hd, KRUnit)
    | RN id => Some (mkK i' (rc_inc id cn) ((tid, e, kh1 s) :: tok) hd, KRUnit)
    end
  | KRelease tid e =>
    match eref e with
    | RT _ => Some (mkK i' cn tok hd, KRUnit)
    | RN id =>
      match take_tok3 (tid, e) tok with
      | Some (_, tok') => Some (mkK i' (rc_dec id cn) tok' hd, KRUnit)
      | None => None
      end
    end
  | KMove tid tid' e =>
    match eref e with
    | RT _ => Some (mkK i' cn tok hd, KRUnit)
    | RN _ =>
      match take_tok3 (tid, e) tok with
      | Some (h, tok') => Some (mkK i' cn ((tid', e, h) :: tok') hd, KRUnit)
      | None => None
      end
    end
  | KNot tid e =>
    match eref e with
    | RT _ => Some (mkK i' cn tok hd, KRUnit)
    | RN _ =>
      match take_tok3 (tid, e) tok with
      | Some (h, tok') => Some (mkK i' cn ((tid, mkEdge (eref e) (negb (etag e)), h) :: tok') hd, KRUnit)
      | None => None
      end
    end
  | KGc _ id =>
    match rs with
    | [IRRemoved _ _ _] =>
      match cfind cn id with
      | Some nd => Some (mkK i' (dec_children (cremove id cn) (cch nd)) tok (hremove id hd), KRRemoved)
      | None => None
      end
    | [IRKept _] => Some (mkK i' cn tok hd, KRKept)
    | _ => None
    end
  | KInternal _ =>
    match rs with
    | [IRObs o] => Some (mkK i' cn tok hd, KRObs o)
    | _ => None
    end
  end.

(** one atomic action of the manager core; also returns the results of the store operations *)
Definition kstep (c : cfg) (s : kst) (a : kact) : option (kst * kres * list ires) :=
  match kops s a with
  | None => None
  | Some ops =>
    match irun c (k_i s) ops with
    | None => None
    | Some (i', rs) =>
      match kfin s a i' rs with
      | Some (s', r) => Some (s', r, rs)
      | None => None
      end
    end
  end.

(** a schedule = any list of actions of any threads *)
Fixpoint krun (c : cfg) (s : kst) (sched : list kact) : option (kst * list kres * list ires) :=
  match sched with
  | [] => Some (s, [], [])
  | a :: r =>
    match kstep c s a with
    | None => None
    | Some (s1, x, rs) =>
      match krun c s1 r with
      | Some (s2, xs, rs2) => Some (s2, x :: xs, rs ++ rs2)
      | None => None
      end
    end
  end.

(** the actions of Conc.v that a step of the core stands for: the id that Conc's [AGoi] takes as
    an argument is the one the store returned; a failed `get_or_insert` is what remains of it: the
    release of the child edges that the call consumed *)
Definition kacts (a : kact) (r : kres) : list Conc.act :=
  match a, r with
  | KGoi tid lvl ch, KRFound id => [AGoi tid lvl ch id]
  | KGoi tid lvl ch, KRNew id => [AGoi tid lvl ch id]
  | KGoi tid _ ch, KROom => map (ARelease tid) ch
  | KRetain tid e, _ => [ARetain tid e]
  | KRelease tid e, _ => [ARelease tid e]
  | KMove tid tid' e, _ => [AMove tid tid' e]
  | KNot tid e, _ => [ANot tid e]
  | KGc _ id, KRRemoved => [AGcNode id]
  | _, _ => []
  end.

Fixpoint kacts_list (sched : list kact) (rs : list kres) : list Conc.act :=
  match sched, rs with
  | a :: sched', r :: rs' => kacts a r ++ kacts_list sched' rs'
  | _, _ => []
  end.

(** the store operations of a step (for the statement "the store component runs [irun]") *)
Definition kstep_ops (s : kst) (a : kact) : list iop :=
  match kops s a with Some ops => ops | None => [] end.

(** ** `Manager::gc` by thread [t] *)

Definition kgc_try (c : cfg) (t : nat) (s : kst) (id : positive) : kst :=
  match kstep c s (KGc t id) with
  | Some (s', _, _) => s'
  | None => s
  end.

Definition kgc_level (c : cfg) (t : nat) (s : kst) (l : nat) : kst :=
  fold_left (kgc_try c t) (ids_at_level (k_cn s) l) s.

Definition kcollect (c : cfg) (t : nat) (s : kst) : kst :=
  fold_left (kgc_level c t) (seq 0 nl) s.

(** ** executable form of the link between the components ([KLink] of Mgr/CoreProofs.v) *)

Definition klink_b (s : kst) : bool :=
  let i := k_i s in
  (* hash-table edges: one per stored node, pointing to it, held by a client *)
  forallb (fun p => match hfind (fst p) (k_hd s) with Some _ => true | None => false end) (k_cn s) &&
  forallb (fun q => match cfind (k_cn s) (fst q) with Some _ => true | None => false end &&
                    match afind (snd q) (i_hs i) with Some j => N.eqb j (Npos (fst q)) | None => false end &&
                    negb (bound (i_own i) (snd q))) (k_hd s) &&
  (* tokens: inner edges, their handle points to the node, held by a client *)
  forallb (fun x : ktoken =>
             match eref (snd (fst x)) with
             | RN id => match afind (snd x) (i_hs i) with Some j => N.eqb j (Npos id) | None => false end &&
                        negb (bound (i_own i) (snd x))
             | RT _ => false
             end) (k_tok s) &&
  nodup_nat (map snd (k_hd s) ++ map snd (k_tok s)) &&
  (* counts: stored count = reported count + 1 *)
  forallb (fun p => match nget (i_nodes i) (Npos (fst p)) with
                    | Some (_, rc) => N.eqb rc (crc (snd p) + 1)
                    | None => false
                    end) (k_cn s) &&
  (* child edges *)
  forallb (fun p => oN_list_eqb (map (fun h => afind h (i_hs i)) (kids_of (Npos (fst p)) (i_own i)))
                                 (map (fun j => Some (Npos j)) (inner_ids (cch (snd p))))) (k_cn s).

End Core.
