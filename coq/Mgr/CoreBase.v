(** * STORECONC — lemmas for the composed model Mgr/Core.v: tokens with handle variables project to
      Conc's tokens, the hash-table edge list, two edge values on one node give a stored count >= 2,
      and the central one: releasing a list of edge values in the store ([release_all], never a last
      edge) is [dec_children] on Conc's table ([release_all_agree]). *)

From Coq Require Import List NArith ZArith PArith Bool Arith Lia FMapPositive Permutation.
From OxiVerif Require Import DD.Table Mgr.Alloc Tbl.RcStore Mgr.IndexStore Mgr.IndexStoreProofs
  Mgr.Conc Mgr.ConcBase Mgr.Core.
Import ListNotations.

Arguments N.add : simpl never.
Arguments N.sub : simpl never.

Notation RcInv := (RcStore.AInv N N.eqb).

Lemma F2_impl_in {A B} (P Q : A -> B -> Prop) l1 l2 :
  (forall a b, In a l1 -> In b l2 -> P a b -> Q a b) -> Forall2 P l1 l2 -> Forall2 Q l1 l2.
Proof.
  intros H F. induction F; constructor.
  - apply H; [left; reflexivity | left; reflexivity | assumption].
  - apply IHF. intros a b Ha Hb. apply H; right; assumption.
Qed.

(** ** tokens *)

Lemma take_tok3_proj x l :
  take_tok x (map fst l) = match take_tok3 x l with Some (_, r) => Some (map fst r) | None => None end.
Proof.
  induction l as [|[y h] r IH]; cbn [map take_tok take_tok3 fst]; [reflexivity|].
  destruct (tok_eqb x y); [reflexivity|]. rewrite IH. destruct (take_tok3 x r) as [[h' r']|]; reflexivity.
Qed.

Lemma take_toks3_proj tid ch : forall l,
  take_toks tid ch (map fst l) =
  match take_toks3 tid ch l with Some (_, r) => Some (map fst r) | None => None end.
Proof.
  induction ch as [|e r IH]; intros l; cbn [take_toks take_toks3]; [reflexivity|].
  destruct (eref e) as [x|id]; [apply IH|].
  rewrite take_tok3_proj. destruct (take_tok3 (tid, e) l) as [[h l1]|]; [|reflexivity].
  rewrite IH. destruct (take_toks3 tid r l1) as [[hs l2]|]; reflexivity.
Qed.

Lemma take_tok3_perm x l h r : take_tok3 x l = Some (h, r) -> Permutation l ((x, h) :: r).
Proof.
  revert h r. induction l as [|[y g] l IH]; intros h r H; cbn [take_tok3] in H; [discriminate|].
  destruct (tok_eqb x y) eqn:E.
  - apply tok_eqb_eq in E. subst y. inversion H; subst. apply Permutation_refl.
  - destruct (take_tok3 x l) as [[h' r']|]; [|discriminate]. inversion H; subst.
    eapply perm_trans; [apply perm_skip; apply IH; reflexivity | apply perm_swap].
Qed.

Lemma take_toks3_perm tid ch : forall l hs r, take_toks3 tid ch l = Some (hs, r) ->
  Permutation (map snd l) (hs ++ map snd r) /\ (forall y, In y r -> In y l) /\
  Forall2 (fun h j => exists e, eref e = RN j /\ In (tid, e, h) l) hs (inner_ids ch).
Proof.
  induction ch as [|e ch IH]; intros l hs r H; cbn [take_toks3 inner_ids] in *.
  - inversion H; subst. split; [apply Permutation_refl|]. split; [auto | constructor].
  - destruct (eref e) as [x|id] eqn:Er; [apply IH; exact H|].
    destruct (take_tok3 (tid, e) l) as [[h l1]|] eqn:E1; [|discriminate].
    destruct (take_toks3 tid ch l1) as [[hs2 l2]|] eqn:E2; [|discriminate]. inversion H; subst hs r.
    pose proof (take_tok3_perm _ _ _ _ E1) as P1. destruct (IH _ _ _ E2) as (P2 & I2 & F2).
    assert (Hin1 : forall y, In y l1 -> In y l).
    { intros y Hy. eapply Permutation_in; [apply Permutation_sym; exact P1 | right; exact Hy]. }
    split; [|split].
    + eapply perm_trans; [apply Permutation_map; exact P1|]. cbn [map snd app]. apply perm_skip. exact P2.
    + intros y Hy. apply Hin1, I2, Hy.
    + constructor.
      * exists e. split; [exact Er|]. eapply Permutation_in; [apply Permutation_sym; exact P1 | left; reflexivity].
      * eapply F2_impl_in; [|exact F2]. intros a b _ _ (e' & Ee & Hi). exists e'. split; [exact Ee | apply Hin1; exact Hi].
Qed.

(** ** the hash-table edges *)

Lemma hfind_In id hd h : hfind id hd = Some h -> In (id, h) hd.
Proof.
  induction hd as [|[i g] r IH]; cbn [hfind]; [discriminate|].
  destruct (Pos.eqb_spec i id) as [->|Hne]; [intros H; inversion H; left; reflexivity | intros H; right; auto].
Qed.

Lemma hfind_None id hd : hfind id hd = None <-> ~ In id (map fst hd).
Proof.
  induction hd as [|[i g] r IH]; cbn [hfind map In fst]; [tauto|].
  destruct (Pos.eqb_spec i id) as [->|Hne]; [split; [discriminate | tauto]|]. rewrite IH. tauto.
Qed.

Lemma In_hfind id hd h : NoDup (map fst hd) -> In (id, h) hd -> hfind id hd = Some h.
Proof.
  induction hd as [|[i g] r IH]; cbn [hfind map In fst]; [tauto|]. intros Hnd [E|Hin].
  - inversion E; subst. rewrite Pos.eqb_refl. reflexivity.
  - inversion Hnd; subst. destruct (Pos.eqb_spec i id) as [->|Hne]; [|auto].
    exfalso. apply H1. apply in_map_iff. exists (id, h). auto.
Qed.

Lemma hremove_perm id hd h : hfind id hd = Some h -> Permutation hd ((id, h) :: hremove id hd).
Proof.
  induction hd as [|[i g] r IH]; cbn [hfind hremove]; [discriminate|].
  destruct (Pos.eqb_spec i id) as [->|Hne]; intros H.
  - inversion H; subst. apply Permutation_refl.
  - eapply perm_trans; [apply perm_skip; apply IH; exact H | apply perm_swap].
Qed.

Lemma hfind_hremove id hd j : NoDup (map fst hd) ->
  hfind j (hremove id hd) = if Pos.eqb id j then None else hfind j hd.
Proof.
  induction hd as [|[i g] r IH]; cbn [hfind hremove map fst]; intros Hnd.
  - destruct (Pos.eqb id j); reflexivity.
  - inversion Hnd; subst. destruct (Pos.eqb_spec i id) as [->|Hne].
    + destruct (Pos.eqb_spec id j) as [->|Hne2]; [apply hfind_None; exact H1 | reflexivity].
    + cbn [hfind]. rewrite IH by exact H2. destruct (Pos.eqb_spec i j) as [->|Hne2]; [|reflexivity].
      destruct (Pos.eqb_spec id j); [congruence | reflexivity].
Qed.

(** ** two distinct edge values on one node: stored count >= 2 *)

Lemma acount_ge2 (hs : list (nat * N)) h g v :
  NoDup (map fst hs) -> afind h hs = Some v -> afind g hs = Some v -> h <> g ->
  (2 <= acount N N.eqb v hs)%nat.
Proof.
  intros Hnd Hh Hg Hne.
  rewrite (aremove_acount N N.eqb h hs v v Hnd Hh), N.eqb_refl.
  assert (1 <= acount N N.eqb v (aremove h hs))%nat; [|lia].
  apply (acount_pos N N.eqb N.eqb_eq). exists g. apply (afind_In N).
  rewrite afind_aremove. destruct (Nat.eqb_spec h g); [contradiction | exact Hg].
Qed.

(** ** agreement of the two count fields *)

Definition Agree (nodes : nmap) (cn : ctable) : Prop :=
  (forall id nd, cfind cn id = Some nd -> exists p, nget nodes (Npos id) = Some (p, crc nd + 1)%N) /\
  (forall j, nget nodes j <> None -> exists id, j = Npos id /\ cfind cn id <> None).

Definition dec_ids (cn : ctable) (js : list positive) : ctable := fold_left (fun t j => rc_dec j t) js cn.

Lemma dec_children_ids ch : forall cn, dec_children cn ch = dec_ids cn (inner_ids ch).
Proof.
  induction ch as [|e r IH]; intros cn; cbn [dec_children inner_ids]; [reflexivity|].
  unfold dec_ref. destruct (eref e) as [x|id]; [apply IH|]. rewrite IH. reflexivity.
Qed.

Lemma agree_update nodes cn id nd p (f : N -> N) x :
  Agree nodes cn -> cfind cn id = Some nd -> x = (f (crc nd) + 1)%N ->
  Agree (nset nodes (Npos id) (p, x)) (rc_upd f id cn).
Proof.
  intros [A1 A2] Hf ->. split.
  - intros j nd' Hj. rewrite cfind_rc_upd in Hj. rewrite nget_nset.
    destruct (Pos.eqb_spec j id) as [->|Hne].
    + rewrite Hf in Hj. cbn [option_map] in Hj. inversion Hj; subst nd'. rewrite N.eqb_refl. cbn [crc set_rc]. eauto.
    + destruct (N.eqb_spec (Npos id) (Npos j)) as [E|_]; [inversion E; congruence|]. apply A1. exact Hj.
  - intros j Hj. rewrite nget_nset in Hj. destruct (N.eqb_spec (Npos id) j) as [E|Hne].
    + subst j. exists id. split; [reflexivity|]. rewrite cfind_rc_upd, Pos.eqb_refl, Hf. discriminate.
    + destruct (A2 j Hj) as (i & Ei & Hi). exists i. split; [exact Ei|]. rewrite cfind_rc_upd.
      destruct (Pos.eqb i id); [|exact Hi]. destruct (cfind cn i); [discriminate | congruence].
Qed.

(** releasing the edge values [hs] (targets [js]; for each one another edge value [g] on the same
    node stays: the table's own edge) never meets a last edge and is [rc_dec] of the targets *)
Lemma release_all_agree hs : forall js s cn,
  RcInv (iabs s) -> Agree (i_nodes s) cn -> NoDup hs ->
  Forall2 (fun h j => afind h (i_hs s) = Some (Npos j) /\
                      exists g, ~ In g hs /\ afind g (i_hs s) = Some (Npos j)) hs js ->
  exists s1, release_all s hs = Some (s1, false) /\ RcInv (iabs s1) /\ Agree (i_nodes s1) (dec_ids cn js).
Proof.
  induction hs as [|h hs IH]; intros js s cn HR HA Hnd HF.
  - inversion HF; subst. exists s. cbn. auto.
  - inversion HF as [|? j ? js' [Hh (g & Hg & Hgf)] HF']; subst. inversion Hnd; subst.
    pose proof (AInv_live N N.eqb N.eqb_eq _ _ _ HR Hh) as Hlive. cbn [iabs a_map a_hs] in Hlive.
    destruct HA as [A1 A2]. destruct (A2 _ Hlive) as (j' & Ej & Hc). inversion Ej; subst j'.
    destruct (cfind cn j) as [nd|] eqn:Hcf; [clear Hc | congruence].
    destruct (A1 _ _ Hcf) as [p Hn].
    assert (Hrc : (2 <= crc nd + 1)%N).
    { destruct HR as [HR1 HR2]. specialize (HR2 (Npos j)). cbn [iabs a_map a_hs] in HR2. rewrite Hn in HR2.
      destruct HR2 as [E _]. rewrite E.
      assert (2 <= acount N N.eqb (Npos j) (i_hs s))%nat; [|lia].
      apply (acount_ge2 _ h g); auto. intros ->. apply Hg. left. reflexivity. }
    assert (E1 : release1 s h = Some (mkI (i_al s) (nset (i_nodes s) (Npos j) (p, crc nd + 1 - 1)%N)
                                          (aremove h (i_hs s)) (aremove h (i_own s)), false)).
    { unfold release1. rewrite Hh, Hn. f_equal. f_equal. apply N.leb_gt. lia. }
    set (s1 := mkI (i_al s) (nset (i_nodes s) (Npos j) (p, crc nd + 1 - 1)%N) (aremove h (i_hs s)) (aremove h (i_own s))) in *.
    assert (HR1 : RcInv (iabs s1)).
    { eapply (astep_inv N N.eqb N.eqb_eq); [exact HR | apply release1_astep; exact E1]. }
    assert (HA1 : Agree (i_nodes s1) (rc_dec j cn)).
    { unfold s1, rc_dec. cbn [i_nodes]. eapply agree_update; [split; eauto | exact Hcf | lia]. }
    destruct (IH js' s1 (rc_dec j cn) HR1 HA1 H2) as (s2 & E2 & HR2 & HA2).
    { eapply F2_impl_in; [|exact HF']. intros a b Ha _ (Ha1 & g' & Hg' & Hg'f).
      unfold s1. cbn [i_hs]. rewrite !afind_aremove.
      destruct (Nat.eqb_spec h a) as [->|_]; [contradiction|]. split; [exact Ha1|].
      exists g'. split; [intro; apply Hg'; right; assumption|]. rewrite afind_aremove.
      destruct (Nat.eqb_spec h g') as [->|_]; [exfalso; apply Hg'; left; reflexivity | exact Hg'f]. }
    exists s2. cbn [release_all]. rewrite E1, E2. cbn [orb]. split; [reflexivity|]. split; [exact HR2|].
    cbn [dec_ids fold_left]. exact HA2.
Qed.

(** [map IRelease] as a script = [release_all] *)
Lemma irun_releases c rest hs : forall s s1,
  release_all s hs = Some (s1, false) -> (forall h, In h hs -> afind h (i_own s) = None) ->
  irun c s (map IRelease hs ++ rest) =
  match irun c s1 rest with
  | Some (s2, rs2) => Some (s2, map (fun _ => IRReleased false) hs ++ rs2)
  | None => None
  end.
Proof.
  induction hs as [|h hs IH]; intros s s1 H Hown; cbn [release_all map app] in *.
  - inversion H; subst. destruct (irun c s1 rest) as [[s2 rs2]|]; reflexivity.
  - destruct (release1 s h) as [[sa lk]|] eqn:E1; [|discriminate].
    destruct (release_all sa hs) as [[sb lk2]|] eqn:E2; [|discriminate]. inversion H; subst sb.
    apply orb_false_elim in H2. destruct H2 as [-> ->].
    destruct (release1_spec _ _ _ _ E1) as (id & p & rc & Hf & Hn & Esa & _).
    cbn [irun istep]. unfold client_h. unfold bound at 1. rewrite Hf. unfold bound. rewrite (Hown h (or_introl eq_refl)).
    cbn [andb negb]. rewrite E1. rewrite (IH sa s1 E2).
    + destruct (irun c s1 rest) as [[s2 rs2]|]; reflexivity.
    + intros h' Hh'. rewrite Esa. cbn [i_own]. rewrite afind_aremove.
      destruct (h =? h')%nat; [reflexivity | apply Hown; right; exact Hh'].
Qed.

Lemma Forall2_length_eq {A B} (P : A -> B -> Prop) l1 l2 : Forall2 P l1 l2 -> length l1 = length l2.
Proof. induction 1; cbn; congruence. Qed.
