(** * STORECONC — a concrete run of the composed model Mgr/Core.v (capacity 6, chunk size 2,
      2 terminals: slot ids 2..7; threads 0 (guard) and 1 (worker), collector thread 2; BDD, 4
      levels): every action (KNot is BCDD-only), a `get_or_insert` that finds another thread's
      node, child edges moved into nodes, a full store: OutOfMemory releases the two consumed child
      edges, a collector step that keeps a referenced node and one that removes a dead one (its two
      child edges are released, the slot goes back to the allocator), the collector's epilogue,
      and the retry that re-uses the freed slot 6.  The hypotheses of Mgr/CoreThms.v are
      satisfiable: the end state is [kreachable], hence [KInv]; [klink_b] agrees. *)

From Coq Require Import List NArith ZArith PArith Bool Arith.
From OxiVerif Require Import DD.Table Mgr.Alloc Mgr.AllocExamples Tbl.RcStore Mgr.IndexStore Mgr.IndexStoreProofs
  Mgr.Conc Mgr.ConcGc Mgr.Core Mgr.CoreProofs Mgr.CoreThms.
Import ListNotations.

Definition kx_terms : list (N * N) := [(0%N, 0%N); (1%N, 1%N)].
Definition KT0 : edge := mkEdge (RT 0) false.
Definition KT1 : edge := mkEdge (RT 1) false.
Definition KE (i : positive) : edge := mkEdge (RN i) false.

Definition kx_sched : list kact :=
  [KInternal (APrepare 0); KInternal (ABind 1); KInternal (ABind 2);
   KGoi 0 3 [KT1; KT0];               (* thread 0 creates node 2 *)
   KGoi 1 3 [KT1; KT0];               (* thread 1 finds it *)
   KGoi 1 3 [KT0; KT1];               (* node 4 *)
   KRetain 0 (KE 2); KRetain 1 (KE 4); KMove 1 0 (KE 4);
   KGoi 0 2 [KE 2; KE 4];             (* node 3, two edge values move into it *)
   KGoi 1 2 [KE 4; KE 2];             (* node 5 *)
   KRetain 0 (KE 3); KRetain 0 (KE 5); KMove 1 0 (KE 5);
   KGoi 0 1 [KE 3; KE 5];             (* node 6 *)
   KRetain 0 (KE 3);
   KGoi 0 1 [KE 5; KE 3];             (* node 7: all 6 slots hold nodes *)
   KRetain 0 (KE 6); KRetain 0 (KE 7);
   KGoi 0 0 [KE 6; KE 7];             (* OutOfMemory: the two child edges are released *)
   KRelease 0 (KE 6);                 (* node 6 is dead now *)
   KGc 2 7;                           (* kept: thread 0 holds an edge *)
   KGc 2 6;                           (* removed: its edges to 3 and 5 are released, slot 6 freed *)
   KInternal (AGcFlush 2);            (* the collector hands its list to the shared state *)
   KGoi 0 0 [KT0; KT1]].              (* the retry succeeds in slot 6 *)

Definition kx_results : list kres :=
  [KRObs (OPrep true); KRObs OUnit; KRObs OUnit; KRNew 2; KRFound 2; KRNew 4; KRUnit; KRUnit; KRUnit;
   KRNew 3; KRNew 5; KRUnit; KRUnit; KRUnit; KRNew 6; KRUnit; KRNew 7; KRUnit; KRUnit; KROom; KRUnit;
   KRKept; KRRemoved; KRObs (OFlush 6); KRNew 6].

Definition kx_store_results : list ires :=
  [IRObs (OPrep true); IRObs OUnit; IRObs OUnit; IRAdded 2 PSharedChunk; IRCount 3; IRAdded 4 PSharedChunk;
   IRCount 4; IRCount 3; IRAdded 3 PLocalRange; IRAdded 5 PLocalRange; IRCount 3; IRCount 3;
   IRAdded 6 PSharedBump; IRCount 4; IRAdded 7 PSharedBump; IRCount 3; IRCount 3; IROom false;
   IRReleased false; IRKept 2; IRRemoved 1 [12; 11] false; IRObs (OFlush 6); IRAdded 6 PSharedList].

Theorem kx_run :
  exists s, krun KBdd kx_terms 4 ex_cfg (kinit ex_cfg 3) kx_sched = Some (s, kx_results, kx_store_results) /\
    kreachable KBdd kx_terms 4 ex_cfg s /\ KInv KBdd kx_terms 4 ex_cfg s /\ klink_b s = true /\
    cinv_b KBdd kx_terms 4 (kproj s) = true /\ iinv_b ex_cfg (k_i s) = true /\
    no_leak kx_store_results = true /\
    map fst (k_cn s) = [6; 7; 5; 3; 4; 2]%positive /\
    map (fun p => crc (snd p)) (k_cn s) = [1; 1; 1; 2; 2; 3]%N /\
    map (nget (i_nodes (k_i s))) [2; 3; 4; 5; 6; 7]%N =
      [Some (3, 4); Some (2, 3); Some (3, 3); Some (2, 2); Some (0, 2); Some (1, 2)]%N /\
    Conc.run KBdd kx_terms 4 cempty (kacts_list kx_sched kx_results) = Some (kproj s).
Proof.
  destruct (krun KBdd kx_terms 4 ex_cfg (kinit ex_cfg 3) kx_sched) as [[[s xs] rs]|] eqn:E; [|vm_compute in E; discriminate].
  assert (Exs : xs = kx_results /\ rs = kx_store_results) by (vm_compute in E; inversion E; split; reflexivity).
  destruct Exs; subst xs rs.
  assert (Hre : kreachable KBdd kx_terms 4 ex_cfg s).
  { exists 3%nat, kx_sched, kx_results, kx_store_results. destruct ex_cfg_ok. auto. }
  exists s. split; [reflexivity|]. split; [exact Hre|]. split; [apply kreachable_inv; exact Hre|].
  split; [|split; [|split; [|split; [reflexivity|split; [|split; [|split]]]]]];
    try (vm_compute in E; inversion E; subst s; vm_compute; reflexivity).
Qed.

(** the failed call, in detail: in the state before it all 6 slots hold table entries; afterwards
    the table has the same entries, the two consumed child edges are gone and nodes 6 and 7 have
    lost one reference each *)
Theorem kx_oom :
  exists s s', krun KBdd kx_terms 4 ex_cfg (kinit ex_cfg 3) (firstn 19 kx_sched) = Some (s, firstn 19 kx_results, firstn 17 kx_store_results) /\
    kstep KBdd kx_terms 4 ex_cfg s (KGoi 0 0 [KE 6; KE 7]) = Some (s', KROom, [IROom false]) /\
    length (k_cn s) = 6 /\ map fst (k_cn s') = map fst (k_cn s) /\ k_hd s' = k_hd s /\
    map (fun p => crc (snd p)) (k_cn s) = [2; 2; 2; 3; 2; 3]%N /\
    map (fun p => crc (snd p)) (k_cn s') = [1; 1; 2; 3; 2; 3]%N /\
    length (k_tok s) = 6 /\ length (k_tok s') = 4.
Proof.
  destruct (krun KBdd kx_terms 4 ex_cfg (kinit ex_cfg 3) (firstn 19 kx_sched)) as [[[s xs] rs]|] eqn:E; [|vm_compute in E; discriminate].
  vm_compute in E. inversion E; subst s xs rs. clear E. eexists. eexists. split; [reflexivity|].
  split; [vm_compute; reflexivity|]. vm_compute. repeat split; reflexivity.
Qed.

(** a whole collection by thread 2 ([kcollect]) instead of the two single steps: node 6 leaves, the
    projection is [collect] of Mgr/ConcGc.v on the projection, the retry succeeds *)
Theorem kx_collect :
  exists s, krun KBdd kx_terms 4 ex_cfg (kinit ex_cfg 3) (firstn 21 kx_sched) = Some (s, firstn 21 kx_results, firstn 19 kx_store_results) /\
    let s1 := kcollect KBdd kx_terms 4 ex_cfg 2 s in
    kproj s1 = collect KBdd kx_terms 4 (kproj s) /\ map fst (k_cn s1) = [7; 5; 3; 4; 2]%positive /\
    klink_b s1 = true /\ iinv_b ex_cfg (k_i s1) = true /\
    option_map (fun x => snd (fst x))
      (krun KBdd kx_terms 4 ex_cfg s1 [KInternal (AGcFlush 2); KGoi 0 0 [KT0; KT1]]) = Some [KRObs (OFlush 6); KRNew 6].
Proof.
  destruct (krun KBdd kx_terms 4 ex_cfg (kinit ex_cfg 3) (firstn 21 kx_sched)) as [[[s xs] rs]|] eqn:E; [|vm_compute in E; discriminate].
  vm_compute in E. inversion E; subst s xs rs. clear E. eexists. split; [reflexivity|].
  vm_compute. repeat split; reflexivity.
Qed.
