(** * STORECONC — the link between the two components of Mgr/Core.v ([KLinkP]) and its preservation
      by the five ways in which an action changes the store: edge values of tokens are released
      ([link_release]), an edge value is cloned ([link_retain]), a token changes hands / tag
      ([link_retoken]), a node is added with child edges moved into it ([link_add]), a node is
      removed and its child edges are released ([link_remove]). *)

From Coq Require Import List NArith ZArith PArith Bool Arith Lia FMapPositive Permutation.
From OxiVerif Require Import DD.Table Mgr.Alloc Tbl.RcStore Mgr.IndexStore Mgr.IndexStoreProofs
  Mgr.Conc Mgr.ConcBase Mgr.Core Mgr.CoreBase.
Import ListNotations.

Arguments N.add : simpl never.
Arguments N.sub : simpl never.

Record KLinkP (hs own : list (nat * N)) (nodes : nmap) (cn : ctable) (tok : list ktoken)
              (hd : list (positive * nat)) : Prop := mkKL {
  (* one hash-table edge per stored node *)
  kl_dom : forall id, cfind cn id <> None <-> hfind id hd <> None;
  (* it points to the node and is held by a client (not inside a node) *)
  kl_hd : forall id ht, In (id, ht) hd -> afind ht hs = Some (Npos id) /\ afind ht own = None;
  kl_hdnd : NoDup (map fst hd);
  (* a token is an inner edge; its edge value points to that node and is held by a client *)
  kl_tok : forall x, In x tok ->
    exists id, eref (snd (fst x)) = RN id /\ afind (snd x) hs = Some (Npos id) /\ afind (snd x) own = None;
  (* all these edge values are different variables *)
  kl_nd : NoDup (map snd hd ++ map snd tok);
  (* stored count = reported count + 1; the store holds exactly the table's nodes *)
  kl_agree : Agree nodes cn;
  (* the edge values inside a node are its inner child edges, in order *)
  kl_kids : forall id nd, cfind cn id = Some nd ->
    map (fun h => afind h hs) (kids_of (Npos id) own) = map (fun j => Some (Npos j)) (inner_ids (cch nd))
}.

Definition KLink (s : kst) : Prop :=
  KLinkP (i_hs (k_i s)) (i_own (k_i s)) (i_nodes (k_i s)) (k_cn s) (k_tok s) (k_hd s).

(** ** small facts *)

Lemma nodup_disj {A} (a b : list A) x : NoDup (a ++ b) -> In x a -> In x b -> False.
Proof.
  induction a as [|y a IH]; cbn; [tauto|]. intros H [->|Ha] Hb; inversion H; subst.
  - apply H2. apply in_or_app. right. exact Hb.
  - apply IH; assumption.
Qed.

Lemma nodup_app_l {A} (a b : list A) : NoDup (a ++ b) -> NoDup a.
Proof. induction a as [|y a IH]; cbn; intros H; [constructor|]. inversion H; subst. constructor; [|auto]. intro; apply H2, in_or_app; auto. Qed.

Lemma nodup_app_r {A} (a b : list A) : NoDup (a ++ b) -> NoDup b.
Proof. induction a as [|y a IH]; cbn; intros H; [exact H|]. inversion H; subst. auto. Qed.

Lemma nodup_drop_mid {A} (a b c : list A) : NoDup (a ++ b ++ c) -> NoDup (a ++ c).
Proof.
  induction a as [|y a IH]; cbn; intros H.
  - eapply nodup_app_r; exact H.
  - inversion H; subst. constructor; [|auto]. intros Hin. apply H2. apply in_app_or in Hin.
    apply in_or_app. destruct Hin; [left; assumption | right; apply in_or_app; right; assumption].
Qed.

Lemma afind_cons_fresh (hs : list (nat * N)) k h1 v :
  afind k hs <> None -> afind h1 hs = None -> afind k ((h1, v) :: hs) = afind k hs.
Proof. intros Hk H1. cbn [afind]. destruct (Nat.eqb_spec h1 k) as [->|_]; [congruence | reflexivity]. Qed.

Lemma In_kids_iff k p own : In k (kids_of p own) <-> In (k, p) own.
Proof.
  unfold kids_of. rewrite in_map_iff. split.
  - intros ([k' p'] & E & Hin). apply filter_In in Hin. destruct Hin as [Hin Hp]. cbn in *. subst k'.
    apply N.eqb_eq in Hp. subst. exact Hin.
  - intros H. exists (k, p). split; [reflexivity|]. apply filter_In. split; [exact H | apply N.eqb_refl].
Qed.

Lemma own_bound i k : OwnOK i -> afind k (i_own i) <> None -> afind k (i_hs i) <> None.
Proof.
  intros [_ HO] H. destruct (afind k (i_own i)) as [pid|] eqn:E; [|congruence].
  apply (afind_In N) in E. apply (HO _ _ E).
Qed.

Lemma kid_bound i k p : OwnOK i -> In k (kids_of p (i_own i)) -> afind k (i_own i) <> None /\ afind k (i_hs i) <> None.
Proof.
  intros HO H. apply In_kids_iff in H. assert (afind k (i_own i) <> None) by (eapply In_afind_some; eauto).
  split; [assumption | apply own_bound; assumption].
Qed.

Lemma rm_all_unbound cs : forall l : list (nat * N), (forall h, In h cs -> afind h l = None) -> rm_all cs l = l.
Proof.
  induction cs as [|c r IH]; intros l H; cbn [rm_all]; [reflexivity|].
  rewrite (aremove_notin N) by (apply (afind_None N); apply H; left; reflexivity).
  apply IH. intros h Hh. apply H. right. exact Hh.
Qed.

Lemma cfind_dec_children_some ch cn id nd' : cfind (dec_children cn ch) id = Some nd' ->
  exists nd, cfind cn id = Some nd /\ cch nd' = cch nd /\ cl nd' = cl nd.
Proof.
  rewrite cfind_dec_children. destruct (cfind cn id) as [nd|]; cbn [option_map]; [|discriminate].
  intros H. inversion H; subst. exists nd. auto.
Qed.

Lemma cfind_rc_upd_some f j cn id nd' : cfind (rc_upd f j cn) id = Some nd' ->
  exists nd, cfind cn id = Some nd /\ cch nd' = cch nd /\ cl nd' = cl nd.
Proof.
  rewrite cfind_rc_upd. destruct (Pos.eqb id j); [|eauto].
  destruct (cfind cn id) as [nd|]; cbn [option_map]; [|discriminate]. intros H. inversion H; subst. exists nd. auto.
Qed.

Lemma cfind_rc_upd_dom f j cn id : cfind (rc_upd f j cn) id <> None <-> cfind cn id <> None.
Proof.
  rewrite cfind_rc_upd. destruct (Pos.eqb id j); [|tauto]. destruct (cfind cn id); cbn; split; congruence.
Qed.

Lemma cfind_dec_children_dom ch cn id : cfind (dec_children cn ch) id <> None <-> cfind cn id <> None.
Proof. rewrite cfind_dec_children. destruct (cfind cn id); cbn; split; congruence. Qed.

(** the node a bound edge value points to is stored and has its hash-table edge *)
Lemma link_guard i cn tok hd h j :
  RcInv (iabs i) -> KLinkP (i_hs i) (i_own i) (i_nodes i) cn tok hd -> afind h (i_hs i) = Some (Npos j) ->
  exists nd g, cfind cn j = Some nd /\ hfind j hd = Some g /\ afind g (i_hs i) = Some (Npos j) /\ afind g (i_own i) = None.
Proof.
  intros HR L Hh. pose proof (AInv_live N N.eqb N.eqb_eq _ _ _ HR Hh) as Hlive. cbn [iabs a_map] in Hlive.
  destruct (proj2 (kl_agree _ _ _ _ _ _ L) _ Hlive) as (j' & E & Hc). inversion E; subst j'.
  destruct (cfind cn j) as [nd|] eqn:Hcf; [|congruence].
  assert (Hd : hfind j hd <> None) by (apply (kl_dom _ _ _ _ _ _ L); congruence).
  destruct (hfind j hd) as [g|] eqn:Hg; [|congruence].
  destruct (kl_hd _ _ _ _ _ _ L _ _ (hfind_In _ _ _ Hg)) as [A B]. exists nd, g. auto.
Qed.

(** ** tokens are released *)
Lemma link_release i cn tok hd tid ch hts tok1 :
  RcInv (iabs i) -> OwnOK i -> KLinkP (i_hs i) (i_own i) (i_nodes i) cn tok hd ->
  take_toks3 tid ch tok = Some (hts, tok1) ->
  exists i1, release_all i hts = Some (i1, false) /\ i_al i1 = i_al i /\ RcInv (iabs i1) /\
    i_hs i1 = rm_all hts (i_hs i) /\ i_own i1 = i_own i /\
    (forall j, nget (i_nodes i1) j <> None <-> nget (i_nodes i) j <> None) /\
    KLinkP (i_hs i1) (i_own i1) (i_nodes i1) (dec_children cn ch) tok1 hd /\
    (forall h, In h hts -> afind h (i_own i) = None) /\ NoDup hts /\
    (forall h, In h hts -> afind h (i_hs i) <> None).
Proof.
  intros HR HO L HT. destruct (take_toks3_perm _ _ _ _ _ HT) as (P & I2 & F2).
  pose proof (kl_nd _ _ _ _ _ _ L) as Hnd.
  assert (Hnd2 : NoDup (map snd hd ++ hts ++ map snd tok1)).
  { eapply Permutation_NoDup; [|exact Hnd]. apply Permutation_app_head. exact P. }
  assert (Hnh : NoDup hts) by (eapply nodup_app_l, nodup_app_r; exact Hnd2).
  assert (Htk : forall h, In h hts -> exists x, In x tok /\ snd x = h).
  { intros h Hh. assert (Hin : In h (map snd tok)).
    { eapply Permutation_in; [apply Permutation_sym; exact P | apply in_or_app; left; exact Hh]. }
    apply in_map_iff in Hin. destruct Hin as (x & E & Hx). eauto. }
  assert (Hown : forall h, In h hts -> afind h (i_own i) = None).
  { intros h Hh. destruct (Htk h Hh) as (x & Hx & <-). destruct (kl_tok _ _ _ _ _ _ L x Hx) as (id & _ & _ & A). exact A. }
  assert (Hbnd : forall h, In h hts -> afind h (i_hs i) <> None).
  { intros h Hh. destruct (Htk h Hh) as (x & Hx & <-). destruct (kl_tok _ _ _ _ _ _ L x Hx) as (id & _ & A & _). congruence. }
  destruct (release_all_agree hts (inner_ids ch) i cn HR (kl_agree _ _ _ _ _ _ L) Hnh) as (i1 & E1 & HR1 & HA1).
  { eapply F2_impl_in; [|exact F2]. intros h j Hh _ (e & Ee & Hin).
    destruct (kl_tok _ _ _ _ _ _ L _ Hin) as (id & Eid & Hf & _). cbn [fst snd] in *. rewrite Ee in Eid. inversion Eid; subst id.
    split; [exact Hf|]. destruct (link_guard _ _ _ _ _ _ HR L Hf) as (nd & g & _ & Hg & Hgf & _).
    exists g. split; [|exact Hgf]. intros Hgin.
    apply (nodup_disj _ _ g Hnd2); [apply in_map_iff; exists (j, g); split; [reflexivity | apply hfind_In; exact Hg] | apply in_or_app; left; exact Hgin]. }
  destruct (release_all_spec _ _ _ E1) as (_ & Ea & Eh & Eo & Ed).
  assert (Eo' : i_own i1 = i_own i) by (rewrite Eo; apply rm_all_unbound; exact Hown).
  exists i1. split; [exact E1|]. split; [exact Ea|]. split; [exact HR1|]. split; [exact Eh|]. split; [exact Eo'|].
  split; [exact Ed|]. split; [|auto].
  rewrite Eh, Eo'. constructor.
  - intros id. rewrite cfind_dec_children_dom. apply (kl_dom _ _ _ _ _ _ L).
  - intros id ht Hin. destruct (kl_hd _ _ _ _ _ _ L _ _ Hin) as [A B]. split; [|exact B].
    rewrite afind_rm_all; [exact A|]. intros Hh.
    apply (nodup_disj _ _ ht Hnd2); [apply in_map_iff; exists (id, ht); auto | apply in_or_app; left; exact Hh].
  - apply (kl_hdnd _ _ _ _ _ _ L).
  - intros x Hx. destruct (kl_tok _ _ _ _ _ _ L x (I2 _ Hx)) as (id & A & B & C). exists id. split; [exact A|]. split; [|exact C].
    rewrite afind_rm_all; [exact B|]. intros Hh.
    apply (nodup_disj _ _ (snd x) (nodup_app_r _ _ Hnd2)); [exact Hh | apply in_map; exact Hx].
  - eapply nodup_drop_mid; exact Hnd2.
  - rewrite dec_children_ids. exact HA1.
  - intros id nd' Hc. destruct (cfind_dec_children_some _ _ _ _ Hc) as (nd & Hc0 & -> & _).
    rewrite <- (kl_kids _ _ _ _ _ _ L _ _ Hc0). apply map_ext_in. intros k Hk.
    apply afind_rm_all. intros Hh. destruct (kid_bound _ _ _ HO Hk) as [A _]. apply A, Hown, Hh.
Qed.

(** ** an edge value is cloned *)
Lemma link_retain i cn tok hd id ht h1 p rc tid e :
  OwnOK i -> KLinkP (i_hs i) (i_own i) (i_nodes i) cn tok hd -> hfind id hd = Some ht ->
  afind h1 (i_hs i) = None -> nget (i_nodes i) (Npos id) = Some (p, rc) -> eref e = RN id ->
  KLinkP ((h1, Npos id) :: i_hs i) (i_own i) (nset (i_nodes i) (Npos id) (p, rc + 1)%N) (rc_inc id cn)
         ((tid, e, h1) :: tok) hd.
Proof.
  intros HO L Hht Hh1 Hn Ee.
  assert (Hd : cfind cn id <> None) by (apply (kl_dom _ _ _ _ _ _ L); congruence).
  destruct (cfind cn id) as [nd|] eqn:Hc; [clear Hd | congruence].
  destruct (proj1 (kl_agree _ _ _ _ _ _ L) _ _ Hc) as [p' Hn']. rewrite Hn in Hn'. inversion Hn'; subst p' rc.
  assert (Hown1 : afind h1 (i_own i) = None).
  { destruct (afind h1 (i_own i)) eqn:E; [|reflexivity]. exfalso. apply (own_bound i h1 HO); congruence. }
  constructor.
  - intros j. unfold rc_inc. rewrite cfind_rc_upd_dom. apply (kl_dom _ _ _ _ _ _ L).
  - intros j g Hin. destruct (kl_hd _ _ _ _ _ _ L _ _ Hin) as [A B]. split; [|exact B].
    rewrite afind_cons_fresh; [exact A | congruence | exact Hh1].
  - apply (kl_hdnd _ _ _ _ _ _ L).
  - intros x [<-|Hx].
    + exists id. cbn [fst snd afind]. rewrite Nat.eqb_refl. auto.
    + destruct (kl_tok _ _ _ _ _ _ L x Hx) as (j & A & B & C). exists j. split; [exact A|]. split; [|exact C].
      rewrite afind_cons_fresh; [exact B | congruence | exact Hh1].
  - cbn [map snd]. apply (proj2 (NoDup_Add (Add_app h1 (map snd hd) (map snd tok)))).
    split; [apply (kl_nd _ _ _ _ _ _ L)|]. intros Hin. apply in_app_or in Hin. destruct Hin as [Hin|Hin]; apply in_map_iff in Hin; destruct Hin as (x & E & Hx).
    + destruct x as [j g]. cbn in E. subst g. destruct (kl_hd _ _ _ _ _ _ L _ _ Hx) as [A _]. congruence.
    + destruct (kl_tok _ _ _ _ _ _ L x Hx) as (j & _ & B & _). rewrite E in B. congruence.
  - unfold rc_inc. eapply agree_update; [apply (kl_agree _ _ _ _ _ _ L) | exact Hc | lia].
  - intros j nd' Hj. unfold rc_inc in Hj. destruct (cfind_rc_upd_some _ _ _ _ _ Hj) as (nd0 & Hj0 & -> & _).
    rewrite <- (kl_kids _ _ _ _ _ _ L _ _ Hj0). apply map_ext_in. intros k Hk.
    destruct (kid_bound _ _ _ HO Hk) as [_ B]. apply afind_cons_fresh; assumption.
Qed.

(** ** a token changes its thread / tag: same edge value *)
Lemma link_retoken hs own nodes cn tok hd x h tok' x' :
  KLinkP hs own nodes cn tok hd -> take_tok3 x tok = Some (h, tok') -> eref (snd x') = eref (snd x) ->
  KLinkP hs own nodes cn ((x', h) :: tok') hd.
Proof.
  intros L HT Ee. pose proof (take_tok3_perm _ _ _ _ HT) as P.
  assert (Hin : forall y, In y ((x, h) :: tok') -> In y tok).
  { intros y Hy. eapply Permutation_in; [apply Permutation_sym; exact P | exact Hy]. }
  constructor; try apply L.
  - intros y [<-|Hy].
    + destruct (kl_tok _ _ _ _ _ _ L (x, h) (Hin _ (or_introl eq_refl))) as (id & A & B & C).
      exists id. cbn [fst snd] in *. rewrite Ee. auto.
    + apply (kl_tok _ _ _ _ _ _ L). apply Hin. right. exact Hy.
  - eapply Permutation_NoDup; [|apply (kl_nd _ _ _ _ _ _ L)]. apply Permutation_app_head.
    apply (Permutation_map snd) in P. exact P.
Qed.

(** ** more small facts *)

Lemma toks_facts i cn tok hd tid ch hts tok1 :
  KLinkP (i_hs i) (i_own i) (i_nodes i) cn tok hd -> take_toks3 tid ch tok = Some (hts, tok1) ->
  NoDup (map snd hd ++ hts ++ map snd tok1) /\ (forall y, In y tok1 -> In y tok) /\
  (forall h, In h hts -> afind h (i_own i) = None) /\ (forall h, In h hts -> afind h (i_hs i) <> None) /\
  map (fun h => afind h (i_hs i)) hts = map (fun j => Some (Npos j)) (inner_ids ch).
Proof.
  intros L HT. destruct (take_toks3_perm _ _ _ _ _ HT) as (P & I2 & F2).
  assert (Hnd2 : NoDup (map snd hd ++ hts ++ map snd tok1)).
  { eapply Permutation_NoDup; [|apply (kl_nd _ _ _ _ _ _ L)]. apply Permutation_app_head. exact P. }
  assert (Htk : forall h, In h hts -> exists x, In x tok /\ snd x = h).
  { intros h Hh. assert (Hin : In h (map snd tok)).
    { eapply Permutation_in; [apply Permutation_sym; exact P | apply in_or_app; left; exact Hh]. }
    apply in_map_iff in Hin. destruct Hin as (x & E & Hx). eauto. }
  split; [exact Hnd2|]. split; [exact I2|]. split; [|split].
  - intros h Hh. destruct (Htk h Hh) as (x & Hx & <-). destruct (kl_tok _ _ _ _ _ _ L x Hx) as (id & _ & _ & A). exact A.
  - intros h Hh. destruct (Htk h Hh) as (x & Hx & <-). destruct (kl_tok _ _ _ _ _ _ L x Hx) as (id & _ & A & _). congruence.
  - clear - L F2. induction F2 as [|h j hs' js' (e & Ee & Hin) F IH]; cbn [map]; [reflexivity|]. f_equal; [|exact IH].
    destruct (kl_tok _ _ _ _ _ _ L _ Hin) as (id & Eid & Hf & _). cbn [fst snd] in *. congruence.
Qed.

Lemma afind_cons2_fresh (hs : list (nat * N)) k h1 h2 v w :
  afind k hs <> None -> afind h1 hs = None -> afind h2 hs = None ->
  afind k ((h2, v) :: (h1, w) :: hs) = afind k hs.
Proof.
  intros Hk H1 H2. cbn [afind]. destruct (Nat.eqb_spec h2 k) as [->|_]; [congruence|].
  destruct (Nat.eqb_spec h1 k) as [->|_]; [congruence | reflexivity].
Qed.

Lemma afind_new_own (own : list (nat * N)) hts v k :
  ~ In k hts -> afind k (map (fun h => (h, v)) hts ++ own) = afind k own.
Proof.
  induction hts as [|h r IH]; cbn [map app afind]; intros H; [reflexivity|].
  destruct (Nat.eqb_spec h k) as [->|_]; [exfalso; apply H; left; reflexivity | apply IH; intro; apply H; right; assumption].
Qed.

Lemma kids_of_app p a b : kids_of p (a ++ b) = kids_of p a ++ kids_of p b.
Proof. unfold kids_of. rewrite filter_app, map_app. reflexivity. Qed.

Lemma kids_of_new p v hts : kids_of p (map (fun h => (h, v)) hts) = if (v =? p)%N then hts else [].
Proof.
  unfold kids_of. induction hts as [|h r IH]; cbn [map filter snd]; [destruct (v =? p)%N; reflexivity|].
  destruct (v =? p)%N; cbn [map fst]; rewrite IH; reflexivity.
Qed.

Lemma kids_of_nil p own : (forall k, ~ In (k, p) own) -> kids_of p own = [].
Proof.
  intros H. destruct (kids_of p own) as [|k r] eqn:E; [reflexivity|]. exfalso. apply (H k). apply In_kids_iff. rewrite E. left. reflexivity.
Qed.

Lemma keys_fun (l : list (nat * N)) k a b : NoDup (map fst l) -> In (k, a) l -> In (k, b) l -> a = b.
Proof.
  induction l as [|[k0 v0] r IH]; cbn [map fst In]; [tauto|]. intros Hnd Ha Hb. inversion Hnd; subst.
  destruct Ha as [Ea|Ha], Hb as [Eb|Hb].
  - congruence.
  - inversion Ea; subst. exfalso. apply H1. apply in_map_iff. exists (k, b). auto.
  - inversion Eb; subst. exfalso. apply H1. apply in_map_iff. exists (k, a). auto.
  - auto.
Qed.

Lemma kids_aremove p c (l : list (nat * N)) : ~ In (c, p) l -> kids_of p (aremove c l) = kids_of p l.
Proof.
  unfold kids_of. induction l as [|[k v] r IH]; cbn [aremove filter snd In]; intros H; [reflexivity|].
  destruct (Nat.eqb_spec k c) as [->|Hne].
  - destruct (N.eqb_spec v p) as [->|_]; [exfalso; apply H; left; reflexivity | apply IH; tauto].
  - cbn [filter snd]. destruct (v =? p)%N; cbn [map fst]; rewrite IH by tauto; reflexivity.
Qed.

Lemma kids_rm_all p cs : forall l : list (nat * N), (forall k, In k cs -> ~ In (k, p) l) -> kids_of p (rm_all cs l) = kids_of p l.
Proof.
  induction cs as [|c r IH]; intros l H; cbn [rm_all]; [reflexivity|].
  rewrite IH.
  - apply kids_aremove. apply H. left. reflexivity.
  - intros k Hk Hin. apply In_aremove in Hin. apply (H k); [right; exact Hk | tauto].
Qed.

Lemma kids_nodup p (own : list (nat * N)) : NoDup (map fst own) -> NoDup (kids_of p own).
Proof.
  unfold kids_of. induction own as [|[k v] r IH]; cbn [map fst filter snd]; intros H; [constructor|].
  inversion H; subst. destruct (v =? p)%N; [|auto]. cbn [map fst]. constructor; [|auto].
  intros Hin. apply H2. apply in_map_iff in Hin. destruct Hin as (x & E & Hx). apply filter_In in Hx.
  apply in_map_iff. exists x. tauto.
Qed.

Lemma map_eq_F2 {A B C} (f : A -> C) (g : B -> C) l1 : forall l2, map f l1 = map g l2 -> Forall2 (fun a b => f a = g b) l1 l2.
Proof.
  induction l1 as [|a r IH]; intros [|b r2] H; cbn in H; try discriminate; constructor.
  - inversion H; auto.
  - apply IH. inversion H; auto.
Qed.

(** ** a node is added, the edge values [hts] of the consumed tokens move into it *)
Lemma link_add i cn tok hd tid lvl ch hts tok1 fr h1 h2 p :
  OwnOK i -> KLinkP (i_hs i) (i_own i) (i_nodes i) cn tok hd ->
  take_toks3 tid ch tok = Some (hts, tok1) ->
  afind h1 (i_hs i) = None -> afind h2 (i_hs i) = None -> h1 <> h2 ->
  nget (i_nodes i) (Npos fr) = None ->
  cfind cn fr = None /\
  KLinkP ((h2, Npos fr) :: (h1, Npos fr) :: i_hs i) (map (fun h => (h, Npos fr)) hts ++ i_own i)
         (nset (i_nodes i) (Npos fr) (p, 2%N)) ((fr, mkC lvl ch 1%N) :: cn)
         ((tid, mkEdge (RN fr) false, h2) :: tok1) ((fr, h1) :: hd).
Proof.
  intros HO L HT H1 H2 Hne Hfr. destruct (toks_facts _ _ _ _ _ _ _ _ L HT) as (Hnd2 & I2 & Hown & Hbnd & Htg).
  assert (Hcf : cfind cn fr = None).
  { destruct (cfind cn fr) as [nd|] eqn:E; [|reflexivity]. destruct (proj1 (kl_agree _ _ _ _ _ _ L) _ _ E) as [q Hq]. congruence. }
  split; [exact Hcf|].
  assert (Hhf : hfind fr hd = None).
  { destruct (hfind fr hd) eqn:E; [|reflexivity]. exfalso. apply (proj2 (kl_dom _ _ _ _ _ _ L fr)); congruence. }
  assert (Huo : forall h, afind h (i_hs i) = None -> afind h (i_own i) = None).
  { intros h Hh. destruct (afind h (i_own i)) eqn:E; [|reflexivity]. exfalso. apply (own_bound i h HO); congruence. }
  assert (Hnh : forall h, afind h (i_hs i) = None -> ~ In h hts) by (intros h Hh Hin; apply (Hbnd h Hin Hh)).
  constructor.
  - intros id. cbn [cfind hfind]. destruct (Pos.eqb fr id); [split; discriminate | apply (kl_dom _ _ _ _ _ _ L)].
  - intros id ht [E|Hin].
    + inversion E; subst id ht. split.
      * cbn [afind]. destruct (Nat.eqb_spec h2 h1); [congruence|]. rewrite Nat.eqb_refl. reflexivity.
      * rewrite afind_new_own by (apply Hnh; exact H1). apply Huo. exact H1.
    + destruct (kl_hd _ _ _ _ _ _ L _ _ Hin) as [A B]. split.
      * rewrite afind_cons2_fresh; [exact A | congruence | exact H1 | exact H2].
      * rewrite afind_new_own; [exact B|]. intros Hh.
        apply (nodup_disj _ _ ht Hnd2); [apply in_map_iff; exists (id, ht); auto | apply in_or_app; left; exact Hh].
  - cbn [map fst]. constructor; [apply hfind_None; exact Hhf | apply (kl_hdnd _ _ _ _ _ _ L)].
  - intros x [<-|Hx].
    + exists fr. cbn [fst snd eref afind]. rewrite Nat.eqb_refl. split; [reflexivity|]. split; [reflexivity|].
      rewrite afind_new_own by (apply Hnh; exact H2). apply Huo. exact H2.
    + destruct (kl_tok _ _ _ _ _ _ L x (I2 _ Hx)) as (id & A & B & C). exists id. split; [exact A|]. split.
      * rewrite afind_cons2_fresh; [exact B | congruence | exact H1 | exact H2].
      * rewrite afind_new_own; [exact C|]. intros Hh.
        apply (nodup_disj _ _ (snd x) (nodup_app_r _ _ Hnd2)); [exact Hh | apply in_map; exact Hx].
  - assert (Hb : forall g, In g (map snd hd ++ map snd tok1) -> afind g (i_hs i) <> None).
    { intros g Hg. apply in_app_or in Hg. destruct Hg as [Hg|Hg]; apply in_map_iff in Hg; destruct Hg as (x & E & Hx).
      - destruct x as [j g']. cbn in E. subst g'. destruct (kl_hd _ _ _ _ _ _ L _ _ Hx) as [A _]. congruence.
      - destruct (kl_tok _ _ _ _ _ _ L x (I2 _ Hx)) as (j & _ & B & _). rewrite E in B. congruence. }
    cbn [map fst snd app]. constructor.
    + intros Hin. apply in_app_or in Hin. destruct Hin as [Hin|[E|Hin]].
      * apply (Hb h1); [apply in_or_app; left; exact Hin | exact H1].
      * congruence.
      * apply (Hb h1); [apply in_or_app; right; exact Hin | exact H1].
    + apply (proj2 (NoDup_Add (Add_app h2 (map snd hd) (map snd tok1)))). split; [eapply nodup_drop_mid; exact Hnd2|].
      intros Hin. apply (Hb h2 Hin H2).
  - destruct (kl_agree _ _ _ _ _ _ L) as [A1 A2]. split.
    + intros id nd. cbn [cfind]. rewrite nget_nset. destruct (Pos.eqb_spec fr id) as [<-|Hn].
      * intros E. inversion E; subst nd. rewrite N.eqb_refl. exists p. cbn [crc]. reflexivity.
      * intros E. destruct (N.eqb_spec (Npos fr) (Npos id)) as [E2|_]; [inversion E2; congruence | apply A1; exact E].
    + intros j. rewrite nget_nset. destruct (N.eqb_spec (Npos fr) j) as [E|Hn].
      * intros _. subst j. exists fr. split; [reflexivity|]. cbn [cfind]. rewrite Pos.eqb_refl. discriminate.
      * intros Hj. destruct (A2 j Hj) as (id & E & Hi). exists id. split; [exact E|]. cbn [cfind].
        destruct (Pos.eqb fr id); [discriminate | exact Hi].
  - intros id nd. cbn [cfind]. rewrite kids_of_app, kids_of_new. destruct (Pos.eqb_spec fr id) as [<-|Hn].
    + intros E. inversion E; subst nd. cbn [cch]. rewrite N.eqb_refl.
      rewrite (kids_of_nil (Npos fr) (i_own i)).
      2:{ intros k Hin. destruct HO as [_ HO]. destruct (HO _ _ Hin) as [_ B]. congruence. }
      rewrite app_nil_r, <- Htg. apply map_ext_in. intros k Hk. apply afind_cons2_fresh; [apply Hbnd; exact Hk | exact H1 | exact H2].
    + intros E. destruct (N.eqb_spec (Npos fr) (Npos id)) as [E2|_]; [inversion E2; congruence|]. cbn [app].
      rewrite <- (kl_kids _ _ _ _ _ _ L _ _ E). apply map_ext_in. intros k Hk.
      destruct (kid_bound _ _ _ HO Hk) as [_ B]. apply afind_cons2_fresh; assumption.
Qed.

(** ** a node with stored count 1 is removed; the edge values inside it are released *)
Lemma link_remove i cn tok hd id nd ht p :
  RcInv (iabs i) -> OwnOK i -> KLinkP (i_hs i) (i_own i) (i_nodes i) cn tok hd -> NoDup (map fst cn) ->
  cfind cn id = Some nd -> hfind id hd = Some ht -> nget (i_nodes i) (Npos id) = Some (p, 1%N) ->
  (forall j, In j (inner_ids (cch nd)) -> j <> id /\ cfind cn j <> None) ->
  exists i1,
    release_all (mkI (i_al i) (ndel (i_nodes i) (Npos id)) (aremove ht (i_hs i)) (i_own i))
                (kids_of (Npos id) (i_own i)) = Some (i1, false) /\
    KLinkP (i_hs i1) (i_own i1) (i_nodes i1) (dec_children (cremove id cn) (cch nd)) tok (hremove id hd).
Proof.
  intros HR HO L Hndc Hc Hht Hn Hch.
  destruct (kl_hd _ _ _ _ _ _ L _ _ (hfind_In _ _ _ Hht)) as [Hf Hfo].
  set (kids := kids_of (Npos id) (i_own i)).
  set (s0 := mkI (i_al i) (ndel (i_nodes i) (Npos id)) (aremove ht (i_hs i)) (i_own i)).
  assert (HR0 : RcInv (iabs s0)).
  { eapply (astep_inv N N.eqb N.eqb_eq) with (o := AEnd ht) (r := ARGone p); [exact HR|].
    cbn [astep iabs a_hs a_map i_hs i_nodes s0]. exists (Npos id), p, 1%N.
    split; [exact Hf|]. split; [exact Hn|]. split; [reflexivity|]. left.
    split; [reflexivity|]. split; [reflexivity|]. intros j. apply nget_ndel. }
  destruct (kl_agree _ _ _ _ _ _ L) as [A1 A2].
  assert (HA0 : Agree (i_nodes s0) (cremove id cn)).
  { split; cbn [s0 i_nodes].
    - intros j ndj. rewrite (cfind_cremove _ _ _ Hndc), nget_ndel. destruct (Pos.eqb_spec j id) as [->|Hne]; [discriminate|].
      intros E. destruct (N.eqb_spec (Npos id) (Npos j)) as [E2|_]; [inversion E2; congruence | apply A1; exact E].
    - intros j. rewrite nget_ndel. destruct (N.eqb_spec (Npos id) j) as [E|Hne]; [congruence|]. intros Hj.
      destruct (A2 j Hj) as (i0 & E & Hi). exists i0. split; [exact E|]. rewrite (cfind_cremove _ _ _ Hndc).
      destruct (Pos.eqb_spec i0 id) as [->|_]; [congruence | exact Hi]. }
  assert (Hkn : NoDup kids) by (apply kids_nodup; apply HO).
  assert (Hkb : forall k, In k kids -> afind k (i_own i) <> None) by (intros k Hk; apply (kid_bound _ _ _ HO Hk)).
  assert (Hkht : forall k, afind k (i_own i) <> None -> k <> ht) by (intros k Hk ->; congruence).
  assert (F0 : Forall2 (fun h j => afind h (i_hs i) = Some (Npos j)) kids (inner_ids (cch nd))).
  { apply (map_eq_F2 (fun h => afind h (i_hs i)) (fun j => Some (Npos j))). apply (kl_kids _ _ _ _ _ _ L _ _ Hc). }
  destruct (release_all_agree kids (inner_ids (cch nd)) s0 (cremove id cn) HR0 HA0 Hkn) as (i1 & E1 & HR1 & HA1).
  { eapply F2_impl_in; [|exact F0].
    intros h j Hh Hj Hhj. cbn [s0 i_hs]. rewrite afind_aremove.
    destruct (Nat.eqb_spec ht h) as [->|_]; [exfalso; apply (Hkht h); [apply Hkb; exact Hh | reflexivity]|].
    split; [exact Hhj|]. destruct (Hch j Hj) as [Hjid Hjc].
    assert (Hd : hfind j hd <> None) by (apply (kl_dom _ _ _ _ _ _ L); exact Hjc).
    destruct (hfind j hd) as [g|] eqn:Hg; [|congruence].
    destruct (kl_hd _ _ _ _ _ _ L _ _ (hfind_In _ _ _ Hg)) as [Hgf Hgo].
    exists g. split; [intros Hin; apply (Hkb g Hin Hgo)|]. rewrite afind_aremove.
    destruct (Nat.eqb_spec ht g) as [->|_]; [|exact Hgf]. rewrite Hf in Hgf. inversion Hgf. congruence. }
  exists i1. split; [exact E1|].
  destruct (release_all_spec _ _ _ E1) as (_ & _ & Eh & Eo & _). cbn [s0 i_hs i_own] in Eh, Eo.
  pose proof (hremove_perm _ _ _ Hht) as P.
  assert (Hnd3 : NoDup (ht :: map snd (hremove id hd) ++ map snd tok)).
  { eapply Permutation_NoDup; [|apply (kl_nd _ _ _ _ _ _ L)].
    change (ht :: map snd (hremove id hd) ++ map snd tok) with (map snd ((id, ht) :: hremove id hd) ++ map snd tok).
    apply Permutation_app_tail. apply Permutation_map. exact P. }
  assert (Hstab : forall g, g <> ht -> afind g (i_own i) = None ->
            afind g (i_hs i1) = afind g (i_hs i) /\ afind g (i_own i1) = None).
  { intros g Hg Hgo. rewrite Eh, Eo. assert (~ In g kids) by (intros Hin; apply (Hkb g Hin Hgo)).
    rewrite !afind_rm_all by assumption. rewrite afind_aremove. destruct (Nat.eqb_spec ht g); [congruence | auto]. }
  constructor.
  - intros j. rewrite cfind_dec_children_dom, (cfind_cremove _ _ _ Hndc), (hfind_hremove _ _ _ (kl_hdnd _ _ _ _ _ _ L)).
    rewrite (Pos.eqb_sym j id). destruct (Pos.eqb id j); [tauto | apply (kl_dom _ _ _ _ _ _ L)].
  - intros j g Hin. assert (Hin0 : In (j, g) hd) by (eapply Permutation_in; [apply Permutation_sym; exact P | right; exact Hin]).
    destruct (kl_hd _ _ _ _ _ _ L _ _ Hin0) as [A B].
    assert (Hg : g <> ht).
    { intros ->. inversion Hnd3 as [|? ? Hni Hrest]. apply Hni. apply in_or_app. left. apply in_map_iff. exists (j, ht). auto. }
    destruct (Hstab g Hg B) as [C D]. rewrite C. auto.
  - assert (Hx : NoDup (map fst ((id, ht) :: hremove id hd))) by (eapply Permutation_NoDup; [apply Permutation_map; exact P | apply (kl_hdnd _ _ _ _ _ _ L)]).
    inversion Hx; assumption.
  - intros x Hx. destruct (kl_tok _ _ _ _ _ _ L x Hx) as (j & A & B & C). exists j. split; [exact A|].
    assert (Hg : snd x <> ht).
    { intros E. inversion Hnd3 as [|? ? Hni Hrest]. apply Hni. apply in_or_app. right. rewrite <- E. apply in_map. exact Hx. }
    destruct (Hstab _ Hg C) as [D F]. rewrite D. auto.
  - inversion Hnd3; assumption.
  - rewrite dec_children_ids. exact HA1.
  - intros j nd' Hj. destruct (cfind_dec_children_some _ _ _ _ Hj) as (nd0 & Hj0 & -> & _).
    rewrite (cfind_cremove _ _ _ Hndc) in Hj0. destruct (Pos.eqb_spec j id) as [->|Hne]; [discriminate|].
    rewrite Eo, kids_rm_all.
    2:{ intros k Hk Hin. apply In_kids_iff in Hk. pose proof (keys_fun _ _ _ _ (proj1 HO) Hk Hin) as E. inversion E. congruence. }
    rewrite <- (kl_kids _ _ _ _ _ _ L _ _ Hj0). apply map_ext_in. intros k Hk.
    assert (Hko : afind k (i_own i) <> None) by (apply (kid_bound _ _ _ HO Hk)).
    rewrite Eh, afind_rm_all.
    + rewrite afind_aremove. destruct (Nat.eqb_spec ht k) as [->|_]; [congruence | reflexivity].
    + intros Hin. apply In_kids_iff in Hin, Hk. pose proof (keys_fun _ _ _ _ (proj1 HO) Hk Hin) as E. inversion E. congruence.
Qed.
