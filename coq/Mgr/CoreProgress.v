(** * STORECONC2 — progress of the composed model Mgr/Core.v and the whole collection.

    (1) [kstep_total]: in a [KInv] state the executable model never returns [None] for a reason of
        its own: if Conc's guard holds ([kops] = [Some]) and the store accepts the script ([irun] =
        [Some]), then [kfin] yields a state -- the result shapes that [kfin] does not handle are never
        produced by [istep] for the script, and the slot id of a new node is not 0 (the allocator's
        invariant contains [1 <= term c]: the terminal slots come first, `TERMINALS`; it is
        established by [kinit] and carried by [KInv], so no wrapper invariant is needed).
    (2) [kstep_progress]: the store script itself is refused only by the ALLOCATOR ([kalloc_ok]: the
        thread of an allocation / of a collector step that frees a slot exists, an allocator-internal
        action is enabled); every guard inside [istep] that is about edge values, counts and nodes
        holds in a [KInv] state.  [kstep_none_iff]: [kstep = None] iff Conc's guard fails or the
        allocator refuses.
    (3) the collector's removal step is enabled for every dead node ([kgc_progress]), hence
        [kproj (kcollect c t s) = collect (kproj s)] ([kcollect_proj]) for every [KInv] state and every
        existing collector thread [t], and the full retry theorem [retry_after_gc]. *)

From Coq Require Import List NArith ZArith PArith Bool Arith Lia FMapPositive Permutation.
From OxiVerif Require Mgr.AllocStep.
From OxiVerif Require Import DD.Table Mgr.Alloc Mgr.AllocBase Mgr.AllocInv Mgr.AllocProofs Tbl.RcStore Mgr.IndexStore
  Mgr.IndexStoreProofs Mgr.Conc Mgr.ConcBase Mgr.ConcProofs Mgr.ConcGc Mgr.ConcGcProofs Mgr.ConcGcCount
  Mgr.Core Mgr.CoreBase Mgr.CoreLink Mgr.CoreProofs Mgr.CoreThms.
From OxiVerif Require Mgr.IndexStoreEquiv.
Import ListNotations.

Arguments N.add : simpl never.
Arguments N.sub : simpl never.

(** `free_slot` keeps the number of threads *)
Lemma free_slot_threads c v s t l id : length (th (fst (free_slot c v s t l id))) = length (th s).
Proof.
  unfold free_slot. destruct (is_this (l_cur l)).
  - destruct (- Z.of_N (chunk c) <? l_delta l - 1)%Z; cbn [fst th]; apply upd_length.
  - destruct (s_free (sh s)); reflexivity.
Qed.

Section Progress.
Variable k : kind.
Variable terms : list (N * N).
Variable nl : nat.

Notation xstep := (Conc.step k terms nl).
Notation xrun := (Conc.run k terms nl).
Notation CInv := (ConcProofs.CInv k terms nl).
Notation kops := (kops k terms nl).
Notation kstep := (kstep k terms nl).
Notation krun := (krun k terms nl).
Notation KInv := (KInv k terms nl).
Notation kgc_try := (kgc_try k terms nl).
Notation kgc_level := (kgc_level k terms nl).
Notation kcollect := (kcollect k terms nl).
Notation gc_try := (ConcGc.gc_try k terms nl).
Notation gc_level := (ConcGc.gc_level k terms nl).
Notation collect := (ConcGc.collect k terms nl).

Definition nthreads (s : kst) : nat := length (th (i_al (k_i s))).

(** ** the collector's step: enabled for every table entry when thread [t] exists; the entry is
       removed iff its reported count is 0 *)
Lemma kgc_progress c s t id nd :
  KInv c s -> t < nthreads s -> cfind (k_cn s) id = Some nd ->
  exists s' r rs, kstep c s (KGc t id) = Some (s', r, rs) /\ nthreads s' = nthreads s /\
    (if N.eqb (crc nd) 0 then r = KRRemoved else r = KRKept /\ s' = s).
Proof.
  intros (HI & HC & HL) Ht Hc. destruct s as [i cn tok hd]. unfold nthreads in *. cbn [k_i k_cn k_tok k_hd] in *.
  unfold KLink in HL. cbn [k_i k_cn k_tok k_hd] in HL.
  assert (Hd : hfind id hd <> None) by (apply (kl_dom _ _ _ _ _ _ HL); congruence).
  destruct (hfind id hd) as [ht|] eqn:Hht; [|congruence].
  pose proof HI as (HA & HLk & HR & HO).
  destruct (kl_hd _ _ _ _ _ _ HL _ _ (hfind_In _ _ _ Hht)) as [Hf1 Hf2].
  destruct (proj1 (kl_agree _ _ _ _ _ _ HL) _ _ Hc) as [p Hn].
  unfold Core.kstep. cbn [Core.kops k_cn k_hd]. rewrite Hc, Hht. cbn [irun istep k_i].
  unfold client_h, bound. rewrite Hf1, Hf2, Hn. cbn [andb negb].
  destruct (N.eqb_spec (crc nd + 1) 1) as [E1|E1].
  - assert (Hz : crc nd = 0%N) by lia. rewrite Hz. cbn [N.eqb]. rewrite E1 in Hn.
    destruct (link_remove i cn tok hd id nd ht p HR HO HL) as (i1 & Erel & L1); auto.
    { apply (ti_nodup _ _ _ _ (ci_tbl _ _ _ _ HC)). }
    { intros j Hj. destruct (inner_ids_In _ _ Hj) as (e & He & Ee).
      destruct (child_live k terms nl _ id nd e j HC Hc He Ee) as (ndc & Hcj & _ & Hlt). cbn [kproj Conc.cn k_cn] in Hcj.
      split; [|congruence]. intros ->. rewrite Hc in Hcj. inversion Hcj; subst. lia. }
    rewrite Erel. destruct (release_all_spec _ _ _ Erel) as (_ & Ea & _). cbn [i_al] in Ea.
    destruct (nth_error (th (i_al i)) t) as [l|] eqn:El; [|apply nth_error_None in El; lia].
    assert (Hnode : sget (sl (i_al i)) (Npos id) = SNode) by (apply HLk; congruence).
    cbn [Alloc.step]. rewrite Ea, El, Hnode. cbn [is_node].
    pose proof (free_slot_threads c good (i_al i) t l (Npos id)) as Hlen.
    destruct (free_slot c good (i_al i) t l (Npos id)) as [al' o]. cbn [fst] in Hlen.
    cbn [kfin k_cn k_tok k_hd]. rewrite Hc. do 3 eexists. split; [reflexivity|]. cbn [k_i i_al]. auto.
  - destruct (N.eqb_spec (crc nd) 0) as [Hz|_]; [lia|]. cbn [kfin k_cn k_tok k_hd].
    do 3 eexists. split; [reflexivity|]. auto.
Qed.

(** one iteration of `retain`: the core's step projects to Conc's *)
Lemma kgc_try_proj c t s id : KInv c s -> t < nthreads s ->
  kproj (kgc_try c t s id) = gc_try (kproj s) id /\ nthreads (kgc_try c t s id) = nthreads s.
Proof.
  intros HK Ht. unfold Core.kgc_try, ConcGc.gc_try. cbn [Conc.step kproj Conc.cn].
  destruct (cfind (k_cn s) id) as [nd|] eqn:Hc.
  - destruct (kgc_progress c s t id nd HK Ht Hc) as (s' & r & rs & E & Hn & Hr). rewrite E.
    destruct (N.eqb (crc nd) 0) eqn:Hz.
    + subst r. destruct (kstep_spec k terms nl c s _ s' _ rs HK E) as (_ & _ & Hx & _).
      cbn [kacts Conc.run Conc.step kproj Conc.cn] in Hx. rewrite Hc, Hz in Hx. split; [|exact Hn]. congruence.
    + destruct Hr as [_ ->]. auto.
  - unfold Core.kstep. cbn [Core.kops]. rewrite Hc. auto.
Qed.

Lemma kgc_ids_proj c t ids : forall s, KInv c s -> t < nthreads s ->
  kproj (fold_left (kgc_try c t) ids s) = fold_left gc_try ids (kproj s) /\
  nthreads (fold_left (kgc_try c t) ids s) = nthreads s.
Proof.
  induction ids as [|id r IH]; intros s HK Ht; cbn [fold_left]; [auto|].
  destruct (kgc_try_proj c t s id HK Ht) as [E1 E2].
  destruct (IH (kgc_try c t s id)) as [E3 E4]; [apply kgc_try_inv; exact HK | rewrite E2; exact Ht|].
  rewrite E3, E4, E1, E2. auto.
Qed.

Lemma kgc_level_proj c t s l : KInv c s -> t < nthreads s ->
  kproj (kgc_level c t s l) = gc_level (kproj s) l /\ nthreads (kgc_level c t s l) = nthreads s.
Proof. intros HK Ht. unfold Core.kgc_level, ConcGc.gc_level. cbn [kproj Conc.cn]. apply kgc_ids_proj; assumption. Qed.

(** `Manager::gc` by an existing thread [t]: the core's collection IS Conc's [collect] on the
    projection -- for every state that satisfies the invariant *)
Theorem kcollect_proj c t s : KInv c s -> t < nthreads s ->
  kproj (kcollect c t s) = collect (kproj s) /\ nthreads (kcollect c t s) = nthreads s.
Proof.
  unfold Core.kcollect, ConcGc.collect. generalize (seq 0 nl). intros ls. revert s.
  induction ls as [|l r IH]; intros s HK Ht; cbn [fold_left]; [auto|].
  destruct (kgc_level_proj c t s l HK Ht) as [E1 E2].
  destruct (IH (kgc_level c t s l)) as [E3 E4].
  - unfold Core.kgc_level. apply kgc_ids_inv. exact HK.
  - rewrite E2. exact Ht.
  - rewrite E3, E4, E1, E2. auto.
Qed.

(** ** allocator-internal actions (the collector's epilogue, guard drops, ...) between the collection
       and the retry: table, tokens and hash-table edges are untouched *)
Lemma krun_internal c ias : forall s s2 xs rs, KInv c s -> krun c s (map KInternal ias) = Some (s2, xs, rs) ->
  KInv c s2 /\ k_cn s2 = k_cn s /\ k_tok s2 = k_tok s /\ k_hd s2 = k_hd s.
Proof.
  induction ias as [|a r IH]; intros s s2 xs rs HK H; cbn [map Core.krun] in H.
  - inversion H; subst. auto.
  - destruct (kstep c s (KInternal a)) as [[[s1 x] rs1]|] eqn:E1; [|discriminate].
    destruct (krun c s1 (map KInternal r)) as [[[s3 xs3] rs3]|] eqn:E2; [|discriminate]. inversion H; subst s3 xs rs.
    pose proof (kstep_spec k terms nl c s _ s1 x rs1 HK E1) as (_ & _ & _ & HK1).
    destruct (IH _ _ _ _ HK1 E2) as (HK2 & A & B & C). split; [exact HK2|].
    destruct (kstep_parts _ _ _ _ _ _ _ _ _ E1) as (ops & i' & _ & _ & Hf). cbn [kfin] in Hf.
    destruct rs1 as [|[| | | | | | |o] [|]]; try discriminate Hf. inversion Hf; subst s1 x.
    cbn [k_cn k_tok k_hd] in *. auto.
Qed.

(** the table never holds more entries than the store has slots *)
Lemma table_le_cap c s : KInv c s -> length (k_cn s) <= N.to_nat (cap c).
Proof.
  intros HK. rewrite <- (nlive_table k terms nl c s HK). destruct HK as ((HA & _) & _).
  pose proof (free_count c _ HA). lia.
Qed.

(** a stored node that no owned edge of any thread reaches *)
Definition kdead (s : kst) (id : positive) : Prop :=
  (exists nd, cfind (k_cn s) id = Some nd) /\ ~ reach_own (kproj s) id.

Lemma garbage_dead s id : CInv (kproj s) -> (In id (garbage nl (kproj s)) <-> kdead s id).
Proof.
  intros HC. unfold garbage, kdead. rewrite filter_In. cbn [kproj Conc.cn].
  rewrite negb_true_iff, <- not_true_iff_false, (reach_own_b_spec k terms nl _ id HC). cbn [kproj].
  split; intros [A B]; (split; [|exact B]).
  - destruct (cfind (k_cn s) id) as [nd|] eqn:E; [eauto|]. apply cfind_None_keys in E. contradiction.
  - destruct A as [nd A]. eapply cfind_Some_keys; eauto.
Qed.

(** ** the retry after a whole collection.  [s]: any state of the manager ([KInv]); thread [t] (it
    exists) runs `Manager::gc`; then any allocator-internal actions [ias] (the collector's epilogue
    [AGcFlush t], guard drops, ...); then thread [tid] -- no slot is parked with another thread --
    calls `get_or_insert` for a node that is not in the table.  The call fails IFF the table filled
    the store before the collection and no stored node was dead; i.e. after a failed call on a full
    store the retry succeeds iff some stored node was dead *)
Theorem retry_after_gc c t s s1 : KInv c s -> t < nthreads s -> s1 = kcollect c t s ->
  KInv c s1 /\ kproj s1 = collect (kproj s) /\
  (forall id, In id (map fst (k_cn s1)) <-> In id (map fst (k_cn s)) /\ ~ kdead s id) /\
  length (k_cn s) = length (k_cn s1) + length (garbage nl (kproj s)) /\
  (forall id, In id (garbage nl (kproj s)) <-> kdead s id) /\
  forall ias s2 xs2 rs2 tid l lvl ch s' r rs,
    krun c s1 (map KInternal ias) = Some (s2, xs2, rs2) ->
    nth_error (th (i_al (k_i s2))) tid = Some l -> others_idle_p c (i_al (k_i s2)) tid ->
    kstep c s2 (KGoi tid lvl ch) = Some (s', r, rs) -> find_shape (k_cn s2) lvl ch = None ->
    KInv c s2 /\ k_cn s2 = k_cn s1 /\
    (r = KROom <-> length (k_cn s) = N.to_nat (cap c) /\ forall id, ~ kdead s id) /\
    ((exists fr, r = KRNew fr) <-> length (k_cn s) < N.to_nat (cap c) \/ exists id, kdead s id).
Proof.
  intros HK Ht ->. pose proof (kcollect_inv k terms nl c t s HK) as HK1.
  destruct (kcollect_proj c t s HK Ht) as [Ep _]. pose proof HK as (_ & HC & _).
  destruct (collect_count k terms nl (kproj s) HC) as [Hcnt _]. rewrite <- Ep in Hcnt. cbn [kproj Conc.cn] in Hcnt.
  pose proof (fun id => garbage_dead s id HC) as Hg.
  split; [exact HK1|]. split; [exact Ep|]. split; [|split; [exact Hcnt|split; [exact Hg|]]].
  - intros id. destruct (collect_keys k terms nl (kproj s) HC) as [_ Hk]. specialize (Hk id). rewrite <- Ep in Hk.
    cbn [kproj Conc.cn] in Hk. rewrite Hk. unfold survivors. rewrite filter_In. cbn [kproj Conc.cn].
    specialize (Hg id). unfold garbage in Hg. rewrite filter_In in Hg. cbn [kproj Conc.cn] in Hg.
    destruct (reach_own_b nl (kproj s) id); cbn [negb] in Hg.
    + split; intros [A B]; split; auto. intros D. apply Hg in D. destruct D; discriminate.
    + split; intros [A B]; [discriminate|]. exfalso. apply B, Hg. auto.
  - intros ias s2 xs2 rs2 tid l lvl ch s' r rs Hrun Hl Ho H Hfs.
    destruct (krun_internal c ias _ _ _ _ HK1 Hrun) as (HK2 & Ecn & _ & _).
    split; [exact HK2|]. split; [exact Ecn|].
    pose proof (goi_oom_single k terms nl c s2 tid l lvl ch s' r rs HK2 Hl Ho H Hfs) as Hoom. rewrite Ecn in Hoom.
    pose proof (table_le_cap c s HK) as Hle.
    assert (Hnil : (forall id, ~ kdead s id) <-> length (garbage nl (kproj s)) = 0).
    { split.
      - intros Hd. destruct (garbage nl (kproj s)) as [|id g] eqn:Eg; [reflexivity|]. exfalso. apply (Hd id). apply Hg. left. reflexivity.
      - intros Hl0 id D. apply Hg in D. destruct (garbage nl (kproj s)); [contradiction | discriminate]. }
    assert (Hoom' : r = KROom <-> length (k_cn s) = N.to_nat (cap c) /\ forall id, ~ kdead s id).
    { rewrite Hoom, Hnil. pose proof (table_le_cap c _ HK1). lia. }
    split; [exact Hoom'|].
    assert (Hres : r = KROom \/ exists fr, r = KRNew fr).
    { destruct (goi_parts k terms nl _ _ _ _ _ _ _ _ H) as (hts & tok1 & _ & _ & M). rewrite Hfs in M. destruct M as (x & _ & _ & M).
      destruct x as [[|fr] pa|lk| | | | | |]; try contradiction; destruct M as [-> _]; eauto. }
    split.
    + intros [fr ->]. destruct (Nat.eq_dec (length (k_cn s)) (N.to_nat (cap c))) as [E|E]; [|left; lia]. right.
      destruct (garbage nl (kproj s)) as [|id g] eqn:Eg.
      * exfalso. assert (KRNew fr = KROom); [|discriminate]. apply Hoom'. split; [exact E|]. apply Hnil. reflexivity.
      * exists id. apply Hg. left. reflexivity.
    + intros Hd. destruct Hres as [->|Hn]; [|exact Hn]. exfalso. destruct (proj1 Hoom' eq_refl) as [E Hno].
      destruct Hd as [Hlt|[id D]]; [lia | exact (Hno id D)].
Qed.

End Progress.

(** * the model is never stuck for a reason of its own *)

(** `add_node` reports an allocation (a slot id or OutOfMemory), nothing else *)
Lemma alloc_obs c s t s' o : Alloc.step c good s (AAlloc t) = Some (s', o) -> exists oid pa, o = OAlloc oid pa.
Proof.
  intros H. cbn [Alloc.step] in H. destruct (nth_error (th s) t) as [l|]; [|discriminate].
  unfold add_node, get_slot_from_shared in H.
  cbn [v_oom_drift v_take_all v_cap_first good l_cur l_guard l_next l_init l_delta negb andb orb] in H.
  repeat match type of H with
         | (if ?b then _ else _) = Some _ => destruct b
         | match ?x with _ => _ end = Some _ => destruct x
         end; try discriminate; inversion H; eauto.
Qed.

Lemma nodup_nat_complete l : NoDup l -> nodup_nat l = true.
Proof.
  induction 1 as [|x l Hx Hn IH]; cbn [nodup_nat]; [reflexivity|]. rewrite IH, andb_true_r. apply negb_true_iff.
  destruct (existsb (Nat.eqb x) l) eqn:E; [|reflexivity]. apply existsb_exists in E. destruct E as (y & Hy & Ey).
  apply Nat.eqb_eq in Ey. subst. contradiction.
Qed.

Lemma ainv_term c s : AllocInv.AInv c s -> (1 <= term c)%N.
Proof. intros (fs & ls & W). apply (w_term _ _ _ _ W). Qed.

(** the slot id of a new node is not 0: the terminal slots come first *)
Lemma alloc_id_pos c s t s' id pa : AllocInv.AInv c s -> Alloc.step c good s (AAlloc t) = Some (s', OAlloc (Some id) pa) ->
  (term c <= id)%N /\ id <> 0%N.
Proof.
  intros HA H. destruct (alloc_safe _ _ _ _ _ _ HA H) as (Hr & _). split; [apply Hr|].
  apply (in_arr_nonzero c id (ainv_term c s HA) Hr).
Qed.

(** the table's edge value of a stored node is a client's edge value to a node with a payload *)
Lemma hd_stored i cn tok hd id ht : KLinkP (i_hs i) (i_own i) (i_nodes i) cn tok hd -> hfind id hd = Some ht ->
  afind ht (i_hs i) = Some (Npos id) /\ afind ht (i_own i) = None /\ exists p rc, nget (i_nodes i) (Npos id) = Some (p, rc).
Proof.
  intros L H. destruct (kl_hd _ _ _ _ _ _ L _ _ (hfind_In _ _ _ H)) as [A B]. split; [exact A|]. split; [exact B|].
  assert (Hc : cfind cn id <> None) by (apply (kl_dom _ _ _ _ _ _ L); congruence).
  destruct (cfind cn id) as [nd|] eqn:E; [|congruence]. destruct (proj1 (kl_agree _ _ _ _ _ _ L) _ _ E) as [p Hp]. eauto.
Qed.

(** `drop_edge` does not touch the allocator *)
Lemma release_all_al cs : forall s s' lk, release_all s cs = Some (s', lk) -> i_al s' = i_al s.
Proof.
  induction cs as [|x cs IH]; intros s s' lk E; cbn [release_all] in E; [inversion E; reflexivity|].
  destruct (release1 s x) as [[sa lka]|] eqn:E1; [|discriminate].
  destruct (release_all sa cs) as [[sb lkb]|] eqn:E2; [|discriminate]. inversion E; subst.
  rewrite (IH _ _ _ E2). destruct (release1_spec _ _ _ _ E1) as (j & q & rc & _ & _ & -> & _). reflexivity.
Qed.

Section Total.
Variable k : kind.
Variable terms : list (N * N).
Variable nl : nat.

Notation CInv := (ConcProofs.CInv k terms nl).
Notation kops := (kops k terms nl).
Notation kstep := (kstep k terms nl).
Notation KInv := (KInv k terms nl).

(** (1) Conc's guard holds, the store accepts the script: [kfin] yields a state *)
Theorem kstep_total c s a ops i' rs : KInv c s -> kops s a = Some ops -> irun c (k_i s) ops = Some (i', rs) ->
  exists s' r, kfin s a i' rs = Some (s', r) /\ kstep c s a = Some (s', r, rs).
Proof.
  intros (HI & _ & _) Ho Hr.
  assert (Hfin : exists s' r, kfin s a i' rs = Some (s', r)).
  { destruct HI as (HA & _). destruct a; cbn [Core.kops kfin] in *.
    - destruct (node_pre_b k terms nl (k_cn s) lvl ch); [|discriminate].
      destruct (take_toks3 tid ch (k_tok s)) as [[hts tok1]|]; [|discriminate].
      destruct (find_shape (k_cn s) lvl ch) as [id|]; [eauto|]. inversion Ho; subst ops. cbn [irun] in Hr.
      destruct (istep c (k_i s) (IAdd tid (kh1 s) (kh2 s) (N.of_nat lvl) hts)) as [[i1 x]|] eqn:E; [|discriminate].
      inversion Hr; subst i' rs. cbn [istep] in E.
      destruct (_ && _ && _ && _ && _); [|discriminate].
      destruct (Alloc.step c good (i_al (k_i s)) (AAlloc tid)) as [[al' [| |[fr|] pa| | |]]|] eqn:Hal; try discriminate.
      + inversion E; subst i1 x. destruct (alloc_id_pos _ _ _ _ _ _ HA Hal) as [_ Hnz]. destruct fr as [|frp]; [congruence | eauto].
      + destruct (release_all _ hts) as [[s2 lk]|]; [|discriminate]. inversion E; subst. eauto.
    - destruct (eref e); eauto.
    - destruct (eref e); [eauto|]. destruct (take_tok3 (tid, e) (k_tok s)) as [[h tok']|]; [eauto | discriminate].
    - destruct (eref e); [eauto|]. destruct (take_tok3 (tid, e) (k_tok s)) as [[h tok']|]; [eauto | discriminate].
    - destruct (is_bcdd k); [|discriminate].
      destruct (eref e); [eauto|]. destruct (take_tok3 (tid, e) (k_tok s)) as [[h tok']|]; [eauto | discriminate].
    - destruct (cfind (k_cn s) id) as [nd|]; [|discriminate]. destruct (hfind id (k_hd s)) as [ht|]; [|discriminate].
      inversion Ho; subst ops. cbn [irun] in Hr.
      destruct (istep c (k_i s) (IRemove t ht)) as [[i1 x]|] eqn:E; [|discriminate]. inversion Hr; subst i' rs.
      cbn [istep] in E. destruct (client_h (k_i s) ht); [|discriminate].
      destruct (afind ht (i_hs (k_i s))) as [j|]; [|discriminate].
      destruct (nget (i_nodes (k_i s)) j) as [[p rc]|]; [|discriminate]. destruct (rc =? 1)%N.
      + destruct (release_all _ _) as [[s1 lk]|]; [|discriminate].
        destruct (Alloc.step c good (i_al s1) (AFree t j)) as [[al' o]|]; [|discriminate]. inversion E; subst. eauto.
      + inversion E; subst. eauto.
    - inversion Ho; subst ops. cbn [irun] in Hr.
      destruct (istep c (k_i s) (IInternal a)) as [[i1 x]|] eqn:E; [|discriminate]. inversion Hr; subst i' rs.
      cbn [istep] in E. destruct (internal a); [|discriminate].
      destruct (Alloc.step c good (i_al (k_i s)) a) as [[al' ob]|]; [|discriminate]. inversion E; subst. eauto. }
  destruct Hfin as (s' & r & Hf). exists s', r. split; [exact Hf|]. unfold Core.kstep. rewrite Ho, Hr, Hf. reflexivity.
Qed.

(** (2) what the ALLOCATOR needs: the thread of an allocation (`get_or_insert` of a node that is not in
    the table) exists; the collector thread of a step that frees a slot exists; an allocator-internal
    action is internal and enabled *)
Definition kalloc_ok (c : cfg) (s : kst) (a : kact) : Prop :=
  match a with
  | KGoi tid lvl ch => find_shape (k_cn s) lvl ch = None -> tid < nthreads s
  | KGc t id => (exists nd, cfind (k_cn s) id = Some nd /\ crc nd = 0%N) -> t < nthreads s
  | KInternal a => internal a = true /\ Alloc.step c good (i_al (k_i s)) a <> None
  | _ => True
  end.

Lemma pg_retain c i cn tok hd tid e : KInv c (mkK i cn tok hd) -> kops (mkK i cn tok hd) (KRetain tid e) <> None ->
  exists s' r rs, kstep c (mkK i cn tok hd) (KRetain tid e) = Some (s', r, rs).
Proof.
  intros (HI & HC & HL) Ho. unfold KLink in HL. cbn [k_i k_cn k_tok k_hd] in HL.
  unfold Core.kstep. cbn [Core.kops k_cn k_hd k_tok k_i] in *. destruct (eref e) as [x|id] eqn:Ee.
  - destruct (cref_ok_b terms cn (RT x)); [|congruence]. cbn [irun kfin]. rewrite Ee. eauto.
  - destruct (can_borrow_b nl (kproj (mkK i cn tok hd)) e); [|congruence].
    destruct (hfind id hd) as [ht|] eqn:Hht; [|congruence].
    destruct (hd_stored _ _ _ _ _ _ HL Hht) as (A & B & p & rc & Hn).
    destruct (IndexStoreEquiv.fresh_h_spec 0 (i_hs i)) as [_ Hfr]. unfold kh1. cbn [k_i irun istep].
    rewrite A, Hfr, Hn. cbn [kfin]. rewrite Ee. eauto.
Qed.

Lemma pg_release c i cn tok hd tid e : KInv c (mkK i cn tok hd) -> kops (mkK i cn tok hd) (KRelease tid e) <> None ->
  exists s' r rs, kstep c (mkK i cn tok hd) (KRelease tid e) = Some (s', r, rs).
Proof.
  intros (HI & HC & HL) Ho. unfold KLink in HL. cbn [k_i k_cn k_tok k_hd] in HL.
  unfold Core.kstep. cbn [Core.kops k_cn k_hd k_tok k_i] in *. destruct (eref e) as [x|id] eqn:Ee.
  - destruct (cref_ok_b terms cn (RT x)); [|congruence]. cbn [irun kfin]. rewrite Ee. eauto.
  - destruct (take_tok3 (tid, e) tok) as [[h tok']|] eqn:HT; [|congruence].
    assert (HT2 : take_toks3 tid [e] tok = Some ([h], tok')) by (cbn [take_toks3]; rewrite Ee, HT; reflexivity).
    pose proof HI as (_ & _ & HR & HO).
    destruct (link_release _ _ _ _ _ _ _ _ HR HO HL HT2) as (i1 & E1 & _ & _ & _ & _ & _ & _ & Hown & _).
    pose proof (irun_releases c [] [h] i i1 E1 Hown) as Hrun. cbn [map app irun] in Hrun.
    cbn [k_i irun]. rewrite Hrun. cbn [kfin k_tok]. rewrite Ee, HT. eauto.
Qed.

Lemma pg_move c i cn tok hd tid tid' e : kops (mkK i cn tok hd) (KMove tid tid' e) <> None ->
  exists s' r rs, kstep c (mkK i cn tok hd) (KMove tid tid' e) = Some (s', r, rs).
Proof.
  intros Ho. unfold Core.kstep. cbn [Core.kops k_cn k_hd k_tok k_i] in *. destruct (eref e) as [x|id] eqn:Ee.
  - destruct (cref_ok_b terms cn (RT x)); [|congruence]. cbn [irun kfin]. rewrite Ee. eauto.
  - destruct (take_tok3 (tid, e) tok) as [[h tok']|] eqn:HT; [|congruence]. cbn [irun kfin k_tok]. rewrite Ee, HT. eauto.
Qed.

Lemma pg_not c i cn tok hd tid e : kops (mkK i cn tok hd) (KNot tid e) <> None ->
  exists s' r rs, kstep c (mkK i cn tok hd) (KNot tid e) = Some (s', r, rs).
Proof.
  intros Ho. unfold Core.kstep. cbn [Core.kops k_cn k_hd k_tok k_i] in *. destruct (is_bcdd k); [|congruence].
  destruct (eref e) as [x|id] eqn:Ee.
  - destruct (cref_ok_b terms cn (RT x)); [|congruence]. cbn [irun kfin]. rewrite Ee. eauto.
  - destruct (take_tok3 (tid, e) tok) as [[h tok']|] eqn:HT; [|congruence]. cbn [irun kfin k_tok]. rewrite Ee, HT. eauto.
Qed.

Lemma pg_goi c i cn tok hd tid lvl ch : KInv c (mkK i cn tok hd) -> kops (mkK i cn tok hd) (KGoi tid lvl ch) <> None ->
  kalloc_ok c (mkK i cn tok hd) (KGoi tid lvl ch) ->
  exists s' r rs, kstep c (mkK i cn tok hd) (KGoi tid lvl ch) = Some (s', r, rs).
Proof.
  intros (HI & HC & HL) Ho Hal. unfold KLink in HL. cbn [k_i k_cn k_tok k_hd] in HL.
  unfold kalloc_ok, nthreads in Hal. unfold Core.kstep. cbn [Core.kops k_cn k_hd k_tok k_i] in *.
  destruct (node_pre_b k terms nl cn lvl ch); [|congruence].
  destruct (take_toks3 tid ch tok) as [[hts tok1]|] eqn:HT; [|congruence].
  pose proof HI as (HA & _ & HR & HO).
  destruct (IndexStoreEquiv.fresh_h_spec 0 (i_hs i)) as [_ Hfr1].
  destruct (IndexStoreEquiv.fresh_h_spec (fresh_h 0 (i_hs i)) (i_hs i)) as [Hne12 Hfr2].
  unfold kh2, kh1 in *. cbn [k_i] in *.
  destruct (find_shape cn lvl ch) as [id|] eqn:Hfs.
  - destruct (hfind id hd) as [ht|] eqn:Hht; [|congruence].
    destruct (link_release _ _ _ _ _ _ _ _ HR HO HL HT) as (i1 & E1 & Ea & HR1 & Eh & Eo & Ed & L1 & Hown & Hnd & Hbnd).
    rewrite (irun_releases c [IRetain ht (fresh_h 0 (i_hs i))] hts i i1 E1 Hown).
    destruct (hd_stored _ _ _ _ _ _ L1 Hht) as (A & B & p & rc & Hn).
    assert (Hfr : afind (fresh_h 0 (i_hs i)) (i_hs i1) = None).
    { rewrite Eh, afind_rm_all; [exact Hfr1|]. intros Hin. apply (Hbnd _ Hin Hfr1). }
    cbn [irun istep]. rewrite A, Hfr, Hn. cbn [kfin k_tok k_cn]. rewrite HT, Hfs. eauto.
  - specialize (Hal eq_refl). cbn [irun istep].
    destruct (toks_facts _ _ _ _ _ _ _ _ HL HT) as (Hnd2 & _ & Hown & Hbnd & _).
    assert (G : negb (bound (i_hs i) (fresh_h 0 (i_hs i))) && negb (bound (i_hs i) (fresh_h (fresh_h 0 (i_hs i)) (i_hs i))) &&
                negb (fresh_h 0 (i_hs i) =? fresh_h (fresh_h 0 (i_hs i)) (i_hs i))%nat && forallb (client_h i) hts && nodup_nat hts = true).
    { unfold bound at 1 2. rewrite Hfr1, Hfr2. cbn [negb andb].
      destruct (Nat.eqb_spec (fresh_h 0 (i_hs i)) (fresh_h (fresh_h 0 (i_hs i)) (i_hs i))) as [E|_]; [congruence|]. cbn [negb andb].
      apply andb_true_intro. split.
      - apply forallb_forall. intros h Hh. unfold client_h, bound. rewrite (Hown h Hh).
        destruct (afind h (i_hs i)) eqn:E; [reflexivity | exfalso; apply (Hbnd h Hh E)].
      - apply nodup_nat_complete. eapply nodup_app_l, nodup_app_r. exact Hnd2. }
    rewrite G. destruct (alloc_enabled c (i_al i) tid HA Hal) as (al' & o & Hstep). rewrite Hstep.
    destruct (alloc_obs _ _ _ _ _ Hstep) as (oid & pa & ->). destruct oid as [fr|].
    + destruct (alloc_id_pos _ _ _ _ _ _ HA Hstep) as [_ Hnz]. destruct fr as [|frp]; [congruence|].
      cbn [kfin k_tok k_cn]. rewrite HT, Hfs. eauto.
    + destruct (link_release (mkI al' (i_nodes i) (i_hs i) (i_own i)) _ _ _ _ _ _ _ HR HO HL HT) as (i1 & E1 & _).
      rewrite E1. cbn [kfin k_tok k_cn]. rewrite HT, Hfs. eauto.
Qed.

(** the store script of every action whose guard holds is accepted unless the allocator refuses *)
Theorem kstep_progress c s a : KInv c s -> kops s a <> None -> kalloc_ok c s a ->
  exists s' r rs, kstep c s a = Some (s', r, rs).
Proof.
  intros HK Ho Hal. destruct a.
  - destruct s as [i cn tok hd]. apply pg_goi; assumption.
  - destruct s as [i cn tok hd]. apply pg_retain; assumption.
  - destruct s as [i cn tok hd]. apply pg_release; assumption.
  - destruct s as [i cn tok hd]. apply pg_move; assumption.
  - destruct s as [i cn tok hd]. apply pg_not; assumption.
  - cbn [Core.kops] in Ho. destruct (cfind (k_cn s) id) as [nd|] eqn:Hc; [|congruence].
    destruct (N.eqb_spec (crc nd) 0) as [Hz|Hz].
    + destruct (kgc_progress k terms nl c s t id nd HK (Hal (ex_intro _ nd (conj Hc Hz))) Hc) as (s' & r & rs & E & _). eauto.
    + (* kept: the thread is not needed *)
      destruct HK as (HI & HC & HL). destruct s as [i cn tok hd]. unfold KLink in HL. cbn [k_i k_cn k_tok k_hd] in *.
      destruct (hfind id hd) as [ht|] eqn:Hht; [|congruence].
      destruct (kl_hd _ _ _ _ _ _ HL _ _ (hfind_In _ _ _ Hht)) as [Hf1 Hf2].
      destruct (proj1 (kl_agree _ _ _ _ _ _ HL) _ _ Hc) as [p Hn].
      unfold Core.kstep. cbn [Core.kops k_cn k_hd]. rewrite Hc, Hht. cbn [irun istep k_i].
      unfold client_h, bound. rewrite Hf1, Hf2, Hn. cbn [andb negb].
      destruct (N.eqb_spec (crc nd + 1) 1) as [E1|_]; [lia|]. cbn [kfin]. eauto.
  - destruct Hal as [Hint Hst]. unfold Core.kstep. cbn [Core.kops irun istep]. rewrite Hint.
    destruct (Alloc.step c good (i_al (k_i s)) a) as [[al' ob]|]; [|congruence]. cbn [kfin]. eauto.
Qed.

(** conversely a step that happens had the allocator's consent *)
Lemma kstep_alloc_ok c s a s' r rs : KInv c s -> kstep c s a = Some (s', r, rs) -> kalloc_ok c s a.
Proof.
  intros (HI & HC & HL) H. destruct (kstep_parts _ _ _ _ _ _ _ _ _ H) as (ops & i' & Ho & Hr & _).
  destruct a as [tid lvl ch|tid e|tid e|tid tid' e|tid e|t id|ia]; cbn [kalloc_ok]; auto; cbn [Core.kops] in Ho.
  - intros Hfs. rewrite Hfs in Ho. destruct (node_pre_b k terms nl (k_cn s) lvl ch); [|discriminate].
    destruct (take_toks3 tid ch (k_tok s)) as [[hts tok1]|]; [|discriminate]. inversion Ho; subst ops.
    cbn [irun istep] in Hr. destruct (_ && _ && _ && _ && _); [|discriminate]. cbn [Alloc.step] in Hr. unfold nthreads.
    destruct (nth_error (th (i_al (k_i s))) tid) as [l|] eqn:El; [|discriminate].
    apply nth_error_Some. congruence.
  - intros (nd & Hc & Hz). rewrite Hc in Ho. destruct (hfind id (k_hd s)) as [ht|] eqn:Hht; [|discriminate]. inversion Ho; subst ops.
    unfold KLink in HL. destruct (kl_hd _ _ _ _ _ _ HL _ _ (hfind_In _ _ _ Hht)) as [Hf1 Hf2].
    destruct (proj1 (kl_agree _ _ _ _ _ _ HL) _ _ Hc) as [p Hn]. rewrite Hz in Hn.
    cbn [irun istep] in Hr. unfold client_h, bound in Hr. rewrite Hf1, Hf2, Hn in Hr. cbn [andb negb N.eqb] in Hr.
    change (0 + 1 =? 1)%N with true in Hr. cbv iota in Hr.
    destruct (release_all _ _) as [[s1 lk]|] eqn:Erel; [|discriminate]. cbn [Alloc.step] in Hr. unfold nthreads.
    pose proof (release_all_al _ _ _ _ Erel) as Ea. cbn [i_al] in Ea.
    rewrite Ea in Hr. destruct (nth_error (th (i_al (k_i s))) t) as [l|] eqn:El; [|discriminate].
    apply nth_error_Some. congruence.
  - inversion Ho; subst ops. cbn [irun istep] in Hr. destruct (internal ia); [|discriminate]. split; [reflexivity|].
    destruct (Alloc.step c good (i_al (k_i s)) ia); [discriminate | discriminate].
Qed.

(** [kstep] is [None] IFF Conc's guard fails or the allocator refuses *)
Theorem kstep_some_iff c s a : KInv c s ->
  ((exists s' r rs, kstep c s a = Some (s', r, rs)) <-> kops s a <> None /\ kalloc_ok c s a).
Proof.
  intros HK. split.
  - intros (s' & r & rs & H). split; [|eapply kstep_alloc_ok; eauto].
    destruct (kstep_parts _ _ _ _ _ _ _ _ _ H) as (ops & i' & Ho & _). congruence.
  - intros [Ho Hal]. apply kstep_progress; assumption.
Qed.

(** the invariant carries [1 <= term c] (from [kinit], whose precondition it is): slot id 0 is a
    terminal's, and the id of every new node lies in the slot array behind the terminal slots *)
Lemma kinv_term c s : KInv c s -> (1 <= term c)%N.
Proof. intros ((HA & _) & _). apply (ainv_term c _ HA). Qed.

Theorem knew_id_in_array c s tid lvl ch s' id rs : KInv c s ->
  kstep c s (KGoi tid lvl ch) = Some (s', KRNew id, rs) ->
  (1 <= term c /\ term c <= Npos id < term c + cap c)%N.
Proof.
  intros HK H. split; [apply (kinv_term c s HK)|]. destruct HK as ((HA & _) & _).
  destruct (goi_parts k terms nl _ _ _ _ _ _ _ _ H) as (hts & tok1 & _ & _ & M).
  destruct (find_shape (k_cn s) lvl ch); [discriminate M|]. destruct M as (x & -> & Hi & M).
  destruct x as [[|fr] pa|lk| | | | | |]; try contradiction; try (destruct M; discriminate).
  destruct M as (E & _). inversion E; subst fr. cbn [istep] in Hi.
  destruct (_ && _ && _ && _ && _); [|discriminate].
  destruct (Alloc.step c good (i_al (k_i s)) (AAlloc tid)) as [[al' [| |[fr|] pa'| | |]]|] eqn:Hal; try discriminate.
  - inversion Hi; subst. destruct (alloc_safe _ _ _ _ _ _ HA Hal) as (Hr & _). exact Hr.
  - destruct (release_all _ hts) as [[? ?]|]; discriminate.
Qed.

End Total.
