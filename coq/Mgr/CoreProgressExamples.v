(** * STORECONC2 — non-vacuity of Mgr/CoreProgress.v.
      [kb_run]: a BCDD manager (1 terminal slot, capacity 4, chunk 2: slot ids 1..4; threads 0
      (guard) and 1 (worker), 2 levels): [KNot] (complement of an owned inner edge = tag flip of the
      token, of a terminal edge = nothing) next to every other action, incl. a collector step that
      removes a node whose child edges are complemented.
      [kx_retry_dead] / [kx_retry_none_dead]: the hypotheses of [retry_after_gc] hold on the run of
      Mgr/CoreExamples.v (full store, 6 entries): with node 6 dead the retry after the collection
      (collector 2, epilogue, then thread 0; or the collector thread itself without epilogue) gets
      slot 6; one action earlier (node 6 still referenced) nothing is dead and the retry fails again.
      [kx_progress]: the allocator's consent is what [kstep_progress] needs. *)

From Coq Require Import List NArith ZArith PArith Bool Arith Lia.
From OxiVerif Require Import DD.Table Mgr.Alloc Mgr.AllocExamples Mgr.AllocProofs Mgr.AllocThms Tbl.RcStore Mgr.IndexStore
  Mgr.IndexStoreProofs Mgr.Conc Mgr.ConcExamples Mgr.ConcGc Mgr.ConcGcCount Mgr.Core Mgr.CoreProofs Mgr.CoreThms
  Mgr.CoreExamples Mgr.CoreProgress.
Import ListNotations.

(** ** BCDD *)

Definition kb_cfg : cfg := mkCfg 4 2 1 0 0.

Lemma kb_cfg_ok : (1 <= chunk kb_cfg)%N /\ (1 <= term kb_cfg)%N.
Proof. cbv. split; discriminate. Qed.

Definition kb_sched : list kact :=
  [KInternal (APrepare 0); KInternal (ABind 1);
   KGoi 0 1 [BT false; BT true];        (* x1 = node 1 (slot id 1 = TERMINALS) *)
   KRetain 0 (B 1 false);
   KNot 0 (B 1 false);                  (* not x1: the token's tag flips, no store operation *)
   KGoi 0 0 [B 1 false; B 1 true];      (* node 2: both edge values move into it *)
   KGoi 1 1 [BT false; BT true];        (* thread 1 finds node 1 *)
   KNot 1 (B 1 false);
   KMove 1 0 (B 1 true);
   KNot 0 (BT false);                   (* complement of a terminal edge *)
   KRelease 0 (B 2 false);              (* node 2 is dead *)
   KGc 1 2].                            (* removed: its edge values (one complemented) are released *)

Definition kb_results : list kres :=
  [KRObs (OPrep true); KRObs OUnit; KRNew 1; KRUnit; KRUnit; KRNew 2; KRFound 1; KRUnit; KRUnit; KRUnit; KRUnit; KRRemoved].

Definition kb_store_results : list ires :=
  [IRObs (OPrep true); IRObs OUnit; IRAdded 1 PSharedChunk; IRCount 3; IRAdded 2 PLocalRange; IRCount 4;
   IRReleased false; IRRemoved 0 [2; 3] false].

Theorem kb_run :
  exists s, krun KBcdd bc_terms 2 kb_cfg (kinit kb_cfg 2) kb_sched = Some (s, kb_results, kb_store_results) /\
    kreachable KBcdd bc_terms 2 kb_cfg s /\ KInv KBcdd bc_terms 2 kb_cfg s /\ klink_b s = true /\
    cinv_b KBcdd bc_terms 2 (kproj s) = true /\ iinv_b kb_cfg (k_i s) = true /\
    no_leak kb_store_results = true /\
    kproj s = mkCst [(1%positive, mkC 1 [BT false; BT true] 1%N)] [(0, B 1 true)] /\
    In (ANot 0 (B 1 false)) (kacts_list kb_sched kb_results) /\
    Conc.run KBcdd bc_terms 2 cempty (kacts_list kb_sched kb_results) = Some (kproj s).
Proof.
  destruct (krun KBcdd bc_terms 2 kb_cfg (kinit kb_cfg 2) kb_sched) as [[[s xs] rs]|] eqn:E; [|vm_compute in E; discriminate].
  assert (Exs : xs = kb_results /\ rs = kb_store_results) by (vm_compute in E; inversion E; split; reflexivity).
  destruct Exs; subst xs rs.
  assert (Hre : kreachable KBcdd bc_terms 2 kb_cfg s).
  { exists 2%nat, kb_sched, kb_results, kb_store_results. destruct kb_cfg_ok. auto. }
  exists s. split; [reflexivity|]. split; [exact Hre|]. split; [apply kreachable_inv; exact Hre|].
  split; [|split; [|split; [|split; [reflexivity|split; [|split]]]]];
    try (vm_compute in E; inversion E; subst s; vm_compute; reflexivity).
  vm_compute. auto 10.
Qed.

(** a tag flip is not an action of a BDD manager: Conc's guard fails, so does the core's *)
Example kb_not_bdd : forall s tid e, kops KBdd kx_terms 4 s (KNot tid e) = None.
Proof. reflexivity. Qed.

(** ** the retry after a whole collection: the hypotheses of [retry_after_gc] *)

(** node 6 is dead (the state after `drop` of the last handle): the retry succeeds *)
Theorem kx_retry_dead :
  exists s, kreachable KBdd kx_terms 4 ex_cfg s /\ KInv KBdd kx_terms 4 ex_cfg s /\ 2 < nthreads s /\
    length (k_cn s) = N.to_nat (cap ex_cfg) /\ kdead s 6 /\ garbage 4 (kproj s) = [6%positive] /\
    let s1 := kcollect KBdd kx_terms 4 ex_cfg 2 s in
    (* the collector's epilogue, then thread 0 *)
    (exists s2 xs2 rs2 l s' rs,
       krun KBdd kx_terms 4 ex_cfg s1 (map KInternal [AGcFlush 2]) = Some (s2, xs2, rs2) /\
       nth_error (th (i_al (k_i s2))) 0 = Some l /\ others_idle_p ex_cfg (i_al (k_i s2)) 0 /\
       find_shape (k_cn s2) 0 [KT0; KT1] = None /\
       kstep KBdd kx_terms 4 ex_cfg s2 (KGoi 0 0 [KT0; KT1]) = Some (s', KRNew 6, rs)) /\
    (* the collector thread itself, no epilogue *)
    (exists l s' rs,
       nth_error (th (i_al (k_i s1))) 2 = Some l /\ others_idle_p ex_cfg (i_al (k_i s1)) 2 /\
       find_shape (k_cn s1) 0 [KT0; KT1] = None /\
       kstep KBdd kx_terms 4 ex_cfg s1 (KGoi 2 0 [KT0; KT1]) = Some (s', KRNew 6, rs)).
Proof.
  destruct (krun KBdd kx_terms 4 ex_cfg (kinit ex_cfg 3) (firstn 21 kx_sched)) as [[[s xs] rs]|] eqn:E; [|vm_compute in E; discriminate].
  assert (Hre : kreachable KBdd kx_terms 4 ex_cfg s).
  { exists 3%nat, (firstn 21 kx_sched), xs, rs. destruct ex_cfg_ok. auto. }
  pose proof (kreachable_inv _ _ _ _ _ Hre) as HK.
  exists s. split; [exact Hre|]. split; [exact HK|].
  assert (Hg : garbage 4 (kproj s) = [6%positive]) by (vm_compute in E; inversion E; subst s; vm_compute; reflexivity).
  split; [vm_compute in E; inversion E; subst s; vm_compute; auto|].
  split; [vm_compute in E; inversion E; subst s; vm_compute; reflexivity|].
  split; [apply (garbage_dead KBdd kx_terms 4 s 6 (proj1 (proj2 HK))); rewrite Hg; left; reflexivity|].
  split; [exact Hg|].
  vm_compute in E. inversion E; subst s xs rs. clear E. cbv zeta. split.
  - do 6 eexists. split; [vm_compute; reflexivity|]. split; [vm_compute; reflexivity|].
    split; [apply others_idle_spec; vm_compute; reflexivity|]. split; vm_compute; reflexivity.
  - do 3 eexists. split; [vm_compute; reflexivity|].
    split; [apply others_idle_spec; vm_compute; reflexivity|]. split; vm_compute; reflexivity.
Qed.

(** one action earlier: thread 0 still holds its edge to node 6, the store is full and nothing is
    dead: the collection removes nothing and the retry fails again *)
Theorem kx_retry_none_dead :
  exists s, kreachable KBdd kx_terms 4 ex_cfg s /\ 2 < nthreads s /\
    length (k_cn s) = N.to_nat (cap ex_cfg) /\ garbage 4 (kproj s) = [] /\ (forall id, ~ kdead s id) /\
    let s1 := kcollect KBdd kx_terms 4 ex_cfg 2 s in
    exists s2 xs2 rs2 l s' rs,
      krun KBdd kx_terms 4 ex_cfg s1 (map KInternal [AGcFlush 2]) = Some (s2, xs2, rs2) /\
      nth_error (th (i_al (k_i s2))) 0 = Some l /\ others_idle_p ex_cfg (i_al (k_i s2)) 0 /\
      find_shape (k_cn s2) 0 [KT0; KT1] = None /\
      kstep KBdd kx_terms 4 ex_cfg s2 (KGoi 0 0 [KT0; KT1]) = Some (s', KROom, rs).
Proof.
  destruct (krun KBdd kx_terms 4 ex_cfg (kinit ex_cfg 3) (firstn 20 kx_sched)) as [[[s xs] rs]|] eqn:E; [|vm_compute in E; discriminate].
  assert (Hre : kreachable KBdd kx_terms 4 ex_cfg s).
  { exists 3%nat, (firstn 20 kx_sched), xs, rs. destruct ex_cfg_ok. auto. }
  pose proof (kreachable_inv _ _ _ _ _ Hre) as HK.
  exists s. split; [exact Hre|].
  assert (Hg : garbage 4 (kproj s) = []) by (vm_compute in E; inversion E; subst s; vm_compute; reflexivity).
  split; [vm_compute in E; inversion E; subst s; vm_compute; auto|].
  split; [vm_compute in E; inversion E; subst s; vm_compute; reflexivity|].
  split; [exact Hg|].
  split; [intros id D; apply (garbage_dead KBdd kx_terms 4 s id (proj1 (proj2 HK))) in D; rewrite Hg in D; exact D|].
  vm_compute in E. inversion E; subst s xs rs. clear E. cbv zeta.
  do 6 eexists. split; [vm_compute; reflexivity|]. split; [vm_compute; reflexivity|].
  split; [apply others_idle_spec; vm_compute; reflexivity|]. split; vm_compute; reflexivity.
Qed.

(** ** progress: Conc's guard of a `get_or_insert` holds for any thread id; the step happens for
    the threads that exist (thread 0) and not for thread 7: the allocator refuses ([kalloc_ok]) *)
Theorem kx_progress :
  exists s, kreachable KBdd kx_terms 4 ex_cfg s /\ nthreads s = 3 /\
    kops KBdd kx_terms 4 s (KGoi 7 0 [KT0; KT1]) <> None /\ ~ kalloc_ok ex_cfg s (KGoi 7 0 [KT0; KT1]) /\
    kstep KBdd kx_terms 4 ex_cfg s (KGoi 7 0 [KT0; KT1]) = None /\
    kops KBdd kx_terms 4 s (KGoi 0 0 [KT0; KT1]) <> None /\ kalloc_ok ex_cfg s (KGoi 0 0 [KT0; KT1]) /\
    kstep KBdd kx_terms 4 ex_cfg s (KGoi 0 0 [KT0; KT1]) <> None.
Proof.
  destruct (krun KBdd kx_terms 4 ex_cfg (kinit ex_cfg 3) (firstn 24 kx_sched)) as [[[s xs] rs]|] eqn:E; [|vm_compute in E; discriminate].
  assert (Hre : kreachable KBdd kx_terms 4 ex_cfg s).
  { exists 3%nat, (firstn 24 kx_sched), xs, rs. destruct ex_cfg_ok. auto. }
  exists s. split; [exact Hre|]. vm_compute in E. inversion E; subst s xs rs. clear E.
  split; [reflexivity|]. split; [vm_compute; discriminate|]. split.
  { intros H. assert (Hlt : 7 < 3) by (apply H; vm_compute; reflexivity). lia. }
  split; [vm_compute; reflexivity|]. split; [vm_compute; discriminate|]. split; [intros _; vm_compute; auto|].
  vm_compute. discriminate.
Qed.
