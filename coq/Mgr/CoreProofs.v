(** * STORECONC — the composed model Mgr/Core.v: invariant [KInv] = IndexStore's [IInv] /\ Conc's
      [CInv] on the projection /\ the link [KLink]; every action of every thread
      (a) never releases a last edge ([no_leak]: the step STOREREF had to exclude never happens),
      (b) projects to a run of Mgr/Conc.v in which [AGoi]'s id argument is the id the store returned,
      (c) keeps [KInv]  ([kstep_spec], [krun_spec], [kreachable_inv]). *)

From Coq Require Import List NArith ZArith PArith Bool Arith Lia FMapPositive Permutation.
From OxiVerif Require Import DD.Table Mgr.Alloc Tbl.RcStore Mgr.IndexStore Mgr.IndexStoreProofs
  Mgr.Conc Mgr.ConcBase Mgr.ConcProofs Mgr.Core Mgr.CoreBase Mgr.CoreLink.
From OxiVerif Require Mgr.IndexStoreEquiv Mgr.ConcGcProofs.
Import ListNotations.

Arguments N.add : simpl never.
Arguments N.sub : simpl never.

Section Proofs.
Variable k : kind.
Variable terms : list (N * N).
Variable nl : nat.

Notation xstep := (Conc.step k terms nl).
Notation xrun := (Conc.run k terms nl).
Notation CInv := (ConcProofs.CInv k terms nl).
Notation kops := (kops k terms nl).
Notation kstep := (kstep k terms nl).
Notation krun := (krun k terms nl).
Notation kstep_ops := (kstep_ops k terms nl).

Definition KInv (c : cfg) (s : kst) : Prop := IInv c (k_i s) /\ CInv (kproj s) /\ KLink s.

Lemma kinit_inv c n : (1 <= chunk c)%N -> (1 <= term c)%N -> KInv c (kinit c n).
Proof.
  intros Hc Ht. split; [apply iinit_inv; assumption|]. split; [apply CInv_empty|].
  unfold KLink. cbn. constructor; cbn; try tauto; try constructor.
  - discriminate.
  - intros j H. exfalso. apply H. apply nget_empty.
  - discriminate.
Qed.

(** what one step consists of *)
Lemma kstep_parts c s a s' r rs : kstep c s a = Some (s', r, rs) ->
  exists ops i', kops s a = Some ops /\ irun c (k_i s) ops = Some (i', rs) /\ kfin s a i' rs = Some (s', r).
Proof.
  unfold Core.kstep. destruct (kops s a) as [ops|] eqn:E1; [|discriminate].
  destruct (irun c (k_i s) ops) as [[i' rs']|] eqn:E2; [|discriminate].
  destruct (kfin s a i' rs') as [[s1 r1]|] eqn:E; [|discriminate]. intros H. inversion H; subst.
  exists ops, i'. auto.
Qed.

Definition StepOK (s : kst) (a : kact) (s' : kst) (r : kres) (rs : list ires) : Prop :=
  no_leak rs = true /\ xrun (kproj s) (kacts a r) = Some (kproj s') /\ KLink s'.

Lemma inner_ids_In ch j : In j (inner_ids ch) -> exists e, In e ch /\ eref e = RN j.
Proof.
  induction ch as [|e r IH]; cbn [inner_ids]; [intros []|]. destruct (eref e) as [x|id] eqn:E.
  - intros H. destruct (IH H) as (e' & A & B). exists e'. split; [right; exact A | exact B].
  - intros [<-|H]; [exists e; split; [left; reflexivity | exact E]|].
    destruct (IH H) as (e' & A & B). exists e'. split; [right; exact A | exact B].
Qed.

Lemma no_leak_app a b : no_leak (a ++ b) = no_leak a && no_leak b.
Proof. unfold no_leak. apply forallb_app. Qed.

Lemma no_leak_released (hts : list nat) : no_leak (map (fun _ => IRReleased false) hts) = true.
Proof. induction hts; cbn; auto. Qed.

(** a failed `get_or_insert`, seen from Conc.v: the consumed child edges are released *)
Lemma oom_run tid ch : forall cn tok hts tok1,
  take_toks3 tid ch tok = Some (hts, tok1) ->
  (forall e x, In e ch -> eref e = RT x -> cref_ok_b terms cn (RT x) = true) ->
  xrun (mkCst cn (map fst tok)) (map (ARelease tid) ch) = Some (mkCst (dec_children cn ch) (map fst tok1)).
Proof.
  induction ch as [|e r IH]; intros cn tok hts tok1 HT Hok; cbn [take_toks3 map Conc.run dec_children] in *.
  - inversion HT; subst. reflexivity.
  - cbn [Conc.step Conc.cn Conc.cown]. destruct (eref e) as [x|id] eqn:Ee.
    + rewrite (Hok e x (or_introl eq_refl) Ee). cbn [dec_ref]. apply (IH _ _ _ _ HT).
      intros e' x' He'. apply Hok. right. exact He'.
    + destruct (take_tok3 (tid, e) tok) as [[h l1]|] eqn:E1; [|discriminate].
      destruct (take_toks3 tid r l1) as [[hs2 l2]|] eqn:E2; [|discriminate]. inversion HT; subst.
      rewrite take_tok3_proj, E1. cbn [dec_ref]. apply (IH _ _ _ _ E2).
      intros e' x' He' Ex. specialize (Hok e' x' (or_intror He') Ex). exact Hok.
Qed.

Lemma node_pre_terms cn lvl ch : node_pre_b k terms nl cn lvl ch = true ->
  forall cn' e x, In e ch -> eref e = RT x -> cref_ok_b terms cn' (RT x) = true.
Proof.
  unfold node_pre_b. intros H cn' e x He Ex. repeat (apply andb_prop in H; destruct H as [H ?]).
  rewrite forallb_forall in H2. specialize (H2 e He). apply andb_prop in H2. destruct H2 as [H2 _].
  rewrite Ex in H2. exact H2.
Qed.

(** ** the actions, one by one *)

Lemma ok_internal c i cn tok hd a s' r rs :
  KInv c (mkK i cn tok hd) -> kstep c (mkK i cn tok hd) (KInternal a) = Some (s', r, rs) -> StepOK (mkK i cn tok hd) (KInternal a) s' r rs.
Proof.
  intros (HI & HC & HL) H. destruct (kstep_parts _ _ _ _ _ _ H) as (ops & i' & Ho & Hr & Hf).
  cbn in Ho. inversion Ho; subst ops. cbn [irun istep k_i] in Hr.
  destruct (internal a); [|discriminate].
  destruct (Alloc.step c good (i_al i) a) as [[al' ob]|]; [|discriminate]. inversion Hr; subst i' rs.
  cbn in Hf. inversion Hf; subst s' r. split; [reflexivity|]. split; [reflexivity|]. exact HL.
Qed.

Lemma ok_retain c i cn tok hd tid e s' r rs :
  KInv c (mkK i cn tok hd) -> kstep c (mkK i cn tok hd) (KRetain tid e) = Some (s', r, rs) -> StepOK (mkK i cn tok hd) (KRetain tid e) s' r rs.
Proof.
  intros (HI & HC & HL) H. destruct (kstep_parts _ _ _ _ _ _ H) as (ops & i' & Ho & Hr & Hf).
  cbn [Core.kops k_cn k_hd k_tok k_i] in Ho. cbn [kfin k_cn k_hd k_tok k_i] in Hf.
  unfold StepOK. cbn [kacts Conc.run Conc.step kproj Conc.cn Conc.cown k_cn k_tok]. destruct (eref e) as [x|id] eqn:Ee.
  - destruct (cref_ok_b terms cn (RT x)); [|discriminate]. inversion Ho; subst ops. cbn in Hr. inversion Hr; subst i' rs.
    inversion Hf; subst s' r. split; [reflexivity|]. split; [reflexivity|]. exact HL.
  - destruct (can_borrow_b nl (kproj (mkK i cn tok hd)) e) eqn:Hb; [|discriminate].
    destruct (hfind id hd) as [ht|] eqn:Hht; [|discriminate]. inversion Ho; subst ops.
    unfold KLink in HL. cbn [k_i k_cn k_tok k_hd] in HL.
    destruct (kl_hd _ _ _ _ _ _ HL _ _ (hfind_In _ _ _ Hht)) as [Hf1 _].
    destruct (IndexStoreEquiv.fresh_h_spec 0 (i_hs i)) as [_ Hfr]. unfold kh1 in *. cbn [k_i] in *.
    cbn [irun istep] in Hr. rewrite Hf1, Hfr in Hr.
    destruct (nget (i_nodes i) (Npos id)) as [[p rc]|] eqn:Hn; [|discriminate]. inversion Hr; subst i' rs.
    inversion Hf; subst s' r. split; [reflexivity|].
    split; [reflexivity|].
    unfold KLink. cbn [k_i k_cn k_tok k_hd i_hs i_own i_nodes].
    destruct HI as (_ & _ & _ & HO). eapply link_retain; eauto.
Qed.

Lemma ok_release c i cn tok hd tid e s' r rs :
  KInv c (mkK i cn tok hd) -> kstep c (mkK i cn tok hd) (KRelease tid e) = Some (s', r, rs) -> StepOK (mkK i cn tok hd) (KRelease tid e) s' r rs.
Proof.
  intros (HI & HC & HL) H. destruct (kstep_parts _ _ _ _ _ _ H) as (ops & i' & Ho & Hr & Hf).
  cbn [Core.kops k_cn k_hd k_tok k_i] in Ho. cbn [kfin k_cn k_hd k_tok k_i] in Hf.
  unfold StepOK. cbn [kacts Conc.run Conc.step kproj Conc.cn Conc.cown k_cn k_tok]. destruct (eref e) as [x|id] eqn:Ee.
  - destruct (cref_ok_b terms cn (RT x)); [|discriminate]. inversion Ho; subst ops. cbn in Hr. inversion Hr; subst i' rs.
    inversion Hf; subst s' r. split; [reflexivity|]. split; [reflexivity|]. exact HL.
  - rewrite take_tok3_proj. destruct (take_tok3 (tid, e) tok) as [[h tok']|] eqn:HT; [|discriminate].
    inversion Ho; subst ops. inversion Hf; subst s' r.
    assert (HT2 : take_toks3 tid [e] tok = Some ([h], tok')) by (cbn [take_toks3]; rewrite Ee, HT; reflexivity).
    pose proof HI as (_ & _ & HR & HO). unfold KLink in HL. cbn [k_i k_cn k_tok k_hd] in HL.
    destruct (link_release _ _ _ _ _ _ _ _ HR HO HL HT2) as (i1 & E1 & _ & _ & _ & _ & _ & L1 & Hown & _).
    pose proof (irun_releases c [] [h] i i1 E1 Hown) as Hrun. cbn [map app irun] in Hrun. cbn [k_i irun] in Hr.
    rewrite Hrun in Hr. inversion Hr; subst i' rs. split; [reflexivity|]. split; [reflexivity|].
    unfold KLink. cbn [k_i k_cn k_tok k_hd]. cbn [dec_children dec_ref] in L1. rewrite Ee in L1. exact L1.
Qed.

Lemma ok_move c i cn tok hd tid tid' e s' r rs :
  KInv c (mkK i cn tok hd) -> kstep c (mkK i cn tok hd) (KMove tid tid' e) = Some (s', r, rs) -> StepOK (mkK i cn tok hd) (KMove tid tid' e) s' r rs.
Proof.
  intros (HI & HC & HL) H. destruct (kstep_parts _ _ _ _ _ _ H) as (ops & i' & Ho & Hr & Hf).
  cbn [Core.kops k_cn k_hd k_tok k_i] in Ho. cbn [kfin k_cn k_hd k_tok k_i] in Hf.
  unfold StepOK. cbn [kacts Conc.run Conc.step kproj Conc.cn Conc.cown k_cn k_tok]. destruct (eref e) as [x|id] eqn:Ee.
  - destruct (cref_ok_b terms cn (RT x)); [|discriminate]. inversion Ho; subst ops. cbn in Hr. inversion Hr; subst i' rs.
    inversion Hf; subst s' r. split; [reflexivity|]. split; [reflexivity|]. exact HL.
  - rewrite take_tok3_proj. destruct (take_tok3 (tid, e) tok) as [[h tok']|] eqn:HT; [|discriminate].
    inversion Ho; subst ops. cbn in Hr. inversion Hr; subst i' rs. inversion Hf; subst s' r.
    split; [reflexivity|]. split; [reflexivity|].
    unfold KLink in *. cbn [k_i k_cn k_tok k_hd] in *. eapply link_retoken; [exact HL | exact HT | reflexivity].
Qed.

Lemma ok_not c i cn tok hd tid e s' r rs :
  KInv c (mkK i cn tok hd) -> kstep c (mkK i cn tok hd) (KNot tid e) = Some (s', r, rs) -> StepOK (mkK i cn tok hd) (KNot tid e) s' r rs.
Proof.
  intros (HI & HC & HL) H. destruct (kstep_parts _ _ _ _ _ _ H) as (ops & i' & Ho & Hr & Hf).
  cbn [Core.kops k_cn k_hd k_tok k_i] in Ho. cbn [kfin k_cn k_hd k_tok k_i] in Hf.
  unfold StepOK. cbn [kacts Conc.run Conc.step kproj Conc.cn Conc.cown k_cn k_tok].
  destruct (is_bcdd k); [|discriminate]. destruct (eref e) as [x|id] eqn:Ee.
  - destruct (cref_ok_b terms cn (RT x)); [|discriminate]. inversion Ho; subst ops. cbn in Hr. inversion Hr; subst i' rs.
    inversion Hf; subst s' r. split; [reflexivity|]. split; [reflexivity|]. exact HL.
  - rewrite take_tok3_proj. destruct (take_tok3 (tid, e) tok) as [[h tok']|] eqn:HT; [|discriminate].
    inversion Ho; subst ops. cbn in Hr. inversion Hr; subst i' rs. inversion Hf; subst s' r.
    split; [reflexivity|]. split; [reflexivity|].
    unfold KLink in *. cbn [k_i k_cn k_tok k_hd] in *. eapply link_retoken; [exact HL | exact HT | cbn [snd eref]; congruence].
Qed.

Lemma ok_goi c i cn tok hd tid lvl ch s' r rs :
  KInv c (mkK i cn tok hd) -> kstep c (mkK i cn tok hd) (KGoi tid lvl ch) = Some (s', r, rs) -> StepOK (mkK i cn tok hd) (KGoi tid lvl ch) s' r rs.
Proof.
  intros (HI & HC & HL) H. destruct (kstep_parts _ _ _ _ _ _ H) as (ops & i' & Ho & Hr & Hf).
  cbn [Core.kops k_cn k_hd k_tok k_i] in Ho. cbn [kfin k_cn k_hd k_tok k_i] in Hf.
  unfold KLink in HL. cbn [k_i k_cn k_tok k_hd] in HL. cbn [k_i] in *.
  destruct (node_pre_b k terms nl cn lvl ch) eqn:Hpre; [|discriminate].
  destruct (take_toks3 tid ch tok) as [[hts tok1]|] eqn:HT; [|discriminate].
  pose proof HI as (_ & _ & HR & HO).
  destruct (IndexStoreEquiv.fresh_h_spec 0 (i_hs i)) as [_ Hfr1].
  destruct (IndexStoreEquiv.fresh_h_spec (fresh_h 0 (i_hs i)) (i_hs i)) as [Hne12 Hfr2].
  unfold kh2, kh1 in *. cbn [k_i] in *.
  assert (Hproj : take_toks tid ch (map fst tok) = Some (map fst tok1)) by (rewrite take_toks3_proj, HT; reflexivity).
  unfold StepOK. destruct (find_shape cn lvl ch) as [id|] eqn:Hfs.
  - (* found *)
    destruct (hfind id hd) as [ht|] eqn:Hht; [|discriminate]. inversion Ho; subst ops. inversion Hf; subst s' r.
    destruct (link_release _ _ _ _ _ _ _ _ HR HO HL HT) as (i1 & E1 & Ea & HR1 & Eh & Eo & Ed & L1 & Hown & Hnd & Hbnd).
    rewrite (irun_releases c [IRetain ht (fresh_h 0 (i_hs i))] hts i i1 E1 Hown) in Hr.
    destruct (kl_hd _ _ _ _ _ _ L1 _ _ (hfind_In _ _ _ Hht)) as [Hf1 _].
    assert (Hfr : afind (fresh_h 0 (i_hs i)) (i_hs i1) = None).
    { rewrite Eh, afind_rm_all; [exact Hfr1|]. intros Hin. apply (Hbnd _ Hin Hfr1). }
    cbn [irun istep] in Hr. rewrite Hf1, Hfr in Hr.
    destruct (nget (i_nodes i1) (Npos id)) as [[p rc]|] eqn:Hn; [|discriminate]. inversion Hr; subst i' rs.
    split; [rewrite no_leak_app, no_leak_released; reflexivity|]. split.
    + cbn [kacts Conc.run Conc.step kproj Conc.cn Conc.cown k_cn k_tok]. rewrite Hpre, Hproj, Hfs. reflexivity.
    + unfold KLink. cbn [k_i k_cn k_tok k_hd i_hs i_own i_nodes].
      destruct (release_all_inv c hts i i1 HI E1) as [(_ & _ & _ & HO1) _]. eapply link_retain; eauto.
  - (* not found: `add_node` *)
    inversion Ho; subst ops. cbn [irun istep] in Hr.
    destruct (negb (bound (i_hs i) (fresh_h 0 (i_hs i))) && negb (bound (i_hs i) (fresh_h (fresh_h 0 (i_hs i)) (i_hs i))) &&
              negb (fresh_h 0 (i_hs i) =? fresh_h (fresh_h 0 (i_hs i)) (i_hs i))%nat && forallb (client_h i) hts && nodup_nat hts); [|discriminate].
    destruct (Alloc.step c good (i_al i) (AAlloc tid)) as [[al' [| |[fr|] pa| | |]]|] eqn:Hal; try discriminate.
    + (* Ok *)
      inversion Hr; subst i' rs. destruct fr as [|frp]; [discriminate Hf|]. inversion Hf; subst s' r.
      destruct (alloc_fresh _ _ _ _ _ _ HI Hal) as (Hfree & _ & _).
      destruct (link_add i cn tok hd tid lvl ch hts tok1 frp _ _ (N.of_nat lvl) HO HL HT Hfr1 Hfr2 (not_eq_sym Hne12) Hfree) as [Hcf L2].
      split; [reflexivity|]. split; [|exact L2].
      cbn [kacts Conc.run Conc.step kproj Conc.cn Conc.cown k_cn k_tok]. rewrite Hpre, Hproj, Hfs, Hcf. reflexivity.
    + (* Err(OutOfMemory) *)
      destruct (link_release (mkI al' (i_nodes i) (i_hs i) (i_own i)) _ _ _ _ _ _ _ HR HO HL HT) as (i1 & E1 & _ & _ & _ & _ & _ & L1 & _).
      rewrite E1 in Hr. inversion Hr; subst i' rs. inversion Hf; subst s' r.
      split; [reflexivity|]. split; [|exact L1].
      cbn [kacts kproj k_cn k_tok]. apply (oom_run _ _ _ _ _ _ HT). intros e x. apply (node_pre_terms _ _ _ Hpre).
Qed.

Lemma ok_gc c i cn tok hd t id s' r rs :
  KInv c (mkK i cn tok hd) -> kstep c (mkK i cn tok hd) (KGc t id) = Some (s', r, rs) -> StepOK (mkK i cn tok hd) (KGc t id) s' r rs.
Proof.
  intros (HI & HC & HL) H. destruct (kstep_parts _ _ _ _ _ _ H) as (ops & i' & Ho & Hr & Hf).
  cbn [Core.kops k_cn k_hd k_tok k_i] in Ho. cbn [kfin k_cn k_hd k_tok k_i] in Hf.
  unfold KLink in HL. cbn [k_i k_cn k_tok k_hd] in HL. cbn [k_i] in *.
  destruct (cfind cn id) as [nd|] eqn:Hc; [|discriminate].
  destruct (hfind id hd) as [ht|] eqn:Hht; [|discriminate]. inversion Ho; subst ops.
  pose proof HI as (_ & _ & HR & HO).
  destruct (kl_hd _ _ _ _ _ _ HL _ _ (hfind_In _ _ _ Hht)) as [Hf1 Hf2].
  destruct (proj1 (kl_agree _ _ _ _ _ _ HL) _ _ Hc) as [p Hn].
  cbn [irun istep] in Hr. unfold client_h, bound in Hr. rewrite Hf1, Hf2, Hn in Hr. cbn [andb negb] in Hr.
  unfold StepOK. destruct (N.eqb_spec (crc nd + 1) 1) as [E1|E1].
  - assert (Hz : crc nd = 0%N) by lia. rewrite E1 in Hn.
    destruct (link_remove i cn tok hd id nd ht p HR HO HL) as (i1 & Erel & L1); auto.
    { apply (ti_nodup _ _ _ _ (ci_tbl _ _ _ _ HC)). }
    { intros j Hj. destruct (inner_ids_In _ _ Hj) as (e & He & Ee).
      destruct (child_live k terms nl _ id nd e j HC Hc He Ee) as (ndc & Hcj & _ & Hlt). cbn [kproj Conc.cn k_cn] in Hcj.
      split; [|congruence]. intros ->. rewrite Hc in Hcj. inversion Hcj; subst. lia. }
    rewrite Erel in Hr.
    destruct (Alloc.step c good (i_al i1) (AFree t (Npos id))) as [[al' o]|]; [|discriminate].
    inversion Hr; subst i' rs. inversion Hf; subst s' r. split; [reflexivity|]. split; [|exact L1].
    cbn [kacts Conc.run Conc.step kproj Conc.cn Conc.cown k_cn k_tok]. rewrite Hc, Hz. reflexivity.
  - inversion Hr; subst i' rs. inversion Hf; subst s' r. split; [reflexivity|]. split; [reflexivity | exact HL].
Qed.

(** ** every action of every thread *)
Theorem kstep_spec c s a s' r rs : KInv c s -> kstep c s a = Some (s', r, rs) ->
  no_leak rs = true /\
  irun c (k_i s) (kstep_ops s a) = Some (k_i s', rs) /\
  xrun (kproj s) (kacts a r) = Some (kproj s') /\
  KInv c s'.
Proof.
  intros HK H.
  assert (OK : StepOK s a s' r rs).
  { destruct s as [i cn tok hd]. destruct a.
    - eapply ok_goi; eauto.
    - eapply ok_retain; eauto.
    - eapply ok_release; eauto.
    - eapply ok_move; eauto.
    - eapply ok_not; eauto.
    - eapply ok_gc; eauto.
    - eapply ok_internal; eauto. }
  destruct OK as (Hnl & Hrun & HL). destruct (kstep_parts _ _ _ _ _ _ H) as (ops & i' & Ho & Hr & Hf).
  assert (Ei : k_i s' = i').
  { clear - Hf. unfold kfin in Hf.
    repeat match type of Hf with
           | match ?x with _ => _ end = Some _ => destruct x; try discriminate
           end; inversion Hf; reflexivity. }
  split; [exact Hnl|]. split; [unfold Core.kstep_ops; rewrite Ho, Ei; exact Hr|]. split; [exact Hrun|].
  destruct HK as (HI & HC & _). split; [|split; [|exact HL]].
  - rewrite Ei. apply (irun_refines c ops (k_i s) i' rs HI Hr Hnl).
  - apply (ConcProofs.run_inv k terms nl _ _ _ HC Hrun).
Qed.

(** whole schedules *)
Theorem krun_spec c sched : forall s s' xs rs, KInv c s -> krun c s sched = Some (s', xs, rs) ->
  no_leak rs = true /\ xrun (kproj s) (kacts_list sched xs) = Some (kproj s') /\ KInv c s' /\
  length xs = length sched.
Proof.
  induction sched as [|a sched IH]; intros s s' xs rs HK H; cbn [Core.krun] in H.
  - inversion H; subst. cbn. auto.
  - destruct (kstep c s a) as [[[s1 x] rs1]|] eqn:E1; [|discriminate].
    destruct (krun c s1 sched) as [[[s2 xs2] rs2]|] eqn:E2; [|discriminate]. inversion H; subst s2 xs rs.
    destruct (kstep_spec _ _ _ _ _ _ HK E1) as (N1 & _ & R1 & K1).
    destruct (IH _ _ _ _ K1 E2) as (N2 & R2 & K2 & Hlen).
    split; [rewrite no_leak_app, N1, N2; reflexivity|]. split; [|split; [exact K2 | cbn; congruence]].
    cbn [kacts_list]. rewrite (ConcGcProofs.run_app k terms nl), R1. exact R2.
Qed.

Definition kreachable (c : cfg) (s : kst) : Prop :=
  exists n sched xs rs, (1 <= chunk c)%N /\ (1 <= term c)%N /\ krun c (kinit c n) sched = Some (s, xs, rs).

Theorem kreachable_inv c s : kreachable c s -> KInv c s.
Proof.
  intros (n & sched & xs & rs & Hc & Ht & H). eapply krun_spec; [apply kinit_inv; assumption | exact H].
Qed.

End Proofs.
