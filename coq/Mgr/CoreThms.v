(** * STORECONC — the theorems about the composed model Mgr/Core.v that close the open ends of
      STOREREF (IndexStore.v) and C07 / C05-sm (Conc.v):
      [core_sim] / [core_transfer]  every run of the core from a new manager projects to a run of
                 Conc.v from [cempty] (the id argument of [AGoi] = the id the store returned), so
                 every statement about all reachable states of Conc.v holds for the projection;
      [core_no_leaking_drop]  no `drop_edge` of any action of any thread meets a last edge;
      [core_refines_store]    hence the store component of EVERY reachable core state runs inside
                 the refinement of STOREREF -- without side condition;
      [goi_oom_intact], [goi_oom_single]  OutOfMemory of `get_or_insert`;
      [ids_unambiguous]  the id of a new node is named by no table entry, token, child edge or
                 edge value. *)

From Coq Require Import List NArith ZArith PArith Bool Arith Lia FMapPositive Permutation.
From OxiVerif Require Mgr.AllocStep.
From OxiVerif Require Import DD.Table Mgr.Alloc Mgr.AllocProofs Tbl.RcStore Mgr.IndexStore Mgr.IndexStoreProofs
  Mgr.Conc Mgr.ConcBase Mgr.ConcProofs Mgr.Core Mgr.CoreBase Mgr.CoreLink Mgr.CoreProofs.
Import ListNotations.

Arguments N.add : simpl never.
Arguments N.sub : simpl never.

Section Thms.
Variable k : kind.
Variable terms : list (N * N).
Variable nl : nat.

Notation xrun := (Conc.run k terms nl).
Notation CInv := (ConcProofs.CInv k terms nl).
Notation kstep := (kstep k terms nl).
Notation krun := (krun k terms nl).
Notation kstep_ops := (kstep_ops k terms nl).
Notation KInv := (KInv k terms nl).
Notation kreachable := (kreachable k terms nl).
Notation rruns := (RcStore.aruns N N.eqb).

(** (a) *)
Theorem core_sim c n sched s xs rs : (1 <= chunk c)%N -> (1 <= term c)%N ->
  krun c (kinit c n) sched = Some (s, xs, rs) ->
  xrun cempty (kacts_list sched xs) = Some (kproj s) /\ length xs = length sched.
Proof.
  intros Hc Ht H. destruct (krun_spec k terms nl c sched _ _ _ _ (kinit_inv k terms nl c n Hc Ht) H) as (_ & R & _ & L).
  split; [exact R | exact L].
Qed.

Theorem core_transfer c (P : cst -> Prop) :
  (forall sched s, xrun cempty sched = Some s -> P s) -> forall s, kreachable c s -> P (kproj s).
Proof.
  intros HP s (n & sched & xs & rs & Hc & Ht & H). destruct (core_sim c n sched s xs rs Hc Ht H) as [R _]. exact (HP _ _ R).
Qed.

(** (b) *)
Theorem core_no_leaking_drop c s a s' r rs : kreachable c s -> kstep c s a = Some (s', r, rs) ->
  forall x, In x rs -> leaked x = false.
Proof.
  intros HR H x Hx. destruct (kstep_spec k terms nl c s a s' r rs (kreachable_inv k terms nl c s HR) H) as (Hnl & _).
  unfold no_leak in Hnl. rewrite forallb_forall in Hnl. apply negb_true_iff. apply Hnl. exact Hx.
Qed.

Theorem core_refines_store c s a s' r rs : kreachable c s -> kstep c s a = Some (s', r, rs) ->
  irun c (k_i s) (kstep_ops s a) = Some (k_i s', rs) /\
  IInv c (k_i s) /\ IInv c (k_i s') /\
  rruns (iabs (k_i s)) (flat_ops (kstep_ops s a) rs) (flat_res (kstep_ops s a) rs) (iabs (k_i s')).
Proof.
  intros HR H. pose proof (kreachable_inv k terms nl c s HR) as HK.
  destruct (kstep_spec k terms nl c s a s' r rs HK H) as (Hnl & Hrun & _ & _).
  destruct HK as (HI & _). destruct (irun_refines c _ _ _ _ HI Hrun Hnl) as [HI' R]. auto.
Qed.

(** ** `get_or_insert`, the branches *)
Lemma goi_parts c s tid lvl ch s' r rs : kstep c s (KGoi tid lvl ch) = Some (s', r, rs) ->
  exists hts tok1, node_pre_b k terms nl (k_cn s) lvl ch = true /\ take_toks3 tid ch (k_tok s) = Some (hts, tok1) /\
    match find_shape (k_cn s) lvl ch with
    | Some id => r = KRFound id
    | None =>
      exists x, rs = [x] /\ istep c (k_i s) (IAdd tid (kh1 s) (kh2 s) (N.of_nat lvl) hts) = Some (k_i s', x) /\
        match x with
        | IRAdded (Npos fr) _ => r = KRNew fr /\ k_cn s' = (fr, mkC lvl ch 1%N) :: k_cn s
        | IROom _ => r = KROom /\ k_cn s' = dec_children (k_cn s) ch /\ k_hd s' = k_hd s /\ k_tok s' = tok1
        | _ => False
        end
    end.
Proof.
  intros H. destruct (kstep_parts _ _ _ _ _ _ _ _ _ H) as (ops & i' & Ho & Hr & Hf).
  cbn [Core.kops] in Ho. cbn [kfin] in Hf.
  destruct (node_pre_b k terms nl (k_cn s) lvl ch); [|discriminate].
  destruct (take_toks3 tid ch (k_tok s)) as [[hts tok1]|]; [|discriminate]. exists hts, tok1.
  split; [reflexivity|]. split; [reflexivity|].
  destruct (find_shape (k_cn s) lvl ch) as [id|]; [inversion Hf; reflexivity|].
  inversion Ho; subst ops. cbn [irun] in Hr.
  destruct (istep c (k_i s) (IAdd tid (kh1 s) (kh2 s) (N.of_nat lvl) hts)) as [[i1 x]|] eqn:E; [|discriminate].
  inversion Hr; subst i' rs. exists x. split; [reflexivity|].
  destruct x as [[|fr] pa|lk| | | | | |]; try discriminate Hf; inversion Hf; subst s' r; cbn [k_i k_cn k_hd k_tok]; auto.
Qed.

(** (c) OutOfMemory leaves the manager intact: no entry enters or leaves the table or the store,
    levels and children are unchanged, the hash-table edges are the same, the only count changes
    are the releases of the child edges that the call consumed -- the state is the one after the
    thread's own [ARelease]s of them -- and the invariant holds *)
Theorem goi_oom_intact c s tid lvl ch s' rs : KInv c s ->
  kstep c s (KGoi tid lvl ch) = Some (s', KROom, rs) ->
  k_cn s' = dec_children (k_cn s) ch /\ cn_shape (k_cn s') = cn_shape (k_cn s) /\ k_hd s' = k_hd s /\
  (forall j, nget (i_nodes (k_i s')) j <> None <-> nget (i_nodes (k_i s)) j <> None) /\
  xrun (kproj s) (map (ARelease tid) ch) = Some (kproj s') /\
  (exists lk, rs = [IROom lk]) /\ KInv c s'.
Proof.
  intros HK H. destruct (kstep_spec k terms nl c s _ s' _ rs HK H) as (Hnl & Hrun & Hx & HK').
  destruct (goi_parts _ _ _ _ _ _ _ _ H) as (hts & tok1 & _ & _ & M).
  destruct (find_shape (k_cn s) lvl ch); [discriminate M|]. destruct M as (x & -> & Hi & M).
  destruct x as [[|fr] pa|lk| | | | | |]; try contradiction; try (destruct M; discriminate).
  destruct M as (_ & E1 & E2 & _).
  split; [exact E1|]. split; [rewrite E1; apply cn_shape_dec_children|]. split; [exact E2|]. split.
  - intros j. destruct HK as ((_ & HL & _) & _), HK' as ((_ & HL' & _) & _).
    rewrite <- (HL j), <- (HL' j). cbn [istep] in Hi.
    destruct (_ && _ && _ && _ && _); [|discriminate].
    destruct (Alloc.step c good (i_al (k_i s)) (AAlloc tid)) as [[al' [| |[id|] pa| | |]]|] eqn:Hal; try discriminate.
    destruct (release_all _ hts) as [[s2 lk2]|] eqn:Erel; [|discriminate]. injection Hi as Es Elk.
    cbn [no_leak forallb leaked] in Hnl. rewrite andb_true_r in Hnl. apply negb_true_iff in Hnl. subst lk lk2.
    destruct (release_all_spec _ _ _ Erel) as (_ & Ea & _). rewrite Es in Ea. rewrite Ea. cbn [i_al].
    cbn [Alloc.step] in Hal. destruct (nth_error (th (i_al (k_i s))) tid) as [l|]; [|discriminate].
    destruct (AllocProofs.add_node_oom_shape _ _ _ _ _ _ Hal) as (_ & Esl & _). rewrite Esl. tauto.
  - split; [exact Hx|]. split; [eauto | exact HK'].
Qed.

(** the table and the store hold the same nodes: [nlive] = number of table entries (dead or not) *)
Lemma nlive_table c s : KInv c s -> nlive c (i_al (k_i s)) = length (k_cn s).
Proof.
  intros (HI & HC & HL). destruct (live_listing c _ HI) as [Hnd Hin]. unfold nlive.
  rewrite <- (map_length fst (k_cn s)), <- (map_length Npos (map fst (k_cn s))). apply Permutation_length.
  apply NoDup_Permutation; [exact Hnd | |].
  - apply FinFun.Injective_map_NoDup; [intros a b E; inversion E; reflexivity|]. apply (ti_nodup _ _ _ _ (ci_tbl _ _ _ _ HC)).
  - intros j. rewrite Hin. cbn [iabs a_map]. destruct (kl_agree _ _ _ _ _ _ HL) as [A1 A2]. split.
    + intros Hj. destruct (A2 j Hj) as (id & -> & Hc). apply in_map. destruct (cfind (k_cn s) id) as [nd|] eqn:E; [|congruence].
      eapply cfind_Some_keys; eauto.
    + intros Hj. apply in_map_iff in Hj. destruct Hj as (id & <- & Hid).
      destruct (cfind (k_cn s) id) as [nd|] eqn:E; [|apply cfind_None_keys in E; contradiction].
      destruct (A1 _ _ E) as [p Hp]. cbn [kproj Conc.cn] in *. congruence.
Qed.

(** one thread (no slot parked with another thread): `get_or_insert` of a node that is not in the
    table fails IFF all capacity slots hold table entries, dead ones included *)
Theorem goi_oom_single c s tid l lvl ch s' r rs : KInv c s ->
  nth_error (th (i_al (k_i s))) tid = Some l -> others_idle_p c (i_al (k_i s)) tid ->
  kstep c s (KGoi tid lvl ch) = Some (s', r, rs) -> find_shape (k_cn s) lvl ch = None ->
  (r = KROom <-> length (k_cn s) = N.to_nat (cap c)).
Proof.
  intros HK Hl Ho H Hfs. rewrite <- (nlive_table c s HK).
  destruct (goi_parts _ _ _ _ _ _ _ _ H) as (hts & tok1 & _ & _ & M). rewrite Hfs in M. destruct M as (x & -> & Hi & M).
  destruct HK as (HI & _). rewrite <- (iadd_oom_single c _ tid l _ _ _ _ _ _ HI Hl Ho Hi).
  destruct x as [[|fr] pa|lk| | | | | |]; try contradiction; destruct M as [-> _]; split; intros E; try discriminate; eauto.
  destruct E as [lk E]. discriminate.
Qed.

(** (d) the id of a new node is not in use: no table entry, no token of any thread, no child edge
    of a stored node, no hash-table edge and no edge value of the store names it *)
Theorem ids_unambiguous c s tid lvl ch s' id rs : KInv c s ->
  kstep c s (KGoi tid lvl ch) = Some (s', KRNew id, rs) ->
  cfind (k_cn s) id = None /\ hfind id (k_hd s) = None /\
  (forall x, In x (k_tok s) -> eref (snd (fst x)) <> RN id) /\
  (forall j nd e, cfind (k_cn s) j = Some nd -> In e (cch nd) -> eref e <> RN id) /\
  (forall h, afind h (i_hs (k_i s)) <> Some (Npos id)) /\
  (exists pa, rs = [IRAdded (Npos id) pa]) /\ cfind (k_cn s') id = Some (mkC lvl ch 1%N).
Proof.
  intros HK H. destruct (goi_parts _ _ _ _ _ _ _ _ H) as (hts & tok1 & _ & _ & M).
  destruct (find_shape (k_cn s) lvl ch); [discriminate M|]. destruct M as (x & -> & Hi & M).
  destruct x as [[|fr] pa|lk| | | | | |]; try contradiction; try (destruct M; discriminate).
  destruct M as (E & Ecn). inversion E; subst fr. destruct HK as (HI & HC & HL).
  assert (Hfree : nget (i_nodes (k_i s)) (Npos id) = None).
  { cbn [istep] in Hi. destruct (_ && _ && _ && _ && _); [|discriminate].
    destruct (Alloc.step c good (i_al (k_i s)) (AAlloc tid)) as [[al' [| |[fr|] pa'| | |]]|] eqn:Hal; try discriminate.
    - inversion Hi; subst. apply (alloc_fresh _ _ _ _ _ _ HI Hal).
    - destruct (release_all _ hts) as [[? ?]|]; discriminate. }
  pose proof HI as (_ & _ & HR & _).
  assert (Hnoh : forall h, afind h (i_hs (k_i s)) <> Some (Npos id)).
  { intros h Hh. apply (AInv_live N N.eqb N.eqb_eq _ _ _ HR Hh). exact Hfree. }
  assert (Hcf : cfind (k_cn s) id = None).
  { destruct (cfind (k_cn s) id) as [nd|] eqn:Ec; [|reflexivity]. destruct (proj1 (kl_agree _ _ _ _ _ _ HL) _ _ Ec). congruence. }
  split; [exact Hcf|]. split; [|split; [|split; [|split; [exact Hnoh|split]]]].
  - destruct (hfind id (k_hd s)) eqn:Eh; [|reflexivity]. exfalso. apply (proj2 (kl_dom _ _ _ _ _ _ HL id)); congruence.
  - intros x Hx Ex. destruct (kl_tok _ _ _ _ _ _ HL x Hx) as (j & Ej & Hf & _). rewrite Ex in Ej. inversion Ej; subst j. apply (Hnoh _ Hf).
  - intros j nd e Hj He Ee. destruct (child_live k terms nl _ j nd e id HC Hj He Ee) as (ndc & Hc & _). cbn [kproj Conc.cn] in Hc. congruence.
  - eauto.
  - rewrite Ecn. cbn [cfind]. rewrite Pos.eqb_refl. reflexivity.
Qed.

(** ** a whole collection keeps the invariant; the retry after it *)
Lemma kgc_try_inv c t s id : KInv c s -> KInv c (kgc_try k terms nl c t s id).
Proof.
  intros HK. unfold kgc_try. destruct (kstep c s (KGc t id)) as [[[s' r] rs]|] eqn:E; [|exact HK].
  apply (kstep_spec k terms nl c s _ s' r rs HK E).
Qed.

Lemma kgc_ids_inv c t ids : forall s, KInv c s -> KInv c (fold_left (kgc_try k terms nl c t) ids s).
Proof. induction ids as [|id r IH]; intros s HK; cbn [fold_left]; [exact HK | apply IH, kgc_try_inv, HK]. Qed.

Theorem kcollect_inv c t s : KInv c s -> KInv c (kcollect k terms nl c t s).
Proof.
  unfold kcollect. generalize (seq 0 nl). intros ls. revert s. induction ls as [|l r IH]; intros s HK; cbn [fold_left]; [exact HK|].
  apply IH. unfold kgc_level. apply kgc_ids_inv. exact HK.
Qed.

(** PARTIAL (see notes/STORECONC.md): after a whole collection by thread [t] the manager is intact and
    a retry (one thread holds slots) fails iff the table still fills the store.  Not proved in
    general: [kproj (kcollect c t s) = collect (kproj s)] (shown on the example [kx_collect]), which
    with C05_sm_collect_count would turn the right-hand side into "no node was unreachable". *)
Theorem retry_after_gc_partial c t s s1 : KInv c s -> s1 = kcollect k terms nl c t s ->
  KInv c s1 /\
  forall tid l lvl ch s' r rs,
    nth_error (th (i_al (k_i s1))) tid = Some l -> others_idle_p c (i_al (k_i s1)) tid ->
    kstep c s1 (KGoi tid lvl ch) = Some (s', r, rs) -> find_shape (k_cn s1) lvl ch = None ->
    (r = KROom <-> length (k_cn s1) = N.to_nat (cap c)).
Proof.
  intros HK ->. pose proof (kcollect_inv c t s HK) as HK1. split; [exact HK1|].
  intros tid l lvl ch s' r rs Hl Ho H Hfs. eapply goi_oom_single; eauto.
Qed.

End Thms.
