(** * GcThread: the background-collector protocol of the index-based manager (C05, C07)

    Executable interleaving model (no proofs here) of
    /repo/crates/oxidd-manager-index/src/manager.rs:

      GCSignal, Store::gc_signal            l.115-133   mutex + condition variable; the value is
                                                        `RunGc` from `new_manager` on and is only
                                                        ever changed to `Quit`
      GCState, gc_state, gc_lwm, gc_hwm     l.150-199
      Store::get_slot_from_shared           l.639-656   `node_count += delta`, trigger rule, `notify_one`
                                                        (the notification is sent WITHOUT taking the
                                                        gc_signal mutex and without storing anything
                                                        in the signal)
      free_slot / return_slot /
      return_preallocated                   l.780-810, 937-941   the other critical sections of
                                                        `Store::state` that change `node_count`
                                                        (no access to `gc_state`)
      Manager::gc                           l.1341-1397 `gc_ongoing.try_lock()` / sweep / `unlock()`
      Drop for ManagerRef                   l.2186-2194 `strong_count == 2` -> `Quit`, `notify_one`;
                                                        there is NO join, the thread is detached
      with_manager_shared / _exclusive      l.2339-2357 the `RwLock<Manager>`
      new_manager                           l.2396-2412 `gc_lwm`, `gc_hwm`, initial `gc_state`
      the collector thread                  l.2455-2503 `loop { lock; wait; if Quit break; drop(lock);
                                                        with_manager_shared(gc); state.lock();
                                                        flush; reset rule }`

    One action = one atomic step of one thread (a critical section of `Store::state`, one
    operation on a lock / the condition variable, or a thread-local step).  A schedule is ANY
    list of actions.

    Abstractions (all over-approximations of the code's behaviours unless stated):
    - `node_count` is an integer changed by [AAlloc t d] (`get_slot_from_shared`, `delta` = d:
      the thread's pending delta + 1, or - 1 + 1 on OOM) and [ACount d] (every other critical
      section that changes it; any thread, any amount); the sweep's effect on the count is a
      sequence of [ACount] steps / the [d] of [CEpilogue d] (the collector's own pending delta,
      flushed when its local list is non-empty, l.2480-2485).  How these numbers relate to the
      slots is Mgr/Alloc.v; the two rules on `gc_state` used here are the ones of that model
      (GcThreadProofs.trigger_rule_alloc / reset_rule_alloc), which the ALLOC correspondence run
      compares with the real `gc_state` at both program points.
    - parking_lot's `Condvar::notify_one` wakes a thread only if one is waiting at that moment
      (the code relies on "no spurious wakeups", l.2472); [notify] moves the collector from
      [CWaiting] to [CWoken] and does nothing otherwise.
    - `lock(); wait(&mut lock)` (l.2465-2466) is one step [CWait] (the mutex is held for that
      span only; nobody else takes it except the `Quit` store, which commutes with it);
      re-acquiring the mutex after the wake-up, the test and `drop(lock)` are one step [CCheck];
      `*gc_signal.0.lock() = Quit; notify_one()` is one step (part of [ADropBegin]), placed at the
      moment of the `notify_one` (the store commutes with every collector step but the test
      [CCheck], which only a notified collector executes; if that test comes between store and
      notification, place the step at the store: the notification then finds nobody waiting).
      So "when the quit is sent" in the theorems means: when its `notify_one` executes.
    - the RwLock is readers / writer without fairness (an enabled [AEnterS] may block in
      parking_lot when a writer waits: fewer behaviours there).
    - handles: `ManagerRef`s and `Function`s (a `Function` owns a `ManagerRef`, l.2590-2605) are
      counted in [g_refs]; `Arc::strong_count` = [g_refs] + 1 (the collector's `gc_mref`).  The
      test `strong_count == 2` runs in `Drop::drop` BEFORE the field (the Arc) is released: two
      steps [ADropBegin] / [ADropEnd].  Application threads act only while a handle exists that is
      not being dropped ([usable]).
    Not modelled: what a sweep removes, the pool workers, panics (`AbortOnDrop`), memory order. *)

From Coq Require Import List NArith ZArith Bool Arith.
From OxiVerif Require Import Mgr.Alloc.
Import ListNotations.

(** `GCSignal` *)
Inductive gsig := SRun | SQuit.

(** program counter of the collector thread (l.2457-2503) *)
Inductive cpc :=
| CIdle      (* top of the loop, before `lock(); wait()` (also: thread spawned, not yet there) *)
| CWaiting   (* inside `Condvar::wait`, in the wait queue, mutex released *)
| CWoken     (* notified; has to re-acquire the mutex and test the signal *)
| CRun       (* `drop(lock)` done, before `with_manager_shared` *)
| CShared    (* holds `manager.shared()`, before `gc_ongoing.try_lock()` *)
| CSweep     (* `try_lock` succeeded: inside the loop over the levels of `Manager::gc` *)
| CSwept     (* `Manager::gc` returned (unlocked, or `try_lock` failed), still holds the read lock *)
| CEpi       (* read lock released, before `store.state.lock()` *)
| CExit.     (* `break`: thread finished *)

(** what an application thread is doing with this manager *)
Inductive apc :=
| POut       (* outside `with_manager_*` *)
| PShared    (* inside `with_manager_shared` *)
| PExcl      (* inside `with_manager_exclusive` *)
| PSweepS    (* inside `Manager::gc` after a successful `try_lock`, under the read lock *)
| PSweepX.   (* the same under the write lock (e.g. `reorder`, harness `GC`) *)

Record gst := mkG {
  g_cnt : Z;            (* `SharedStoreState::node_count` *)
  g_gc : gcst;          (* `SharedStoreState::gc_state` *)
  g_sig : gsig;         (* value in `Store::gc_signal.0` *)
  g_ongoing : bool;     (* `Manager::gc_ongoing` *)
  g_gccount : N;        (* `Manager::gc_count` *)
  g_bgcount : N;        (* ghost: how many of those were started by the collector thread *)
  g_readers : nat;      (* read locks held on `Store::manager` *)
  g_writer : bool;      (* write lock held *)
  g_cpc : cpc;
  g_app : list apc;     (* application threads *)
  g_refs : nat;         (* ManagerRef / Function handles outside the collector thread *)
  g_dropping : nat      (* of those: `Drop::drop` has run its test, the Arc is not yet released *)
}.

(** `new_manager`: count 0, `RunGc`, nothing locked, the collector thread spawned ([CIdle]),
    one handle returned; [n] application threads *)
Definition init (c : cfg) (n : nat) : gst :=
  mkG 0%Z (if (lwm c <? hwm c)%Z then GInit else GDisabled) SRun false 0%N 0%N 0 false CIdle
      (repeat POut n) 1 0.

(** the trigger rule, l.653-654: `if gc_state == Init && node_count >= gc_hwm { Triggered }` *)
Definition trigger_rule (c : cfg) (g : gcst) (cnt : Z) : gcst :=
  if gcst_eqb g GInit && (hwm c <=? cnt)%Z then GTriggered else g.

(** the reset rule, l.2487-2490: `if node_count < gc_lwm && gc_state != Disabled { Init }` *)
Definition reset_rule (c : cfg) (g : gcst) (cnt : Z) : gcst :=
  if (cnt <? lwm c)%Z && negb (gcst_eqb g GDisabled) then GInit else g.

Definition is_waiting (p : cpc) : bool := match p with CWaiting => true | _ => false end.

(** `Condvar::notify_one` *)
Definition notify (p : cpc) : cpc := if is_waiting p then CWoken else p.

Definition usable (s : gst) : nat := g_refs s - g_dropping s.

Definition set_app (s : gst) (t : nat) (p : apc) : gst :=
  mkG (g_cnt s) (g_gc s) (g_sig s) (g_ongoing s) (g_gccount s) (g_bgcount s) (g_readers s)
      (g_writer s) (g_cpc s) (upd (g_app s) t p) (g_refs s) (g_dropping s).

Inductive act :=
| ASpawn                        (* a new application thread *)
| AClone                        (* `ManagerRef::clone` / a new `Function` *)
| ADropBegin                    (* `Drop for ManagerRef`: the test, `Quit` + `notify_one` if it holds *)
| ADropEnd                      (* the Arc's count is decremented *)
| AEnterS (t : nat)             (* `manager.shared()` *)
| AEnterX (t : nat)             (* `manager.exclusive()` *)
| ALeave (t : nat)              (* the guard is dropped *)
| AAlloc (t : nat) (d : Z)      (* `get_slot_from_shared(delta = d)` *)
| ACount (d : Z)                (* another critical section changing `node_count` *)
| AGcTry (t : nat)              (* `Manager::gc`: `try_lock` (a failure returns 0 at once) *)
| AGcEnd (t : nat)              (* `gc_ongoing.unlock()` *)
| CWait                         (* collector: `lock(); wait()` *)
| CCheck                        (* collector: woken, `if *lock == Quit { break }`, `drop(lock)` *)
| CEnter                        (* collector: `manager.shared()` *)
| CTry                          (* collector: `try_lock` *)
| CEnd                          (* collector: `unlock` *)
| CLeave                        (* collector: read lock released *)
| CEpilogue (d : Z).            (* collector: `state.lock()`, flush (delta d), reset rule *)

Definition in_manager (p : apc) : bool := match p with POut => false | _ => true end.

(** one step; [None] = not enabled *)
Definition step (c : cfg) (s : gst) (a : act) : option gst :=
  let '(mkG cnt gc sg og gcn bgn rd wr pc app refs dr) := s in
  match a with
  | ASpawn => Some (mkG cnt gc sg og gcn bgn rd wr pc (app ++ [POut]) refs dr)
  | AClone =>
    if 0 <? usable s then Some (mkG cnt gc sg og gcn bgn rd wr pc app (S refs) dr) else None
  | ADropBegin =>
    if 0 <? usable s then
      (* `Arc::strong_count(&self.0) == 2`: this handle and the collector's *)
      if refs =? 1 then Some (mkG cnt gc SQuit og gcn bgn rd wr (notify pc) app refs (S dr))
      else Some (mkG cnt gc sg og gcn bgn rd wr pc app refs (S dr))
    else None
  | ADropEnd =>
    match dr, refs with
    | S dr', S refs' => Some (mkG cnt gc sg og gcn bgn rd wr pc app refs' dr')
    | _, _ => None
    end
  | AEnterS t =>
    match nth_error app t with
    | Some POut =>
      if (0 <? usable s) && negb wr
      then Some (mkG cnt gc sg og gcn bgn (S rd) wr pc (upd app t PShared) refs dr) else None
    | _ => None
    end
  | AEnterX t =>
    match nth_error app t with
    | Some POut =>
      if (0 <? usable s) && negb wr && (rd =? 0)
      then Some (mkG cnt gc sg og gcn bgn rd true pc (upd app t PExcl) refs dr) else None
    | _ => None
    end
  | ALeave t =>
    match nth_error app t with
    | Some PShared => Some (mkG cnt gc sg og gcn bgn (pred rd) wr pc (upd app t POut) refs dr)
    | Some PExcl => Some (mkG cnt gc sg og gcn bgn rd false pc (upd app t POut) refs dr)
    | _ => None
    end
  | AAlloc t d =>
    match nth_error app t with
    | Some p =>
      if in_manager p && (0 <? usable s) then
        let cnt' := (cnt + d)%Z in
        let gc' := trigger_rule c gc cnt' in
        (* `notify_one` exactly when the state changes to `Triggered` *)
        let pc' := if gcst_eqb gc GInit && (hwm c <=? cnt')%Z then notify pc else pc in
        Some (mkG cnt' gc' sg og gcn bgn rd wr pc' app refs dr)
      else None
    | None => None
    end
  | ACount d => Some (mkG (cnt + d)%Z gc sg og gcn bgn rd wr pc app refs dr)
  | AGcTry t =>
    match nth_error app t with
    | Some PShared =>
      if og then Some s
      else Some (mkG cnt gc sg true (gcn + 1)%N bgn rd wr pc (upd app t PSweepS) refs dr)
    | Some PExcl =>
      if og then Some s
      else Some (mkG cnt gc sg true (gcn + 1)%N bgn rd wr pc (upd app t PSweepX) refs dr)
    | _ => None
    end
  | AGcEnd t =>
    match nth_error app t with
    | Some PSweepS => Some (mkG cnt gc sg false gcn bgn rd wr pc (upd app t PShared) refs dr)
    | Some PSweepX => Some (mkG cnt gc sg false gcn bgn rd wr pc (upd app t PExcl) refs dr)
    | _ => None
    end
  | CWait =>
    match pc with CIdle => Some (mkG cnt gc sg og gcn bgn rd wr CWaiting app refs dr) | _ => None end
  | CCheck =>
    match pc with
    | CWoken =>
      Some (mkG cnt gc sg og gcn bgn rd wr (match sg with SQuit => CExit | SRun => CRun end) app refs dr)
    | _ => None
    end
  | CEnter =>
    match pc with
    | CRun => if negb wr then Some (mkG cnt gc sg og gcn bgn (S rd) wr CShared app refs dr) else None
    | _ => None
    end
  | CTry =>
    match pc with
    | CShared =>
      if og then Some (mkG cnt gc sg og gcn bgn rd wr CSwept app refs dr)
      else Some (mkG cnt gc sg true (gcn + 1)%N (bgn + 1)%N rd wr CSweep app refs dr)
    | _ => None
    end
  | CEnd =>
    match pc with CSweep => Some (mkG cnt gc sg false gcn bgn rd wr CSwept app refs dr) | _ => None end
  | CLeave =>
    match pc with CSwept => Some (mkG cnt gc sg og gcn bgn (pred rd) wr CEpi app refs dr) | _ => None end
  | CEpilogue d =>
    match pc with
    | CEpi =>
      let cnt' := (cnt + d)%Z in
      Some (mkG cnt' (reset_rule c gc cnt') sg og gcn bgn rd wr CIdle app refs dr)
    | _ => None
    end
  end.

Fixpoint run (c : cfg) (s : gst) (sched : list act) : option gst :=
  match sched with
  | [] => Some s
  | a :: r => match step c s a with Some s' => run c s' r | None => None end
  end.

(** is the action one of the collector thread? *)
Definition is_coll (a : act) : bool :=
  match a with CWait | CCheck | CEnter | CTry | CEnd | CLeave | CEpilogue _ => true | _ => false end.

(** ** observers used by the theorems *)

Definition c_sweeping (p : cpc) : bool := match p with CSweep => true | _ => false end.
Definition c_holds (p : cpc) : bool :=
  match p with CShared | CSweep | CSwept => true | _ => false end.
Definition a_sweeping (p : apc) : bool := match p with PSweepS | PSweepX => true | _ => false end.
Definition a_holds_s (p : apc) : bool := match p with PShared | PSweepS => true | _ => false end.
Definition a_holds_x (p : apc) : bool := match p with PExcl | PSweepX => true | _ => false end.

Fixpoint cntp (p : apc -> bool) (l : list apc) : nat :=
  match l with [] => 0 | x :: r => (if p x then 1 else 0) + cntp p r end.

Definition b2n (b : bool) : nat := if b then 1 else 0.

(** number of sweeps in progress (all threads) *)
Definition sweeps (s : gst) : nat := b2n (c_sweeping (g_cpc s)) + cntp a_sweeping (g_app s).

(** the collector is between a wake-up that will lead to a collection and its epilogue *)
Definition active (s : gst) : bool :=
  match g_cpc s with
  | CWoken => match g_sig s with SRun => true | SQuit => false end
  | CRun | CShared | CSweep | CSwept | CEpi => true
  | CIdle | CWaiting | CExit => false
  end.

Definition is_triggered (g : gcst) : bool := gcst_eqb g GTriggered.

(** `Triggered` and the collector is not on its way to an epilogue: nobody will ever reset the
    state (GcThreadProofs.stuck_forever) *)
Definition stuck (s : gst) : bool := is_triggered (g_gc s) && negb (active s).

(** the `Quit` signal is stored, no handle is left and the collector did not see it *)
Definition quit_missed (s : gst) : bool :=
  match g_sig s with
  | SQuit => (usable s =? 0) &&
             match g_cpc s with CWoken | CExit => false | _ => true end
  | SRun => false
  end.

(** the `Quit` signal is stored and the collector has seen it or will at its next step *)
Definition quit_seen (s : gst) : bool :=
  match g_sig s with
  | SQuit => match g_cpc s with CWoken | CExit => true | _ => false end
  | SRun => false
  end.
