(** * GcThreadExamples: computed schedules of the collector protocol (model Mgr/GcThread.v)

    Non-vacuity of the invariant's cases and the witnesses of the observations in
    notes/GCTHREAD.md.  The configuration is the one of a capacity-200 manager
    (`gc_lwm = 200 / 100 * 90 = 180`, `gc_hwm = 190`, manager.rs l.2396-2397). *)

From Coq Require Import List NArith ZArith Bool Arith Lia.
From OxiVerif Require Import Mgr.Alloc Mgr.GcThread Mgr.GcThreadProofs Mgr.GcThreadThms.
Import ListNotations.

Definition gx_cfg : cfg := mkCfg 200 65536 2 180 190.

(** ** every action once; two threads compete for `gc_ongoing`, the collector's `try_lock` fails *)

Definition gx_sched_all : list act :=
  [ ASpawn; AClone; CWait; AEnterS 0; AEnterS 1; AGcTry 0; AGcTry 1;
    AAlloc 1 190%Z;            (* reaches gc_hwm: Triggered, the waiting collector is woken *)
    CCheck; CEnter; CTry;      (* thread 0 still sweeps: the collector's try_lock fails *)
    ACount (-50)%Z; AGcEnd 0; CLeave; CEpilogue 0%Z;   (* 140 < 180: back to Init *)
    ALeave 0; ALeave 1; AEnterX 1; AGcTry 1; AGcEnd 1; ALeave 1;
    CWait; AEnterS 0; AAlloc 0 60%Z;                  (* 200 >= 190: triggered again *)
    CCheck; CEnter; CTry; CEnd; CLeave; CEpilogue (-100)%Z; CWait;
    ALeave 0; ADropBegin; ADropEnd; ADropBegin; ADropEnd; CCheck ].

Definition gx_all_mid : gst :=
  mkG 190%Z GTriggered SRun true 1 0 3 false CShared [PSweepS; PShared] 2 0.

Definition gx_all_end : gst :=
  mkG 100%Z GInit SQuit false 3 1 0 false CExit [POut; POut] 0 0.

Theorem gx_all :
  run gx_cfg (init gx_cfg 1) (firstn 10 gx_sched_all) = Some gx_all_mid /\
  run gx_cfg (init gx_cfg 1) gx_sched_all = Some gx_all_end /\
  reachable gx_cfg gx_all_mid /\ reachable gx_cfg gx_all_end /\
  sweeps gx_all_mid = 1 /\ quit_seen gx_all_end = true.
Proof.
  assert (A : run gx_cfg (init gx_cfg 1) (firstn 10 gx_sched_all) = Some gx_all_mid) by (vm_compute; reflexivity).
  assert (B : run gx_cfg (init gx_cfg 1) gx_sched_all = Some gx_all_end) by (vm_compute; reflexivity).
  repeat split; auto; [exists 1, (firstn 10 gx_sched_all); exact A | exists 1, gx_sched_all; exact B].
Qed.

(** ** (d) a sweep that does not get below the low-water mark switches automatic collection off

    the collector is woken at 190 nodes, its sweep frees 5 (185 >= 180): the state stays
    `Triggered`; then everything is freed (explicit `gc` included: count 0) and the store is
    filled again to 195 >= gc_hwm: no trigger, no notification, in no continuation *)

Definition gx_sched_off : list act :=
  [ CWait; AEnterS 0; AAlloc 0 190%Z; CCheck; CEnter; CTry; CEnd; CLeave; CEpilogue (-5)%Z; CWait;
    AGcTry 0; ACount (-185)%Z; AGcEnd 0;
    AAlloc 0 195%Z ].

Definition gx_off_end : gst :=
  mkG 195%Z GTriggered SRun false 2 1 1 false CWaiting [PShared] 1 0.

(** the same with a sweep that frees 20 (170 < 180): the second fill triggers the collector again *)
Definition gx_sched_on : list act :=
  [ CWait; AEnterS 0; AAlloc 0 190%Z; CCheck; CEnter; CTry; CEnd; CLeave; CEpilogue (-20)%Z; CWait;
    AGcTry 0; ACount (-170)%Z; AGcEnd 0;
    AAlloc 0 195%Z ].

Definition gx_on_end : gst :=
  mkG 195%Z GTriggered SRun false 2 1 1 false CWoken [PShared] 1 0.

Theorem gx_auto_gc_off :
  run gx_cfg (init gx_cfg 1) gx_sched_off = Some gx_off_end /\
  reachable gx_cfg gx_off_end /\
  (* the count was 0 < gc_lwm in between and is 195 >= gc_hwm now *)
  (exists s, run gx_cfg (init gx_cfg 1) (firstn 13 gx_sched_off) = Some s /\ g_cnt s = 0%Z /\
             g_gc s = GTriggered) /\
  stuck gx_off_end = true /\ g_cpc gx_off_end = CWaiting /\ g_bgcount gx_off_end = 1%N /\
  (* for ever: whatever any thread does, `gc_state` stays `Triggered` and the collector thread
     never starts another collection *)
  (forall sched s', run gx_cfg gx_off_end sched = Some s' ->
     g_gc s' = GTriggered /\ g_bgcount s' = 1%N) /\
  (* the control run: the collector is woken a second time *)
  run gx_cfg (init gx_cfg 1) gx_sched_on = Some gx_on_end /\ active gx_on_end = true.
Proof.
  assert (A : run gx_cfg (init gx_cfg 1) gx_sched_off = Some gx_off_end) by (vm_compute; reflexivity).
  split; [exact A|]. split; [exists 1, gx_sched_off; exact A|].
  split; [eexists; split; [vm_compute; reflexivity|split; reflexivity]|].
  repeat split; try reflexivity;
    destruct (stuck_forever gx_cfg sched gx_off_end s' eq_refl H) as (_ & B & C); assumption.
Qed.

(** ** (c/d) lost wake-up: the count reaches the high-water mark while the collector is not
    inside `wait` (here: thread spawned, `wait` not yet reached; the same between the epilogue and
    the next `wait`): `notify_one` wakes nobody, the state is `Triggered`: automatic collection
    never runs at all *)

Definition gx_sched_lost : list act := [ AEnterS 0; AAlloc 0 190%Z; CWait ].
Definition gx_lost_end : gst := mkG 190%Z GTriggered SRun false 0 0 1 false CWaiting [PShared] 1 0.

(** after a complete successful collection (back to `Init`), before the collector waits again *)
Definition gx_sched_lost2 : list act :=
  [ CWait; AEnterS 0; AAlloc 0 190%Z; CCheck; CEnter; CTry; CEnd; CLeave; CEpilogue (-100)%Z;
    AAlloc 0 100%Z; CWait ].
Definition gx_lost2_end : gst := mkG 190%Z GTriggered SRun false 1 1 1 false CWaiting [PShared] 1 0.

Theorem gx_lost_wakeup :
  run gx_cfg (init gx_cfg 1) gx_sched_lost = Some gx_lost_end /\ stuck gx_lost_end = true /\
  (forall sched s', run gx_cfg gx_lost_end sched = Some s' -> g_gc s' = GTriggered /\ g_bgcount s' = 0%N) /\
  run gx_cfg (init gx_cfg 1) gx_sched_lost2 = Some gx_lost2_end /\ stuck gx_lost2_end = true /\
  (forall sched s', run gx_cfg gx_lost2_end sched = Some s' -> g_gc s' = GTriggered /\ g_bgcount s' = 1%N).
Proof.
  split; [vm_compute; reflexivity|]. split; [reflexivity|]. split.
  - intros sched s' H. destruct (stuck_forever gx_cfg sched gx_lost_end s' eq_refl H) as (_ & B & C); auto.
  - split; [vm_compute; reflexivity|]. split; [reflexivity|].
    intros sched s' H. destruct (stuck_forever gx_cfg sched gx_lost2_end s' eq_refl H) as (_ & B & C); auto.
Qed.

(** ** (e) the missed quit signal *)

(** the only handle is dropped before the collector thread reaches `wait` *)
Definition gx_sched_quit_early : list act := [ ADropBegin; ADropEnd; CWait ].
Definition gx_quit_early_end : gst := mkG 0%Z GInit SQuit false 0 0 0 false CWaiting [] 0 0.

(** ... or while the collector is busy with a collection *)
Definition gx_sched_quit_busy : list act :=
  [ CWait; AEnterS 0; AAlloc 0 190%Z; CCheck; ALeave 0; ADropBegin; ADropEnd;
    CEnter; CTry; CEnd; CLeave; CEpilogue (-100)%Z; CWait ].
Definition gx_quit_busy_end : gst := mkG 90%Z GInit SQuit false 1 1 0 false CWaiting [POut] 0 0.

(** the control run: the collector is inside `wait` when the handle is dropped *)
Definition gx_sched_quit_ok : list act := [ CWait; ADropBegin; ADropEnd; CCheck ].
Definition gx_quit_ok_end : gst := mkG 0%Z GInit SQuit false 0 0 0 false CExit [] 0 0.

Theorem gx_missed_quit :
  run gx_cfg (init gx_cfg 0) gx_sched_quit_early = Some gx_quit_early_end /\
  quit_missed gx_quit_early_end = true /\
  (forall sched s', run gx_cfg gx_quit_early_end sched = Some s' ->
     g_cpc s' = CWaiting /\ g_sig s' = SQuit /\ usable s' = 0) /\
  run gx_cfg (init gx_cfg 1) gx_sched_quit_busy = Some gx_quit_busy_end /\
  quit_missed gx_quit_busy_end = true /\
  (forall sched s', run gx_cfg gx_quit_busy_end sched = Some s' ->
     g_cpc s' = CWaiting /\ g_sig s' = SQuit /\ usable s' = 0) /\
  run gx_cfg (init gx_cfg 0) gx_sched_quit_ok = Some gx_quit_ok_end /\ g_cpc gx_quit_ok_end = CExit.
Proof.
  split; [vm_compute; reflexivity|]. split; [reflexivity|]. split.
  - intros sched s' H.
    destruct (asleep_forever gx_cfg sched gx_quit_early_end s' eq_refl eq_refl H) as (A & B & C); auto.
  - split; [vm_compute; reflexivity|]. split; [reflexivity|]. split.
    + intros sched s' H.
      destruct (asleep_forever gx_cfg sched gx_quit_busy_end s' eq_refl eq_refl H) as (A & B & C); auto.
    + split; [vm_compute; reflexivity|reflexivity].
Qed.

(** ** (e') the test `strong_count == 2` runs before the count is decremented: two handles dropped
    concurrently both read 3, nobody stores `Quit`, the collector sleeps for ever although it is
    inside `wait` the whole time *)

Definition gx_sched_drop_race : list act := [ CWait; AClone; ADropBegin; ADropBegin; ADropEnd; ADropEnd ].
Definition gx_drop_race_end : gst := mkG 0%Z GInit SRun false 0 0 0 false CWaiting [] 0 0.

Theorem gx_drop_race :
  run gx_cfg (init gx_cfg 0) gx_sched_drop_race = Some gx_drop_race_end /\
  (forall sched s', run gx_cfg gx_drop_race_end sched = Some s' ->
     g_cpc s' = CWaiting /\ g_sig s' = SRun /\ usable s' = 0).
Proof.
  split; [vm_compute; reflexivity|]. intros sched s' H.
  destruct (asleep_forever gx_cfg sched gx_drop_race_end s' eq_refl eq_refl H) as (A & B & C); auto.
Qed.
