(** * GcThreadProofs: invariant and theorems of Mgr/GcThread.v (see notes/GCTHREAD.md) *)

From Coq Require Import List NArith ZArith Bool Arith Lia.
From OxiVerif Require Import Mgr.Alloc Mgr.GcThread.
Import ListNotations.

(** ** the two rules are the ones of the allocator model (tied to the code by the ALLOC run) *)

Lemma trigger_rule_alloc : forall c v s t l d s' o,
  get_slot_from_shared c v s t l d = Some (s', o) ->
  s_gc (sh s') = trigger_rule c (s_gc (sh s)) (s_count (sh s')).
Proof.
  intros c v s t l d s' o H. unfold get_slot_from_shared in H. unfold trigger_rule.
  repeat match type of H with
  | Some _ = Some _ => inversion H; subst; clear H; simpl; reflexivity
  | None = Some _ => discriminate H
  | context [match ?x with _ => _ end] => destruct x eqn:?
  end.
Qed.

Lemma reset_rule_alloc : forall c s t l,
  s_gc (sh (fst (gc_flush c s t l))) =
  reset_rule c (s_gc (sh s)) (s_count (sh (fst (gc_flush c s t l)))).
Proof.
  intros c s t l. unfold gc_flush, reset_rule. destruct (negb (l_next l =? 0)%N); reflexivity.
Qed.

(** ** counting *)

Lemma cntp_upd : forall p l t x y, nth_error l t = Some x ->
  cntp p (upd l t y) + b2n (p x) = cntp p l + b2n (p y).
Proof.
  intros p l. induction l as [|z l IH]; intros t x y H; destruct t; simpl in *; try discriminate.
  - inversion H; subst. unfold b2n. destruct (p x), (p y); lia.
  - specialize (IH _ _ y H). lia.
Qed.

Lemma cntp_upd3 : forall l t x, nth_error l t = Some x -> forall y,
  cntp a_sweeping (upd l t y) + b2n (a_sweeping x) = cntp a_sweeping l + b2n (a_sweeping y) /\
  cntp a_holds_s (upd l t y) + b2n (a_holds_s x) = cntp a_holds_s l + b2n (a_holds_s y) /\
  cntp a_holds_x (upd l t y) + b2n (a_holds_x x) = cntp a_holds_x l + b2n (a_holds_x y).
Proof. intros; repeat split; apply cntp_upd; assumption. Qed.

Lemma cntp_snoc : forall p l x, cntp p (l ++ [x]) = cntp p l + b2n (p x).
Proof. intros p l x. induction l; simpl; unfold b2n in *; [destruct (p x)|]; lia. Qed.

Lemma cntp_repeat_out : forall p n, p POut = false -> cntp p (repeat POut n) = 0.
Proof. intros p n H. induction n; simpl; [|rewrite H]; auto. Qed.

Lemma cntp_pos_nth : forall p l, 0 < cntp p l -> exists t x, nth_error l t = Some x /\ p x = true.
Proof.
  intros p l. induction l as [|z l IH]; simpl; intros H; [lia|].
  destruct (p z) eqn:E.
  - exists 0, z; auto.
  - destruct (IH ltac:(lia)) as (t & x & A & B). exists (S t), x; auto.
Qed.

Lemma nth_cntp_pos : forall p l t x, nth_error l t = Some x -> p x = true -> 0 < cntp p l.
Proof.
  intros p l. induction l as [|z l IH]; intros t x H E; destruct t; simpl in *; try discriminate.
  - inversion H; subst. rewrite E. lia.
  - specialize (IH _ _ H E). lia.
Qed.

(** two different threads with the predicate: the count is at least 2 *)
Lemma nth_cntp_two : forall p l t1 t2 x1 x2, t1 <> t2 ->
  nth_error l t1 = Some x1 -> nth_error l t2 = Some x2 -> p x1 = true -> p x2 = true -> 2 <= cntp p l.
Proof.
  intros p l. induction l as [|z l IH]; intros t1 t2 x1 x2 N H1 H2 E1 E2;
    destruct t1, t2; simpl in *; try discriminate; try congruence.
  - inversion H1; subst. rewrite E1. pose proof (nth_cntp_pos _ _ _ _ H2 E2). lia.
  - inversion H2; subst. rewrite E2. pose proof (nth_cntp_pos _ _ _ _ H1 E1). lia.
  - assert (t1 <> t2) by congruence. specialize (IH _ _ _ _ H H1 H2 E1 E2). lia.
Qed.

(** ** the invariant *)

Record Inv (c : cfg) (s : gst) : Prop := mkInv {
  i_sweep : sweeps s = b2n (g_ongoing s);
  i_read : b2n (c_holds (g_cpc s)) + cntp a_holds_s (g_app s) = g_readers s;
  i_write : cntp a_holds_x (g_app s) = b2n (g_writer s);
  i_rw : g_writer s = true -> g_readers s = 0;
  i_act : active s = true -> g_gc s = GTriggered;
  i_exit : g_cpc s = CExit -> g_sig s = SQuit;
  i_drop : g_dropping s <= g_refs s;
  i_dis : g_gc s = GDisabled <-> ~ (lwm c < hwm c)%Z
}.

Definition reachable (c : cfg) (s : gst) : Prop :=
  exists n sched, run c (init c n) sched = Some s.

Lemma init_inv : forall c n, Inv c (init c n).
Proof.
  intros c n. unfold init. split; unfold sweeps, active; simpl;
    rewrite ?cntp_repeat_out by reflexivity; auto; try discriminate.
  destruct (lwm c <? hwm c)%Z eqn:E; [apply Z.ltb_lt in E|apply Z.ltb_ge in E];
    split; intros; try discriminate; try lia; auto.
Qed.

Ltac use_upd :=
  match goal with
  | H : nth_error ?l ?t = Some ?x |- _ =>
    match goal with
    | |- context [upd l t ?y] =>
      let U1 := fresh "U" in let U2 := fresh "U" in let U3 := fresh "U" in
      destruct (cntp_upd3 l t x H y) as (U1 & U2 & U3); simpl in U1, U2, U3
    end
  | _ => idtac
  end.

Ltac inv_some H := first [discriminate H | injection H as <-].

Ltac fin :=
  unfold sweeps, active in *; simpl in *; use_upd;
  split; unfold sweeps, active; simpl;
  rewrite ?cntp_snoc; simpl;
  try solve [ lia | congruence | tauto | intros; lia | intros; congruence | intros; discriminate
            | intuition congruence | intuition lia ].

Lemma step_inv : forall c s a s', Inv c s -> step c s a = Some s' -> Inv c s'.
Proof.
  intros c s a s' [I1 I2 I3 I4 I5 I6 I7 I8] H.
  destruct s as [cnt gc sg og gcn bgn rd wr pc app refs dr].
  simpl in *.
  destruct a; simpl in H; unfold usable in H; simpl in H.
  - (* ASpawn *) inv_some H. fin.
  - (* AClone *) destruct (0 <? refs - dr) eqn:E; inv_some H. apply Nat.ltb_lt in E. fin.
  - (* ADropBegin *)
    destruct (0 <? refs - dr) eqn:E; [apply Nat.ltb_lt in E|discriminate].
    destruct (refs =? 1) eqn:E1; inv_some H.
    + destruct pc; fin.
    + fin.
  - (* ADropEnd *) destruct dr, refs; inv_some H. fin.
  - (* AEnterS *)
    destruct (nth_error app t) as [[]|] eqn:N; try discriminate.
    destruct wr; simpl in H; rewrite ?andb_false_r, ?andb_true_r in H; try discriminate.
    destruct (0 <? refs - dr); inv_some H. fin.
  - (* AEnterX *)
    destruct (nth_error app t) as [[]|] eqn:N; try discriminate.
    destruct wr; simpl in H; rewrite ?andb_false_r, ?andb_true_r in H; try discriminate.
    destruct (0 <? refs - dr); simpl in H; [|discriminate].
    destruct (rd =? 0) eqn:E; inv_some H. apply Nat.eqb_eq in E. subst. fin.
  - (* ALeave *)
    destruct (nth_error app t) as [[]|] eqn:N; inv_some H.
    + fin; try (intros W; specialize (I4 W); lia).
    + destruct wr; fin.
  - (* AAlloc *)
    destruct (nth_error app t) as [p|] eqn:N; try discriminate.
    destruct (in_manager p && (0 <? refs - dr)); inv_some H. unfold trigger_rule.
    destruct gc; simpl; destruct (hwm c <=? cnt + d)%Z; destruct pc, sg; fin.
  - (* ACount *) inv_some H. fin.
  - (* AGcTry *)
    destruct (nth_error app t) as [[]|] eqn:N; try discriminate; destruct og; inv_some H;
      try solve [split; assumption]; fin.
  - (* AGcEnd *)
    destruct (nth_error app t) as [[]|] eqn:N; inv_some H; destruct og; fin.
  - (* CWait *) destruct pc; inv_some H. fin.
  - (* CCheck *) destruct pc; inv_some H. destruct sg; fin.
  - (* CEnter *) destruct pc; try discriminate. destruct wr; inv_some H. fin.
  - (* CTry *) destruct pc; try discriminate. destruct og; inv_some H; fin.
  - (* CEnd *) destruct pc; inv_some H. destruct og; fin.
  - (* CLeave *) destruct pc; inv_some H. fin; try (intros W; specialize (I4 W); lia).
  - (* CEpilogue *)
    destruct pc; inv_some H. unfold reset_rule.
    destruct gc; simpl; destruct (cnt + d <? lwm c)%Z; fin.
Qed.

Lemma run_inv : forall c sched s s', Inv c s -> run c s sched = Some s' -> Inv c s'.
Proof.
  intros c sched. induction sched as [|a r IH]; simpl; intros s s' I H.
  - inversion H; subst; assumption.
  - destruct (step c s a) eqn:E; [|discriminate]. eapply IH; [eapply step_inv; eassumption|assumption].
Qed.

Theorem reachable_inv : forall c s, reachable c s -> Inv c s.
Proof. intros c s (n & sched & H). eapply run_inv; [apply init_inv|exact H]. Qed.

Lemma run_app : forall c a b s, run c s (a ++ b) =
  match run c s a with Some s' => run c s' b | None => None end.
Proof.
  intros c a. induction a as [|x a IH]; simpl; intros; auto. destruct (step c s x); auto.
Qed.

Lemma reachable_run : forall c s sched s', reachable c s -> run c s sched = Some s' -> reachable c s'.
Proof.
  intros c s sched s' (n & sc & H) R. exists n, (sc ++ sched). rewrite run_app, H. exact R.
Qed.
