(** * GcThreadThms: what holds of the collector protocol (model Mgr/GcThread.v) in every reachable
    state / along every schedule.  See notes/GCTHREAD.md. *)

From Coq Require Import List NArith ZArith Bool Arith Lia.
From OxiVerif Require Import Mgr.Alloc Mgr.GcThread Mgr.GcThreadProofs.
Import ListNotations.

Ltac step_cases H :=
  repeat match type of H with
  | Some _ = Some _ => injection H as <-
  | None = Some _ => discriminate H
  | context [match ?x with _ => _ end] => destruct x eqn:?
  end.

Ltac open_step s a H :=
  destruct s as [cnt gc sg og gcn bgn rd wr pc app refs dr];
  destruct a; simpl in H; unfold usable in H; simpl in H.

(** reachable = after any schedule of any threads from a new manager with any number of threads *)
Theorem reachable_def : forall c s,
  reachable c s <-> exists n sched, run c (init c n) sched = Some s.
Proof. intros; reflexivity. Qed.

(** ** (a) at most one sweep at a time *)

Theorem at_most_one_sweep : forall c s, reachable c s ->
  sweeps s <= 1 /\ (sweeps s = 1 <-> g_ongoing s = true).
Proof.
  intros c s R. destruct (reachable_inv _ _ R) as [I1 _ _ _ _ _ _ _]. rewrite I1.
  destruct (g_ongoing s); simpl; split; try lia; split; congruence.
Qed.

(** the collector sweeps: no application thread is inside a sweep *)
Theorem coll_sweep_excludes_app : forall c s t p, reachable c s -> g_cpc s = CSweep ->
  nth_error (g_app s) t = Some p -> a_sweeping p = false.
Proof.
  intros c s t p R C N. destruct (at_most_one_sweep _ _ R) as [L _]. unfold sweeps in L.
  rewrite C in L. simpl in L. destruct (a_sweeping p) eqn:E; auto.
  pose proof (nth_cntp_pos _ _ _ _ N E). lia.
Qed.

(** two application threads are never both inside a sweep *)
Theorem app_sweeps_exclusive : forall c s t1 t2 p1 p2, reachable c s -> t1 <> t2 ->
  nth_error (g_app s) t1 = Some p1 -> nth_error (g_app s) t2 = Some p2 ->
  a_sweeping p1 = true -> a_sweeping p2 = false.
Proof.
  intros c s t1 t2 p1 p2 R D N1 N2 E1. destruct (at_most_one_sweep _ _ R) as [L _].
  unfold sweeps in L. destruct (a_sweeping p2) eqn:E2; auto.
  pose proof (nth_cntp_two _ _ _ _ _ _ D N1 N2 E1 E2). lia.
Qed.

(** ** (b) what the sweeping thread holds *)

(** the collector: the try-lock, a read lock (so: no writer, in particular no reordering and no
    exclusive-lock `gc`), and the state is `Triggered` *)
Theorem coll_sweep_holds : forall c s, reachable c s -> g_cpc s = CSweep ->
  g_ongoing s = true /\ 1 <= g_readers s /\ g_writer s = false /\ g_gc s = GTriggered /\
  (forall t p, nth_error (g_app s) t = Some p -> a_holds_x p = false).
Proof.
  intros c s R C. destruct (reachable_inv _ _ R) as [I1 I2 I3 I4 I5 _ _ _].
  unfold sweeps, active in *. rewrite C in *. simpl in *.
  assert (RD : 1 <= g_readers s) by lia.
  assert (W : g_writer s = false) by (destruct (g_writer s); auto; specialize (I4 eq_refl); lia).
  repeat split; auto.
  - destruct (g_ongoing s); auto. simpl in I1. lia.
  - intros t p N. destruct (a_holds_x p) eqn:E; auto.
    pose proof (nth_cntp_pos _ _ _ _ N E). rewrite W in I3. simpl in I3. lia.
Qed.

(** whenever the collector is past its wake-up test and before the end of its epilogue the state
    is `Triggered` (a background collection is never started in `Init` / `Disabled`) *)
Theorem coll_active_triggered : forall c s, reachable c s -> active s = true -> g_gc s = GTriggered.
Proof. intros c s R. apply (i_act _ _ (reachable_inv _ _ R)). Qed.

(** an application thread inside `Manager::gc` under the read lock *)
Theorem app_sweep_shared_holds : forall c s t, reachable c s -> nth_error (g_app s) t = Some PSweepS ->
  g_ongoing s = true /\ 1 <= g_readers s /\ g_writer s = false /\ g_cpc s <> CSweep.
Proof.
  intros c s t R N. destruct (reachable_inv _ _ R) as [I1 I2 I3 I4 _ _ _ _].
  pose proof (nth_cntp_pos a_sweeping _ _ _ N eq_refl) as P1.
  pose proof (nth_cntp_pos a_holds_s _ _ _ N eq_refl) as P2.
  unfold sweeps in I1.
  assert (O : g_ongoing s = true) by (destruct (g_ongoing s); auto; simpl in I1; lia).
  rewrite O in I1. simpl in I1.
  repeat split; auto; try lia.
  - destruct (g_writer s); auto. specialize (I4 eq_refl). lia.
  - intros C. rewrite C in I1. simpl in I1. lia.
Qed.

(** the same under the write lock: nobody else is inside the manager, the collector neither *)
Theorem app_sweep_excl_holds : forall c s t, reachable c s -> nth_error (g_app s) t = Some PSweepX ->
  g_ongoing s = true /\ g_writer s = true /\ g_readers s = 0 /\ c_holds (g_cpc s) = false.
Proof.
  intros c s t R N. destruct (reachable_inv _ _ R) as [I1 I2 I3 I4 _ _ _ _].
  pose proof (nth_cntp_pos a_sweeping _ _ _ N eq_refl) as P1.
  pose proof (nth_cntp_pos a_holds_x _ _ _ N eq_refl) as P2.
  unfold sweeps in I1.
  assert (O : g_ongoing s = true) by (destruct (g_ongoing s); auto; simpl in I1; lia).
  assert (W : g_writer s = true) by (destruct (g_writer s); auto; simpl in I3; lia).
  specialize (I4 W). repeat split; auto.
  destruct (c_holds (g_cpc s)); auto. simpl in I2. lia.
Qed.

(** ** (c) when the collector is triggered / woken *)

Theorem trigger_iff : forall c s a s', step c s a = Some s' ->
  ((g_gc s <> GTriggered /\ g_gc s' = GTriggered) <->
   exists t d, a = AAlloc t d /\ g_gc s = GInit /\ (hwm c <= g_cnt s + d)%Z).
Proof.
  intros c s a s' H. open_step s a H; step_cases H; simpl;
    try solve [split; [intros [A B]; congruence | intros (t0 & d0 & A & _); discriminate A]].
  - (* AAlloc *)
    unfold trigger_rule. destruct gc; simpl; try destruct (hwm c <=? cnt + d)%Z eqn:E;
      (split; [intros [A B]; try congruence | intros (t0 & d0 & A & B & C); try discriminate]).
    + exists t, d. apply Z.leb_le in E. auto.
    + split; congruence.
    + injection A as <- <-. apply Z.leb_gt in E. lia.
  - (* CEpilogue *)
    unfold reset_rule. split; [intros [A B]|intros (t0 & d0 & A & _); discriminate A].
    destruct gc; simpl in *; try destruct (cnt + d <? lwm c)%Z; simpl in *; congruence.
Qed.

(** the sleeping collector is woken exactly by a triggering allocation or by the `Quit` of the
    drop that sees `strong_count == 2` *)
Theorem wake_iff : forall c s a s', step c s a = Some s' -> g_cpc s = CWaiting ->
  (g_cpc s' = CWoken <->
   (exists t d, a = AAlloc t d /\ g_gc s = GInit /\ (hwm c <= g_cnt s + d)%Z) \/
   (a = ADropBegin /\ g_refs s = 1)).
Proof.
  intros c s a s' H W. open_step s a H; simpl in W; subst pc; step_cases H; simpl;
    try solve [split; [intros A; discriminate A
                      | intros [(t0 & d0 & A & _) | [A _]]; discriminate A]].
  - (* ADropBegin, refs = 1 *) apply Nat.eqb_eq in Heqb0. split; auto.
  - (* ADropBegin, refs <> 1 *) apply Nat.eqb_neq in Heqb0.
    split; [intros A; discriminate A | intros [(t0 & d0 & A & _) | [_ A]]; [discriminate A|congruence]].
  - (* AAlloc *)
    destruct gc; simpl; try destruct (hwm c <=? cnt + d)%Z eqn:E;
      (split; [intros A; try discriminate A
              | intros [(t0 & d0 & A & B & C) | [A _]]; try discriminate; try reflexivity]).
    + left. exists t, d. apply Z.leb_le in E. auto.
    + injection A as <- <-. apply Z.leb_gt in E. lia.
Qed.

(** the other direction of [wake_iff] for a collector that is NOT waiting: the notification is
    lost (the collector's program counter does not change) *)
Theorem notify_lost : forall c s t d s', step c s (AAlloc t d) = Some s' -> g_cpc s <> CWaiting ->
  g_cpc s' = g_cpc s.
Proof.
  intros c s t d s' H W. destruct s as [cnt gc sg og gcn bgn rd wr pc app refs dr].
  simpl in H. step_cases H; simpl in *; auto.
  match goal with |- (if ?b then _ else _) = _ => destruct b end; auto.
  destruct pc; simpl; try reflexivity. exfalso; apply W; reflexivity.
Qed.

(** ** (d) when `gc_state` returns to `Init` *)

Theorem reset_iff : forall c s a s', step c s a = Some s' ->
  ((g_gc s <> GInit /\ g_gc s' = GInit) <->
   exists d, a = CEpilogue d /\ g_cpc s = CEpi /\ g_gc s = GTriggered /\ (g_cnt s + d < lwm c)%Z).
Proof.
  intros c s a s' H. open_step s a H; step_cases H; simpl;
    try solve [split; [intros [A B]; congruence | intros (d0 & A & _); discriminate A]].
  - (* AAlloc *)
    unfold trigger_rule. split; [intros [A B]|intros (d0 & A & _); discriminate A].
    destruct gc; simpl in *; try destruct (hwm c <=? cnt + d)%Z; congruence.
  - (* CEpilogue *)
    unfold reset_rule. destruct gc; destruct (cnt + d <? lwm c)%Z eqn:E; simpl;
      (split; [intros [A B]; try congruence | intros (d0 & A & B & C & D); try discriminate]).
    + exists d. apply Z.ltb_lt in E. auto.
    + split; congruence.
    + injection A as <-. apply Z.ltb_ge in E. lia.
Qed.

Lemma disabled_step : forall c s a s', step c s a = Some s' ->
  (g_gc s' = GDisabled <-> g_gc s = GDisabled).
Proof.
  intros c s a s' H. open_step s a H; step_cases H; simpl; try tauto.
  - unfold trigger_rule. destruct gc; destruct (hwm c <=? cnt + d)%Z; simpl; split; congruence.
  - unfold reset_rule. destruct gc; destruct (cnt + d <? lwm c)%Z; simpl; split; congruence.
Qed.

(** from `Triggered` to `Init`: the schedule contains an epilogue of the collector that saw a
    count below the low-water mark *)
Theorem resume_needs_epilogue : forall c sched s s', run c s sched = Some s' ->
  g_gc s = GTriggered -> g_gc s' = GInit ->
  exists pre d post s1 s2, sched = pre ++ CEpilogue d :: post /\ run c s pre = Some s1 /\
    step c s1 (CEpilogue d) = Some s2 /\ g_cpc s1 = CEpi /\ g_gc s1 = GTriggered /\
    (g_cnt s1 + d < lwm c)%Z /\ g_gc s2 = GInit.
Proof.
  intros c sched. induction sched as [|a r IH]; simpl; intros s s' H T I.
  - injection H as <-. congruence.
  - destruct (step c s a) as [s1|] eqn:E; [|discriminate].
    destruct (g_gc s1) eqn:G.
    + apply (disabled_step _ _ _ _ E) in G. congruence.
    + assert (X : g_gc s <> GInit /\ g_gc s1 = GInit) by (split; congruence).
      apply (reset_iff _ _ _ _ E) in X. destruct X as (d & A & B & C & D). subst a.
      exists [], d, r, s, s1. simpl. auto 10.
    + destruct (IH _ _ H G I) as (pre & d & post & x1 & x2 & A & B & C).
      exists (a :: pre), d, post, x1, x2. simpl. rewrite E. subst r. auto.
Qed.

(** [stuck] (= `Triggered` while the collector is not on its way to an epilogue) is absorbing:
    no action of any thread leaves it; no background collection starts any more *)
Lemma stuck_step : forall c s a s', stuck s = true -> step c s a = Some s' ->
  stuck s' = true /\ g_bgcount s' = g_bgcount s.
Proof.
  intros c s a s' S H. unfold stuck, active in *. open_step s a H; simpl in *;
    destruct gc; simpl in S; try discriminate S;
    step_cases H; simpl; auto; try discriminate S;
    try (destruct pc; simpl in *; auto; discriminate).
  destruct sg; simpl in *; auto; discriminate.
Qed.

Theorem stuck_forever : forall c sched s s', stuck s = true -> run c s sched = Some s' ->
  stuck s' = true /\ g_gc s' = GTriggered /\ g_bgcount s' = g_bgcount s.
Proof.
  intros c sched. induction sched as [|a r IH]; simpl; intros s s' S H.
  - injection H as <-. repeat split; auto. unfold stuck in S. destruct (g_gc s); simpl in S; congruence.
  - destruct (step c s a) as [s1|] eqn:E; [|discriminate].
    destruct (stuck_step _ _ _ _ S E) as [S1 B1]. destruct (IH _ _ S1 H) as (A & B & C).
    repeat split; auto. congruence.
Qed.

(** in `Triggered` the collector is either on its way to an epilogue or the state is stuck *)
Theorem triggered_dichotomy : forall s, g_gc s = GTriggered -> active s = true \/ stuck s = true.
Proof. intros s G. unfold stuck. rewrite G. simpl. destruct (active s); auto. Qed.

(** how a stuck state arises: a triggering allocation whose notification is lost, or an epilogue
    that does not see a count below the low-water mark *)
Theorem stuck_entry : forall c s a s', Inv c s -> step c s a = Some s' ->
  stuck s = false -> stuck s' = true ->
  (exists t d, a = AAlloc t d /\ g_gc s = GInit /\ (hwm c <= g_cnt s + d)%Z /\
     (g_cpc s <> CWaiting \/ g_sig s = SQuit)) \/
  (exists d, a = CEpilogue d /\ g_gc s = GTriggered /\ (lwm c <= g_cnt s + d)%Z) \/
  (a = CCheck /\ g_sig s = SQuit) \/
  (a = ADropBegin /\ g_refs s = 1 /\ g_cpc s = CWoken).
Proof.
  intros c s a s' I H S0 S1. pose proof (i_act _ _ I) as I5. unfold stuck, active in *.
  open_step s a H; simpl in *; step_cases H; simpl in *;
    try (rewrite S0 in S1; discriminate S1).
  - (* ADropBegin refs = 1 *)
    apply Nat.eqb_eq in Heqb0. destruct pc; simpl in *; try (rewrite S0 in S1; discriminate S1).
    right; right; right; auto.
  - (* AAlloc *)
    unfold trigger_rule in *. destruct gc; simpl in *; try discriminate S1.
    + destruct (hwm c <=? cnt + d)%Z eqn:E; simpl in *; try discriminate S1.
      left. exists t, d. apply Z.leb_le in E. repeat split; auto.
      destruct sg; auto. left. intros ->. simpl in S1. discriminate S1.
    + rewrite S0 in S1; discriminate S1.
  - (* CCheck *) destruct sg; simpl in *; [rewrite andb_false_r in S1; discriminate|].
    right; right; left; auto.
  - (* CEpilogue *)
    right; left. exists d. specialize (I5 eq_refl). subst gc. unfold reset_rule in S1. simpl in S1.
    destruct (cnt + d <? lwm c)%Z eqn:E; simpl in S1; [discriminate|]. apply Z.ltb_ge in E. auto.
Qed.

(** ** (e) the quit signal *)

Theorem quit_sent_iff : forall c s a s', step c s a = Some s' -> g_sig s = SRun ->
  (g_sig s' = SQuit <-> a = ADropBegin /\ g_refs s = 1).
Proof.
  intros c s a s' H R. open_step s a H; simpl in R; subst sg; step_cases H; simpl;
    try solve [split; [intros A; discriminate A | intros [A _]; discriminate A]].
  - apply Nat.eqb_eq in Heqb0. split; auto.
  - apply Nat.eqb_neq in Heqb0. split; [discriminate|intros [_ A]; congruence].
Qed.

Lemma sig_quit_step : forall c s a s', step c s a = Some s' -> g_sig s = SQuit -> g_sig s' = SQuit.
Proof. intros c s a s' H Q. open_step s a H; step_cases H; simpl in *; auto. Qed.

(** a collector inside `wait` has no step of its own *)
Theorem waiting_no_coll_step : forall c s a, g_cpc s = CWaiting -> is_coll a = true -> step c s a = None.
Proof.
  intros c s a W C. destruct s as [cnt gc sg og gcn bgn rd wr pc app refs dr]. simpl in W. subst pc.
  destruct a; simpl in *; try discriminate C; reflexivity.
Qed.

(** without a usable handle no application action that notifies is enabled *)
Lemma dead_step : forall c s a s', usable s = 0 -> step c s a = Some s' ->
  usable s' = 0 /\ g_sig s' = g_sig s /\ (is_coll a = false -> g_cpc s' = g_cpc s).
Proof.
  intros c s a s' U H. unfold usable in U. open_step s a H; simpl in U; try rewrite U in H; simpl in H;
    rewrite ?andb_false_r in H; simpl in H;
    step_cases H; unfold usable; simpl; repeat split; auto; try discriminate.
  simpl in Heqb. rewrite andb_false_r in Heqb. discriminate.
Qed.

(** no handle left and the collector inside `wait`: it sleeps for ever (thread and store leak) *)
Theorem asleep_forever : forall c sched s s', usable s = 0 -> g_cpc s = CWaiting ->
  run c s sched = Some s' -> g_cpc s' = CWaiting /\ usable s' = 0 /\ g_sig s' = g_sig s.
Proof.
  intros c sched. induction sched as [|a r IH]; simpl; intros s s' U W H.
  - injection H as <-. auto.
  - destruct (step c s a) as [s1|] eqn:E; [|discriminate].
    destruct (is_coll a) eqn:C; [rewrite (waiting_no_coll_step _ _ _ W C) in E; discriminate|].
    destruct (dead_step _ _ _ _ U E) as (A & B & D). specialize (D C).
    destruct (IH s1 s' A ltac:(congruence) H) as (X & Y & Z). repeat split; auto. congruence.
Qed.

Lemma quit_missed_step : forall c s a s', quit_missed s = true -> step c s a = Some s' ->
  quit_missed s' = true.
Proof.
  intros c s a s' Q H. unfold quit_missed in *.
  destruct (g_sig s) eqn:G; [discriminate|]. apply andb_prop in Q. destruct Q as [U P].
  apply Nat.eqb_eq in U. destruct (dead_step _ _ _ _ U H) as (A & B & D).
  rewrite B, G, A. simpl.
  destruct (is_coll a) eqn:C; [|rewrite (D eq_refl); exact P].
  clear A B D. open_step s a H; simpl in *; try discriminate C; step_cases H; simpl in *; auto; discriminate.
Qed.

(** [quit_missed] is absorbing: the collector never terminates *)
Theorem quit_missed_forever : forall c sched s s', quit_missed s = true -> run c s sched = Some s' ->
  quit_missed s' = true /\ g_cpc s' <> CExit.
Proof.
  intros c sched. induction sched as [|a r IH]; simpl; intros s s' Q H.
  - injection H as <-. split; auto. unfold quit_missed in Q. intros E. rewrite E in Q.
    destruct (g_sig s); [discriminate|]. rewrite andb_false_r in Q. discriminate.
  - destruct (step c s a) as [s1|] eqn:E; [|discriminate].
    eapply IH; [eapply quit_missed_step; eassumption|exact H].
Qed.

Lemma quit_seen_step : forall c s a s', quit_seen s = true -> step c s a = Some s' -> quit_seen s' = true.
Proof.
  intros c s a s' Q H. unfold quit_seen in *. open_step s a H; simpl in *;
    destruct sg; try discriminate Q; destruct pc; try discriminate Q;
    step_cases H; simpl; auto;
    match goal with |- context [if ?b then _ else _] => destruct b end; reflexivity.
Qed.

(** [quit_seen] is absorbing, and the collector's only step from `CWoken` is the `break` *)
Theorem quit_seen_forever : forall c sched s s', quit_seen s = true -> run c s sched = Some s' ->
  quit_seen s' = true.
Proof.
  intros c sched. induction sched as [|a r IH]; simpl; intros s s' Q H.
  - injection H as <-. auto.
  - destruct (step c s a) as [s1|] eqn:E; [|discriminate].
    eapply IH; [eapply quit_seen_step; eassumption|exact H].
Qed.

Theorem quit_seen_exits : forall c s, quit_seen s = true -> g_cpc s = CWoken ->
  (exists s', step c s CCheck = Some s' /\ g_cpc s' = CExit) /\
  (forall a, is_coll a = true -> a <> CCheck -> step c s a = None).
Proof.
  intros c s Q W. unfold quit_seen in Q. destruct s as [cnt gc sg og gcn bgn rd wr pc app refs dr].
  simpl in *. subst pc. destruct sg; [discriminate|]. split.
  - eexists. split; [reflexivity|reflexivity].
  - intros a C N. destruct a; simpl in *; try discriminate C; try reflexivity. congruence.
Qed.

(** the exact condition under which the `Quit` of the last handle is seen: the collector is inside
    `wait` (or already notified) at the moment of the quit's `notify_one` (see the header of
    GcThread.v for the placement of the merged step); in every other case it is missed *)
Theorem quit_outcome : forall c s s', Inv c s -> step c s ADropBegin = Some s' ->
  g_sig s = SRun -> g_refs s = 1 ->
  g_sig s' = SQuit /\ usable s' = 0 /\
  (quit_seen s' = true <-> (g_cpc s = CWaiting \/ g_cpc s = CWoken)) /\
  (quit_missed s' = true <-> ~ (g_cpc s = CWaiting \/ g_cpc s = CWoken)).
Proof.
  intros c s s' I H R F. pose proof (i_exit _ _ I) as I6. pose proof (i_drop _ _ I) as I7.
  unfold quit_seen, quit_missed, usable.
  destruct s as [cnt gc sg og gcn bgn rd wr pc app refs dr]. simpl in *. subst sg refs.
  unfold usable in H. simpl in H.
  destruct dr; simpl in H; [|discriminate H].
  injection H as <-. simpl.
  destruct pc; simpl; repeat split; try tauto; try congruence;
    try solve [intros [A|A]; discriminate A | intros A; exfalso; apply A; auto
              | intros A; discriminate A
              | intros _ [A|A]; discriminate A
              | specialize (I6 eq_refl); discriminate I6].
Qed.
