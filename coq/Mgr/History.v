(** * One manager state machine over ALL operation kinds (plain BDD kind)

    Executable definitions only (proofs: Mgr/HistoryBase.v, HistoryProofs.v,
    HistoryThms.v; a concrete run: Mgr/HistoryExamples.v).

    The per-operation packages each model one family of calls of a BDD
    manager (index manager + [oxidd-rules-bdd] "simple" rules).  Here they are
    put together into ONE transition system whose state is what a client of
    the library holds on to between two calls:

    - [h_s]   : the node table (a [snap], DD/Table.v).  Its handle list
                [s_handles] are the client's [BDDFunction] values, named by
                slot numbers;
    - [h_c]   : the apply cache (abstract: any lossy cache, DD/ApplyProofs.v);
    - [h_reg] : the live substitution objects ([Subst::new], each with the id
                handed out by [new_substitution_id]); an object owns clones of
                its replacement functions, hence its references are roots for
                garbage collection and reordering exactly like handles;
    - [h_next]: the substitution id counter.

    One [hop] is one API call; operands are slot numbers:

    - [HConst], [HVar], [HNot], [HBin], [HIte]: [f_edge]/[t_edge],
      [var_edge]/[not_var_edge], [apply_not], [apply_bin], [apply_ite] of
      oxidd-rules-bdd/src/simple/apply_rec.rs = [mk_const], [mk_var],
      [apply_not], [apply_bin], [apply_ite] of DD/Apply.v;
    - [HQuant], [HApplyQuant], [HRestrict], [HSubst]: [forall/exists/unique_edge],
      [apply_forall/exists/unique_edge], [restrict_edge], [substitute_edge] =
      [quant_edge], [apply_quant_edge], [restrict_edge], [substitute_edge] of
      DD/Quant.v;  [HNewSubst]: [Subst::new] (the pairs (variable, clone of the
      function in the slot) + a fresh id);
    - [HClone], [HDrop]: [Function::clone] / [drop];
    - [HGc]: [Manager::gc] of oxidd-manager-index/src/manager.rs.  The code
      removes, level by level from the top, every node whose reference count
      is 0 (handles, substitution objects and parent nodes hold references);
      that this leaves exactly the nodes reachable from the external owners
      is C05 (Mgr/ConcGcProofs.v).  Here the result is computed directly:
      [gc_model] marks what is reachable from the roots and drops the rest.
      [pre_gc] of the apply cache (oxidd-cache/src/direct.rs) clears the
      whole cache: [h_c := cempty];
    - [HAddVars k]: [Manager::add_vars]: [k] new levels at the bottom, the new
      variable [n + i] sits at level [n + i]; no node is touched; the apply
      cache is NOT cleared ([pre_reorder] of the cache is the default no-op);
    - [HSetVarOrder order]: [oxidd_reorder::set_var_order]
      (oxidd-reorder/src/set_var_order/mod.rs).  It returns at once when at
      most one variable is named or when every level already is at its target
      position ([sorted]; the cache survives), and panics (here: [None]) when
      a variable is out of range or named twice.  Otherwise it works inside
      [Manager::reorder] (which calls [pre_gc], i.e. clears the cache):
      [set_var_order_model] of Mgr/LevelSwap.v (a sequence of adjacent
      [level_swap]s).  [level_swap] removes a node of the old lower level when
      nothing refers to it any more; "nothing" includes the substitution
      objects, so the swap runs on the table whose handle list is extended by
      the registry's references ([with_roots]).

    [hstep] returns [None] when the client's request is malformed (empty
    slot, unknown variable / substitution id) or when one of the code's
    [unwrap]s would panic; HistoryProofs.v shows that from the empty manager
    neither happens for well-formed requests. *)

From Coq Require Import List NArith PArith Bool Arith FMapPositive.
From OxiVerif Require Import DD.Table DD.Sem DD.Build DD.Apply DD.ConfigApply DD.Quant
  Mgr.SortOrder Mgr.LevelSwap.
Import ListNotations.

(** ** Garbage collection on a snapshot *)

Definition mark_ref (m : PositiveMap.t unit) (r : ref) : PositiveMap.t unit :=
  match r with RN id => PositiveMap.add id tt m | RT _ => m end.

Definition marked (m : PositiveMap.t unit) (id : positive) : bool :=
  match PositiveMap.find id m with Some _ => true | None => false end.

(** one round: the children of every marked node get marked *)
Definition mark_round (s : snap) (m : PositiveMap.t unit) : PositiveMap.t unit :=
  fold_left (fun acc (p : positive * node) =>
               if marked m (fst p)
               then fold_left (fun a e => mark_ref a (eref e)) (nchildren (snd p)) acc
               else acc)
            (PositiveMap.elements (s_nodes s)) m.

Fixpoint mark_iter (k : nat) (s : snap) (m : PositiveMap.t unit) : PositiveMap.t unit :=
  match k with
  | O => m
  | S k' => mark_round s (mark_iter k' s m)
  end.

(** the nodes the handles refer to *)
Definition mark_roots (s : snap) : PositiveMap.t unit :=
  fold_left (fun a (h : N * edge) => mark_ref a (eref (snd h))) (s_handles s) (PositiveMap.empty unit).

(** everything reachable from a handle: a path visits strictly increasing
    levels, so [nlevels s] rounds are enough *)
Definition gc_marks (s : snap) : PositiveMap.t unit := mark_iter (nlevels s) s (mark_roots s).

Definition dead_ids (s : snap) (m : PositiveMap.t unit) : list positive :=
  map fst (filter (fun p : positive * node => negb (marked m (fst p))) (PositiveMap.elements (s_nodes s))).

(** [Manager::gc]: the table restricted to what is reachable from the handles *)
Definition gc_model (s : snap) : snap :=
  set_nodes s (fold_left (fun acc id => PositiveMap.remove id acc) (dead_ids s (gc_marks s)) (s_nodes s)).

(** ** [Manager::add_vars] for the BDD kind (the same map update as [add_levels] of DD/ZbddVars.v) *)
Definition add_vars_model (s : snap) (k : nat) : snap :=
  mkSnap (s_kind s) (s_nodes s) (s_terms s)
         (s_v2l s ++ seq (nlevels s) k) (s_l2v s ++ seq (nlevels s) k) (s_handles s).

(** ** The state machine *)

Definition hpairs := list (nat * ref).

Fixpoint hreg_fn (reg : list (N * hpairs)) (id : N) : option hpairs :=
  match reg with
  | [] => None
  | (i, p) :: r => if N.eqb id i then Some p else hreg_fn r id
  end.

(** the references owned by the substitution objects, as handle-list entries *)
Definition reg_roots (reg : list (N * hpairs)) : list (N * edge) :=
  flat_map (fun p : N * hpairs => map (fun vr : nat * ref => (fst p, E (snd vr))) (snd p)) reg.

(** [Subst::new(vars, replacements)]: the replacement functions are read from slots *)
Fixpoint resolve_pairs (hs : list (N * edge)) (pairs : list (nat * N)) : option hpairs :=
  match pairs with
  | [] => Some []
  | (v, k) :: rest =>
    match hget hs k, resolve_pairs hs rest with
    | Some e, Some l => Some ((v, eref e) :: l)
    | _, _ => None
    end
  end.

Inductive hop :=
| HConst (dst : N) (b : bool)
| HVar (dst : N) (v : nat) (neg : bool)
| HNot (dst a : N)
| HBin (op : bop) (dst a b : N)
| HIte (dst a b c : N)
| HQuant (q : quantifier) (dst a vars : N)
| HApplyQuant (q : quantifier) (op : bop) (dst a b vars : N)
| HRestrict (dst a cube : N)
| HNewSubst (pairs : list (nat * N))
| HSubst (dst a : N) (id : N)
| HClone (dst a : N)
| HDrop (a : N)
| HGc
| HAddVars (k : nat)
| HSetVarOrder (order : list nat).

Section Machine.
(** the configuration: operand order of [terminal_bin], apply cache, its cleared state *)
Variable gt : ref -> ref -> bool.
Variable C : Type.
Variable cget : C -> N -> list ref -> option ref.
Variable cadd : C -> N -> list ref -> ref -> C.
Variable cempty : C.

Record hstate := mkH { h_s : snap; h_c : C; h_reg : list (N * hpairs); h_next : N }.

(** the table as garbage collection and reordering see it: the substitution
    objects' references count as external references too *)
Definition with_roots (st : hstate) : snap :=
  set_handles (h_s st) (s_handles (h_s st) ++ reg_roots (h_reg st)).

(** store the result of an algorithm in slot [d] *)
Definition hfinish (st : hstate) (d : N) (res : option (snap * C * ref)) : option hstate :=
  match res with
  | Some (s', c', r) => Some (mkH (put s' d r) c' (h_reg st) (h_next st))
  | None => None
  end.

Definition hslot (st : hstate) (k : N) : option ref :=
  match hget (s_handles (h_s st)) k with Some e => Some (eref e) | None => None end.

Definition hstep (st : hstate) (o : hop) : option hstate :=
  let s := h_s st in
  let c := h_c st in
  match o with
  | HConst d b =>
    match mk_const s b with
    | Some r => Some (mkH (put s d r) c (h_reg st) (h_next st))
    | None => None
    end
  | HVar d v neg =>
    match mk_var s v neg with
    | Some (s', r) => Some (mkH (put s' d r) c (h_reg st) (h_next st))
    | None => None
    end
  | HNot d a =>
    match hslot st a with
    | Some f => hfinish st d (apply_not C cget cadd (S (nlevels s)) s c f)
    | None => None
    end
  | HBin op d a b =>
    match hslot st a, hslot st b with
    | Some f, Some g => hfinish st d (apply_bin gt C cget cadd (S (nlevels s)) s c op f g)
    | _, _ => None
    end
  | HIte d a b e =>
    match hslot st a, hslot st b, hslot st e with
    | Some f, Some g, Some h => hfinish st d (apply_ite gt C cget cadd (S (nlevels s)) s c f g h)
    | _, _, _ => None
    end
  | HQuant q d a vars =>
    match hslot st a, hslot st vars with
    | Some f, Some vs => hfinish st d (quant_edge gt C cget cadd s c q f vs)
    | _, _ => None
    end
  | HApplyQuant q op d a b vars =>
    match hslot st a, hslot st b, hslot st vars with
    | Some f, Some g, Some vs => hfinish st d (apply_quant_edge gt C cget cadd s c q op f g vs)
    | _, _, _ => None
    end
  | HRestrict d a cube =>
    match hslot st a, hslot st cube with
    | Some f, Some vs => hfinish st d (restrict_edge C cget cadd s c f vs)
    | _, _ => None
    end
  | HNewSubst pairs =>
    match resolve_pairs (s_handles s) pairs with
    | Some rp => Some (mkH s c ((h_next st, rp) :: h_reg st) (N.succ (h_next st)))
    | None => None
    end
  | HSubst d a id =>
    match hslot st a, hreg_fn (h_reg st) id with
    | Some f, Some rp => hfinish st d (substitute_edge gt C cget cadd s c f rp id)
    | _, _ => None
    end
  | HClone d a =>
    match hslot st a with
    | Some f => Some (mkH (put s d f) c (h_reg st) (h_next st))
    | None => None
    end
  | HDrop a => Some (mkH (set_handles s (hdel (s_handles s) a)) c (h_reg st) (h_next st))
  | HGc =>
    Some (mkH (set_handles (gc_model (with_roots st)) (s_handles s)) cempty (h_reg st) (h_next st))
  | HAddVars k => Some (mkH (add_vars_model s k) c (h_reg st) (h_next st))
  | HSetVarOrder order =>
    if Nat.leb (length order) 1 then Some st                         (* "nothing to do" *)
    else if order_ok_b (nlevels s) order then
      let target := sort_order (nlevels s) (map (fun v => nth v (s_v2l s) 0) order) in
      if nat_list_eqb target (seq 0 (nlevels s)) then Some st        (* [sorted]: return before [manager.reorder] *)
      else Some (mkH (set_handles (set_var_order_model (with_roots st) order) (s_handles s))
                     cempty (h_reg st) (h_next st))
    else None     (* [var_to_level] out of bounds / "`order` contains level .. twice" *)
  end.

Fixpoint hrun (st : hstate) (ops : list hop) : option hstate :=
  match ops with
  | [] => Some st
  | o :: rest =>
    match hstep st o with
    | Some st1 => hrun st1 rest
    | None => None
    end
  end.

(** ** Well-formed requests, as a checker (proved equivalent to [hop_pre] of
    Mgr/HistoryProofs.v): operand slots occupied, variables in range, no
    variable named twice, known substitution id *)
Definition occupied_b (st : hstate) (k : N) : bool :=
  match hslot st k with Some _ => true | None => false end.

Definition hop_pre_b (st : hstate) (o : hop) : bool :=
  let n := nlevels (h_s st) in
  match o with
  | HConst _ _ => true
  | HVar _ v _ => Nat.ltb v n
  | HNot _ a => occupied_b st a
  | HBin _ _ a b => occupied_b st a && occupied_b st b
  | HIte _ a b c => occupied_b st a && occupied_b st b && occupied_b st c
  | HQuant _ _ a vars => occupied_b st a && occupied_b st vars
  | HApplyQuant _ _ _ a b vars => occupied_b st a && occupied_b st b && occupied_b st vars
  | HRestrict _ a cube => occupied_b st a && occupied_b st cube
  | HNewSubst pairs =>
    nodup_b (map fst pairs)
    && forallb (fun p : nat * N => Nat.ltb (fst p) n && occupied_b st (snd p)) pairs
  | HSubst _ a id =>
    occupied_b st a && match hreg_fn (h_reg st) id with Some _ => true | None => false end
  | HClone _ a => occupied_b st a
  | HDrop _ => true
  | HGc => true
  | HAddVars _ => true
  | HSetVarOrder order => order_ok_b n order
  end.

Fixpoint hops_pre_b (st : hstate) (ops : list hop) : bool :=
  match ops with
  | [] => true
  | o :: rest =>
    hop_pre_b st o &&
    match hstep st o with
    | Some st1 => hops_pre_b st1 rest
    | None => false
    end
  end.

(** the destination slot of a call (the only slot whose content may change) *)
Definition hdst (o : hop) : option N :=
  match o with
  | HConst d _ | HVar d _ _ | HNot d _ | HBin _ d _ _ | HIte d _ _ _
  | HQuant _ d _ _ | HApplyQuant _ _ d _ _ _ | HRestrict d _ _ | HSubst d _ _ | HClone d _ => Some d
  | HDrop a => Some a
  | HNewSubst _ | HGc | HAddVars _ | HSetVarOrder _ => None
  end.

End Machine.

(** ** The empty manager with [n] variables ([new_manager] + [add_vars n]):
    no inner node, the two Boolean terminals, the identity order, no handle *)
Definition empty_snap (n : nat) : snap :=
  mkSnap KBdd (PositiveMap.empty node) [(0%N, 0%N); (1%N, 1%N)] (seq 0 n) (seq 0 n) [].

Definition hinit (C : Type) (cempty : C) (n : nat) : hstate C := mkH C (empty_snap n) cempty [] 0%N.
