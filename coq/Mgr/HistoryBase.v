(** * Transport lemmas for the manager state machine (Mgr/History.v)

    How the invariants and denotations of the per-operation packages behave
    under the state changes that are not "run an algorithm":

    - [widen s k hs]: [k] levels appended at the bottom and the handle list
      replaced ([set_handles] is the case [k = 0], [add_vars_model] the case
      [hs = s_handles s]): well-formedness, [Den], [bfun_of], both cache
      invariants are preserved;
    - [gc_model]: computes exactly [collected] of Mgr/OomGc.v (the restriction
      to the part reachable from the handles);
    - [set_var_order_model]: [BddOK] and the functions over variables of all
      handles are preserved (from Mgr/LevelSwapOrder.v). *)

From Coq Require Import List NArith PArith Bool Arith Lia FMapPositive.
From OxiVerif Require Import DD.Table DD.TableProofs DD.Canon DD.Sem DD.Build DD.BuildProofs
  DD.Apply DD.ApplyProofs DD.ApplyEvalProofs DD.ConfigApply DD.ConfigRun DD.Quant DD.QuantSpecProofs DD.QuantLemmas DD.QuantTopProofs
  Mgr.History.
Import ListNotations.

(** ** Appending levels / replacing the handle list *)

Definition widen (s : snap) (k : nat) (hs : list (N * edge)) : snap :=
  mkSnap (s_kind s) (s_nodes s) (s_terms s)
         (s_v2l s ++ seq (nlevels s) k) (s_l2v s ++ seq (nlevels s) k) hs.

Lemma widen_add_vars : forall s k, add_vars_model s k = widen s k (s_handles s).
Proof. reflexivity. Qed.

Lemma widen_set_handles : forall s hs, set_handles s hs = widen s 0 hs.
Proof. intros s hs. unfold set_handles, widen. simpl. rewrite !app_nil_r. reflexivity. Qed.

Lemma widen_nlevels : forall s k hs, nlevels (widen s k hs) = nlevels s + k.
Proof. intros. unfold nlevels. simpl. rewrite app_length, seq_length. reflexivity. Qed.

Lemma semk_widen : forall s k hs f r c, semk (widen s k hs) f r c = semk s f r c.
Proof.
  intros s k hs. induction f as [|f IH]; intros r c; destruct r as [t|id]; try reflexivity.
  rewrite !semk_S. change (find_node (widen s k hs) id) with (find_node s id).
  destruct (find_node s id) as [nd|]; [|reflexivity].
  destruct (nth_error (nchildren nd) (c (nlevel nd))); [apply IH | reflexivity].
Qed.

Lemma ref_ok_widen : forall s k hs r, ref_ok (widen s k hs) r <-> ref_ok s r.
Proof. intros s k hs [t|id]; reflexivity. Qed.

Lemma rlevel_widen : forall s k hs r, rlevel s r <= rlevel (widen s k hs) r.
Proof.
  intros s k hs [t|id]; simpl.
  - rewrite widen_nlevels. lia.
  - change (find_node (widen s k hs) id) with (find_node s id).
    destruct (find_node s id); [lia | rewrite widen_nlevels; lia].
Qed.

Lemma rlevel_widen_node : forall s k hs id nd, find_node s id = Some nd ->
  rlevel (widen s k hs) (RN id) = rlevel s (RN id).
Proof.
  intros s k hs id nd E. simpl. change (find_node (widen s k hs) id) with (find_node s id).
  rewrite E. reflexivity.
Qed.

Lemma nth_error_app_seq : forall (l : list nat) n k i,
  length l = n ->
  nth_error (l ++ seq n k) i =
  if Nat.ltb i n then nth_error l i else if Nat.ltb i (n + k) then Some i else None.
Proof.
  intros l n k i Hl. destruct (Nat.ltb_spec i n) as [A|A].
  - apply nth_error_app1. lia.
  - rewrite nth_error_app2 by lia. rewrite Hl.
    destruct (Nat.ltb_spec i (n + k)) as [B|B].
    + rewrite (nth_error_nth' _ 0) by (rewrite seq_length; lia). rewrite seq_nth by lia. f_equal. lia.
    + apply nth_error_None. rewrite seq_length. lia.
Qed.

Lemma inv_on_widen : forall (a b : list nat) n k, length a = n -> length b = n ->
  inv_on a b -> inv_on (a ++ seq n k) (b ++ seq n k).
Proof.
  intros a b n k La Lb Hab i Hi. rewrite app_length, seq_length in Hi.
  rewrite (nth_error_app_seq a n k i La).
  destruct (Nat.ltb_spec i n) as [A|A].
  - destruct (Hab i ltac:(lia)) as [j [E1 E2]]. exists j. split; [exact E1|].
    rewrite (nth_error_app_seq b n k j Lb).
    assert (j < n) by (rewrite <- Lb; apply nth_error_Some; congruence).
    destruct (Nat.ltb_spec j n); [exact E2 | lia].
  - destruct (Nat.ltb_spec i (n + k)) as [B|B]; [|lia].
    exists i. split; [reflexivity|]. rewrite (nth_error_app_seq b n k i Lb).
    destruct (Nat.ltb_spec i n); [lia|]. destruct (Nat.ltb_spec i (n + k)); [reflexivity | lia].
Qed.

Lemma wf_widen : forall s k hs, WF s ->
  (forall h, In h hs -> ref_ok s (eref (snd h)) /\ (s_kind s <> KBcdd -> etag (snd h) = false)) ->
  WF (widen s k hs).
Proof.
  intros s k hs H Hh.
  assert (Lv : length (s_v2l s) = nlevels s) by (apply (wf_perm_len s H)).
  constructor.
  - simpl. rewrite !app_length. f_equal. apply (wf_perm_len s H).
  - simpl. apply inv_on_widen; [exact Lv | reflexivity | apply (wf_perm_v2l s H)].
  - simpl. apply inv_on_widen; [reflexivity | exact Lv | apply (wf_perm_l2v s H)].
  - exact (wf_arity s H).
  - exact (wf_stored s H).
  - intros id nd E. rewrite widen_nlevels. pose proof (wf_level s H id nd E). lia.
  - intros id nd e E He. destruct (wf_child s H id nd e E He) as [A B].
    split; [apply ref_ok_widen; exact A|]. pose proof (rlevel_widen s k hs (eref e)). lia.
  - exact (wf_reduced s H).
  - exact (wf_tags s H).
  - exact (wf_unique s H).
  - exact (wf_term_ids s H).
  - exact (wf_term_vals s H).
  - intros h Hin. destruct (Hh h Hin) as [A B]. split; [apply ref_ok_widen; exact A | exact B].
Qed.

Lemma bddok_widen : forall s k hs, BddOK s ->
  (forall h, In h hs -> ref_ok s (eref (snd h)) /\ etag (snd h) = false) ->
  BddOK (widen s k hs).
Proof.
  intros s k hs B Hh. constructor.
  - apply wf_widen; [apply (bo_wf s B)|]. intros h Hin. destruct (Hh h Hin). split; auto.
  - exact (bo_kind s B).
  - exact (bo_codes s B).
  - exact (bo_false s B).
  - exact (bo_true s B).
Qed.

(** the same function of the level-indexed choice *)
Lemma den_widen : forall s k hs r phi, WF s -> Den s r phi -> Den (widen s k hs) r phi.
Proof.
  intros s k hs r phi H [A D]. split; [apply ref_ok_widen; exact A|].
  intros c Hc. rewrite semk_widen, widen_nlevels, <- (D c Hc).
  pose proof (rlevel_le s H r). apply (semk_fuel s H); [exact A | lia | lia].
Qed.

Lemma den_widen_inv : forall s k hs r phi, WF s -> Den (widen s k hs) r phi -> Den s r phi.
Proof.
  intros s k hs r phi H [A D]. apply ref_ok_widen in A. split; [exact A|].
  intros c Hc. rewrite <- (D c Hc), semk_widen, widen_nlevels.
  pose proof (rlevel_le s H r). apply (semk_fuel s H); [exact A | lia | lia].
Qed.

Lemma dfun_widen : forall s k hs r c, WF s -> ref_ok s r -> dfun (widen s k hs) r c = dfun s r c.
Proof.
  intros s k hs r c H A. unfold dfun. rewrite semk_widen, widen_nlevels.
  pose proof (rlevel_le s H r). rewrite (semk_fuel s H (S (nlevels s + k)) (S (nlevels s)) r c A); [reflexivity | lia | lia].
Qed.

Lemma choice_of_widen : forall s k hs a l, l < nlevels s ->
  choice_of (widen s k hs) a l = choice_of s a l.
Proof.
  intros s k hs a l Hl. unfold choice_of. simpl.
  rewrite nth_error_app1 by exact Hl. reflexivity.
Qed.

(** the function over the VARIABLES: unchanged; in particular it does not
    read the new variables *)
Lemma bfun_of_widen : forall s k hs r a, WF s -> ref_ok s r ->
  bfun_of (widen s k hs) r a = bfun_of s r a.
Proof.
  intros s k hs r a H A. unfold bfun_of, FUEL. rewrite semk_widen, widen_nlevels.
  pose proof (rlevel_le s H r).
  rewrite (semk_fuel s H (S (nlevels s + k)) (S (nlevels s)) r _ A) by lia.
  rewrite (semk_ext_lt s H (S (nlevels s)) r _ (choice_of s a)); [reflexivity|].
  intros l Hl. apply choice_of_widen. exact Hl.
Qed.

(** ** The cache invariants under [widen] *)

Lemma entry_ok_widen : forall s k hs code args r, WF s ->
  entry_ok s code args r -> entry_ok (widen s k hs) code args r.
Proof.
  intros s k hs code args r H. unfold entry_ok.
  destruct args as [|f [|g [|h [|x rest]]]]; auto.
  - intros Hx Hc. destruct (Hx Hc) as [phi [A D]]. exists phi. split; apply den_widen; assumption.
  - intros Hx o Hc. destruct (Hx o Hc) as [phi [psi [A [A' D]]]]. exists phi, psi.
    split; [|split]; apply den_widen; assumption.
  - intros Hx Hc. destruct (Hx Hc) as [phi [psi [theta [A [A' [A'' D]]]]]]. exists phi, psi, theta.
    split; [|split; [|split]]; apply den_widen; assumption.
Qed.

Lemma cacheok_widen : forall C (cget : C -> N -> list ref -> option ref) s k hs c, WF s ->
  CacheOK cget s c -> CacheOK cget (widen s k hs) c.
Proof. intros C cget s k hs c H O code args r E. apply entry_ok_widen; [exact H | apply (O _ _ _ E)]. Qed.

Lemma vchain_widen : forall s k hs r L, VChain s r L -> VChain (widen s k hs) r L.
Proof.
  intros s k hs r L V. induction V as [t|id nd t e L En Ech V IH]; [constructor|].
  econstructor; eauto.
Qed.

Lemma lchain_widen : forall s k hs r M, LChain s r M -> LChain (widen s k hs) r M.
Proof.
  intros s k hs r M V.
  induction V as [t|id nd t e M En Ech Hv V IH|id nd t e M En Ech Hv V IH]; [constructor| |].
  - eapply LC_pos; eauto.
  - eapply LC_neg; eauto.
Qed.

(** the pairs of a substitution object name existing variables *)
Definition pairs_in_range (s : snap) (pairs : list (nat * ref)) : Prop :=
  forall v r, In (v, r) pairs -> v < nlevels s.

Lemma psch_widen : forall s k hs pairs c, WF s -> pairs_ok s pairs -> pairs_in_range s pairs ->
  ceq (psch (widen s k hs) pairs c) (psch s pairs c).
Proof.
  intros s k hs pairs c H F R l. unfold psch. simpl s_l2v.
  rewrite (nth_error_app_seq (s_l2v s) (nlevels s) k l eq_refl).
  destruct (Nat.ltb_spec l (nlevels s)) as [A|A].
  - destruct (nth_error (s_l2v s) l) as [v|]; [|reflexivity].
    destruct (assoc_nat pairs v) as [r|] eqn:E; [|reflexivity].
    rewrite (dfun_widen s k hs r c H); [reflexivity|]. apply (F v r). apply assoc_nat_In. exact E.
  - assert (En : nth_error (s_l2v s) l = None) by (apply nth_error_None; exact A). rewrite En.
    destruct (Nat.ltb_spec l (nlevels s + k)) as [B|B]; [|reflexivity].
    destruct (assoc_nat pairs l) as [r|] eqn:E; [|reflexivity].
    apply assoc_nat_In in E. specialize (R l r E). lia.
Qed.

Lemma pairs_ok_widen : forall s k hs pairs, pairs_ok s pairs -> pairs_ok (widen s k hs) pairs.
Proof. intros s k hs pairs F v r Hin. apply ref_ok_widen. apply (F v r Hin). Qed.

Lemma qentry_ok_widen : forall (Sg : N -> option (list (nat * ref))) s k hs code args r, WF s ->
  (forall id pairs, Sg id = Some pairs -> pairs_in_range s pairs) ->
  qentry_ok Sg s code args r -> qentry_ok Sg (widen s k hs) code args r.
Proof.
  intros Sg s k hs code args r H HR [Q1 [Q2 [Q3 Q4]]]. split; [|split; [|split]].
  - intros q f vars Hc Ha. destruct (Q1 q f vars Hc Ha) as [phi [L [D [V Dr]]]].
    exists phi, L. split; [apply den_widen; assumption|]. split; [apply vchain_widen; exact V|].
    apply den_widen; assumption.
  - intros f vars Hc Ha. destruct (Q2 f vars Hc Ha) as [phi [M [D [V Dr]]]].
    exists phi, M. split; [apply den_widen; assumption|]. split; [apply lchain_widen; exact V|].
    apply den_widen; assumption.
  - intros q o f g vars Hc Ha. destruct (Q3 q o f g vars Hc Ha) as [phi [psi [L [D [D' [V Dr]]]]]].
    exists phi, psi, L. split; [apply den_widen; assumption|]. split; [apply den_widen; assumption|].
    split; [apply vchain_widen; exact V|]. apply den_widen; assumption.
  - intros id f Hc Ha. destruct (Q4 id f Hc Ha) as [pairs [phi [Es [F [D Dr]]]]].
    exists pairs, phi. split; [exact Es|]. split; [apply pairs_ok_widen; exact F|].
    split; [apply den_widen; assumption|].
    apply (den_ext (widen s k hs) r (psubst s pairs phi)); [apply den_widen; assumption|].
    intros c0 Hc0. unfold psubst. symmetry.
    apply (den_cext s f phi H D); [apply psch_bchoice; exact Hc0 | apply psch_bchoice; exact Hc0|].
    apply psch_widen; [exact H | exact F | apply (HR id pairs Es)].
Qed.

Lemma qcacheok_widen : forall C (cget : C -> N -> list ref -> option ref)
  (Sg : N -> option (list (nat * ref))) s k hs c, WF s ->
  (forall id pairs, Sg id = Some pairs -> pairs_in_range s pairs) ->
  QCacheOK cget Sg s c -> QCacheOK cget Sg (widen s k hs) c.
Proof.
  intros C cget Sg s k hs c H HR [O Q]. split; [apply cacheok_widen; assumption|].
  intros code args r E. apply qentry_ok_widen; [exact H | exact HR | apply (Q _ _ _ E)].
Qed.

(** ** Functions over variables under [set_handles] / [extends] *)

Lemma bfun_of_set_handles : forall s hs r a, bfun_of (set_handles s hs) r a = bfun_of s r a.
Proof.
  intros s hs r a. unfold bfun_of.
  change (FUEL (set_handles s hs)) with (FUEL s).
  change (choice_of (set_handles s hs) a) with (choice_of s a).
  rewrite ConfigRun.semk_set_handles. reflexivity.
Qed.

Lemma bfun_of_extends : forall s s' r a, WF s -> extends s s' -> ref_ok s r ->
  bfun_of s' r a = bfun_of s r a.
Proof.
  intros s s' r a H X A. unfold bfun_of, FUEL, choice_of.
  rewrite (ext_nlevels _ _ X), (ext_l2v _ _ X), (semk_extends s s' H X _ r _ A). reflexivity.
Qed.

(** ** Slots *)

Lemma hget_hdel_same : forall hs k, hget (hdel hs k) k = None.
Proof.
  induction hs as [|[a e] r IH]; intros k; simpl; [reflexivity|].
  destruct (N.eqb_spec a k) as [->|Hn]; simpl; [apply IH|].
  destruct (N.eqb_spec a k); [contradiction | apply IH].
Qed.

Lemma hget_hdel_other : forall hs k x, x <> k -> hget (hdel hs k) x = hget hs x.
Proof.
  induction hs as [|[a e] r IH]; intros k x Hx; simpl; [reflexivity|].
  destruct (N.eqb_spec a k) as [->|Hn]; simpl.
  - destruct (N.eqb_spec k x); [congruence | apply IH; exact Hx].
  - destruct (N.eqb_spec a x); [reflexivity | apply IH; exact Hx].
Qed.

Lemma hget_hset_same : forall hs k e, hget (hset hs k e) k = Some e.
Proof. intros. unfold hset. simpl. rewrite N.eqb_refl. reflexivity. Qed.

Lemma hget_hset_other : forall hs k e x, x <> k -> hget (hset hs k e) x = hget hs x.
Proof.
  intros hs k e x Hx. unfold hset. simpl.
  destruct (N.eqb_spec k x); [congruence | apply hget_hdel_other; exact Hx].
Qed.
