(** * One manager state machine over ALL operation kinds, complement-edge BDD kind (BCDD)

    Executable definitions only (proofs: Mgr/HistoryCBase.v, HistoryCProofs.v,
    HistoryCThms.v, HistoryCSpec.v; a concrete run: Mgr/HistoryCExamples.v).

    The BCDD counterpart of Mgr/History.v: the same transition system, the
    same requests ([hop] of Mgr/History.v is reused: operands are slot
    numbers, nothing in it depends on the kind), with the per-operation
    models of the complement-edge kind plugged in.  The state is what a
    client of the library holds on to between two calls:

    - [hc_s]   : the node table (a [snap] of kind [KBcdd]); its handle list
                 [s_handles] are the client's [BCDDFunction] values, named by
                 slot numbers.  A slot holds an EDGE (reference + complement
                 tag), not a bare reference as for the plain BDD kind;
    - [hc_c]   : the apply cache (abstract: any lossy cache keyed by operator
                 code and operand edges, DD/ApplyBcddProofs.v);
    - [hc_reg] : the live substitution objects ([Subst::new], each with the id
                 handed out by [new_substitution_id]); an object owns clones of
                 its replacement functions, hence its edges are roots for
                 garbage collection and reordering exactly like handles;
    - [hc_next]: the substitution id counter.

    One [hop] is one API call:

    - [HConst], [HVar], [HNot], [HBin], [HIte]: [f_edge]/[t_edge],
      [var_edge]/[not_var_edge], [not_edge], the eight binary operators and
      [ite_edge] of oxidd-rules-bdd/src/complement_edge/apply_rec.rs
      = [cmk_const], [cmk_var], [capply_not], [capply_op], [capply_ite] of
      DD/ApplyBcdd.v ([not] is the tag flip: no node, no cache access);
    - [HQuant], [HApplyQuant], [HRestrict], [HSubst]: [forall/exists/unique_edge],
      [apply_forall/exists/unique_edge] (through the two dispatch tables),
      [restrict_edge], [substitute_edge] of the same file = [cquant_edge],
      [capply_quant_edge], [crestrict_edge], [csubstitute_edge] of
      DD/QuantBcdd.v;  [HNewSubst]: [Subst::new] (the pairs (variable, clone of
      the function in the slot) + a fresh id);
    - [HClone], [HDrop]: [Function::clone] / [drop];
    - [HGc]: [Manager::gc] of oxidd-manager-index/src/manager.rs (the manager
      is generic in the rule set: the same code as for the plain BDD kind).
      As in Mgr/History.v the result is computed directly: [gc_model] (kind
      independent: it follows [nchildren] whatever the tags are) marks what is
      reachable from the roots and drops the rest; [pre_gc] clears the apply
      cache: [hc_c := cempty];
    - [HAddVars k]: [Manager::add_vars]: [k] new levels at the bottom
      ([add_vars_model], kind independent); the apply cache is NOT cleared;
    - [HSetVarOrder order]: [oxidd_reorder::set_var_order]
      (oxidd-reorder/src/set_var_order/mod.rs, generic in the manager): the
      same early returns / panics as in Mgr/History.v, otherwise
      [set_var_order_model_c] of Mgr/LevelSwapC.v (a sequence of adjacent
      [level_swap_c]s: [Rules::cofactors] / [Rules::reduce] of the
      complement-edge rules) on the table whose handle list is extended by the
      registry's edges ([with_roots_c]); [Manager::reorder] calls [pre_gc]:
      cache cleared.

    [hstep_c] returns [None] when the client's request is malformed (empty
    slot, unknown variable / substitution id) or when one of the code's
    [unwrap]s would panic; HistoryCProofs.v shows that from the empty manager
    neither happens for well-formed requests. *)

From Coq Require Import List NArith PArith Bool Arith FMapPositive.
From OxiVerif Require Import DD.Table DD.Sem DD.Build DD.Apply DD.ConfigApply DD.Quant
  DD.ApplyBcdd DD.QuantBcdd Mgr.SortOrder Mgr.LevelSwap Mgr.LevelSwapC Mgr.History.
Import ListNotations.

(** the pairs of a substitution object: (variable, replacement edge) *)
Definition cpairs := list (nat * edge).

Fixpoint creg_fn (reg : list (N * cpairs)) (id : N) : option cpairs :=
  match reg with
  | [] => None
  | (i, p) :: r => if N.eqb id i then Some p else creg_fn r id
  end.

(** the edges owned by the substitution objects, as handle-list entries *)
Definition creg_roots (reg : list (N * cpairs)) : list (N * edge) :=
  flat_map (fun p : N * cpairs => map (fun vr : nat * edge => (fst p, snd vr)) (snd p)) reg.

(** [Subst::new(vars, replacements)]: the replacement functions are read from slots *)
Fixpoint cresolve_pairs (hs : list (N * edge)) (pairs : list (nat * N)) : option cpairs :=
  match pairs with
  | [] => Some []
  | (v, k) :: rest =>
    match hget hs k, cresolve_pairs hs rest with
    | Some e, Some l => Some ((v, e) :: l)
    | _, _ => None
    end
  end.

(** store an edge in slot [d] *)
Definition cput (s : snap) (d : N) (e : edge) : snap := set_handles s (hset (s_handles s) d e).

Section MachineC.
(** the configuration: the (unobservable) edge order [f < g] of [apply_bin],
    the apply cache, its cleared state *)
Variable lt : edge -> edge -> bool.
Variable C : Type.
Variable cget : C -> N -> list edge -> option edge.
Variable cadd : C -> N -> list edge -> edge -> C.
Variable cempty : C.

Record hstate_c := mkHC { hc_s : snap; hc_c : C; hc_reg : list (N * cpairs); hc_next : N }.

(** the table as garbage collection and reordering see it: the substitution
    objects' edges count as external references too *)
Definition with_roots_c (st : hstate_c) : snap :=
  set_handles (hc_s st) (s_handles (hc_s st) ++ creg_roots (hc_reg st)).

(** store the result of an algorithm in slot [d] *)
Definition cfinish (st : hstate_c) (d : N) (res : option (snap * C * edge)) : option hstate_c :=
  match res with
  | Some (s', c', r) => Some (mkHC (cput s' d r) c' (hc_reg st) (hc_next st))
  | None => None
  end.

Definition cslot (st : hstate_c) (k : N) : option edge := hget (s_handles (hc_s st)) k.

Definition hstep_c (st : hstate_c) (o : hop) : option hstate_c :=
  let s := hc_s st in
  let c := hc_c st in
  match o with
  | HConst d b =>
    match cmk_const s b with
    | Some r => Some (mkHC (cput s d r) c (hc_reg st) (hc_next st))
    | None => None
    end
  | HVar d v neg =>
    match cmk_var s v neg with
    | Some (s', r) => Some (mkHC (cput s' d r) c (hc_reg st) (hc_next st))
    | None => None
    end
  | HNot d a =>
    match cslot st a with
    | Some f => cfinish st d (capply_not C s c f)
    | None => None
    end
  | HBin op d a b =>
    match cslot st a, cslot st b with
    | Some f, Some g => cfinish st d (capply_op lt C cget cadd (S (nlevels s)) s c op f g)
    | _, _ => None
    end
  | HIte d a b e =>
    match cslot st a, cslot st b, cslot st e with
    | Some f, Some g, Some h => cfinish st d (capply_ite lt C cget cadd (S (nlevels s)) s c f g h)
    | _, _, _ => None
    end
  | HQuant q d a vars =>
    match cslot st a, cslot st vars with
    | Some f, Some vs => cfinish st d (cquant_edge lt C cget cadd s c q f vs)
    | _, _ => None
    end
  | HApplyQuant q op d a b vars =>
    match cslot st a, cslot st b, cslot st vars with
    | Some f, Some g, Some vs => cfinish st d (capply_quant_edge lt C cget cadd s c q op f g vs)
    | _, _, _ => None
    end
  | HRestrict d a cube =>
    match cslot st a, cslot st cube with
    | Some f, Some vs => cfinish st d (crestrict_edge C cget cadd s c f vs)
    | _, _ => None
    end
  | HNewSubst pairs =>
    match cresolve_pairs (s_handles s) pairs with
    | Some rp => Some (mkHC s c ((hc_next st, rp) :: hc_reg st) (N.succ (hc_next st)))
    | None => None
    end
  | HSubst d a id =>
    match cslot st a, creg_fn (hc_reg st) id with
    | Some f, Some rp => cfinish st d (csubstitute_edge lt C cget cadd s c f rp id)
    | _, _ => None
    end
  | HClone d a =>
    match cslot st a with
    | Some f => Some (mkHC (cput s d f) c (hc_reg st) (hc_next st))
    | None => None
    end
  | HDrop a => Some (mkHC (set_handles s (hdel (s_handles s) a)) c (hc_reg st) (hc_next st))
  | HGc =>
    Some (mkHC (set_handles (gc_model (with_roots_c st)) (s_handles s)) cempty (hc_reg st) (hc_next st))
  | HAddVars k => Some (mkHC (add_vars_model s k) c (hc_reg st) (hc_next st))
  | HSetVarOrder order =>
    if Nat.leb (length order) 1 then Some st                         (* "nothing to do" *)
    else if order_ok_b (nlevels s) order then
      let target := sort_order (nlevels s) (map (fun v => nth v (s_v2l s) 0) order) in
      if nat_list_eqb target (seq 0 (nlevels s)) then Some st        (* [sorted]: return before [manager.reorder] *)
      else Some (mkHC (set_handles (set_var_order_model_c (with_roots_c st) order) (s_handles s))
                      cempty (hc_reg st) (hc_next st))
    else None     (* [var_to_level] out of bounds / "`order` contains level .. twice" *)
  end.

Fixpoint hrun_c (st : hstate_c) (ops : list hop) : option hstate_c :=
  match ops with
  | [] => Some st
  | o :: rest =>
    match hstep_c st o with
    | Some st1 => hrun_c st1 rest
    | None => None
    end
  end.

(** ** Well-formed requests, as a checker (proved equivalent to [hop_pre_c] of
    Mgr/HistoryCProofs.v) *)
Definition occupied_cb (st : hstate_c) (k : N) : bool :=
  match cslot st k with Some _ => true | None => false end.

Definition hop_pre_cb (st : hstate_c) (o : hop) : bool :=
  let n := nlevels (hc_s st) in
  match o with
  | HConst _ _ => true
  | HVar _ v _ => Nat.ltb v n
  | HNot _ a => occupied_cb st a
  | HBin _ _ a b => occupied_cb st a && occupied_cb st b
  | HIte _ a b c => occupied_cb st a && occupied_cb st b && occupied_cb st c
  | HQuant _ _ a vars => occupied_cb st a && occupied_cb st vars
  | HApplyQuant _ _ _ a b vars => occupied_cb st a && occupied_cb st b && occupied_cb st vars
  | HRestrict _ a cube => occupied_cb st a && occupied_cb st cube
  | HNewSubst pairs =>
    nodup_b (map fst pairs)
    && forallb (fun p : nat * N => Nat.ltb (fst p) n && occupied_cb st (snd p)) pairs
  | HSubst _ a id =>
    occupied_cb st a && match creg_fn (hc_reg st) id with Some _ => true | None => false end
  | HClone _ a => occupied_cb st a
  | HDrop _ => true
  | HGc => true
  | HAddVars _ => true
  | HSetVarOrder order => order_ok_b n order
  end.

Fixpoint hops_pre_cb (st : hstate_c) (ops : list hop) : bool :=
  match ops with
  | [] => true
  | o :: rest =>
    hop_pre_cb st o &&
    match hstep_c st o with
    | Some st1 => hops_pre_cb st1 rest
    | None => false
    end
  end.

End MachineC.

(** ** The empty BCDD manager with [n] variables ([new_manager] + [add_vars n]):
    no inner node, the single terminal (true; a complemented edge to it is
    false), the identity order, no handle *)
Definition empty_snap_c (n : nat) : snap :=
  mkSnap KBcdd (PositiveMap.empty node) [(0%N, 1%N)] (seq 0 n) (seq 0 n) [].

Definition hinit_c (C : Type) (cempty : C) (n : nat) : hstate_c C := mkHC C (empty_snap_c n) cempty [] 0%N.
