(** * Transport lemmas for the BCDD manager state machine (Mgr/HistoryC.v)

    The complement-edge counterparts of Mgr/HistoryBase.v / HistoryReorder.v,
    and the kind-independent part of Mgr/OomGc.v restated for [WF] tables:

    - [widen s k hs] (append [k] levels, replace the handle list): [BcOK],
      [DenC], [cbfun_of], [CacheOKC], [QCacheOKC] are preserved;
    - [collected] (what [gc_model] computes, Mgr/HistoryGc.v): [BcOK] again, a
      sub-table, every surviving edge means what it meant;
    - [set_var_order_model_c]: [BcOK] and the functions over VARIABLES of all
      handles are preserved (from Mgr/LevelSwapCOrder.v);
    - [qc_apply_op]: the eight public binary operators at the level of the
      full cache invariant [QCacheOKC];
    - [cbfun_of_local], [cbfun_eq_denc]: a function reads only the table's
      variables; equal functions of the variables = equal denotations. *)

From Coq Require Import List NArith PArith Bool Arith Lia FMapPositive.
From OxiVerif Require Import DD.Table DD.TableProofs DD.Canon DD.CanonBcdd DD.Sem DD.Build DD.BuildProofs
  DD.PickInsert DD.Apply DD.ApplyProofs DD.ApplyEvalProofs DD.ConfigApply DD.ConfigRun
  DD.ApplyBcdd DD.ApplyBcddProofs DD.ApplyBcddIte DD.ApplyBcddEval DD.BuildCanonBcdd
  DD.Quant DD.QuantLemmas DD.QuantTopProofs DD.QuantBcdd DD.QuantBcddLemmas DD.QuantBcddTop
  Mgr.SortOrder Mgr.SortOrderProofs Mgr.LevelSwap Mgr.LevelSwapBase Mgr.LevelSwapProofs Mgr.LevelSwapOrder
  Mgr.LevelSwapC Mgr.LevelSwapCProofs Mgr.LevelSwapCOrder Mgr.OomGc
  Mgr.History Mgr.HistoryBase Mgr.HistoryC.
Import ListNotations.

(** ** Appending levels / replacing the handle list *)

Lemma semc_widen : forall s k hs f e c, semc (widen s k hs) f e c = semc s f e c.
Proof.
  intros s k hs. induction f as [|f IH]; intros e c.
  - destruct (eref e) as [t|id] eqn:Er;
      [rewrite !(semc_T _ _ _ _ t Er) | rewrite !(semc_O _ _ _ id Er)]; reflexivity.
  - destruct (eref e) as [t|id] eqn:Er; [rewrite !(semc_T _ _ _ _ t Er); reflexivity|].
    rewrite !(semc_S _ _ _ _ id Er). change (find_node (widen s k hs) id) with (find_node s id).
    destruct (find_node s id) as [nd|]; [|reflexivity].
    destruct (nth_error (nchildren nd) (c (nlevel nd))) as [e'|]; [|reflexivity].
    rewrite IH. reflexivity.
Qed.

Lemma bcok_widen : forall s k hs, BcOK s ->
  (forall h, In h hs -> ref_ok s (eref (snd h))) -> BcOK (widen s k hs).
Proof.
  intros s k hs B Hh. constructor.
  - apply wf_widen; [apply (bc_wf s B)|]. intros h Hin. split; [apply (Hh h Hin)|].
    intros Hk. exfalso. apply Hk. apply (bc_kind s B).
  - exact (bc_kind s B).
  - exact (bc_term s B).
Qed.

Lemma bcok_set_handles : forall s hs, BcOK s ->
  (forall h, In h hs -> ref_ok s (eref (snd h))) -> BcOK (set_handles s hs).
Proof. intros s hs B Hh. rewrite widen_set_handles. apply bcok_widen; assumption. Qed.

Lemma bc_handle_ok : forall s h, BcOK s -> In h (s_handles s) -> ref_ok s (eref (snd h)).
Proof. intros s h B Hin. apply (wf_handles s (bc_wf s B) h Hin). Qed.

Lemma in_hdel : forall hs k h, In h (hdel hs k) -> In h hs.
Proof. intros hs k h Hin. unfold hdel in Hin. apply filter_In in Hin. apply Hin. Qed.

Lemma bcok_cput : forall s d e, BcOK s -> ref_ok s (eref e) -> BcOK (cput s d e).
Proof.
  intros s d e B Oe. apply bcok_set_handles; [exact B|].
  intros h [<-|Hin]; [exact Oe|]. apply (bc_handle_ok s h B). apply (in_hdel _ _ _ Hin).
Qed.

Lemma bcok_drop : forall s d, BcOK s -> BcOK (set_handles s (hdel (s_handles s) d)).
Proof.
  intros s d B. apply bcok_set_handles; [exact B|].
  intros h Hin. apply (bc_handle_ok s h B). apply (in_hdel _ _ _ Hin).
Qed.

(** the same function of the level-indexed choice *)
Lemma denc_widen : forall s k hs e phi, WF s -> DenC s e phi -> DenC (widen s k hs) e phi.
Proof.
  intros s k hs e phi H [A D]. split; [apply ref_ok_widen; exact A|].
  intros c Hc. rewrite semc_widen, widen_nlevels, <- (D c Hc).
  pose proof (rlevel_le s H (eref e)). apply (semc_fuel s H); [exact A | lia | lia].
Qed.

Lemma dfunC_widen : forall s k hs e c, WF s -> ref_ok s (eref e) -> dfunC (widen s k hs) e c = dfunC s e c.
Proof.
  intros s k hs e c H A. unfold dfunC. rewrite semc_widen, widen_nlevels.
  pose proof (rlevel_le s H (eref e)).
  rewrite (semc_fuel s H (S (nlevels s + k)) (S (nlevels s)) e c A); [reflexivity | lia | lia].
Qed.

(** the function over the VARIABLES: unchanged; in particular it does not
    read the new variables *)
Lemma cbfun_of_widen : forall s k hs e a, WF s -> ref_ok s (eref e) ->
  cbfun_of (widen s k hs) e a = cbfun_of s e a.
Proof.
  intros s k hs e a H A. unfold cbfun_of, CFUEL. rewrite semc_widen, widen_nlevels.
  pose proof (rlevel_le s H (eref e)).
  rewrite (semc_fuel s H (S (nlevels s + k)) (S (nlevels s)) e _ A) by lia.
  rewrite (BuildCanonBcdd.semc_ext_lt s H (S (nlevels s)) e _ (choice_of s a)); [reflexivity|].
  intros l Hl. apply choice_of_widen. exact Hl.
Qed.

(** ** The cache invariants under [widen] *)

Lemma centry_ok_widen : forall s k hs code args r, WF s ->
  centry_ok s code args r -> centry_ok (widen s k hs) code args r.
Proof.
  intros s k hs code args r H. unfold centry_ok.
  destruct args as [|f [|g [|h [|x rest]]]]; auto.
  - intros Hx o Hc. destruct (Hx o Hc) as [phi [psi [A [A' D]]]]. exists phi, psi.
    split; [|split]; apply denc_widen; assumption.
  - intros Hx Hc. destruct (Hx Hc) as [phi [psi [theta [A [A' [A'' D]]]]]]. exists phi, psi, theta.
    split; [|split; [|split]]; apply denc_widen; assumption.
Qed.

Lemma ccacheok_widen : forall C (cget : C -> N -> list edge -> option edge) s k hs c, WF s ->
  CacheOKC cget s c -> CacheOKC cget (widen s k hs) c.
Proof. intros C cget s k hs c H O code args r E. apply centry_ok_widen; [exact H | apply (O _ _ _ E)]. Qed.

Lemma vchainc_widen : forall s k hs e L, VChainC s e L -> VChainC (widen s k hs) e L.
Proof.
  intros s k hs e L V. induction V as [e t Er|e id nd t x L Er En Ech V IH]; [eapply VCC_T; eauto|].
  eapply VCC_N; eauto.
Qed.

Lemma lchainc_widen : forall s k hs r neg M, LChainC s r neg M -> LChainC (widen s k hs) r neg M.
Proof.
  intros s k hs r neg M V.
  induction V as [t neg|id neg nd t x tid M En Ech Et V IH|id nd t x tt En Ech Et
                  |id nd t x tt M En Ech Et V IH]; [constructor| | |].
  - eapply LCC_pos; eauto.
  - eapply LCC_pos_last; eauto.
  - eapply LCC_neg; eauto.
Qed.

(** the pairs of a substitution object name existing variables *)
Definition cpairs_in_range (s : snap) (pairs : list (nat * edge)) : Prop :=
  forall v r, In (v, r) pairs -> v < nlevels s.

Lemma pschC_widen : forall s k hs pairs c, WF s -> pairs_okC s pairs -> cpairs_in_range s pairs ->
  ceq (pschC (widen s k hs) pairs c) (pschC s pairs c).
Proof.
  intros s k hs pairs c H F R l. unfold pschC. simpl s_l2v.
  rewrite (nth_error_app_seq (s_l2v s) (nlevels s) k l eq_refl).
  destruct (Nat.ltb_spec l (nlevels s)) as [A|A].
  - destruct (nth_error (s_l2v s) l) as [v|]; [|reflexivity].
    destruct (assoc_nat pairs v) as [r|] eqn:E; [|reflexivity].
    rewrite (dfunC_widen s k hs r c H); [reflexivity|]. apply (F v r). apply assoc_nat_In. exact E.
  - assert (En : nth_error (s_l2v s) l = None) by (apply nth_error_None; exact A). rewrite En.
    destruct (Nat.ltb_spec l (nlevels s + k)) as [B|B]; [|reflexivity].
    destruct (assoc_nat pairs l) as [r|] eqn:E; [|reflexivity].
    apply assoc_nat_In in E. specialize (R l r E). lia.
Qed.

Lemma pairs_okC_widen : forall s k hs pairs, pairs_okC s pairs -> pairs_okC (widen s k hs) pairs.
Proof. intros s k hs pairs F v r Hin. apply ref_ok_widen. apply (F v r Hin). Qed.

Lemma cqentry_ok_widen : forall (Sg : N -> option (list (nat * edge))) s k hs code args r, WF s ->
  (forall id pairs, Sg id = Some pairs -> cpairs_in_range s pairs) ->
  cqentry_ok Sg s code args r -> cqentry_ok Sg (widen s k hs) code args r.
Proof.
  intros Sg s k hs code args r H HR [Q1 [Q2 [Q3 Q4]]]. split; [|split; [|split]].
  - intros q f vars Hc Ha. destruct (Q1 q f vars Hc Ha) as [phi [L [D [V Dr]]]].
    exists phi, L. split; [apply denc_widen; assumption|]. split; [apply vchainc_widen; exact V|].
    apply denc_widen; assumption.
  - intros f vars Hc Ha. destruct (Q2 f vars Hc Ha) as [phi [M [D [V Dr]]]].
    exists phi, M. split; [apply denc_widen; assumption|]. split; [apply lchainc_widen; exact V|].
    apply denc_widen; assumption.
  - intros q o f g vars Hc Ha. destruct (Q3 q o f g vars Hc Ha) as [phi [psi [L [D [D' [V Dr]]]]]].
    exists phi, psi, L. split; [apply denc_widen; assumption|]. split; [apply denc_widen; assumption|].
    split; [apply vchainc_widen; exact V|]. apply denc_widen; assumption.
  - intros id f Hc Ha. destruct (Q4 id f Hc Ha) as [pairs [phi [Es [F [D Dr]]]]].
    exists pairs, phi. split; [exact Es|]. split; [apply pairs_okC_widen; exact F|].
    split; [apply denc_widen; assumption|].
    apply (denc_ext (widen s k hs) r (psubstC s pairs phi)); [apply denc_widen; assumption|].
    intros c0 Hc0. unfold psubstC. symmetry.
    apply (denc_cext s f phi H D); [apply pschC_bchoice; exact Hc0 | apply pschC_bchoice; exact Hc0|].
    apply pschC_widen; [exact H | exact F | apply (HR id pairs Es)].
Qed.

Lemma qcacheokc_widen : forall C (cget : C -> N -> list edge -> option edge)
  (Sg : N -> option (list (nat * edge))) s k hs c, WF s ->
  (forall id pairs, Sg id = Some pairs -> cpairs_in_range s pairs) ->
  QCacheOKC cget Sg s c -> QCacheOKC cget Sg (widen s k hs) c.
Proof.
  intros C cget Sg s k hs c H HR [O Q]. split; [apply ccacheok_widen; assumption|].
  intros code args r E. apply cqentry_ok_widen; [exact H | exact HR | apply (Q _ _ _ E)].
Qed.

(** ** Functions over variables under [set_handles] / [extends] *)

Lemma semc_set_handles : forall s hs f e c, semc (set_handles s hs) f e c = semc s f e c.
Proof. intros s hs f e c. rewrite widen_set_handles. apply semc_widen. Qed.

Lemma cbfun_of_set_handles : forall s hs e a, cbfun_of (set_handles s hs) e a = cbfun_of s e a.
Proof.
  intros s hs e a. unfold cbfun_of.
  change (CFUEL (set_handles s hs)) with (CFUEL s).
  change (choice_of (set_handles s hs) a) with (choice_of s a).
  rewrite semc_set_handles. reflexivity.
Qed.

Lemma cbfun_of_extends : forall s s' e a, WF s -> extends s s' -> ref_ok s (eref e) ->
  cbfun_of s' e a = cbfun_of s e a.
Proof.
  intros s s' e a H X A. unfold cbfun_of, CFUEL, choice_of.
  rewrite (ext_nlevels _ _ X), (ext_l2v _ _ X), (semc_extends s s' H X _ e _ A). reflexivity.
Qed.

(** a function of a table reads only the table's variables *)
Lemma cbfun_of_local : forall s e a a', WF s -> (forall v, v < nlevels s -> a v = a' v) ->
  cbfun_of s e a = cbfun_of s e a'.
Proof.
  intros s e a a' H Hag. unfold cbfun_of.
  rewrite (BuildCanonBcdd.semc_ext_lt s H _ e (choice_of s a) (choice_of s a')); [reflexivity|].
  intros l Hl. unfold choice_of. destruct (vl_spec s H l Hl) as [E [_ Hv]]. rewrite E, (Hag _ Hv). reflexivity.
Qed.

(** equal functions of the variables = the same denotation *)
Lemma cbfun_eq_denc : forall s e1 e2 phi, BcOK s -> DenC s e1 phi -> ref_ok s (eref e2) ->
  (forall a, cbfun_of s e1 a = cbfun_of s e2 a) -> DenC s e2 phi.
Proof.
  intros s e1 e2 phi B D1 O2 Heq.
  destruct (denc_exists s e2 B O2) as [psi D2].
  apply (denc_ext s e2 psi phi D2). intros c Hc.
  rewrite (denc_bfun s B e2 psi c D2 Hc), (denc_bfun s B e1 phi c D1 Hc). symmetry. apply Heq.
Qed.

(** ** Garbage collection: [collected] on well-formed tables of any kind *)

Section CollectedWF.
Variables s sg : snap.
Hypothesis H : WF s.
Hypothesis Cg : collected s sg.

Lemma cw_old : forall id nd, find_node sg id = Some nd -> find_node s id = Some nd.
Proof. intros id nd E. apply (proj1 (co_nodes s sg Cg id nd) E). Qed.

Lemma cw_nlevels : nlevels sg = nlevels s.
Proof. unfold nlevels. rewrite (co_l2v s sg Cg). reflexivity. Qed.

Lemma cw_term_val : forall t, term_val sg t = term_val s t.
Proof. intros t. unfold term_val. rewrite (co_terms s sg Cg). reflexivity. Qed.

Lemma cw_keeps : forall r, ref_ok s r -> reachable s (handle_refs s) r -> ref_ok sg r.
Proof.
  intros [t|id] Hok R; simpl in *.
  - rewrite cw_term_val. exact Hok.
  - destruct Hok as [nd E]. exists nd. apply (co_nodes s sg Cg). auto.
Qed.

Lemma cw_rlevel : forall r, ref_ok sg r -> rlevel sg r = rlevel s r.
Proof.
  intros [t|id] Hok; simpl.
  - apply cw_nlevels.
  - destruct Hok as [nd E]. rewrite E, (cw_old id nd E). reflexivity.
Qed.

Lemma cw_child : forall id nd e, find_node sg id = Some nd -> In e (nchildren nd) ->
  ref_ok sg (eref e) /\ nlevel nd < rlevel sg (eref e).
Proof.
  intros id nd e E He. destruct (proj1 (co_nodes s sg Cg id nd) E) as [Es R].
  destruct (wf_child s H id nd e Es He) as [Ok Lv].
  assert (Okg : ref_ok sg (eref e)) by (apply cw_keeps; [exact Ok | apply (reach_child s _ id nd e R Es He)]).
  split; [exact Okg | rewrite (cw_rlevel _ Okg); exact Lv].
Qed.

Lemma collected_wf_gen : WF sg.
Proof.
  constructor.
  - rewrite (co_v2l s sg Cg), (co_l2v s sg Cg). apply (wf_perm_len s H).
  - rewrite (co_v2l s sg Cg), (co_l2v s sg Cg). apply (wf_perm_v2l s H).
  - rewrite (co_v2l s sg Cg), (co_l2v s sg Cg). apply (wf_perm_l2v s H).
  - intros id nd E. rewrite (co_kind s sg Cg). apply (wf_arity s H id nd (cw_old id nd E)).
  - intros id nd E. apply (wf_stored s H id nd (cw_old id nd E)).
  - intros id nd E. rewrite cw_nlevels. apply (wf_level s H id nd (cw_old id nd E)).
  - apply cw_child.
  - intros id nd E. pose proof (wf_reduced s H id nd (cw_old id nd E)) as R.
    unfold reduced in *. rewrite (co_kind s sg Cg). destruct (s_kind s); try exact R.
    destruct R as [hi [E1 E2]]. exists hi. split; [exact E1|]. intros t Et. rewrite cw_term_val.
    apply E2. exact Et.
  - intros Hkk id nd e E He. rewrite (co_kind s sg Cg) in Hkk.
    apply (wf_tags s H Hkk id nd e (cw_old id nd E) He).
  - intros i1 i2 n1 n2 E1 E2. apply (wf_unique s H i1 i2 n1 n2 (cw_old _ _ E1) (cw_old _ _ E2)).
  - rewrite (co_terms s sg Cg). apply (wf_term_ids s H).
  - rewrite (co_terms s sg Cg). apply (wf_term_vals s H).
  - intros h Hh. rewrite (co_handles s sg Cg) in Hh. destruct (wf_handles s H h Hh) as [Ok Tg].
    split; [|rewrite (co_kind s sg Cg); exact Tg].
    apply cw_keeps; [exact Ok|]. apply reach_root. unfold handle_refs. apply in_map_iff. exists h. auto.
Qed.

Lemma collected_sub_gen : extends sg s.
Proof. constructor; try (symmetry; apply Cg). exact cw_old. Qed.

End CollectedWF.

(** the BCDD form of [collected_ok] (Mgr/OomGc.v) *)
Theorem collected_ok_c : forall s sg, BcOK s -> collected s sg ->
  BcOK sg /\ extends sg s /\
  (forall h, In h (s_handles s) -> ref_ok sg (eref (snd h))).
Proof.
  intros s sg B Cg. pose proof (collected_wf_gen s sg (bc_wf s B) Cg) as Hg.
  split; [|split].
  - constructor; [exact Hg | rewrite (co_kind s sg Cg); apply (bc_kind s B)
                  | rewrite (co_terms s sg Cg); apply (bc_term s B)].
  - apply (collected_sub_gen s sg Cg).
  - intros h Hh. rewrite <- (co_handles s sg Cg) in Hh. apply (wf_handles sg Hg h Hh).
Qed.

(** ** [set_var_order_model_c] in the vocabulary of the state machine *)

Lemma fold_level_swap_c_terms : forall sw s, s_terms (fold_left level_swap_c sw s) = s_terms s.
Proof. induction sw as [|k sw IH]; intros s; simpl; [reflexivity | rewrite IH; reflexivity]. Qed.

Lemma reorder_c_terms : forall s order, s_terms (set_var_order_model_c s order) = s_terms s.
Proof. intros. unfold set_var_order_model_c. apply fold_level_swap_c_terms. Qed.

(** [cbfun_of] is [eval_vars] read as a Boolean *)
Lemma cbfun_eval_vars : forall s e a, WF s -> s_kind s = KBcdd ->
  cbfun_of s e a = match eval_vars s e a with Some 1%N => true | _ => false end.
Proof.
  intros s e a H Hk. unfold cbfun_of, eval_vars, sem_edge, CFUEL. rewrite Hk.
  rewrite (BuildCanonBcdd.semc_ext_lt s H _ e (choice_of s a) (asg_choice s a)).
  - destruct (semc s (S (nlevels s)) e (asg_choice s a)) as [[|]|]; reflexivity.
  - intros l Hl. unfold choice_of, asg_choice.
    destruct (nth_error (s_l2v s) l) as [v|] eqn:E.
    + rewrite (nth_error_nth _ _ 0 E). reflexivity.
    + apply nth_error_None in E. unfold nlevels in Hl. lia.
Qed.

Section ReorderC.
Variable s : snap.
Variable order : list nat.
Hypothesis B : BcOK s.
Hypothesis Hnd : NoDup order.
Hypothesis Hr : Forall (fun v => v < nlevels s) order.

Let s' := set_var_order_model_c s order.
Let H : WF s := bc_wf s B.
Let Hk : s_kind s = KBcdd := bc_kind s B.

Lemma reorder_c_facts :
  WF s' /\ s_kind s' = s_kind s /\ nlevels s' = nlevels s /\ s_handles s' = s_handles s
  /\ (forall h a, In h (s_handles s) ->
        eval_vars s' (snd h) a = eval_vars s (snd h) a /\ exists v, eval_vars s (snd h) a = Some v).
Proof.
  destruct (set_var_order_model_correct_c s order H Hk Hnd Hr) as [A [B0 [C [D [G _]]]]].
  split; [exact A|]. split; [exact B0|]. split; [exact C|]. split; [exact D | exact G].
Qed.

Lemma reorder_c_bcok : BcOK s'.
Proof.
  destruct reorder_c_facts as [A [B0 [C [D G]]]]. constructor.
  - exact A.
  - rewrite B0. exact Hk.
  - unfold s'. rewrite reorder_c_terms. apply (bc_term s B).
Qed.

Lemma reorder_c_handles : s_handles s' = s_handles s.
Proof. apply reorder_c_facts. Qed.

Lemma reorder_c_nlevels : nlevels s' = nlevels s.
Proof. apply reorder_c_facts. Qed.

Lemma reorder_c_handle_ok : forall h, In h (s_handles s) -> ref_ok s' (eref (snd h)).
Proof.
  intros h Hh. apply (wf_handles s' (bc_wf s' reorder_c_bcok)). rewrite reorder_c_handles. exact Hh.
Qed.

(** every handle denotes the same function of the variables *)
Lemma reorder_c_bfun : forall h a, In h (s_handles s) ->
  cbfun_of s' (snd h) a = cbfun_of s (snd h) a.
Proof.
  intros h a Hh. destruct reorder_c_facts as [A [B0 [C [D G]]]].
  rewrite (cbfun_eval_vars s' (snd h) a A) by (rewrite B0; exact Hk).
  rewrite (cbfun_eval_vars s (snd h) a H Hk).
  destruct (G h a Hh) as [E _]. rewrite E. reflexivity.
Qed.

(** the variables named in the request end up in the requested relative order *)
Lemma reorder_c_respects : forall a b, a < b < length order ->
  nth (nth a order 0) (s_v2l s') 0 < nth (nth b order 0) (s_v2l s') 0.
Proof. apply (set_var_order_model_respects_c s order H Hk Hnd Hr). Qed.

End ReorderC.

(** ** The public operators at the level of the full cache invariant *)

Section OpsQ.
Variable lt : edge -> edge -> bool.
Variable C : Type.
Variable cget : C -> N -> list edge -> option edge.
Variable cadd : C -> N -> list edge -> edge -> C.
Hypothesis Hlossy : lossyC cget cadd.
Variable Sg : N -> option (list (nat * edge)).

Lemma capply_op_frame : forall o fuel s c f g s' c' r,
  capply_op lt C cget cadd fuel s c o f g = Some (s', c', r) -> serves_fromC cget c c'.
Proof.
  intros o fuel s c f g s' c' r E.
  assert (Bin : forall op f0 g0 s1 c1 r1,
             capply_bin lt C cget cadd fuel s c op f0 g0 = Some (s1, c1, r1) -> serves_fromC cget c c1)
    by (intros; eapply (capply_bin_frame lt C cget cadd Hlossy); eauto).
  destruct o; unfold capply_op in E;
    first [ apply (Bin _ _ _ _ _ _ E)
          | eapply (onot_frame C cget); [|exact E]; intros s1 c1 r1 E1; apply (Bin _ _ _ _ _ _ E1) ].
Qed.

Theorem qc_apply_op : forall o s c f g phi psi, BcOK s -> QCacheOKC cget Sg s c ->
  DenC s f phi -> DenC s g psi ->
  qcresult_ok cget Sg s (capply_op lt C cget cadd (S (nlevels s)) s c o f g)
              (fun c0 => eval_bop o (phi c0) (psi c0)).
Proof.
  intros o s c f g phi psi B Q Df Dg. apply (qcresult_of_result C cget Sg s c _ _ B Q).
  - apply (capply_op_ok lt C cget cadd Hlossy o _ s c f g phi psi B (proj1 Q) Df Dg). lia.
  - intros s' c' r E. apply (capply_op_frame _ _ _ _ _ _ _ _ _ E).
Qed.

End OpsQ.

(** ** Slots *)

Lemma creg_fn_In : forall reg id pairs, creg_fn reg id = Some pairs -> In (id, pairs) reg.
Proof.
  induction reg as [|[i p] r IH]; intros id pairs E; simpl in E; [discriminate|].
  destruct (N.eqb_spec id i) as [->|Hne]; [inversion E; subst; left; reflexivity | right; auto].
Qed.

Lemma creg_roots_In : forall reg h,
  In h (creg_roots reg) <-> exists id pairs v e, In (id, pairs) reg /\ In (v, e) pairs /\ h = (id, e).
Proof.
  intros reg h. unfold creg_roots. rewrite in_flat_map. split.
  - intros [[id pairs] [Hin Hm]]. simpl in Hm. apply in_map_iff in Hm. destruct Hm as [[v e] [<- Hp]].
    exists id, pairs, v, e. auto.
  - intros [id [pairs [v [e [Hin [Hp ->]]]]]]. exists (id, pairs). split; [exact Hin|].
    simpl. apply in_map_iff. exists (v, e). auto.
Qed.
