(** * A concrete BCDD history through every kind of call, and the theorems instantiated on it

    [exc_ops]: 26 calls on a complement-edge manager with 3 variables covering
    all 15 constructors of [hop] (with a substitution object - one of whose
    replacement edges is complemented - that is used again after a collection
    and a reordering, a variable added late, and [not (equiv (xor f x3) x3)]
    coming back to the very edge of [f]), run with an unbounded cache and edge
    order "always f < g".
    [exc_fresh]: a fresh manager with 4 variables that is only brought into the
    same variable order and builds the two operands, run WITHOUT cache and
    with edge order "never f < g".
    Everything here is computed by [vm_compute] on the executable model; the
    theorems of Mgr/HistoryCThms.v / HistoryCSpec.v are then applied to the
    computed states (their hypotheses are satisfiable, their conclusions are
    about non-trivial tables with complemented edges). *)

From Coq Require Import List NArith PArith Bool Arith Lia FMapPositive.
From OxiVerif Require Import DD.Table DD.TableProofs DD.Sem DD.Build DD.Apply DD.ApplyProofs
  DD.ApplyEvalProofs DD.ConfigApply DD.Quant DD.QuantSpecProofs DD.QuantTopProofs
  DD.ApplyBcdd DD.ApplyBcddProofs DD.ApplyBcddEval DD.QuantBcdd DD.QuantBcddTop
  Mgr.History Mgr.HistoryBase Mgr.HistoryProofs Mgr.HistoryThms Mgr.HistorySpec Mgr.HistoryExamples
  Mgr.HistoryC Mgr.HistoryCBase Mgr.HistoryCProofs Mgr.HistoryCThms Mgr.HistoryCSpec.
Import ListNotations.
Local Open Scope N_scope.

(** ** Deciding equality of two diagram functions by enumeration
    ([all_asgs], [bfun_eqb] of Mgr/HistoryExamples.v) *)

Lemma cbfun_eq_enum : forall s1 s2 e1 e2 n, WF s1 -> WF s2 -> nlevels s1 = n -> nlevels s2 = n ->
  bfun_eqb n (cbfun_of s1 e1) (cbfun_of s2 e2) = true ->
  forall a, cbfun_of s1 e1 a = cbfun_of s2 e2 a.
Proof.
  intros s1 s2 e1 e2 n H1 H2 N1 N2 Hb a. destruct (all_asgs_cover n a) as [a' [Hin Hag]].
  unfold bfun_eqb in Hb. rewrite forallb_forall in Hb. specialize (Hb a' Hin). apply eqb_prop in Hb.
  rewrite (cbfun_of_local s1 e1 a a' H1) by (rewrite N1; exact Hag).
  rewrite (cbfun_of_local s2 e2 a a' H2) by (rewrite N2; exact Hag). exact Hb.
Qed.

Lemma cbfun_eq_enum_spec : forall s e n (F : bfun), WF s -> nlevels s = n ->
  (forall a a', (forall v, (v < n)%nat -> a v = a' v) -> F a = F a') ->
  bfun_eqb n (cbfun_of s e) F = true -> forall a, cbfun_of s e a = F a.
Proof.
  intros s e n F H N Hloc Hb a. destruct (all_asgs_cover n a) as [a' [Hin Hag]].
  unfold bfun_eqb in Hb. rewrite forallb_forall in Hb. specialize (Hb a' Hin). apply eqb_prop in Hb.
  rewrite (cbfun_of_local s e a a' H) by (rewrite N; exact Hag). rewrite Hb. symmetry. apply Hloc. exact Hag.
Qed.

(** ** Configuration A: unbounded cache, [f < g] always true *)

Definition ltA : edge -> edge -> bool := fun _ _ => true.
Notation stepA := (hstep_c ltA eacache eac_get eac_add []).
Notation runA := (hrun_c ltA eacache eac_get eac_add []).
Lemma cemptyA : forall k a, eac_get [] k a = None.
Proof. reflexivity. Qed.

(** ** Configuration B: no cache, [f < g] never true *)

Definition ltB : edge -> edge -> bool := fun _ _ => false.
Notation stepB := (hstep_c ltB unit enc_get enc_add tt).
Notation runB := (hrun_c ltB unit enc_get enc_add tt).
Lemma cemptyB : forall k a, enc_get tt k a = None.
Proof. reflexivity. Qed.

(** ** The long history *)

Definition exc_ops : list hop :=
  [ HVar 0 0 false;                       (* x0 *)
    HVar 1 1 false;                       (* x1 *)
    HVar 2 2 false;                       (* x2 *)
    HConst 3 false;                       (* false = the complemented edge to the terminal *)
    HBin OAnd 4 0 1;                      (* x0 /\ x1 *)
    HBin OOr 5 4 2;                       (* f = x0 /\ x1 \/ x2  (or = not nor: tag flips) *)
    HNot 6 5;                             (* ~f: the tag flip *)
    HIte 7 0 1 2;                         (* if x0 then x1 else x2 *)
    HQuant QExists 8 5 1;                 (* exists x1. f  (not (forall-and (not t) (not e))) *)
    HApplyQuant QForall OOr 9 0 2 1;      (* forall x1. x0 \/ x2  (dispatch: not (exists. and (not f) (not g))) *)
    HVar 11 2 true;                       (* ~x2 *)
    HBin OAnd 10 0 11;                    (* the cube x0 /\ ~x2: a complemented edge *)
    HRestrict 12 5 10;
    HNewSubst [(0%nat, 1); (1%nat, 6)];   (* x0 := x1, x1 := ~f (a complemented replacement); id 0 *)
    HSubst 13 5 0;
    HClone 14 5;
    HDrop 6;                              (* ~f now lives only inside the substitution object *)
    HGc;
    HSetVarOrder [2%nat; 0%nat; 1%nat];
    HAddVars 1;
    HVar 15 3 false;                      (* the new variable *)
    HBin OXor 16 5 15;                    (* f xor x3 *)
    HSubst 17 7 0;                        (* the old substitution object, after gc + reordering *)
    HBin OEquiv 18 16 15;                 (* (f xor x3) <-> x3  =  ~f *)
    HNot 19 18;                           (* = f: must be the edge of slot 5 *)
    HGc ].

Definition exc_stA : hstate_c eacache :=
  match runA (hinit_c eacache [] 3) exc_ops with Some st => st | None => hinit_c eacache [] 0 end.

Lemma exc_preA : hops_pre_cb ltA eacache eac_get eac_add [] (hinit_c eacache [] 3) exc_ops = true.
Proof. vm_compute. reflexivity. Qed.

Lemma exc_runA : runA (hinit_c eacache [] 3) exc_ops = Some exc_stA.
Proof. vm_compute. reflexivity. Qed.

(** every constructor occurs ([hop_tag] of Mgr/HistoryExamples.v) *)
Lemma exc_ops_cover : forallb (fun t => existsb (fun o => Nat.eqb (hop_tag o) t) exc_ops) (seq 0 15) = true
                      /\ length exc_ops = 26%nat.
Proof. vm_compute. auto. Qed.

(** the run is not trivial: nodes were created, removed and reordered, and
    complemented edges occur in slots, in nodes and in the substitution object *)
Lemma exc_stA_shape :
  PositiveMap.cardinal (s_nodes (hc_s eacache exc_stA)) = 16%nat /\
  s_l2v (hc_s eacache exc_stA) = [2; 0; 1; 3]%nat /\
  s_v2l (hc_s eacache exc_stA) = [1; 2; 0; 3]%nat /\
  length (s_handles (hc_s eacache exc_stA)) = 19%nat /\
  hc_next eacache exc_stA = 1 /\
  wf_b (hc_s eacache exc_stA) = true /\
  existsb (fun h : N * edge => etag (snd h)) (s_handles (hc_s eacache exc_stA)) = true /\
  existsb (fun p : positive * node => existsb etag (nchildren (snd p)))
          (PositiveMap.elements (s_nodes (hc_s eacache exc_stA))) = true /\
  existsb (fun p : N * cpairs => existsb (fun vr : nat * edge => etag (snd vr)) (snd p))
          (hc_reg eacache exc_stA) = true.
Proof. vm_compute. repeat split; reflexivity. Qed.

Theorem exc_reachA : hreach_c ltA eacache eac_get eac_add [] 3 exc_stA.
Proof.
  exists exc_ops. split; [|exact exc_runA].
  apply (hops_pre_cb_spec ltA eacache eac_get eac_add []). exact exc_preA.
Qed.

Theorem exc_invA : HInvC eacache eac_get exc_stA.
Proof. apply (hreach_c_inv ltA eacache eac_get eac_add eac_lossy [] cemptyA 3). exact exc_reachA. Qed.

(** the theorems, instantiated *)
Theorem exc_wfA : wf_b (hc_s eacache exc_stA) = true /\ bcok_b (hc_s eacache exc_stA) = true.
Proof. apply (histc_wf ltA eacache eac_get eac_add eac_lossy [] cemptyA 3). exact exc_reachA. Qed.

(** slots 5, 14 (a clone) and 19 ([not (equiv (xor f x3) x3)]) hold the same
    edge; slot 18 holds the same node with the other tag; slots 5 and 7 hold
    different edges, hence (canonicity) different functions *)
Theorem exc_canonA :
  hget (s_handles (hc_s eacache exc_stA)) 5 = hget (s_handles (hc_s eacache exc_stA)) 14 /\
  hget (s_handles (hc_s eacache exc_stA)) 5 = hget (s_handles (hc_s eacache exc_stA)) 19 /\
  option_map enot (hget (s_handles (hc_s eacache exc_stA)) 5) = hget (s_handles (hc_s eacache exc_stA)) 18 /\
  forall e5 e7, hget (s_handles (hc_s eacache exc_stA)) 5 = Some e5 ->
                hget (s_handles (hc_s eacache exc_stA)) 7 = Some e7 ->
    ~ (forall a, cbfun_of (hc_s eacache exc_stA) e5 a = cbfun_of (hc_s eacache exc_stA) e7 a).
Proof.
  split; [vm_compute; reflexivity|]. split; [vm_compute; reflexivity|]. split; [vm_compute; reflexivity|].
  intros e5 e7 E5 E7 Heq.
  assert (X : e5 = e7).
  { apply (proj2 (histc_canonical ltA eacache eac_get eac_add eac_lossy [] cemptyA 3 exc_stA exc_reachA 5 7 e5 e7 E5 E7)).
    exact Heq. }
  assert (Y : hget (s_handles (hc_s eacache exc_stA)) 5 <> hget (s_handles (hc_s eacache exc_stA)) 7)
    by (vm_compute; discriminate).
  apply Y. rewrite E5, E7, X. reflexivity.
Qed.

(** ** The fresh manager *)

Definition exc_fresh : list hop :=
  [ HSetVarOrder [2%nat; 0%nat; 1%nat];
    HVar 0 0 false; HVar 1 1 false; HVar 2 2 false;
    HBin OAnd 3 0 1;
    HBin OOr 4 3 2;                       (* x0 /\ x1 \/ x2 *)
    HIte 5 0 1 2 ].                       (* if x0 then x1 else x2 *)

Definition exc_stB : hstate_c unit :=
  match runB (hinit_c unit tt 4) exc_fresh with Some st => st | None => hinit_c unit tt 0 end.

Lemma exc_preB : hops_pre_cb ltB unit enc_get enc_add tt (hinit_c unit tt 4) exc_fresh = true.
Proof. vm_compute. reflexivity. Qed.

Lemma exc_runB : runB (hinit_c unit tt 4) exc_fresh = Some exc_stB.
Proof. vm_compute. reflexivity. Qed.

Theorem exc_reachB : hreach_c ltB unit enc_get enc_add tt 4 exc_stB.
Proof.
  exists exc_fresh. split; [|exact exc_runB].
  apply (hops_pre_cb_spec ltB unit enc_get enc_add tt). exact exc_preB.
Qed.

Lemma exc_same_order :
  s_l2v (hc_s eacache exc_stA) = s_l2v (hc_s unit exc_stB) /\ s_v2l (hc_s eacache exc_stA) = s_v2l (hc_s unit exc_stB).
Proof. vm_compute. split; reflexivity. Qed.

(** the operands in the two managers *)
Definition slot_edge (C : Type) (st : hstate_c C) (k : N) : edge :=
  match cslot C st k with Some e => e | None => mkEdge (RT 0) false end.

Definition gA5 : bfun := cbfun_of (hc_s eacache exc_stA) (slot_edge eacache exc_stA 5).
Definition gA7 : bfun := cbfun_of (hc_s eacache exc_stA) (slot_edge eacache exc_stA 7).

Lemma exc_holdsA5 : holds_c eacache exc_stA 5 gA5.
Proof. exists (slot_edge eacache exc_stA 5). split; [vm_compute; reflexivity | intros a; unfold gA5; reflexivity]. Qed.
Lemma exc_holdsA7 : holds_c eacache exc_stA 7 gA7.
Proof. exists (slot_edge eacache exc_stA 7). split; [vm_compute; reflexivity | intros a; unfold gA7; reflexivity]. Qed.

Lemma exc_wfB : WF (hc_s unit exc_stB).
Proof. apply wf_b_spec. vm_compute. reflexivity. Qed.

Lemma exc_WFA : WF (hc_s eacache exc_stA).
Proof. apply wf_b_spec. vm_compute. reflexivity. Qed.

Lemma exc_nA : nlevels (hc_s eacache exc_stA) = 4%nat.
Proof. vm_compute. reflexivity. Qed.
Lemma exc_nB : nlevels (hc_s unit exc_stB) = 4%nat.
Proof. vm_compute. reflexivity. Qed.

Lemma exc_enum4 : bfun_eqb 4 (cbfun_of (hc_s unit exc_stB) (slot_edge unit exc_stB 4))
                             (cbfun_of (hc_s eacache exc_stA) (slot_edge eacache exc_stA 5)) = true.
Proof. vm_compute. reflexivity. Qed.
Lemma exc_enum5 : bfun_eqb 4 (cbfun_of (hc_s unit exc_stB) (slot_edge unit exc_stB 5))
                             (cbfun_of (hc_s eacache exc_stA) (slot_edge eacache exc_stA 7)) = true.
Proof. vm_compute. reflexivity. Qed.

Lemma exc_slotB4 : cslot unit exc_stB 4 = Some (slot_edge unit exc_stB 4).
Proof. vm_compute. reflexivity. Qed.
Lemma exc_slotB5 : cslot unit exc_stB 5 = Some (slot_edge unit exc_stB 5).
Proof. vm_compute. reflexivity. Qed.

(** slot 4 / slot 5 of the fresh manager hold the same functions as slot 5 /
    slot 7 of the long-lived one (decided over all 16 assignments) *)
Lemma exc_holdsB4 : holds_c unit exc_stB 4 gA5.
Proof.
  exists (slot_edge unit exc_stB 4). split; [exact exc_slotB4|].
  exact (cbfun_eq_enum (hc_s unit exc_stB) (hc_s eacache exc_stA) (slot_edge unit exc_stB 4) (slot_edge eacache exc_stA 5)
                       4%nat exc_wfB exc_WFA exc_nB exc_nA exc_enum4).
Qed.
Lemma exc_holdsB5 : holds_c unit exc_stB 5 gA7.
Proof.
  exists (slot_edge unit exc_stB 5). split; [exact exc_slotB5|].
  exact (cbfun_eq_enum (hc_s unit exc_stB) (hc_s eacache exc_stA) (slot_edge unit exc_stB 5) (slot_edge eacache exc_stA 7)
                       4%nat exc_wfB exc_WFA exc_nB exc_nA exc_enum5).
Qed.

(** C08 / C01: the exclusive-or computed in the long-lived manager (after 26
    calls, two collections, a reordering, an added variable; cache, swapped
    operands) and in the fresh one (no cache) denote the same function, carry
    the same complement tag and have the same number of nodes *)
Theorem exc_fresh_equiv :
  exists stA' stB' r1 r2,
    stepA exc_stA (HBin OXor 20 5 7) = Some stA' /\ stepB exc_stB (HBin OXor 6 4 5) = Some stB' /\
    cslot eacache stA' 20 = Some r1 /\ cslot unit stB' 6 = Some r2 /\
    (forall a, cbfun_of (hc_s eacache stA') r1 a = lift2 OXor gA5 gA7 a) /\
    (forall a, cbfun_of (hc_s unit stB') r2 a = lift2 OXor gA5 gA7 a) /\
    etag r1 = etag r2 /\
    count_reach (hc_s eacache stA') r1 = count_reach (hc_s unit stB') r2 /\
    wf_b (hc_s eacache stA') = true /\ wf_b (hc_s unit stB') = true.
Proof.
  apply (histc_fresh_equiv ltA ltB eacache unit eac_get eac_add enc_get enc_add eac_lossy enc_lossy [] tt cemptyA cemptyB
           3 4 exc_ops exc_fresh exc_stA exc_stB).
  - apply (hops_pre_cb_spec ltA eacache eac_get eac_add []). exact exc_preA.
  - exact exc_runA.
  - apply (hops_pre_cb_spec ltB unit enc_get enc_add tt). exact exc_preB.
  - exact exc_runB.
  - apply exc_same_order.
  - apply exc_same_order.
  - apply SpcBin; [exact exc_holdsA5 | exact exc_holdsA7].
  - apply SpcBin; [exact exc_holdsB4 | exact exc_holdsB5].
Qed.

(** what the two results actually are: (node count, node count, tag, tag, same reference?) *)
Definition exc_fresh_observed :=
  match stepA exc_stA (HBin OXor 20 5 7), stepB exc_stB (HBin OXor 6 4 5) with
  | Some a, Some b =>
    (count_reach (hc_s eacache a) (slot_edge eacache a 20),
     count_reach (hc_s unit b) (slot_edge unit b 6),
     etag (slot_edge eacache a 20), etag (slot_edge unit b 6),
     ref_eqb (eref (slot_edge eacache a 20)) (eref (slot_edge unit b 6)))
  | _, _ => (0, 0, false, false, true)
  end.

(** 4 nodes each (3 inner nodes + the terminal), both edges complemented, different node ids *)
Lemma exc_fresh_values : exc_fresh_observed = (4, 4, true, true, false).
Proof. vm_compute. reflexivity. Qed.

(** ** The hypotheses of [hspec_c] for quantification, restriction and substitution are satisfiable *)

(** slot 1 holds the variable set {x1}; slot 10 the cube x0 /\ ~x2 *)
Lemma exc_enum_vars : bfun_eqb 4 (cbfun_of (hc_s eacache exc_stA) (slot_edge eacache exc_stA 1)) (conj_vars [1%nat]) = true.
Proof. vm_compute. reflexivity. Qed.
Lemma exc_enum_cube : bfun_eqb 4 (cbfun_of (hc_s eacache exc_stA) (slot_edge eacache exc_stA 10))
                                 (cube_fun [(0%nat, true); (2%nat, false)]) = true.
Proof. vm_compute. reflexivity. Qed.
Lemma exc_slotA1 : cslot eacache exc_stA 1 = Some (slot_edge eacache exc_stA 1).
Proof. vm_compute. reflexivity. Qed.
Lemma exc_slotA10 : cslot eacache exc_stA 10 = Some (slot_edge eacache exc_stA 10).
Proof. vm_compute. reflexivity. Qed.

Lemma exc_holds_vars : holds_c eacache exc_stA 1 (conj_vars [1%nat]).
Proof.
  exists (slot_edge eacache exc_stA 1). split; [exact exc_slotA1|].
  apply (cbfun_eq_enum_spec _ _ 4%nat _ exc_WFA exc_nA); [|exact exc_enum_vars].
  apply conj_vars_local. intros v [<-|[]]. lia.
Qed.

Lemma exc_holds_cube : holds_c eacache exc_stA 10 (cube_fun [(0%nat, true); (2%nat, false)]).
Proof.
  exists (slot_edge eacache exc_stA 10). split; [exact exc_slotA10|].
  apply (cbfun_eq_enum_spec _ _ 4%nat _ exc_WFA exc_nA); [|exact exc_enum_cube].
  apply cube_fun_local. intros p [<-|[<-|[]]]; simpl; lia.
Qed.

(** exists x1. (slot 5) *)
Theorem exc_spec_quant :
  exists st', stepA exc_stA (HQuant QExists 21 5 1) = Some st' /\
              holds_c eacache st' 21 (exists_s [1%nat] gA5).
Proof.
  destruct (hstep_c_spec ltA eacache eac_get eac_add eac_lossy [] cemptyA exc_stA _ 21 _ exc_invA
              (SpcQuant eacache exc_stA QExists 21 5 1 gA5 [1%nat] exc_holdsA5 exc_holds_vars
                 ltac:(intros v [<-|[]]; rewrite exc_nA; lia) ltac:(discriminate)))
    as [st' [E [_ [_ Hd]]]].
  exists st'. split; [exact E | exact Hd].
Qed.

(** (slot 5) restricted to x0 = true, x2 = false *)
Theorem exc_spec_restrict :
  exists st', stepA exc_stA (HRestrict 21 5 10) = Some st' /\
              holds_c eacache st' 21 (restrict_s [(0%nat, true); (2%nat, false)] gA5).
Proof.
  destruct (hstep_c_spec ltA eacache eac_get eac_add eac_lossy [] cemptyA exc_stA _ 21 _ exc_invA
              (SpcRestrict eacache exc_stA 21 5 10 gA5 [(0%nat, true); (2%nat, false)] exc_holdsA5 exc_holds_cube
                 ltac:(repeat constructor; simpl; intuition discriminate)
                 ltac:(intros p [<-|[<-|[]]]; rewrite exc_nA; simpl; lia)))
    as [st' [E [_ [_ Hd]]]].
  exists st'. split; [exact E | exact Hd].
Qed.

(** the substitution object created by call 14, applied once more in the final state *)
Definition exc_rp : cpairs :=
  match creg_fn (hc_reg eacache exc_stA) 0 with Some rp => rp | None => [] end.

Lemma exc_reg0 : creg_fn (hc_reg eacache exc_stA) 0 = Some exc_rp.
Proof. vm_compute. reflexivity. Qed.

Lemma sub_funs_c_refl : forall s rp, sub_funs_c s rp (map (fun p : nat * edge => (fst p, cbfun_of s (snd p))) rp).
Proof.
  intros s rp. unfold sub_funs_c. induction rp as [|p r IH]; simpl; constructor; [|exact IH].
  split; [reflexivity | intros a; reflexivity].
Qed.

Lemma exc_bcokA : BcOK (hc_s eacache exc_stA).
Proof. apply (hic_bc eacache eac_get exc_stA exc_invA). Qed.

Theorem exc_spec_subst :
  exists st', stepA exc_stA (HSubst 21 5 0) = Some st' /\ length exc_rp = 2%nat /\
    existsb (fun vr : nat * edge => etag (snd vr)) exc_rp = true /\
    holds_c eacache st' 21
      (subst_s (map (fun p : nat * edge => (fst p, cbfun_of (hc_s eacache exc_stA) (snd p))) exc_rp) gA5).
Proof.
  destruct (hstep_c_spec ltA eacache eac_get eac_add eac_lossy [] cemptyA exc_stA _ 21 _ exc_invA
              (SpcSubst eacache exc_stA 21 5 0 gA5 exc_rp _ exc_holdsA5
                 (aext_cbfun_of _ exc_bcokA _) exc_reg0 (sub_funs_c_refl _ exc_rp)))
    as [st' [E [_ [_ Hd]]]].
  exists st'. split; [exact E|]. split; [vm_compute; reflexivity|]. split; [vm_compute; reflexivity | exact Hd].
Qed.
