(** * The invariant of the BCDD manager state machine and its preservation by every call

    The complement-edge counterpart of Mgr/HistoryProofs.v, statement by
    statement.

    [HInvC st]: the table is a well-formed BCDD table with its single
    terminal ([BcOK], which includes: every handle slot refers to a stored
    node or the terminal), the apply cache serves only correct entries for all
    operator kinds ([QCacheOKC]), every substitution object names existing
    variables (each once) and stored functions, and the id counter is above
    all ids in use.

    [hstep_c_ok]: for every state satisfying [HInvC], every configuration
    (edge order [lt], any [lossyC] cache with any content that satisfies the
    cache invariant) and every well-formed request ([hop_pre_c]: the operand
    slots are occupied, variables exist, a requested order names no variable
    twice), the call
    - runs to completion ([hstep_c] is not [None]: none of the code's [unwrap]s fires),
    - re-establishes [HInvC],
    - [hframe_c]: changes no slot other than its destination, and every edge
      held by a slot or by a substitution object before the call is still
      stored and denotes the same function of the VARIABLES ([cbfun_of]:
      [semc] through [s_l2v]),
    - [hpost_c]: leaves in its destination the spec function (DD/Sem.v) of the
      operands' functions at the time of the call. *)

From Coq Require Import List NArith PArith Bool Arith Lia FMapPositive.
From OxiVerif Require Import DD.Table DD.TableProofs DD.Canon DD.CanonBcdd DD.Sem DD.Build DD.BuildProofs
  DD.Apply DD.ApplyProofs DD.ApplyEvalProofs DD.ConfigApply DD.ConfigRun
  DD.ApplyBcdd DD.ApplyBcddProofs DD.ApplyBcddIte DD.ApplyBcddEval
  DD.Quant DD.QuantSpecProofs DD.QuantLemmas DD.QuantTopProofs
  DD.QuantBcdd DD.QuantBcddLemmas DD.SubstBcddProofs DD.QuantBcddTop
  DD.FamSpecProofs Mgr.SortOrder Mgr.SortOrderProofs Mgr.LevelSwap Mgr.LevelSwapOrder Mgr.LevelSwapC Mgr.OomGc
  Mgr.History Mgr.HistoryBase Mgr.HistoryGc Mgr.HistoryProofs Mgr.HistoryC Mgr.HistoryCBase.
Import ListNotations.

Local Arguments hset : simpl never.
Local Arguments hget : simpl never.
Local Arguments hdel : simpl never.
Local Arguments cbfun_of : simpl never.

Definition cpairs_wf (s : snap) (pairs : cpairs) : Prop :=
  NoDup (map fst pairs) /\ forall v e, In (v, e) pairs -> v < nlevels s /\ ref_ok s (eref e).

Lemma cpairs_wf_extends : forall s s' pairs, extends s s' -> cpairs_wf s pairs -> cpairs_wf s' pairs.
Proof.
  intros s s' pairs X [Hnd Hp]. split; [exact Hnd|]. intros v e Hin.
  destruct (Hp v e Hin) as [A B]. split; [rewrite (ext_nlevels _ _ X); exact A | apply (ext_ref_ok _ _ _ X B)].
Qed.

Lemma cpairs_wf_widen : forall s k hs pairs, cpairs_wf s pairs -> cpairs_wf (widen s k hs) pairs.
Proof.
  intros s k hs pairs [Hnd Hp]. split; [exact Hnd|]. intros v e Hin.
  destruct (Hp v e Hin) as [A B]. split; [rewrite widen_nlevels; lia | apply ref_ok_widen; exact B].
Qed.

Section HistC.
Variable lt : edge -> edge -> bool.
Variable C : Type.
Variable cget : C -> N -> list edge -> option edge.
Variable cadd : C -> N -> list edge -> edge -> C.
Hypothesis Hlossy : lossyC cget cadd.
Variable cempty : C.
Hypothesis Hempty : forall k a, cget cempty k a = None.

Notation hstate_c := (hstate_c C).
Notation hstep_c := (hstep_c lt C cget cadd cempty).
Notation hrun_c := (hrun_c lt C cget cadd cempty).
Notation mkHC := (mkHC C).
Notation QOK reg := (QCacheOKC cget (creg_fn reg)).

Record HInvC (st : hstate_c) : Prop := mkHInvC {
  hic_bc : BcOK (hc_s C st);
  hic_cache : QOK (hc_reg C st) (hc_s C st) (hc_c C st);
  hic_reg : forall id pairs, In (id, pairs) (hc_reg C st) -> cpairs_wf (hc_s C st) pairs;
  hic_fresh : forall id pairs, In (id, pairs) (hc_reg C st) -> (id < hc_next C st)%N
}.

(** everything a client still holds: the edges in the slots and the
    replacement functions inside the substitution objects *)
Definition croot (st : hstate_c) (e : edge) : Prop :=
  (exists h, In h (s_handles (hc_s C st)) /\ snd h = e) \/
  (exists id pairs v, In (id, pairs) (hc_reg C st) /\ In (v, e) pairs).

Lemma croot_ok : forall st e, HInvC st -> croot st e -> ref_ok (hc_s C st) (eref e).
Proof.
  intros st e I [[h [Hin <-]]|[id [pairs [v [Hin Hp]]]]].
  - apply (bc_handle_ok _ h (hic_bc st I) Hin).
  - apply (proj2 (hic_reg st I id pairs Hin) v e Hp).
Qed.

Lemma cslot_root : forall st k e, cslot C st k = Some e -> croot st e.
Proof.
  intros st k e E. unfold cslot in E. left. exists (k, e). split; [apply hget_In; exact E | reflexivity].
Qed.

Lemma cslot_ok : forall st k e, HInvC st -> cslot C st k = Some e -> ref_ok (hc_s C st) (eref e).
Proof. intros st k e I E. apply (croot_ok st e I). apply (cslot_root st k e E). Qed.

Lemma qokc_empty : forall reg s, QOK reg s cempty.
Proof. intros reg s. split; intros code args r E; rewrite Hempty in E; discriminate. Qed.

Lemma cpairs_range : forall st, HInvC st ->
  forall id pairs, creg_fn (hc_reg C st) id = Some pairs -> cpairs_in_range (hc_s C st) pairs.
Proof.
  intros st I id pairs E v r Hin.
  apply (proj2 (hic_reg st I id pairs (creg_fn_In _ _ _ E)) v r Hin).
Qed.

(** ** Well-formed requests *)

Definition occupied_c (st : hstate_c) (k : N) : Prop := exists e, cslot C st k = Some e.

Definition hop_pre_c (st : hstate_c) (o : hop) : Prop :=
  match o with
  | HConst _ _ => True
  | HVar _ v _ => v < nlevels (hc_s C st)
  | HNot _ a => occupied_c st a
  | HBin _ _ a b => occupied_c st a /\ occupied_c st b
  | HIte _ a b c => occupied_c st a /\ occupied_c st b /\ occupied_c st c
  | HQuant _ _ a vars => occupied_c st a /\ occupied_c st vars
  | HApplyQuant _ _ _ a b vars => occupied_c st a /\ occupied_c st b /\ occupied_c st vars
  | HRestrict _ a cube => occupied_c st a /\ occupied_c st cube
  | HNewSubst pairs =>
    NoDup (map fst pairs) /\
    forall v k, In (v, k) pairs -> v < nlevels (hc_s C st) /\ occupied_c st k
  | HSubst _ a id => occupied_c st a /\ exists pairs, creg_fn (hc_reg C st) id = Some pairs
  | HClone _ a => occupied_c st a
  | HDrop _ => True
  | HGc => True
  | HAddVars _ => True
  | HSetVarOrder order => NoDup order /\ Forall (fun v => v < nlevels (hc_s C st)) order
  end.

(** ** The frame *)

Definition hframe_c (st : hstate_c) (o : hop) (st' : hstate_c) : Prop :=
  (forall x, hdst o <> Some x ->
     hget (s_handles (hc_s C st')) x = hget (s_handles (hc_s C st)) x) /\
  (forall e, croot st e ->
     ref_ok (hc_s C st') (eref e) /\ forall a, cbfun_of (hc_s C st') e a = cbfun_of (hc_s C st) e a) /\
  (changes_order o = false -> order_same (hc_s C st) (hc_s C st')).

(** ** What the destination holds afterwards *)

Definition holds_c (st : hstate_c) (d : N) (F : bfun) : Prop :=
  exists e, cslot C st d = Some e /\ forall a, cbfun_of (hc_s C st) e a = F a.

Definition hpost_c (st : hstate_c) (o : hop) (st' : hstate_c) : Prop :=
  let s := hc_s C st in
  match o with
  | HConst d b => holds_c st' d (const_s b)
  | HVar d v neg => holds_c st' d (fun a => xorb neg (var_s v a))
  | HNot d x =>
    exists f, cslot C st x = Some f /\ holds_c st' d (lift1 negb (cbfun_of s f))
  | HBin op d x y =>
    exists f g, cslot C st x = Some f /\ cslot C st y = Some g /\
      holds_c st' d (lift2 op (cbfun_of s f) (cbfun_of s g))
  | HIte d x y z =>
    exists f g h, cslot C st x = Some f /\ cslot C st y = Some g /\ cslot C st z = Some h /\
      holds_c st' d (ite_s (cbfun_of s f) (cbfun_of s g) (cbfun_of s h))
  | HQuant q d x vars =>
    exists f V, cslot C st x = Some f /\ cslot C st vars = Some V /\
      forall vs, (forall v, In v vs -> v < nlevels s) -> is_varsetC s V vs -> (q = QUnique -> NoDup vs) ->
        holds_c st' d (quant (qfun q) vs (cbfun_of s f))
  | HApplyQuant q op d x y vars =>
    exists f g V, cslot C st x = Some f /\ cslot C st y = Some g /\ cslot C st vars = Some V /\
      forall vs, (forall v, In v vs -> v < nlevels s) -> is_varsetC s V vs -> (q = QUnique -> NoDup vs) ->
        holds_c st' d (quant (qfun q) vs (lift2 op (cbfun_of s f) (cbfun_of s g)))
  | HRestrict d x cube =>
    exists f V, cslot C st x = Some f /\ cslot C st cube = Some V /\
      forall lits, NoDup (map fst lits) -> (forall p, In p lits -> fst p < nlevels s) -> is_cubeC s V lits ->
        holds_c st' d (restrict_s lits (cbfun_of s f))
  | HNewSubst pairs =>
    exists rp, cresolve_pairs (s_handles s) pairs = Some rp /\
      creg_fn (hc_reg C st') (hc_next C st) = Some rp /\ hc_next C st' = N.succ (hc_next C st) /\
      (forall id, id <> hc_next C st -> creg_fn (hc_reg C st') id = creg_fn (hc_reg C st) id) /\
      hc_s C st' = s
  | HSubst d x id =>
    exists f rp, cslot C st x = Some f /\ creg_fn (hc_reg C st) id = Some rp /\
      holds_c st' d (subst_s (map (fun p => (fst p, cbfun_of s (snd p))) rp) (cbfun_of s f))
  | HClone d x => hget (s_handles (hc_s C st')) d = hget (s_handles s) x /\ occupied_c st' d
  | HDrop x => hget (s_handles (hc_s C st')) x = None /\ s_nodes (hc_s C st') = s_nodes s
  | HGc =>
    (forall id nd, find_node (hc_s C st') id = Some nd ->
       find_node s id = Some nd /\ exists e, croot st e /\ reachable s [eref e] (RN id))
  | HAddVars k =>
    s_l2v (hc_s C st') = s_l2v s ++ seq (nlevels s) k /\
    s_v2l (hc_s C st') = s_v2l s ++ seq (nlevels s) k /\ s_nodes (hc_s C st') = s_nodes s
  | HSetVarOrder order =>
    nlevels (hc_s C st') = nlevels s /\
    forall a b, a < b < length order ->
      nth (nth a order 0) (s_v2l (hc_s C st')) 0 < nth (nth b order 0) (s_v2l (hc_s C st')) 0
  end.

(** for every call except the registry update the registry is untouched *)
Definition creg_same (st st' : hstate_c) : Prop :=
  hc_reg C st' = hc_reg C st /\ hc_next C st' = hc_next C st.

(** ** Storing the result of an algorithm *)

Lemma hinvc_put : forall st s' c' d r, HInvC st ->
  BcOK s' -> extends (hc_s C st) s' -> QOK (hc_reg C st) s' c' -> ref_ok s' (eref r) ->
  HInvC (mkHC (cput s' d r) c' (hc_reg C st) (hc_next C st)).
Proof.
  intros st s' c' d r I B' X Q' Or. constructor; simpl.
  - apply bcok_cput; assumption.
  - unfold cput. rewrite widen_set_handles. apply qcacheokc_widen; [apply (bc_wf s' B') | | exact Q'].
    intros id pairs E v r0 Hin. rewrite (ext_nlevels _ _ X). apply (cpairs_range st I id pairs E v r0 Hin).
  - intros id pairs Hin. unfold cput. rewrite widen_set_handles. apply cpairs_wf_widen.
    apply (cpairs_wf_extends (hc_s C st) s' pairs X). apply (hic_reg st I id pairs Hin).
  - apply (hic_fresh st I).
Qed.

Lemma framec_put : forall st o s' c' d r, HInvC st -> hdst o = Some d ->
  extends (hc_s C st) s' ->
  hframe_c st o (mkHC (cput s' d r) c' (hc_reg C st) (hc_next C st)).
Proof.
  intros st o s' c' d r I Hd X. split; [|split]; simpl.
  3: { intros _. split; [apply (ext_l2v _ _ X) | apply (ext_v2l _ _ X)]. }
  - intros x Hx. rewrite Hd in Hx. unfold cput. simpl.
    rewrite hget_hset_other by congruence. rewrite (ext_handles _ _ X). reflexivity.
  - intros e0 Hr. pose proof (croot_ok st e0 I Hr) as Ok. split.
    + unfold cput. apply (ext_ref_ok _ _ _ X Ok).
    + intros a. unfold cput. rewrite cbfun_of_set_handles.
      apply (cbfun_of_extends _ _ _ _ (bc_wf _ (hic_bc st I)) X Ok).
Qed.

Lemma holdsc_put : forall s' c' reg nx d r F, (forall a, cbfun_of s' r a = F a) ->
  holds_c (mkHC (cput s' d r) c' reg nx) d F.
Proof.
  intros s' c' reg nx d r F HF. exists r. split.
  - unfold cslot, cput. simpl. rewrite hget_hset_same. reflexivity.
  - intros a. simpl. unfold cput. rewrite cbfun_of_set_handles. apply HF.
Qed.

(** the common part of all calls that run an algorithm and store its result *)
Lemma cfinish_ok : forall st o d res s' c' r, HInvC st -> hdst o = Some d ->
  res = Some (s', c', r) ->
  BcOK s' -> extends (hc_s C st) s' -> QOK (hc_reg C st) s' c' -> ref_ok s' (eref r) ->
  exists st', cfinish C st d res = Some st' /\ HInvC st' /\ hframe_c st o st' /\ creg_same st st' /\
    forall F, (forall a, cbfun_of s' r a = F a) -> holds_c st' d F.
Proof.
  intros st o d res s' c' r I Hd -> B' X Q' Or. simpl.
  eexists. split; [reflexivity|]. split; [apply hinvc_put; assumption|].
  split; [apply framec_put; assumption|]. split; [split; reflexivity|].
  intros F HF. apply holdsc_put. exact HF.
Qed.

(** from a level-indexed denotation of the result to its function over variables *)
Lemma denc_to_bfun : forall s s' r Phi a, extends s s' -> DenC s' r Phi ->
  cbfun_of s' r a = Phi (choice_of s a).
Proof.
  intros s s' r Phi a X D. rewrite (cbfun_of_den s' r Phi D). unfold choice_of.
  rewrite (ext_l2v _ _ X). reflexivity.
Qed.

(** ** One call *)

Theorem hstep_c_ok : forall st o, HInvC st -> hop_pre_c st o ->
  exists st', hstep_c st o = Some st' /\ HInvC st' /\ hframe_c st o st' /\ hpost_c st o st'.
Proof.
  intros st o I Pre. pose proof (hic_bc st I) as B. pose proof (hic_cache st I) as Q.
  pose proof (bc_wf _ B) as H.
  destruct o as [d b|d v neg|d x|op d x y|d x y z|q d x vars|q op d x y vars|d x cube|pairs|d x id
                 |d x|x| |k|order]; simpl in Pre; simpl hstep_c.
  - (* HConst *)
    destruct (cmk_const_sem _ b B) as [r [E D]]. rewrite E.
    destruct (cfinish_ok st (HConst d b) d (Some (hc_s C st, hc_c C st, r)) _ _ r I eq_refl eq_refl B
                (extends_refl _) Q (proj1 D)) as [st' [E' [I' [F' [_ P']]]]].
    simpl in E'. inversion E'; subst st'. eexists. split; [reflexivity|]. split; [exact I'|].
    split; [exact F'|]. simpl. apply P'. intros a. rewrite (cbfun_of_den _ r _ D). reflexivity.
  - (* HVar *)
    destruct (cmk_var_bfun _ v neg B Pre) as [s' [r [E [B' [X [Or S]]]]]]. rewrite E.
    destruct (cfinish_ok st (HVar d v neg) d (Some (s', hc_c C st, r)) _ _ r I eq_refl eq_refl B' X
                (qcacheokc_extends C cget _ _ s' _ B X Q) Or) as [st' [E' [I' [F' [_ P']]]]].
    simpl in E'. inversion E'; subst st'. eexists. split; [reflexivity|]. split; [exact I'|].
    split; [exact F'|]. simpl. apply P'. exact S.
  - (* HNot *)
    destruct Pre as [f Ef]. rewrite Ef. pose proof (cslot_ok st x f I Ef) as Of.
    destruct (denc_exists _ f B Of) as [phi Df].
    destruct (cfinish_ok st (HNot d x) d (capply_not C (hc_s C st) (hc_c C st) f) _ _ (enot f) I eq_refl eq_refl B
                (extends_refl _) Q Of) as [st' [E' [I' [F' [_ P']]]]].
    exists st'. split; [exact E'|]. split; [exact I'|]. split; [exact F'|].
    simpl. exists f. split; [exact Ef|]. apply P'. intros a. unfold lift1.
    rewrite (cbfun_of_den _ _ _ (denc_not _ f phi Df)), (cbfun_of_den _ f phi Df). reflexivity.
  - (* HBin *)
    destruct Pre as [[f Ef] [g Eg]]. rewrite Ef, Eg.
    pose proof (cslot_ok st x f I Ef) as Of. pose proof (cslot_ok st y g I Eg) as Og.
    destruct (denc_exists _ f B Of) as [phi Df]. destruct (denc_exists _ g B Og) as [psi Dg].
    destruct (qc_apply_op lt C cget cadd Hlossy (creg_fn (hc_reg C st)) op _ (hc_c C st) f g phi psi B Q Df Dg)
      as [s' [c' [r [E [B' [X [Q' D']]]]]]].
    destruct (cfinish_ok st (HBin op d x y) d _ s' c' r I eq_refl E B' X Q' (proj1 D'))
      as [st' [E' [I' [F' [_ P']]]]].
    exists st'. split; [exact E'|]. split; [exact I'|]. split; [exact F'|].
    simpl. exists f, g. split; [exact Ef|]. split; [exact Eg|]. apply P'. intros a.
    rewrite (denc_to_bfun _ s' r _ a X D'). unfold lift2.
    rewrite (cbfun_of_den _ f phi Df), (cbfun_of_den _ g psi Dg). reflexivity.
  - (* HIte *)
    destruct Pre as [[f Ef] [[g Eg] [h Eh]]]. rewrite Ef, Eg, Eh.
    pose proof (cslot_ok st x f I Ef) as Of. pose proof (cslot_ok st y g I Eg) as Og.
    pose proof (cslot_ok st z h I Eh) as Oh.
    destruct (denc_exists _ f B Of) as [phi Df]. destruct (denc_exists _ g B Og) as [psi Dg].
    destruct (denc_exists _ h B Oh) as [theta Dh].
    destruct (qc_apply_ite lt C cget cadd Hlossy (creg_fn (hc_reg C st)) _ (hc_c C st) f g h phi psi theta
                B Q Df Dg Dh) as [s' [c' [r [E [B' [X [Q' D']]]]]]].
    destruct (cfinish_ok st (HIte d x y z) d _ s' c' r I eq_refl E B' X Q' (proj1 D'))
      as [st' [E' [I' [F' [_ P']]]]].
    exists st'. split; [exact E'|]. split; [exact I'|]. split; [exact F'|].
    simpl. exists f, g, h. split; [exact Ef|]. split; [exact Eg|]. split; [exact Eh|]. apply P'. intros a.
    rewrite (denc_to_bfun _ s' r _ a X D'). unfold ite_s.
    rewrite (cbfun_of_den _ f phi Df), (cbfun_of_den _ g psi Dg), (cbfun_of_den _ h theta Dh). reflexivity.
  - (* HQuant *)
    destruct Pre as [[f Ef] [V Ev]]. rewrite Ef, Ev.
    pose proof (cslot_ok st x f I Ef) as Of. pose proof (cslot_ok st vars V I Ev) as Ov.
    destruct (cquant_edge_sound lt C cget cadd Hlossy _ q _ (hc_c C st) f V B Q Of Ov)
      as [s' [c' [r [E [B' [X [Q' [Or S]]]]]]]].
    destruct (cfinish_ok st (HQuant q d x vars) d _ s' c' r I eq_refl E B' X Q' Or)
      as [st' [E' [I' [F' [_ P']]]]].
    exists st'. split; [exact E'|]. split; [exact I'|]. split; [exact F'|].
    simpl. exists f, V. split; [exact Ef|]. split; [exact Ev|].
    intros vs Hlt Hvs Hu. apply P'. apply (S vs Hlt Hvs Hu).
  - (* HApplyQuant *)
    destruct Pre as [[f Ef] [[g Eg] [V Ev]]]. rewrite Ef, Eg, Ev.
    pose proof (cslot_ok st x f I Ef) as Of. pose proof (cslot_ok st y g I Eg) as Og.
    pose proof (cslot_ok st vars V I Ev) as Ov.
    destruct (capply_quant_edge_sound lt C cget cadd Hlossy _ q op _ (hc_c C st) f g V B Q Of Og Ov)
      as [s' [c' [r [E [B' [X [Q' [Or S]]]]]]]].
    destruct (cfinish_ok st (HApplyQuant q op d x y vars) d _ s' c' r I eq_refl E B' X Q' Or)
      as [st' [E' [I' [F' [_ P']]]]].
    exists st'. split; [exact E'|]. split; [exact I'|]. split; [exact F'|].
    simpl. exists f, g, V. split; [exact Ef|]. split; [exact Eg|]. split; [exact Ev|].
    intros vs Hlt Hvs Hu. apply P'. apply (S vs Hlt Hvs Hu).
  - (* HRestrict *)
    destruct Pre as [[f Ef] [V Ev]]. rewrite Ef, Ev.
    pose proof (cslot_ok st x f I Ef) as Of. pose proof (cslot_ok st cube V I Ev) as Ov.
    destruct (crestrict_edge_sound C cget cadd Hlossy _ _ (hc_c C st) f V B Q Of Ov)
      as [s' [c' [r [E [B' [X [Q' [Or S]]]]]]]].
    destruct (cfinish_ok st (HRestrict d x cube) d _ s' c' r I eq_refl E B' X Q' Or)
      as [st' [E' [I' [F' [_ P']]]]].
    exists st'. split; [exact E'|]. split; [exact I'|]. split; [exact F'|].
    simpl. exists f, V. split; [exact Ef|]. split; [exact Ev|].
    intros lits Hnd Hlt Hc. apply P'. apply (S lits Hnd Hlt Hc).
  - (* HNewSubst *)
    destruct Pre as [Hnd Hp].
    assert (R : exists rp, cresolve_pairs (s_handles (hc_s C st)) pairs = Some rp /\
                           map fst rp = map fst pairs /\
                           forall v e, In (v, e) rp -> v < nlevels (hc_s C st) /\ croot st e).
    { clear Hnd. induction pairs as [|[v k] rest IH]; [exists []; simpl; split; [reflexivity|]; split; [reflexivity | intros ? ? []]|].
      destruct (Hp v k (or_introl eq_refl)) as [Hv [e Er]].
      destruct IH as [rp [E1 [E2 E3]]]; [intros v0 k0 Hin; apply Hp; right; exact Hin|].
      simpl. unfold cslot in Er. rewrite Er, E1.
      exists ((v, e) :: rp). split; [reflexivity|]. split; [simpl; rewrite E2; reflexivity|].
      intros v0 r0 [Heq|Hin]; [|apply E3; exact Hin]. inversion Heq; subst. split; [exact Hv|].
      left. exists (k, r0). split; [apply hget_In; exact Er | reflexivity]. }
    destruct R as [rp [E1 [E2 E3]]]. rewrite E1.
    assert (Hfresh : creg_fn (hc_reg C st) (hc_next C st) = None).
    { destruct (creg_fn (hc_reg C st) (hc_next C st)) as [p|] eqn:Ex; [|reflexivity].
      pose proof (hic_fresh st I _ _ (creg_fn_In _ _ _ Ex)). lia. }
    eexists. split; [reflexivity|]. split; [|split].
    + constructor; simpl.
      * exact B.
      * apply (qcacheokc_register C cget (creg_fn (hc_reg C st)) _ (hc_c C st) (hc_next C st) rp Q Hfresh).
      * intros id p [Heq|Hin]; [|apply (hic_reg st I id p Hin)]. inversion Heq; subst.
        split; [rewrite E2; exact Hnd|]. intros v r Hin. destruct (E3 v r Hin) as [A Rt].
        split; [exact A | apply (croot_ok st r I Rt)].
      * intros id p [Heq|Hin]; [inversion Heq; subst; lia|]. pose proof (hic_fresh st I id p Hin). lia.
    + split; [|split]; simpl.
      * intros x _. reflexivity.
      * intros r Hr. split; [apply (croot_ok st r I Hr) | reflexivity].
      * intros _. split; reflexivity.
    + simpl. exists rp. split; [exact E1|]. split; [rewrite N.eqb_refl; reflexivity|].
      split; [reflexivity|]. split; [|reflexivity].
      intros id Hne. destruct (N.eqb_spec id (hc_next C st)); [contradiction | reflexivity].
  - (* HSubst *)
    destruct Pre as [[f Ef] [rp Er]]. rewrite Ef, Er.
    pose proof (cslot_ok st x f I Ef) as Of.
    destruct (hic_reg st I id rp (creg_fn_In _ _ _ Er)) as [Hnd Hp].
    destruct (csubstitute_edge_sound lt C cget cadd Hlossy _ _ (hc_c C st) f rp id B Q Of Hnd Hp Er)
      as [s' [c' [r [E [B' [X [Q' [Or S]]]]]]]].
    destruct (cfinish_ok st (HSubst d x id) d _ s' c' r I eq_refl E B' X Q' Or)
      as [st' [E' [I' [F' [_ P']]]]].
    exists st'. split; [exact E'|]. split; [exact I'|]. split; [exact F'|].
    simpl. exists f, rp. split; [exact Ef|]. split; [exact Er|]. apply P'. exact S.
  - (* HClone *)
    destruct Pre as [f Ef]. rewrite Ef. pose proof (cslot_ok st x f I Ef) as Of.
    destruct (cfinish_ok st (HClone d x) d (Some (hc_s C st, hc_c C st, f)) _ _ f I eq_refl eq_refl B
                (extends_refl _) Q Of) as [st' [E' [I' [F' [_ P']]]]].
    simpl in E'. inversion E'; subst st'. eexists. split; [reflexivity|]. split; [exact I'|].
    split; [exact F'|]. simpl. unfold cput. simpl. rewrite hget_hset_same.
    unfold cslot in Ef. split; [symmetry; exact Ef|].
    exists f. unfold cslot. simpl. rewrite hget_hset_same. reflexivity.
  - (* HDrop *)
    eexists. split; [reflexivity|]. split; [|split].
    + constructor; simpl.
      * apply bcok_drop. exact B.
      * rewrite widen_set_handles. apply qcacheokc_widen; [exact H | apply (cpairs_range st I) | exact Q].
      * intros id p Hin. rewrite widen_set_handles. apply cpairs_wf_widen. apply (hic_reg st I id p Hin).
      * apply (hic_fresh st I).
    + split; [|split]; simpl.
      * intros y Hy. apply hget_hdel_other. congruence.
      * intros r Hr. split; [apply (croot_ok st r I Hr) | intros a; apply cbfun_of_set_handles].
      * intros _. split; reflexivity.
    + simpl. split; [apply hget_hdel_same | reflexivity].
  - (* HGc *)
    set (s1 := with_roots_c C st).
    assert (Hroots : forall h, In h (s_handles s1) <->
              In h (s_handles (hc_s C st)) \/ In h (creg_roots (hc_reg C st))).
    { intros h. unfold s1, with_roots_c. simpl. apply in_app_iff. }
    assert (Hrt : forall e, croot st e <-> exists h, In h (s_handles s1) /\ snd h = e).
    { intros e. split.
      - intros [[h [Hin E]]|[id [p [v [Hin Hp]]]]].
        + exists h. split; [apply Hroots; left; exact Hin | exact E].
        + exists (id, e). split; [|reflexivity]. apply Hroots. right. apply creg_roots_In.
          exists id, p, v, e. auto.
      - intros [h [Hin E]]. apply Hroots in Hin. destruct Hin as [Hin|Hin].
        + left. exists h. auto.
        + apply creg_roots_In in Hin. destruct Hin as [id [p [v [e0 [Hin [Hp ->]]]]]].
          simpl in E. subst e0. right. exists id, p, v. auto. }
    assert (B1 : BcOK s1).
    { unfold s1, with_roots_c. apply bcok_set_handles; [exact B|].
      intros h Hin. apply in_app_iff in Hin. destruct Hin as [Hin|Hin].
      - apply (bc_handle_ok _ h B Hin).
      - apply creg_roots_In in Hin. destruct Hin as [id [p [v [e [Hin [Hp ->]]]]]]. simpl.
        apply (proj2 (hic_reg st I id p Hin) v e Hp). }
    pose proof (gc_model_collected s1 (bc_wf s1 B1)) as Cg.
    destruct (collected_ok_c s1 (gc_model s1) B1 Cg) as [Bg [Xg Hh]].
    assert (Okg : forall e, croot st e -> ref_ok (gc_model s1) (eref e)).
    { intros e Hr. apply Hrt in Hr. destruct Hr as [h [Hin <-]]. apply (Hh h Hin). }
    eexists. split; [reflexivity|]. split; [|split].
    + constructor; simpl.
      * apply bcok_set_handles; [exact Bg|]. intros h Hin.
        apply Okg. left. exists h. auto.
      * apply qokc_empty.
      * intros id p Hin. destruct (hic_reg st I id p Hin) as [Hnd Hp]. split; [exact Hnd|].
        intros v e Hvr. split; [apply (Hp v e Hvr)|].
        apply (Okg e). right. exists id, p, v. auto.
      * apply (hic_fresh st I).
    + split; [|split]; simpl.
      * intros x _. reflexivity.
      * intros e Hr. pose proof (Okg e Hr) as Ok. split; [exact Ok|]. intros a.
        rewrite cbfun_of_set_handles.
        rewrite <- (cbfun_of_extends (gc_model s1) s1 e a (bc_wf _ Bg) Xg Ok).
        unfold s1, with_roots_c. apply cbfun_of_set_handles.
      * intros _. split; reflexivity.
    + simpl. intros id nd E. change (find_node (gc_model s1) id = Some nd) in E.
      split; [apply (ext_nodes _ _ Xg id nd E)|].
      pose proof (proj1 (co_nodes _ _ Cg id nd) E) as [E1 R1].
      clear - R1 Hrt. remember (RN id) as q eqn:Eq. clear Eq.
      induction R1 as [q Hin|pid pnd e R1 IH Ep He].
      * unfold handle_refs in Hin. apply in_map_iff in Hin. destruct Hin as [h [<- Hin]].
        exists (snd h). split; [apply Hrt; exists h; auto|]. apply reach_root. left. reflexivity.
      * destruct IH as [r [Hr Rr]]. exists r. split; [exact Hr|].
        apply (reach_child _ _ pid pnd e Rr Ep He).
  - (* HAddVars *)
    eexists. split; [reflexivity|]. rewrite widen_add_vars. split; [|split].
    + constructor; simpl.
      * apply bcok_widen; [exact B|]. intros h Hin. apply (bc_handle_ok _ h B Hin).
      * apply qcacheokc_widen; [exact H | apply (cpairs_range st I) | exact Q].
      * intros id p Hin. apply cpairs_wf_widen. apply (hic_reg st I id p Hin).
      * apply (hic_fresh st I).
    + split; [|split]; simpl.
      * intros x _. reflexivity.
      * intros e Hr. pose proof (croot_ok st e I Hr) as Ok.
        split; [apply ref_ok_widen; exact Ok | intros a; apply (cbfun_of_widen _ _ _ _ _ H Ok)].
      * discriminate.
    + simpl. auto.
  - (* HSetVarOrder *)
    destruct Pre as [Hnd Hr].
    assert (Hsame : hframe_c st (HSetVarOrder order) st).
    { split; [intros; reflexivity|]. split; [|discriminate].
      intros r Hrr. split; [apply (croot_ok st r I Hrr) | reflexivity]. }
    destruct (Nat.leb (length order) 1) eqn:Elen.
    { exists st. split; [reflexivity|]. split; [exact I|]. split; [exact Hsame|]. simpl.
      split; [reflexivity|]. intros a b Hab. apply Nat.leb_le in Elen. lia. }
    assert (Eok : order_ok_b (nlevels (hc_s C st)) order = true)
      by (apply order_ok_b_valid; split; assumption).
    rewrite Eok.
    destruct (nat_list_eqb _ (seq 0 (nlevels (hc_s C st)))) eqn:Esorted.
    { exists st. split; [reflexivity|]. split; [exact I|]. split; [exact Hsame|]. simpl.
      split; [reflexivity|]. intros a b Hab. apply nat_list_eqb_eq in Esorted.
      pose proof (sort_order_respects (nlevels (hc_s C st)) _
                    (valid_order_levels (hc_s C st) order H Hnd Hr) a b) as R.
      rewrite map_length in R. specialize (R Hab). rewrite Esorted in R.
      rewrite Forall_forall in Hr.
      assert (Hlv : forall k, k < length order ->
                nth k (map (fun v => nth v (s_v2l (hc_s C st)) 0) order) 0 = nth (nth k order 0) (s_v2l (hc_s C st)) 0).
      { intros k Hk. apply (nth_map_in _ _ (fun v => nth v (s_v2l (hc_s C st)) 0)). exact Hk. }
      rewrite (Hlv a), (Hlv b) in R by lia.
      assert (Hlt : forall k, k < length order -> nth (nth k order 0) (s_v2l (hc_s C st)) 0 < nlevels (hc_s C st)).
      { intros k Hk. apply (wf_v2l_l2v (hc_s C st) _ H). apply Hr. apply nth_In. exact Hk. }
      rewrite !seq_nth in R by (apply Hlt; lia). exact R. }
    set (s1 := with_roots_c C st).
    assert (B1 : BcOK s1).
    { unfold s1, with_roots_c. apply bcok_set_handles; [exact B|].
      intros h Hin. apply in_app_iff in Hin. destruct Hin as [Hin|Hin].
      - apply (bc_handle_ok _ h B Hin).
      - apply creg_roots_In in Hin. destruct Hin as [id [p [v [e [Hin [Hp ->]]]]]]. simpl.
        apply (proj2 (hic_reg st I id p Hin) v e Hp). }
    assert (Hr1 : Forall (fun v => v < nlevels s1) order) by exact Hr.
    pose proof (reorder_c_bcok s1 order B1 Hnd Hr1) as B2.
    set (s2 := set_var_order_model_c s1 order) in *.
    assert (Hrt : forall e, croot st e -> exists h, In h (s_handles s1) /\ snd h = e).
    { intros e [[h [Hin E]]|[id [p [v [Hin Hp]]]]].
      - exists h. split; [unfold s1, with_roots_c; simpl; apply in_app_iff; left; exact Hin | exact E].
      - exists (id, e). split; [|reflexivity]. unfold s1, with_roots_c. simpl. apply in_app_iff. right.
        apply creg_roots_In. exists id, p, v, e. auto. }
    assert (Ok2 : forall e, croot st e -> ref_ok s2 (eref e)).
    { intros e Hrr. destruct (Hrt e Hrr) as [h [Hin <-]]. apply (reorder_c_handle_ok s1 order B1 Hnd Hr1 h Hin). }
    eexists. split; [reflexivity|]. split; [|split].
    + constructor; simpl.
      * apply bcok_set_handles; [exact B2|]. intros h Hin.
        apply Ok2. left. exists h. auto.
      * apply qokc_empty.
      * intros id p Hin. destruct (hic_reg st I id p Hin) as [Hnd' Hp]. split; [exact Hnd'|].
        intros v e Hvr. split.
        -- change (nlevels (set_handles s2 (s_handles (hc_s C st)))) with (nlevels s2).
           unfold s2. rewrite (reorder_c_nlevels s1 order B1 Hnd Hr1). apply (Hp v e Hvr).
        -- apply (Ok2 e). right. exists id, p, v. auto.
      * apply (hic_fresh st I).
    + split; [|split]; simpl.
      * intros x _. reflexivity.
      * intros e Hrr. split; [apply (Ok2 e Hrr)|]. intros a.
        rewrite cbfun_of_set_handles. destruct (Hrt e Hrr) as [h [Hin <-]].
        unfold s2. rewrite (reorder_c_bfun s1 order B1 Hnd Hr1 h a Hin).
        unfold s1, with_roots_c. apply cbfun_of_set_handles.
      * discriminate.
    + simpl. split.
      * change (nlevels (set_handles s2 (s_handles (hc_s C st)))) with (nlevels s2).
        unfold s2. apply (reorder_c_nlevels s1 order B1 Hnd Hr1).
      * apply (reorder_c_respects s1 order B1 Hnd Hr1).
Qed.

End HistC.
