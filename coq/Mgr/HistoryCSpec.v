(** * Result correctness along BCDD histories; the result is determined by the
      operator, the operands' FUNCTIONS and the variable order

    The complement-edge counterpart of Mgr/HistorySpec.v, statement by
    statement ([feq], [conj_vars], [cube_fun] are shared with it).

    - [hspec_c st o d F]: read off the spec layer (DD/Sem.v): call [o] issued
      in state [st] is to leave the function [F] in slot [d].  [F] is given in
      terms of the functions the operand slots hold ([holds_c]), never in
      terms of edges, tags, node ids, cache contents or the way the operands
      were obtained;
    - [hstep_c_spec]: in every state satisfying the invariant (so: after every
      history) the call completes and its destination holds [F];
    - [histc_result_unique]: every slot that holds [F] afterwards holds the very
      edge that was returned;
    - [histc_result_determined]: two managers with arbitrary different
      histories, edge orders and cache implementations but the same variable
      order: calls with the same spec function return edges with the same
      function, the same complement tag and the same node count (isomorphic
      diagrams, DD/BuildCanonBcdd.v);
    - [histc_fresh_equiv]: the instance "history with reorderings / collections
      vs. freshly built manager". *)

From Coq Require Import List NArith PArith Bool Arith Lia FMapPositive.
From OxiVerif Require Import DD.Table DD.TableProofs DD.Canon DD.CanonBcdd DD.Sem DD.Build DD.BuildProofs
  DD.Apply DD.ApplyProofs DD.ApplyEvalProofs DD.ConfigApply DD.ConfigRun DD.Iso
  DD.ApplyBcdd DD.ApplyBcddProofs DD.ApplyBcddEval DD.BuildCanonBcdd
  DD.Quant DD.QuantSpecProofs DD.QuantLemmas DD.QuantTopProofs DD.QuantBcdd DD.QuantBcddLemmas DD.QuantBcddTop
  Mgr.History Mgr.HistoryBase Mgr.HistoryProofs Mgr.HistoryThms Mgr.HistorySpec
  Mgr.HistoryC Mgr.HistoryCBase Mgr.HistoryCProofs Mgr.HistoryCThms.
Import ListNotations.

Local Arguments hset : simpl never.
Local Arguments hget : simpl never.
Local Arguments hdel : simpl never.
Local Arguments cbfun_of : simpl never.

(** same isomorphism class: equal functions of the variables => equal
    complement tags and equal node counts *)
Lemma same_fun_same_count_c : forall s1 s2 e1 e2, BcOK s1 -> BcOK s2 ->
  s_l2v s1 = s_l2v s2 -> s_v2l s1 = s_v2l s2 -> ref_ok s1 (eref e1) -> ref_ok s2 (eref e2) ->
  (forall a, cbfun_of s1 e1 a = cbfun_of s2 e2 a) ->
  etag e1 = etag e2 /\ count_reach s1 e1 = count_reach s2 e2.
Proof.
  intros s1 s2 e1 e2 B1 B2 Hl Hv O1 O2 Heq.
  destruct (denc_exists s1 e1 B1 O1) as [phi D1]. destruct (denc_exists s2 e2 B2 O2) as [psi D2].
  assert (Hn : nlevels s1 = nlevels s2) by (unfold nlevels; rewrite Hl; reflexivity).
  assert (D2' : DenC s2 e2 phi).
  { apply (denc_ext s2 e2 psi phi D2). intros c Hc.
    rewrite (denc_bfun s2 B2 e2 psi c D2 Hc), (denc_bfun s1 B1 e1 phi c D1 Hc), Heq.
    unfold asg_of, lv. rewrite Hv. reflexivity. }
  split.
  - apply (bcdd_diagram_unique s1 s2 B1 B2 Hn e1 e2 phi D1 D2').
  - apply (bcdd_count_unique s1 s2 B1 B2 Hn e1 e2 phi D1 D2').
Qed.

Section SpecC.
Variable lt : edge -> edge -> bool.
Variable C : Type.
Variable cget : C -> N -> list edge -> option edge.
Variable cadd : C -> N -> list edge -> edge -> C.
Hypothesis Hlossy : lossyC cget cadd.
Variable cempty : C.
Hypothesis Hempty : forall k a, cget cempty k a = None.

Notation hstate_c := (hstate_c C).
Notation hstep_c := (hstep_c lt C cget cadd cempty).
Notation hrun_c := (hrun_c lt C cget cadd cempty).
Notation HInvC := (HInvC C cget).
Notation hop_pre_c := (hop_pre_c C).
Notation hframe_c := (hframe_c C).
Notation hpost_c := (hpost_c C).
Notation holds_c := (holds_c C).
Notation hinit_c := (hinit_c C cempty).
Notation step_ok := (hstep_c_ok lt C cget cadd Hlossy cempty Hempty).

Lemma holds_c_ext : forall st d F F', holds_c st d F -> feq F F' -> holds_c st d F'.
Proof. intros st d F F' [r [E HF]] Hf. exists r. split; [exact E|]. intros a. rewrite HF. apply Hf. Qed.

Lemma holds_c_slot : forall st d F e, holds_c st d F -> cslot C st d = Some e -> feq (cbfun_of (hc_s C st) e) F.
Proof. intros st d F e [r0 [E HF]] Er. rewrite E in Er. inversion Er; subst. exact HF. Qed.

Lemma holds_c_occupied : forall st d F, holds_c st d F -> occupied_c C st d.
Proof. intros st d F [r [E _]]. exists r. exact E. Qed.

(** the replacement functions of a substitution object *)
Definition sub_funs_c (s : snap) (rp : cpairs) (sub : list (nat * bfun)) : Prop :=
  Forall2 (fun (p : nat * edge) (q : nat * bfun) => fst p = fst q /\ feq (cbfun_of s (snd p)) (snd q)) rp sub.

Inductive hspec_c (st : hstate_c) : hop -> N -> bfun -> Prop :=
| SpcConst : forall d b, hspec_c st (HConst d b) d (const_s b)
| SpcVar : forall d v neg, v < nlevels (hc_s C st) ->
    hspec_c st (HVar d v neg) d (fun a => xorb neg (var_s v a))
| SpcNot : forall d x f, holds_c st x f -> hspec_c st (HNot d x) d (lift1 negb f)
| SpcBin : forall op d x y f g, holds_c st x f -> holds_c st y g ->
    hspec_c st (HBin op d x y) d (lift2 op f g)
| SpcIte : forall d x y z f g h, holds_c st x f -> holds_c st y g -> holds_c st z h ->
    hspec_c st (HIte d x y z) d (ite_s f g h)
| SpcQuant : forall q d x vars f vs, holds_c st x f -> holds_c st vars (conj_vars vs) ->
    (forall v, In v vs -> v < nlevels (hc_s C st)) -> (q = QUnique -> NoDup vs) ->
    hspec_c st (HQuant q d x vars) d (quant (qfun q) vs f)
| SpcApplyQuant : forall q op d x y vars f g vs, holds_c st x f -> holds_c st y g ->
    holds_c st vars (conj_vars vs) ->
    (forall v, In v vs -> v < nlevels (hc_s C st)) -> (q = QUnique -> NoDup vs) ->
    hspec_c st (HApplyQuant q op d x y vars) d (quant (qfun q) vs (lift2 op f g))
| SpcRestrict : forall d x cube f lits, holds_c st x f -> holds_c st cube (cube_fun lits) ->
    NoDup (map fst lits) -> (forall p, In p lits -> fst p < nlevels (hc_s C st)) ->
    hspec_c st (HRestrict d x cube) d (restrict_s lits f)
| SpcSubst : forall d x id f rp sub, holds_c st x f -> aext f ->
    creg_fn (hc_reg C st) id = Some rp -> sub_funs_c (hc_s C st) rp sub ->
    hspec_c st (HSubst d x id) d (subst_s sub f)
| SpcClone : forall d x f, holds_c st x f -> hspec_c st (HClone d x) d f.

Lemma hspec_c_dst : forall st o d F, hspec_c st o d F -> hdst o = Some d.
Proof. intros st o d F S. destruct S; reflexivity. Qed.

Lemma hspec_c_pre : forall st o d F, hspec_c st o d F -> hop_pre_c st o.
Proof.
  intros st o d F S.
  destruct S; simpl; repeat split; eauto using holds_c_occupied.
Qed.

Lemma sub_funs_c_assoc : forall s rp sub v, sub_funs_c s rp sub ->
  match assoc_nat rp v, assoc_nat sub v with
  | Some r, Some g => feq (cbfun_of s r) g
  | None, None => True
  | _, _ => False
  end.
Proof.
  intros s rp sub v F2. induction F2 as [|[v1 r1] [v2 g2] rp sub [Hv Hf] F2 IH]; simpl; [exact I|].
  simpl in Hv, Hf. subst v2. destruct (Nat.eqb v1 v); [exact Hf | exact IH].
Qed.

(** (4) the destination holds the spec function, whatever happened before *)
Theorem hstep_c_spec : forall st o d F, HInvC st -> hspec_c st o d F ->
  exists st', hstep_c st o = Some st' /\ HInvC st' /\ hframe_c st o st' /\ holds_c st' d F.
Proof.
  intros st o d F I S. pose proof (hspec_c_pre st o d F S) as Pre.
  destruct (step_ok st o I Pre) as [st' [E [I' [Fr P]]]].
  exists st'. split; [exact E|]. split; [exact I'|]. split; [exact Fr|].
  pose proof (bc_wf _ (hic_bc C cget st I)) as H.
  destruct S; simpl in P.
  - exact P.
  - exact P.
  - destruct P as [f0 [E0 P]]. apply (holds_c_ext _ _ _ _ P).
    intros a. unfold lift1. rewrite (holds_c_slot st x f f0 H0 E0 a). reflexivity.
  - destruct P as [f0 [g0 [E0 [E1 P]]]]. apply (holds_c_ext _ _ _ _ P).
    intros a. unfold lift2. rewrite (holds_c_slot st x f f0 H0 E0 a), (holds_c_slot st y g g0 H1 E1 a). reflexivity.
  - destruct P as [f0 [g0 [h0 [E0 [E1 [E2 P]]]]]]. apply (holds_c_ext _ _ _ _ P).
    intros a. unfold ite_s.
    rewrite (holds_c_slot st x f f0 H0 E0 a), (holds_c_slot st y g g0 H1 E1 a), (holds_c_slot st z h h0 H2 E2 a).
    reflexivity.
  - destruct P as [f0 [V [E0 [E1 P]]]].
    specialize (P vs H2 (holds_c_slot st vars _ V H1 E1) H3).
    apply (holds_c_ext _ _ _ _ P). intros a. apply quant_ext. apply (holds_c_slot st x f f0 H0 E0).
  - destruct P as [f0 [g0 [V [E0 [E1 [E2 P]]]]]].
    specialize (P vs H3 (holds_c_slot st vars _ V H2 E2) H4).
    apply (holds_c_ext _ _ _ _ P). intros a0. apply quant_ext. intros a. unfold lift2.
    rewrite (holds_c_slot st x f f0 H0 E0 a), (holds_c_slot st y g g0 H1 E1 a). reflexivity.
  - destruct P as [f0 [V [E0 [E1 P]]]].
    specialize (P lits H2 H3 (holds_c_slot st cube _ V H1 E1)).
    apply (holds_c_ext _ _ _ _ P). intros a. apply restrict_s_ext. apply (holds_c_slot st x f f0 H0 E0).
  - destruct P as [f0 [rp0 [E0 [E1 P]]]]. rewrite H2 in E1. inversion E1; subst rp0.
    apply (holds_c_ext _ _ _ _ P). intros a. unfold subst_s.
    rewrite (holds_c_slot st x f f0 H0 E0 _). apply H1. intros v.
    pose proof (sub_funs_c_assoc _ rp sub v H3) as A.
    rewrite (assoc_nat_map _ _ (fun r => cbfun_of (hc_s C st) r) rp v).
    destruct (assoc_nat rp v) as [r|], (assoc_nat sub v) as [g|]; simpl; try contradiction; auto.
  - destruct P as [Eg [r' Er']]. destruct H0 as [r [Er HF]].
    exists r. assert (Er2 : cslot C st' d = Some r).
    { unfold cslot in *. rewrite Eg. exact Er. }
    split; [exact Er2|]. intros a. destruct Fr as [_ [F2 _]].
    rewrite (proj2 (F2 r (cslot_root C st x r Er)) a). apply HF.
Qed.

(** in one manager the returned edge is THE edge with that function *)
Theorem histc_result_unique : forall st o d F st', HInvC st -> hspec_c st o d F -> hstep_c st o = Some st' ->
  forall y, holds_c st' y F ->
  hget (s_handles (hc_s C st')) y = hget (s_handles (hc_s C st')) d.
Proof.
  intros st o d F st' I S E y Hy.
  destruct (hstep_c_spec st o d F I S) as [st1 [E1 [I1 [_ Hd]]]]. rewrite E in E1. inversion E1; subst st1.
  destruct Hy as [ry [Ey Fy]]. destruct Hd as [rd [Ed Fd]]. unfold cslot in Ey, Ed.
  rewrite Ey, Ed. f_equal.
  apply (hinvc_canonical C cget st' I1 y d ry rd Ey Ed). intros a. rewrite Fy, Fd. reflexivity.
Qed.

End SpecC.

(** ** Two managers *)

Section TwoC.
Variables lt1 lt2 : edge -> edge -> bool.
Variables C1 C2 : Type.
Variable cget1 : C1 -> N -> list edge -> option edge.
Variable cadd1 : C1 -> N -> list edge -> edge -> C1.
Variable cget2 : C2 -> N -> list edge -> option edge.
Variable cadd2 : C2 -> N -> list edge -> edge -> C2.
Hypothesis L1 : lossyC cget1 cadd1.
Hypothesis L2 : lossyC cget2 cadd2.
Variable ce1 : C1.
Variable ce2 : C2.
Hypothesis He1 : forall k a, cget1 ce1 k a = None.
Hypothesis He2 : forall k a, cget2 ce2 k a = None.

Notation step1 := (hstep_c lt1 C1 cget1 cadd1 ce1).
Notation step2 := (hstep_c lt2 C2 cget2 cadd2 ce2).

(** the result is determined by the spec function and the variable order:
    same function, same complement tag, same node count, in any two managers *)
Theorem histc_result_determined : forall st1 st2 o1 o2 d1 d2 F st1' st2',
  HInvC C1 cget1 st1 -> HInvC C2 cget2 st2 ->
  s_l2v (hc_s C1 st1) = s_l2v (hc_s C2 st2) -> s_v2l (hc_s C1 st1) = s_v2l (hc_s C2 st2) ->
  hspec_c C1 st1 o1 d1 F -> hspec_c C2 st2 o2 d2 F ->
  step1 st1 o1 = Some st1' -> step2 st2 o2 = Some st2' ->
  exists r1 r2, cslot C1 st1' d1 = Some r1 /\ cslot C2 st2' d2 = Some r2 /\
    (forall a, cbfun_of (hc_s C1 st1') r1 a = F a) /\
    (forall a, cbfun_of (hc_s C2 st2') r2 a = F a) /\
    etag r1 = etag r2 /\
    count_reach (hc_s C1 st1') r1 = count_reach (hc_s C2 st2') r2.
Proof.
  intros st1 st2 o1 o2 d1 d2 F st1' st2' I1 I2 Hl Hv S1 S2 E1 E2.
  destruct (hstep_c_spec lt1 C1 cget1 cadd1 L1 ce1 He1 st1 o1 d1 F I1 S1) as [sa [Ea [Ia [Fa Ha]]]].
  destruct (hstep_c_spec lt2 C2 cget2 cadd2 L2 ce2 He2 st2 o2 d2 F I2 S2) as [sb [Eb [Ib [Fb Hb]]]].
  rewrite E1 in Ea. inversion Ea; subst sa. rewrite E2 in Eb. inversion Eb; subst sb.
  destruct Ha as [r1 [Er1 F1]]. destruct Hb as [r2 [Er2 F2]].
  exists r1, r2. split; [exact Er1|]. split; [exact Er2|]. split; [exact F1|]. split; [exact F2|].
  assert (Hco1 : changes_order o1 = false) by (destruct S1; reflexivity).
  assert (Hco2 : changes_order o2 = false) by (destruct S2; reflexivity).
  destruct (proj2 (proj2 Fa) Hco1) as [La Va]. destruct (proj2 (proj2 Fb) Hco2) as [Lb Vb].
  apply same_fun_same_count_c.
  - apply (hic_bc C1 cget1 st1' Ia).
  - apply (hic_bc C2 cget2 st2' Ib).
  - rewrite La, Lb. exact Hl.
  - rewrite Va, Vb. exact Hv.
  - apply (cslot_ok C1 cget1 st1' d1 r1 Ia Er1).
  - apply (cslot_ok C2 cget2 st2' d2 r2 Ib Er2).
  - intros a. rewrite F1, F2. reflexivity.
Qed.

(** C08 "as on a freshly built diagram": [ops1] is any history (reorderings,
    collections, dropped handles, ...), [ops2] any other one - in particular
    the shortest one that just builds the operands in a fresh manager with
    the same variable order; the same call has the same result *)
Theorem histc_fresh_equiv : forall n1 n2 ops1 ops2 st1 st2 o1 o2 d1 d2 F,
  hops_pre_c lt1 C1 cget1 cadd1 ce1 (hinit_c C1 ce1 n1) ops1 ->
  hrun_c lt1 C1 cget1 cadd1 ce1 (hinit_c C1 ce1 n1) ops1 = Some st1 ->
  hops_pre_c lt2 C2 cget2 cadd2 ce2 (hinit_c C2 ce2 n2) ops2 ->
  hrun_c lt2 C2 cget2 cadd2 ce2 (hinit_c C2 ce2 n2) ops2 = Some st2 ->
  s_l2v (hc_s C1 st1) = s_l2v (hc_s C2 st2) -> s_v2l (hc_s C1 st1) = s_v2l (hc_s C2 st2) ->
  hspec_c C1 st1 o1 d1 F -> hspec_c C2 st2 o2 d2 F ->
  exists st1' st2' r1 r2,
    step1 st1 o1 = Some st1' /\ step2 st2 o2 = Some st2' /\
    cslot C1 st1' d1 = Some r1 /\ cslot C2 st2' d2 = Some r2 /\
    (forall a, cbfun_of (hc_s C1 st1') r1 a = F a) /\
    (forall a, cbfun_of (hc_s C2 st2') r2 a = F a) /\
    etag r1 = etag r2 /\
    count_reach (hc_s C1 st1') r1 = count_reach (hc_s C2 st2') r2 /\
    wf_b (hc_s C1 st1') = true /\ wf_b (hc_s C2 st2') = true.
Proof.
  intros n1 n2 ops1 ops2 st1 st2 o1 o2 d1 d2 F P1 R1 P2 R2 Hl Hv S1 S2.
  assert (I1 : HInvC C1 cget1 st1).
  { apply (hreach_c_inv lt1 C1 cget1 cadd1 L1 ce1 He1 n1). exists ops1. auto. }
  assert (I2 : HInvC C2 cget2 st2).
  { apply (hreach_c_inv lt2 C2 cget2 cadd2 L2 ce2 He2 n2). exists ops2. auto. }
  destruct (hstep_c_spec lt1 C1 cget1 cadd1 L1 ce1 He1 st1 o1 d1 F I1 S1) as [sa [Ea [Ia _]]].
  destruct (hstep_c_spec lt2 C2 cget2 cadd2 L2 ce2 He2 st2 o2 d2 F I2 S2) as [sb [Eb [Ib _]]].
  destruct (histc_result_determined st1 st2 o1 o2 d1 d2 F sa sb I1 I2 Hl Hv S1 S2 Ea Eb)
    as [r1 [r2 [A1 [A2 [A3 [A4 [A5 A6]]]]]]].
  exists sa, sb, r1, r2. repeat (split; [assumption|]).
  split; apply wf_b_spec; [apply (bc_wf _ (hic_bc C1 cget1 sa Ia)) | apply (bc_wf _ (hic_bc C2 cget2 sb Ib))].
Qed.

End TwoC.
