(** * Theorems about ALL histories of the BCDD manager state machine (Mgr/HistoryC.v)

    The complement-edge counterpart of Mgr/HistoryThms.v, statement by
    statement.  For every configuration (edge order [lt], cache
    implementation [C]/[cget]/[cadd] that is [lossyC], its cleared state
    [cempty]), every number [n] of initial variables and every history (list
    of [hop]) of well-formed requests from the empty manager [hinit_c n]:

    - [hrun_c_ok], [hreach_c_inv]: the run never gets stuck and every state it
      passes satisfies [HInvC];
    - [histc_wf]: the table after ANY history passes the checkers [wf_b] and
      [bcok_b] (C03);
    - [histc_canonical]: two slots hold the same EDGE (reference and
      complement tag) IFF they denote the same function of the variables (C01);
    - [histc_frame_slots], [histc_add_vars]: a call changes neither the edge
      nor the function of any slot other than its destination; after
      [add_vars] the old functions ignore the new variables (C16);
      [histc_reorder_keeps]: the same for [set_var_order] (C08). *)

From Coq Require Import List NArith PArith Bool Arith Lia FMapPositive.
From OxiVerif Require Import DD.Table DD.TableProofs DD.Canon DD.CanonBcdd DD.Sem DD.Build DD.BuildProofs
  DD.Apply DD.ApplyProofs DD.ApplyEvalProofs DD.ConfigApply DD.ConfigRun
  DD.ApplyBcdd DD.ApplyBcddProofs DD.ApplyBcddEval
  DD.Quant DD.QuantSpecProofs DD.QuantLemmas DD.QuantTopProofs DD.QuantBcdd DD.QuantBcddLemmas DD.QuantBcddTop
  Mgr.SortOrder Mgr.SortOrderProofs Mgr.LevelSwap Mgr.LevelSwapC
  Mgr.History Mgr.HistoryBase Mgr.HistoryProofs Mgr.HistoryThms
  Mgr.HistoryC Mgr.HistoryCBase Mgr.HistoryCProofs.
Import ListNotations.

Local Arguments hset : simpl never.
Local Arguments hget : simpl never.
Local Arguments hdel : simpl never.
Local Arguments cbfun_of : simpl never.

(** ** The empty manager *)

Lemma empty_find_c : forall n id, find_node (empty_snap_c n) id = None.
Proof. intros n id. unfold find_node. simpl. apply PositiveMap.gempty. Qed.

Lemma empty_wf_c : forall n, WF (empty_snap_c n).
Proof.
  intros n.
  assert (Hinv : inv_on (seq 0 n) (seq 0 n)).
  { intros i Hi. rewrite seq_length in Hi. exists i. split; apply nth_error_seq0; exact Hi. }
  constructor; simpl; try exact Hinv;
    try (intros; match goal with E : find_node (empty_snap_c n) _ = Some _ |- _ =>
                   rewrite empty_find_c in E; discriminate end).
  - reflexivity.
  - repeat constructor; simpl; intuition discriminate.
  - repeat constructor; simpl; intuition discriminate.
  - intros h [].
Qed.

Lemma empty_bcok : forall n, BcOK (empty_snap_c n).
Proof. intros n. constructor; [apply empty_wf_c | reflexivity | reflexivity]. Qed.

Section ThmsC.
Variable lt : edge -> edge -> bool.
Variable C : Type.
Variable cget : C -> N -> list edge -> option edge.
Variable cadd : C -> N -> list edge -> edge -> C.
Hypothesis Hlossy : lossyC cget cadd.
Variable cempty : C.
Hypothesis Hempty : forall k a, cget cempty k a = None.

Notation hstate_c := (hstate_c C).
Notation hstep_c := (hstep_c lt C cget cadd cempty).
Notation hrun_c := (hrun_c lt C cget cadd cempty).
Notation HInvC := (HInvC C cget).
Notation hop_pre_c := (hop_pre_c C).
Notation hframe_c := (hframe_c C).
Notation hpost_c := (hpost_c C).
Notation holds_c := (holds_c C).
Notation hinit_c := (hinit_c C cempty).
Notation step_ok := (hstep_c_ok lt C cget cadd Hlossy cempty Hempty).

(** the invariant, spelled out *)
Theorem hinvc_unfold : forall st : hstate_c,
  HInvC st <->
  (BcOK (hc_s C st) /\
   QCacheOKC cget (creg_fn (hc_reg C st)) (hc_s C st) (hc_c C st) /\
   (forall id pairs, In (id, pairs) (hc_reg C st) ->
      NoDup (map fst pairs) /\
      forall v e, In (v, e) pairs -> v < nlevels (hc_s C st) /\ ref_ok (hc_s C st) (eref e)) /\
   (forall id pairs, In (id, pairs) (hc_reg C st) -> (id < hc_next C st)%N)).
Proof.
  intros st. split.
  - intros [A B D F]. auto.
  - intros [A [B [D F]]]. constructor; assumption.
Qed.

Theorem hinit_c_inv : forall n, HInvC (hinit_c n).
Proof.
  intros n. constructor; simpl.
  - apply empty_bcok.
  - split; intros code args r E; rewrite Hempty in E; discriminate.
  - intros id pairs [].
  - intros id pairs [].
Qed.

(** ** Runs *)

(** every request is well-formed when it is its turn *)
Fixpoint hops_pre_c (st : hstate_c) (ops : list hop) : Prop :=
  match ops with
  | [] => True
  | o :: rest => hop_pre_c st o /\ forall st1, hstep_c st o = Some st1 -> hops_pre_c st1 rest
  end.

Theorem hrun_c_ok : forall ops st, HInvC st -> hops_pre_c st ops ->
  exists st', hrun_c st ops = Some st' /\ HInvC st'.
Proof.
  induction ops as [|o rest IH]; intros st I Pre.
  - exists st. split; [reflexivity | exact I].
  - destruct Pre as [P0 Prest]. destruct (step_ok st o I P0) as [st1 [E [I1 _]]].
    destruct (IH st1 I1 (Prest st1 E)) as [st2 [E2 I2]].
    exists st2. simpl. rewrite E. split; [exact E2 | exact I2].
Qed.

Lemma hrun_c_app : forall ops1 ops2 st, hrun_c st (ops1 ++ ops2) =
  match hrun_c st ops1 with Some st1 => hrun_c st1 ops2 | None => None end.
Proof.
  induction ops1 as [|o r IH]; intros ops2 st; simpl; [reflexivity|].
  destruct (hstep_c st o); [apply IH | reflexivity].
Qed.

Lemma hops_pre_c_app : forall ops1 ops2 st, hops_pre_c st ops1 ->
  (forall st1, hrun_c st ops1 = Some st1 -> hops_pre_c st1 ops2) -> hops_pre_c st (ops1 ++ ops2).
Proof.
  induction ops1 as [|o r IH]; intros ops2 st P1 P2; simpl.
  - apply P2. reflexivity.
  - destruct P1 as [P0 Pr]. split; [exact P0|]. intros st1 E. apply IH; [apply Pr; exact E|].
    intros st2 E2. apply P2. simpl. rewrite E. exact E2.
Qed.

(** the states a client can bring a manager with [n] initial variables into *)
Definition hreach_c (n : nat) (st : hstate_c) : Prop :=
  exists ops, hops_pre_c (hinit_c n) ops /\ hrun_c (hinit_c n) ops = Some st.

Theorem hreach_c_init : forall n, hreach_c n (hinit_c n).
Proof. intros n. exists []. split; [exact I | reflexivity]. Qed.

Theorem hreach_c_inv : forall n st, hreach_c n st -> HInvC st.
Proof.
  intros n st [ops [P E]]. destruct (hrun_c_ok ops (hinit_c n) (hinit_c_inv n) P) as [st' [E' I']].
  rewrite E in E'. inversion E'; subst. exact I'.
Qed.

Theorem hreach_c_step : forall n st o st', hreach_c n st -> hop_pre_c st o -> hstep_c st o = Some st' ->
  hreach_c n st'.
Proof.
  intros n st o st' [ops [P E]] Pre Es. exists (ops ++ [o]). split.
  - apply hops_pre_c_app; [exact P|]. intros st1 E1. rewrite E in E1. inversion E1; subst st1.
    simpl. split; [exact Pre | intros; exact Logic.I].
  - rewrite hrun_c_app, E. simpl. rewrite Es. reflexivity.
Qed.

(** (1) no well-formed request ever gets stuck, from any reachable state *)
Theorem histc_progress : forall n st o, hreach_c n st -> hop_pre_c st o ->
  exists st', hstep_c st o = Some st' /\ hreach_c n st' /\ hframe_c st o st' /\ hpost_c st o st'.
Proof.
  intros n st o R Pre. destruct (step_ok st o (hreach_c_inv n st R) Pre) as [st' [E [_ [F P]]]].
  exists st'. split; [exact E|]. split; [apply (hreach_c_step n st o st' R Pre E)|]. auto.
Qed.

(** (1) C03: after any history the table passes the structural checker *)
Theorem histc_wf : forall n st, hreach_c n st ->
  wf_b (hc_s C st) = true /\ bcok_b (hc_s C st) = true.
Proof.
  intros n st R. pose proof (hic_bc C cget st (hreach_c_inv n st R)) as B.
  split; [apply wf_b_spec; apply (bc_wf _ B) | apply bcok_b_spec; exact B].
Qed.

(** ** Canonicity *)

Theorem hinvc_canonical : forall st, HInvC st ->
  forall x y ex ey, hget (s_handles (hc_s C st)) x = Some ex -> hget (s_handles (hc_s C st)) y = Some ey ->
  (ex = ey <-> forall a, cbfun_of (hc_s C st) ex a = cbfun_of (hc_s C st) ey a).
Proof.
  intros st I x y ex ey Ex Ey. pose proof (hic_bc C cget st I) as B.
  pose proof (bc_handle_ok _ (x, ex) B (hget_In _ _ _ Ex)) as Ox.
  pose proof (bc_handle_ok _ (y, ey) B (hget_In _ _ _ Ey)) as Oy. simpl in *.
  split; [intros ->; reflexivity|]. intros Heq.
  destruct (denc_exists _ ex B Ox) as [phi Dx].
  apply (denc_canon _ ex ey phi B Dx). apply (cbfun_eq_denc _ ex ey phi B Dx Oy Heq).
Qed.

(** (2) C01: after any history, two slots hold the same edge (same node AND
    same complement tag) iff they denote the same function of the manager's
    variables *)
Theorem histc_canonical : forall n st, hreach_c n st ->
  forall x y ex ey, hget (s_handles (hc_s C st)) x = Some ex -> hget (s_handles (hc_s C st)) y = Some ey ->
  (ex = ey <-> forall a, cbfun_of (hc_s C st) ex a = cbfun_of (hc_s C st) ey a).
Proof. intros n st R. apply hinvc_canonical. apply (hreach_c_inv n st R). Qed.

(** ** The frame, slot by slot *)

(** (3) a call changes neither the edge nor the function of any slot other than its destination *)
Theorem histc_frame_slots : forall st o st', HInvC st -> hop_pre_c st o -> hstep_c st o = Some st' ->
  forall x e, hdst o <> Some x -> hget (s_handles (hc_s C st)) x = Some e ->
  hget (s_handles (hc_s C st')) x = Some e /\
  ref_ok (hc_s C st') (eref e) /\
  forall a, cbfun_of (hc_s C st') e a = cbfun_of (hc_s C st) e a.
Proof.
  intros st o st' I Pre E x e Hx Eg. destruct (step_ok st o I Pre) as [st1 [E1 [_ [[F1 [F2 _]] _]]]].
  rewrite E in E1. inversion E1; subst st1. split; [rewrite (F1 x Hx); exact Eg|].
  apply F2. left. exists (x, e). split; [apply hget_In; exact Eg | reflexivity].
Qed.

(** (3) along a whole history: as long as no call names slot [x] as its
    destination, the slot keeps its edge, and the edge keeps its function of
    the variables - through operations, collections, reorderings, added
    variables, with any cache behaviour *)
Theorem histc_slot_stable : forall ops st st', HInvC st -> hops_pre_c st ops -> hrun_c st ops = Some st' ->
  forall x e, (forall o, In o ops -> hdst o <> Some x) ->
  hget (s_handles (hc_s C st)) x = Some e ->
  hget (s_handles (hc_s C st')) x = Some e /\
  ref_ok (hc_s C st') (eref e) /\
  forall a, cbfun_of (hc_s C st') e a = cbfun_of (hc_s C st) e a.
Proof.
  induction ops as [|o rest IH]; intros st st' I Pre E x e Hx Eg.
  - simpl in E. inversion E; subst st'. split; [exact Eg|]. split; [|reflexivity].
    apply (bc_handle_ok _ (x, e) (hic_bc C cget st I) (hget_In _ _ _ Eg)).
  - destruct Pre as [P0 Prest]. simpl in E.
    destruct (step_ok st o I P0) as [st1 [E1 [I1 _]]]. rewrite E1 in E.
    destruct (histc_frame_slots st o st1 I P0 E1 x e (Hx o (or_introl eq_refl)) Eg) as [G1 [_ F1]].
    destruct (IH st1 st' I1 (Prest st1 E1) E x e (fun o' Ho => Hx o' (or_intror Ho)) G1) as [G2 [O2 F2]].
    split; [exact G2|]. split; [exact O2|]. intros a. rewrite F2. apply F1.
Qed.

(** the functions inside substitution objects are kept as well *)
Theorem histc_frame_subst : forall st o st', HInvC st -> hop_pre_c st o -> hstep_c st o = Some st' ->
  forall id pairs v e, In (id, pairs) (hc_reg C st) -> In (v, e) pairs ->
  ref_ok (hc_s C st') (eref e) /\ forall a, cbfun_of (hc_s C st') e a = cbfun_of (hc_s C st) e a.
Proof.
  intros st o st' I Pre E id pairs v e Hin Hp. destruct (step_ok st o I Pre) as [st1 [E1 [_ [[_ [F2 _]] _]]]].
  rewrite E in E1. inversion E1; subst st1. apply F2. right. exists id, pairs, v. auto.
Qed.

(** (3) C16 along a whole history: however many variables are added meanwhile
    (and whatever else happens), an existing handle denotes the function it
    denoted, which reads only the variables that existed then *)
Theorem histc_handle_function_fixed : forall ops st st', HInvC st -> hops_pre_c st ops -> hrun_c st ops = Some st' ->
  forall x e, (forall o, In o ops -> hdst o <> Some x) ->
  hget (s_handles (hc_s C st)) x = Some e ->
  hget (s_handles (hc_s C st')) x = Some e /\
  forall a a', (forall v, v < nlevels (hc_s C st) -> a v = a' v) ->
    cbfun_of (hc_s C st') e a = cbfun_of (hc_s C st) e a'.
Proof.
  intros ops st st' I Pre E x e Hx Eg.
  destruct (histc_slot_stable ops st st' I Pre E x e Hx Eg) as [G [_ F]].
  split; [exact G|]. intros a a' Hag. rewrite F.
  apply (cbfun_of_local _ _ a a' (bc_wf _ (hic_bc C cget st I)) Hag).
Qed.

(** (3) C16: [add_vars] changes no node, no slot, and every function of the
    old table is the old function, which ignores the new variables *)
Theorem histc_add_vars : forall st k st', HInvC st -> hstep_c st (HAddVars k) = Some st' ->
  nlevels (hc_s C st') = nlevels (hc_s C st) + k /\
  s_nodes (hc_s C st') = s_nodes (hc_s C st) /\
  s_handles (hc_s C st') = s_handles (hc_s C st) /\
  (forall v, v < nlevels (hc_s C st) -> nth_error (s_v2l (hc_s C st')) v = nth_error (s_v2l (hc_s C st)) v) /\
  (forall i, i < k -> nth_error (s_v2l (hc_s C st')) (nlevels (hc_s C st) + i) = Some (nlevels (hc_s C st) + i)) /\
  forall e, ref_ok (hc_s C st) (eref e) ->
    ref_ok (hc_s C st') (eref e) /\
    forall a a', (forall v, v < nlevels (hc_s C st) -> a v = a' v) ->
      cbfun_of (hc_s C st') e a = cbfun_of (hc_s C st) e a'.
Proof.
  intros st k st' I E. simpl in E. inversion E; subst st'. clear E. simpl.
  pose proof (bc_wf _ (hic_bc C cget st I)) as H.
  assert (Lv : length (s_v2l (hc_s C st)) = nlevels (hc_s C st)) by (apply (wf_perm_len _ H)).
  rewrite widen_add_vars. split; [apply widen_nlevels|]. split; [reflexivity|]. split; [reflexivity|].
  split; [|split].
  - intros v Hv. simpl. apply nth_error_app1. lia.
  - intros i Hi. simpl. rewrite (nth_error_app_seq _ _ k _ Lv).
    destruct (Nat.ltb_spec (nlevels (hc_s C st) + i) (nlevels (hc_s C st))); [lia|].
    destruct (Nat.ltb_spec (nlevels (hc_s C st) + i) (nlevels (hc_s C st) + k)); [reflexivity | lia].
  - intros e Ok. split; [apply ref_ok_widen; exact Ok|]. intros a a' Hag.
    rewrite (cbfun_of_widen _ _ _ e a H Ok). apply (cbfun_of_local _ e a a' H Hag).
Qed.

(** (3) C08: [set_var_order] changes no slot and no function of the variables,
    and establishes the requested relative order *)
Theorem histc_reorder_keeps : forall st order st', HInvC st ->
  hop_pre_c st (HSetVarOrder order) -> hstep_c st (HSetVarOrder order) = Some st' ->
  HInvC st' /\
  nlevels (hc_s C st') = nlevels (hc_s C st) /\
  s_handles (hc_s C st') = s_handles (hc_s C st) /\
  (forall x e, hget (s_handles (hc_s C st)) x = Some e ->
     ref_ok (hc_s C st') (eref e) /\
     forall a, cbfun_of (hc_s C st') e a = cbfun_of (hc_s C st) e a) /\
  (forall a b, a < b < length order ->
     nth (nth a order 0) (s_v2l (hc_s C st')) 0 < nth (nth b order 0) (s_v2l (hc_s C st')) 0).
Proof.
  intros st order st' I Pre E. destruct (step_ok st _ I Pre) as [st1 [E1 [I1 [[_ [F2 _]] P]]]].
  rewrite E in E1. inversion E1; subst st1. simpl in P. destruct P as [P1 P2].
  split; [exact I1|]. split; [exact P1|]. split; [|split; [|exact P2]].
  - simpl in E. destruct (Nat.leb (length order) 1); [inversion E; reflexivity|].
    destruct (order_ok_b _ order); [|discriminate].
    destruct (nat_list_eqb _ _); inversion E; reflexivity.
  - intros x e Eg. apply F2. left. exists (x, e). split; [apply hget_In; exact Eg | reflexivity].
Qed.

(** ** The request checker *)

Lemma occupied_cb_spec : forall st k, occupied_cb C st k = true <-> occupied_c C st k.
Proof.
  intros st k. unfold occupied_cb, occupied_c. destruct (cslot C st k) as [r|].
  - split; [eauto | reflexivity].
  - split; [discriminate | intros [r E]; discriminate].
Qed.

Theorem hop_pre_cb_spec : forall st o, hop_pre_cb C st o = true <-> hop_pre_c st o.
Proof.
  intros st o. destruct o; simpl;
    rewrite ?andb_true_iff, ?occupied_cb_spec, ?Nat.ltb_lt; try tauto.
  - (* HNewSubst *)
    rewrite nodup_b_spec, forallb_forall. split.
    + intros [A B]. split; [exact A|]. intros v k Hin. specialize (B (v, k) Hin). simpl in B.
      rewrite andb_true_iff, Nat.ltb_lt, occupied_cb_spec in B. exact B.
    + intros [A B]. split; [exact A|]. intros [v k] Hin. simpl.
      rewrite andb_true_iff, Nat.ltb_lt, occupied_cb_spec. apply (B v k Hin).
  - (* HSubst *)
    destruct (creg_fn (hc_reg C st) id) as [p|]; split.
    + intros [A _]. split; [exact A | eauto].
    + intros [A _]. auto.
    + intros [_ X]. discriminate.
    + intros [_ [p X]]. discriminate.
  - (* HSetVarOrder *)
    rewrite SortOrderProofs.order_ok_b_valid. unfold SortOrderProofs.valid_order. tauto.
Qed.

Theorem hops_pre_cb_spec : forall ops st, hops_pre_cb lt C cget cadd cempty st ops = true -> hops_pre_c st ops.
Proof.
  induction ops as [|o rest IH]; intros st Hb; simpl in *; [exact I|].
  apply andb_true_iff in Hb. destruct Hb as [A B]. split; [apply hop_pre_cb_spec; exact A|].
  intros st1 E. rewrite E in B. apply IH. exact B.
Qed.

(** a history accepted by the checker runs to completion, in a reachable state *)
Theorem hrun_c_checked : forall n ops, hops_pre_cb lt C cget cadd cempty (hinit_c n) ops = true ->
  exists st, hrun_c (hinit_c n) ops = Some st /\ hreach_c n st.
Proof.
  intros n ops Hb. pose proof (hops_pre_cb_spec ops (hinit_c n) Hb) as P.
  destruct (hrun_c_ok ops (hinit_c n) (hinit_c_inv n) P) as [st [E _]].
  exists st. split; [exact E|]. exists ops. auto.
Qed.

End ThmsC.
