(** * Every branch of [hstep_c] IS the executable model that is compared with the real code

    [hstep_c] (Mgr/HistoryC.v) was written by putting the existing BCDD models
    together.  This file states that composition as equations, so that what
    the correspondence runs establish for the parts carries over.  The
    right-hand sides are exactly the functions extracted for and replayed by
    the drivers:

    - [cmk_const], [cmk_var], [capply_not], [capply_op], [capply_ite]
      (coq/Extract/ExC02b.v, ./check C02 pass 1 on the bcdd cases);
    - [cquant_edge], [capply_quant_edge], [crestrict_edge], [csubstitute_edge]
      (coq/Extract/ExC04.v, ./check C04 pass 1, BCDD engine);
    - [set_var_order_model_c] (coq/Extract/ExDD.v, ./check C08: BCDD
      reorderings replayed swap by swap);
    - [HAddVars] is [add_levels] of DD/ZbddVars.v (./check C09; the map update
      does not depend on the kind); [HGc] yields [collected] of Mgr/OomGc.v
      ([gc_model_collected]; the real rc-based collection: ./check C05 / C14).

    The only glue not covered by one of those runs: reading operands from /
    storing the result into slots ([cslot], [cput]), the registry of
    substitution objects and the choice "cache kept / cache cleared". *)

From Coq Require Import List NArith PArith Bool Arith FMapPositive.
From OxiVerif Require Import DD.Table DD.TableProofs DD.Sem DD.Build DD.Apply DD.ConfigApply DD.Quant DD.ZbddVars
  DD.ApplyBcdd DD.QuantBcdd Mgr.SortOrder Mgr.LevelSwapC Mgr.OomGc Mgr.History Mgr.HistoryGc Mgr.HistoryC.
Import ListNotations.

Local Arguments hget : simpl never.

Section TieC.
Variable lt : edge -> edge -> bool.
Variable C : Type.
Variable cget : C -> N -> list edge -> option edge.
Variable cadd : C -> N -> list edge -> edge -> C.
Variable cempty : C.

Notation hstep_c := (hstep_c lt C cget cadd cempty).

Theorem hstep_c_const : forall st d b,
  hstep_c st (HConst d b) =
  match cmk_const (hc_s C st) b with
  | Some r => cfinish C st d (Some (hc_s C st, hc_c C st, r))
  | None => None
  end.
Proof. intros st d b. simpl. destruct (cmk_const (hc_s C st) b); reflexivity. Qed.

Theorem hstep_c_var : forall st d v neg,
  hstep_c st (HVar d v neg) =
  match cmk_var (hc_s C st) v neg with
  | Some (s', r) => cfinish C st d (Some (s', hc_c C st, r))
  | None => None
  end.
Proof. intros st d v neg. simpl. destruct (cmk_var (hc_s C st) v neg) as [[s' r]|]; reflexivity. Qed.

Theorem hstep_c_not : forall st d a f, cslot C st a = Some f ->
  hstep_c st (HNot d a) = cfinish C st d (capply_not C (hc_s C st) (hc_c C st) f).
Proof. intros st d a f Ef. simpl. rewrite Ef. reflexivity. Qed.

Theorem hstep_c_bin : forall st op d a b f g, cslot C st a = Some f -> cslot C st b = Some g ->
  hstep_c st (HBin op d a b) =
  cfinish C st d (capply_op lt C cget cadd (S (nlevels (hc_s C st))) (hc_s C st) (hc_c C st) op f g).
Proof. intros st op d a b f g Ef Eg. simpl. rewrite Ef, Eg. reflexivity. Qed.

Theorem hstep_c_ite : forall st d a b c f g h,
  cslot C st a = Some f -> cslot C st b = Some g -> cslot C st c = Some h ->
  hstep_c st (HIte d a b c) =
  cfinish C st d (capply_ite lt C cget cadd (S (nlevels (hc_s C st))) (hc_s C st) (hc_c C st) f g h).
Proof. intros st d a b c f g h Ef Eg Eh. simpl. rewrite Ef, Eg, Eh. reflexivity. Qed.

Theorem hstep_c_quant : forall st q d a vars f V, cslot C st a = Some f -> cslot C st vars = Some V ->
  hstep_c st (HQuant q d a vars) = cfinish C st d (cquant_edge lt C cget cadd (hc_s C st) (hc_c C st) q f V).
Proof. intros st q d a vars f V Ef Ev. simpl. rewrite Ef, Ev. reflexivity. Qed.

Theorem hstep_c_apply_quant : forall st q op d a b vars f g V,
  cslot C st a = Some f -> cslot C st b = Some g -> cslot C st vars = Some V ->
  hstep_c st (HApplyQuant q op d a b vars) =
  cfinish C st d (capply_quant_edge lt C cget cadd (hc_s C st) (hc_c C st) q op f g V).
Proof. intros st q op d a b vars f g V Ef Eg Ev. simpl. rewrite Ef, Eg, Ev. reflexivity. Qed.

Theorem hstep_c_restrict : forall st d a cube f V, cslot C st a = Some f -> cslot C st cube = Some V ->
  hstep_c st (HRestrict d a cube) = cfinish C st d (crestrict_edge C cget cadd (hc_s C st) (hc_c C st) f V).
Proof. intros st d a cube f V Ef Ev. simpl. rewrite Ef, Ev. reflexivity. Qed.

Theorem hstep_c_subst : forall st d a id f rp, cslot C st a = Some f -> creg_fn (hc_reg C st) id = Some rp ->
  hstep_c st (HSubst d a id) =
  cfinish C st d (csubstitute_edge lt C cget cadd (hc_s C st) (hc_c C st) f rp id).
Proof. intros st d a id f rp Ef Er. simpl. rewrite Ef, Er. reflexivity. Qed.

(** [set_var_order]: whenever the code gets as far as [manager.reorder] the new
    table is [set_var_order_model_c] of the table with all roots, the slots
    are put back and the cache is cleared *)
Theorem hstep_c_reorder : forall st order,
  Nat.leb (length order) 1 = false -> order_ok_b (nlevels (hc_s C st)) order = true ->
  nat_list_eqb (sort_order (nlevels (hc_s C st)) (map (fun v => nth v (s_v2l (hc_s C st)) 0) order))
               (seq 0 (nlevels (hc_s C st))) = false ->
  hstep_c st (HSetVarOrder order) =
  Some (mkHC C (set_handles (set_var_order_model_c (with_roots_c C st) order) (s_handles (hc_s C st)))
             cempty (hc_reg C st) (hc_next C st)).
Proof. intros st order E1 E2 E3. simpl. rewrite E1, E2, E3. reflexivity. Qed.

Theorem hstep_c_add_vars : forall st k,
  hstep_c st (HAddVars k) = Some (mkHC C (add_levels (hc_s C st) k) (hc_c C st) (hc_reg C st) (hc_next C st)).
Proof. reflexivity. Qed.

(** [gc]: the new table is the collection (Mgr/OomGc.v) of the table with all roots *)
Theorem hstep_c_gc : forall st, WF (with_roots_c C st) ->
  exists sg, collected (with_roots_c C st) sg /\
    hstep_c st HGc = Some (mkHC C (set_handles sg (s_handles (hc_s C st))) cempty (hc_reg C st) (hc_next C st)).
Proof.
  intros st H. exists (gc_model (with_roots_c C st)). split; [apply gc_model_collected; exact H | reflexivity].
Qed.

End TieC.
