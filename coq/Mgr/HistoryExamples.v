(** * A concrete history through every kind of call, and the theorems instantiated on it

    [ex_ops]: 23 calls on a manager with 3 variables covering all 15
    constructors of [hop] (with a substitution object that is used again after
    a collection and a reordering, and a variable added late), run with an
    unbounded cache and operand order "always swap".
    [ex_fresh]: a fresh manager with 4 variables that is only brought into the
    same variable order and builds the two operands, run WITHOUT cache and
    with operand order "never swap".
    Everything here is computed by [vm_compute] on the executable model; the
    theorems of Mgr/HistoryThms.v / HistorySpec.v are then applied to the
    computed states (their hypotheses are satisfiable, their conclusions are
    about non-trivial tables). *)

From Coq Require Import List NArith PArith Bool Arith Lia FMapPositive.
From OxiVerif Require Import DD.Table DD.TableProofs DD.Sem DD.Build DD.Apply DD.ApplyProofs
  DD.ApplyEvalProofs DD.ConfigApply DD.Quant DD.QuantSpecProofs DD.QuantTopProofs
  Mgr.History Mgr.HistoryBase Mgr.HistoryProofs Mgr.HistoryThms Mgr.HistorySpec.
Import ListNotations.
Local Open Scope N_scope.

(** ** Deciding equality of two diagram functions by enumeration *)

Fixpoint all_asgs (n : nat) : list asg :=
  match n with
  | O => [fun _ => false]
  | S k => flat_map (fun a => [Sem.upd a k true; Sem.upd a k false]) (all_asgs k)
  end.

Lemma all_asgs_cover : forall n (a : asg), exists a', In a' (all_asgs n) /\ forall v, (v < n)%nat -> a v = a' v.
Proof.
  induction n as [|k IH]; intros a.
  - exists (fun _ => false). split; [left; reflexivity | intros v Hv; lia].
  - destruct (IH a) as [a' [Hin Hag]]. exists (Sem.upd a' k (a k)). split.
    + simpl. apply in_flat_map. exists a'. split; [exact Hin|]. destruct (a k); simpl; auto.
    + intros v Hv. unfold Sem.upd. destruct (Nat.eqb_spec v k) as [->|Hne]; [reflexivity|].
      apply Hag. lia.
Qed.

Definition bfun_eqb (n : nat) (f g : bfun) : bool :=
  forallb (fun a => Bool.eqb (f a) (g a)) (all_asgs n).

Lemma bfun_eq_enum : forall s1 s2 r1 r2 n, WF s1 -> WF s2 -> nlevels s1 = n -> nlevels s2 = n ->
  bfun_eqb n (bfun_of s1 r1) (bfun_of s2 r2) = true ->
  forall a, bfun_of s1 r1 a = bfun_of s2 r2 a.
Proof.
  intros s1 s2 r1 r2 n H1 H2 N1 N2 Hb a. destruct (all_asgs_cover n a) as [a' [Hin Hag]].
  unfold bfun_eqb in Hb. rewrite forallb_forall in Hb. specialize (Hb a' Hin). apply eqb_prop in Hb.
  rewrite (bfun_of_local s1 r1 a a' H1) by (rewrite N1; exact Hag).
  rewrite (bfun_of_local s2 r2 a a' H2) by (rewrite N2; exact Hag). exact Hb.
Qed.

(** ** Configuration A: unbounded cache, operands always swapped *)

Definition gtA : ref -> ref -> bool := fun _ _ => true.
Notation stepA := (hstep gtA acache ac_get ac_add []).
Notation runA := (hrun gtA acache ac_get ac_add []).
Lemma emptyA : forall k a, ac_get [] k a = None.
Proof. reflexivity. Qed.

(** ** Configuration B: no cache, operands never swapped *)

Definition gtB : ref -> ref -> bool := fun _ _ => false.
Notation stepB := (hstep gtB unit nc_get nc_add tt).
Notation runB := (hrun gtB unit nc_get nc_add tt).
Lemma emptyB : forall k a, nc_get tt k a = None.
Proof. reflexivity. Qed.

(** ** The long history *)

Definition ex_ops : list hop :=
  [ HVar 0 0 false;                       (* x0 *)
    HVar 1 1 false;                       (* x1 *)
    HVar 2 2 false;                       (* x2 *)
    HConst 3 true;
    HBin OAnd 4 0 1;                      (* x0 /\ x1 *)
    HBin OOr 5 4 2;                       (* x0 /\ x1 \/ x2 *)
    HNot 6 5;
    HIte 7 0 1 2;                         (* if x0 then x1 else x2 *)
    HQuant QExists 8 5 1;                 (* exists x1 *)
    HApplyQuant QForall OOr 9 0 2 1;      (* forall x1. x0 \/ x2 *)
    HVar 11 2 true;                       (* ~x2 *)
    HBin OAnd 10 0 11;                    (* the cube x0 /\ ~x2 *)
    HRestrict 12 5 10;
    HNewSubst [(0%nat, 1); (1%nat, 2)];   (* x0 := x1, x1 := x2; id 0 *)
    HSubst 13 5 0;
    HClone 14 5;
    HDrop 6;
    HGc;
    HSetVarOrder [2%nat; 0%nat; 1%nat];
    HAddVars 1;
    HVar 15 3 false;                      (* the new variable *)
    HBin OXor 16 5 15;
    HSubst 17 7 0;                        (* the old substitution object, after gc + reordering *)
    HGc ].

Definition ex_stA : hstate acache :=
  match runA (hinit acache [] 3) ex_ops with Some st => st | None => hinit acache [] 0 end.

Lemma ex_preA : hops_pre_b gtA acache ac_get ac_add [] (hinit acache [] 3) ex_ops = true.
Proof. vm_compute. reflexivity. Qed.

Lemma ex_runA : runA (hinit acache [] 3) ex_ops = Some ex_stA.
Proof. vm_compute. reflexivity. Qed.

(** every constructor occurs *)
Definition hop_tag (o : hop) : nat :=
  match o with
  | HConst _ _ => 0 | HVar _ _ _ => 1 | HNot _ _ => 2 | HBin _ _ _ _ => 3 | HIte _ _ _ _ => 4
  | HQuant _ _ _ _ => 5 | HApplyQuant _ _ _ _ _ _ => 6 | HRestrict _ _ _ => 7 | HNewSubst _ => 8
  | HSubst _ _ _ => 9 | HClone _ _ => 10 | HDrop _ => 11 | HGc => 12 | HAddVars _ => 13
  | HSetVarOrder _ => 14
  end%nat.

Lemma ex_ops_cover : forallb (fun t => existsb (fun o => Nat.eqb (hop_tag o) t) ex_ops) (seq 0 15) = true
                     /\ length ex_ops = 24%nat.
Proof. vm_compute. auto. Qed.

(** the run is not trivial: nodes were created, removed and reordered *)
Lemma ex_stA_shape :
  PositiveMap.cardinal (s_nodes (h_s acache ex_stA)) = 15%nat /\
  s_l2v (h_s acache ex_stA) = [2; 0; 1; 3]%nat /\
  s_v2l (h_s acache ex_stA) = [1; 2; 0; 3]%nat /\
  length (s_handles (h_s acache ex_stA)) = 17%nat /\
  h_next acache ex_stA = 1 /\
  wf_b (h_s acache ex_stA) = true.
Proof. vm_compute. repeat split; reflexivity. Qed.

Theorem ex_reachA : hreach gtA acache ac_get ac_add [] 3 ex_stA.
Proof.
  exists ex_ops. split; [|exact ex_runA].
  apply (hops_pre_b_spec gtA acache ac_get ac_add []). exact ex_preA.
Qed.

Theorem ex_invA : HInv acache ac_get ex_stA.
Proof. apply (hreach_inv gtA acache ac_get ac_add ac_lossy [] emptyA 3). exact ex_reachA. Qed.

(** the theorems, instantiated *)
Theorem ex_wfA : wf_b (h_s acache ex_stA) = true /\ bdd_ok_b (h_s acache ex_stA) = true.
Proof. apply (hist_wf gtA acache ac_get ac_add ac_lossy [] emptyA 3). exact ex_reachA. Qed.

(** slots 5 and 14 (a clone) hold the same edge; slots 5 and 7 hold different
    edges, hence (canonicity) different functions *)
Theorem ex_canonA :
  hget (s_handles (h_s acache ex_stA)) 5 = hget (s_handles (h_s acache ex_stA)) 14 /\
  forall e5 e7, hget (s_handles (h_s acache ex_stA)) 5 = Some e5 ->
                hget (s_handles (h_s acache ex_stA)) 7 = Some e7 ->
    ~ (forall a, bfun_of (h_s acache ex_stA) (eref e5) a = bfun_of (h_s acache ex_stA) (eref e7) a).
Proof.
  split; [vm_compute; reflexivity|]. intros e5 e7 E5 E7 Heq.
  assert (X : e5 = e7).
  { apply (proj2 (hist_canonical gtA acache ac_get ac_add ac_lossy [] emptyA 3 ex_stA ex_reachA 5 7 e5 e7 E5 E7)).
    exact Heq. }
  assert (Y : hget (s_handles (h_s acache ex_stA)) 5 <> hget (s_handles (h_s acache ex_stA)) 7)
    by (vm_compute; discriminate).
  apply Y. rewrite E5, E7, X. reflexivity.
Qed.

(** ** The fresh manager *)

Definition ex_fresh : list hop :=
  [ HSetVarOrder [2%nat; 0%nat; 1%nat];
    HVar 0 0 false; HVar 1 1 false; HVar 2 2 false;
    HBin OAnd 3 0 1;
    HBin OOr 4 3 2;                       (* x0 /\ x1 \/ x2 *)
    HIte 5 0 1 2 ].                       (* if x0 then x1 else x2 *)

Definition ex_stB : hstate unit :=
  match runB (hinit unit tt 4) ex_fresh with Some st => st | None => hinit unit tt 0 end.

Lemma ex_preB : hops_pre_b gtB unit nc_get nc_add tt (hinit unit tt 4) ex_fresh = true.
Proof. vm_compute. reflexivity. Qed.

Lemma ex_runB : runB (hinit unit tt 4) ex_fresh = Some ex_stB.
Proof. vm_compute. reflexivity. Qed.

Theorem ex_reachB : hreach gtB unit nc_get nc_add tt 4 ex_stB.
Proof.
  exists ex_fresh. split; [|exact ex_runB].
  apply (hops_pre_b_spec gtB unit nc_get nc_add tt). exact ex_preB.
Qed.

Lemma ex_same_order :
  s_l2v (h_s acache ex_stA) = s_l2v (h_s unit ex_stB) /\ s_v2l (h_s acache ex_stA) = s_v2l (h_s unit ex_stB).
Proof. vm_compute. split; reflexivity. Qed.

(** the operands in the two managers *)
Definition slot_ref (C : Type) (st : hstate C) (k : N) : ref :=
  match hslot C st k with Some r => r | None => RT 0 end.

Definition fA5 : bfun := bfun_of (h_s acache ex_stA) (slot_ref acache ex_stA 5).
Definition fA7 : bfun := bfun_of (h_s acache ex_stA) (slot_ref acache ex_stA 7).

Lemma ex_holdsA5 : holds acache ex_stA 5 fA5.
Proof. exists (slot_ref acache ex_stA 5). split; [vm_compute; reflexivity | intros a; unfold fA5; reflexivity]. Qed.
Lemma ex_holdsA7 : holds acache ex_stA 7 fA7.
Proof. exists (slot_ref acache ex_stA 7). split; [vm_compute; reflexivity | intros a; unfold fA7; reflexivity]. Qed.

Lemma ex_wfB : WF (h_s unit ex_stB).
Proof. apply wf_b_spec. vm_compute. reflexivity. Qed.

Lemma ex_WFA : WF (h_s acache ex_stA).
Proof. apply wf_b_spec. vm_compute. reflexivity. Qed.

Lemma ex_nA : nlevels (h_s acache ex_stA) = 4%nat.
Proof. vm_compute. reflexivity. Qed.
Lemma ex_nB : nlevels (h_s unit ex_stB) = 4%nat.
Proof. vm_compute. reflexivity. Qed.

Lemma ex_enum4 : bfun_eqb 4 (bfun_of (h_s unit ex_stB) (slot_ref unit ex_stB 4))
                            (bfun_of (h_s acache ex_stA) (slot_ref acache ex_stA 5)) = true.
Proof. vm_compute. reflexivity. Qed.
Lemma ex_enum5 : bfun_eqb 4 (bfun_of (h_s unit ex_stB) (slot_ref unit ex_stB 5))
                            (bfun_of (h_s acache ex_stA) (slot_ref acache ex_stA 7)) = true.
Proof. vm_compute. reflexivity. Qed.

Lemma ex_slotB4 : hslot unit ex_stB 4 = Some (slot_ref unit ex_stB 4).
Proof. vm_compute. reflexivity. Qed.
Lemma ex_slotB5 : hslot unit ex_stB 5 = Some (slot_ref unit ex_stB 5).
Proof. vm_compute. reflexivity. Qed.

(** slot 4 / slot 5 of the fresh manager hold the same functions as slot 5 /
    slot 7 of the long-lived one (decided over all 16 assignments) *)
Lemma ex_holdsB4 : holds unit ex_stB 4 fA5.
Proof.
  exists (slot_ref unit ex_stB 4). split; [exact ex_slotB4|].
  exact (bfun_eq_enum (h_s unit ex_stB) (h_s acache ex_stA) (slot_ref unit ex_stB 4) (slot_ref acache ex_stA 5)
                      4%nat ex_wfB ex_WFA ex_nB ex_nA ex_enum4).
Qed.
Lemma ex_holdsB5 : holds unit ex_stB 5 fA7.
Proof.
  exists (slot_ref unit ex_stB 5). split; [exact ex_slotB5|].
  exact (bfun_eq_enum (h_s unit ex_stB) (h_s acache ex_stA) (slot_ref unit ex_stB 5) (slot_ref acache ex_stA 7)
                      4%nat ex_wfB ex_WFA ex_nB ex_nA ex_enum5).
Qed.

(** C08 / C01: the conjunction computed in the long-lived manager (after 24
    calls, two collections, a reordering, an added variable; cache, swapped
    operands) and in the fresh one (no cache) denote the same function and
    have the same number of nodes *)
Theorem ex_fresh_equiv :
  exists stA' stB' r1 r2,
    stepA ex_stA (HBin OAnd 20 5 7) = Some stA' /\ stepB ex_stB (HBin OAnd 6 4 5) = Some stB' /\
    hslot acache stA' 20 = Some r1 /\ hslot unit stB' 6 = Some r2 /\
    (forall a, bfun_of (h_s acache stA') r1 a = lift2 OAnd fA5 fA7 a) /\
    (forall a, bfun_of (h_s unit stB') r2 a = lift2 OAnd fA5 fA7 a) /\
    count_reach (h_s acache stA') (E r1) = count_reach (h_s unit stB') (E r2) /\
    wf_b (h_s acache stA') = true /\ wf_b (h_s unit stB') = true.
Proof.
  apply (hist_fresh_equiv gtA gtB acache unit ac_get ac_add nc_get nc_add ac_lossy nc_lossy [] tt emptyA emptyB
           3 4 ex_ops ex_fresh ex_stA ex_stB).
  - apply (hops_pre_b_spec gtA acache ac_get ac_add []). exact ex_preA.
  - exact ex_runA.
  - apply (hops_pre_b_spec gtB unit nc_get nc_add tt). exact ex_preB.
  - exact ex_runB.
  - apply ex_same_order.
  - apply ex_same_order.
  - apply SpBin; [exact ex_holdsA5 | exact ex_holdsA7].
  - apply SpBin; [exact ex_holdsB4 | exact ex_holdsB5].
Qed.

(** what the two results actually are: 6 nodes each (4 inner + 2 terminals), different node ids *)
Lemma ex_fresh_values :
  match stepA ex_stA (HBin OAnd 20 5 7), stepB ex_stB (HBin OAnd 6 4 5) with
  | Some a, Some b =>
    (count_reach (h_s acache a) (E (slot_ref acache a 20)),
     count_reach (h_s unit b) (E (slot_ref unit b 6)),
     ref_eqb (slot_ref acache a 20) (slot_ref unit b 6))
  | _, _ => (0, 0, true)
  end = (6, 6, false).
Proof. vm_compute. reflexivity. Qed.

(** ** The hypotheses of [hspec] for quantification, restriction and substitution are satisfiable *)

Lemma bfun_eq_enum_spec : forall s r n (F : bfun), WF s -> nlevels s = n ->
  (forall a a', (forall v, (v < n)%nat -> a v = a' v) -> F a = F a') ->
  bfun_eqb n (bfun_of s r) F = true -> forall a, bfun_of s r a = F a.
Proof.
  intros s r n F H N Hloc Hb a. destruct (all_asgs_cover n a) as [a' [Hin Hag]].
  unfold bfun_eqb in Hb. rewrite forallb_forall in Hb. specialize (Hb a' Hin). apply eqb_prop in Hb.
  rewrite (bfun_of_local s r a a' H) by (rewrite N; exact Hag). rewrite Hb. symmetry. apply Hloc. exact Hag.
Qed.

Lemma conj_vars_local : forall vs n, (forall v, In v vs -> (v < n)%nat) ->
  forall a a', (forall v, (v < n)%nat -> a v = a' v) -> conj_vars vs a = conj_vars vs a'.
Proof.
  intros vs n Hlt a a' Hag. unfold conj_vars. induction vs as [|v r IH]; [reflexivity|]. simpl.
  rewrite (Hag v (Hlt v (or_introl eq_refl))), IH; [reflexivity|]. intros w Hw. apply Hlt. right. exact Hw.
Qed.

Lemma cube_fun_local : forall lits n, (forall p, In p lits -> (fst p < n)%nat) ->
  forall a a', (forall v, (v < n)%nat -> a v = a' v) -> cube_fun lits a = cube_fun lits a'.
Proof.
  intros lits n Hlt a a' Hag. unfold cube_fun. induction lits as [|p r IH]; [reflexivity|]. simpl.
  rewrite (Hag (fst p) (Hlt p (or_introl eq_refl))), IH; [reflexivity|]. intros w Hw. apply Hlt. right. exact Hw.
Qed.

(** slot 1 holds the variable set {x1}; slot 10 the cube x0 /\ ~x2 *)
Lemma ex_enum_vars : bfun_eqb 4 (bfun_of (h_s acache ex_stA) (slot_ref acache ex_stA 1)) (conj_vars [1%nat]) = true.
Proof. vm_compute. reflexivity. Qed.
Lemma ex_enum_cube : bfun_eqb 4 (bfun_of (h_s acache ex_stA) (slot_ref acache ex_stA 10))
                                (cube_fun [(0%nat, true); (2%nat, false)]) = true.
Proof. vm_compute. reflexivity. Qed.
Lemma ex_slotA1 : hslot acache ex_stA 1 = Some (slot_ref acache ex_stA 1).
Proof. vm_compute. reflexivity. Qed.
Lemma ex_slotA10 : hslot acache ex_stA 10 = Some (slot_ref acache ex_stA 10).
Proof. vm_compute. reflexivity. Qed.

Lemma ex_holds_vars : holds acache ex_stA 1 (conj_vars [1%nat]).
Proof.
  exists (slot_ref acache ex_stA 1). split; [exact ex_slotA1|].
  apply (bfun_eq_enum_spec _ _ 4%nat _ ex_WFA ex_nA); [|exact ex_enum_vars].
  apply conj_vars_local. intros v [<-|[]]. lia.
Qed.

Lemma ex_holds_cube : holds acache ex_stA 10 (cube_fun [(0%nat, true); (2%nat, false)]).
Proof.
  exists (slot_ref acache ex_stA 10). split; [exact ex_slotA10|].
  apply (bfun_eq_enum_spec _ _ 4%nat _ ex_WFA ex_nA); [|exact ex_enum_cube].
  apply cube_fun_local. intros p [<-|[<-|[]]]; simpl; lia.
Qed.

(** exists x1. (slot 5) *)
Theorem ex_spec_quant :
  exists st', stepA ex_stA (HQuant QExists 21 5 1) = Some st' /\
              holds acache st' 21 (exists_s [1%nat] fA5).
Proof.
  destruct (hstep_spec gtA acache ac_get ac_add ac_lossy [] emptyA ex_stA _ 21 _ ex_invA
              (SpQuant acache ex_stA QExists 21 5 1 fA5 [1%nat] ex_holdsA5 ex_holds_vars
                 ltac:(intros v [<-|[]]; rewrite ex_nA; lia) ltac:(discriminate)))
    as [st' [E [_ [_ Hd]]]].
  exists st'. split; [exact E | exact Hd].
Qed.

(** (slot 5) restricted to x0 = true, x2 = false *)
Theorem ex_spec_restrict :
  exists st', stepA ex_stA (HRestrict 21 5 10) = Some st' /\
              holds acache st' 21 (restrict_s [(0%nat, true); (2%nat, false)] fA5).
Proof.
  destruct (hstep_spec gtA acache ac_get ac_add ac_lossy [] emptyA ex_stA _ 21 _ ex_invA
              (SpRestrict acache ex_stA 21 5 10 fA5 [(0%nat, true); (2%nat, false)] ex_holdsA5 ex_holds_cube
                 ltac:(repeat constructor; simpl; intuition discriminate)
                 ltac:(intros p [<-|[<-|[]]]; rewrite ex_nA; simpl; lia)))
    as [st' [E [_ [_ Hd]]]].
  exists st'. split; [exact E | exact Hd].
Qed.

(** the substitution object created by call 14, applied once more in the final state *)
Definition ex_rp : hpairs :=
  match hreg_fn (h_reg acache ex_stA) 0 with Some rp => rp | None => [] end.

Lemma ex_reg0 : hreg_fn (h_reg acache ex_stA) 0 = Some ex_rp.
Proof. vm_compute. reflexivity. Qed.

Lemma sub_funs_refl : forall s rp, sub_funs s rp (map (fun p : nat * ref => (fst p, bfun_of s (snd p))) rp).
Proof.
  intros s rp. unfold sub_funs. induction rp as [|p r IH]; simpl; constructor; [|exact IH].
  split; [reflexivity | intros a; reflexivity].
Qed.

Theorem ex_spec_subst :
  exists st', stepA ex_stA (HSubst 21 5 0) = Some st' /\ length ex_rp = 2%nat /\
    holds acache st' 21
      (subst_s (map (fun p : nat * ref => (fst p, bfun_of (h_s acache ex_stA) (snd p))) ex_rp) fA5).
Proof.
  destruct (hstep_spec gtA acache ac_get ac_add ac_lossy [] emptyA ex_stA _ 21 _ ex_invA
              (SpSubst acache ex_stA 21 5 0 fA5 ex_rp _ ex_holdsA5
                 (aext_bfun_of _ ex_WFA _) ex_reg0 (sub_funs_refl _ ex_rp)))
    as [st' [E [_ [_ Hd]]]].
  exists st'. split; [exact E|]. split; [vm_compute; reflexivity | exact Hd].
Qed.
