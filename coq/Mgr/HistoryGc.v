(** * [gc_model] (Mgr/History.v) computes the collection specified in Mgr/OomGc.v

    [gc_model_collected]: on a well-formed table the executable marking
    ([gc_marks]: the handles' nodes, then [nlevels s] rounds of "children of
    marked nodes") marks exactly the stored nodes that are [reachable] from
    the handle list, hence [collected s (gc_model s)]; all consequences
    ([collected_ok]: well-formed, sub-table, every surviving reference means
    what it meant, nothing unreachable is left) apply. *)

From Coq Require Import List NArith PArith Bool Arith Lia FMapPositive.
From OxiVerif Require Import DD.Table DD.TableProofs DD.Build DD.BuildProofs DD.Apply DD.ApplyProofs
  Mgr.LevelSwapBase Mgr.OomGc Mgr.History.
Import ListNotations.

Lemma marked_mark_ref : forall m r id,
  marked (mark_ref m r) id = true <-> marked m id = true \/ r = RN id.
Proof.
  intros m [t|x] id; simpl.
  - split; [auto | intros [A|A]; [exact A | discriminate]].
  - unfold marked. rewrite find_add. destruct (Pos.eqb_spec id x) as [->|Hne].
    + split; auto.
    + split; [auto | intros [A|A]; [exact A | inversion A; congruence]].
Qed.

Lemma marked_fold_refs : forall (A : Type) (g : A -> ref) (l : list A) m id,
  marked (fold_left (fun a x => mark_ref a (g x)) l m) id = true <->
  marked m id = true \/ In (RN id) (map g l).
Proof.
  intros A g. induction l as [|x l IH]; intros m id; simpl.
  - split; [auto | intros [H|[]]; exact H].
  - rewrite IH, marked_mark_ref. split.
    + intros [[H|H]|H]; auto.
    + intros [H|[H|H]]; auto.
Qed.

Lemma mark_roots_spec : forall s id,
  marked (mark_roots s) id = true <-> In (RN id) (handle_refs s).
Proof.
  intros s id. unfold mark_roots.
  rewrite (marked_fold_refs _ (fun h : N * edge => eref (snd h))). unfold handle_refs. split.
  - intros [H|H]; [|exact H]. unfold marked in H. rewrite PositiveMap.gempty in H. discriminate.
  - auto.
Qed.

Lemma mark_round_list : forall (l : list (positive * node)) m acc id,
  marked (fold_left (fun acc (p : positive * node) =>
               if marked m (fst p)
               then fold_left (fun a e => mark_ref a (eref e)) (nchildren (snd p)) acc
               else acc) l acc) id = true <->
  marked acc id = true \/
  exists p e, In p l /\ marked m (fst p) = true /\ In e (nchildren (snd p)) /\ eref e = RN id.
Proof.
  induction l as [|p l IH]; intros m acc id; simpl.
  - split; [auto | intros [H|[p [e [[] _]]]]; exact H].
  - rewrite IH. split.
    + intros [H|[q [e [Hq R]]]].
      * destruct (marked m (fst p)) eqn:Em; [|auto].
        apply (marked_fold_refs _ eref) in H. destruct H as [H|H]; [auto|].
        apply in_map_iff in H. destruct H as [e [He1 He2]]. right. exists p, e. auto.
      * right. exists q, e. auto.
    + intros [H|[q [e [[<-|Hq] [Em [He Hr]]]]]].
      * left. destruct (marked m (fst p)); [|exact H].
        apply (marked_fold_refs _ eref). auto.
      * left. rewrite Em. apply (marked_fold_refs _ eref). right. apply in_map_iff. exists e. auto.
      * right. exists q, e. auto.
Qed.

Lemma mark_round_spec : forall s m id,
  marked (mark_round s m) id = true <->
  marked m id = true \/
  exists pid nd e, find_node s pid = Some nd /\ marked m pid = true /\ In e (nchildren nd) /\ eref e = RN id.
Proof.
  intros s m id. unfold mark_round. rewrite mark_round_list. split.
  - intros [H|[[pid nd] [e [Hp [Em [He Hr]]]]]]; [auto|]. right. exists pid, nd, e.
    split; [apply find_node_elements; exact Hp | auto].
  - intros [H|[pid [nd [e [E [Em [He Hr]]]]]]]; [auto|]. right. exists (pid, nd), e.
    split; [apply find_node_elements; exact E | auto].
Qed.

Lemma mark_iter_mono : forall s m k k' id, k <= k' ->
  marked (mark_iter k s m) id = true -> marked (mark_iter k' s m) id = true.
Proof.
  intros s m k k' id Hle. induction Hle as [|k' Hle IH]; [auto|].
  intros H. simpl. apply mark_round_spec. left. apply IH. exact H.
Qed.

Section Marks.
Variable s : snap.
Hypothesis H : WF s.

Lemma mark_iter_sound : forall k id,
  marked (mark_iter k s (mark_roots s)) id = true -> reachable s (handle_refs s) (RN id).
Proof.
  induction k as [|k IH]; intros id; simpl.
  - intros Hm. apply reach_root. apply mark_roots_spec. exact Hm.
  - intros Hm. apply mark_round_spec in Hm. destruct Hm as [Hm|[pid [nd [e [E [Em [He Hr]]]]]]].
    + apply IH. exact Hm.
    + rewrite <- Hr. apply (reach_child s _ pid nd e (IH pid Em) E He).
Qed.

Lemma mark_iter_complete : forall r, reachable s (handle_refs s) r ->
  forall id nd, r = RN id -> find_node s id = Some nd ->
  marked (mark_iter (nlevel nd) s (mark_roots s)) id = true.
Proof.
  intros r R. induction R as [r Hin|pid pnd e R IH Ep He]; intros id nd Heq E.
  - subst r. apply (mark_iter_mono s _ 0); [lia|]. simpl. apply mark_roots_spec. exact Hin.
  - destruct (wf_child s H pid pnd e Ep He) as [_ Hlt]. rewrite Heq in Hlt.
    rewrite (rlevel_node s id nd E) in Hlt.
    apply (mark_iter_mono s _ (S (nlevel pnd))); [lia|]. simpl. apply mark_round_spec. right.
    exists pid, pnd, e. split; [exact Ep|]. split; [apply (IH pid pnd eq_refl Ep)|]. auto.
Qed.

Lemma gc_marks_spec : forall id nd, find_node s id = Some nd ->
  (marked (gc_marks s) id = true <-> reachable s (handle_refs s) (RN id)).
Proof.
  intros id nd E. unfold gc_marks. split.
  - apply mark_iter_sound.
  - intros R. apply (mark_iter_mono s _ (nlevel nd)); [pose proof (wf_level s H id nd E); lia|].
    apply (mark_iter_complete _ R id nd eq_refl E).
Qed.

Lemma dead_ids_spec : forall m id,
  In id (dead_ids s m) <-> exists nd, find_node s id = Some nd /\ marked m id = false.
Proof.
  intros m id. unfold dead_ids. rewrite in_map_iff. split.
  - intros [[i nd] [<- Hin]]. apply filter_In in Hin. destruct Hin as [Hin Hm]. simpl in *.
    exists nd. split; [apply find_node_elements; exact Hin|]. apply negb_true_iff. exact Hm.
  - intros [nd [E Hm]]. exists (id, nd). split; [reflexivity|]. apply filter_In.
    split; [apply find_node_elements; exact E | simpl; rewrite Hm; reflexivity].
Qed.

Lemma gc_model_find : forall id nd,
  find_node (gc_model s) id = Some nd <->
  (find_node s id = Some nd /\ reachable s (handle_refs s) (RN id)).
Proof.
  intros id nd. unfold gc_model, find_node at 1. simpl. rewrite find_remove_list.
  destruct (existsb (Pos.eqb id) (dead_ids s (gc_marks s))) eqn:X.
  - apply existsb_pos_In in X. apply dead_ids_spec in X. destruct X as [nd' [E Hm]].
    split; [discriminate|]. intros [E' R]. apply (gc_marks_spec id nd' E) in R. congruence.
  - fold (find_node s id). split.
    + intros E. split; [exact E|]. apply (gc_marks_spec id nd E).
      destruct (marked (gc_marks s) id) eqn:Hm; [reflexivity|]. exfalso.
      assert (Hin : In id (dead_ids s (gc_marks s))) by (apply dead_ids_spec; exists nd; auto).
      apply existsb_pos_In in Hin. congruence.
    + intros [E _]. exact E.
Qed.

Theorem gc_model_collected : collected s (gc_model s).
Proof. constructor; try reflexivity. exact gc_model_find. Qed.

End Marks.
