(** * One manager state machine over ALL operation kinds, MTBDD kind (integer terminals)

    Executable definitions only (proofs: Mgr/HistoryMBase.v, HistoryMProofs.v,
    HistoryMThms.v, HistoryMSpec.v; a concrete run: Mgr/HistoryMExamples.v).

    The MTBDD counterpart of Mgr/History.v (plain BDD), Mgr/HistoryC.v
    (complement edges) and Mgr/HistoryZ.v (ZBDD): the per-operation models of
    the MTBDD kind with terminal type [I64] (DD/ApplyMtbdd.v) are put together
    into ONE transition system whose state is what a client of the library
    holds on to between two calls:

    - [hm_s] : the node table (a [snap] of kind [KMtbdd]); its handle list
               [s_handles] are the client's [MTBDDFunction] values, named by
               slot numbers (MTBDD edges carry no tag: a slot holds a
               reference); its terminal list [s_terms] is the dynamic terminal
               manager: terminal id |-> code of the value (DD/ApplyMtbdd.v);
    - [hm_c] : the apply cache (abstract: any lossy cache keyed by operator
               code and operand edges, DD/ApplyProofs.v).

    One [mhop] is one API call; operands are slot numbers:

    - [MHConst], [MHVar]: [constant_edge], [var_edge] of
      oxidd-rules-mtbdd/src/apply_rec.rs = [mt_const], [mt_var];
    - [MHBin op] (add, sub, mul, div, min, max), [MHIte], [MHRestrict]:
      [apply_bin::<OP>] (through [terminal_bin]), [apply_ite], [restrict] =
      [mt_apply_bin], [mt_apply_ite], [mt_restrict], fuel [S (nlevels s)];
    - [MHClone], [MHDrop]: [Function::clone] / [drop];
    - [MHGc]: [Manager::gc] of oxidd-manager-index/src/manager.rs: the levels
      top-down ([LevelViewSet::gc]), THEN [terminal_manager.gc()]
      (terminal_manager/dynamic.rs: a terminal whose only reference is the
      table's own is dropped).  As in Mgr/History.v the result is computed
      directly: [gc_model] keeps the inner nodes reachable from the handles,
      [gc_terms] then keeps the terminals a handle or a surviving node refers
      to - the characterisation proved for the reference-counted code in C05
      ([C05_term_collect_exact], Mgr/TerminalsGc.v).  [pre_gc] clears the apply
      cache: [hm_c := cempty];
    - [MHAddVars k]: [Manager::add_vars]: [add_vars_model] (kind independent);
      the apply cache is NOT cleared (no entry depends on the number of levels);
    - [MHSetVarOrder order]: [oxidd_reorder::set_var_order]: the same early
      returns / panics as in Mgr/History.v, otherwise [set_var_order_model] of
      Mgr/LevelSwap.v (adjacent [level_swap]s; binary nodes, the "children equal"
      rule: the MTBDD rules coincide with the BDD rules there), cache cleared.
      Terminals are not touched by a reordering.

    [hstep_m] returns [None] when the client's request is malformed (empty
    slot, unknown variable) or when one of the code's [unwrap]s would panic;
    HistoryMProofs.v shows that from the empty manager neither happens for
    well-formed requests. *)

From Coq Require Import List NArith ZArith PArith Bool Arith FMapPositive.
From OxiVerif Require Import DD.Table DD.Sem DD.Build DD.Apply DD.ConfigApply Num.I64 DD.ApplyMtbdd
  Mgr.SortOrder Mgr.LevelSwap Mgr.History.
Import ListNotations.

(** ** The requests *)

Inductive mhop :=
| MHConst (dst : N) (v : i64v)
| MHVar (dst : N) (v : nat)
| MHBin (op : mop) (dst a b : N)
| MHIte (dst a b c : N)
| MHRestrict (dst a cube : N)
| MHClone (dst a : N)
| MHDrop (a : N)
| MHGc
| MHAddVars (k : nat)
| MHSetVarOrder (order : list nat).

(** the destination slot of a call (the only slot whose content may change) *)
Definition mhdst (o : mhop) : option N :=
  match o with
  | MHConst d _ | MHVar d _ | MHBin _ d _ _ | MHIte d _ _ _ | MHRestrict d _ _ | MHClone d _ => Some d
  | MHDrop a => Some a
  | MHGc | MHAddVars _ | MHSetVarOrder _ => None
  end.

(** ** Garbage collection of the terminals *)

(** some handle or some stored node refers to the terminal [t] *)
Definition term_used (s : snap) (t : N) : bool :=
  existsb (fun h : N * edge => ref_eqb (eref (snd h)) (RT t)) (s_handles s)
  || existsb (fun p : positive * node =>
                existsb (fun e : edge => ref_eqb (eref e) (RT t)) (nchildren (snd p)))
             (PositiveMap.elements (s_nodes s)).

(** [DynamicTerminalManager::gc] after the inner nodes were collected *)
Definition gc_terms (s : snap) : snap :=
  set_terms s (filter (fun p : N * N => term_used s (fst p)) (s_terms s)).

(** [Manager::gc] of an MTBDD manager *)
Definition gc_model_m (s : snap) : snap := gc_terms (gc_model s).

(** ** The state machine *)

Section MachineM.
(** the configuration: the (unobservable) edge order [f > g] of the commutative
    operators, the apply cache, its cleared state *)
Variable gt : ref -> ref -> bool.
Variable C : Type.
Variable cget : C -> N -> list ref -> option ref.
Variable cadd : C -> N -> list ref -> ref -> C.
Variable cempty : C.

Record hstate_m := mkHM { hm_s : snap; hm_c : C }.

(** store the result of an algorithm in slot [d] *)
Definition mfinish (d : N) (res : option (snap * C * ref)) : option hstate_m :=
  match res with
  | Some (s', c', r) => Some (mkHM (put s' d r) c')
  | None => None
  end.

Definition mslot (st : hstate_m) (k : N) : option ref :=
  match hget (s_handles (hm_s st)) k with Some e => Some (eref e) | None => None end.

Definition hstep_m (st : hstate_m) (o : mhop) : option hstate_m :=
  let s := hm_s st in
  let c := hm_c st in
  let fuel := S (nlevels s) in
  match o with
  | MHConst d v =>
    if wfb v then let '(s', r) := mt_const s v in Some (mkHM (put s' d r) c)
    else None                 (* not a value of the Rust type [I64] *)
  | MHVar d v =>
    match mt_var s v with
    | Some (s', r) => Some (mkHM (put s' d r) c)
    | None => None
    end
  | MHBin op d a b =>
    match mslot st a, mslot st b with
    | Some f, Some g => mfinish d (mt_apply_bin gt C cget cadd fuel s c op f g)
    | _, _ => None
    end
  | MHIte d a b e =>
    match mslot st a, mslot st b, mslot st e with
    | Some f, Some g, Some h => mfinish d (mt_apply_ite C cget cadd fuel s c f g h)
    | _, _, _ => None
    end
  | MHRestrict d a cube =>
    match mslot st a, mslot st cube with
    | Some f, Some vs => mfinish d (mt_restrict C cget cadd fuel s c f vs)
    | _, _ => None
    end
  | MHClone d a =>
    match mslot st a with
    | Some f => Some (mkHM (put s d f) c)
    | None => None
    end
  | MHDrop a => Some (mkHM (set_handles s (hdel (s_handles s) a)) c)
  | MHGc => Some (mkHM (gc_model_m s) cempty)
  | MHAddVars k => Some (mkHM (add_vars_model s k) c)
  | MHSetVarOrder order =>
    if Nat.leb (length order) 1 then Some st                         (* "nothing to do" *)
    else if order_ok_b (nlevels s) order then
      let target := sort_order (nlevels s) (map (fun v => nth v (s_v2l s) 0) order) in
      if nat_list_eqb target (seq 0 (nlevels s)) then Some st        (* [sorted]: return before [manager.reorder] *)
      else Some (mkHM (set_var_order_model s order) cempty)
    else None     (* [var_to_level] out of bounds / "`order` contains level .. twice" *)
  end.

Fixpoint hrun_m (st : hstate_m) (ops : list mhop) : option hstate_m :=
  match ops with
  | [] => Some st
  | o :: rest =>
    match hstep_m st o with
    | Some st1 => hrun_m st1 rest
    | None => None
    end
  end.

(** ** Well-formed requests, as a checker (sound for [mhop_pre] of
    Mgr/HistoryMProofs.v): operand slots occupied, variables in range, no
    variable named twice, constants in the range of [I64]; [restrict]: the
    cube operand is a product of literals (read by [cube_lits]) *)
Definition moccupied_b (st : hstate_m) (k : N) : bool :=
  match mslot st k with Some _ => true | None => false end.

Definition mhop_pre_b (st : hstate_m) (o : mhop) : bool :=
  let s := hm_s st in
  let n := nlevels s in
  match o with
  | MHConst _ v => wfb v
  | MHVar _ v => Nat.ltb v n
  | MHBin _ _ a b => moccupied_b st a && moccupied_b st b
  | MHIte _ a b c => moccupied_b st a && moccupied_b st b && moccupied_b st c
  | MHRestrict _ a cube =>
    moccupied_b st a &&
    match mslot st cube with
    | Some vs => match cube_lits (S n) s vs with Some _ => true | None => false end
    | None => false
    end
  | MHClone _ a => moccupied_b st a
  | MHDrop _ | MHGc | MHAddVars _ => true
  | MHSetVarOrder order => order_ok_b n order
  end.

Fixpoint mhops_pre_b (st : hstate_m) (ops : list mhop) : bool :=
  match ops with
  | [] => true
  | o :: rest =>
    mhop_pre_b st o &&
    match hstep_m st o with
    | Some st1 => mhops_pre_b st1 rest
    | None => false
    end
  end.

End MachineM.

(** ** The empty MTBDD manager with [n] variables ([new_manager] + [add_vars n]):
    no inner node, NO terminal (the dynamic terminal manager starts empty), the
    identity order, no handle *)
Definition empty_snap_m (n : nat) : snap :=
  mkSnap KMtbdd (PositiveMap.empty node) [] (seq 0 n) (seq 0 n) [].

Definition hinit_m (C : Type) (cempty : C) (n : nat) : hstate_m C := mkHM C (empty_snap_m n) cempty.
