(** * Transport lemmas for the MTBDD manager state machine (Mgr/HistoryM.v)

    How the invariants and denotations of the MTBDD package (DD/ApplyMtbdd*.v)
    behave under the state changes that are not "run an algorithm":

    - [widen s k hs] (Mgr/HistoryBase.v: [k] levels appended, handle list
      replaced): [MtOK], [DenM], [mfun_of], [Cube], [MCacheOK] are preserved;
    - [mfun_canon]: two references with the same function of the variables are equal;
    - [gc_terms] / [gc_model_m]: the collected table is [MtOK], a sub-table of
      the old one ([mext]), keeps every handle and its function; a terminal
      survives iff a handle or a surviving node refers to it;
    - [set_var_order_model]: [MtOK] and the functions over variables of all
      handles are preserved (from Mgr/LevelSwapOrder.v). *)

From Coq Require Import List NArith ZArith PArith Bool Arith Lia FMapPositive.
From OxiVerif Require Import DD.Table DD.TableProofs DD.Sem DD.Build DD.BuildProofs DD.BuildCanonProofs
  DD.Apply DD.ApplyProofs DD.ApplyEvalProofs DD.ConfigApply DD.ConfigInsert DD.ConfigRun
  Num.I64 Num.I64Proofs DD.ApplyMtbdd DD.ApplyMtbddBase DD.ApplyMtbddProofs DD.ApplyMtbddTop
  Mgr.SortOrder Mgr.LevelSwap Mgr.LevelSwapBase Mgr.LevelSwapProofs Mgr.LevelSwapOrder
  Mgr.OomGc Mgr.History Mgr.HistoryBase Mgr.HistoryGc Mgr.HistoryReorder Mgr.HistoryCBase Mgr.HistoryM.
Import ListNotations.

Local Arguments hset : simpl never.
Local Arguments hget : simpl never.
Local Arguments hdel : simpl never.

(** ** Appending levels / replacing the handle list *)

Lemma term_val_widen : forall s k hs t, term_val (widen s k hs) t = term_val s t.
Proof. reflexivity. Qed.

Lemma mtok_widen : forall s k hs, MtOK s ->
  (forall h, In h hs -> ref_ok s (eref (snd h)) /\ etag (snd h) = false) ->
  MtOK (widen s k hs).
Proof.
  intros s k hs B Hh. constructor.
  - apply wf_widen; [apply (mo_wf s B)|]. intros h Hin. destruct (Hh h Hin). split; auto.
  - exact (mo_kind s B).
  - exact (mo_vals s B).
Qed.

Lemma m_handle_ok : forall s h, MtOK s -> In h (s_handles s) ->
  ref_ok s (eref (snd h)) /\ etag (snd h) = false.
Proof.
  intros s h B Hin. destruct (wf_handles s (mo_wf s B) h Hin) as [A T].
  split; [exact A|]. apply T. rewrite (mo_kind s B). discriminate.
Qed.

Lemma mtok_set_handles : forall s hs, MtOK s ->
  (forall h, In h hs -> ref_ok s (eref (snd h)) /\ etag (snd h) = false) -> MtOK (set_handles s hs).
Proof. intros s hs B Hh. rewrite widen_set_handles. apply mtok_widen; assumption. Qed.

Lemma mtok_put : forall s d r, MtOK s -> ref_ok s r -> MtOK (put s d r).
Proof.
  intros s d r B Hr. apply mtok_set_handles; [exact B|].
  intros h [<-|Hin]; [simpl; auto|]. apply (m_handle_ok s h B). eapply hdel_In_x; eauto.
Qed.

Lemma mtok_drop : forall s d, MtOK s -> MtOK (set_handles s (hdel (s_handles s) d)).
Proof.
  intros s d B. apply mtok_set_handles; [exact B|].
  intros h Hin. apply (m_handle_ok s h B). eapply hdel_In_x; eauto.
Qed.

Lemma denm_widen : forall s k hs r phi, WF s -> DenM s r phi -> DenM (widen s k hs) r phi.
Proof.
  intros s k hs r phi H [A D]. split; [apply ref_ok_widen; exact A|].
  intros c Hc. rewrite semk_widen, widen_nlevels, <- (D c Hc).
  pose proof (rlevel_le s H r). apply (semk_fuel s H); [exact A | lia | lia].
Qed.

(** the function over the VARIABLES: unchanged; it does not read new variables *)
Lemma mfun_of_widen : forall s k hs r a, WF s -> ref_ok s r ->
  mfun_of (widen s k hs) r a = mfun_of s r a.
Proof.
  intros s k hs r a H A. unfold mfun_of, ApplyProofs.FUEL. rewrite semk_widen, widen_nlevels.
  pose proof (rlevel_le s H r).
  rewrite (semk_fuel s H (S (nlevels s + k)) (S (nlevels s)) r _ A) by lia.
  rewrite (BuildCanonProofs.semk_ext_lt s H (S (nlevels s)) r _ (choice_of s a)); [reflexivity|].
  intros l Hl. apply choice_of_widen. exact Hl.
Qed.

Lemma mfun_of_set_handles : forall s hs r a, mfun_of (set_handles s hs) r a = mfun_of s r a.
Proof.
  intros s hs r a. unfold mfun_of.
  change (ApplyProofs.FUEL (set_handles s hs)) with (ApplyProofs.FUEL s).
  change (choice_of (set_handles s hs) a) with (choice_of s a).
  rewrite ConfigRun.semk_set_handles. reflexivity.
Qed.

(** an old reference means in a table with more nodes and terminals what it meant *)
Lemma mfun_of_mext : forall s s' r a, WF s -> mext s s' -> ref_ok s r ->
  mfun_of s' r a = mfun_of s r a.
Proof.
  intros s s' r a H X A. unfold mfun_of, ApplyProofs.FUEL, choice_of.
  rewrite (mx_nlevels _ _ X), (mx_l2v _ _ X), (semk_mext s s' H X _ r _ A). reflexivity.
Qed.

(** a function of a table reads only the table's variables *)
Lemma mfun_of_local : forall s r a a', WF s -> (forall v, v < nlevels s -> a v = a' v) ->
  mfun_of s r a = mfun_of s r a'.
Proof.
  intros s r a a' H Hag. unfold mfun_of.
  rewrite (BuildCanonProofs.semk_ext_lt s H _ r (choice_of s a) (choice_of s a')); [reflexivity|].
  intros l Hl. unfold choice_of. destruct (wf_perm_l2v s H l Hl) as [v [E1 E2]]. rewrite E1.
  assert (Hv : v < nlevels s).
  { unfold nlevels. rewrite <- (wf_perm_len s H). apply nth_error_Some. congruence. }
  rewrite (Hag _ Hv). reflexivity.
Qed.

Lemma cube_widen : forall s k hs r lits, Cube s r lits -> Cube (widen s k hs) r lits.
Proof.
  intros s k hs r lits Hc. induction Hc.
  - apply CubeOne. assumption.
  - eapply CubePos; eauto.
  - eapply CubeNeg; eauto.
Qed.

Lemma mentry_ok_widen : forall s k hs code args r, WF s ->
  mentry_ok s code args r -> mentry_ok (widen s k hs) code args r.
Proof.
  intros s k hs code args r H. unfold mentry_ok.
  destruct args as [|f [|g [|h [|x rest]]]]; auto.
  - intros [H1 H2]. split.
    + intros o Hc. destruct (H1 o Hc) as [phi [psi [A [A' D]]]]. exists phi, psi.
      split; [|split]; apply denm_widen; assumption.
    + intros Hc. destruct (H2 Hc) as [phi [lits [A [Cu D]]]]. exists phi, lits.
      split; [apply denm_widen; assumption|]. split; [apply cube_widen; exact Cu | apply denm_widen; assumption].
  - intros Hx Hc. destruct (Hx Hc) as [phi [psi [theta [A [A' [A'' D]]]]]]. exists phi, psi, theta.
    split; [|split; [|split]]; apply denm_widen; assumption.
Qed.

Lemma mcacheok_widen : forall C (cget : C -> N -> list ref -> option ref) s k hs c, WF s ->
  MCacheOK cget s c -> MCacheOK cget (widen s k hs) c.
Proof. intros C cget s k hs c H O code args r E. apply mentry_ok_widen; [exact H | apply (O _ _ _ E)]. Qed.

(** ** Canonicity in terms of functions of the variables *)

Lemma bchoice_is_asg : forall s c, WF s -> bchoice c ->
  exists a, forall l, l < nlevels s -> choice_of s a l = c l.
Proof.
  intros s c H Hc. exists (fun v => Nat.eqb (c (nth v (s_v2l s) 0)) 0).
  intros l Hl. unfold choice_of. destruct (wf_perm_l2v s H l Hl) as [v [E1 E2]].
  rewrite E1, (nth_error_nth _ _ 0 E2). specialize (Hc l).
  destruct (Nat.eqb_spec (c l) 0) as [->|Hne]; [reflexivity | lia].
Qed.

Theorem mfun_canon : forall s r1 r2, MtOK s -> ref_ok s r1 -> ref_ok s r2 ->
  (forall a, mfun_of s r1 a = mfun_of s r2 a) -> r1 = r2.
Proof.
  intros s r1 r2 B O1 O2 Heq. pose proof (mo_wf s B) as H.
  destruct (denm_exists s r1 B O1) as [phi D1]. destruct (denm_exists s r2 B O2) as [psi D2].
  apply (denm_canon s r1 r2 phi B D1). apply (denm_ext s r2 psi phi D2).
  intros c Hc. destruct (bchoice_is_asg s c H Hc) as [a Ha].
  assert (Hx : forall r ph, DenM s r ph -> ph c = mfun_of s r a).
  { intros r ph D. rewrite (mfun_of_den s r ph D a). apply code_inj.
    assert (E1 := proj2 D c Hc). assert (E2 := proj2 D _ (choice_of_bchoice s a)).
    rewrite (BuildCanonProofs.semk_ext_lt s H _ r c (choice_of s a)) in E1
      by (intros l Hl; symmetry; apply Ha; exact Hl).
    congruence. }
  rewrite (Hx r2 psi D2), (Hx r1 phi D1). symmetry. apply Heq.
Qed.

(** ** Garbage collection of the terminals *)

Lemma assoc_N_filter_key : forall (P : N -> bool) l t,
  assoc_N (filter (fun p : N * N => P (fst p)) l) t = if P t then assoc_N l t else None.
Proof.
  intros P. induction l as [|[a b] r IH]; intros t; simpl; [destruct (P t); reflexivity|].
  destruct (P a) eqn:Ea; simpl.
  - destruct (N.eqb_spec a t) as [->|Hne]; [rewrite Ea; reflexivity | apply IH].
  - destruct (N.eqb_spec a t) as [->|Hne]; [rewrite Ea; rewrite IH, Ea; reflexivity | apply IH].
Qed.

Lemma term_val_gc_terms : forall s t,
  term_val (gc_terms s) t = if term_used s t then term_val s t else None.
Proof. intros s t. unfold gc_terms, term_val. simpl. apply assoc_N_filter_key. Qed.

Lemma term_used_handle : forall s h t, In h (s_handles s) -> eref (snd h) = RT t -> term_used s t = true.
Proof.
  intros s h t Hin E. unfold term_used. apply orb_true_iff. left. apply existsb_exists.
  exists h. split; [exact Hin|]. rewrite E. apply ref_eqb_eq. reflexivity.
Qed.

Lemma term_used_child : forall s id nd e t, find_node s id = Some nd -> In e (nchildren nd) ->
  eref e = RT t -> term_used s t = true.
Proof.
  intros s id nd e t En He E. unfold term_used. apply orb_true_iff. right. apply existsb_exists.
  exists (id, nd). split; [apply PositiveMap.elements_correct; exact En|]. simpl.
  apply existsb_exists. exists e. split; [exact He|]. rewrite E. apply ref_eqb_eq. reflexivity.
Qed.

Lemma term_used_spec : forall s t, term_used s t = true ->
  (exists h, In h (s_handles s) /\ eref (snd h) = RT t) \/
  (exists id nd e, find_node s id = Some nd /\ In e (nchildren nd) /\ eref e = RT t).
Proof.
  intros s t Hu. unfold term_used in Hu. apply orb_true_iff in Hu. destruct Hu as [Hu|Hu].
  - apply existsb_exists in Hu. destruct Hu as [h [Hin E]]. apply ref_eqb_eq in E. left. eauto.
  - apply existsb_exists in Hu. destruct Hu as [[id nd] [Hin Hx]]. simpl in Hx.
    apply existsb_exists in Hx. destruct Hx as [e [He E]]. apply ref_eqb_eq in E.
    right. exists id, nd, e. split; [apply PositiveMap.elements_complete; exact Hin|]. auto.
Qed.

Lemma nodup_map_filter : forall (A B : Type) (f : A -> B) (p : A -> bool) l,
  NoDup (map f l) -> NoDup (map f (filter p l)).
Proof.
  intros A B f p. induction l as [|x r IH]; intros Hn; simpl; [constructor|].
  inversion Hn as [|? ? Hx Hr]; subst. destruct (p x); simpl; [|apply IH; exact Hr].
  constructor; [|apply IH; exact Hr]. intros Hin. apply Hx.
  apply in_map_iff in Hin. destruct Hin as [y [E Hy]]. apply filter_In in Hy.
  apply in_map_iff. exists y. split; [exact E | apply Hy].
Qed.

Lemma ref_ok_gc_terms : forall s r, ref_ok s r ->
  (forall t, r = RT t -> term_used s t = true) -> ref_ok (gc_terms s) r.
Proof.
  intros s [t|id] O Hu; simpl in *.
  - destruct O as [v E]. exists v. rewrite term_val_gc_terms, (Hu t eq_refl). exact E.
  - exact O.
Qed.

Theorem gc_terms_ok : forall s, MtOK s ->
  MtOK (gc_terms s) /\ mext (gc_terms s) s /\
  (forall r, ref_ok (gc_terms s) r -> ref_ok s r).
Proof.
  intros s B. pose proof (mo_wf s B) as H.
  assert (Hsub : forall t c, term_val (gc_terms s) t = Some c -> term_val s t = Some c).
  { intros t c E. rewrite term_val_gc_terms in E. destruct (term_used s t); [exact E | discriminate]. }
  assert (Hback : forall r, ref_ok (gc_terms s) r -> ref_ok s r).
  { intros [t|id] O; simpl in *; [destruct O as [v E]; exists v; apply Hsub; exact E | exact O]. }
  split; [|split; [|exact Hback]].
  - constructor.
    + constructor; try (apply H).
      * intros id nd e En He. destruct (wf_child s H id nd e En He) as [Ok Lv]. split; [|exact Lv].
        apply ref_ok_gc_terms; [exact Ok|]. intros t Et. apply (term_used_child s id nd e t En He Et).
      * intros id nd En. pose proof (wf_reduced s H id nd En) as R. unfold reduced in *.
        change (s_kind (gc_terms s)) with (s_kind s). rewrite (mo_kind s B) in *. exact R.
      * unfold gc_terms. simpl. apply nodup_map_filter. apply (wf_term_ids s H).
      * unfold gc_terms. simpl. apply nodup_map_filter. apply (wf_term_vals s H).
      * intros h Hh. destruct (wf_handles s H h Hh) as [Ok Tg]. split; [|exact Tg].
        apply ref_ok_gc_terms; [exact Ok|]. intros t Et. apply (term_used_handle s h t Hh Et).
    + exact (mo_kind s B).
    + intros t c E. apply (mo_vals s B t c). apply Hsub. exact E.
  - constructor; try reflexivity; [exact Hsub | auto].
Qed.

Theorem mgc_facts : forall s, MtOK s ->
  let sg := gc_model_m s in
  MtOK sg /\ mext sg s /\ s_handles sg = s_handles s /\
  (forall h, In h (s_handles s) -> ref_ok sg (eref (snd h))) /\
  (forall id nd, find_node sg id = Some nd ->
     find_node s id = Some nd /\ reachable s (handle_refs s) (RN id)) /\
  (forall t c, term_val sg t = Some c ->
     term_val s t = Some c /\
     ((exists h, In h (s_handles s) /\ eref (snd h) = RT t) \/
      (exists id nd e, find_node sg id = Some nd /\ In e (nchildren nd) /\ eref e = RT t))).
Proof.
  intros s B. simpl. unfold gc_model_m. set (g := gc_model s).
  pose proof (gc_model_collected s (mo_wf s B)) as Cg. fold g in Cg.
  pose proof (collected_wf_gen s g (mo_wf s B) Cg) as Hg.
  pose proof (collected_sub_gen s g Cg) as Xg.
  assert (Bg : MtOK g).
  { constructor; [exact Hg | rewrite (co_kind s g Cg); apply (mo_kind s B)|].
    intros t c. rewrite (cw_term_val s g Cg). apply (mo_vals s B). }
  destruct (gc_terms_ok g Bg) as [Bt [Xt Hback]].
  split; [exact Bt|]. split; [apply (mext_trans _ g); [exact Xt | apply mext_of_extends; exact Xg]|].
  split; [change (s_handles (gc_terms g)) with (s_handles g); apply (co_handles s g Cg)|].
  split; [|split].
  - intros h Hh. apply (wf_handles _ (mo_wf _ Bt)).
    change (s_handles (gc_terms g)) with (s_handles g). rewrite (co_handles s g Cg). exact Hh.
  - intros id nd E0. change (find_node g id = Some nd) in E0.
    apply (proj1 (co_nodes s g Cg id nd) E0).
  - intros t c E0. rewrite term_val_gc_terms in E0.
    destruct (term_used g t) eqn:Eu; [|discriminate]. rewrite (cw_term_val s g Cg) in E0.
    split; [exact E0|]. destruct (term_used_spec g t Eu) as [[h [Hin Eh]]|[id [nd [e [En [He Ee]]]]]].
    + left. exists h. rewrite <- (co_handles s g Cg). auto.
    + right. exists id, nd, e. auto.
Qed.

(** ** [set_var_order_model] in the vocabulary of the state machine *)

Lemma mt_bink : forall s, MtOK s -> bink (s_kind s).
Proof. intros s B. right. apply (mo_kind s B). Qed.

(** [mfun_of] is [eval_vars] decoded *)
Lemma mfun_eval_vars : forall s e a, WF s -> s_kind s = KMtbdd ->
  mfun_of s (eref e) a = match eval_vars s e a with Some n => decode n | None => INaN end.
Proof.
  intros s e a H Hk. unfold mfun_of, eval_vars, sem_edge, ApplyProofs.FUEL. rewrite Hk.
  rewrite (BuildCanonProofs.semk_ext_lt s H _ (eref e) (choice_of s a) (asg_choice s a)); [reflexivity|].
  intros l Hl. unfold choice_of, asg_choice.
  destruct (nth_error (s_l2v s) l) as [v|] eqn:E.
  - rewrite (nth_error_nth _ _ 0 E). reflexivity.
  - apply nth_error_None in E. unfold nlevels in Hl. lia.
Qed.

Theorem mreorder_facts : forall s order, MtOK s -> NoDup order ->
  Forall (fun v => v < nlevels s) order ->
  let s' := set_var_order_model s order in
  MtOK s' /\ nlevels s' = nlevels s /\ s_handles s' = s_handles s /\ s_terms s' = s_terms s /\
  (forall h, In h (s_handles s) ->
     ref_ok s' (eref (snd h)) /\ forall a, mfun_of s' (eref (snd h)) a = mfun_of s (eref (snd h)) a) /\
  (forall a b, a < b < length order ->
     nth (nth a order 0) (s_v2l s') 0 < nth (nth b order 0) (s_v2l s') 0).
Proof.
  intros s order B Hnd Hr. simpl. pose proof (mo_wf s B) as H.
  destruct (set_var_order_model_correct s order H (mt_bink s B) Hnd Hr) as [A [B0 [Cn [D [G _]]]]].
  assert (Et : s_terms (set_var_order_model s order) = s_terms s) by (apply reorder_terms).
  assert (B' : MtOK (set_var_order_model s order)).
  { constructor; [exact A | rewrite B0; apply (mo_kind s B)|].
    intros t c. unfold term_val. rewrite Et. apply (mo_vals s B). }
  split; [exact B'|]. split; [exact Cn|]. split; [exact D|]. split; [exact Et|]. split.
  - intros h Hh. assert (O' : ref_ok (set_var_order_model s order) (eref (snd h))).
    { apply (wf_handles _ A). rewrite D. exact Hh. }
    split; [exact O'|]. intros a.
    rewrite (mfun_eval_vars _ (snd h) a A) by (rewrite B0; apply (mo_kind s B)).
    rewrite (mfun_eval_vars s (snd h) a H (mo_kind s B)).
    destruct (G h a Hh) as [E _]. rewrite E. reflexivity.
  - apply (set_var_order_model_respects s order H (mt_bink s B) Hnd Hr).
Qed.
