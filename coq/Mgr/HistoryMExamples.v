(** * A concrete MTBDD history through every kind of call, and the theorems instantiated on it

    [exm_ops]: 28 calls on an MTBDD manager (integer terminals) with 3
    variables covering all 10 constructors of [mhop] and all six binary
    operators (constants, variables, 3*x0 + x1, sub / max / min / div, ite, a
    cube x0 * (1 - x2) and two restrictions by it - before and after a
    collection + reordering -, clone, drops that leave terminals without any
    reference, two collections that remove inner nodes AND terminals, a
    reordering to [2; 0; 1], a variable added late), run with an unbounded cache
    and operand order "always swap".
    [exm_fresh]: a fresh manager with 4 variables that is only brought into the
    same variable order and builds the two operands, run WITHOUT cache and with
    operand order "never swap".
    Everything here is computed by [vm_compute] on the executable model; the
    theorems of Mgr/HistoryMThms.v / HistoryMSpec.v are then applied to the
    computed states. *)

From Coq Require Import List NArith ZArith PArith Bool Arith Lia FMapPositive.
From OxiVerif Require Import DD.Table DD.TableProofs DD.Sem DD.Build DD.Apply DD.ApplyProofs DD.ConfigApply
  Num.I64 DD.ApplyMtbdd DD.ApplyMtbddBase DD.ApplyMtbddProofs DD.ApplyMtbddTop
  Mgr.History Mgr.HistoryExamples
  Mgr.HistoryM Mgr.HistoryMBase Mgr.HistoryMProofs Mgr.HistoryMThms Mgr.HistoryMSpec.
Import ListNotations.
Local Open Scope N_scope.

(** ** Deciding equality of two diagram functions by enumeration ([all_asgs] of Mgr/HistoryExamples.v) *)

Definition i64v_eqb (x y : i64v) : bool := N.eqb (code x) (code y).

Lemma i64v_eqb_eq : forall x y, i64v_eqb x y = true -> x = y.
Proof. intros x y E. apply N.eqb_eq in E. apply code_inj. exact E. Qed.

Definition mfun_eqb (n : nat) (f g : asg -> i64v) : bool :=
  forallb (fun a => i64v_eqb (f a) (g a)) (all_asgs n).

Lemma mfun_eq_enum : forall s1 s2 r1 r2 n, WF s1 -> WF s2 -> nlevels s1 = n -> nlevels s2 = n ->
  mfun_eqb n (mfun_of s1 r1) (mfun_of s2 r2) = true ->
  forall a, mfun_of s1 r1 a = mfun_of s2 r2 a.
Proof.
  intros s1 s2 r1 r2 n H1 H2 N1 N2 Hb a. destruct (all_asgs_cover n a) as [a' [Hin Hag]].
  unfold mfun_eqb in Hb. rewrite forallb_forall in Hb. specialize (Hb a' Hin). apply i64v_eqb_eq in Hb.
  rewrite (mfun_of_local s1 r1 a a' H1) by (rewrite N1; exact Hag).
  rewrite (mfun_of_local s2 r2 a a' H2) by (rewrite N2; exact Hag). exact Hb.
Qed.

(** ** Configuration A: unbounded cache, operands always swapped *)

Definition mgtA : ref -> ref -> bool := fun _ _ => true.
Notation mstepA := (hstep_m mgtA acache ac_get ac_add []).
Notation mrunA := (hrun_m mgtA acache ac_get ac_add []).
Lemma memptyA : forall k a, ac_get [] k a = None.
Proof. reflexivity. Qed.

(** ** Configuration B: no cache, operands never swapped *)

Definition mgtB : ref -> ref -> bool := fun _ _ => false.
Notation mstepB := (hstep_m mgtB unit nc_get nc_add tt).
Notation mrunB := (hrun_m mgtB unit nc_get nc_add tt).
Lemma memptyB : forall k a, nc_get tt k a = None.
Proof. reflexivity. Qed.

(** ** The long history *)

Definition exm_ops : list mhop :=
  [ MHVar 0 0; MHVar 1 1; MHVar 2 2;       (* x0, x1, x2 *)
    MHConst 3 (INum 3);
    MHBin MMul 4 3 0;                      (* 3 * x0 *)
    MHBin MAdd 5 4 1;                      (* 3 * x0 + x1 *)
    MHBin MSub 6 5 2;                      (* 3 * x0 + x1 - x2: terminals -1, 2 *)
    MHBin MMax 7 5 2;
    MHBin MMin 8 5 2;
    MHBin MDiv 9 5 3;                      (* (3 * x0 + x1) / 3 *)
    MHIte 10 0 5 2;                        (* if x0 then 3 * x0 + x1 else x2 *)
    MHConst 11 (INum 1);
    MHBin MSub 12 11 2;                    (* 1 - x2 *)
    MHBin MMul 13 0 12;                    (* the cube x0 * (1 - x2) *)
    MHRestrict 14 5 13;
    MHClone 15 5;
    MHDrop 6; MHDrop 9; MHDrop 3;
    MHGc;                                  (* 6 inner nodes and the terminals -1, 2 go *)
    MHSetVarOrder [2%nat; 0%nat; 1%nat];
    MHRestrict 16 5 13;                    (* the same call after the reordering *)
    MHAddVars 1;
    MHVar 17 3;                            (* the new variable *)
    MHBin MAdd 18 5 17;
    MHConst 19 (INum 7);
    MHDrop 19;
    MHGc ].                                (* the terminal 7 goes *)

Definition exm_stA : hstate_m acache :=
  match mrunA (hinit_m acache [] 3) exm_ops with Some st => st | None => hinit_m acache [] 0 end.

Lemma exm_preA : mhops_pre_b mgtA acache ac_get ac_add [] (hinit_m acache [] 3) exm_ops = true.
Proof. vm_compute. reflexivity. Qed.

Lemma exm_runA : mrunA (hinit_m acache [] 3) exm_ops = Some exm_stA.
Proof. vm_compute. reflexivity. Qed.

(** every constructor occurs *)
Definition mhop_tag (o : mhop) : nat :=
  match o with
  | MHConst _ _ => 0 | MHVar _ _ => 1 | MHBin _ _ _ _ => 2 | MHIte _ _ _ _ => 3 | MHRestrict _ _ _ => 4
  | MHClone _ _ => 5 | MHDrop _ => 6 | MHGc => 7 | MHAddVars _ => 8 | MHSetVarOrder _ => 9
  end%nat.

Lemma exm_ops_cover : forallb (fun t => existsb (fun o => Nat.eqb (mhop_tag o) t) exm_ops) (seq 0 10) = true
                      /\ length exm_ops = 28%nat.
Proof. vm_compute. auto. Qed.

(** the run is not trivial: the first collection (after 19 calls) removes 6 of 19
    inner nodes and 2 of 6 terminals; at the end: 21 nodes, 6 terminals (no 7) *)
Definition exm_st19 : hstate_m acache :=
  match mrunA (hinit_m acache [] 3) (firstn 19 exm_ops) with Some st => st | None => hinit_m acache [] 0 end.
Definition exm_st20 : hstate_m acache :=
  match mrunA (hinit_m acache [] 3) (firstn 20 exm_ops) with Some st => st | None => hinit_m acache [] 0 end.

Lemma exm_gc_counts :
  PositiveMap.cardinal (s_nodes (hm_s acache exm_st19)) = 19%nat /\
  length (s_terms (hm_s acache exm_st19)) = 6%nat /\
  PositiveMap.cardinal (s_nodes (hm_s acache exm_st20)) = 13%nat /\
  length (s_terms (hm_s acache exm_st20)) = 4%nat /\
  term_val (hm_s acache exm_st19) 6 = Some (code (INum (-1))) /\
  term_val (hm_s acache exm_st20) 6 = None.
Proof. vm_compute. repeat split; reflexivity. Qed.

Lemma exm_stA_shape :
  PositiveMap.cardinal (s_nodes (hm_s acache exm_stA)) = 21%nat /\
  length (s_terms (hm_s acache exm_stA)) = 6%nat /\
  existsb (fun p : N * N => N.eqb (snd p) (code (INum 7))) (s_terms (hm_s acache exm_stA)) = false /\
  s_l2v (hm_s acache exm_stA) = [2; 0; 1; 3]%nat /\
  s_v2l (hm_s acache exm_stA) = [1; 2; 0; 3]%nat /\
  length (s_handles (hm_s acache exm_stA)) = 16%nat /\
  wf_b (hm_s acache exm_stA) = true /\ mt_ok_b (hm_s acache exm_stA) = true.
Proof. vm_compute. repeat split; reflexivity. Qed.

Theorem exm_reachA : hreach_m mgtA acache ac_get ac_add [] 3 exm_stA.
Proof.
  exists exm_ops. split; [|exact exm_runA].
  apply (mhops_pre_b_sound mgtA acache ac_get ac_add ac_lossy [] memptyA).
  - apply (hinit_m_inv acache ac_get [] memptyA).
  - exact exm_preA.
Qed.

Theorem exm_invA : HInvM acache ac_get exm_stA.
Proof. apply (hreach_m_inv mgtA acache ac_get ac_add ac_lossy [] memptyA 3). exact exm_reachA. Qed.

Theorem exm_wfA : wf_b (hm_s acache exm_stA) = true /\ mt_ok_b (hm_s acache exm_stA) = true.
Proof. apply (histm_wf mgtA acache ac_get ac_add ac_lossy [] memptyA 3). exact exm_reachA. Qed.

(** slots 5 and 15 (a clone) hold the same edge, and so do slots 14 and 16: the
    restriction computed before and after collection + reordering; slots 5 and
    7 hold different edges, hence (canonicity) different functions *)
Theorem exm_canonA :
  hget (s_handles (hm_s acache exm_stA)) 5 = hget (s_handles (hm_s acache exm_stA)) 15 /\
  hget (s_handles (hm_s acache exm_stA)) 14 = hget (s_handles (hm_s acache exm_stA)) 16 /\
  forall e5 e7, hget (s_handles (hm_s acache exm_stA)) 5 = Some e5 ->
                hget (s_handles (hm_s acache exm_stA)) 7 = Some e7 ->
    ~ (forall a, mfun_of (hm_s acache exm_stA) (eref e5) a = mfun_of (hm_s acache exm_stA) (eref e7) a).
Proof.
  split; [vm_compute; reflexivity|]. split; [vm_compute; reflexivity|]. intros e5 e7 E5 E7 Heq.
  assert (X : e5 = e7).
  { apply (proj2 (histm_canonical mgtA acache ac_get ac_add ac_lossy [] memptyA 3
                    exm_stA exm_reachA 5 7 e5 e7 E5 E7)). exact Heq. }
  assert (Y : hget (s_handles (hm_s acache exm_stA)) 5 <> hget (s_handles (hm_s acache exm_stA)) 7)
    by (vm_compute; discriminate).
  apply Y. rewrite E5, E7, X. reflexivity.
Qed.

(** ** The fresh manager *)

Definition exm_fresh : list mhop :=
  [ MHSetVarOrder [2%nat; 0%nat; 1%nat];
    MHVar 0 0; MHVar 1 1; MHVar 2 3;
    MHConst 3 (INum 3);
    MHBin MMul 4 0 3;                      (* x0 * 3 *)
    MHBin MAdd 5 1 4 ].                    (* x1 + x0 * 3 *)

Definition exm_stB : hstate_m unit :=
  match mrunB (hinit_m unit tt 4) exm_fresh with Some st => st | None => hinit_m unit tt 0 end.

Lemma exm_preB : mhops_pre_b mgtB unit nc_get nc_add tt (hinit_m unit tt 4) exm_fresh = true.
Proof. vm_compute. reflexivity. Qed.

Lemma exm_runB : mrunB (hinit_m unit tt 4) exm_fresh = Some exm_stB.
Proof. vm_compute. reflexivity. Qed.

Theorem exm_reachB : hreach_m mgtB unit nc_get nc_add tt 4 exm_stB.
Proof.
  exists exm_fresh. split; [|exact exm_runB].
  apply (mhops_pre_b_sound mgtB unit nc_get nc_add nc_lossy tt memptyB).
  - apply (hinit_m_inv unit nc_get tt memptyB).
  - exact exm_preB.
Qed.

Lemma exm_same_order :
  s_l2v (hm_s acache exm_stA) = s_l2v (hm_s unit exm_stB) /\ s_v2l (hm_s acache exm_stA) = s_v2l (hm_s unit exm_stB).
Proof. vm_compute. split; reflexivity. Qed.

Definition mslot_ref (C : Type) (st : hstate_m C) (k : N) : ref :=
  match mslot C st k with Some r => r | None => RT 0 end.

Definition mfA5 : asg -> i64v := mfun_of (hm_s acache exm_stA) (mslot_ref acache exm_stA 5).
Definition mfA17 : asg -> i64v := mfun_of (hm_s acache exm_stA) (mslot_ref acache exm_stA 17).

Lemma exm_holdsA5 : mholds acache exm_stA 5 mfA5.
Proof. exists (mslot_ref acache exm_stA 5). split; [vm_compute; reflexivity | intros a; unfold mfA5; reflexivity]. Qed.
Lemma exm_holdsA17 : mholds acache exm_stA 17 mfA17.
Proof. exists (mslot_ref acache exm_stA 17). split; [vm_compute; reflexivity | intros a; unfold mfA17; reflexivity]. Qed.

Lemma exm_WFB : WF (hm_s unit exm_stB).
Proof. apply wf_b_spec. vm_compute. reflexivity. Qed.
Lemma exm_WFA : WF (hm_s acache exm_stA).
Proof. apply wf_b_spec. vm_compute. reflexivity. Qed.
Lemma exm_nA : nlevels (hm_s acache exm_stA) = 4%nat.
Proof. vm_compute. reflexivity. Qed.
Lemma exm_nB : nlevels (hm_s unit exm_stB) = 4%nat.
Proof. vm_compute. reflexivity. Qed.

Lemma exm_enum5 : mfun_eqb 4 (mfun_of (hm_s unit exm_stB) (mslot_ref unit exm_stB 5))
                             (mfun_of (hm_s acache exm_stA) (mslot_ref acache exm_stA 5)) = true.
Proof. vm_compute. reflexivity. Qed.
Lemma exm_enum2 : mfun_eqb 4 (mfun_of (hm_s unit exm_stB) (mslot_ref unit exm_stB 2))
                             (mfun_of (hm_s acache exm_stA) (mslot_ref acache exm_stA 17)) = true.
Proof. vm_compute. reflexivity. Qed.

Lemma exm_holdsB5 : mholds unit exm_stB 5 mfA5.
Proof.
  exists (mslot_ref unit exm_stB 5). split; [vm_compute; reflexivity|].
  exact (mfun_eq_enum (hm_s unit exm_stB) (hm_s acache exm_stA) (mslot_ref unit exm_stB 5) (mslot_ref acache exm_stA 5)
                      4%nat exm_WFB exm_WFA exm_nB exm_nA exm_enum5).
Qed.
Lemma exm_holdsB2 : mholds unit exm_stB 2 mfA17.
Proof.
  exists (mslot_ref unit exm_stB 2). split; [vm_compute; reflexivity|].
  exact (mfun_eq_enum (hm_s unit exm_stB) (hm_s acache exm_stA) (mslot_ref unit exm_stB 2) (mslot_ref acache exm_stA 17)
                      4%nat exm_WFB exm_WFA exm_nB exm_nA exm_enum2).
Qed.

(** C08 / C01 / C10: the product (3 * x0 + x1) * x3 computed in the long-lived
    manager (28 calls, two collections that also removed terminals, a
    reordering, an added variable; cache, swapped operands) and in the fresh
    one (no cache) denote the same function and have the same number of nodes *)
Theorem exm_fresh_equiv :
  exists stA' stB' r1 r2,
    mstepA exm_stA (MHBin MMul 30 5 17) = Some stA' /\ mstepB exm_stB (MHBin MMul 9 5 2) = Some stB' /\
    mslot acache stA' 30 = Some r1 /\ mslot unit stB' 9 = Some r2 /\
    (forall a, mfun_of (hm_s acache stA') r1 a = mop_eval MMul (mfA5 a) (mfA17 a)) /\
    (forall a, mfun_of (hm_s unit stB') r2 a = mop_eval MMul (mfA5 a) (mfA17 a)) /\
    count_reach (hm_s acache stA') (E r1) = count_reach (hm_s unit stB') (E r2) /\
    wf_b (hm_s acache stA') = true /\ wf_b (hm_s unit stB') = true.
Proof.
  apply (histm_fresh_equiv mgtA mgtB acache unit ac_get ac_add nc_get nc_add ac_lossy nc_lossy
           [] tt memptyA memptyB 3 4 exm_ops exm_fresh exm_stA exm_stB).
  - apply (mhops_pre_b_sound mgtA acache ac_get ac_add ac_lossy [] memptyA);
      [apply (hinit_m_inv acache ac_get [] memptyA) | exact exm_preA].
  - exact exm_runA.
  - apply (mhops_pre_b_sound mgtB unit nc_get nc_add nc_lossy tt memptyB);
      [apply (hinit_m_inv unit nc_get tt memptyB) | exact exm_preB].
  - exact exm_runB.
  - apply exm_same_order.
  - apply exm_same_order.
  - apply (MSpBin acache exm_stA MMul 30 5 17 mfA5 mfA17 exm_holdsA5 exm_holdsA17).
  - apply (MSpBin unit exm_stB MMul 9 5 2 mfA5 mfA17 exm_holdsB5 exm_holdsB2).
Qed.

(** ** The hypotheses of [hspec_m] for restriction are satisfiable *)

Theorem exm_spec_restrict :
  exists st' lits, cube_lits 5 (hm_s acache exm_stA) (mslot_ref acache exm_stA 13) = Some lits /\
    lits = [(0%nat, false); (1%nat, true)] /\
    mstepA exm_stA (MHRestrict 31 5 13) = Some st' /\
    mholds acache st' 31 (fun a => mfA5 (force_asg (hm_s acache exm_stA) lits a)).
Proof.
  assert (El : cube_lits 5 (hm_s acache exm_stA) (mslot_ref acache exm_stA 13) = Some [(0%nat, false); (1%nat, true)])
    by (vm_compute; reflexivity).
  pose proof (cube_lits_sound _ (hmi_ok acache ac_get exm_stA exm_invA) _ _ _ El) as Hc.
  destruct (hstep_m_spec mgtA acache ac_get ac_add ac_lossy [] memptyA exm_stA _ 31 _ exm_invA
              (MSpRestrict acache exm_stA 31 5 13 mfA5 _ _ exm_holdsA5 ltac:(vm_compute; reflexivity) Hc))
    as [st' [E [_ [_ Hd]]]].
  exists st', [(0%nat, false); (1%nat, true)]. split; [exact El|]. split; [reflexivity|]. split; [exact E | exact Hd].
Qed.
