(** * The invariant of the MTBDD manager state machine and its preservation by every call

    [HInvM st]: the table is a well-formed MTBDD table whose terminal values
    are values of [I64] ([MtOK], which includes: every handle slot refers to a
    stored node or terminal, terminal ids and values pairwise distinct), and
    the apply cache serves only correct entries for all operator codes
    ([MCacheOK]).

    [hstep_m_ok]: for every state satisfying [HInvM], every configuration
    (operand order [gt], any [lossy] cache with any content that satisfies the
    cache invariant) and every well-formed request ([mhop_pre]), the call
    - runs to completion ([hstep_m] is not [None]),
    - re-establishes [HInvM],
    - [hframe_m]: changes no slot other than its destination, and every function
      held by a slot before the call is still stored and denotes the same
      function of the variables,
    - [hpost_m]: leaves in its destination the pointwise spec function of the
      operands' functions at the time of the call. *)

From Coq Require Import List NArith ZArith PArith Bool Arith Lia FMapPositive.
From OxiVerif Require Import DD.Table DD.TableProofs DD.Sem DD.Build DD.BuildProofs
  DD.Apply DD.ApplyProofs DD.ApplyEvalProofs DD.ConfigApply DD.ConfigInsert DD.ConfigRun
  Num.I64 Num.I64Proofs DD.ApplyMtbdd DD.ApplyMtbddBase DD.ApplyMtbddProofs DD.ApplyMtbddIte
  DD.ApplyMtbddRestrict DD.ApplyMtbddTop DD.FamSpecProofs
  Mgr.SortOrder Mgr.SortOrderProofs Mgr.LevelSwap Mgr.LevelSwapOrder
  Mgr.History Mgr.HistoryBase Mgr.HistoryM Mgr.HistoryMBase.
Import ListNotations.

Local Arguments hset : simpl never.
Local Arguments hget : simpl never.
Local Arguments hdel : simpl never.
Local Arguments mfun_of : simpl never.
Local Arguments mt_apply_bin : simpl never.
Local Arguments mt_apply_ite : simpl never.
Local Arguments mt_restrict : simpl never.
Local Arguments mt_const : simpl never.
Local Arguments mt_var : simpl never.
Local Arguments gc_model_m : simpl never.
Local Arguments set_var_order_model : simpl never.

Definition morder_same (s s' : snap) : Prop := s_l2v s' = s_l2v s /\ s_v2l s' = s_v2l s.

Definition mchanges_order (o : mhop) : bool :=
  match o with MHAddVars _ | MHSetVarOrder _ => true | _ => false end.

Section HistM.
Variable gt : ref -> ref -> bool.
Variable C : Type.
Variable cget : C -> N -> list ref -> option ref.
Variable cadd : C -> N -> list ref -> ref -> C.
Hypothesis Hlossy : lossy cget cadd.
Variable cempty : C.
Hypothesis Hempty : forall k a, cget cempty k a = None.

Notation hstate_m := (hstate_m C).
Notation hstep_m := (hstep_m gt C cget cadd cempty).
Notation hrun_m := (hrun_m gt C cget cadd cempty).
Notation mkHM := (mkHM C).
Notation MOK := (MCacheOK cget).

Record HInvM (st : hstate_m) : Prop := mkHInvM {
  hmi_ok : MtOK (hm_s C st);
  hmi_cache : MOK (hm_s C st) (hm_c C st)
}.

(** everything a client still holds: the edges in the slots *)
Definition mroot (st : hstate_m) (r : ref) : Prop :=
  exists h, In h (s_handles (hm_s C st)) /\ eref (snd h) = r.

Lemma mroot_ok : forall st r, HInvM st -> mroot st r -> ref_ok (hm_s C st) r.
Proof. intros st r I [h [Hin <-]]. apply (m_handle_ok _ h (hmi_ok st I) Hin). Qed.

Lemma mslot_root : forall st k r, mslot C st k = Some r -> mroot st r.
Proof.
  intros st k r E. unfold mslot in E.
  destruct (hget (s_handles (hm_s C st)) k) as [e|] eqn:Eg; [|discriminate]. inversion E; subst.
  exists (k, e). split; [apply hget_In; exact Eg | reflexivity].
Qed.

Lemma mslot_ok : forall st k r, HInvM st -> mslot C st k = Some r -> ref_ok (hm_s C st) r.
Proof. intros st k r I E. apply (mroot_ok st r I). apply (mslot_root st k r E). Qed.

Lemma mok_empty : forall s, MOK s cempty.
Proof. intros s code args r E. rewrite Hempty in E. discriminate. Qed.

(** ** Well-formed requests *)

Definition moccupied (st : hstate_m) (k : N) : Prop := exists r, mslot C st k = Some r.

Definition mhop_pre (st : hstate_m) (o : mhop) : Prop :=
  let s := hm_s C st in
  match o with
  | MHConst _ v => wf v
  | MHVar _ v => v < nlevels s
  | MHBin _ _ a b => moccupied st a /\ moccupied st b
  | MHIte _ a b c => moccupied st a /\ moccupied st b /\ moccupied st c
  | MHRestrict _ a cube =>
    (* "vars" must be a product of literals *)
    moccupied st a /\ exists V lits, mslot C st cube = Some V /\ Cube s V lits
  | MHClone _ a => moccupied st a
  | MHDrop _ | MHGc | MHAddVars _ => True
  | MHSetVarOrder order => NoDup order /\ Forall (fun v => v < nlevels s) order
  end.

(** ** The frame *)

Definition hframe_m (st : hstate_m) (o : mhop) (st' : hstate_m) : Prop :=
  let s := hm_s C st in
  let s' := hm_s C st' in
  (forall x, mhdst o <> Some x -> hget (s_handles s') x = hget (s_handles s) x) /\
  (forall r, mroot st r -> ref_ok s' r /\ forall a, mfun_of s' r a = mfun_of s r a) /\
  (mchanges_order o = false -> morder_same s s').

(** ** What the destination holds afterwards *)

Definition mholds (st : hstate_m) (d : N) (F : asg -> i64v) : Prop :=
  exists r, mslot C st d = Some r /\ forall a, mfun_of (hm_s C st) r a = F a.

Definition hpost_m (st : hstate_m) (o : mhop) (st' : hstate_m) : Prop :=
  let s := hm_s C st in
  let s' := hm_s C st' in
  match o with
  | MHConst d v => mholds st' d (fun _ => v)
  | MHVar d v => mholds st' d (fun a => if a v then i64_one else i64_zero)
  | MHBin op d x y =>
    exists f g, mslot C st x = Some f /\ mslot C st y = Some g /\
      mholds st' d (fun a => mop_eval op (mfun_of s f a) (mfun_of s g a))
  | MHIte d x y z =>
    exists f g h, mslot C st x = Some f /\ mslot C st y = Some g /\ mslot C st z = Some h /\
      mholds st' d (fun a => if i64_is_zero (mfun_of s f a) then mfun_of s h a else mfun_of s g a)
  | MHRestrict d x cube =>
    exists f V, mslot C st x = Some f /\ mslot C st cube = Some V /\
      forall lits, Cube s V lits -> mholds st' d (fun a => mfun_of s f (force_asg s lits a))
  | MHClone d x => hget (s_handles s') d = hget (s_handles s) x /\ moccupied st' d
  | MHDrop x => hget (s_handles s') x = None /\ s_nodes s' = s_nodes s /\ s_terms s' = s_terms s
  | MHGc =>
    (forall id nd, find_node s' id = Some nd ->
       find_node s id = Some nd /\ exists r, mroot st r /\ reachable s [r] (RN id)) /\
    (forall t c, term_val s' t = Some c ->
       term_val s t = Some c /\
       (mroot st (RT t) \/
        exists id nd e, find_node s' id = Some nd /\ In e (nchildren nd) /\ eref e = RT t))
  | MHAddVars k =>
    s_l2v s' = s_l2v s ++ seq (nlevels s) k /\
    s_v2l s' = s_v2l s ++ seq (nlevels s) k /\ s_nodes s' = s_nodes s /\ s_terms s' = s_terms s
  | MHSetVarOrder order =>
    nlevels s' = nlevels s /\ s_handles s' = s_handles s /\ s_terms s' = s_terms s /\
    forall a b, a < b < length order ->
      nth (nth a order 0) (s_v2l s') 0 < nth (nth b order 0) (s_v2l s') 0
  end.

(** ** Storing the result of an algorithm *)

Lemma hinvm_put : forall st s' c' d r, HInvM st ->
  MtOK s' -> MOK s' c' -> ref_ok s' r -> HInvM (mkHM (put s' d r) c').
Proof.
  intros st s' c' d r I B' Q' Or. constructor; simpl.
  - apply mtok_put; assumption.
  - unfold put. rewrite widen_set_handles. apply mcacheok_widen; [apply (mo_wf s' B') | exact Q'].
Qed.

Lemma framem_put : forall st o s' c' d r, HInvM st -> mhdst o = Some d ->
  mext (hm_s C st) s' -> hframe_m st o (mkHM (put s' d r) c').
Proof.
  intros st o s' c' d r I Hd X. pose proof (hmi_ok st I) as B. split; [|split]; simpl.
  3: { intros _. split; [apply (mx_l2v _ _ X) | apply (mx_v2l _ _ X)]. }
  - intros x Hx. rewrite Hd in Hx. unfold put. simpl.
    rewrite hget_hset_other by congruence. rewrite (mx_handles _ _ X). reflexivity.
  - intros r0 Hr. pose proof (mroot_ok st r0 I Hr) as Ok. split.
    + unfold put. apply (mx_ref_ok _ _ _ X Ok).
    + intros a. unfold put. rewrite mfun_of_set_handles.
      apply (mfun_of_mext _ _ r0 a (mo_wf _ B) X Ok).
Qed.

Lemma mholds_put : forall s' c' d r F, (forall a, mfun_of s' r a = F a) ->
  mholds (mkHM (put s' d r) c') d F.
Proof.
  intros s' c' d r F HF. exists r. split.
  - unfold mslot, put. simpl. rewrite hget_hset_same. reflexivity.
  - intros a. simpl. unfold put. rewrite mfun_of_set_handles. apply HF.
Qed.

(** the common part of all calls that run an algorithm and store its result *)
Lemma mfinish_ok : forall st o d s' c' r, HInvM st -> mhdst o = Some d ->
  MtOK s' -> mext (hm_s C st) s' -> MOK s' c' -> ref_ok s' r ->
  let st' := mkHM (put s' d r) c' in
  HInvM st' /\ hframe_m st o st' /\
  forall F, (forall a, mfun_of s' r a = F a) -> mholds st' d F.
Proof.
  intros st o d s' c' r I Hd B' X Q' Or. simpl.
  split; [apply (hinvm_put st); assumption|]. split; [apply framem_put; assumption|].
  intros F HF. apply mholds_put. exact HF.
Qed.

(** from a level-indexed denotation of the result to its function over variables *)
Lemma denm_to_mfun : forall s s' r Phi a, mext s s' -> DenM s' r Phi ->
  mfun_of s' r a = Phi (choice_of s a).
Proof.
  intros s s' r Phi a X D. rewrite (mfun_of_den s' r Phi D). unfold choice_of.
  rewrite (mx_l2v _ _ X). reflexivity.
Qed.

(** ** One call *)

Theorem hstep_m_ok : forall st o, HInvM st -> mhop_pre st o ->
  exists st', hstep_m st o = Some st' /\ HInvM st' /\ hframe_m st o st' /\ hpost_m st o st'.
Proof.
  intros st o I Pre. pose proof (hmi_ok st I) as B. pose proof (hmi_cache st I) as Q.
  pose proof (mo_wf _ B) as H.
  destruct o as [d v|d v|op d x y|d x y z|d x cube|d x|x| |k|order]; simpl in Pre; simpl hstep_m.
  - (* MHConst *)
    rewrite (proj2 (wfb_true v) Pre).
    destruct (mt_const (hm_s C st) v) as [s' r] eqn:E.
    destruct (mt_const_ok _ v s' r B Pre E) as [B' [X [D _]]].
    destruct (mfinish_ok st (MHConst d v) d s' (hm_c C st) r I eq_refl B' X
                (mcacheok_mext C cget _ s' _ B X Q) (proj1 D)) as [I' [F' P']].
    eexists. split; [reflexivity|]. split; [exact I'|]. split; [exact F'|]. simpl. apply P'.
    intros a. apply (mfun_of_den s' r _ D).
  - (* MHVar *)
    destruct (mt_var_mfun _ v B Pre) as (s' & r & E & B' & X & Or & S). rewrite E.
    destruct (mfinish_ok st (MHVar d v) d s' (hm_c C st) r I eq_refl B' X
                (mcacheok_mext C cget _ s' _ B X Q) Or) as [I' [F' P']].
    eexists. split; [reflexivity|]. split; [exact I'|]. split; [exact F'|]. simpl. apply P'. exact S.
  - (* MHBin *)
    destruct Pre as [[f Ef] [g Eg]]. rewrite Ef, Eg.
    pose proof (mslot_ok st x f I Ef) as Of. pose proof (mslot_ok st y g I Eg) as Og.
    destruct (denm_exists _ f B Of) as [phi Df]. destruct (denm_exists _ g B Og) as [psi Dg].
    destruct (mt_apply_bin_ok gt C cget cadd Hlossy op (S (nlevels (hm_s C st))) _ (hm_c C st) f g phi psi
                B Q Df Dg ltac:(lia)) as (s' & c' & r & E & B' & X & Q' & D' & _).
    rewrite E. simpl mfinish.
    destruct (mfinish_ok st (MHBin op d x y) d s' c' r I eq_refl B' X Q' (proj1 D')) as [I' [F' P']].
    eexists. split; [reflexivity|]. split; [exact I'|]. split; [exact F'|].
    simpl. exists f, g. split; [exact Ef|]. split; [exact Eg|]. apply P'. intros a.
    rewrite (denm_to_mfun _ s' r _ a X D'), (mfun_of_den _ f phi Df), (mfun_of_den _ g psi Dg). reflexivity.
  - (* MHIte *)
    destruct Pre as [[f Ef] [[g Eg] [h Eh]]]. rewrite Ef, Eg, Eh.
    pose proof (mslot_ok st x f I Ef) as Of. pose proof (mslot_ok st y g I Eg) as Og.
    pose proof (mslot_ok st z h I Eh) as Oh.
    destruct (denm_exists _ f B Of) as [phi Df]. destruct (denm_exists _ g B Og) as [psi Dg].
    destruct (denm_exists _ h B Oh) as [theta Dh].
    destruct (mt_apply_ite_ok C cget cadd Hlossy (S (nlevels (hm_s C st))) _ (hm_c C st) f g h phi psi theta
                B Q Df Dg Dh ltac:(lia)) as (s' & c' & r & E & B' & X & Q' & D' & _).
    rewrite E. simpl mfinish.
    destruct (mfinish_ok st (MHIte d x y z) d s' c' r I eq_refl B' X Q' (proj1 D')) as [I' [F' P']].
    eexists. split; [reflexivity|]. split; [exact I'|]. split; [exact F'|].
    simpl. exists f, g, h. split; [exact Ef|]. split; [exact Eg|]. split; [exact Eh|]. apply P'. intros a.
    rewrite (denm_to_mfun _ s' r _ a X D'), (mfun_of_den _ f phi Df), (mfun_of_den _ g psi Dg),
      (mfun_of_den _ h theta Dh). reflexivity.
  - (* MHRestrict *)
    destruct Pre as [[f Ef] [V [lits0 [Ev Hcube0]]]]. rewrite Ef, Ev.
    pose proof (mslot_ok st x f I Ef) as Of.
    destruct (denm_exists _ f B Of) as [phi Df]. pose proof (rlevel_le _ H f) as Hrl.
    destruct (mt_restrict_ok C cget cadd Hlossy (S (nlevels (hm_s C st))) _ (hm_c C st) f V phi lits0
                B Q Df Hcube0 ltac:(lia)) as (s' & c' & r & E & B' & X & Q' & D' & _).
    rewrite E. simpl mfinish.
    destruct (mfinish_ok st (MHRestrict d x cube) d s' c' r I eq_refl B' X Q' (proj1 D')) as [I' [F' P']].
    eexists. split; [reflexivity|]. split; [exact I'|]. split; [exact F'|].
    simpl. exists f, V. split; [exact Ef|]. split; [exact Ev|].
    intros lits Hcube. apply P'.
    destruct (mt_restrict_mfun C cget cadd Hlossy _ (hm_c C st) f V lits B Q Of Hcube)
      as (s2 & c2 & r2 & E2 & _ & _ & _ & S).
    unfold ApplyProofs.FUEL in E2. rewrite E in E2. inversion E2; subst s2 c2 r2. exact S.
  - (* MHClone *)
    destruct Pre as [f Ef]. rewrite Ef. pose proof (mslot_ok st x f I Ef) as Of.
    destruct (mfinish_ok st (MHClone d x) d _ (hm_c C st) f I eq_refl B (mext_refl _) Q Of) as [I' [F' _]].
    eexists. split; [reflexivity|]. split; [exact I'|]. split; [exact F'|].
    simpl. unfold put. simpl. rewrite hget_hset_same.
    unfold mslot in Ef. destruct (hget (s_handles (hm_s C st)) x) as [e|] eqn:Eg; [|discriminate].
    inversion Ef; subst. split.
    + f_equal. apply edge_ext; [reflexivity|]. simpl. symmetry.
      apply (m_handle_ok _ (x, e) B (hget_In _ _ _ Eg)).
    + exists (eref e). unfold mslot. simpl. rewrite hget_hset_same. reflexivity.
  - (* MHDrop *)
    eexists. split; [reflexivity|]. split; [|split].
    + constructor; simpl.
      * apply mtok_drop. exact B.
      * rewrite widen_set_handles. apply mcacheok_widen; [exact H | exact Q].
    + split; [|split]; simpl.
      * intros y Hy. apply hget_hdel_other. congruence.
      * intros r Hr. split; [apply (mroot_ok st r I Hr) | intros a; apply mfun_of_set_handles].
      * intros _. split; reflexivity.
    + simpl. split; [apply hget_hdel_same | split; reflexivity].
  - (* MHGc *)
    destruct (mgc_facts _ B) as [Bg [Xg [Hh [Hok [Hnodes Hterms]]]]].
    remember (gc_model_m (hm_s C st)) as sg eqn:Esg.
    eexists. split; [reflexivity|]. split; [|split].
    + constructor; simpl; [exact Bg | apply mok_empty].
    + split; [|split]; simpl.
      * intros x _. rewrite Hh. reflexivity.
      * intros r [h [Hin <-]]. pose proof (Hok h Hin) as Ok. split; [exact Ok|]. intros a.
        symmetry. apply (mfun_of_mext sg _ _ a (mo_wf _ Bg) Xg Ok).
      * intros _. split; [symmetry; apply (mx_l2v _ _ Xg) | symmetry; apply (mx_v2l _ _ Xg)].
    + simpl. split.
      * intros id nd E0. destruct (Hnodes id nd E0) as [E1 R1]. split; [exact E1|].
        clear - R1. remember (RN id) as q eqn:Eq. clear Eq.
        induction R1 as [q Hin|pid pnd e R1 IH Ep He].
        -- unfold handle_refs in Hin. apply in_map_iff in Hin. destruct Hin as [h [<- Hin]].
           exists (eref (snd h)). split; [exists h; auto|]. apply reach_root. left. reflexivity.
        -- destruct IH as [r [Hr Rr]]. exists r. split; [exact Hr|].
           apply (reach_child _ _ pid pnd e Rr Ep He).
      * intros t c E0. destruct (Hterms t c E0) as [E1 [[h [Hin Eh]]|Hn]]; split; try exact E1.
        -- left. exists h. auto.
        -- right. exact Hn.
  - (* MHAddVars *)
    eexists. split; [reflexivity|]. rewrite widen_add_vars. split; [|split].
    + constructor; simpl.
      * apply mtok_widen; [exact B|]. intros h Hin. apply (m_handle_ok _ h B Hin).
      * apply mcacheok_widen; [exact H | exact Q].
    + split; [|split]; simpl.
      * intros x _. reflexivity.
      * intros r Hr. pose proof (mroot_ok st r I Hr) as Ok.
        split; [apply ref_ok_widen; exact Ok | intros a; apply (mfun_of_widen _ _ _ _ _ H Ok)].
      * discriminate.
    + simpl. auto.
  - (* MHSetVarOrder *)
    destruct Pre as [Hnd Hr].
    assert (Hsame : hframe_m st (MHSetVarOrder order) st).
    { split; [intros; reflexivity|]. split; [|discriminate].
      intros r Hrr. split; [apply (mroot_ok st r I Hrr) | reflexivity]. }
    destruct (Nat.leb (length order) 1) eqn:Elen.
    { exists st. split; [reflexivity|]. split; [exact I|]. split; [exact Hsame|]. simpl.
      split; [reflexivity|]. split; [reflexivity|]. split; [reflexivity|].
      intros a b Hab. apply Nat.leb_le in Elen. lia. }
    assert (Eok : order_ok_b (nlevels (hm_s C st)) order = true)
      by (apply order_ok_b_valid; split; assumption).
    rewrite Eok.
    destruct (nat_list_eqb _ (seq 0 (nlevels (hm_s C st)))) eqn:Esorted.
    { exists st. split; [reflexivity|]. split; [exact I|]. split; [exact Hsame|]. simpl.
      split; [reflexivity|]. split; [reflexivity|]. split; [reflexivity|].
      intros a b Hab. apply nat_list_eqb_eq in Esorted.
      pose proof (sort_order_respects (nlevels (hm_s C st)) _
                    (valid_order_levels (hm_s C st) order H Hnd Hr) a b) as R.
      rewrite map_length in R. specialize (R Hab). rewrite Esorted in R.
      rewrite Forall_forall in Hr.
      assert (Hlv : forall k0, k0 < length order ->
                nth k0 (map (fun v => nth v (s_v2l (hm_s C st)) 0) order) 0 = nth (nth k0 order 0) (s_v2l (hm_s C st)) 0).
      { intros k0 Hk0. apply (nth_map_in _ _ (fun v => nth v (s_v2l (hm_s C st)) 0)). exact Hk0. }
      rewrite (Hlv a), (Hlv b) in R by lia.
      assert (Hlt : forall k0, k0 < length order -> nth (nth k0 order 0) (s_v2l (hm_s C st)) 0 < nlevels (hm_s C st)).
      { intros k0 Hk0. apply (wf_v2l_l2v (hm_s C st) _ H). apply Hr. apply nth_In. exact Hk0. }
      rewrite !seq_nth in R by (apply Hlt; lia). exact R. }
    destruct (mreorder_facts _ order B Hnd Hr) as [B2 [Hn2 [Hh2 [Ht2 [Hf2 Hresp]]]]].
    eexists. split; [reflexivity|]. split; [|split].
    + constructor; simpl; [exact B2 | apply mok_empty].
    + split; [|split]; simpl.
      * intros x _. rewrite Hh2. reflexivity.
      * intros r [h [Hin <-]]. apply (Hf2 h Hin).
      * discriminate.
    + simpl. split; [exact Hn2|]. split; [exact Hh2|]. split; [exact Ht2 | exact Hresp].
Qed.

End HistM.
