(** * MTBDD: result correctness along histories; the result is determined by the
      operator, the operands' FUNCTIONS and the variable order

    - [count_reach_denm] / [same_mfun_same_count]: two references of two MTBDD
      tables over the same variable order that denote the same function have
      isomorphic sub-diagrams, in particular the same node count (the MTBDD
      copy of DD/Iso.v's [count_reach_den]);
    - [hspec_m st o d F]: call [o] issued in state [st] is to leave the function
      [F] in slot [d]; [F] is given by the functions the operand slots hold
      ([mholds]) - for [restrict] the cube operand is given by its literals
      ([Cube], structural);
    - [hstep_m_spec], [histm_result_unique], [histm_result_determined],
      [histm_fresh_equiv]: as for the other kinds. *)

From Coq Require Import List NArith ZArith PArith Bool Arith Lia FMapPositive.
From OxiVerif Require Import DD.Table DD.TableProofs DD.Sem DD.Build DD.BuildProofs
  DD.Apply DD.ApplyProofs DD.ApplyEvalProofs DD.ConfigApply DD.ConfigInsert DD.ConfigRun DD.Iso
  Num.I64 Num.I64Proofs DD.ApplyMtbdd DD.ApplyMtbddBase DD.ApplyMtbddProofs DD.ApplyMtbddTop
  Mgr.History Mgr.HistoryBase Mgr.HistoryM Mgr.HistoryMBase Mgr.HistoryMProofs Mgr.HistoryMThms.
Import ListNotations.

Local Arguments hset : simpl never.
Local Arguments hget : simpl never.
Local Arguments hdel : simpl never.
Local Arguments mfun_of : simpl never.

Definition mfeq (f g : asg -> i64v) : Prop := forall a, f a = g a.

(** ** Two MTBDD tables: the node count is a function of the denotation *)

Section TwoTablesM.
Variables s1 s2 : snap.
Hypothesis B1 : MtOK s1.
Hypothesis B2 : MtOK s2.
Hypothesis Hlev : nlevels s1 = nlevels s2.

Definition same_denm (r1 r2 : ref) : Prop :=
  exists phi, DenM s1 r1 phi /\ DenM s2 r2 phi.

Lemma same_denm_level : forall r1 r2, same_denm r1 r2 -> rlevel s1 r1 = rlevel s2 r2.
Proof.
  intros r1 r2 [phi [D1 D2]].
  pose proof (denm_indep s1 r1 phi (mo_wf s1 B1) D1) as I1.
  pose proof (denm_indep s2 r2 phi (mo_wf s2 B2) D2) as I2.
  pose proof (rlevel_le s1 (mo_wf s1 B1) r1) as L1.
  pose proof (rlevel_le s2 (mo_wf s2 B2) r2) as L2.
  pose proof (denm_level s2 r2 phi (rlevel s1 r1) B2 D2 ltac:(lia) I1).
  pose proof (denm_level s1 r1 phi (rlevel s2 r2) B1 D1 ltac:(lia) I2).
  lia.
Qed.

Lemma same_denm_bisim : bisim s1 s2 same_denm.
Proof.
  pose proof (mo_wf s1 B1) as H1. pose proof (mo_wf s2 B2) as H2.
  constructor.
  - intros r1 r2 HR. pose proof (same_denm_level r1 r2 HR) as Hl.
    destruct HR as [phi [D1 D2]].
    destruct r1 as [t|a], r2 as [u|b]; auto.
    + destruct (proj1 D2) as [nd E]. rewrite (rlevel_node s2 b nd E) in Hl. simpl in Hl.
      pose proof (wf_level s2 H2 b nd E). lia.
    + destruct (proj1 D1) as [nd E]. rewrite (rlevel_node s1 a nd E) in Hl. simpl in Hl.
      pose proof (wf_level s1 H1 a nd E). lia.
  - intros a b HR. pose proof (same_denm_level _ _ HR) as Hl. destruct HR as [phi [D1 D2]].
    destruct (proj1 D1) as [n1 E1]. destruct (proj1 D2) as [n2 E2]. rewrite E1, E2.
    rewrite (rlevel_node s1 a n1 E1), (rlevel_node s2 b n2 E2) in Hl.
    destruct (mt_children s1 a n1 B1 E1) as [x0 [x1 Ex]].
    destruct (mt_children s2 b n2 B2 E2) as [y0 [y1 Ey]].
    rewrite Ex, Ey. simpl.
    assert (Hx0 : nth_error (nchildren n1) 0 = Some x0) by (rewrite Ex; reflexivity).
    assert (Hx1 : nth_error (nchildren n1) 1 = Some x1) by (rewrite Ex; reflexivity).
    assert (Hy0 : nth_error (nchildren n2) 0 = Some y0) by (rewrite Ey; reflexivity).
    assert (Hy1 : nth_error (nchildren n2) 1 = Some y1) by (rewrite Ey; reflexivity).
    constructor; [|constructor; [|constructor]].
    + exists (cofM phi (nlevel n1) 0). split; [apply (denm_child s1 a n1 0 x0 phi B1 D1 E1 Hx0)|].
      rewrite Hl. apply (denm_child s2 b n2 0 y0 phi B2 D2 E2 Hy0).
    + exists (cofM phi (nlevel n1) 1). split; [apply (denm_child s1 a n1 1 x1 phi B1 D1 E1 Hx1)|].
      rewrite Hl. apply (denm_child s2 b n2 1 y1 phi B2 D2 E2 Hy1).
  - intros a b a' b' [phi [D1 D2]] [phi' [D1' D2']]. split; intros ->.
    + assert (Hr : RN b = RN b'); [|inversion Hr; reflexivity].
      apply (denm_canon s2 _ _ phi B2 D2). apply (denm_ext s2 _ phi' phi D2').
      intros c Hc. apply (denm_unique s1 (RN a') phi' phi D1' D1 c Hc).
    + assert (Hr : RN a = RN a'); [|inversion Hr; reflexivity].
      apply (denm_canon s1 _ _ phi B1 D1). apply (denm_ext s1 _ phi' phi D1').
      intros c Hc. apply (denm_unique s2 (RN b') phi' phi D2' D2 c Hc).
  - intros t u t' u' [phi [D1 D2]] [phi' [D1' D2']]. split; intros ->.
    + assert (Hr : RT u = RT u'); [|inversion Hr; reflexivity].
      apply (denm_canon s2 _ _ phi B2 D2). apply (denm_ext s2 _ phi' phi D2').
      intros c Hc. apply (denm_unique s1 (RT t') phi' phi D1' D1 c Hc).
    + assert (Hr : RT t = RT t'); [|inversion Hr; reflexivity].
      apply (denm_canon s1 _ _ phi B1 D1). apply (denm_ext s1 _ phi' phi D1').
      intros c Hc. apply (denm_unique s2 (RT u') phi' phi D2' D2 c Hc).
Qed.

(** same function => same node count, whatever the two tables otherwise contain *)
Theorem count_reach_denm : forall r1 r2 phi, DenM s1 r1 phi -> DenM s2 r2 phi ->
  count_reach s1 (E r1) = count_reach s2 (E r2).
Proof.
  intros r1 r2 phi D1 D2.
  apply (count_reach_bisim s1 s2 same_denm same_denm_bisim
           (wf_arity_ok s1 (mo_wf s1 B1)) (wf_arity_ok s2 (mo_wf s2 B2)) (E r1) (E r2)).
  exists phi. auto.
Qed.

End TwoTablesM.

(** same isomorphism class: equal functions of the variables, equal node counts *)
Lemma same_mfun_same_count : forall s1 s2 r1 r2, MtOK s1 -> MtOK s2 ->
  s_l2v s1 = s_l2v s2 -> s_v2l s1 = s_v2l s2 -> ref_ok s1 r1 -> ref_ok s2 r2 ->
  (forall a, mfun_of s1 r1 a = mfun_of s2 r2 a) ->
  count_reach s1 (E r1) = count_reach s2 (E r2).
Proof.
  intros s1 s2 r1 r2 B1 B2 Hl Hv O1 O2 Heq.
  pose proof (mo_wf s1 B1) as H1. pose proof (mo_wf s2 B2) as H2.
  destruct (denm_exists s1 r1 B1 O1) as [phi D1]. destruct (denm_exists s2 r2 B2 O2) as [psi D2].
  assert (Hn : nlevels s1 = nlevels s2) by (unfold nlevels; rewrite Hl; reflexivity).
  apply (count_reach_denm s1 s2 B1 B2 Hn r1 r2 phi D1).
  apply (denm_ext s2 r2 psi phi D2). intros c Hc.
  destruct (bchoice_is_asg s1 c H1 Hc) as [a Ha].
  assert (E1 : phi c = mfun_of s1 r1 a).
  { rewrite (mfun_of_den s1 r1 phi D1 a). apply code_inj.
    assert (X1 := proj2 D1 c Hc). assert (X2 := proj2 D1 _ (choice_of_bchoice s1 a)).
    rewrite (BuildCanonProofs.semk_ext_lt s1 H1 _ r1 c (choice_of s1 a)) in X1
      by (intros l Hl0; symmetry; apply Ha; exact Hl0).
    congruence. }
  assert (E2 : psi c = mfun_of s2 r2 a).
  { rewrite (mfun_of_den s2 r2 psi D2 a). apply code_inj.
    assert (X1 := proj2 D2 c Hc). assert (X2 := proj2 D2 _ (choice_of_bchoice s2 a)).
    rewrite (BuildCanonProofs.semk_ext_lt s2 H2 _ r2 c (choice_of s2 a)) in X1.
    - congruence.
    - intros l Hl0. unfold choice_of. rewrite <- Hl. symmetry. apply Ha. rewrite Hn. exact Hl0. }
  rewrite E1, E2. symmetry. apply Heq.
Qed.

Section SpecM.
Variable gt : ref -> ref -> bool.
Variable C : Type.
Variable cget : C -> N -> list ref -> option ref.
Variable cadd : C -> N -> list ref -> ref -> C.
Hypothesis Hlossy : lossy cget cadd.
Variable cempty : C.
Hypothesis Hempty : forall k a, cget cempty k a = None.

Notation hstate_m := (hstate_m C).
Notation hstep_m := (hstep_m gt C cget cadd cempty).
Notation hrun_m := (hrun_m gt C cget cadd cempty).
Notation HInvM := (HInvM C cget).
Notation mhop_pre := (mhop_pre C).
Notation hframe_m := (hframe_m C).
Notation hpost_m := (hpost_m C).
Notation mholds := (mholds C).
Notation hinit_m := (hinit_m C cempty).
Notation step_ok := (hstep_m_ok gt C cget cadd Hlossy cempty Hempty).

Lemma mholds_ext : forall st d F F', mholds st d F -> mfeq F F' -> mholds st d F'.
Proof. intros st d F F' [r [E HF]] Hf. exists r. split; [exact E|]. intros a. rewrite HF. apply Hf. Qed.

Lemma mholds_slot : forall st d F r, mholds st d F -> mslot C st d = Some r -> mfeq (mfun_of (hm_s C st) r) F.
Proof. intros st d F r [r0 [E HF]] Er. rewrite E in Er. inversion Er; subst. exact HF. Qed.

Lemma mholds_occupied : forall st d F, mholds st d F -> moccupied C st d.
Proof. intros st d F [r [E _]]. exists r. exact E. Qed.

Inductive hspec_m (st : hstate_m) : mhop -> N -> (asg -> i64v) -> Prop :=
| MSpConst : forall d v, wf v -> hspec_m st (MHConst d v) d (fun _ => v)
| MSpVar : forall d v, v < nlevels (hm_s C st) ->
    hspec_m st (MHVar d v) d (fun a => if a v then i64_one else i64_zero)
| MSpBin : forall op d x y f g, mholds st x f -> mholds st y g ->
    hspec_m st (MHBin op d x y) d (fun a => mop_eval op (f a) (g a))
| MSpIte : forall d x y z f g h, mholds st x f -> mholds st y g -> mholds st z h ->
    hspec_m st (MHIte d x y z) d (fun a => if i64_is_zero (f a) then h a else g a)
| MSpRestrict : forall d x cube f V lits, mholds st x f ->
    mslot C st cube = Some V -> Cube (hm_s C st) V lits ->
    hspec_m st (MHRestrict d x cube) d (fun a => f (force_asg (hm_s C st) lits a))
| MSpClone : forall d x f, mholds st x f -> hspec_m st (MHClone d x) d f.

Lemma hspec_m_pre : forall st o d F, hspec_m st o d F -> mhop_pre st o.
Proof.
  intros st o d F S. destruct S; simpl; try assumption;
    try (repeat match goal with |- _ /\ _ => split end; eauto using mholds_occupied; fail).
Qed.

Lemma hspec_m_order : forall st o d F, hspec_m st o d F -> mchanges_order o = false.
Proof. intros st o d F S. destruct S; reflexivity. Qed.

(** (4) the destination holds the spec function, whatever happened before *)
Theorem hstep_m_spec : forall st o d F, HInvM st -> hspec_m st o d F ->
  exists st', hstep_m st o = Some st' /\ HInvM st' /\ hframe_m st o st' /\ mholds st' d F.
Proof.
  intros st o d F I S. pose proof (hspec_m_pre st o d F S) as Pre.
  destruct (step_ok st o I Pre) as [st' [E [I' [Fr P]]]].
  exists st'. split; [exact E|]. split; [exact I'|]. split; [exact Fr|].
  pose proof (mo_wf _ (hmi_ok C cget st I)) as Hwf.
  destruct S; simpl in P.
  - exact P.
  - exact P.
  - destruct P as [f0 [g0 [E0 [E1 P]]]]. apply (mholds_ext _ _ _ _ P).
    intros a. rewrite (mholds_slot st x f f0 H E0 a), (mholds_slot st y g g0 H0 E1 a). reflexivity.
  - destruct P as [f0 [g0 [h0 [E0 [E1 [E2 P]]]]]]. apply (mholds_ext _ _ _ _ P).
    intros a. rewrite (mholds_slot st x f f0 H E0 a), (mholds_slot st y g g0 H0 E1 a),
      (mholds_slot st z h h0 H1 E2 a). reflexivity.
  - destruct P as [f0 [V0 [E0 [E1 P]]]]. rewrite H0 in E1. inversion E1; subst V0.
    apply (mholds_ext _ _ _ _ (P lits H1)). intros a. apply (mholds_slot st x f f0 H E0).
  - destruct P as [Eg [r' Er']]. destruct H as [r [Er HF]].
    exists r. assert (Er2 : mslot C st' d = Some r).
    { unfold mslot in *. rewrite Eg. exact Er. }
    split; [exact Er2|]. intros a. destruct Fr as [_ [F2 _]].
    rewrite (proj2 (F2 r (mslot_root C st x r Er)) a). apply HF.
Qed.

(** in one manager the returned edge is THE edge with that function *)
Theorem histm_result_unique : forall st o d F st', HInvM st -> hspec_m st o d F -> hstep_m st o = Some st' ->
  forall y, mholds st' y F ->
  hget (s_handles (hm_s C st')) y = hget (s_handles (hm_s C st')) d.
Proof.
  intros st o d F st' I S E y Hy.
  destruct (hstep_m_spec st o d F I S) as [st1 [E1 [I1 [_ Hd]]]]. rewrite E in E1. inversion E1; subst st1.
  destruct Hy as [ry [Ey Fy]]. destruct Hd as [rd [Ed Fd]]. unfold mslot in Ey, Ed.
  destruct (hget (s_handles (hm_s C st')) y) as [ey|] eqn:Gy; [|discriminate].
  destruct (hget (s_handles (hm_s C st')) d) as [ed|] eqn:Gd; [|discriminate].
  inversion Ey; subst ry. inversion Ed; subst rd. f_equal.
  apply (hinvm_canonical C cget st' I1 y d ey ed Gy Gd). intros a. rewrite Fy, Fd. reflexivity.
Qed.

End SpecM.

(** ** Two managers *)

Section TwoM.
Variables gt1 gt2 : ref -> ref -> bool.
Variables C1 C2 : Type.
Variable cget1 : C1 -> N -> list ref -> option ref.
Variable cadd1 : C1 -> N -> list ref -> ref -> C1.
Variable cget2 : C2 -> N -> list ref -> option ref.
Variable cadd2 : C2 -> N -> list ref -> ref -> C2.
Hypothesis L1 : lossy cget1 cadd1.
Hypothesis L2 : lossy cget2 cadd2.
Variable ce1 : C1.
Variable ce2 : C2.
Hypothesis He1 : forall k a, cget1 ce1 k a = None.
Hypothesis He2 : forall k a, cget2 ce2 k a = None.

Notation step1 := (hstep_m gt1 C1 cget1 cadd1 ce1).
Notation step2 := (hstep_m gt2 C2 cget2 cadd2 ce2).

(** the result is determined by the spec function and the variable order:
    same function, same node count, in any two managers *)
Theorem histm_result_determined : forall st1 st2 o1 o2 d1 d2 F st1' st2',
  HInvM C1 cget1 st1 -> HInvM C2 cget2 st2 ->
  s_l2v (hm_s C1 st1) = s_l2v (hm_s C2 st2) -> s_v2l (hm_s C1 st1) = s_v2l (hm_s C2 st2) ->
  hspec_m C1 st1 o1 d1 F -> hspec_m C2 st2 o2 d2 F ->
  step1 st1 o1 = Some st1' -> step2 st2 o2 = Some st2' ->
  exists r1 r2, mslot C1 st1' d1 = Some r1 /\ mslot C2 st2' d2 = Some r2 /\
    (forall a, mfun_of (hm_s C1 st1') r1 a = F a) /\
    (forall a, mfun_of (hm_s C2 st2') r2 a = F a) /\
    count_reach (hm_s C1 st1') (E r1) = count_reach (hm_s C2 st2') (E r2).
Proof.
  intros st1 st2 o1 o2 d1 d2 F st1' st2' I1 I2 Hl Hv S1 S2 E1 E2.
  destruct (hstep_m_spec gt1 C1 cget1 cadd1 L1 ce1 He1 st1 o1 d1 F I1 S1) as [sa [Ea [Ia [Fa Ha]]]].
  destruct (hstep_m_spec gt2 C2 cget2 cadd2 L2 ce2 He2 st2 o2 d2 F I2 S2) as [sb [Eb [Ib [Fb Hb]]]].
  rewrite E1 in Ea. inversion Ea; subst sa. rewrite E2 in Eb. inversion Eb; subst sb.
  destruct Ha as [r1 [Er1 F1]]. destruct Hb as [r2 [Er2 F2]].
  exists r1, r2. split; [exact Er1|]. split; [exact Er2|]. split; [exact F1|]. split; [exact F2|].
  pose proof (hspec_m_order C1 st1 o1 d1 F S1) as Hco1.
  pose proof (hspec_m_order C2 st2 o2 d2 F S2) as Hco2.
  destruct (proj2 (proj2 Fa) Hco1) as [La Va]. destruct (proj2 (proj2 Fb) Hco2) as [Lb Vb].
  apply same_mfun_same_count.
  - apply (hmi_ok C1 cget1 st1' Ia).
  - apply (hmi_ok C2 cget2 st2' Ib).
  - rewrite La, Lb. exact Hl.
  - rewrite Va, Vb. exact Hv.
  - apply (mslot_ok C1 cget1 st1' d1 r1 Ia Er1).
  - apply (mslot_ok C2 cget2 st2' d2 r2 Ib Er2).
  - intros a. rewrite F1, F2. reflexivity.
Qed.

(** C08 "as on a freshly built diagram" *)
Theorem histm_fresh_equiv : forall n1 n2 ops1 ops2 st1 st2 o1 o2 d1 d2 F,
  mhops_pre gt1 C1 cget1 cadd1 ce1 (hinit_m C1 ce1 n1) ops1 ->
  hrun_m gt1 C1 cget1 cadd1 ce1 (hinit_m C1 ce1 n1) ops1 = Some st1 ->
  mhops_pre gt2 C2 cget2 cadd2 ce2 (hinit_m C2 ce2 n2) ops2 ->
  hrun_m gt2 C2 cget2 cadd2 ce2 (hinit_m C2 ce2 n2) ops2 = Some st2 ->
  s_l2v (hm_s C1 st1) = s_l2v (hm_s C2 st2) -> s_v2l (hm_s C1 st1) = s_v2l (hm_s C2 st2) ->
  hspec_m C1 st1 o1 d1 F -> hspec_m C2 st2 o2 d2 F ->
  exists st1' st2' r1 r2,
    step1 st1 o1 = Some st1' /\ step2 st2 o2 = Some st2' /\
    mslot C1 st1' d1 = Some r1 /\ mslot C2 st2' d2 = Some r2 /\
    (forall a, mfun_of (hm_s C1 st1') r1 a = F a) /\
    (forall a, mfun_of (hm_s C2 st2') r2 a = F a) /\
    count_reach (hm_s C1 st1') (E r1) = count_reach (hm_s C2 st2') (E r2) /\
    wf_b (hm_s C1 st1') = true /\ wf_b (hm_s C2 st2') = true.
Proof.
  intros n1 n2 ops1 ops2 st1 st2 o1 o2 d1 d2 F P1 R1 P2 R2 Hl Hv S1 S2.
  assert (I1 : HInvM C1 cget1 st1).
  { apply (hreach_m_inv gt1 C1 cget1 cadd1 L1 ce1 He1 n1). exists ops1. auto. }
  assert (I2 : HInvM C2 cget2 st2).
  { apply (hreach_m_inv gt2 C2 cget2 cadd2 L2 ce2 He2 n2). exists ops2. auto. }
  destruct (hstep_m_spec gt1 C1 cget1 cadd1 L1 ce1 He1 st1 o1 d1 F I1 S1) as [sa [Ea [Ia _]]].
  destruct (hstep_m_spec gt2 C2 cget2 cadd2 L2 ce2 He2 st2 o2 d2 F I2 S2) as [sb [Eb [Ib _]]].
  destruct (histm_result_determined st1 st2 o1 o2 d1 d2 F sa sb I1 I2 Hl Hv S1 S2 Ea Eb)
    as [r1 [r2 [A1 [A2 [A3 [A4 A5]]]]]].
  exists sa, sb, r1, r2. repeat (split; [assumption|]).
  split; apply wf_b_spec; [apply (mo_wf _ (hmi_ok C1 cget1 sa Ia)) | apply (mo_wf _ (hmi_ok C2 cget2 sb Ib))].
Qed.

End TwoM.
