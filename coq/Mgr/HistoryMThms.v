(** * Theorems about ALL histories of the MTBDD manager state machine (Mgr/HistoryM.v)

    For every configuration (operand order [gt], cache implementation
    [C]/[cget]/[cadd] that is [lossy], its cleared state [cempty]), every
    number [n] of initial variables and every history (list of [mhop]) of
    well-formed requests from the empty MTBDD manager [hinit_m n]:

    - [hrun_m_ok], [hreach_m_inv]: the run never gets stuck and every state it
      passes satisfies [HInvM];
    - [histm_wf]: the table after ANY history passes the checkers [wf_b] and
      [mt_ok_b] (C03; in particular: terminal values pairwise distinct, no
      dangling terminal after a collection);
    - [histm_canonical]: two slots hold the same edge IFF they denote the same
      function of the variables (C01);
    - [histm_frame_slots], [histm_slot_stable], [histm_handle_function_fixed],
      [histm_add_vars] (C16), [histm_reorder_keeps] (C08): a call changes neither
      the edge nor the function of any slot other than its destination;
    - [histm_gc]: a collection keeps every slot and its function, every kept
      node / terminal is one of the old table and is referenced;
    - [mhop_pre_b_sound], [hrun_m_checked]: the executable request checker. *)

From Coq Require Import List NArith ZArith PArith Bool Arith Lia FMapPositive.
From OxiVerif Require Import DD.Table DD.TableProofs DD.Sem DD.Build DD.BuildProofs
  DD.Apply DD.ApplyProofs DD.ApplyEvalProofs DD.ConfigApply DD.ConfigInsert DD.ConfigRun DD.FamSpecProofs
  Num.I64 Num.I64Proofs DD.ApplyMtbdd DD.ApplyMtbddBase DD.ApplyMtbddProofs DD.ApplyMtbddTop
  Mgr.SortOrder Mgr.SortOrderProofs Mgr.LevelSwap Mgr.LevelSwapOrder
  Mgr.History Mgr.HistoryBase Mgr.HistoryM Mgr.HistoryMBase Mgr.HistoryMProofs.
Import ListNotations.

Local Arguments hset : simpl never.
Local Arguments hget : simpl never.
Local Arguments hdel : simpl never.
Local Arguments mfun_of : simpl never.
Local Arguments gc_model_m : simpl never.
Local Arguments set_var_order_model : simpl never.
Local Arguments cube_lits : simpl never.

(** ** The empty manager *)

Lemma nth_error_seq0m : forall n i, i < n -> nth_error (seq 0 n) i = Some i.
Proof.
  intros n i Hi. rewrite (nth_error_nth' (seq 0 n) 0) by (rewrite seq_length; exact Hi).
  rewrite seq_nth by exact Hi. reflexivity.
Qed.

Lemma emptym_find : forall n id, find_node (empty_snap_m n) id = None.
Proof. intros n id. unfold find_node. simpl. apply PositiveMap.gempty. Qed.

Lemma emptym_wf : forall n, WF (empty_snap_m n).
Proof.
  intros n.
  assert (Hinv : inv_on (seq 0 n) (seq 0 n)).
  { intros i Hi. rewrite seq_length in Hi. exists i. split; apply nth_error_seq0m; exact Hi. }
  constructor; simpl; try exact Hinv;
    try (intros; match goal with E : find_node (empty_snap_m n) _ = Some _ |- _ =>
                   rewrite emptym_find in E; discriminate end).
  - reflexivity.
  - constructor.
  - constructor.
  - intros h [].
Qed.

Lemma emptym_ok : forall n, MtOK (empty_snap_m n).
Proof.
  intros n. constructor; [apply emptym_wf | reflexivity|].
  intros t c E. discriminate.
Qed.

Section ThmsM.
Variable gt : ref -> ref -> bool.
Variable C : Type.
Variable cget : C -> N -> list ref -> option ref.
Variable cadd : C -> N -> list ref -> ref -> C.
Hypothesis Hlossy : lossy cget cadd.
Variable cempty : C.
Hypothesis Hempty : forall k a, cget cempty k a = None.

Notation hstate_m := (hstate_m C).
Notation hstep_m := (hstep_m gt C cget cadd cempty).
Notation hrun_m := (hrun_m gt C cget cadd cempty).
Notation HInvM := (HInvM C cget).
Notation mhop_pre := (mhop_pre C).
Notation hframe_m := (hframe_m C).
Notation hpost_m := (hpost_m C).
Notation mholds := (mholds C).
Notation mroot := (mroot C).
Notation hinit_m := (hinit_m C cempty).
Notation step_ok := (hstep_m_ok gt C cget cadd Hlossy cempty Hempty).

(** the invariant, spelled out *)
Theorem hinvm_unfold : forall st : hstate_m,
  HInvM st <-> (MtOK (hm_s C st) /\ MCacheOK cget (hm_s C st) (hm_c C st)).
Proof.
  intros st. split.
  - intros [A B]. auto.
  - intros [A B]. constructor; assumption.
Qed.

Theorem hinit_m_inv : forall n, HInvM (hinit_m n).
Proof.
  intros n. constructor; simpl; [apply emptym_ok|].
  intros code args r E. rewrite Hempty in E. discriminate.
Qed.

(** ** Runs *)

Fixpoint mhops_pre (st : hstate_m) (ops : list mhop) : Prop :=
  match ops with
  | [] => True
  | o :: rest => mhop_pre st o /\ forall st1, hstep_m st o = Some st1 -> mhops_pre st1 rest
  end.

Theorem hrun_m_ok : forall ops st, HInvM st -> mhops_pre st ops ->
  exists st', hrun_m st ops = Some st' /\ HInvM st'.
Proof.
  induction ops as [|o rest IH]; intros st I Pre.
  - exists st. split; [reflexivity | exact I].
  - destruct Pre as [P0 Prest]. destruct (step_ok st o I P0) as [st1 [E [I1 _]]].
    destruct (IH st1 I1 (Prest st1 E)) as [st2 [E2 I2]].
    exists st2. simpl. rewrite E. split; [exact E2 | exact I2].
Qed.

Lemma hrun_m_app : forall ops1 ops2 st, hrun_m st (ops1 ++ ops2) =
  match hrun_m st ops1 with Some st1 => hrun_m st1 ops2 | None => None end.
Proof.
  induction ops1 as [|o r IH]; intros ops2 st; simpl; [reflexivity|].
  destruct (hstep_m st o); [apply IH | reflexivity].
Qed.

Lemma mhops_pre_app : forall ops1 ops2 st, mhops_pre st ops1 ->
  (forall st1, hrun_m st ops1 = Some st1 -> mhops_pre st1 ops2) -> mhops_pre st (ops1 ++ ops2).
Proof.
  induction ops1 as [|o r IH]; intros ops2 st P1 P2; simpl.
  - apply P2. reflexivity.
  - destruct P1 as [P0 Pr]. split; [exact P0|]. intros st1 E. apply IH; [apply Pr; exact E|].
    intros st2 E2. apply P2. simpl. rewrite E. exact E2.
Qed.

(** the states a client can bring an MTBDD manager with [n] initial variables into *)
Definition hreach_m (n : nat) (st : hstate_m) : Prop :=
  exists ops, mhops_pre (hinit_m n) ops /\ hrun_m (hinit_m n) ops = Some st.

Theorem hreach_m_init : forall n, hreach_m n (hinit_m n).
Proof. intros n. exists []. split; [exact I | reflexivity]. Qed.

Theorem hreach_m_inv : forall n st, hreach_m n st -> HInvM st.
Proof.
  intros n st [ops [P E]]. destruct (hrun_m_ok ops (hinit_m n) (hinit_m_inv n) P) as [st' [E' I']].
  rewrite E in E'. inversion E'; subst. exact I'.
Qed.

Theorem hreach_m_step : forall n st o st', hreach_m n st -> mhop_pre st o -> hstep_m st o = Some st' ->
  hreach_m n st'.
Proof.
  intros n st o st' [ops [P E]] Pre Es. exists (ops ++ [o]). split.
  - apply mhops_pre_app; [exact P|]. intros st1 E1. rewrite E in E1. inversion E1; subst st1.
    simpl. split; [exact Pre | intros; exact Logic.I].
  - rewrite hrun_m_app, E. simpl. rewrite Es. reflexivity.
Qed.

(** (1) no well-formed request ever gets stuck, from any reachable state *)
Theorem histm_progress : forall n st o, hreach_m n st -> mhop_pre st o ->
  exists st', hstep_m st o = Some st' /\ hreach_m n st' /\ hframe_m st o st' /\ hpost_m st o st'.
Proof.
  intros n st o R Pre. destruct (step_ok st o (hreach_m_inv n st R) Pre) as [st' [E [_ [F P]]]].
  exists st'. split; [exact E|]. split; [apply (hreach_m_step n st o st' R Pre E)|]. auto.
Qed.

(** (1) C03: after any history the table passes the structural checkers *)
Theorem histm_wf : forall n st, hreach_m n st ->
  wf_b (hm_s C st) = true /\ mt_ok_b (hm_s C st) = true.
Proof.
  intros n st R. pose proof (hmi_ok C cget st (hreach_m_inv n st R)) as B.
  split; [apply wf_b_spec; apply (mo_wf _ B) | apply mt_ok_b_spec; exact B].
Qed.

(** ** Canonicity *)

Theorem hinvm_canonical : forall st, HInvM st ->
  forall x y ex ey, hget (s_handles (hm_s C st)) x = Some ex -> hget (s_handles (hm_s C st)) y = Some ey ->
  (ex = ey <-> forall a, mfun_of (hm_s C st) (eref ex) a = mfun_of (hm_s C st) (eref ey) a).
Proof.
  intros st I x y ex ey Ex Ey. pose proof (hmi_ok C cget st I) as B.
  destruct (m_handle_ok _ (x, ex) B (hget_In _ _ _ Ex)) as [Ox Tx].
  destruct (m_handle_ok _ (y, ey) B (hget_In _ _ _ Ey)) as [Oy Ty]. simpl in *.
  split; [intros ->; reflexivity|]. intros Heq.
  apply edge_ext; [|congruence]. apply (mfun_canon _ _ _ B Ox Oy Heq).
Qed.

(** (2) C01: after any history, two slots hold the same edge iff they denote
    the same function (value table) of the manager's variables *)
Theorem histm_canonical : forall n st, hreach_m n st ->
  forall x y ex ey, hget (s_handles (hm_s C st)) x = Some ex -> hget (s_handles (hm_s C st)) y = Some ey ->
  (ex = ey <-> forall a, mfun_of (hm_s C st) (eref ex) a = mfun_of (hm_s C st) (eref ey) a).
Proof. intros n st R. apply hinvm_canonical. apply (hreach_m_inv n st R). Qed.

(** ** The frame, slot by slot *)

Theorem histm_frame_slots : forall st o st', HInvM st -> mhop_pre st o -> hstep_m st o = Some st' ->
  forall x e, mhdst o <> Some x -> hget (s_handles (hm_s C st)) x = Some e ->
  hget (s_handles (hm_s C st')) x = Some e /\
  ref_ok (hm_s C st') (eref e) /\
  forall a, mfun_of (hm_s C st') (eref e) a = mfun_of (hm_s C st) (eref e) a.
Proof.
  intros st o st' I Pre E x e Hx Eg. destruct (step_ok st o I Pre) as [st1 [E1 [_ [[F1 [F2 _]] _]]]].
  rewrite E in E1. inversion E1; subst st1. split; [rewrite (F1 x Hx); exact Eg|].
  apply F2. exists (x, e). split; [apply hget_In; exact Eg | reflexivity].
Qed.

(** (3) along a whole history *)
Theorem histm_slot_stable : forall ops st st', HInvM st -> mhops_pre st ops -> hrun_m st ops = Some st' ->
  forall x e, (forall o, In o ops -> mhdst o <> Some x) ->
  hget (s_handles (hm_s C st)) x = Some e ->
  hget (s_handles (hm_s C st')) x = Some e /\
  ref_ok (hm_s C st') (eref e) /\
  forall a, mfun_of (hm_s C st') (eref e) a = mfun_of (hm_s C st) (eref e) a.
Proof.
  induction ops as [|o rest IH]; intros st st' I Pre E x e Hx Eg.
  - simpl in E. inversion E; subst st'. split; [exact Eg|]. split; [|reflexivity].
    apply (m_handle_ok _ (x, e) (hmi_ok C cget st I) (hget_In _ _ _ Eg)).
  - destruct Pre as [P0 Prest]. simpl in E.
    destruct (step_ok st o I P0) as [st1 [E1 [I1 _]]]. rewrite E1 in E.
    destruct (histm_frame_slots st o st1 I P0 E1 x e (Hx o (or_introl eq_refl)) Eg) as [G1 [_ F1]].
    destruct (IH st1 st' I1 (Prest st1 E1) E x e (fun o' Ho => Hx o' (or_intror Ho)) G1) as [G2 [O2 F2]].
    split; [exact G2|]. split; [exact O2|]. intros a. rewrite F2. apply F1.
Qed.

(** (3) C16 along a whole history: however many variables are added meanwhile
    (and whatever else happens), an existing handle denotes the function it
    denoted, which reads only the variables that existed then *)
Theorem histm_handle_function_fixed : forall ops st st', HInvM st -> mhops_pre st ops -> hrun_m st ops = Some st' ->
  forall x e, (forall o, In o ops -> mhdst o <> Some x) ->
  hget (s_handles (hm_s C st)) x = Some e ->
  hget (s_handles (hm_s C st')) x = Some e /\
  forall a a', (forall v, v < nlevels (hm_s C st) -> a v = a' v) ->
    mfun_of (hm_s C st') (eref e) a = mfun_of (hm_s C st) (eref e) a'.
Proof.
  intros ops st st' I Pre E x e Hx Eg.
  destruct (histm_slot_stable ops st st' I Pre E x e Hx Eg) as [G [_ F]].
  split; [exact G|]. intros a a' Hag. rewrite F.
  apply (mfun_of_local _ _ a a' (mo_wf _ (hmi_ok C cget st I)) Hag).
Qed.

(** (3) C16: [add_vars] changes no node, no terminal, no slot, and every
    function of the old table is the old function, which ignores the new variables *)
Theorem histm_add_vars : forall st k st', HInvM st -> hstep_m st (MHAddVars k) = Some st' ->
  HInvM st' /\
  nlevels (hm_s C st') = nlevels (hm_s C st) + k /\
  s_nodes (hm_s C st') = s_nodes (hm_s C st) /\
  s_terms (hm_s C st') = s_terms (hm_s C st) /\
  s_handles (hm_s C st') = s_handles (hm_s C st) /\
  (forall v, v < nlevels (hm_s C st) -> nth_error (s_v2l (hm_s C st')) v = nth_error (s_v2l (hm_s C st)) v) /\
  (forall i, i < k -> nth_error (s_v2l (hm_s C st')) (nlevels (hm_s C st) + i) = Some (nlevels (hm_s C st) + i)) /\
  forall r, ref_ok (hm_s C st) r ->
    ref_ok (hm_s C st') r /\
    forall a a', (forall v, v < nlevels (hm_s C st) -> a v = a' v) ->
      mfun_of (hm_s C st') r a = mfun_of (hm_s C st) r a'.
Proof.
  intros st k st' I E. destruct (step_ok st (MHAddVars k) I Logic.I) as [st1 [E1 [I1 _]]].
  rewrite E in E1. inversion E1; subst st1. split; [exact I1|].
  simpl in E. inversion E; subst st'. clear E E1. simpl.
  pose proof (mo_wf _ (hmi_ok C cget st I)) as H.
  assert (Lv : length (s_v2l (hm_s C st)) = nlevels (hm_s C st)) by (apply (wf_perm_len _ H)).
  rewrite widen_add_vars. split; [apply widen_nlevels|]. split; [reflexivity|]. split; [reflexivity|].
  split; [reflexivity|]. split; [|split].
  - intros v Hv. simpl. apply nth_error_app1. lia.
  - intros i Hi. simpl. rewrite (nth_error_app_seq _ _ k _ Lv).
    destruct (Nat.ltb_spec (nlevels (hm_s C st) + i) (nlevels (hm_s C st))); [lia|].
    destruct (Nat.ltb_spec (nlevels (hm_s C st) + i) (nlevels (hm_s C st) + k)); [reflexivity | lia].
  - intros r Ok. split; [apply ref_ok_widen; exact Ok|]. intros a a' Hag.
    rewrite (mfun_of_widen _ _ _ r a H Ok). apply (mfun_of_local _ r a a' H Hag).
Qed.

(** (3) C08: [set_var_order] changes no slot, no terminal and no function of the
    variables, and establishes the requested relative order *)
Theorem histm_reorder_keeps : forall st order st', HInvM st ->
  mhop_pre st (MHSetVarOrder order) -> hstep_m st (MHSetVarOrder order) = Some st' ->
  HInvM st' /\
  nlevels (hm_s C st') = nlevels (hm_s C st) /\
  s_handles (hm_s C st') = s_handles (hm_s C st) /\
  s_terms (hm_s C st') = s_terms (hm_s C st) /\
  (forall x e, hget (s_handles (hm_s C st)) x = Some e ->
     ref_ok (hm_s C st') (eref e) /\
     forall a, mfun_of (hm_s C st') (eref e) a = mfun_of (hm_s C st) (eref e) a) /\
  (forall a b, a < b < length order ->
     nth (nth a order 0) (s_v2l (hm_s C st')) 0 < nth (nth b order 0) (s_v2l (hm_s C st')) 0).
Proof.
  intros st order st' I Pre E. destruct (step_ok st _ I Pre) as [st1 [E1 [I1 [[_ [F2 _]] P]]]].
  rewrite E in E1. inversion E1; subst st1. simpl in P. destruct P as [P1 [P2 [P3 P4]]].
  split; [exact I1|]. split; [exact P1|]. split; [exact P2|]. split; [exact P3|]. split; [|exact P4].
  intros x e Eg. apply F2. exists (x, e). split; [apply hget_In; exact Eg | reflexivity].
Qed.

(** (3) C05 / C14 view: a collection keeps every slot and its function; whatever
    it keeps was there before and is referenced; the cache is emptied *)
Theorem histm_gc : forall st st', HInvM st -> hstep_m st MHGc = Some st' ->
  HInvM st' /\
  s_handles (hm_s C st') = s_handles (hm_s C st) /\
  (forall x e, hget (s_handles (hm_s C st)) x = Some e ->
     ref_ok (hm_s C st') (eref e) /\
     forall a, mfun_of (hm_s C st') (eref e) a = mfun_of (hm_s C st) (eref e) a) /\
  (forall id nd, find_node (hm_s C st') id = Some nd ->
     find_node (hm_s C st) id = Some nd /\ exists r, mroot st r /\ reachable (hm_s C st) [r] (RN id)) /\
  (forall t c, term_val (hm_s C st') t = Some c ->
     term_val (hm_s C st) t = Some c /\
     (mroot st (RT t) \/
      exists id nd e, find_node (hm_s C st') id = Some nd /\ In e (nchildren nd) /\ eref e = RT t)).
Proof.
  intros st st' I E. destruct (step_ok st MHGc I Logic.I) as [st1 [E1 [I1 [[_ [F2 _]] P]]]].
  rewrite E in E1. inversion E1; subst st1. simpl in P. destruct P as [P1 P2].
  split; [exact I1|]. split; [|split; [|split; [exact P1 | exact P2]]].
  - simpl in E. inversion E; subst st'. simpl. apply (mgc_facts _ (hmi_ok C cget st I)).
  - intros x e Eg. apply F2. exists (x, e). split; [apply hget_In; exact Eg | reflexivity].
Qed.

(** ** The request checker *)

Lemma moccupied_b_spec : forall st k, moccupied_b C st k = true <-> moccupied C st k.
Proof.
  intros st k. unfold moccupied_b, moccupied. destruct (mslot C st k) as [r|].
  - split; [eauto | reflexivity].
  - split; [discriminate | intros [r E]; discriminate].
Qed.

Theorem mhop_pre_b_sound : forall st o, HInvM st -> mhop_pre_b C st o = true -> mhop_pre st o.
Proof.
  intros st o I. pose proof (hmi_ok C cget st I) as B.
  destruct o; simpl;
    rewrite ?andb_true_iff, ?moccupied_b_spec, ?Nat.ltb_lt; try tauto.
  - (* MHConst *) apply wfb_true.
  - (* MHRestrict *)
    intros [A Hb]. split; [exact A|].
    destruct (mslot C st cube) as [vs|] eqn:Ev; [|discriminate Hb].
    destruct (cube_lits (S (nlevels (hm_s C st))) (hm_s C st) vs) as [lits|] eqn:El; [|discriminate Hb].
    exists vs, lits. split; [reflexivity|]. apply (cube_lits_sound _ B _ vs lits El).
  - (* MHSetVarOrder *)
    rewrite SortOrderProofs.order_ok_b_valid. unfold SortOrderProofs.valid_order. tauto.
Qed.

Theorem mhops_pre_b_sound : forall ops st, HInvM st ->
  mhops_pre_b gt C cget cadd cempty st ops = true -> mhops_pre st ops.
Proof.
  induction ops as [|o rest IH]; intros st I Hb; simpl in *; [exact Logic.I|].
  apply andb_true_iff in Hb. destruct Hb as [A B0].
  pose proof (mhop_pre_b_sound st o I A) as P0. split; [exact P0|].
  intros st1 E. rewrite E in B0. destruct (step_ok st o I P0) as [st2 [E2 [I2 _]]].
  rewrite E in E2. inversion E2; subst st2. apply (IH st1 I2 B0).
Qed.

(** a history accepted by the checker runs to completion, in a reachable state *)
Theorem hrun_m_checked : forall n ops, mhops_pre_b gt C cget cadd cempty (hinit_m n) ops = true ->
  exists st, hrun_m (hinit_m n) ops = Some st /\ hreach_m n st.
Proof.
  intros n ops Hb. pose proof (mhops_pre_b_sound ops (hinit_m n) (hinit_m_inv n) Hb) as P.
  destruct (hrun_m_ok ops (hinit_m n) (hinit_m_inv n) P) as [st [E _]].
  exists st. split; [exact E|]. exists ops. auto.
Qed.

End ThmsM.
