(** * Every branch of [hstep_m] IS the executable model that is compared with the real code

    [hstep_m] (Mgr/HistoryM.v) was written by putting the existing MTBDD models
    together.  This file states that composition as equations.  The
    right-hand sides are exactly the functions extracted for and replayed by
    the drivers:

    - [mt_const], [mt_var], [mt_apply_bin], [mt_apply_ite], [mt_restrict],
      [cube_lits] (coq/Extract/ExC10b.v; ./check C10 second pass: every operation of
      the mtbdd traces replayed on the real operand edges);
    - [set_var_order_model] (coq/Extract/ExDD.v; ./check C08: MTBDD reorderings
      replayed swap by swap); [MHAddVars] is [add_levels] of DD/ZbddVars.v (./check C09;
      the map update does not depend on the kind);
    - [MHGc]: the inner part is [collected] of Mgr/OomGc.v ([gc_model_collected]); a
      terminal survives iff a handle or a surviving node refers to it - the
      statement proved for the reference-counted collector in C05
      ([C05_term_collect_exact], Mgr/TerminalsGc.v; `ocaml/tmgr.ml` audits the
      terminals of every MTBDD snapshot after a GC).

    The only glue not covered by one of those runs: reading operands from /
    storing the result into slots ([mslot], [put]) and the choice "cache kept /
    cache cleared". *)

From Coq Require Import List NArith ZArith PArith Bool Arith FMapPositive.
From OxiVerif Require Import DD.Table DD.TableProofs DD.Sem DD.Build DD.Apply DD.ConfigApply DD.ZbddVars
  Num.I64 DD.ApplyMtbdd Mgr.SortOrder Mgr.LevelSwap Mgr.OomGc Mgr.History Mgr.HistoryGc Mgr.HistoryM Mgr.HistoryMBase.
Import ListNotations.

Local Arguments hget : simpl never.
Local Arguments mt_apply_bin : simpl never.
Local Arguments mt_apply_ite : simpl never.
Local Arguments mt_restrict : simpl never.
Local Arguments gc_model : simpl never.
Local Arguments set_var_order_model : simpl never.

Section TieM.
Variable gt : ref -> ref -> bool.
Variable C : Type.
Variable cget : C -> N -> list ref -> option ref.
Variable cadd : C -> N -> list ref -> ref -> C.
Variable cempty : C.

Notation hstep_m := (hstep_m gt C cget cadd cempty).
Notation FUELM st := (S (nlevels (hm_s C st))).

Theorem hstep_m_const : forall st d v, wfb v = true ->
  hstep_m st (MHConst d v) =
  Some (mkHM C (put (fst (mt_const (hm_s C st) v)) d (snd (mt_const (hm_s C st) v))) (hm_c C st)).
Proof. intros st d v Hv. simpl. rewrite Hv. destruct (mt_const (hm_s C st) v). reflexivity. Qed.

Theorem hstep_m_var : forall st d v,
  hstep_m st (MHVar d v) =
  match mt_var (hm_s C st) v with
  | Some (s', r) => Some (mkHM C (put s' d r) (hm_c C st))
  | None => None
  end.
Proof. reflexivity. Qed.

Theorem hstep_m_bin : forall st op d a b f g, mslot C st a = Some f -> mslot C st b = Some g ->
  hstep_m st (MHBin op d a b) = mfinish C d (mt_apply_bin gt C cget cadd (FUELM st) (hm_s C st) (hm_c C st) op f g).
Proof. intros st op d a b f g Ef Eg. simpl. rewrite Ef, Eg. reflexivity. Qed.

Theorem hstep_m_ite : forall st d a b c f g h,
  mslot C st a = Some f -> mslot C st b = Some g -> mslot C st c = Some h ->
  hstep_m st (MHIte d a b c) = mfinish C d (mt_apply_ite C cget cadd (FUELM st) (hm_s C st) (hm_c C st) f g h).
Proof. intros st d a b c f g h Ef Eg Eh. simpl. rewrite Ef, Eg, Eh. reflexivity. Qed.

Theorem hstep_m_restrict : forall st d a cube f vs, mslot C st a = Some f -> mslot C st cube = Some vs ->
  hstep_m st (MHRestrict d a cube) = mfinish C d (mt_restrict C cget cadd (FUELM st) (hm_s C st) (hm_c C st) f vs).
Proof. intros st d a cube f vs Ef Ev. simpl. rewrite Ef, Ev. reflexivity. Qed.

(** [add_vars] is the map update of C09's [add_levels] *)
Theorem hstep_m_add_vars : forall st k,
  hstep_m st (MHAddVars k) = Some (mkHM C (add_levels (hm_s C st) k) (hm_c C st)).
Proof. reflexivity. Qed.

(** a reordering that does anything is the model of C08 on the current table *)
Theorem hstep_m_reorder : forall st order st', hstep_m st (MHSetVarOrder order) = Some st' ->
  st' = st \/ st' = mkHM C (set_var_order_model (hm_s C st) order) cempty.
Proof.
  intros st order st' E. simpl in E.
  destruct (Nat.leb (length order) 1); [inversion E; left; reflexivity|].
  destruct (order_ok_b (nlevels (hm_s C st)) order); [|discriminate].
  destruct (nat_list_eqb _ _); inversion E; [left | right]; reflexivity.
Qed.

(** garbage collection: the reachable inner part, then the referenced terminals *)
Theorem hstep_m_gc : forall st, WF (hm_s C st) ->
  exists sg, hstep_m st MHGc = Some (mkHM C (gc_terms sg) cempty) /\ collected (hm_s C st) sg /\
    forall t, term_val (gc_terms sg) t = if term_used sg t then term_val (hm_s C st) t else None.
Proof.
  intros st H. exists (gc_model (hm_s C st)). split; [reflexivity|].
  pose proof (gc_model_collected _ H) as Cg. split; [exact Cg|].
  intros t. rewrite term_val_gc_terms. unfold term_val. rewrite (co_terms _ _ Cg). reflexivity.
Qed.

End TieM.
