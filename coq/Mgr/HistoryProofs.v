(** * The invariant of the manager state machine and its preservation by every call

    [HInv st]: the table is a well-formed BDD table with both terminals
    ([BddOK], which includes: every handle slot refers to a stored node or
    terminal), the apply cache serves only correct entries for all operator
    kinds ([QCacheOK]), every substitution object names existing variables
    (each once) and stored functions, and the id counter is above all ids in
    use.

    [hstep_ok]: for every state satisfying [HInv], every configuration
    (operand order [gt], any [lossy] cache with any content that satisfies the
    cache invariant) and every well-formed request ([hop_pre]: the operand
    slots are occupied, variables exist, a requested order names no variable
    twice), the call
    - runs to completion ([hstep] is not [None]: none of the code's [unwrap]s fires),
    - re-establishes [HInv],
    - [hframe]: changes no slot other than its destination, and every function
      held by a slot or by a substitution object before the call is still
      stored and denotes the same function of the variables,
    - [hpost]: leaves in its destination the spec function (DD/Sem.v) of the
      operands' functions at the time of the call. *)

From Coq Require Import List NArith PArith Bool Arith Lia FMapPositive.
From OxiVerif Require Import DD.Table DD.TableProofs DD.Canon DD.Sem DD.Build DD.BuildProofs
  DD.Apply DD.ApplyProofs DD.ApplyEvalProofs DD.ConfigApply DD.ConfigRun
  DD.Quant DD.QuantSpecProofs DD.QuantLemmas DD.QuantProofs DD.RestrictProofs DD.SubstProofs
  DD.ApplyQuantProofs DD.QuantTopProofs
  DD.FamSpecProofs Mgr.SortOrder Mgr.SortOrderProofs Mgr.LevelSwap Mgr.LevelSwapOrder Mgr.OomGc
  Mgr.History Mgr.HistoryBase Mgr.HistoryGc Mgr.HistoryReorder.
Import ListNotations.

Local Arguments hset : simpl never.
Local Arguments hget : simpl never.
Local Arguments hdel : simpl never.
Local Arguments bfun_of : simpl never.

Definition hpairs_wf (s : snap) (pairs : hpairs) : Prop :=
  NoDup (map fst pairs) /\ forall v r, In (v, r) pairs -> v < nlevels s /\ ref_ok s r.

Lemma hreg_fn_In : forall reg id pairs, hreg_fn reg id = Some pairs -> In (id, pairs) reg.
Proof.
  induction reg as [|[i p] r IH]; intros id pairs E; simpl in E; [discriminate|].
  destruct (N.eqb_spec id i) as [->|Hne]; [inversion E; subst; left; reflexivity | right; auto].
Qed.

Lemma reg_roots_In : forall reg h,
  In h (reg_roots reg) <-> exists id pairs v r, In (id, pairs) reg /\ In (v, r) pairs /\ h = (id, E r).
Proof.
  intros reg h. unfold reg_roots. rewrite in_flat_map. split.
  - intros [[id pairs] [Hin Hm]]. simpl in Hm. apply in_map_iff in Hm. destruct Hm as [[v r] [<- Hp]].
    exists id, pairs, v, r. auto.
  - intros [id [pairs [v [r [Hin [Hp ->]]]]]]. exists (id, pairs). split; [exact Hin|].
    simpl. apply in_map_iff. exists (v, r). auto.
Qed.

Lemma hpairs_wf_extends : forall s s' pairs, extends s s' -> hpairs_wf s pairs -> hpairs_wf s' pairs.
Proof.
  intros s s' pairs X [Hnd Hp]. split; [exact Hnd|]. intros v r Hin.
  destruct (Hp v r Hin) as [A B]. split; [rewrite (ext_nlevels _ _ X); exact A | apply (ext_ref_ok _ _ _ X B)].
Qed.

Lemma hpairs_wf_widen : forall s k hs pairs, hpairs_wf s pairs -> hpairs_wf (widen s k hs) pairs.
Proof.
  intros s k hs pairs [Hnd Hp]. split; [exact Hnd|]. intros v r Hin.
  destruct (Hp v r Hin) as [A B]. split; [rewrite widen_nlevels; lia | apply ref_ok_widen; exact B].
Qed.

Section Hist.
Variable gt : ref -> ref -> bool.
Variable C : Type.
Variable cget : C -> N -> list ref -> option ref.
Variable cadd : C -> N -> list ref -> ref -> C.
Hypothesis Hlossy : lossy cget cadd.
Variable cempty : C.
Hypothesis Hempty : forall k a, cget cempty k a = None.

Notation hstate := (hstate C).
Notation hstep := (hstep gt C cget cadd cempty).
Notation hrun := (hrun gt C cget cadd cempty).
Notation mkH := (mkH C).
Notation QOK reg := (QCacheOK cget (hreg_fn reg)).

Record HInv (st : hstate) : Prop := mkHInv {
  hi_bdd : BddOK (h_s C st);
  hi_cache : QOK (h_reg C st) (h_s C st) (h_c C st);
  hi_reg : forall id pairs, In (id, pairs) (h_reg C st) -> hpairs_wf (h_s C st) pairs;
  hi_fresh : forall id pairs, In (id, pairs) (h_reg C st) -> (id < h_next C st)%N
}.

(** everything a client still holds: the edges in the slots and the
    replacement functions inside the substitution objects *)
Definition hroot (st : hstate) (r : ref) : Prop :=
  (exists h, In h (s_handles (h_s C st)) /\ eref (snd h) = r) \/
  (exists id pairs v, In (id, pairs) (h_reg C st) /\ In (v, r) pairs).

Lemma hroot_ok : forall st r, HInv st -> hroot st r -> ref_ok (h_s C st) r.
Proof.
  intros st r I [[h [Hin <-]]|[id [pairs [v [Hin Hp]]]]].
  - apply (wf_handles _ (bo_wf _ (hi_bdd st I)) h Hin).
  - apply (proj2 (hi_reg st I id pairs Hin) v r Hp).
Qed.

Lemma hslot_root : forall st k r, hslot C st k = Some r -> hroot st r.
Proof.
  intros st k r E. unfold hslot in E.
  destruct (hget (s_handles (h_s C st)) k) as [e|] eqn:Eg; [|discriminate]. inversion E; subst.
  left. exists (k, e). split; [apply hget_In; exact Eg | reflexivity].
Qed.

Lemma hslot_ok : forall st k r, HInv st -> hslot C st k = Some r -> ref_ok (h_s C st) r.
Proof. intros st k r I E. apply (hroot_ok st r I). apply (hslot_root st k r E). Qed.

Lemma qok_empty : forall reg s, QOK reg s cempty.
Proof. intros reg s. split; intros code args r E; rewrite Hempty in E; discriminate. Qed.

Lemma pairs_range : forall st, HInv st ->
  forall id pairs, hreg_fn (h_reg C st) id = Some pairs -> pairs_in_range (h_s C st) pairs.
Proof.
  intros st I id pairs E v r Hin.
  apply (proj2 (hi_reg st I id pairs (hreg_fn_In _ _ _ E)) v r Hin).
Qed.

(** ** Well-formed requests *)

Definition occupied (st : hstate) (k : N) : Prop := exists r, hslot C st k = Some r.

Definition hop_pre (st : hstate) (o : hop) : Prop :=
  match o with
  | HConst _ _ => True
  | HVar _ v _ => v < nlevels (h_s C st)
  | HNot _ a => occupied st a
  | HBin _ _ a b => occupied st a /\ occupied st b
  | HIte _ a b c => occupied st a /\ occupied st b /\ occupied st c
  | HQuant _ _ a vars => occupied st a /\ occupied st vars
  | HApplyQuant _ _ _ a b vars => occupied st a /\ occupied st b /\ occupied st vars
  | HRestrict _ a cube => occupied st a /\ occupied st cube
  | HNewSubst pairs =>
    NoDup (map fst pairs) /\
    forall v k, In (v, k) pairs -> v < nlevels (h_s C st) /\ occupied st k
  | HSubst _ a id => occupied st a /\ exists pairs, hreg_fn (h_reg C st) id = Some pairs
  | HClone _ a => occupied st a
  | HDrop _ => True
  | HGc => True
  | HAddVars _ => True
  | HSetVarOrder order => NoDup order /\ Forall (fun v => v < nlevels (h_s C st)) order
  end.

(** ** The frame *)

Definition order_same (s s' : snap) : Prop := s_l2v s' = s_l2v s /\ s_v2l s' = s_v2l s.

Definition changes_order (o : hop) : bool :=
  match o with HAddVars _ | HSetVarOrder _ => true | _ => false end.

Definition hframe (st : hstate) (o : hop) (st' : hstate) : Prop :=
  (forall x, hdst o <> Some x ->
     hget (s_handles (h_s C st')) x = hget (s_handles (h_s C st)) x) /\
  (forall r, hroot st r ->
     ref_ok (h_s C st') r /\ forall a, bfun_of (h_s C st') r a = bfun_of (h_s C st) r a) /\
  (changes_order o = false -> order_same (h_s C st) (h_s C st')).

(** ** What the destination holds afterwards *)

Definition holds (st : hstate) (d : N) (F : bfun) : Prop :=
  exists r, hslot C st d = Some r /\ forall a, bfun_of (h_s C st) r a = F a.

Definition hpost (st : hstate) (o : hop) (st' : hstate) : Prop :=
  let s := h_s C st in
  match o with
  | HConst d b => holds st' d (const_s b)
  | HVar d v neg => holds st' d (fun a => xorb neg (var_s v a))
  | HNot d x =>
    exists f, hslot C st x = Some f /\ holds st' d (lift1 negb (bfun_of s f))
  | HBin op d x y =>
    exists f g, hslot C st x = Some f /\ hslot C st y = Some g /\
      holds st' d (lift2 op (bfun_of s f) (bfun_of s g))
  | HIte d x y z =>
    exists f g h, hslot C st x = Some f /\ hslot C st y = Some g /\ hslot C st z = Some h /\
      holds st' d (ite_s (bfun_of s f) (bfun_of s g) (bfun_of s h))
  | HQuant q d x vars =>
    exists f V, hslot C st x = Some f /\ hslot C st vars = Some V /\
      forall vs, (forall v, In v vs -> v < nlevels s) -> is_varset s V vs -> (q = QUnique -> NoDup vs) ->
        holds st' d (quant (qfun q) vs (bfun_of s f))
  | HApplyQuant q op d x y vars =>
    exists f g V, hslot C st x = Some f /\ hslot C st y = Some g /\ hslot C st vars = Some V /\
      forall vs, (forall v, In v vs -> v < nlevels s) -> is_varset s V vs -> (q = QUnique -> NoDup vs) ->
        holds st' d (quant (qfun q) vs (lift2 op (bfun_of s f) (bfun_of s g)))
  | HRestrict d x cube =>
    exists f V, hslot C st x = Some f /\ hslot C st cube = Some V /\
      forall lits, NoDup (map fst lits) -> (forall p, In p lits -> fst p < nlevels s) -> is_cube s V lits ->
        holds st' d (restrict_s lits (bfun_of s f))
  | HNewSubst pairs =>
    exists rp, resolve_pairs (s_handles s) pairs = Some rp /\
      hreg_fn (h_reg C st') (h_next C st) = Some rp /\ h_next C st' = N.succ (h_next C st) /\
      (forall id, id <> h_next C st -> hreg_fn (h_reg C st') id = hreg_fn (h_reg C st) id) /\
      h_s C st' = s
  | HSubst d x id =>
    exists f rp, hslot C st x = Some f /\ hreg_fn (h_reg C st) id = Some rp /\
      holds st' d (subst_s (map (fun p => (fst p, bfun_of s (snd p))) rp) (bfun_of s f))
  | HClone d x => hget (s_handles (h_s C st')) d = hget (s_handles s) x /\ occupied st' d
  | HDrop x => hget (s_handles (h_s C st')) x = None /\ s_nodes (h_s C st') = s_nodes s
  | HGc =>
    (forall id nd, find_node (h_s C st') id = Some nd ->
       find_node s id = Some nd /\ exists r, hroot st r /\ reachable s [r] (RN id))
  | HAddVars k =>
    s_l2v (h_s C st') = s_l2v s ++ seq (nlevels s) k /\
    s_v2l (h_s C st') = s_v2l s ++ seq (nlevels s) k /\ s_nodes (h_s C st') = s_nodes s
  | HSetVarOrder order =>
    nlevels (h_s C st') = nlevels s /\
    forall a b, a < b < length order ->
      nth (nth a order 0) (s_v2l (h_s C st')) 0 < nth (nth b order 0) (s_v2l (h_s C st')) 0
  end.

(** for every call except the registry update the registry is untouched *)
Definition reg_same (st st' : hstate) : Prop :=
  h_reg C st' = h_reg C st /\ h_next C st' = h_next C st.

(** ** Storing the result of an algorithm *)

Lemma hinv_put : forall st s' c' d r, HInv st ->
  BddOK s' -> extends (h_s C st) s' -> QOK (h_reg C st) s' c' -> ref_ok s' r ->
  HInv (mkH (put s' d r) c' (h_reg C st) (h_next C st)).
Proof.
  intros st s' c' d r I B' X Q' Or. constructor; simpl.
  - apply bddok_put; assumption.
  - unfold put. rewrite widen_set_handles. apply qcacheok_widen; [apply (bo_wf s' B') | | exact Q'].
    intros id pairs E v r0 Hin. rewrite (ext_nlevels _ _ X). apply (pairs_range st I id pairs E v r0 Hin).
  - intros id pairs Hin. unfold put. rewrite widen_set_handles. apply hpairs_wf_widen.
    apply (hpairs_wf_extends (h_s C st) s' pairs X). apply (hi_reg st I id pairs Hin).
  - apply (hi_fresh st I).
Qed.

Lemma frame_put : forall st o s' c' d r, HInv st -> hdst o = Some d ->
  extends (h_s C st) s' ->
  hframe st o (mkH (put s' d r) c' (h_reg C st) (h_next C st)).
Proof.
  intros st o s' c' d r I Hd X. split; [|split]; simpl.
  3: { intros _. split; [apply (ext_l2v _ _ X) | apply (ext_v2l _ _ X)]. }
  - intros x Hx. rewrite Hd in Hx. unfold put. simpl.
    rewrite hget_hset_other by congruence. rewrite (ext_handles _ _ X). reflexivity.
  - intros r0 Hr. pose proof (hroot_ok st r0 I Hr) as Ok. split.
    + unfold put. apply (ext_ref_ok _ _ _ X Ok).
    + intros a. unfold put. rewrite bfun_of_set_handles.
      apply (bfun_of_extends _ _ _ _ (bo_wf _ (hi_bdd st I)) X Ok).
Qed.

Lemma holds_put : forall s' c' reg nx d r F, (forall a, bfun_of s' r a = F a) ->
  holds (mkH (put s' d r) c' reg nx) d F.
Proof.
  intros s' c' reg nx d r F HF. exists r. split.
  - unfold hslot, put. simpl. rewrite hget_hset_same. reflexivity.
  - intros a. simpl. unfold put. rewrite bfun_of_set_handles. apply HF.
Qed.

(** the common part of all calls that run an algorithm and store its result *)
Lemma finish_ok : forall st o d res s' c' r, HInv st -> hdst o = Some d ->
  res = Some (s', c', r) ->
  BddOK s' -> extends (h_s C st) s' -> QOK (h_reg C st) s' c' -> ref_ok s' r ->
  exists st', hfinish C st d res = Some st' /\ HInv st' /\ hframe st o st' /\ reg_same st st' /\
    forall F, (forall a, bfun_of s' r a = F a) -> holds st' d F.
Proof.
  intros st o d res s' c' r I Hd -> B' X Q' Or. simpl.
  eexists. split; [reflexivity|]. split; [apply hinv_put; assumption|].
  split; [apply frame_put; assumption|]. split; [split; reflexivity|].
  intros F HF. apply holds_put. exact HF.
Qed.

(** from a level-indexed denotation of the result to its function over variables *)
Lemma den_to_bfun : forall s s' r Phi a, extends s s' -> Den s' r Phi ->
  bfun_of s' r a = Phi (choice_of s a).
Proof.
  intros s s' r Phi a X D. rewrite (bfun_of_den s' r Phi D). unfold choice_of.
  rewrite (ext_l2v _ _ X). reflexivity.
Qed.

(** ** One call *)

Theorem hstep_ok : forall st o, HInv st -> hop_pre st o ->
  exists st', hstep st o = Some st' /\ HInv st' /\ hframe st o st' /\ hpost st o st'.
Proof.
  intros st o I Pre. pose proof (hi_bdd st I) as B. pose proof (hi_cache st I) as Q.
  pose proof (bo_wf _ B) as H.
  destruct o as [d b|d v neg|d x|op d x y|d x y z|q d x vars|q op d x y vars|d x cube|pairs|d x id
                 |d x|x| |k|order]; simpl in Pre; simpl hstep.
  - (* HConst *)
    destruct (mk_const_sem _ b B) as [r [E D]]. rewrite E.
    destruct (finish_ok st (HConst d b) d (Some (h_s C st, h_c C st, r)) _ _ r I eq_refl eq_refl B
                (extends_refl _) Q (proj1 D)) as [st' [E' [I' [F' [_ P']]]]].
    simpl in E'. inversion E'; subst st'. eexists. split; [reflexivity|]. split; [exact I'|].
    split; [exact F'|]. simpl. apply P'. intros a. rewrite (bfun_of_den _ r _ D). reflexivity.
  - (* HVar *)
    destruct (mk_var_bfun _ v neg B Pre) as [s' [r [E [B' [X [Or S]]]]]]. rewrite E.
    destruct (finish_ok st (HVar d v neg) d (Some (s', h_c C st, r)) _ _ r I eq_refl eq_refl B' X
                (qcacheok_extends C cget _ _ s' _ B X Q) Or) as [st' [E' [I' [F' [_ P']]]]].
    simpl in E'. inversion E'; subst st'. eexists. split; [reflexivity|]. split; [exact I'|].
    split; [exact F'|]. simpl. apply P'. exact S.
  - (* HNot *)
    destruct Pre as [f Ef]. rewrite Ef. pose proof (hslot_ok st x f I Ef) as Of.
    destruct (den_exists _ f B Of) as [phi Df].
    destruct (q_apply_not C cget cadd Hlossy (hreg_fn (h_reg C st)) _ (h_c C st) f phi B Q Df)
      as [s' [c' [r [E [B' [X [Q' D']]]]]]].
    destruct (finish_ok st (HNot d x) d _ s' c' r I eq_refl E B' X Q' (proj1 D'))
      as [st' [E' [I' [F' [_ P']]]]].
    exists st'. split; [exact E'|]. split; [exact I'|]. split; [exact F'|].
    simpl. exists f. split; [exact Ef|]. apply P'. intros a.
    rewrite (den_to_bfun _ s' r _ a X D'). unfold lift1. rewrite (bfun_of_den _ f phi Df). reflexivity.
  - (* HBin *)
    destruct Pre as [[f Ef] [g Eg]]. rewrite Ef, Eg.
    pose proof (hslot_ok st x f I Ef) as Of. pose proof (hslot_ok st y g I Eg) as Og.
    destruct (den_exists _ f B Of) as [phi Df]. destruct (den_exists _ g B Og) as [psi Dg].
    destruct (q_apply_bin gt C cget cadd Hlossy (hreg_fn (h_reg C st)) op _ (h_c C st) f g phi psi B Q Df Dg)
      as [s' [c' [r [E [B' [X [Q' D']]]]]]].
    destruct (finish_ok st (HBin op d x y) d _ s' c' r I eq_refl E B' X Q' (proj1 D'))
      as [st' [E' [I' [F' [_ P']]]]].
    exists st'. split; [exact E'|]. split; [exact I'|]. split; [exact F'|].
    simpl. exists f, g. split; [exact Ef|]. split; [exact Eg|]. apply P'. intros a.
    rewrite (den_to_bfun _ s' r _ a X D'). unfold lift2.
    rewrite (bfun_of_den _ f phi Df), (bfun_of_den _ g psi Dg). reflexivity.
  - (* HIte *)
    destruct Pre as [[f Ef] [[g Eg] [h Eh]]]. rewrite Ef, Eg, Eh.
    pose proof (hslot_ok st x f I Ef) as Of. pose proof (hslot_ok st y g I Eg) as Og.
    pose proof (hslot_ok st z h I Eh) as Oh.
    destruct (den_exists _ f B Of) as [phi Df]. destruct (den_exists _ g B Og) as [psi Dg].
    destruct (den_exists _ h B Oh) as [theta Dh].
    destruct (q_apply_ite gt C cget cadd Hlossy (hreg_fn (h_reg C st)) _ (h_c C st) f g h phi psi theta
                B Q Df Dg Dh) as [s' [c' [r [E [B' [X [Q' D']]]]]]].
    destruct (finish_ok st (HIte d x y z) d _ s' c' r I eq_refl E B' X Q' (proj1 D'))
      as [st' [E' [I' [F' [_ P']]]]].
    exists st'. split; [exact E'|]. split; [exact I'|]. split; [exact F'|].
    simpl. exists f, g, h. split; [exact Ef|]. split; [exact Eg|]. split; [exact Eh|]. apply P'. intros a.
    rewrite (den_to_bfun _ s' r _ a X D'). unfold ite_s.
    rewrite (bfun_of_den _ f phi Df), (bfun_of_den _ g psi Dg), (bfun_of_den _ h theta Dh). reflexivity.
  - (* HQuant *)
    destruct Pre as [[f Ef] [V Ev]]. rewrite Ef, Ev.
    pose proof (hslot_ok st x f I Ef) as Of. pose proof (hslot_ok st vars V I Ev) as Ov.
    destruct (quant_edge_total gt C cget cadd Hlossy _ q _ (h_c C st) f V B Q Of Ov)
      as [s' [c' [r [E [B' [X [Q' [Or S]]]]]]]].
    destruct (finish_ok st (HQuant q d x vars) d _ s' c' r I eq_refl E B' X Q' Or)
      as [st' [E' [I' [F' [_ P']]]]].
    exists st'. split; [exact E'|]. split; [exact I'|]. split; [exact F'|].
    simpl. exists f, V. split; [exact Ef|]. split; [exact Ev|].
    intros vs Hlt Hvs Hu. apply P'. apply (S vs Hlt Hvs Hu).
  - (* HApplyQuant *)
    destruct Pre as [[f Ef] [[g Eg] [V Ev]]]. rewrite Ef, Eg, Ev.
    pose proof (hslot_ok st x f I Ef) as Of. pose proof (hslot_ok st y g I Eg) as Og.
    pose proof (hslot_ok st vars V I Ev) as Ov.
    destruct (apply_quant_edge_total gt C cget cadd Hlossy _ q op _ (h_c C st) f g V B Q Of Og Ov)
      as [s' [c' [r [E [B' [X [Q' [Or S]]]]]]]].
    destruct (finish_ok st (HApplyQuant q op d x y vars) d _ s' c' r I eq_refl E B' X Q' Or)
      as [st' [E' [I' [F' [_ P']]]]].
    exists st'. split; [exact E'|]. split; [exact I'|]. split; [exact F'|].
    simpl. exists f, g, V. split; [exact Ef|]. split; [exact Eg|]. split; [exact Ev|].
    intros vs Hlt Hvs Hu. apply P'. apply (S vs Hlt Hvs Hu).
  - (* HRestrict *)
    destruct Pre as [[f Ef] [V Ev]]. rewrite Ef, Ev.
    pose proof (hslot_ok st x f I Ef) as Of. pose proof (hslot_ok st cube V I Ev) as Ov.
    destruct (restrict_edge_total C cget cadd Hlossy _ _ (h_c C st) f V B Q Of Ov)
      as [s' [c' [r [E [B' [X [Q' [Or S]]]]]]]].
    destruct (finish_ok st (HRestrict d x cube) d _ s' c' r I eq_refl E B' X Q' Or)
      as [st' [E' [I' [F' [_ P']]]]].
    exists st'. split; [exact E'|]. split; [exact I'|]. split; [exact F'|].
    simpl. exists f, V. split; [exact Ef|]. split; [exact Ev|].
    intros lits Hnd Hlt Hc. apply P'. apply (S lits Hnd Hlt Hc).
  - (* HNewSubst *)
    destruct Pre as [Hnd Hp].
    assert (R : exists rp, resolve_pairs (s_handles (h_s C st)) pairs = Some rp /\
                           map fst rp = map fst pairs /\
                           forall v r, In (v, r) rp -> v < nlevels (h_s C st) /\ hroot st r).
    { clear Hnd. induction pairs as [|[v k] rest IH]; [exists []; simpl; split; [reflexivity|]; split; [reflexivity | intros ? ? []]|].
      destruct (Hp v k (or_introl eq_refl)) as [Hv [r Er]].
      destruct IH as [rp [E1 [E2 E3]]]; [intros v0 k0 Hin; apply Hp; right; exact Hin|].
      simpl. unfold hslot in Er. destruct (hget (s_handles (h_s C st)) k) as [e|] eqn:Eg; [|discriminate].
      rewrite E1. exists ((v, eref e) :: rp). split; [reflexivity|]. split; [simpl; rewrite E2; reflexivity|].
      intros v0 r0 [Heq|Hin]; [|apply E3; exact Hin]. inversion Heq; subst. split; [exact Hv|].
      left. exists (k, e). split; [apply hget_In; exact Eg | reflexivity]. }
    destruct R as [rp [E1 [E2 E3]]]. rewrite E1.
    assert (Hfresh : hreg_fn (h_reg C st) (h_next C st) = None).
    { destruct (hreg_fn (h_reg C st) (h_next C st)) as [p|] eqn:Ex; [|reflexivity].
      pose proof (hi_fresh st I _ _ (hreg_fn_In _ _ _ Ex)). lia. }
    eexists. split; [reflexivity|]. split; [|split].
    + constructor; simpl.
      * exact B.
      * apply (qcacheok_register C cget (hreg_fn (h_reg C st)) _ (h_c C st) (h_next C st) rp Q Hfresh).
      * intros id p [Heq|Hin]; [|apply (hi_reg st I id p Hin)]. inversion Heq; subst.
        split; [rewrite E2; exact Hnd|]. intros v r Hin. destruct (E3 v r Hin) as [A Rt].
        split; [exact A | apply (hroot_ok st r I Rt)].
      * intros id p [Heq|Hin]; [inversion Heq; subst; lia|]. pose proof (hi_fresh st I id p Hin). lia.
    + split; [|split]; simpl.
      * intros x _. reflexivity.
      * intros r Hr. split; [apply (hroot_ok st r I Hr) | reflexivity].
      * intros _. split; reflexivity.
    + simpl. exists rp. split; [exact E1|]. split; [rewrite N.eqb_refl; reflexivity|].
      split; [reflexivity|]. split; [|reflexivity].
      intros id Hne. destruct (N.eqb_spec id (h_next C st)); [contradiction | reflexivity].
  - (* HSubst *)
    destruct Pre as [[f Ef] [rp Er]]. rewrite Ef, Er.
    pose proof (hslot_ok st x f I Ef) as Of.
    destruct (hi_reg st I id rp (hreg_fn_In _ _ _ Er)) as [Hnd Hp].
    destruct (substitute_edge_sound gt C cget cadd Hlossy _ _ (h_c C st) f rp id B Q Of Hnd Hp Er)
      as [s' [c' [r [E [B' [X [Q' [Or S]]]]]]]].
    destruct (finish_ok st (HSubst d x id) d _ s' c' r I eq_refl E B' X Q' Or)
      as [st' [E' [I' [F' [_ P']]]]].
    exists st'. split; [exact E'|]. split; [exact I'|]. split; [exact F'|].
    simpl. exists f, rp. split; [exact Ef|]. split; [exact Er|]. apply P'. exact S.
  - (* HClone *)
    destruct Pre as [f Ef]. rewrite Ef. pose proof (hslot_ok st x f I Ef) as Of.
    destruct (finish_ok st (HClone d x) d (Some (h_s C st, h_c C st, f)) _ _ f I eq_refl eq_refl B
                (extends_refl _) Q Of) as [st' [E' [I' [F' [_ P']]]]].
    simpl in E'. inversion E'; subst st'. eexists. split; [reflexivity|]. split; [exact I'|].
    split; [exact F'|]. simpl. unfold put. simpl. rewrite hget_hset_same.
    unfold hslot in Ef. destruct (hget (s_handles (h_s C st)) x) as [e|] eqn:Eg; [|discriminate].
    inversion Ef; subst. split.
    + f_equal. apply edge_ext; [reflexivity|]. simpl. symmetry.
      apply (bdd_handle_ok _ (x, e) B (hget_In _ _ _ Eg)).
    + exists (eref e). unfold hslot. simpl. rewrite hget_hset_same. reflexivity.
  - (* HDrop *)
    eexists. split; [reflexivity|]. split; [|split].
    + constructor; simpl.
      * apply bddok_drop. exact B.
      * rewrite widen_set_handles. apply qcacheok_widen; [exact H | apply (pairs_range st I) | exact Q].
      * intros id p Hin. rewrite widen_set_handles. apply hpairs_wf_widen. apply (hi_reg st I id p Hin).
      * apply (hi_fresh st I).
    + split; [|split]; simpl.
      * intros y Hy. apply hget_hdel_other. congruence.
      * intros r Hr. split; [apply (hroot_ok st r I Hr) | intros a; apply bfun_of_set_handles].
      * intros _. split; reflexivity.
    + simpl. split; [apply hget_hdel_same | reflexivity].
  - (* HGc *)
    set (s1 := with_roots C st).
    assert (Hroots : forall h, In h (s_handles s1) <->
              In h (s_handles (h_s C st)) \/ In h (reg_roots (h_reg C st))).
    { intros h. unfold s1, with_roots. simpl. apply in_app_iff. }
    assert (Hrt : forall r, hroot st r <-> exists h, In h (s_handles s1) /\ eref (snd h) = r).
    { intros r. split.
      - intros [[h [Hin E]]|[id [p [v [Hin Hp]]]]].
        + exists h. split; [apply Hroots; left; exact Hin | exact E].
        + exists (id, Build.E r). split; [|reflexivity]. apply Hroots. right. apply reg_roots_In.
          exists id, p, v, r. auto.
      - intros [h [Hin E]]. apply Hroots in Hin. destruct Hin as [Hin|Hin].
        + left. exists h. auto.
        + apply reg_roots_In in Hin. destruct Hin as [id [p [v [r0 [Hin [Hp ->]]]]]].
          simpl in E. subst r0. right. exists id, p, v. auto. }
    assert (B1 : BddOK s1).
    { unfold s1, with_roots. apply bddok_set_handles; [exact B|].
      intros h Hin. apply in_app_iff in Hin. destruct Hin as [Hin|Hin].
      - apply (bdd_handle_ok _ h B Hin).
      - apply reg_roots_In in Hin. destruct Hin as [id [p [v [r [Hin [Hp ->]]]]]]. simpl.
        split; [apply (proj2 (hi_reg st I id p Hin) v r Hp) | reflexivity]. }
    pose proof (gc_model_collected s1 (bo_wf s1 B1)) as Cg.
    destruct (collected_ok s1 (gc_model s1) B1 Cg) as [Bg [Xg [Hh [Hsem [Hlive _]]]]].
    assert (Okg : forall r, hroot st r -> ref_ok (gc_model s1) r).
    { intros r Hr. apply Hrt in Hr. destruct Hr as [h [Hin <-]]. apply (Hh h Hin). }
    eexists. split; [reflexivity|]. split; [|split].
    + constructor; simpl.
      * apply bddok_set_handles; [exact Bg|]. intros h Hin.
        split; [apply Okg; left; exists h; auto | apply (bdd_handle_ok _ h B Hin)].
      * apply qok_empty.
      * intros id p Hin. destruct (hi_reg st I id p Hin) as [Hnd Hp]. split; [exact Hnd|].
        intros v r Hvr. split; [apply (Hp v r Hvr)|].
        apply (Okg r). right. exists id, p, v. auto.
      * apply (hi_fresh st I).
    + split; [|split]; simpl.
      * intros x _. reflexivity.
      * intros r Hr. pose proof (Okg r Hr) as Ok. split; [exact Ok|]. intros a.
        rewrite bfun_of_set_handles.
        rewrite <- (bfun_of_extends (gc_model s1) s1 r a (bo_wf _ Bg) Xg Ok).
        unfold s1, with_roots. apply bfun_of_set_handles.
      * intros _. split; reflexivity.
    + simpl. intros id nd E. change (find_node (gc_model s1) id = Some nd) in E.
      split; [apply (ext_nodes _ _ Xg id nd E)|].
      pose proof (proj1 (co_nodes _ _ Cg id nd) E) as [E1 R1].
      clear - R1 Hrt. remember (RN id) as q eqn:Eq. clear Eq.
      induction R1 as [q Hin|pid pnd e R1 IH Ep He].
      * unfold handle_refs in Hin. apply in_map_iff in Hin. destruct Hin as [h [<- Hin]].
        exists (eref (snd h)). split; [apply Hrt; exists h; auto|]. apply reach_root. left. reflexivity.
      * destruct IH as [r [Hr Rr]]. exists r. split; [exact Hr|].
        apply (reach_child _ _ pid pnd e Rr Ep He).
  - (* HAddVars *)
    eexists. split; [reflexivity|]. rewrite widen_add_vars. split; [|split].
    + constructor; simpl.
      * apply bddok_widen; [exact B|]. intros h Hin. apply (bdd_handle_ok _ h B Hin).
      * apply qcacheok_widen; [exact H | apply (pairs_range st I) | exact Q].
      * intros id p Hin. apply hpairs_wf_widen. apply (hi_reg st I id p Hin).
      * apply (hi_fresh st I).
    + split; [|split]; simpl.
      * intros x _. reflexivity.
      * intros r Hr. pose proof (hroot_ok st r I Hr) as Ok.
        split; [apply ref_ok_widen; exact Ok | intros a; apply (bfun_of_widen _ _ _ _ _ H Ok)].
      * discriminate.
    + simpl. auto.
  - (* HSetVarOrder *)
    destruct Pre as [Hnd Hr].
    assert (Hsame : hframe st (HSetVarOrder order) st).
    { split; [intros; reflexivity|]. split; [|discriminate].
      intros r Hrr. split; [apply (hroot_ok st r I Hrr) | reflexivity]. }
    destruct (Nat.leb (length order) 1) eqn:Elen.
    { exists st. split; [reflexivity|]. split; [exact I|]. split; [exact Hsame|]. simpl.
      split; [reflexivity|]. intros a b Hab. apply Nat.leb_le in Elen. lia. }
    assert (Eok : order_ok_b (nlevels (h_s C st)) order = true)
      by (apply order_ok_b_valid; split; assumption).
    rewrite Eok.
    destruct (nat_list_eqb _ (seq 0 (nlevels (h_s C st)))) eqn:Esorted.
    { exists st. split; [reflexivity|]. split; [exact I|]. split; [exact Hsame|]. simpl.
      split; [reflexivity|]. intros a b Hab. apply nat_list_eqb_eq in Esorted.
      pose proof (sort_order_respects (nlevels (h_s C st)) _
                    (valid_order_levels (h_s C st) order H Hnd Hr) a b) as R.
      rewrite map_length in R. specialize (R Hab). rewrite Esorted in R.
      rewrite Forall_forall in Hr.
      assert (Hlv : forall k, k < length order ->
                nth k (map (fun v => nth v (s_v2l (h_s C st)) 0) order) 0 = nth (nth k order 0) (s_v2l (h_s C st)) 0).
      { intros k Hk. apply (nth_map_in _ _ (fun v => nth v (s_v2l (h_s C st)) 0)). exact Hk. }
      rewrite (Hlv a), (Hlv b) in R by lia.
      assert (Hlt : forall k, k < length order -> nth (nth k order 0) (s_v2l (h_s C st)) 0 < nlevels (h_s C st)).
      { intros k Hk. apply (wf_v2l_l2v (h_s C st) _ H). apply Hr. apply nth_In. exact Hk. }
      rewrite !seq_nth in R by (apply Hlt; lia). exact R. }
    set (s1 := with_roots C st).
    assert (B1 : BddOK s1).
    { unfold s1, with_roots. apply bddok_set_handles; [exact B|].
      intros h Hin. apply in_app_iff in Hin. destruct Hin as [Hin|Hin].
      - apply (bdd_handle_ok _ h B Hin).
      - apply reg_roots_In in Hin. destruct Hin as [id [p [v [r [Hin [Hp ->]]]]]]. simpl.
        split; [apply (proj2 (hi_reg st I id p Hin) v r Hp) | reflexivity]. }
    assert (Hr1 : Forall (fun v => v < nlevels s1) order) by exact Hr.
    pose proof (reorder_bddok s1 order B1 Hnd Hr1) as B2.
    set (s2 := set_var_order_model s1 order) in *.
    assert (Hrt : forall r, hroot st r -> exists h, In h (s_handles s1) /\ eref (snd h) = r).
    { intros r [[h [Hin E]]|[id [p [v [Hin Hp]]]]].
      - exists h. split; [unfold s1, with_roots; simpl; apply in_app_iff; left; exact Hin | exact E].
      - exists (id, Build.E r). split; [|reflexivity]. unfold s1, with_roots. simpl. apply in_app_iff. right.
        apply reg_roots_In. exists id, p, v, r. auto. }
    assert (Ok2 : forall r, hroot st r -> ref_ok s2 r).
    { intros r Hrr. destruct (Hrt r Hrr) as [h [Hin <-]]. apply (reorder_handle_ok s1 order B1 Hnd Hr1 h Hin). }
    eexists. split; [reflexivity|]. split; [|split].
    + constructor; simpl.
      * apply bddok_set_handles; [exact B2|]. intros h Hin.
        split; [apply Ok2; left; exists h; auto | apply (bdd_handle_ok _ h B Hin)].
      * apply qok_empty.
      * intros id p Hin. destruct (hi_reg st I id p Hin) as [Hnd' Hp]. split; [exact Hnd'|].
        intros v r Hvr. split.
        -- change (nlevels (set_handles s2 (s_handles (h_s C st)))) with (nlevels s2).
           unfold s2. rewrite (reorder_nlevels s1 order B1 Hnd Hr1). apply (Hp v r Hvr).
        -- apply (Ok2 r). right. exists id, p, v. auto.
      * apply (hi_fresh st I).
    + split; [|split]; simpl.
      * intros x _. reflexivity.
      * intros r Hrr. split; [apply (Ok2 r Hrr)|]. intros a.
        rewrite bfun_of_set_handles. destruct (Hrt r Hrr) as [h [Hin <-]].
        unfold s2. rewrite (reorder_bfun s1 order B1 Hnd Hr1 h a Hin).
        unfold s1, with_roots. apply bfun_of_set_handles.
      * discriminate.
    + simpl. split.
      * change (nlevels (set_handles s2 (s_handles (h_s C st)))) with (nlevels s2).
        unfold s2. apply (reorder_nlevels s1 order B1 Hnd Hr1).
      * apply (reorder_respects s1 order B1 Hnd Hr1).
Qed.

End Hist.
