(** * [set_var_order_model] (Mgr/LevelSwap.v) in the vocabulary of the state machine

    From Mgr/LevelSwapOrder.v ([set_var_order_model_correct]): reordering a
    [BddOK] table gives a [BddOK] table with the same handle list, and every
    handle denotes the same function of the VARIABLES ([bfun_of]). *)

From Coq Require Import List NArith PArith Bool Arith Lia FMapPositive.
From OxiVerif Require Import DD.Table DD.TableProofs DD.Canon DD.Sem DD.Build DD.BuildProofs
  DD.Apply DD.ApplyProofs DD.ApplyEvalProofs DD.QuantTopProofs
  Mgr.SortOrder Mgr.LevelSwap Mgr.LevelSwapBase Mgr.LevelSwapProofs Mgr.LevelSwapOrder.
Import ListNotations.

Lemma fold_level_swap_terms : forall sw s, s_terms (fold_left level_swap sw s) = s_terms s.
Proof. induction sw as [|k sw IH]; intros s; simpl; [reflexivity | rewrite IH; reflexivity]. Qed.

Lemma reorder_terms : forall s order, s_terms (set_var_order_model s order) = s_terms s.
Proof. intros. unfold set_var_order_model. apply fold_level_swap_terms. Qed.

Lemma bdd_bink : forall s, BddOK s -> bink (s_kind s).
Proof. intros s B. left. apply (bo_kind s B). Qed.

(** [bfun_of] is [eval_vars] read as a Boolean *)
Lemma bfun_eval_vars : forall s e a, WF s -> s_kind s = KBdd ->
  bfun_of s (eref e) a = match eval_vars s e a with Some 1%N => true | _ => false end.
Proof.
  intros s e a H Hk. unfold bfun_of, eval_vars, sem_edge, FUEL. rewrite Hk.
  rewrite (semk_ext_lt s H _ (eref e) (choice_of s a) (asg_choice s a)); [reflexivity|].
  intros l Hl. unfold choice_of, asg_choice.
  destruct (nth_error (s_l2v s) l) as [v|] eqn:E.
  - rewrite (nth_error_nth _ _ 0 E). reflexivity.
  - apply nth_error_None in E. unfold nlevels in Hl. lia.
Qed.

Section Reorder.
Variable s : snap.
Variable order : list nat.
Hypothesis B : BddOK s.
Hypothesis Hnd : NoDup order.
Hypothesis Hr : Forall (fun v => v < nlevels s) order.

Let s' := set_var_order_model s order.
Let H : WF s := bo_wf s B.
Let Hk : bink (s_kind s) := bdd_bink s B.

Lemma reorder_facts :
  WF s' /\ s_kind s' = s_kind s /\ nlevels s' = nlevels s /\ s_handles s' = s_handles s
  /\ (forall h a, In h (s_handles s) ->
        eval_vars s' (snd h) a = eval_vars s (snd h) a /\ exists v, eval_vars s (snd h) a = Some v).
Proof.
  destruct (set_var_order_model_correct s order H Hk Hnd Hr) as [A [B0 [C [D [G _]]]]].
  split; [exact A|]. split; [exact B0|]. split; [exact C|]. split; [exact D | exact G].
Qed.

Lemma reorder_bddok : BddOK s'.
Proof.
  destruct reorder_facts as [A [B0 [C [D G]]]].
  assert (Tv : forall t, term_val s' t = term_val s t).
  { intros t. unfold term_val, s'. rewrite reorder_terms. reflexivity. }
  constructor.
  - exact A.
  - rewrite B0. apply (bo_kind s B).
  - intros t v. rewrite Tv. apply (bo_codes s B).
  - destruct (bo_false s B) as [t E]. exists t. rewrite Tv. exact E.
  - destruct (bo_true s B) as [t E]. exists t. rewrite Tv. exact E.
Qed.

Lemma reorder_handles : s_handles s' = s_handles s.
Proof. apply reorder_facts. Qed.

Lemma reorder_nlevels : nlevels s' = nlevels s.
Proof. apply reorder_facts. Qed.

Lemma reorder_handle_ok : forall h, In h (s_handles s) -> ref_ok s' (eref (snd h)).
Proof.
  intros h Hh. apply (wf_handles s' (bo_wf s' reorder_bddok)). rewrite reorder_handles. exact Hh.
Qed.

(** every handle denotes the same function of the variables *)
Lemma reorder_bfun : forall h a, In h (s_handles s) ->
  bfun_of s' (eref (snd h)) a = bfun_of s (eref (snd h)) a.
Proof.
  intros h a Hh. destruct reorder_facts as [A [B0 [C [D G]]]].
  rewrite (bfun_eval_vars s' (snd h) a A) by (rewrite B0; apply (bo_kind s B)).
  rewrite (bfun_eval_vars s (snd h) a H (bo_kind s B)).
  destruct (G h a Hh) as [E _]. rewrite E. reflexivity.
Qed.

(** the variables named in the request end up in the requested relative order *)
Lemma reorder_respects : forall a b, a < b < length order ->
  nth (nth a order 0) (s_v2l s') 0 < nth (nth b order 0) (s_v2l s') 0.
Proof. apply (set_var_order_model_respects s order H Hk Hnd Hr). Qed.

End Reorder.
