(** * Result correctness along histories; the result is determined by the
      operator, the operands' FUNCTIONS and the variable order

    - [hspec st o d F]: read off the spec layer (DD/Sem.v): call [o] issued in
      state [st] is to leave the function [F] in slot [d].  [F] is given in
      terms of the functions the operand slots hold ([holds]), never in terms
      of edges, node ids, cache contents or the way the operands were obtained;
    - [hstep_spec]: in every state satisfying the invariant (so: after every
      history) the call completes and its destination holds [F];
    - [hist_result_unique]: every slot that holds [F] afterwards holds the very
      edge that was returned (inside one manager the result is determined by [F]);
    - [hist_result_determined]: two managers with arbitrary different histories,
      operand orders and cache implementations but the same variable order:
      calls with the same spec function return edges with the same function
      and the same node count (isomorphic diagrams, DD/Iso.v);
    - [hist_fresh_equiv]: the instance "history with reorderings / collections
      vs. freshly built manager". *)

From Coq Require Import List NArith PArith Bool Arith Lia FMapPositive.
From OxiVerif Require Import DD.Table DD.TableProofs DD.Canon DD.Sem DD.Build DD.BuildProofs
  DD.Apply DD.ApplyProofs DD.ApplyEvalProofs DD.ConfigApply DD.ConfigRun DD.Iso
  DD.Quant DD.QuantSpecProofs DD.QuantLemmas DD.QuantTopProofs
  Mgr.History Mgr.HistoryBase Mgr.HistoryProofs Mgr.HistoryThms.
Import ListNotations.

Local Arguments hset : simpl never.
Local Arguments hget : simpl never.
Local Arguments hdel : simpl never.
Local Arguments bfun_of : simpl never.

Definition feq (f g : bfun) : Prop := forall a, f a = g a.

(** the conjunction of the variables [vs] / of the literals [lits] *)
Definition conj_vars (vs : list nat) : bfun := fun a => forallb (fun v => a v) vs.
Definition cube_fun (lits : list (nat * bool)) : bfun :=
  fun a => forallb (fun p : nat * bool => Bool.eqb (a (fst p)) (snd p)) lits.

(** same isomorphism class: equal functions of the variables, equal node counts *)
Lemma same_fun_same_count : forall s1 s2 r1 r2, BddOK s1 -> BddOK s2 ->
  s_l2v s1 = s_l2v s2 -> s_v2l s1 = s_v2l s2 -> ref_ok s1 r1 -> ref_ok s2 r2 ->
  (forall a, bfun_of s1 r1 a = bfun_of s2 r2 a) ->
  count_reach s1 (E r1) = count_reach s2 (E r2).
Proof.
  intros s1 s2 r1 r2 B1 B2 Hl Hv O1 O2 Heq.
  pose proof (bo_wf s1 B1) as H1. pose proof (bo_wf s2 B2) as H2.
  destruct (den_exists s1 r1 B1 O1) as [phi D1]. destruct (den_exists s2 r2 B2 O2) as [psi D2].
  assert (Hn : nlevels s1 = nlevels s2) by (unfold nlevels; rewrite Hl; reflexivity).
  apply (count_reach_den s1 s2 B1 B2 Hn r1 r2 phi D1).
  apply (den_ext s2 r2 psi phi D2). intros c Hc.
  rewrite (den_bfun s2 H2 r2 psi c D2 Hc), (den_bfun s1 H1 r1 phi c D1 Hc), Heq.
  unfold asg_of, lv. rewrite Hv. reflexivity.
Qed.

Section Spec.
Variable gt : ref -> ref -> bool.
Variable C : Type.
Variable cget : C -> N -> list ref -> option ref.
Variable cadd : C -> N -> list ref -> ref -> C.
Hypothesis Hlossy : lossy cget cadd.
Variable cempty : C.
Hypothesis Hempty : forall k a, cget cempty k a = None.

Notation hstate := (hstate C).
Notation hstep := (hstep gt C cget cadd cempty).
Notation hrun := (hrun gt C cget cadd cempty).
Notation HInv := (HInv C cget).
Notation hop_pre := (hop_pre C).
Notation hframe := (hframe C).
Notation hpost := (hpost C).
Notation holds := (holds C).
Notation hinit := (hinit C cempty).
Notation step_ok := (hstep_ok gt C cget cadd Hlossy cempty Hempty).

Lemma holds_ext : forall st d F F', holds st d F -> feq F F' -> holds st d F'.
Proof. intros st d F F' [r [E HF]] Hf. exists r. split; [exact E|]. intros a. rewrite HF. apply Hf. Qed.

Lemma holds_slot : forall st d F r, holds st d F -> hslot C st d = Some r -> feq (bfun_of (h_s C st) r) F.
Proof. intros st d F r [r0 [E HF]] Er. rewrite E in Er. inversion Er; subst. exact HF. Qed.

Lemma holds_occupied : forall st d F, holds st d F -> occupied C st d.
Proof. intros st d F [r [E _]]. exists r. exact E. Qed.

(** the replacement functions of a substitution object *)
Definition sub_funs (s : snap) (rp : hpairs) (sub : list (nat * bfun)) : Prop :=
  Forall2 (fun (p : nat * ref) (q : nat * bfun) => fst p = fst q /\ feq (bfun_of s (snd p)) (snd q)) rp sub.

Inductive hspec (st : hstate) : hop -> N -> bfun -> Prop :=
| SpConst : forall d b, hspec st (HConst d b) d (const_s b)
| SpVar : forall d v neg, v < nlevels (h_s C st) ->
    hspec st (HVar d v neg) d (fun a => xorb neg (var_s v a))
| SpNot : forall d x f, holds st x f -> hspec st (HNot d x) d (lift1 negb f)
| SpBin : forall op d x y f g, holds st x f -> holds st y g ->
    hspec st (HBin op d x y) d (lift2 op f g)
| SpIte : forall d x y z f g h, holds st x f -> holds st y g -> holds st z h ->
    hspec st (HIte d x y z) d (ite_s f g h)
| SpQuant : forall q d x vars f vs, holds st x f -> holds st vars (conj_vars vs) ->
    (forall v, In v vs -> v < nlevels (h_s C st)) -> (q = QUnique -> NoDup vs) ->
    hspec st (HQuant q d x vars) d (quant (qfun q) vs f)
| SpApplyQuant : forall q op d x y vars f g vs, holds st x f -> holds st y g ->
    holds st vars (conj_vars vs) ->
    (forall v, In v vs -> v < nlevels (h_s C st)) -> (q = QUnique -> NoDup vs) ->
    hspec st (HApplyQuant q op d x y vars) d (quant (qfun q) vs (lift2 op f g))
| SpRestrict : forall d x cube f lits, holds st x f -> holds st cube (cube_fun lits) ->
    NoDup (map fst lits) -> (forall p, In p lits -> fst p < nlevels (h_s C st)) ->
    hspec st (HRestrict d x cube) d (restrict_s lits f)
| SpSubst : forall d x id f rp sub, holds st x f -> aext f ->
    hreg_fn (h_reg C st) id = Some rp -> sub_funs (h_s C st) rp sub ->
    hspec st (HSubst d x id) d (subst_s sub f)
| SpClone : forall d x f, holds st x f -> hspec st (HClone d x) d f.

Lemma hspec_dst : forall st o d F, hspec st o d F -> hdst o = Some d.
Proof. intros st o d F S. destruct S; reflexivity. Qed.

Lemma hspec_pre : forall st o d F, hspec st o d F -> hop_pre st o.
Proof.
  intros st o d F S.
  destruct S; simpl; repeat split; eauto using holds_occupied.
Qed.

Lemma sub_funs_assoc : forall s rp sub v, sub_funs s rp sub ->
  match assoc_nat rp v, assoc_nat sub v with
  | Some r, Some g => feq (bfun_of s r) g
  | None, None => True
  | _, _ => False
  end.
Proof.
  intros s rp sub v F2. induction F2 as [|[v1 r1] [v2 g2] rp sub [Hv Hf] F2 IH]; simpl; [exact I|].
  simpl in Hv, Hf. subst v2. destruct (Nat.eqb v1 v); [exact Hf | exact IH].
Qed.

(** (4) the destination holds the spec function, whatever happened before *)
Theorem hstep_spec : forall st o d F, HInv st -> hspec st o d F ->
  exists st', hstep st o = Some st' /\ HInv st' /\ hframe st o st' /\ holds st' d F.
Proof.
  intros st o d F I S. pose proof (hspec_pre st o d F S) as Pre.
  destruct (step_ok st o I Pre) as [st' [E [I' [Fr P]]]].
  exists st'. split; [exact E|]. split; [exact I'|]. split; [exact Fr|].
  pose proof (bo_wf _ (hi_bdd C cget st I)) as H.
  destruct S; simpl in P.
  - exact P.
  - exact P.
  - destruct P as [f0 [E0 P]]. apply (holds_ext _ _ _ _ P).
    intros a. unfold lift1. rewrite (holds_slot st x f f0 H0 E0 a). reflexivity.
  - destruct P as [f0 [g0 [E0 [E1 P]]]]. apply (holds_ext _ _ _ _ P).
    intros a. unfold lift2. rewrite (holds_slot st x f f0 H0 E0 a), (holds_slot st y g g0 H1 E1 a). reflexivity.
  - destruct P as [f0 [g0 [h0 [E0 [E1 [E2 P]]]]]]. apply (holds_ext _ _ _ _ P).
    intros a. unfold ite_s.
    rewrite (holds_slot st x f f0 H0 E0 a), (holds_slot st y g g0 H1 E1 a), (holds_slot st z h h0 H2 E2 a).
    reflexivity.
  - destruct P as [f0 [V [E0 [E1 P]]]].
    specialize (P vs H2 (holds_slot st vars _ V H1 E1) H3).
    apply (holds_ext _ _ _ _ P). intros a. apply quant_ext. apply (holds_slot st x f f0 H0 E0).
  - destruct P as [f0 [g0 [V [E0 [E1 [E2 P]]]]]].
    specialize (P vs H3 (holds_slot st vars _ V H2 E2) H4).
    apply (holds_ext _ _ _ _ P). intros a0. apply quant_ext. intros a. unfold lift2.
    rewrite (holds_slot st x f f0 H0 E0 a), (holds_slot st y g g0 H1 E1 a). reflexivity.
  - destruct P as [f0 [V [E0 [E1 P]]]].
    specialize (P lits H2 H3 (holds_slot st cube _ V H1 E1)).
    apply (holds_ext _ _ _ _ P). intros a. apply restrict_s_ext. apply (holds_slot st x f f0 H0 E0).
  - destruct P as [f0 [rp0 [E0 [E1 P]]]]. rewrite H2 in E1. inversion E1; subst rp0.
    apply (holds_ext _ _ _ _ P). intros a. unfold subst_s.
    rewrite (holds_slot st x f f0 H0 E0 _). apply H1. intros v.
    pose proof (sub_funs_assoc _ rp sub v H3) as A.
    rewrite (assoc_nat_map _ _ (fun r => bfun_of (h_s C st) r) rp v).
    destruct (assoc_nat rp v) as [r|], (assoc_nat sub v) as [g|]; simpl; try contradiction; auto.
  - destruct P as [Eg [r' Er']]. destruct H0 as [r [Er HF]].
    exists r. assert (Er2 : hslot C st' d = Some r).
    { unfold hslot in *. rewrite Eg. exact Er. }
    split; [exact Er2|]. intros a. destruct Fr as [_ [F2 _]].
    rewrite (proj2 (F2 r (hslot_root C st x r Er)) a). apply HF.
Qed.

(** in one manager the returned edge is THE edge with that function *)
Theorem hist_result_unique : forall st o d F st', HInv st -> hspec st o d F -> hstep st o = Some st' ->
  forall y, holds st' y F ->
  hget (s_handles (h_s C st')) y = hget (s_handles (h_s C st')) d.
Proof.
  intros st o d F st' I S E y Hy.
  destruct (hstep_spec st o d F I S) as [st1 [E1 [I1 [_ Hd]]]]. rewrite E in E1. inversion E1; subst st1.
  destruct Hy as [ry [Ey Fy]]. destruct Hd as [rd [Ed Fd]]. unfold hslot in Ey, Ed.
  destruct (hget (s_handles (h_s C st')) y) as [ey|] eqn:Gy; [|discriminate].
  destruct (hget (s_handles (h_s C st')) d) as [ed|] eqn:Gd; [|discriminate].
  inversion Ey; subst ry. inversion Ed; subst rd. f_equal.
  apply (hinv_canonical C cget st' I1 y d ey ed Gy Gd). intros a. rewrite Fy, Fd. reflexivity.
Qed.

End Spec.

(** ** Two managers *)

Section Two.
Variables gt1 gt2 : ref -> ref -> bool.
Variables C1 C2 : Type.
Variable cget1 : C1 -> N -> list ref -> option ref.
Variable cadd1 : C1 -> N -> list ref -> ref -> C1.
Variable cget2 : C2 -> N -> list ref -> option ref.
Variable cadd2 : C2 -> N -> list ref -> ref -> C2.
Hypothesis L1 : lossy cget1 cadd1.
Hypothesis L2 : lossy cget2 cadd2.
Variable ce1 : C1.
Variable ce2 : C2.
Hypothesis He1 : forall k a, cget1 ce1 k a = None.
Hypothesis He2 : forall k a, cget2 ce2 k a = None.

Notation step1 := (hstep gt1 C1 cget1 cadd1 ce1).
Notation step2 := (hstep gt2 C2 cget2 cadd2 ce2).

(** the result is determined by the spec function and the variable order:
    same function, same node count, in any two managers *)
Theorem hist_result_determined : forall st1 st2 o1 o2 d1 d2 F st1' st2',
  HInv C1 cget1 st1 -> HInv C2 cget2 st2 ->
  s_l2v (h_s C1 st1) = s_l2v (h_s C2 st2) -> s_v2l (h_s C1 st1) = s_v2l (h_s C2 st2) ->
  hspec C1 st1 o1 d1 F -> hspec C2 st2 o2 d2 F ->
  step1 st1 o1 = Some st1' -> step2 st2 o2 = Some st2' ->
  exists r1 r2, hslot C1 st1' d1 = Some r1 /\ hslot C2 st2' d2 = Some r2 /\
    (forall a, bfun_of (h_s C1 st1') r1 a = F a) /\
    (forall a, bfun_of (h_s C2 st2') r2 a = F a) /\
    count_reach (h_s C1 st1') (E r1) = count_reach (h_s C2 st2') (E r2).
Proof.
  intros st1 st2 o1 o2 d1 d2 F st1' st2' I1 I2 Hl Hv S1 S2 E1 E2.
  destruct (hstep_spec gt1 C1 cget1 cadd1 L1 ce1 He1 st1 o1 d1 F I1 S1) as [sa [Ea [Ia [Fa Ha]]]].
  destruct (hstep_spec gt2 C2 cget2 cadd2 L2 ce2 He2 st2 o2 d2 F I2 S2) as [sb [Eb [Ib [Fb Hb]]]].
  rewrite E1 in Ea. inversion Ea; subst sa. rewrite E2 in Eb. inversion Eb; subst sb.
  destruct Ha as [r1 [Er1 F1]]. destruct Hb as [r2 [Er2 F2]].
  exists r1, r2. split; [exact Er1|]. split; [exact Er2|]. split; [exact F1|]. split; [exact F2|].
  assert (Hco1 : changes_order o1 = false) by (destruct S1; reflexivity).
  assert (Hco2 : changes_order o2 = false) by (destruct S2; reflexivity).
  destruct (proj2 (proj2 Fa) Hco1) as [La Va]. destruct (proj2 (proj2 Fb) Hco2) as [Lb Vb].
  apply same_fun_same_count.
  - apply (hi_bdd C1 cget1 st1' Ia).
  - apply (hi_bdd C2 cget2 st2' Ib).
  - rewrite La, Lb. exact Hl.
  - rewrite Va, Vb. exact Hv.
  - apply (hslot_ok C1 cget1 st1' d1 r1 Ia Er1).
  - apply (hslot_ok C2 cget2 st2' d2 r2 Ib Er2).
  - intros a. rewrite F1, F2. reflexivity.
Qed.

(** C08 "as on a freshly built diagram": [ops1] is any history (reorderings,
    collections, dropped handles, ...), [ops2] any other one - in particular
    the shortest one that just builds the operands in a fresh manager with
    the same variable order; the same call has the same result *)
Theorem hist_fresh_equiv : forall n1 n2 ops1 ops2 st1 st2 o1 o2 d1 d2 F,
  hops_pre gt1 C1 cget1 cadd1 ce1 (hinit C1 ce1 n1) ops1 ->
  hrun gt1 C1 cget1 cadd1 ce1 (hinit C1 ce1 n1) ops1 = Some st1 ->
  hops_pre gt2 C2 cget2 cadd2 ce2 (hinit C2 ce2 n2) ops2 ->
  hrun gt2 C2 cget2 cadd2 ce2 (hinit C2 ce2 n2) ops2 = Some st2 ->
  s_l2v (h_s C1 st1) = s_l2v (h_s C2 st2) -> s_v2l (h_s C1 st1) = s_v2l (h_s C2 st2) ->
  hspec C1 st1 o1 d1 F -> hspec C2 st2 o2 d2 F ->
  exists st1' st2' r1 r2,
    step1 st1 o1 = Some st1' /\ step2 st2 o2 = Some st2' /\
    hslot C1 st1' d1 = Some r1 /\ hslot C2 st2' d2 = Some r2 /\
    (forall a, bfun_of (h_s C1 st1') r1 a = F a) /\
    (forall a, bfun_of (h_s C2 st2') r2 a = F a) /\
    count_reach (h_s C1 st1') (E r1) = count_reach (h_s C2 st2') (E r2) /\
    wf_b (h_s C1 st1') = true /\ wf_b (h_s C2 st2') = true.
Proof.
  intros n1 n2 ops1 ops2 st1 st2 o1 o2 d1 d2 F P1 R1 P2 R2 Hl Hv S1 S2.
  assert (I1 : HInv C1 cget1 st1).
  { apply (hreach_inv gt1 C1 cget1 cadd1 L1 ce1 He1 n1). exists ops1. auto. }
  assert (I2 : HInv C2 cget2 st2).
  { apply (hreach_inv gt2 C2 cget2 cadd2 L2 ce2 He2 n2). exists ops2. auto. }
  destruct (hstep_spec gt1 C1 cget1 cadd1 L1 ce1 He1 st1 o1 d1 F I1 S1) as [sa [Ea [Ia _]]].
  destruct (hstep_spec gt2 C2 cget2 cadd2 L2 ce2 He2 st2 o2 d2 F I2 S2) as [sb [Eb [Ib _]]].
  destruct (hist_result_determined st1 st2 o1 o2 d1 d2 F sa sb I1 I2 Hl Hv S1 S2 Ea Eb)
    as [r1 [r2 [A1 [A2 [A3 [A4 A5]]]]]].
  exists sa, sb, r1, r2. repeat (split; [assumption|]).
  split; apply wf_b_spec; [apply (bo_wf _ (hi_bdd C1 cget1 sa Ia)) | apply (bo_wf _ (hi_bdd C2 cget2 sb Ib))].
Qed.

End Two.
