(** * Theorems about ALL histories of the manager state machine (Mgr/History.v)

    For every configuration (operand order [gt], cache implementation
    [C]/[cget]/[cadd] that is [lossy], its cleared state [cempty]), every
    number [n] of initial variables and every history (list of [hop]) of
    well-formed requests from the empty manager [hinit n]:

    - [hrun_ok], [hreach_inv]: the run never gets stuck and every state it
      passes satisfies [HInv];
    - [hist_wf]: the table after ANY history passes the checker [wf_b] (C03);
    - [hist_canonical]: two slots hold the same edge IFF they denote the same
      function of the variables (C01);
    - [hist_frame_slots], [hist_add_vars]: a call changes neither the edge nor
      the function of any slot other than its destination; after [add_vars] the
      old functions ignore the new variables (C16); [hist_reorder_keeps]: the
      same for [set_var_order] (C08);
    - [hspec] / [hstep_spec]: the destination holds the spec function of the
      operands' functions at the time of the call, whatever happened before;
    - [hist_result_unique], [hist_result_determined]: that function and the
      variable order determine the returned edge inside one manager, and
      function + node count across two managers with arbitrary different
      histories and configurations (C01/C08 "as on a freshly built diagram"). *)

From Coq Require Import List NArith PArith Bool Arith Lia FMapPositive.
From OxiVerif Require Import DD.Table DD.TableProofs DD.Canon DD.Sem DD.Build DD.BuildProofs
  DD.Apply DD.ApplyProofs DD.ApplyEvalProofs DD.ConfigApply DD.ConfigRun DD.Iso
  DD.Quant DD.QuantSpecProofs DD.QuantLemmas DD.QuantTopProofs
  Mgr.SortOrder Mgr.SortOrderProofs Mgr.LevelSwap
  Mgr.History Mgr.HistoryBase Mgr.HistoryProofs.
Import ListNotations.

Local Arguments hset : simpl never.
Local Arguments hget : simpl never.
Local Arguments hdel : simpl never.
Local Arguments bfun_of : simpl never.

(** ** The empty manager *)

Lemma nth_error_seq0 : forall n i, i < n -> nth_error (seq 0 n) i = Some i.
Proof.
  intros n i Hi. rewrite (nth_error_nth' (seq 0 n) 0) by (rewrite seq_length; exact Hi).
  rewrite seq_nth by exact Hi. reflexivity.
Qed.

Lemma empty_find : forall n id, find_node (empty_snap n) id = None.
Proof. intros n id. unfold find_node. simpl. apply PositiveMap.gempty. Qed.

Lemma empty_wf : forall n, WF (empty_snap n).
Proof.
  intros n.
  assert (Hinv : inv_on (seq 0 n) (seq 0 n)).
  { intros i Hi. rewrite seq_length in Hi. exists i. split; apply nth_error_seq0; exact Hi. }
  constructor; simpl; try exact Hinv;
    try (intros; match goal with E : find_node (empty_snap n) _ = Some _ |- _ =>
                   rewrite empty_find in E; discriminate end).
  - reflexivity.
  - repeat constructor; simpl; intuition discriminate.
  - repeat constructor; simpl; intuition discriminate.
  - intros h [].
Qed.

Lemma empty_bddok : forall n, BddOK (empty_snap n).
Proof.
  intros n. constructor.
  - apply empty_wf.
  - reflexivity.
  - intros t v. unfold term_val. cbn [s_terms empty_snap assoc_N].
    destruct (N.eqb 0 t); [intros E; inversion E; subst; auto|].
    destruct (N.eqb 1 t); [intros E; inversion E; subst; auto | discriminate].
  - exists 0%N. reflexivity.
  - exists 1%N. reflexivity.
Qed.

Section Thms.
Variable gt : ref -> ref -> bool.
Variable C : Type.
Variable cget : C -> N -> list ref -> option ref.
Variable cadd : C -> N -> list ref -> ref -> C.
Hypothesis Hlossy : lossy cget cadd.
Variable cempty : C.
Hypothesis Hempty : forall k a, cget cempty k a = None.

Notation hstate := (hstate C).
Notation hstep := (hstep gt C cget cadd cempty).
Notation hrun := (hrun gt C cget cadd cempty).
Notation HInv := (HInv C cget).
Notation hop_pre := (hop_pre C).
Notation hframe := (hframe C).
Notation hpost := (hpost C).
Notation holds := (holds C).
Notation hinit := (hinit C cempty).
Notation step_ok := (hstep_ok gt C cget cadd Hlossy cempty Hempty).

(** the invariant, spelled out *)
Theorem hinv_unfold : forall st : hstate,
  HInv st <->
  (BddOK (h_s C st) /\
   QCacheOK cget (hreg_fn (h_reg C st)) (h_s C st) (h_c C st) /\
   (forall id pairs, In (id, pairs) (h_reg C st) ->
      NoDup (map fst pairs) /\
      forall v r, In (v, r) pairs -> v < nlevels (h_s C st) /\ ref_ok (h_s C st) r) /\
   (forall id pairs, In (id, pairs) (h_reg C st) -> (id < h_next C st)%N)).
Proof.
  intros st. split.
  - intros [A B D F]. auto.
  - intros [A [B [D F]]]. constructor; assumption.
Qed.

Theorem hinit_inv : forall n, HInv (hinit n).
Proof.
  intros n. constructor; simpl.
  - apply empty_bddok.
  - split; intros code args r E; rewrite Hempty in E; discriminate.
  - intros id pairs [].
  - intros id pairs [].
Qed.

(** ** Runs *)

(** every request is well-formed when it is its turn *)
Fixpoint hops_pre (st : hstate) (ops : list hop) : Prop :=
  match ops with
  | [] => True
  | o :: rest => hop_pre st o /\ forall st1, hstep st o = Some st1 -> hops_pre st1 rest
  end.

Theorem hrun_ok : forall ops st, HInv st -> hops_pre st ops ->
  exists st', hrun st ops = Some st' /\ HInv st'.
Proof.
  induction ops as [|o rest IH]; intros st I Pre.
  - exists st. split; [reflexivity | exact I].
  - destruct Pre as [P0 Prest]. destruct (step_ok st o I P0) as [st1 [E [I1 _]]].
    destruct (IH st1 I1 (Prest st1 E)) as [st2 [E2 I2]].
    exists st2. simpl. rewrite E. split; [exact E2 | exact I2].
Qed.

Lemma hrun_app : forall ops1 ops2 st, hrun st (ops1 ++ ops2) =
  match hrun st ops1 with Some st1 => hrun st1 ops2 | None => None end.
Proof.
  induction ops1 as [|o r IH]; intros ops2 st; simpl; [reflexivity|].
  destruct (hstep st o); [apply IH | reflexivity].
Qed.

Lemma hops_pre_app : forall ops1 ops2 st, hops_pre st ops1 ->
  (forall st1, hrun st ops1 = Some st1 -> hops_pre st1 ops2) -> hops_pre st (ops1 ++ ops2).
Proof.
  induction ops1 as [|o r IH]; intros ops2 st P1 P2; simpl.
  - apply P2. reflexivity.
  - destruct P1 as [P0 Pr]. split; [exact P0|]. intros st1 E. apply IH; [apply Pr; exact E|].
    intros st2 E2. apply P2. simpl. rewrite E. exact E2.
Qed.

(** the states a client can bring a manager with [n] initial variables into *)
Definition hreach (n : nat) (st : hstate) : Prop :=
  exists ops, hops_pre (hinit n) ops /\ hrun (hinit n) ops = Some st.

Theorem hreach_init : forall n, hreach n (hinit n).
Proof. intros n. exists []. split; [exact I | reflexivity]. Qed.

Theorem hreach_inv : forall n st, hreach n st -> HInv st.
Proof.
  intros n st [ops [P E]]. destruct (hrun_ok ops (hinit n) (hinit_inv n) P) as [st' [E' I']].
  rewrite E in E'. inversion E'; subst. exact I'.
Qed.

Theorem hreach_step : forall n st o st', hreach n st -> hop_pre st o -> hstep st o = Some st' ->
  hreach n st'.
Proof.
  intros n st o st' [ops [P E]] Pre Es. exists (ops ++ [o]). split.
  - apply hops_pre_app; [exact P|]. intros st1 E1. rewrite E in E1. inversion E1; subst st1.
    simpl. split; [exact Pre | intros; exact Logic.I].
  - rewrite hrun_app, E. simpl. rewrite Es. reflexivity.
Qed.

(** (1) no well-formed request ever gets stuck, from any reachable state *)
Theorem hist_progress : forall n st o, hreach n st -> hop_pre st o ->
  exists st', hstep st o = Some st' /\ hreach n st' /\ hframe st o st' /\ hpost st o st'.
Proof.
  intros n st o R Pre. destruct (step_ok st o (hreach_inv n st R) Pre) as [st' [E [_ [F P]]]].
  exists st'. split; [exact E|]. split; [apply (hreach_step n st o st' R Pre E)|]. auto.
Qed.

(** (1) C03: after any history the table passes the structural checker *)
Theorem hist_wf : forall n st, hreach n st ->
  wf_b (h_s C st) = true /\ bdd_ok_b (h_s C st) = true.
Proof.
  intros n st R. pose proof (hi_bdd C cget st (hreach_inv n st R)) as B.
  split; [apply wf_b_spec; apply (bo_wf _ B) | apply bdd_ok_b_spec; exact B].
Qed.

(** ** Canonicity *)

Lemma bfun_eq_den : forall s r1 r2 phi, BddOK s -> Den s r1 phi -> ref_ok s r2 ->
  (forall a, bfun_of s r1 a = bfun_of s r2 a) -> Den s r2 phi.
Proof.
  intros s r1 r2 phi B D1 O2 Heq. pose proof (bo_wf s B) as H.
  destruct (den_exists s r2 B O2) as [psi D2].
  apply (den_ext s r2 psi phi D2). intros c Hc.
  rewrite (den_bfun s H r2 psi c D2 Hc), (den_bfun s H r1 phi c D1 Hc). symmetry. apply Heq.
Qed.

Theorem hinv_canonical : forall st, HInv st ->
  forall x y ex ey, hget (s_handles (h_s C st)) x = Some ex -> hget (s_handles (h_s C st)) y = Some ey ->
  (ex = ey <-> forall a, bfun_of (h_s C st) (eref ex) a = bfun_of (h_s C st) (eref ey) a).
Proof.
  intros st I x y ex ey Ex Ey. pose proof (hi_bdd C cget st I) as B.
  destruct (bdd_handle_ok _ (x, ex) B (hget_In _ _ _ Ex)) as [Ox Tx].
  destruct (bdd_handle_ok _ (y, ey) B (hget_In _ _ _ Ey)) as [Oy Ty]. simpl in *.
  split; [intros ->; reflexivity|]. intros Heq.
  destruct (den_exists _ (eref ex) B Ox) as [phi Dx].
  apply edge_ext; [|congruence].
  apply (den_canon _ _ _ phi B Dx). apply (bfun_eq_den _ (eref ex) (eref ey) phi B Dx Oy Heq).
Qed.

(** (2) C01: after any history, two slots hold the same edge iff they denote
    the same function of the manager's variables *)
Theorem hist_canonical : forall n st, hreach n st ->
  forall x y ex ey, hget (s_handles (h_s C st)) x = Some ex -> hget (s_handles (h_s C st)) y = Some ey ->
  (ex = ey <-> forall a, bfun_of (h_s C st) (eref ex) a = bfun_of (h_s C st) (eref ey) a).
Proof. intros n st R. apply hinv_canonical. apply (hreach_inv n st R). Qed.

(** ** The frame, slot by slot *)

(** (3) a call changes neither the edge nor the function of any slot other than its destination *)
Theorem hist_frame_slots : forall st o st', HInv st -> hop_pre st o -> hstep st o = Some st' ->
  forall x e, hdst o <> Some x -> hget (s_handles (h_s C st)) x = Some e ->
  hget (s_handles (h_s C st')) x = Some e /\
  ref_ok (h_s C st') (eref e) /\
  forall a, bfun_of (h_s C st') (eref e) a = bfun_of (h_s C st) (eref e) a.
Proof.
  intros st o st' I Pre E x e Hx Eg. destruct (step_ok st o I Pre) as [st1 [E1 [_ [[F1 [F2 _]] _]]]].
  rewrite E in E1. inversion E1; subst st1. split; [rewrite (F1 x Hx); exact Eg|].
  apply F2. left. exists (x, e). split; [apply hget_In; exact Eg | reflexivity].
Qed.

(** (3) along a whole history: as long as no call names slot [x] as its
    destination, the slot keeps its edge, and the edge keeps its function of
    the variables - through operations, collections, reorderings, added
    variables, with any cache behaviour *)
Theorem hist_slot_stable : forall ops st st', HInv st -> hops_pre st ops -> hrun st ops = Some st' ->
  forall x e, (forall o, In o ops -> hdst o <> Some x) ->
  hget (s_handles (h_s C st)) x = Some e ->
  hget (s_handles (h_s C st')) x = Some e /\
  ref_ok (h_s C st') (eref e) /\
  forall a, bfun_of (h_s C st') (eref e) a = bfun_of (h_s C st) (eref e) a.
Proof.
  induction ops as [|o rest IH]; intros st st' I Pre E x e Hx Eg.
  - simpl in E. inversion E; subst st'. split; [exact Eg|]. split; [|reflexivity].
    apply (bdd_handle_ok _ (x, e) (hi_bdd C cget st I) (hget_In _ _ _ Eg)).
  - destruct Pre as [P0 Prest]. simpl in E.
    destruct (step_ok st o I P0) as [st1 [E1 [I1 _]]]. rewrite E1 in E.
    destruct (hist_frame_slots st o st1 I P0 E1 x e (Hx o (or_introl eq_refl)) Eg) as [G1 [_ F1]].
    destruct (IH st1 st' I1 (Prest st1 E1) E x e (fun o' Ho => Hx o' (or_intror Ho)) G1) as [G2 [O2 F2]].
    split; [exact G2|]. split; [exact O2|]. intros a. rewrite F2. apply F1.
Qed.

(** the functions inside substitution objects are kept as well *)
Theorem hist_frame_subst : forall st o st', HInv st -> hop_pre st o -> hstep st o = Some st' ->
  forall id pairs v r, In (id, pairs) (h_reg C st) -> In (v, r) pairs ->
  ref_ok (h_s C st') r /\ forall a, bfun_of (h_s C st') r a = bfun_of (h_s C st) r a.
Proof.
  intros st o st' I Pre E id pairs v r Hin Hp. destruct (step_ok st o I Pre) as [st1 [E1 [_ [[_ [F2 _]] _]]]].
  rewrite E in E1. inversion E1; subst st1. apply F2. right. exists id, pairs, v. auto.
Qed.

(** a function of a table reads only the table's variables *)
Lemma bfun_of_local : forall s r a a', WF s -> (forall v, v < nlevels s -> a v = a' v) ->
  bfun_of s r a = bfun_of s r a'.
Proof.
  intros s r a a' H Hag. unfold bfun_of.
  rewrite (semk_ext_lt s H _ r (choice_of s a) (choice_of s a')); [reflexivity|].
  intros l Hl. unfold choice_of. destruct (vl_spec s H l Hl) as [E [_ Hv]]. rewrite E, (Hag _ Hv). reflexivity.
Qed.

(** (3) C16 along a whole history: however many variables are added meanwhile
    (and whatever else happens), an existing handle denotes the function it
    denoted, which reads only the variables that existed then *)
Theorem hist_handle_function_fixed : forall ops st st', HInv st -> hops_pre st ops -> hrun st ops = Some st' ->
  forall x e, (forall o, In o ops -> hdst o <> Some x) ->
  hget (s_handles (h_s C st)) x = Some e ->
  hget (s_handles (h_s C st')) x = Some e /\
  forall a a', (forall v, v < nlevels (h_s C st) -> a v = a' v) ->
    bfun_of (h_s C st') (eref e) a = bfun_of (h_s C st) (eref e) a'.
Proof.
  intros ops st st' I Pre E x e Hx Eg.
  destruct (hist_slot_stable ops st st' I Pre E x e Hx Eg) as [G [_ F]].
  split; [exact G|]. intros a a' Hag. rewrite F.
  apply (bfun_of_local _ _ a a' (bo_wf _ (hi_bdd C cget st I)) Hag).
Qed.

(** (3) C16: [add_vars] changes no node, no slot, and every function of the
    old table is the old function, which ignores the new variables *)
Theorem hist_add_vars : forall st k st', HInv st -> hstep st (HAddVars k) = Some st' ->
  nlevels (h_s C st') = nlevels (h_s C st) + k /\
  s_nodes (h_s C st') = s_nodes (h_s C st) /\
  s_handles (h_s C st') = s_handles (h_s C st) /\
  (forall v, v < nlevels (h_s C st) -> nth_error (s_v2l (h_s C st')) v = nth_error (s_v2l (h_s C st)) v) /\
  (forall i, i < k -> nth_error (s_v2l (h_s C st')) (nlevels (h_s C st) + i) = Some (nlevels (h_s C st) + i)) /\
  forall r, ref_ok (h_s C st) r ->
    ref_ok (h_s C st') r /\
    forall a a', (forall v, v < nlevels (h_s C st) -> a v = a' v) ->
      bfun_of (h_s C st') r a = bfun_of (h_s C st) r a'.
Proof.
  intros st k st' I E. simpl in E. inversion E; subst st'. clear E. simpl.
  pose proof (bo_wf _ (hi_bdd C cget st I)) as H.
  assert (Lv : length (s_v2l (h_s C st)) = nlevels (h_s C st)) by (apply (wf_perm_len _ H)).
  rewrite widen_add_vars. split; [apply widen_nlevels|]. split; [reflexivity|]. split; [reflexivity|].
  split; [|split].
  - intros v Hv. simpl. apply nth_error_app1. lia.
  - intros i Hi. simpl. rewrite (nth_error_app_seq _ _ k _ Lv).
    destruct (Nat.ltb_spec (nlevels (h_s C st) + i) (nlevels (h_s C st))); [lia|].
    destruct (Nat.ltb_spec (nlevels (h_s C st) + i) (nlevels (h_s C st) + k)); [reflexivity | lia].
  - intros r Ok. split; [apply ref_ok_widen; exact Ok|]. intros a a' Hag.
    rewrite (bfun_of_widen _ _ _ r a H Ok). apply (bfun_of_local _ r a a' H Hag).
Qed.

(** (3) C08: [set_var_order] changes no slot and no function of the variables,
    and establishes the requested relative order *)
Theorem hist_reorder_keeps : forall st order st', HInv st ->
  hop_pre st (HSetVarOrder order) -> hstep st (HSetVarOrder order) = Some st' ->
  HInv st' /\
  nlevels (h_s C st') = nlevels (h_s C st) /\
  s_handles (h_s C st') = s_handles (h_s C st) /\
  (forall x e, hget (s_handles (h_s C st)) x = Some e ->
     ref_ok (h_s C st') (eref e) /\
     forall a, bfun_of (h_s C st') (eref e) a = bfun_of (h_s C st) (eref e) a) /\
  (forall a b, a < b < length order ->
     nth (nth a order 0) (s_v2l (h_s C st')) 0 < nth (nth b order 0) (s_v2l (h_s C st')) 0).
Proof.
  intros st order st' I Pre E. destruct (step_ok st _ I Pre) as [st1 [E1 [I1 [[_ [F2 _]] P]]]].
  rewrite E in E1. inversion E1; subst st1. simpl in P. destruct P as [P1 P2].
  split; [exact I1|]. split; [exact P1|]. split; [|split; [|exact P2]].
  - simpl in E. destruct (Nat.leb (length order) 1); [inversion E; reflexivity|].
    destruct (order_ok_b _ order); [|discriminate].
    destruct (nat_list_eqb _ _); inversion E; reflexivity.
  - intros x e Eg. apply F2. left. exists (x, e). split; [apply hget_In; exact Eg | reflexivity].
Qed.

(** ** The request checker *)

Lemma nodup_b_spec : forall l, nodup_b l = true <-> NoDup l.
Proof.
  induction l as [|x r IH]; simpl.
  - split; [constructor | reflexivity].
  - rewrite andb_true_iff, negb_true_iff, IH. split.
    + intros [A B]. constructor; [|exact B]. intros Hin.
      assert (X : existsb (Nat.eqb x) r = true) by (apply existsb_exists; exists x; split; [exact Hin | apply Nat.eqb_refl]).
      congruence.
    + intros Hnd. inversion Hnd as [|? ? Hx Hr]; subst. split; [|exact Hr].
      destruct (existsb (Nat.eqb x) r) eqn:X; [|reflexivity]. exfalso. apply Hx.
      apply existsb_exists in X. destruct X as [y [Hy E]]. apply Nat.eqb_eq in E. subst. exact Hy.
Qed.

Lemma occupied_b_spec : forall st k, occupied_b C st k = true <-> occupied C st k.
Proof.
  intros st k. unfold occupied_b, occupied. destruct (hslot C st k) as [r|].
  - split; [eauto | reflexivity].
  - split; [discriminate | intros [r E]; discriminate].
Qed.

Theorem hop_pre_b_spec : forall st o, hop_pre_b C st o = true <-> hop_pre st o.
Proof.
  intros st o. destruct o; simpl;
    rewrite ?andb_true_iff, ?occupied_b_spec, ?Nat.ltb_lt; try tauto.
  - (* HNewSubst *)
    rewrite nodup_b_spec, forallb_forall. split.
    + intros [A B]. split; [exact A|]. intros v k Hin. specialize (B (v, k) Hin). simpl in B.
      rewrite andb_true_iff, Nat.ltb_lt, occupied_b_spec in B. exact B.
    + intros [A B]. split; [exact A|]. intros [v k] Hin. simpl.
      rewrite andb_true_iff, Nat.ltb_lt, occupied_b_spec. apply (B v k Hin).
  - (* HSubst *)
    destruct (hreg_fn (h_reg C st) id) as [p|]; split.
    + intros [A _]. split; [exact A | eauto].
    + intros [A _]. auto.
    + intros [_ X]. discriminate.
    + intros [_ [p X]]. discriminate.
  - (* HSetVarOrder *)
    rewrite SortOrderProofs.order_ok_b_valid. unfold SortOrderProofs.valid_order. tauto.
Qed.

Theorem hops_pre_b_spec : forall ops st, hops_pre_b gt C cget cadd cempty st ops = true -> hops_pre st ops.
Proof.
  induction ops as [|o rest IH]; intros st Hb; simpl in *; [exact I|].
  apply andb_true_iff in Hb. destruct Hb as [A B]. split; [apply hop_pre_b_spec; exact A|].
  intros st1 E. rewrite E in B. apply IH. exact B.
Qed.

(** a history accepted by the checker runs to completion, in a reachable state *)
Theorem hrun_checked : forall n ops, hops_pre_b gt C cget cadd cempty (hinit n) ops = true ->
  exists st, hrun (hinit n) ops = Some st /\ hreach n st.
Proof.
  intros n ops Hb. pose proof (hops_pre_b_spec ops (hinit n) Hb) as P.
  destruct (hrun_ok ops (hinit n) (hinit_inv n) P) as [st [E _]].
  exists st. split; [exact E|]. exists ops. auto.
Qed.

End Thms.
