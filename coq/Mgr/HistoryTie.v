(** * Every branch of [hstep] IS the executable model of the package that is
      compared with the real code

    [hstep] (Mgr/History.v) was written by putting the existing models
    together.  This file states that composition as equations, so that what
    the correspondence runs establish for the parts carries over:

    - [hstep_is_mstep]: on constants / variables / not / binary / ite / clone /
      drop, [hstep] is [mstep] of DD/ConfigApply.v (exercised by ./check C20
      and, through [apply_*_g_seq], the model of ./check C02 / C06) for the
      sequential schedule and the [fresh_id] node store;
    - [hstep_is_qstep_*]: on the quantifier / restrict / substitute calls it is
      [qstep] of DD/QuantHistory.v (./check C04) on the edges found in the slots;
    - [add_vars_is_add_levels]: [HAddVars] is [add_levels] of DD/ZbddVars.v (./check C09);
    - [HSetVarOrder] is by definition [set_var_order_model] of Mgr/LevelSwap.v
      (./check C08) and [HGc] yields [collected] of Mgr/OomGc.v
      ([gc_model_collected], Mgr/HistoryGc.v; ./check C05 / C14 for the real collection). *)

From Coq Require Import List NArith PArith Bool Arith FMapPositive.
From OxiVerif Require Import DD.Table DD.Sem DD.Build DD.Apply DD.ConfigApply DD.ConfigProofs
  DD.Quant DD.QuantHistory DD.ZbddVars Mgr.History.
Import ListNotations.

Local Arguments apply_not_g : simpl never.
Local Arguments apply_bin_g : simpl never.
Local Arguments apply_ite_g : simpl never.
Local Arguments apply_not : simpl never.
Local Arguments apply_bin : simpl never.
Local Arguments apply_ite : simpl never.
Local Arguments hget : simpl never.

Definition of_mop (o : mop) : hop :=
  match o with
  | MConst d b => HConst d b
  | MVar d v neg => HVar d v neg
  | MNot d a => HNot d a
  | MBin d o a b => HBin o d a b
  | MIte d a b c => HIte d a b c
  | MClone d a => HClone d a
  | MDrop d => HDrop d
  end.

Lemma mk_var_a_fresh : forall s v neg, mk_var_a fresh_id s v neg = mk_var s v neg.
Proof. reflexivity. Qed.

Lemma hreg_fn_reg_fn : forall reg id, hreg_fn reg id = reg_fn reg id.
Proof. induction reg as [|[i p] r IH]; intros id; simpl; [reflexivity | rewrite IH; reflexivity]. Qed.

Theorem add_vars_is_add_levels : forall s k, add_vars_model s k = add_levels s k.
Proof. reflexivity. Qed.

Section Tie.
Variable gt : ref -> ref -> bool.
Variable C : Type.
Variable cget : C -> N -> list ref -> option ref.
Variable cadd : C -> N -> list ref -> ref -> C.
Variable cempty : C.

Notation hstep := (hstep gt C cget cadd cempty).
Notation mstep := (mstep fresh_id gt C cget cadd (fun _ => SSeq)).
Notation qstep := (qstep gt C cget cadd cempty).

(** table and cache after the call, as the C20 model computes them; the
    substitution registry is not touched *)
Theorem hstep_is_mstep : forall (st : hstate C) k o,
  match hstep st (of_mop o), mstep (mkM C (h_s C st) (h_c C st) k) o with
  | Some st', Some m' =>
    h_s C st' = m_snap C m' /\ h_c C st' = m_cache C m' /\
    h_reg C st' = h_reg C st /\ h_next C st' = h_next C st
  | None, None => True
  | _, _ => False
  end.
Proof.
  intros st k o. destruct o as [d b|d v neg|d a|d o a b|d a b c|d a|d]; simpl.
  - destruct (mk_const (h_s C st) b); simpl; auto.
  - change (mk_var_a fresh_id (h_s C st) v neg) with (mk_var (h_s C st) v neg).
    destruct (mk_var (h_s C st) v neg) as [[s' r]|]; simpl; auto.
  - unfold hslot. destruct (hget (s_handles (h_s C st)) a) as [ea|]; [|exact I].
    rewrite apply_not_g_seq.
    destruct (apply_not C cget cadd (S (nlevels (h_s C st))) (h_s C st) (h_c C st) (eref ea)) as [[[s' c'] r]|];
      simpl; auto.
  - unfold hslot. destruct (hget (s_handles (h_s C st)) a) as [ea|]; [|exact I].
    destruct (hget (s_handles (h_s C st)) b) as [eb|]; [|exact I].
    rewrite apply_bin_g_seq.
    destruct (apply_bin gt C cget cadd (S (nlevels (h_s C st))) (h_s C st) (h_c C st) o (eref ea) (eref eb))
      as [[[s' c'] r]|]; simpl; auto.
  - unfold hslot. destruct (hget (s_handles (h_s C st)) a) as [ea|]; [|exact I].
    destruct (hget (s_handles (h_s C st)) b) as [eb|]; [|exact I].
    destruct (hget (s_handles (h_s C st)) c) as [ec|]; [|exact I].
    rewrite apply_ite_g_seq.
    destruct (apply_ite gt C cget cadd (S (nlevels (h_s C st))) (h_s C st) (h_c C st) (eref ea) (eref eb) (eref ec))
      as [[[s' c'] r]|]; simpl; auto.
  - unfold hslot. destruct (hget (s_handles (h_s C st)) a) as [ea|]; simpl; auto.
  - auto.
Qed.

(** the state of DD/QuantHistory.v inside a manager state *)
Definition to_q (st : hstate C) : qstate C := mkQ C (h_s C st) (h_c C st) (h_reg C st) (h_next C st).

(** store what [qstep] returned *)
Definition of_q (st : hstate C) (d : N) (res : option (qstate C * option ref)) : option (hstate C) :=
  match res with
  | Some (qs, Some r) => Some (mkH C (put (q_s C qs) d r) (q_c C qs) (q_reg C qs) (q_next C qs))
  | _ => None
  end.

Lemma of_q_with_res : forall st d res,
  of_q st d (with_res C (to_q st) res) = hfinish C st d res.
Proof. intros st d [[[s' c'] r]|]; reflexivity. Qed.

Theorem hstep_is_qstep_quant : forall st q d a vars f V,
  hslot C st a = Some f -> hslot C st vars = Some V ->
  hstep st (HQuant q d a vars) = of_q st d (qstep (to_q st) (QOQuant q f V)).
Proof. intros st q d a vars f V Ef Ev. simpl. rewrite Ef, Ev, of_q_with_res. reflexivity. Qed.

Theorem hstep_is_qstep_apply_quant : forall st q op d a b vars f g V,
  hslot C st a = Some f -> hslot C st b = Some g -> hslot C st vars = Some V ->
  hstep st (HApplyQuant q op d a b vars) = of_q st d (qstep (to_q st) (QOApplyQuant q op f g V)).
Proof. intros st q op d a b vars f g V Ef Eg Ev. simpl. rewrite Ef, Eg, Ev, of_q_with_res. reflexivity. Qed.

Theorem hstep_is_qstep_restrict : forall st d a cube f V,
  hslot C st a = Some f -> hslot C st cube = Some V ->
  hstep st (HRestrict d a cube) = of_q st d (qstep (to_q st) (QORestrict f V)).
Proof. intros st d a cube f V Ef Ev. simpl. rewrite Ef, Ev, of_q_with_res. reflexivity. Qed.

Theorem hstep_is_qstep_subst : forall st d a id f,
  hslot C st a = Some f ->
  hstep st (HSubst d a id) = of_q st d (qstep (to_q st) (QOSubst f id)).
Proof.
  intros st d a id f Ef. simpl. rewrite Ef.
  change (reg_fn (h_reg C st) id) with (hreg_fn (h_reg C st) id).
  destruct (hreg_fn (h_reg C st) id) as [rp|]; [rewrite of_q_with_res|]; reflexivity.
Qed.

Theorem hstep_is_qstep_new_subst : forall st pairs rp,
  resolve_pairs (s_handles (h_s C st)) pairs = Some rp ->
  match hstep st (HNewSubst pairs), qstep (to_q st) (QONewSubst rp) with
  | Some st', Some (qs, None) => to_q st' = qs
  | _, _ => False
  end.
Proof. intros st pairs rp E. simpl. rewrite E. reflexivity. Qed.

End Tie.
