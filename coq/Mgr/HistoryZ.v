(** * One manager state machine over ALL operation kinds, ZBDD kind

    Executable definitions only (proofs: Mgr/HistoryZBase.v, HistoryZProofs.v,
    HistoryZThms.v, HistoryZSpec.v; a concrete run: Mgr/HistoryZExamples.v).

    The ZBDD counterpart of Mgr/History.v (plain BDD) and Mgr/HistoryC.v
    (complement edges): the per-operation models of the ZBDD kind are put
    together into ONE transition system whose state is what a client of the
    library holds on to between two calls:

    - [hz_s] : the node table (a [snap] of kind [KZbdd]); its handle list
               [s_handles] are the client's [ZBDDFunction] values, named by slot
               numbers (ZBDD edges carry no tag: a slot holds a reference);
    - [hz_c] : the apply cache (abstract: any lossy cache keyed by operator
               code, operand edges and numeric operands, DD/ZbddOpsProofs.v).

    There are no substitution objects ([ZBDDFunction] implements neither
    [FunctionSubst] nor [BooleanFunctionQuant]), hence no registry.  What a ZBDD
    manager owns besides the table is the TAUTOLOGY CHAIN of [ZBDDCache]
    (oxidd-rules-zbdd/src/lib.rs: [tautologies], one edge per level plus Base).
    A snapshot has no such field; as in DD/ZbddBool.v the chain is looked up in
    the unique table ([ztaut s l]) exactly as [post_reorder_mut] builds it.  The
    chain edges are references held by the manager: they are roots of garbage
    collection ([with_chain]), they are released and the unshared chain nodes
    removed before a reordering ([zchain_drop]) and the chain is rebuilt
    afterwards and after [add_vars] ([ztaut_chain]).

    One [zhop] is one API call; operands are slot numbers:

    - [ZHConst], [ZHVar], [ZHNot], [ZHBin], [ZHIte], [ZHRestrict]: the
      [BooleanFunction] interface of oxidd-rules-zbdd/src/apply_rec.rs:
      [f_edge]/[t_edge] = [zconst]; [var_edge] = [zvar], [not_var_edge] (default of
      oxidd-core: [not_edge_owned(var_edge)]) = [znot_var]; [not_edge] =
      [zapply_not]; the eight connectives = [zapply_op]; [ite_edge] = [zapply_ite];
      [restrict_edge] = [zrestrict_edge] (all of DD/ZbddBool.v);
    - [ZHEmpty], [ZHBase], [ZHSingleton], [ZHSub] (subset0 / subset1 / change),
      [ZHSet] (union / intsec / diff), [ZHMakeNode]: the [BooleanVecSet]
      interface and [oxidd_rules_zbdd::make_node] = [zempty], [zbase],
      [zsingleton], [zsubset_top], [zapply], [zmake_node] of DD/ZbddOps.v;
    - [ZHClone], [ZHDrop]: [Function::clone] / [drop];
    - [ZHGc]: [Manager::gc] of oxidd-manager-index/src/manager.rs (generic in the
      rule set).  As in Mgr/History.v the result is computed directly:
      [gc_model] (kind independent) marks what is reachable from the roots and
      drops the rest; the roots are the handles AND the chain edges, which the
      manager data owns ([ZBDDCache] is not touched by [pre_gc]/[post_gc]).
      [pre_gc] of the apply cache clears it: [hz_c := cempty];
    - [ZHAddVars k]: [Manager::add_vars]: [pre_reorder_mut] (releases the chain
      edges; [try_remove_node] removes nothing because no reordering is
      prepared, the old chain nodes stay in the table as ordinary unreferenced
      nodes), [k] new levels at the bottom, [post_reorder_mut] builds the chain
      for the new number of levels: [zadd_vars] of DD/ZbddVars.v.
      The apply cache is NOT cleared (see below);
    - [ZHSetVarOrder order]: [oxidd_reorder::set_var_order]
      (oxidd-reorder/src/set_var_order/mod.rs, generic in the manager): the
      same early returns / panics as in Mgr/History.v (at most one variable named
      or already sorted: nothing happens, the cache survives; out of range /
      named twice: [None]), otherwise inside ONE [Manager::reorder] bracket
      (cache cleared by [pre_gc]): [set_var_order_model_z] of Mgr/LevelSwapZ.v =
      chain dropped ([zchain_drop]), the adjacent [level_swap_zc]s of the bubble
      sort, chain rebuilt ([zchain_rebuild]).

    The apply cache across [add_vars].  [Manager::add_vars] only raises
    [pre_reorder]/[post_reorder]; the direct-mapped apply cache
    (oxidd-cache/src/direct.rs) implements only [pre_gc]/[post_gc]: EVERY entry
    survives [add_vars] ([hz_c] is unchanged).  All entries of a ZBDD apply cache
    are statements about FAMILIES of level sets and do not depend on the number
    of levels - except [ZBDDOp::Restrict]: its result depends on the number of
    levels through the Base terminal of the cube (= "all remaining variables
    negative") and through [tautology(level)] in [restrict_base].  Therefore
    [restrict] (oxidd-rules-zbdd/src/apply_rec.rs, since the fix f8637cd) keys
    its entries by the operand edges AND [manager.num_levels()]
    ([get_extended] / [add_extended]), and so does the per-operation model
    [zrestrict] of DD/ZbddBool.v (numeric operand [[nlevels s]]): the state
    machine runs every algorithm on the plain cache [cget] / [cadd].  (Without
    the level in the key a [restrict] repeated after [add_vars] is served the
    result for the old number of levels: the defect fixed by f8637cd, witness
    in notes/HISTz.md and Mgr/HistoryZExamples.v, replayed with the defective
    variant [zrestrict_unkeyed] below.)

    The code before f8637cd and the view that repairs it.  [zrestrict_unkeyed]
    is [restrict] as it was (Restrict entries keyed by the operand edges only);
    [zcgetN n] / [zcaddN n] append [n] to the numeric operands of the Restrict
    code ([zkeyN]) and are the identity on every other code.  Running the
    un-keyed algorithm on the cache seen through the view at the current number
    of levels IS the model [zrestrict] (Mgr/HistoryZCache.v [zrestrict_view]):
    the fix adds exactly this operand.

    [hstep_z] returns [None] when the client's request is malformed (empty
    slot, unknown variable) or when one of the code's [unwrap]s would panic;
    HistoryZProofs.v shows that from the empty manager neither happens for
    well-formed requests. *)

From Coq Require Import List NArith PArith Bool Arith FMapPositive.
From OxiVerif Require Import DD.Table DD.Sem DD.Build DD.Apply DD.ConfigApply DD.FamSpec
  DD.ZbddOps DD.ZbddBool DD.ZbddVars Mgr.SortOrder Mgr.LevelSwap Mgr.LevelSwapZ Mgr.History.
Import ListNotations.

(** ** The requests *)

Inductive zhop :=
| ZHConst (dst : N) (b : bool)
| ZHVar (dst : N) (v : nat) (neg : bool)
| ZHNot (dst a : N)
| ZHBin (op : bop) (dst a b : N)
| ZHIte (dst a b c : N)
| ZHRestrict (dst a cube : N)
| ZHEmpty (dst : N)
| ZHBase (dst : N)
| ZHSingleton (dst : N) (v : nat)
| ZHSub (o : zsub) (dst a : N) (v : nat)
| ZHSet (o : zop) (dst a b : N)
| ZHMakeNode (dst var hi lo : N)
| ZHClone (dst a : N)
| ZHDrop (a : N)
| ZHGc
| ZHAddVars (k : nat)
| ZHSetVarOrder (order : list nat).

(** the destination slot of a call (the only slot whose content may change) *)
Definition zhdst (o : zhop) : option N :=
  match o with
  | ZHConst d _ | ZHVar d _ _ | ZHNot d _ | ZHBin _ d _ _ | ZHIte d _ _ _ | ZHRestrict d _ _
  | ZHEmpty d | ZHBase d | ZHSingleton d _ | ZHSub _ d _ _ | ZHSet _ d _ _ | ZHMakeNode d _ _ _
  | ZHClone d _ => Some d
  | ZHDrop a => Some a
  | ZHGc | ZHAddVars _ | ZHSetVarOrder _ => None
  end.

(** ** The tautology chain as the manager's own references *)

(** [ZBDDCache::tautologies]: the edges [taut(0) .. taut(n)] (the last one is Base),
    as handle-list entries *)
Definition zchain_roots (s : snap) : list (N * edge) :=
  flat_map (fun l => match ztaut s l with Some t => [(0%N, E t)] | None => [] end)
           (seq 0 (S (nlevels s))).

(** the table as garbage collection sees it: the chain edges count as external
    references too *)
Definition with_chain (s : snap) : snap :=
  set_handles s (s_handles s ++ zchain_roots s).

(** ** The state machine *)

Section MachineZ.
(** the configuration: the (unobservable) edge order [f > g] of union / intsec /
    symm_diff, the apply cache, its cleared state *)
Variable gt : ref -> ref -> bool.
Variable C : Type.
Variable cget : C -> N -> list ref -> list nat -> option ref.
Variable cadd : C -> N -> list ref -> list nat -> ref -> C.
Variable cempty : C.

(** the view of the cache that turns the un-keyed [restrict] of the code before
    f8637cd into the code as it is: [ZBDDOp::Restrict] entries carry [n] as (last)
    numeric operand (the state machine does not use it: DD/ZbddBool.v [zrestrict]
    has the operand itself; Mgr/HistoryZCache.v [zrestrict_view]) *)
Definition zkeyN (n : nat) (code : N) (nums : list nat) : list nat :=
  if N.eqb code zcode_restrict then nums ++ [n] else nums.
Definition zcgetN (n : nat) : C -> N -> list ref -> list nat -> option ref :=
  fun c code args nums => cget c code args (zkeyN n code nums).
Definition zcaddN (n : nat) : C -> N -> list ref -> list nat -> ref -> C :=
  fun c code args nums r => cadd c code args (zkeyN n code nums) r.

(** [restrict] of oxidd-rules-zbdd/src/apply_rec.rs BEFORE the fix f8637cd: the
    apply-cache entry is keyed by the operand edges only ([get] / [add] with
    [&[f, vars]]).  A DEFECTIVE variant, kept for the example
    [exz_restrict_unkeyed] and for [zrestrict_view]; everything else is
    [zrestrict] of DD/ZbddBool.v, line by line. *)
Fixpoint zrestrict_unkeyed (fuel : nat) (s : snap) (c : C) (f vars : ref) (level : nat)
  : option (snap * C * ref) :=
  match fuel with
  | O => None
  | S n =>
    match zget s f with
    | None => None
    | Some (ZT v) =>
      if N.eqb v 0 then Some (s, c, f)
      else
        match zrestrict_base fuel s vars level with
        | Some (s1, r) => Some (s1, c, r)
        | None => None
        end
    | Some (ZI fnd) =>
      match zget s vars, nchildren fnd with
      | Some vnode, [fhi; flo] =>
        let flevel := nstored fnd in
        match lcmp (vlevel vnode) (Some level) with
        | Eq =>
          match zkids vnode with
          | None => None
          | Some (vhi, vlo) =>
            if negb (ref_eqb vhi vlo) then
              if negb (Nat.eqb flevel level) then
                match zempty s with Some e => Some (s, c, e) | None => None end
              else
                match zrestrict_unkeyed n s c (eref fhi) vhi (S level) with
                | None => None
                | Some (s1, c1, child) =>
                  let '(s2, r) := zmk_node1 s1 level child in Some (s2, c1, r)
                end
            else if negb (Nat.eqb flevel level) then zrestrict_unkeyed n s c f vhi (S level)
            else
              match cget c zcode_restrict [f; vars] [] with
              | Some r => Some (s, c, r)
              | None =>
                match zrestrict_unkeyed n s c (eref fhi) vhi (S level) with
                | None => None
                | Some (s1, c1, hi) =>
                  match zrestrict_unkeyed n s1 c1 (eref flo) vhi (S level) with
                  | None => None
                  | Some (s2, c2, lo) =>
                    let '(s3, r) := zmk_node s2 level hi lo in
                    Some (s3, cadd c2 zcode_restrict [f; vars] [] r, r)
                  end
                end
              end
          end
        | _ =>
          let sel := if Nat.eqb flevel level then eref flo else f in
          match zrestrict_unkeyed n s c sel vars (S level) with
          | None => None
          | Some (s1, c1, child) =>
            let '(s2, r) := zmk_node1 s1 level child in Some (s2, c1, r)
          end
        end
      | _, _ => None
      end
    end
  end.

Record hstate_z := mkHZ { hz_s : snap; hz_c : C }.

(** store the result of an algorithm in slot [d] *)
Definition zfinish (d : N) (res : option (snap * C * ref)) : option hstate_z :=
  match res with
  | Some (s', c', r) => Some (mkHZ (put s' d r) c')
  | None => None
  end.

(** the same for the algorithms that do not touch the apply cache *)
Definition zfinish0 (c : C) (d : N) (res : option (snap * ref)) : option hstate_z :=
  match res with
  | Some (s', r) => Some (mkHZ (put s' d r) c)
  | None => None
  end.

Definition zslot (st : hstate_z) (k : N) : option ref :=
  match hget (s_handles (hz_s st)) k with Some e => Some (eref e) | None => None end.

Definition hstep_z (st : hstate_z) (o : zhop) : option hstate_z :=
  let s := hz_s st in
  let c := hz_c st in
  let fuel := S (nlevels s) in
  match o with
  | ZHConst d b =>
    match zconst s b with
    | Some r => Some (mkHZ (put s d r) c)
    | None => None
    end
  | ZHVar d v neg =>
    if neg then zfinish d (znot_var gt C cget cadd fuel s c v)
    else zfinish0 c d (zvar s v)
  | ZHNot d a =>
    match zslot st a with
    | Some f => zfinish d (zapply_not gt C cget cadd fuel s c f)
    | None => None
    end
  | ZHBin op d a b =>
    match zslot st a, zslot st b with
    | Some f, Some g => zfinish d (zapply_op gt C cget cadd fuel s c op f g)
    | _, _ => None
    end
  | ZHIte d a b e =>
    match zslot st a, zslot st b, zslot st e with
    | Some f, Some g, Some h => zfinish d (zapply_ite gt C cget cadd fuel s c f g h)
    | _, _, _ => None
    end
  | ZHRestrict d a cube =>
    match zslot st a, zslot st cube with
    | Some f, Some vs => zfinish d (zrestrict_edge C cget cadd fuel s c f vs)
    | _, _ => None
    end
  | ZHEmpty d =>
    match zempty s with
    | Some r => Some (mkHZ (put s d r) c)
    | None => None
    end
  | ZHBase d =>
    match zbase s with
    | Some r => Some (mkHZ (put s d r) c)
    | None => None
    end
  | ZHSingleton d v => zfinish0 c d (zsingleton s v)
  | ZHSub op d a v =>
    match zslot st a with
    | Some f => zfinish d (zsubset_top C cget cadd fuel s c op f v)
    | None => None
    end
  | ZHSet op d a b =>
    match zslot st a, zslot st b with
    | Some f, Some g => zfinish d (zapply gt C cget cadd fuel s c op f g)
    | _, _ => None
    end
  | ZHMakeNode d var hi lo =>
    match zslot st var, zslot st hi, zslot st lo with
    | Some v, Some h, Some l => zfinish0 c d (zmake_node s v h l)
    | _, _, _ => None
    end
  | ZHClone d a =>
    match zslot st a with
    | Some f => Some (mkHZ (put s d f) c)
    | None => None
    end
  | ZHDrop a => Some (mkHZ (set_handles s (hdel (s_handles s) a)) c)
  | ZHGc =>
    Some (mkHZ (set_handles (gc_model (with_chain s)) (s_handles s)) cempty)
  | ZHAddVars k =>
    match zadd_vars s k with          (* [None] = [get_terminal(Base).unwrap()] panics *)
    | Some (s', _) => Some (mkHZ s' c)                 (* the apply cache is kept *)
    | None => None
    end
  | ZHSetVarOrder order =>
    if Nat.leb (length order) 1 then Some st                         (* "nothing to do" *)
    else if order_ok_b (nlevels s) order then
      let target := sort_order (nlevels s) (map (fun v => nth v (s_v2l s) 0) order) in
      if nat_list_eqb target (seq 0 (nlevels s)) then Some st        (* [sorted]: return before [manager.reorder] *)
      else Some (mkHZ (set_var_order_model_z s order) cempty)
    else None     (* [var_to_level] out of bounds / "`order` contains level .. twice" *)
  end.

Fixpoint hrun_z (st : hstate_z) (ops : list zhop) : option hstate_z :=
  match ops with
  | [] => Some st
  | o :: rest =>
    match hstep_z st o with
    | Some st1 => hrun_z st1 rest
    | None => None
    end
  end.

(** ** Well-formed requests, as a checker (sound for [zhop_pre] of
    Mgr/HistoryZProofs.v): operand slots occupied, variables in range, no
    variable named twice; [restrict]: the cube operand has the shape of a
    conjunction of literals (the code's [debug_assert]s; read by [zcube_lits]);
    [make_node]: the documented precondition ([var] is a singleton set whose
    level is above the levels of [hi] and [lo]) *)
Definition zoccupied_b (st : hstate_z) (k : N) : bool :=
  match zslot st k with Some _ => true | None => false end.

Definition zsingleton_above_b (s : snap) (v h l : ref) : bool :=
  match v with
  | RN id =>
    match find_node s id with
    | Some nd =>
      match nchildren nd with
      | [hi; lo] =>
        is_term_with s (eref hi) 1%N && is_term_with s (eref lo) 0%N
        && Nat.ltb (nlevel nd) (rlevel s h) && Nat.ltb (nlevel nd) (rlevel s l)
      | _ => false
      end
    | None => false
    end
  | RT _ => false
  end.

Definition zhop_pre_b (st : hstate_z) (o : zhop) : bool :=
  let s := hz_s st in
  let n := nlevels s in
  match o with
  | ZHConst _ _ | ZHEmpty _ | ZHBase _ | ZHDrop _ | ZHGc | ZHAddVars _ => true
  | ZHVar _ v _ | ZHSingleton _ v => Nat.ltb v n
  | ZHNot _ a | ZHClone _ a => zoccupied_b st a
  | ZHBin _ _ a b | ZHSet _ _ a b => zoccupied_b st a && zoccupied_b st b
  | ZHIte _ a b c => zoccupied_b st a && zoccupied_b st b && zoccupied_b st c
  | ZHRestrict _ a cube =>
    zoccupied_b st a &&
    match zslot st cube with
    | Some vs => match zcube_lits (S n) s vs 0 with Some _ => true | None => false end
    | None => false
    end
  | ZHSub _ _ a v => zoccupied_b st a && Nat.ltb v n
  | ZHMakeNode _ var hi lo =>
    match zslot st var, zslot st hi, zslot st lo with
    | Some v, Some h, Some l => zsingleton_above_b s v h l
    | _, _, _ => false
    end
  | ZHSetVarOrder order => order_ok_b n order
  end.

Fixpoint zhops_pre_b (st : hstate_z) (ops : list zhop) : bool :=
  match ops with
  | [] => true
  | o :: rest =>
    zhop_pre_b st o &&
    match hstep_z st o with
    | Some st1 => zhops_pre_b st1 rest
    | None => false
    end
  end.

End MachineZ.

(** ** The empty ZBDD manager with [n] variables ([new_manager] + [add_vars n]):
    the two terminals (0 = Empty, 1 = Base), the identity order, no handle, and
    the tautology chain that [init_mut] / [add_vars] built *)
Definition empty_snap_z (n : nat) : snap :=
  mkSnap KZbdd (PositiveMap.empty node) [(0%N, 0%N); (1%N, 1%N)] (seq 0 n) (seq 0 n) [].

Definition hinit_z (C : Type) (cempty : C) (n : nat) : hstate_z C :=
  mkHZ C (zchain_rebuild (empty_snap_z n)) cempty.
