(** * Transport lemmas for the ZBDD manager state machine (Mgr/HistoryZ.v)

    How the invariants and denotations of the per-operation ZBDD packages
    behave under the state changes that are not "run an algorithm":

    - [zbfun_fam]: the Boolean function of a reference is the membership test
      of the set of true variables (written as a level list) in its family;
    - [set_handles] / [extends]: the Boolean function is unchanged;
    - [zsubset_okB]: subset0 / subset1 / change under the full cache invariant;
    - [zadd_vars_facts]: [add_vars] + chain rebuild: [ZbddOK], complete chain, every
      old reference keeps its FAMILY, its Boolean function becomes "old function
      and all new variables false"; [zcacheokb_grows]: the cache invariant survives
      in a grown table if no Restrict entry is keyed with the new number of levels
      unless that number is unchanged (Restrict entries are keyed by the number of
      levels and say something only for the table's own number);
    - [zgc_facts]: [gc_model] on the table whose roots are the handles and the
      chain: [ZbddOK], complete chain, families of the roots unchanged;
    - [zreorder_facts]: [set_var_order_model_z]: [ZbddOK], complete chain, handles
      and their functions of the variables unchanged, requested order. *)

From Coq Require Import List NArith PArith Bool Arith Lia FMapPositive.
From OxiVerif Require Import DD.Table DD.TableExtra DD.TableProofs DD.Sem DD.Build DD.BuildProofs
  DD.Apply DD.ApplyProofs DD.ApplyEvalProofs DD.ConfigApply DD.CanonZbdd DD.FamSpec DD.FamSpecProofs
  DD.ZbddOps DD.ZbddOpsProofs DD.ZbddSubsetProofs DD.ZbddSoundProofs DD.ZbddVars DD.ZbddVarsProofs
  DD.ZbddBool DD.ZbddBoolProofs DD.ZbddXorProofs DD.ZbddIteProofs DD.ZbddEvalProofs
  DD.ConfigZbddRun DD.ConfigZbddIndep
  Mgr.SortOrder Mgr.SortOrderProofs Mgr.LevelSwap Mgr.LevelSwapProofs Mgr.LevelSwapOrder
  Mgr.LevelSwapZ Mgr.LevelSwapZProofs Mgr.LevelSwapZChain Mgr.LevelSwapZOrder Mgr.LevelSwapZFam
  Mgr.OomGc Mgr.History Mgr.HistoryBase Mgr.HistoryGc Mgr.HistoryCBase Mgr.HistoryZ.
Import ListNotations.

Local Arguments hset : simpl never.
Local Arguments hget : simpl never.
Local Arguments hdel : simpl never.

(** ** The two readings of an assignment as a choice function agree on the levels *)

Lemma choice_asg : forall s a l, l < nlevels s -> choice_of s a l = asg_choice s a l.
Proof.
  intros s a l Hl. unfold choice_of, asg_choice.
  rewrite (nth_error_nth' (s_l2v s) 0 Hl). reflexivity.
Qed.

Lemma true_levels_choice_asg : forall s a,
  true_levels (choice_of s a) 0 (nlevels s) = set_levels s a.
Proof.
  intros s a. unfold set_levels. apply true_levels_ext. intros l Hl. apply choice_asg. lia.
Qed.

(** ** The Boolean function of a reference = membership in its family *)

Theorem zbfun_fam : forall s r F a, ZbddOK s -> ref_ok s r -> fam_of s r = Some F ->
  zbfun_of s r a = fmem (set_levels s a) F.
Proof.
  intros s r F a B O EF. unfold zbfun_of, zview_of.
  rewrite (bool_view s (zo_wf s B) (zo_kind s B) r _ F O (choice_of_ok s a (zo_kind s B)) EF).
  unfold fam_bool. rewrite true_levels_choice_asg. destruct (fmem (set_levels s a) F); reflexivity.
Qed.

Lemma zbfun_eval_vars : forall s r a, ZbddOK s -> ref_ok s r ->
  eval_vars s (E r) a = Some (if zbfun_of s r a then 1%N else 0%N).
Proof.
  intros s r a B O. destruct (fam_of_total s (zo_wf s B) (zo_kind s B) r O) as [F EF].
  rewrite (eval_vars_fam s (E r) a F (zo_wf s B) (zo_kind s B) O EF).
  rewrite (zbfun_fam s r F a B O EF). reflexivity.
Qed.

Lemma semz_set_handles : forall s hs f lvl r c, semz (set_handles s hs) f lvl r c = semz s f lvl r c.
Proof.
  intros s hs. induction f as [|f IH]; intros lvl r c; destruct r as [t|id]; try reflexivity.
  rewrite !semz_S. change (find_node (set_handles s hs) id) with (find_node s id).
  destruct (find_node s id) as [nd|]; [|reflexivity].
  destruct (Nat.ltb (nlevel nd) lvl); [reflexivity|].
  destruct (all_lo c lvl (nlevel nd - lvl)); [|reflexivity].
  destruct (nth_error (nchildren nd) (c (nlevel nd))); [apply IH | reflexivity].
Qed.

Lemma zbfun_of_set_handles : forall s hs r a, zbfun_of (set_handles s hs) r a = zbfun_of s r a.
Proof.
  intros s hs r a. unfold zbfun_of, zview_of.
  change (nlevels (set_handles s hs)) with (nlevels s).
  change (choice_of (set_handles s hs) a) with (choice_of s a).
  rewrite semz_set_handles. reflexivity.
Qed.

Lemma zbfun_of_extends : forall s s' r a, ZbddOK s -> ZbddOK s' -> extends s s' -> ref_ok s r ->
  zbfun_of s' r a = zbfun_of s r a.
Proof.
  intros s s' r a B B' X O. unfold zbfun_of. rewrite (choice_of_ext s s' a X).
  rewrite (zview_extends s s' r _ B B' X O (choice_of_ok s a (zo_kind s B))). reflexivity.
Qed.

Lemma l2v_spec : forall s l, WF s -> l < nlevels s ->
  exists v, nth_error (s_l2v s) l = Some v /\ nth_error (s_v2l s) v = Some l /\ v < nlevels s.
Proof.
  intros s l H Hl. destruct (wf_perm_l2v s H l Hl) as [v [E1 E2]]. exists v.
  split; [exact E1|]. split; [exact E2|].
  unfold nlevels. rewrite <- (wf_perm_len s H). apply nth_error_Some. congruence.
Qed.

(** a function of a table reads only the table's variables *)
Lemma zbfun_of_local : forall s r a a', WF s -> (forall v, v < nlevels s -> a v = a' v) ->
  zbfun_of s r a = zbfun_of s r a'.
Proof.
  intros s r a a' H Hag. unfold zbfun_of, zview_of.
  rewrite (semz_ext_lt s H _ 0 r (choice_of s a) (choice_of s a')); [reflexivity|].
  intros l [_ Hl]. unfold choice_of. destruct (l2v_spec s l H Hl) as [v [E0 [_ Hv]]]. rewrite E0, (Hag _ Hv). reflexivity.
Qed.

(** ** Canonicity in terms of functions of the variables *)

(** every level-indexed choice is the choice of an assignment, as far as the levels go *)
Lemma choice_is_asg : forall s c, WF s -> s_kind s = KZbdd -> choice_ok s c ->
  exists a, forall l, l < nlevels s -> choice_of s a l = c l.
Proof.
  intros s c H Hk Hc. exists (fun v => Nat.eqb (c (nth v (s_v2l s) 0)) 0).
  intros l Hl. unfold choice_of. destruct (l2v_spec s l H Hl) as [v [E0 [E1 _]]]. rewrite E0, (nth_error_nth _ _ 0 E1).
  pose proof (choice_lt2 s Hk c Hc l) as Hlt.
  destruct (Nat.eqb_spec (c l) 0) as [->|Hne]; [reflexivity | lia].
Qed.

Theorem zbfun_canon : forall s r1 r2, ZbddOK s -> ref_ok s r1 -> ref_ok s r2 ->
  (forall a, zbfun_of s r1 a = zbfun_of s r2 a) -> r1 = r2.
Proof.
  intros s r1 r2 B O1 O2 Heq. pose proof (zo_wf s B) as H. pose proof (zo_kind s B) as Hk.
  apply (zview_canon s r1 r2 B O1 O2). intros c Hc.
  destruct (choice_is_asg s c H Hk Hc) as [a Ha].
  assert (Hx : forall r, zview_of s r c = zview_of s r (choice_of s a)).
  { intros r. unfold zview_of. apply (semz_ext_lt s H). intros l [_ Hl]. symmetry. apply Ha. exact Hl. }
  rewrite !Hx.
  destruct (zview_total s r1 _ B O1 (choice_of_ok s a Hk)) as [b1 E1].
  destruct (zview_total s r2 _ B O2 (choice_of_ok s a Hk)) as [b2 E2].
  rewrite E1, E2. f_equal.
  rewrite <- (zbfun_of_view s r1 a b1 E1), <- (zbfun_of_view s r2 a b2 E2). apply Heq.
Qed.

(** ** "All new variables false" *)

Definition newfalse (n n' : nat) (a : asg) : bool := forallb (fun v => negb (a v)) (seq n (n' - n)).

Lemma newfalse_same : forall n a, newfalse n n a = true.
Proof. intros n a. unfold newfalse. rewrite Nat.sub_diag. reflexivity. Qed.

Lemma newfalse_spec : forall n n' a, newfalse n n' a = true <-> forall v, n <= v < n' -> a v = false.
Proof.
  intros n n' a. unfold newfalse. rewrite forallb_forall. split.
  - intros Hf v Hv. specialize (Hf v). rewrite in_seq in Hf. specialize (Hf ltac:(lia)).
    destruct (a v); [discriminate | reflexivity].
  - intros Hf v Hv. apply in_seq in Hv. rewrite (Hf v) by lia. reflexivity.
Qed.

Lemma newfalse_trans : forall n0 n1 n2 a, n0 <= n1 -> n1 <= n2 ->
  newfalse n0 n1 a && newfalse n1 n2 a = newfalse n0 n2 a.
Proof.
  intros n0 n1 n2 a H01 H12. unfold newfalse.
  replace (n2 - n0) with ((n1 - n0) + (n2 - n1)) by lia.
  rewrite seq_app, forallb_app. replace (n0 + (n1 - n0)) with n1 by lia. reflexivity.
Qed.

(** ** Families over variables: a set of variables [a] (false outside the
    manager's variables) is a member iff the Boolean function is true at [a] *)

Definition supp (n : nat) (a : asg) : Prop := forall v, n <= v -> a v = false.

Definition vmem (s : snap) (r : ref) (a : asg) : Prop :=
  supp (nlevels s) a /\ zbfun_of s r a = true.

Theorem vmem_fam : forall s r F a, ZbddOK s -> ref_ok s r -> fam_of s r = Some F ->
  (vmem s r a <-> supp (nlevels s) a /\ In (set_levels s a) F).
Proof.
  intros s r F a B O EF. unfold vmem. rewrite (zbfun_fam s r F a B O EF), fmem_spec. reflexivity.
Qed.

(** the Boolean statement of the frame implies the family statement *)
Lemma vmem_stable : forall s s' r, nlevels s <= nlevels s' ->
  (forall a, zbfun_of s' r a = zbfun_of s r a && newfalse (nlevels s) (nlevels s') a) ->
  forall a, vmem s' r a <-> vmem s r a.
Proof.
  intros s s' r Hn Hb a. unfold vmem. rewrite Hb, andb_true_iff, newfalse_spec. split.
  - intros [Hs [Hf Hnew]]. split; [|exact Hf]. intros v Hv.
    destruct (Nat.lt_ge_cases v (nlevels s')) as [Hlt|Hge]; [apply Hnew; lia | apply Hs; exact Hge].
  - intros [Hs Hf]. split; [intros v Hv; apply Hs; lia|]. split; [exact Hf|].
    intros v Hv. apply Hs. lia.
Qed.

(** ** subset0 / subset1 / change under the full cache invariant *)

Section SubsetB.
Variable C : Type.
Variable cget : C -> N -> list ref -> list nat -> option ref.
Variable cadd : C -> N -> list ref -> list nat -> ref -> C.
Hypothesis Hlossy : zlossy C cget cadd.

Lemma zsubset_served : forall op var vl fuel s c f s' c' r,
  zsubset C cget cadd fuel s c op f var vl = Some (s', c', r) ->
  served_by C cget c c' (fun k => k = zsub_code op).
Proof.
  intros op var vl. induction fuel as [|n IH]; intros s c f s' c' r E; [discriminate|].
  rewrite (zsubset_S C cget cadd) in E.
  destruct (zget s f) as [[v|nd]|]; [| |discriminate].
  - unfold zsubset_below in E. destruct op, (zempty s); try discriminate;
      try (inversion E; subst; apply served_refl).
    destruct (zmk_node s vl f r0). inversion E; subst. apply served_refl.
  - destruct (Nat.compare (nstored nd) vl).
    + destruct (nchildren nd) as [|fhi [|flo [|x rest]]]; try discriminate.
      destruct op; try (inversion E; subst; apply served_refl).
      destruct (zmk_node s (nstored nd) (eref flo) (eref fhi)). inversion E; subst. apply served_refl.
    + destruct (cget c (zsub_code op) [f] [var]); [inversion E; subst; apply served_refl|].
      destruct (nchildren nd) as [|fhi [|flo [|x rest]]]; try discriminate.
      destruct (zsubset C cget cadd n s c op (eref fhi) var vl) as [[[s1 c1] hi]|] eqn:E1; [|discriminate].
      destruct (zsubset C cget cadd n s1 c1 op (eref flo) var vl) as [[[s2 c2] lo]|] eqn:E2; [|discriminate].
      destruct (zmk_node s2 (nstored nd) hi lo) as [s3 h]. inversion E; subst.
      apply (served_trans C cget c c1); [apply (IH _ _ _ _ _ _ E1)|].
      apply (served_trans C cget c1 c2); [apply (IH _ _ _ _ _ _ E2)|].
      apply (served_add C cget cadd Hlossy). reflexivity.
    + unfold zsubset_below in E. destruct op, (zempty s); try discriminate;
        try (inversion E; subst; apply served_refl).
      destruct (zmk_node s vl f r0). inversion E; subst. apply served_refl.
Qed.

Theorem zsubset_okB : forall op var vl fuel s c f P,
  ZbddOK s -> ZCacheOKB C cget s c -> ZDen s f P -> nth_error (s_v2l s) var = Some vl ->
  nlevels s - rlevel s f < fuel ->
  zresult_okB C cget s (zsubset C cget cadd fuel s c op f var vl) (psub op vl P).
Proof.
  intros op var vl fuel s c f P B O DF Ev Hf.
  destruct (zsubset_ok C cget cadd Hlossy op var vl fuel s c f P B (zcacheokb_ok C cget s c O) DF Ev Hf)
    as (s' & c' & r & E & B' & X & O' & D).
  exists s', c', r. split; [exact E|]. split; [exact B'|]. split; [exact X|]. split; [|exact D].
  intros code args nums x Ex.
  destruct (zsubset_served op var vl fuel s c f s' c' r E _ _ _ _ Ex) as [E0| ->].
  - apply (zcacheokb_extends C cget s s' c B X O _ _ _ _ E0).
  - split; [apply (O' _ _ _ _ Ex)|]. apply zentry_x_other; destruct op; discriminate.
Qed.

End SubsetB.

(** ** Growing tables ([add_vars]) *)

Lemma ref_ok_grows : forall s s' r, grows s s' -> ref_ok s r -> ref_ok s' r.
Proof.
  intros s s' [t|id] G O; simpl in *.
  - unfold term_val in *. rewrite (gr_terms _ _ G). exact O.
  - destruct O as [nd E0]. exists nd. apply (gr_nodes _ _ G id nd E0).
Qed.

Lemma zden_grows : forall s s' r P, ZbddOK s -> grows s s' -> ZDen s r P -> ZDen s' r P.
Proof.
  intros s s' r P B G [O [F [EF HF]]]. split; [apply (ref_ok_grows s s' r G O)|].
  exists F. split; [|exact HF].
  rewrite (grows_fam s s' r (zo_wf s B) (zo_kind s B) G O). exact EF.
Qed.

Lemma zcube_grows : forall s s' M lvl vars, grows s s' -> nlevels s' = nlevels s ->
  ZCube s M lvl vars -> ZCube s' M lvl vars.
Proof.
  intros s s' M lvl vars G Hn Hc. induction Hc.
  - apply ZC_term; [unfold term_val in *; rewrite (gr_terms _ _ G); assumption | rewrite Hn; assumption].
  - eapply ZC_dc; eauto. apply (gr_nodes _ _ G). assumption.
  - eapply ZC_pos; eauto; [apply (gr_nodes _ _ G); assumption|].
    destruct (is_empty_b_true s lo H2) as [t [-> Et]].
    unfold is_empty_b, is_term_with, term_val in *. rewrite (gr_terms _ _ G), Et. reflexivity.
Qed.

(** the cache invariant in a grown table: Restrict entries are keyed by the number of
    levels and say something only for the table's own number; an entry keyed with the
    number of levels of the grown table must not exist unless the number is unchanged *)
Lemma zcacheokb_grows : forall C (cget : C -> N -> list ref -> list nat -> option ref) s s' c,
  ZbddOK s -> grows s s' ->
  (forall var vl, nth_error (s_v2l s) var = Some vl -> nth_error (s_v2l s') var = Some vl) ->
  (forall a r, cget c zcode_restrict a [nlevels s'] = Some r -> nlevels s' = nlevels s) ->
  ZCacheOKB C cget s c -> ZCacheOKB C cget s' c.
Proof.
  intros C cget s s' c B G Hv Hser O code args nums r E.
  destruct (O _ _ _ _ E) as [A A']. split.
  - unfold zentry_ok in *. destruct args as [|f [|g [|x rest]]]; auto.
    + destruct nums as [|var [|y rest]]; auto.
      intros o Hc. destruct (A o Hc) as [P [vl [Ev [D1 D2]]]]. exists P, vl.
      split; [apply Hv; exact Ev|]. split; eapply zden_grows; eauto.
    + destruct nums as [|var rest]; auto.
      intros o Hc. destruct (A o Hc) as [P [Q [D1 [D2 D3]]]]. exists P, Q.
      split; [|split]; eapply zden_grows; eauto.
  - unfold zentry_x in *. destruct args as [|f [|g [|h [|x rest]]]]; auto; destruct nums as [|v [|w rest']]; auto.
    + intros Hc. destruct (A' Hc) as (P & Q & DF & DG & DR). exists P, Q.
      split; [|split]; eapply zden_grows; eauto.
    + intros Hc Hv'. subst code v. pose proof (Hser _ _ E) as Hn.
      destruct (A' eq_refl Hn) as (P & id & nd & M & DF & -> & En & Hcu & DR).
      exists P, id, nd, M. split; [eapply zden_grows; eauto|]. split; [reflexivity|].
      split; [apply (gr_nodes _ _ G); exact En|]. split; [apply (zcube_grows s s' _ _ _ G Hn Hcu)|].
      rewrite Hn. eapply zden_grows; eauto.
    + intros Hc. destruct (A' Hc) as (P & Q & R & DF & DG & DH & DR). exists P, Q, R.
      split; [|split; [|split]]; eapply zden_grows; eauto.
Qed.

Lemma all_lo_newfalse : forall (c : nat -> nat) (a : asg) k from,
  (forall l, from <= l < from + k -> c l = if a l then 0 else 1) ->
  all_lo c from k = forallb (fun v => negb (a v)) (seq from k).
Proof.
  intros c a. induction k as [|k IH]; intros from Hc; simpl; [reflexivity|].
  rewrite (Hc from) by lia. rewrite (IH (S from)) by (intros l Hl; apply Hc; lia).
  destruct (a from); reflexivity.
Qed.

Theorem zadd_vars_facts : forall s k, ZbddOK s ->
  exists s' ch, zadd_vars s k = Some (s', ch) /\ ZbddOK s' /\ ZChainOK s' /\ grows s s' /\
    nlevels s' = nlevels s + k /\
    s_v2l s' = s_v2l s ++ seq (nlevels s) k /\ s_l2v s' = s_l2v s ++ seq (nlevels s) k /\
    s_handles s' = s_handles s /\
    forall r, ref_ok s r ->
      ref_ok s' r /\ fam_of s' r = fam_of s r /\
      forall a, zbfun_of s' r a = zbfun_of s r a && newfalse (nlevels s) (nlevels s') a.
Proof.
  intros s k B. pose proof (zo_wf s B) as H. pose proof (zo_kind s B) as Hk.
  destruct (zchain_after_add_vars s k B) as (s' & ch & E & B' & Hc' & Hn & _).
  destruct (zadd_vars_ok s k B) as (s2 & ch2 & E2 & _ & G & _ & Hv2l & Hl2v & Hfam & _).
  rewrite E in E2. inversion E2; subst s2 ch2. clear E2.
  exists s', ch. split; [exact E|]. split; [exact B'|]. split; [exact Hc'|]. split; [exact G|].
  split; [exact Hn|]. split; [exact Hv2l|]. split; [exact Hl2v|]. split.
  { destruct (add_levels_ok s k B) as (B1 & _).
    destruct (ztaut_chain_ok (add_levels s k) B1) as (s3 & ch3 & E3 & _ & X3 & _).
    unfold zadd_vars in E. rewrite E3 in E. inversion E; subst s3 ch3.
    rewrite (ext_handles _ _ X3). reflexivity. }
  intros r O. pose proof (ref_ok_grows s s' r G O) as O'.
  split; [exact O'|]. split; [apply (Hfam r O)|]. intros a.
  destruct (fam_of_total s H Hk r O) as [F EF].
  assert (EF' : fam_of s' r = Some F) by (rewrite (Hfam r O); exact EF).
  rewrite (zbfun_fam s' r F a B' O' EF'), (zbfun_fam s r F a B O EF).
  unfold set_levels. rewrite Hn.
  change (fmem (true_levels (asg_choice s' a) 0 (nlevels s + k)) F)
    with (fam_bool (nlevels s + k) F (asg_choice s' a)).
  rewrite fam_bool_more.
  - unfold fam_bool. f_equal.
    + f_equal. apply true_levels_ext. intros l Hl. unfold asg_choice. rewrite Hl2v.
      rewrite app_nth1 by (fold (nlevels s); lia). reflexivity.
    + unfold newfalse. replace (nlevels s + k - nlevels s) with k by lia.
      apply all_lo_newfalse. intros l Hl. unfold asg_choice. rewrite Hl2v.
      rewrite app_nth2 by (fold (nlevels s); lia). fold (nlevels s).
      rewrite seq_nth by lia. replace (nlevels s + (l - nlevels s)) with l by lia. reflexivity.
  - intros l. unfold asg_choice. destruct (a (nth l (s_l2v s') 0)); lia.
  - intros S HS. apply (fam_of_members s H Hk r F S EF HS).
Qed.

(** ** Garbage collection with the chain as additional roots *)

Lemma zchain_roots_In : forall s h, In h (zchain_roots s) ->
  exists l t, l <= nlevels s /\ ztaut s l = Some t /\ h = (0%N, E t).
Proof.
  intros s h Hin. unfold zchain_roots in Hin. apply in_flat_map in Hin.
  destruct Hin as [l [Hl Hh]]. apply in_seq in Hl.
  destruct (ztaut s l) as [t|] eqn:Et; [|destruct Hh].
  destruct Hh as [<-|[]]. exists l, t. split; [lia|]. auto.
Qed.

Lemma zchain_roots_taut : forall s l t, l <= nlevels s -> ztaut s l = Some t -> In (0%N, E t) (zchain_roots s).
Proof.
  intros s l t Hl Et. unfold zchain_roots. apply in_flat_map. exists l.
  split; [apply in_seq; lia|]. rewrite Et. left. reflexivity.
Qed.

Lemma with_chain_ok : forall s, ZbddOK s -> ZbddOK (with_chain s).
Proof.
  intros s B. unfold with_chain. apply zbddok_set_handles; [exact B|].
  intros h Hin. apply in_app_iff in Hin. destruct Hin as [Hin|Hin].
  - apply (z_handle_ok s h B Hin).
  - destruct (zchain_roots_In s h Hin) as (l & t & _ & Et & ->). simpl.
    split; [|reflexivity]. apply (zden_ok _ _ _ (ztaut_den s l t B Et)).
Qed.

Theorem zgc_facts : forall s, ZbddOK s -> ZChainOK s ->
  let sg := set_handles (gc_model (with_chain s)) (s_handles s) in
  ZbddOK sg /\ ZChainOK sg /\ extends sg s /\
  (forall h, In h (s_handles s) -> ref_ok sg (eref (snd h))) /\
  (forall id nd, find_node sg id = Some nd ->
     find_node s id = Some nd /\ reachable s (handle_refs (with_chain s)) (RN id)).
Proof.
  intros s B Hc. set (s1 := with_chain s). set (g := gc_model s1). simpl.
  pose proof (with_chain_ok s B) as B1.
  pose proof (gc_model_collected s1 (zo_wf s1 B1)) as Cg. fold g in Cg.
  pose proof (collected_wf_gen s1 g (zo_wf s1 B1) Cg) as Hg.
  pose proof (collected_sub_gen s1 g Cg) as Xg.
  assert (Bg : ZbddOK g).
  { constructor; [exact Hg | rewrite (co_kind s1 g Cg); apply (zo_kind s1 B1) | | | ].
    - intros t v. rewrite (cw_term_val s1 g Cg). apply (zo_codes s1 B1).
    - destruct (zo_empty s1 B1) as [t Et]. exists t. rewrite (cw_term_val s1 g Cg). exact Et.
    - destruct (zo_base s1 B1) as [t Et]. exists t. rewrite (cw_term_val s1 g Cg). exact Et. }
  assert (Hroot : forall h, In h (s_handles s1) -> ref_ok g (eref (snd h))).
  { intros h Hh. rewrite <- (co_handles s1 g Cg) in Hh. apply (wf_handles g Hg h Hh). }
  assert (Hh : forall h, In h (s_handles s) -> ref_ok g (eref (snd h))).
  { intros h Hin. apply Hroot. unfold s1, with_chain. simpl. apply in_app_iff. left. exact Hin. }
  assert (Bsg : ZbddOK (set_handles g (s_handles s))).
  { apply zbddok_set_handles; [exact Bg|]. intros h Hin.
    split; [apply Hh; exact Hin | apply (z_handle_ok s h B Hin)]. }
  split; [exact Bsg|]. split; [|split; [|split]].
  - apply zchain_set_handles.
    destruct (ztaut_total s 0 Hc) as [t Et].
    pose proof (ztaut_den s 0 t B Et) as Dt. rewrite Nat.min_0_l in Dt.
    assert (Ot : ref_ok g t).
    { apply (Hroot (0%N, E t)). unfold s1, with_chain. simpl. apply in_app_iff. right.
      apply (zchain_roots_taut s 0 t); [lia | exact Et]. }
    apply (zchain_of_den g t Bg).
    assert (Hn : nlevels g = nlevels s) by (rewrite (cw_nlevels s1 g Cg); reflexivity).
    rewrite Hn.
    apply (zden_restrict g s1 t _ Bg Xg Ot). apply (proj1 (zden_set_handles s _ t _) Dt).
  - constructor.
    + change (s_kind s = s_kind g). rewrite (co_kind s1 g Cg). reflexivity.
    + change (s_terms s = s_terms g). rewrite (co_terms s1 g Cg). reflexivity.
    + change (s_v2l s = s_v2l g). rewrite (co_v2l s1 g Cg). reflexivity.
    + change (s_l2v s = s_l2v g). rewrite (co_l2v s1 g Cg). reflexivity.
    + reflexivity.
    + intros id nd E0. apply (cw_old s1 g Cg id nd E0).
  - exact Hh.
  - intros id nd E0. change (find_node g id = Some nd) in E0.
    destruct (proj1 (co_nodes s1 g Cg id nd) E0) as [E1 R1]. split; [exact E1|].
    clear - R1. remember (RN id) as q eqn:Eq. clear Eq.
    induction R1 as [q Hin|pid pnd e R1 IH Ep He]; [apply reach_root; exact Hin|].
    apply (reach_child _ _ pid pnd e IH Ep He).
Qed.

(** ** [set_var_order_model_z] in the vocabulary of the state machine *)

Theorem zreorder_facts : forall s order, ZbddOK s -> ZChainOK s -> NoDup order ->
  Forall (fun v => v < nlevels s) order ->
  let s' := set_var_order_model_z s order in
  ZbddOK s' /\ ZChainOK s' /\ nlevels s' = nlevels s /\ s_handles s' = s_handles s /\
  (forall h, In h (s_handles s) ->
     ref_ok s' (eref (snd h)) /\ forall a, zbfun_of s' (eref (snd h)) a = zbfun_of s (eref (snd h)) a) /\
  (forall a b, a < b < length order ->
     nth (nth a order 0) (s_v2l s') 0 < nth (nth b order 0) (s_v2l s') 0).
Proof.
  intros s order B Hc Hnd Hr. simpl.
  destruct (set_var_order_model_z_correct s order B Hnd Hr) as [B' [_ [Hn [Hh [Hev _]]]]].
  split; [exact B'|]. split; [|split; [exact Hn|split; [exact Hh|split]]].
  - destruct (snd (bubble_sort (sort_order (nlevels s) (map (fun v => nth v (s_v2l s) 0) order)))) as [|k sw] eqn:Esw.
    + unfold set_var_order_model_z. rewrite Esw. exact Hc.
    + destruct (set_var_order_model_z_chain s order B Hnd Hr) as [ch [Hlen Hch]]; [rewrite Esw; discriminate|].
      destruct (nth_error ch 0) as [t|] eqn:Et; [|apply nth_error_None in Et; lia].
      destruct (Hch 0 t Et) as [Ot [F [EF Hq]]].
      apply (zchain_of_den _ t B'). split; [exact Ot|]. exists F. split; [exact EF|].
      intros S. rewrite (Hq S), in_f_powerset, Hn. unfold pall. rewrite Nat.sub_0_r. reflexivity.
  - intros h Hin. destruct (z_handle_ok s h B Hin) as [O T].
    assert (O' : ref_ok (set_var_order_model_z s order) (eref (snd h))).
    { apply (wf_handles _ (zo_wf _ B')). rewrite Hh. exact Hin. }
    split; [exact O'|]. intros a. destruct (Hev h a Hin) as [Ee _].
    assert (Eh : snd h = E (eref (snd h))) by (apply edge_ext; [reflexivity | exact T]).
    rewrite Eh in Ee. rewrite (zbfun_eval_vars _ _ a B' O'), (zbfun_eval_vars s _ a B O) in Ee.
    destruct (zbfun_of (set_var_order_model_z s order) (eref (snd h)) a), (zbfun_of s (eref (snd h)) a);
      try reflexivity; inversion Ee.
  - apply (set_var_order_model_z_respects s order B Hnd Hr).
Qed.
