(** * The ZBDD apply cache as the code keys it: Restrict entries carry the number of levels

    [ZBDDOp::Restrict] entries of the apply cache are keyed by the operand
    edges AND the number of levels of the manager (oxidd-rules-zbdd/src/apply_rec.rs
    [restrict]: [get_extended] / [add_extended] with [manager.num_levels()] as
    numeric operand, /repo f8637cd): the restriction by a literal cube depends
    on the number of levels (through the cube's Base terminal and the tautology
    chain), and [add_vars] does not clear the apply cache.  The per-operation
    model DD/ZbddBool.v [zrestrict] has this key ([[f; vars]], [[nlevels s]]); the
    state machine runs it on the plain cache.

    - [z*_nlevels]: [restrict] does not change the number of levels;
    - [z*_pres]: whatever property of the cache is preserved by every insertion
      the algorithms of a manager with [N0] levels can make (a Restrict entry is
      keyed with [[N0]]) is preserved by every algorithm (they only insert);
    - [znofuture n c]: no Restrict entry is keyed with a number of levels above
      [n] - preserved by the insertions of a manager with [n] levels, by
      clearing, and by [add_vars] (the number of levels only grows), so an entry
      keyed with the number of levels after [add_vars] was inserted at that number;
    - the view [zcgetN n] / [zcaddN n] (Mgr/HistoryZ.v) that appends [n] to the
      numeric operands of the Restrict code: [zlossyN] (the view of a lossy cache
      is lossy), [zrestrict_view]: [restrict] as it was before f8637cd
      ([zrestrict_unkeyed]) run on the cache seen through the view at the current
      number of levels IS the model [zrestrict] on the plain cache. *)

From Coq Require Import List NArith PArith Bool Arith Lia FMapPositive.
From OxiVerif Require Import DD.Table DD.TableProofs DD.Sem DD.Build DD.BuildProofs DD.Apply DD.FamSpec
  DD.ZbddOps DD.ZbddOpsProofs DD.ZbddSubsetProofs DD.ZbddBool DD.ZbddBoolProofs DD.ZbddXorProofs DD.ZbddIteProofs
  DD.ZbddRestrictProofs Mgr.HistoryZ.
Import ListNotations.

Section View.
Variable C : Type.
Variable cget : C -> N -> list ref -> list nat -> option ref.
Variable cadd : C -> N -> list ref -> list nat -> ref -> C.
Hypothesis Hlossy : zlossy C cget cadd.

Lemma zkeyN_inj : forall n code m m', zkeyN n code m = zkeyN n code m' -> m = m'.
Proof.
  intros n code m m' E. unfold zkeyN in E. destruct (N.eqb code zcode_restrict); [|exact E].
  apply app_inj_tail in E. apply E.
Qed.

Theorem zlossyN : forall n, zlossy C (zcgetN C cget n) (zcaddN C cadd n).
Proof.
  intros n c k a m r k' a' m' r' E. unfold zcgetN, zcaddN in *.
  destruct (Hlossy _ _ _ _ _ _ _ _ _ E) as [[-> [-> [Em ->]]]|E']; [left | right; exact E'].
  repeat split; try reflexivity. apply (zkeyN_inj n k m' m Em).
Qed.

(** no Restrict entry keyed with more than [n] levels *)
Definition znofuture (n : nat) (c : C) : Prop :=
  forall a m n' r, cget c zcode_restrict a (m ++ [n']) = Some r -> n' <= n.

(** an insertion a manager with [n] levels makes: a Restrict entry carries [[n]] *)
Lemma znofuture_add : forall n c k a m r, (k = zcode_restrict -> m = [n]) ->
  znofuture n c -> znofuture n (cadd c k a m r).
Proof.
  intros n c k a m r Hk Hf a' m' n' r' E.
  destruct (Hlossy _ _ _ _ _ _ _ _ _ E) as [[Ek [_ [Em _]]]|E']; [|apply (Hf a' m' n' r' E')].
  rewrite (Hk (eq_sym Ek)) in Em. change [n] with ([] ++ [n]) in Em. apply app_inj_tail in Em.
  destruct Em as [_ ->]. apply le_n.
Qed.

Lemma znofuture_mono : forall n n' c, n <= n' -> znofuture n c -> znofuture n' c.
Proof. intros n n' c Hn Hf a m k r E. specialize (Hf a m k r E). lia. Qed.

(** a cache without future keys holds no Restrict entry keyed with [n' > n] *)
Lemma znofuture_later : forall n n' c a r, znofuture n c -> n <= n' ->
  cget c zcode_restrict a [n'] = Some r -> n' = n.
Proof. intros n n' c a r Hf Hn E. pose proof (Hf a [] n' r E). lia. Qed.

End View.

(** ** [restrict] keeps the number of levels *)

Ltac pres_split E :=
  repeat match type of E with
  | match ?x with _ => _ end = Some _ => destruct x eqn:?; try discriminate
  | (let '(_, _) := ?x in _) = Some _ => destruct x eqn:?
  | (if ?x then _ else _) = Some _ => destruct x eqn:?
  end.

Ltac pres_all :=
  repeat match goal with
  | E : match ?x with _ => _ end = Some _ |- _ => destruct x eqn:?; try discriminate
  | E : (let '(_, _) := ?x in _) = Some _ |- _ => destruct x eqn:?
  | E : (if ?x then _ else _) = Some _ |- _ => destruct x eqn:?
  end.

Lemma goi_nlevels : forall s lvl ch s' e, get_or_insert s lvl ch = (s', e) -> nlevels s' = nlevels s.
Proof.
  intros s lvl ch s' e E. unfold get_or_insert in E. destruct (find_dup s lvl ch); inversion E; reflexivity.
Qed.

Lemma zmk_node_nlevels : forall s lvl hi lo s' r, zmk_node s lvl hi lo = (s', r) -> nlevels s' = nlevels s.
Proof.
  intros s lvl hi lo s' r Hm. unfold zmk_node in Hm. destruct (is_empty_b s hi); [inversion Hm; reflexivity|].
  destruct (get_or_insert s lvl [E hi; E lo]) as [s1 e] eqn:Eg. inversion Hm; subst.
  apply (goi_nlevels _ _ _ _ _ Eg).
Qed.

Lemma zdc_wrap_nlevels : forall cnt level s e s' r, zdc_wrap level cnt s e = (s', r) -> nlevels s' = nlevels s.
Proof.
  induction cnt as [|k IH]; intros level s e s' r Hw; simpl in Hw; [inversion Hw; reflexivity|].
  destruct (get_or_insert s (level + k) [E e; E e]) as [s1 e1] eqn:Eg.
  rewrite (IH _ _ _ _ _ Hw). apply (goi_nlevels _ _ _ _ _ Eg).
Qed.

Lemma zrestrict_base_nlevels : forall fuel s vars level s' r,
  zrestrict_base fuel s vars level = Some (s', r) -> nlevels s' = nlevels s.
Proof.
  induction fuel as [|n IH]; intros s vars level s' r E; [discriminate|]. simpl in E.
  pres_all;
  repeat match goal with
  | Hx : Some _ = Some _ |- _ => inversion Hx; subst; clear Hx
  end;
  repeat match goal with
  | Hz : zrestrict_base n _ _ _ = Some _ |- _ => apply IH in Hz
  | Hz : zdc_wrap _ _ _ _ = _ |- _ => apply zdc_wrap_nlevels in Hz
  end; congruence.
Qed.

Section Levels.
Variable C : Type.
Variable cget : C -> N -> list ref -> list nat -> option ref.
Variable cadd : C -> N -> list ref -> list nat -> ref -> C.

Lemma zrestrict_nlevels : forall fuel s c f vars level s' c' r,
  zrestrict C cget cadd fuel s c f vars level = Some (s', c', r) -> nlevels s' = nlevels s.
Proof.
  induction fuel as [|n IH]; intros s c f vars level s' c' r E; [discriminate|].
  rewrite (zrestrict_S C cget cadd) in E. cbv zeta in E. unfold zmk_node1 in E.
  pres_all;
  repeat match goal with
  | Hx : Some _ = Some _ |- _ => inversion Hx; subst; clear Hx
  end;
  repeat match goal with
  | Hz : zrestrict _ _ _ n _ _ _ _ _ = Some _ |- _ => apply IH in Hz
  | Hz : zrestrict_base _ _ _ _ = Some _ |- _ => apply zrestrict_base_nlevels in Hz
  | Hz : zmk_node _ _ _ _ = _ |- _ => apply zmk_node_nlevels in Hz
  end; congruence.
Qed.

End Levels.

(** ** The algorithms only insert *)

Section Pres.
Variable gt : ref -> ref -> bool.
Variable C : Type.
Variable cget : C -> N -> list ref -> list nat -> option ref.
Variable cadd : C -> N -> list ref -> list nat -> ref -> C.
Variable P : C -> Prop.
(** the insertions of a manager with [N0] levels *)
Variable N0 : nat.
Hypothesis HP : forall c k a m r, (k = zcode_restrict -> m = [N0]) -> P c -> P (cadd c k a m r).

Lemma zapply_pres : forall op fuel s c f g s' c' r,
  zapply gt C cget cadd fuel s c op f g = Some (s', c', r) -> P c -> P c'.
Proof.
  intros op. induction fuel as [|n IH]; intros s c f g s' c' r E Hc; [discriminate|].
  rewrite (zapply_S gt C cget cadd) in E.
  destruct (zterminal s op f g); [discriminate | inversion E; subst; exact Hc |].
  destruct (if zcommutes op && gt f g then (g, f) else (f, g)) as [f' g'].
  destruct (cget c (zop_code op) [f'; g'] []); [inversion E; subst; exact Hc|].
  destruct (zget s f') as [vf|]; [|discriminate]. destruct (zget s g') as [vg|]; [|discriminate].
  cbv zeta in E.
  match type of E with
  | match ?res with _ => _ end = _ => destruct res as [[[s1 c1] h]|] eqn:Er; [|discriminate]
  end.
  inversion E; subst s' c' r. clear E. apply HP; [intros Hk; destruct op; discriminate Hk|].
  pres_split Er;
  repeat match goal with
  | Hz : zapply _ _ _ _ n _ _ _ _ _ = Some _ |- _ => apply IH in Hz; [|assumption]
  end;
  try (inversion Er; subst); assumption.
Qed.

Lemma zapply_not_pres : forall fuel s c f s' c' r,
  zapply_not gt C cget cadd fuel s c f = Some (s', c', r) -> P c -> P c'.
Proof.
  intros fuel s c f s' c' r E Hc. unfold zapply_not in E. destruct (ztaut s 0); [|discriminate].
  apply (zapply_pres _ _ _ _ _ _ _ _ _ E Hc).
Qed.

Lemma zsymm_pres : forall fuel s c f g s' c' r,
  zsymm gt C cget cadd fuel s c f g = Some (s', c', r) -> P c -> P c'.
Proof.
  induction fuel as [|n IH]; intros s c f g s' c' r E Hc; [discriminate|].
  rewrite (zsymm_S gt C cget cadd) in E.
  destruct (zempty s) as [empty|]; [|discriminate].
  destruct (ref_eqb f g); [inversion E; subst; exact Hc|].
  destruct (ref_eqb f empty); [inversion E; subst; exact Hc|].
  destruct (ref_eqb g empty); [inversion E; subst; exact Hc|].
  destruct (if gt f g then (g, f) else (f, g)) as [f' g'].
  destruct (cget c zcode_symm [f'; g'] []); [inversion E; subst; exact Hc|].
  destruct (zget s f') as [vf|]; [|discriminate]. destruct (zget s g') as [vg|]; [|discriminate].
  cbv zeta in E.
  match type of E with
  | match ?res with _ => _ end = _ => destruct res as [[[s1 c1] h]|] eqn:Er; [|discriminate]
  end.
  inversion E; subst s' c' r. clear E. apply HP; [discriminate|].
  pres_split Er;
  repeat match goal with
  | Hz : zsymm _ _ _ _ n _ _ _ _ = Some _ |- _ => apply IH in Hz; [|assumption]
  end;
  try (inversion Er; subst); assumption.
Qed.

Lemma zsubset_pres : forall op var vl fuel s c f s' c' r,
  zsubset C cget cadd fuel s c op f var vl = Some (s', c', r) -> P c -> P c'.
Proof.
  intros op var vl. induction fuel as [|n IH]; intros s c f s' c' r E Hc; [discriminate|].
  rewrite (zsubset_S C cget cadd) in E.
  destruct (zget s f) as [[v|nd]|]; [| |discriminate].
  - unfold zsubset_below in E. destruct op, (zempty s); try discriminate;
      try (inversion E; subst; exact Hc).
    destruct (zmk_node s vl f r0). inversion E; subst. exact Hc.
  - destruct (Nat.compare (nstored nd) vl).
    + destruct (nchildren nd) as [|fhi [|flo [|x rest]]]; try discriminate.
      destruct op; try (inversion E; subst; exact Hc).
      destruct (zmk_node s (nstored nd) (eref flo) (eref fhi)). inversion E; subst. exact Hc.
    + destruct (cget c (zsub_code op) [f] [var]); [inversion E; subst; exact Hc|].
      destruct (nchildren nd) as [|fhi [|flo [|x rest]]]; try discriminate.
      destruct (zsubset C cget cadd n s c op (eref fhi) var vl) as [[[s1 c1] hi]|] eqn:E1; [|discriminate].
      destruct (zsubset C cget cadd n s1 c1 op (eref flo) var vl) as [[[s2 c2] lo]|] eqn:E2; [|discriminate].
      destruct (zmk_node s2 (nstored nd) hi lo) as [s3 h]. inversion E; subst.
      apply HP; [intros Hk; destruct op; discriminate Hk|].
      apply (IH _ _ _ _ _ _ E2). apply (IH _ _ _ _ _ _ E1). exact Hc.
    + unfold zsubset_below in E. destruct op, (zempty s); try discriminate;
        try (inversion E; subst; exact Hc).
      destruct (zmk_node s vl f r0). inversion E; subst. exact Hc.
Qed.

Lemma zsubset_top_pres : forall op var fuel s c f s' c' r,
  zsubset_top C cget cadd fuel s c op f var = Some (s', c', r) -> P c -> P c'.
Proof.
  intros op var fuel s c f s' c' r E Hc. unfold zsubset_top in E.
  destruct (nth_error (s_v2l s) var); [|discriminate]. apply (zsubset_pres _ _ _ _ _ _ _ _ _ _ E Hc).
Qed.

Lemma zapply_ite_pres : forall fuel s c f g h s' c' r,
  zapply_ite gt C cget cadd fuel s c f g h = Some (s', c', r) -> P c -> P c'.
Proof.
  induction fuel as [|n IH]; intros s c f g h s' c' r E Hc; [discriminate|].
  rewrite (zapply_ite_S gt C cget cadd) in E.
  destruct (ref_eqb g h); [inversion E; subst; exact Hc|].
  destruct (ref_eqb f g); [apply (zapply_pres _ _ _ _ _ _ _ _ _ E Hc)|].
  destruct (ref_eqb f h); [apply (zapply_pres _ _ _ _ _ _ _ _ _ E Hc)|].
  destruct (zget s f) as [fnode|]; [|discriminate].
  destruct (is_empty_b s f); [inversion E; subst; exact Hc|].
  destruct (zget s g) as [gnode|]; [|discriminate].
  destruct (is_empty_b s g); [apply (zapply_pres _ _ _ _ _ _ _ _ _ E Hc)|].
  destruct (zget s h) as [hnode|]; [|discriminate].
  destruct (is_empty_b s h); [apply (zapply_pres _ _ _ _ _ _ _ _ _ E Hc)|].
  cbv zeta in E.
  destruct (ztaut_opt s _) as [taut|]; [|discriminate].
  destruct (ref_eqb f taut); [inversion E; subst; exact Hc|].
  destruct (ref_eqb g taut); [apply (zapply_pres _ _ _ _ _ _ _ _ _ E Hc)|].
  destruct (cget c zcode_ite [f; g; h] []); [inversion E; subst; exact Hc|].
  match type of E with
  | match ?res with _ => _ end = _ => destruct res as [[[s1 c1] r1]|] eqn:Er; [|discriminate]
  end.
  inversion E; subst s' c' r. clear E. apply HP; [discriminate|].
  pres_all;
  repeat match goal with
  | Hx : Some _ = Some _ |- _ => inversion Hx; subst; clear Hx
  end;
  repeat match goal with
  | Hz : zapply_ite _ _ _ _ n _ _ _ _ _ = Some _ |- _ => apply IH in Hz; [|assumption]
  | Hz : zapply _ _ _ _ _ _ _ _ _ _ = Some _ |- _ => apply zapply_pres in Hz; [|assumption]
  end;
  try (inversion Er; subst); assumption.
Qed.

Lemma zapply_op_pres : forall op fuel s c f g s' c' r,
  zapply_op gt C cget cadd fuel s c op f g = Some (s', c', r) -> P c -> P c'.
Proof.
  intros op fuel s c f g s' c' r E Hc. destruct op; simpl in E;
    try (apply (zapply_pres _ _ _ _ _ _ _ _ _ E Hc)); try (apply (zsymm_pres _ _ _ _ _ _ _ _ E Hc)).
  - (* equiv *)
    destruct (zsymm gt C cget cadd fuel s c f g) as [[[s1 c1] r1]|] eqn:E1; [|discriminate].
    apply (zapply_not_pres _ _ _ _ _ _ _ E). apply (zsymm_pres _ _ _ _ _ _ _ _ E1 Hc).
  - (* nand *)
    destruct (zapply gt C cget cadd fuel s c ZIntsec f g) as [[[s1 c1] r1]|] eqn:E1; [|discriminate].
    apply (zapply_not_pres _ _ _ _ _ _ _ E). apply (zapply_pres _ _ _ _ _ _ _ _ _ E1 Hc).
  - (* nor *)
    destruct (zapply gt C cget cadd fuel s c ZUnion f g) as [[[s1 c1] r1]|] eqn:E1; [|discriminate].
    apply (zapply_not_pres _ _ _ _ _ _ _ E). apply (zapply_pres _ _ _ _ _ _ _ _ _ E1 Hc).
  - (* imp *)
    destruct (ztaut s 0); [|discriminate]. apply (zapply_ite_pres _ _ _ _ _ _ _ _ _ E Hc).
Qed.

Lemma znot_var_pres : forall fuel s c var s' c' r,
  znot_var gt C cget cadd fuel s c var = Some (s', c', r) -> P c -> P c'.
Proof.
  intros fuel s c var s' c' r E Hc. unfold znot_var in E. destruct (zvar s var) as [[s1 e]|]; [|discriminate].
  apply (zapply_not_pres _ _ _ _ _ _ _ E Hc).
Qed.

Lemma zrestrict_pres : forall fuel s c f vars level s' c' r, nlevels s = N0 ->
  zrestrict C cget cadd fuel s c f vars level = Some (s', c', r) -> P c -> P c'.
Proof.
  induction fuel as [|n IH]; intros s c f vars level s' c' r Hn E Hc; [discriminate|].
  rewrite (zrestrict_S C cget cadd) in E. cbv zeta in E.
  pres_all;
  repeat match goal with
  | Hx : Some _ = Some _ |- _ => inversion Hx; subst; clear Hx
  end;
  repeat match goal with
  | Hz : zrestrict _ _ _ n ?s0 _ _ _ _ = Some (?s1, _, _) |- _ =>
    lazymatch goal with
    | _ : nlevels s1 = nlevels s0 |- _ => fail
    | _ => pose proof (zrestrict_nlevels C cget cadd _ _ _ _ _ _ _ _ _ Hz)
    end
  end;
  repeat match goal with
  | Hz : zrestrict _ _ _ n _ _ _ _ _ = Some _ |- _ => apply IH in Hz; [|congruence|assumption]
  end;
  try (apply HP; [intros _; reflexivity|]); assumption.
Qed.

Lemma zrestrict_edge_pres : forall fuel s c f vars s' c' r, nlevels s = N0 ->
  zrestrict_edge C cget cadd fuel s c f vars = Some (s', c', r) -> P c -> P c'.
Proof. intros fuel s c f vars s' c' r Hn E Hc. apply (zrestrict_pres _ _ _ _ _ _ _ _ _ Hn E Hc). Qed.

End Pres.

(** ** The fix f8637cd, as a statement about the model: [restrict] as it was
    ([zrestrict_unkeyed], Mgr/HistoryZ.v) on the cache seen through the view
    that appends the current number of levels to the Restrict key is [restrict]
    as it is ([zrestrict], DD/ZbddBool.v) on the plain cache *)

Section ViewTie.
Variable C : Type.
Variable cget : C -> N -> list ref -> list nat -> option ref.
Variable cadd : C -> N -> list ref -> list nat -> ref -> C.

Lemma zrestrict_unkeyed_S : forall cg ca n s c f vars level,
  zrestrict_unkeyed C cg ca (S n) s c f vars level =
    match zget s f with
    | None => None
    | Some (ZT v) =>
      if N.eqb v 0 then Some (s, c, f)
      else
        match zrestrict_base (S n) s vars level with
        | Some (s1, r) => Some (s1, c, r)
        | None => None
        end
    | Some (ZI fnd) =>
      match zget s vars, nchildren fnd with
      | Some vnode, [fhi; flo] =>
        let flevel := nstored fnd in
        match lcmp (vlevel vnode) (Some level) with
        | Eq =>
          match zkids vnode with
          | None => None
          | Some (vhi, vlo) =>
            if negb (ref_eqb vhi vlo) then
              if negb (Nat.eqb flevel level) then
                match zempty s with Some e => Some (s, c, e) | None => None end
              else
                match zrestrict_unkeyed C cg ca n s c (eref fhi) vhi (S level) with
                | None => None
                | Some (s1, c1, child) =>
                  let '(s2, r) := zmk_node1 s1 level child in Some (s2, c1, r)
                end
            else if negb (Nat.eqb flevel level) then zrestrict_unkeyed C cg ca n s c f vhi (S level)
            else
              match cg c zcode_restrict [f; vars] [] with
              | Some r => Some (s, c, r)
              | None =>
                match zrestrict_unkeyed C cg ca n s c (eref fhi) vhi (S level) with
                | None => None
                | Some (s1, c1, hi) =>
                  match zrestrict_unkeyed C cg ca n s1 c1 (eref flo) vhi (S level) with
                  | None => None
                  | Some (s2, c2, lo) =>
                    let '(s3, r) := zmk_node s2 level hi lo in
                    Some (s3, ca c2 zcode_restrict [f; vars] [] r, r)
                  end
                end
              end
          end
        | _ =>
          let sel := if Nat.eqb flevel level then eref flo else f in
          match zrestrict_unkeyed C cg ca n s c sel vars (S level) with
          | None => None
          | Some (s1, c1, child) =>
            let '(s2, r) := zmk_node1 s1 level child in Some (s2, c1, r)
          end
        end
      | _, _ => None
      end
    end.
Proof. reflexivity. Qed.

Theorem zrestrict_view : forall fuel s c f vars level,
  zrestrict_unkeyed C (zcgetN C cget (nlevels s)) (zcaddN C cadd (nlevels s)) fuel s c f vars level =
  zrestrict C cget cadd fuel s c f vars level.
Proof.
  induction fuel as [|n IH]; intros s c f vars level; [reflexivity|].
  rewrite (zrestrict_S C cget cadd), zrestrict_unkeyed_S.
  destruct (zget s f) as [[v|fnd]|]; [reflexivity| |reflexivity].
  destruct (zget s vars) as [vnode|]; [|reflexivity].
  destruct (nchildren fnd) as [|fhi [|flo [|x rest]]]; try reflexivity.
  cbv zeta.
  destruct (lcmp (vlevel vnode) (Some level)); try (rewrite IH; reflexivity).
  destruct (zkids vnode) as [[vhi vlo]|]; [|reflexivity].
  destruct (negb (ref_eqb vhi vlo)); [rewrite IH; reflexivity|].
  destruct (negb (Nat.eqb (nstored fnd) level)); [apply IH|].
  change (zcgetN C cget (nlevels s) c zcode_restrict [f; vars] [])
    with (cget c zcode_restrict [f; vars] [nlevels s]).
  destruct (cget c zcode_restrict [f; vars] [nlevels s]); [reflexivity|].
  rewrite IH.
  destruct (zrestrict C cget cadd n s c (eref fhi) vhi (S level)) as [[[s1 c1] hi]|] eqn:E1; [|reflexivity].
  rewrite <- (zrestrict_nlevels C cget cadd _ _ _ _ _ _ _ _ _ E1). rewrite IH.
  reflexivity.
Qed.

Theorem zrestrict_edge_view : forall fuel s c f vars,
  zrestrict_unkeyed C (zcgetN C cget (nlevels s)) (zcaddN C cadd (nlevels s)) fuel s c f vars 0 =
  zrestrict_edge C cget cadd fuel s c f vars.
Proof. intros. apply zrestrict_view. Qed.

End ViewTie.
