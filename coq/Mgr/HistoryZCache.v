(** * The ZBDD apply cache as the code keys it: Restrict entries carry the number of levels

    [ZBDDOp::Restrict] entries of the apply cache are keyed by the operand
    edges AND the number of levels of the manager (oxidd-rules-zbdd/src/apply_rec.rs
    [restrict]: [get_extended] / [add_extended] with [manager.num_levels()] as
    numeric operand): the restriction by a literal cube depends on the number
    of levels (through the cube's Base terminal and the tautology chain), and
    [add_vars] does not clear the apply cache.  The per-operation model
    DD/ZbddBool.v looks Restrict entries up under [[f; vars]], [[]]; the state
    machine runs it on the cache SEEN THROUGH [zcgetN n] / [zcaddN n] ([n] = the
    current number of levels), which append [n] to the numeric operands of the
    Restrict code and are the identity on every other code.

    - [zlossyN]: the view of a lossy cache is lossy;
    - [z*_pres]: whatever property of the cache is preserved by every
      insertion is preserved by every algorithm (they only insert);
    - [znofuture n c]: no Restrict entry is keyed with a number of levels above
      [n] - preserved by insertions made through the view at [n], by clearing,
      and by [add_vars] (the number of levels only grows), so an entry keyed
      with the number of levels after [add_vars] was inserted at that number. *)

From Coq Require Import List NArith PArith Bool Arith Lia FMapPositive.
From OxiVerif Require Import DD.Table DD.TableProofs DD.Sem DD.Build DD.BuildProofs DD.Apply DD.FamSpec
  DD.ZbddOps DD.ZbddOpsProofs DD.ZbddSubsetProofs DD.ZbddBool DD.ZbddBoolProofs DD.ZbddXorProofs DD.ZbddIteProofs
  DD.ZbddRestrictProofs Mgr.HistoryZ.
Import ListNotations.

Section View.
Variable C : Type.
Variable cget : C -> N -> list ref -> list nat -> option ref.
Variable cadd : C -> N -> list ref -> list nat -> ref -> C.
Hypothesis Hlossy : zlossy C cget cadd.

Lemma zkeyN_inj : forall n code m m', zkeyN n code m = zkeyN n code m' -> m = m'.
Proof.
  intros n code m m' E. unfold zkeyN in E. destruct (N.eqb code zcode_restrict); [|exact E].
  apply app_inj_tail in E. apply E.
Qed.

Theorem zlossyN : forall n, zlossy C (zcgetN C cget n) (zcaddN C cadd n).
Proof.
  intros n c k a m r k' a' m' r' E. unfold zcgetN, zcaddN in *.
  destruct (Hlossy _ _ _ _ _ _ _ _ _ E) as [[-> [-> [Em ->]]]|E']; [left | right; exact E'].
  repeat split; try reflexivity. apply (zkeyN_inj n k m' m Em).
Qed.

(** no Restrict entry keyed with more than [n] levels *)
Definition znofuture (n : nat) (c : C) : Prop :=
  forall a m n' r, cget c zcode_restrict a (m ++ [n']) = Some r -> n' <= n.

Lemma znofuture_add : forall n c k a m r, znofuture n c -> znofuture n (zcaddN C cadd n c k a m r).
Proof.
  intros n c k a m r Hf a' m' n' r' E. unfold zcaddN in E.
  destruct (Hlossy _ _ _ _ _ _ _ _ _ E) as [[Ek [_ [Em _]]]|E']; [|apply (Hf a' m' n' r' E')].
  unfold zkeyN in Em. rewrite <- Ek in Em. simpl in Em. apply app_inj_tail in Em. lia.
Qed.

Lemma znofuture_mono : forall n n' c, n <= n' -> znofuture n c -> znofuture n' c.
Proof. intros n n' c Hn Hf a m k r E. specialize (Hf a m k r E). lia. Qed.

(** what the view at [n'] serves of a cache without future keys, [n <= n'] *)
Lemma zcgetN_later : forall n n' c k a m r, znofuture n c -> n <= n' ->
  zcgetN C cget n' c k a m = Some r ->
  zcgetN C cget n c k a m = Some r /\ (k = zcode_restrict -> n' = n).
Proof.
  intros n n' c k a m r Hf Hn E. unfold zcgetN, zkeyN in *.
  destruct (N.eqb_spec k zcode_restrict) as [->|Hne].
  - pose proof (Hf a m n' r E). assert (n' = n) by lia. subst n'. auto.
  - split; [exact E | intros Hx; contradiction].
Qed.

End View.

(** ** The algorithms only insert *)

Section Pres.
Variable gt : ref -> ref -> bool.
Variable C : Type.
Variable cget : C -> N -> list ref -> list nat -> option ref.
Variable cadd : C -> N -> list ref -> list nat -> ref -> C.
Variable P : C -> Prop.
Hypothesis HP : forall c k a m r, P c -> P (cadd c k a m r).

Ltac pres_split E :=
  repeat match type of E with
  | match ?x with _ => _ end = Some _ => destruct x eqn:?; try discriminate
  | (let '(_, _) := ?x in _) = Some _ => destruct x eqn:?
  | (if ?x then _ else _) = Some _ => destruct x eqn:?
  end.

Ltac pres_all :=
  repeat match goal with
  | E : match ?x with _ => _ end = Some _ |- _ => destruct x eqn:?; try discriminate
  | E : (let '(_, _) := ?x in _) = Some _ |- _ => destruct x eqn:?
  | E : (if ?x then _ else _) = Some _ |- _ => destruct x eqn:?
  end.

Lemma zapply_pres : forall op fuel s c f g s' c' r,
  zapply gt C cget cadd fuel s c op f g = Some (s', c', r) -> P c -> P c'.
Proof.
  intros op. induction fuel as [|n IH]; intros s c f g s' c' r E Hc; [discriminate|].
  rewrite (zapply_S gt C cget cadd) in E.
  destruct (zterminal s op f g); [discriminate | inversion E; subst; exact Hc |].
  destruct (if zcommutes op && gt f g then (g, f) else (f, g)) as [f' g'].
  destruct (cget c (zop_code op) [f'; g'] []); [inversion E; subst; exact Hc|].
  destruct (zget s f') as [vf|]; [|discriminate]. destruct (zget s g') as [vg|]; [|discriminate].
  cbv zeta in E.
  match type of E with
  | match ?res with _ => _ end = _ => destruct res as [[[s1 c1] h]|] eqn:Er; [|discriminate]
  end.
  inversion E; subst s' c' r. clear E. apply HP.
  pres_split Er;
  repeat match goal with
  | Hz : zapply _ _ _ _ n _ _ _ _ _ = Some _ |- _ => apply IH in Hz; [|assumption]
  end;
  try (inversion Er; subst); assumption.
Qed.

Lemma zapply_not_pres : forall fuel s c f s' c' r,
  zapply_not gt C cget cadd fuel s c f = Some (s', c', r) -> P c -> P c'.
Proof.
  intros fuel s c f s' c' r E Hc. unfold zapply_not in E. destruct (ztaut s 0); [|discriminate].
  apply (zapply_pres _ _ _ _ _ _ _ _ _ E Hc).
Qed.

Lemma zsymm_pres : forall fuel s c f g s' c' r,
  zsymm gt C cget cadd fuel s c f g = Some (s', c', r) -> P c -> P c'.
Proof.
  induction fuel as [|n IH]; intros s c f g s' c' r E Hc; [discriminate|].
  rewrite (zsymm_S gt C cget cadd) in E.
  destruct (zempty s) as [empty|]; [|discriminate].
  destruct (ref_eqb f g); [inversion E; subst; exact Hc|].
  destruct (ref_eqb f empty); [inversion E; subst; exact Hc|].
  destruct (ref_eqb g empty); [inversion E; subst; exact Hc|].
  destruct (if gt f g then (g, f) else (f, g)) as [f' g'].
  destruct (cget c zcode_symm [f'; g'] []); [inversion E; subst; exact Hc|].
  destruct (zget s f') as [vf|]; [|discriminate]. destruct (zget s g') as [vg|]; [|discriminate].
  cbv zeta in E.
  match type of E with
  | match ?res with _ => _ end = _ => destruct res as [[[s1 c1] h]|] eqn:Er; [|discriminate]
  end.
  inversion E; subst s' c' r. clear E. apply HP.
  pres_split Er;
  repeat match goal with
  | Hz : zsymm _ _ _ _ n _ _ _ _ = Some _ |- _ => apply IH in Hz; [|assumption]
  end;
  try (inversion Er; subst); assumption.
Qed.

Lemma zsubset_pres : forall op var vl fuel s c f s' c' r,
  zsubset C cget cadd fuel s c op f var vl = Some (s', c', r) -> P c -> P c'.
Proof.
  intros op var vl. induction fuel as [|n IH]; intros s c f s' c' r E Hc; [discriminate|].
  rewrite (zsubset_S C cget cadd) in E.
  destruct (zget s f) as [[v|nd]|]; [| |discriminate].
  - unfold zsubset_below in E. destruct op, (zempty s); try discriminate;
      try (inversion E; subst; exact Hc).
    destruct (zmk_node s vl f r0). inversion E; subst. exact Hc.
  - destruct (Nat.compare (nstored nd) vl).
    + destruct (nchildren nd) as [|fhi [|flo [|x rest]]]; try discriminate.
      destruct op; try (inversion E; subst; exact Hc).
      destruct (zmk_node s (nstored nd) (eref flo) (eref fhi)). inversion E; subst. exact Hc.
    + destruct (cget c (zsub_code op) [f] [var]); [inversion E; subst; exact Hc|].
      destruct (nchildren nd) as [|fhi [|flo [|x rest]]]; try discriminate.
      destruct (zsubset C cget cadd n s c op (eref fhi) var vl) as [[[s1 c1] hi]|] eqn:E1; [|discriminate].
      destruct (zsubset C cget cadd n s1 c1 op (eref flo) var vl) as [[[s2 c2] lo]|] eqn:E2; [|discriminate].
      destruct (zmk_node s2 (nstored nd) hi lo) as [s3 h]. inversion E; subst.
      apply HP. apply (IH _ _ _ _ _ _ E2). apply (IH _ _ _ _ _ _ E1). exact Hc.
    + unfold zsubset_below in E. destruct op, (zempty s); try discriminate;
        try (inversion E; subst; exact Hc).
      destruct (zmk_node s vl f r0). inversion E; subst. exact Hc.
Qed.

Lemma zsubset_top_pres : forall op var fuel s c f s' c' r,
  zsubset_top C cget cadd fuel s c op f var = Some (s', c', r) -> P c -> P c'.
Proof.
  intros op var fuel s c f s' c' r E Hc. unfold zsubset_top in E.
  destruct (nth_error (s_v2l s) var); [|discriminate]. apply (zsubset_pres _ _ _ _ _ _ _ _ _ _ E Hc).
Qed.

Lemma zapply_ite_pres : forall fuel s c f g h s' c' r,
  zapply_ite gt C cget cadd fuel s c f g h = Some (s', c', r) -> P c -> P c'.
Proof.
  induction fuel as [|n IH]; intros s c f g h s' c' r E Hc; [discriminate|].
  rewrite (zapply_ite_S gt C cget cadd) in E.
  destruct (ref_eqb g h); [inversion E; subst; exact Hc|].
  destruct (ref_eqb f g); [apply (zapply_pres _ _ _ _ _ _ _ _ _ E Hc)|].
  destruct (ref_eqb f h); [apply (zapply_pres _ _ _ _ _ _ _ _ _ E Hc)|].
  destruct (zget s f) as [fnode|]; [|discriminate].
  destruct (is_empty_b s f); [inversion E; subst; exact Hc|].
  destruct (zget s g) as [gnode|]; [|discriminate].
  destruct (is_empty_b s g); [apply (zapply_pres _ _ _ _ _ _ _ _ _ E Hc)|].
  destruct (zget s h) as [hnode|]; [|discriminate].
  destruct (is_empty_b s h); [apply (zapply_pres _ _ _ _ _ _ _ _ _ E Hc)|].
  cbv zeta in E.
  destruct (ztaut_opt s _) as [taut|]; [|discriminate].
  destruct (ref_eqb f taut); [inversion E; subst; exact Hc|].
  destruct (ref_eqb g taut); [apply (zapply_pres _ _ _ _ _ _ _ _ _ E Hc)|].
  destruct (cget c zcode_ite [f; g; h] []); [inversion E; subst; exact Hc|].
  match type of E with
  | match ?res with _ => _ end = _ => destruct res as [[[s1 c1] r1]|] eqn:Er; [|discriminate]
  end.
  inversion E; subst s' c' r. clear E. apply HP.
  pres_all;
  repeat match goal with
  | Hx : Some _ = Some _ |- _ => inversion Hx; subst; clear Hx
  end;
  repeat match goal with
  | Hz : zapply_ite _ _ _ _ n _ _ _ _ _ = Some _ |- _ => apply IH in Hz; [|assumption]
  | Hz : zapply _ _ _ _ _ _ _ _ _ _ = Some _ |- _ => apply zapply_pres in Hz; [|assumption]
  end;
  try (inversion Er; subst); assumption.
Qed.

Lemma zapply_op_pres : forall op fuel s c f g s' c' r,
  zapply_op gt C cget cadd fuel s c op f g = Some (s', c', r) -> P c -> P c'.
Proof.
  intros op fuel s c f g s' c' r E Hc. destruct op; simpl in E;
    try (apply (zapply_pres _ _ _ _ _ _ _ _ _ E Hc)); try (apply (zsymm_pres _ _ _ _ _ _ _ _ E Hc)).
  - (* equiv *)
    destruct (zsymm gt C cget cadd fuel s c f g) as [[[s1 c1] r1]|] eqn:E1; [|discriminate].
    apply (zapply_not_pres _ _ _ _ _ _ _ E). apply (zsymm_pres _ _ _ _ _ _ _ _ E1 Hc).
  - (* nand *)
    destruct (zapply gt C cget cadd fuel s c ZIntsec f g) as [[[s1 c1] r1]|] eqn:E1; [|discriminate].
    apply (zapply_not_pres _ _ _ _ _ _ _ E). apply (zapply_pres _ _ _ _ _ _ _ _ _ E1 Hc).
  - (* nor *)
    destruct (zapply gt C cget cadd fuel s c ZUnion f g) as [[[s1 c1] r1]|] eqn:E1; [|discriminate].
    apply (zapply_not_pres _ _ _ _ _ _ _ E). apply (zapply_pres _ _ _ _ _ _ _ _ _ E1 Hc).
  - (* imp *)
    destruct (ztaut s 0); [|discriminate]. apply (zapply_ite_pres _ _ _ _ _ _ _ _ _ E Hc).
Qed.

Lemma znot_var_pres : forall fuel s c var s' c' r,
  znot_var gt C cget cadd fuel s c var = Some (s', c', r) -> P c -> P c'.
Proof.
  intros fuel s c var s' c' r E Hc. unfold znot_var in E. destruct (zvar s var) as [[s1 e]|]; [|discriminate].
  apply (zapply_not_pres _ _ _ _ _ _ _ E Hc).
Qed.

Lemma zrestrict_pres : forall fuel s c f vars level s' c' r,
  zrestrict C cget cadd fuel s c f vars level = Some (s', c', r) -> P c -> P c'.
Proof.
  induction fuel as [|n IH]; intros s c f vars level s' c' r E Hc; [discriminate|].
  rewrite (zrestrict_S C cget cadd) in E. cbv zeta in E.
  pres_all;
  repeat match goal with
  | Hx : Some _ = Some _ |- _ => inversion Hx; subst; clear Hx
  end;
  repeat match goal with
  | Hz : zrestrict _ _ _ n _ _ _ _ _ = Some _ |- _ => apply IH in Hz; [|assumption]
  end;
  try apply HP; assumption.
Qed.

Lemma zrestrict_edge_pres : forall fuel s c f vars s' c' r,
  zrestrict_edge C cget cadd fuel s c f vars = Some (s', c', r) -> P c -> P c'.
Proof. intros fuel s c f vars s' c' r E Hc. apply (zrestrict_pres _ _ _ _ _ _ _ _ _ E Hc). Qed.

End Pres.
