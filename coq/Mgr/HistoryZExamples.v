(** * A concrete ZBDD history through every kind of call, and the theorems instantiated on it

    [exz_ops]: 31 calls on a ZBDD manager with 3 variables covering all 17
    constructors of [zhop] (Boolean interface, set-family interface, make_node,
    clone / drop / gc, a reordering to [2; 0; 1], a variable added late, the
    same [restrict] call before the reordering, after it and after [add_vars]),
    run with an unbounded cache (never cleared by [add_vars]) and operand order
    "always swap".
    [exz_fresh]: a fresh manager with 4 variables that is only brought into the
    same variable order and builds the two operands, run WITHOUT cache and
    with operand order "never swap".
    [exz_keyed] / [exz_unkeyed]: restrict, add_vars, the same restrict - with the
    Restrict entries keyed by the number of levels (the state machine = the code
    since f8637cd) the second call is computed afresh and is the cofactor, the
    first call's entry stays in the cache under the old number of levels; with
    the un-keyed lookups of the defective variant [zrestrict_unkeyed] (Mgr/HistoryZ.v:
    the code before f8637cd) on the kept cache the second call is served the
    first one's entry, which is not the cofactor.
    Everything here is computed by [vm_compute] on the executable model; the
    theorems of Mgr/HistoryZThms.v / HistoryZSpec.v are then applied to the
    computed states (their hypotheses are satisfiable, their conclusions are
    about non-trivial tables). *)

From Coq Require Import List NArith PArith Bool Arith Lia FMapPositive.
From OxiVerif Require Import DD.Table DD.TableProofs DD.Sem DD.Build DD.Apply DD.ConfigApply DD.FamSpec
  DD.ZbddOps DD.ZbddOpsProofs DD.ZbddSoundProofs DD.ZbddBool DD.ZbddBoolProofs DD.ZbddVars DD.ZbddEvalProofs
  Mgr.History Mgr.HistoryExamples
  Mgr.HistoryZ Mgr.HistoryZBase Mgr.HistoryZFam Mgr.HistoryZProofs Mgr.HistoryZThms Mgr.HistoryZSpec.
Import ListNotations.
Local Open Scope N_scope.

(** ** Deciding equality of two diagram functions by enumeration
    ([all_asgs], [bfun_eqb] of Mgr/HistoryExamples.v) *)

Lemma zbfun_eq_enum : forall s1 s2 r1 r2 n, WF s1 -> WF s2 -> nlevels s1 = n -> nlevels s2 = n ->
  bfun_eqb n (zbfun_of s1 r1) (zbfun_of s2 r2) = true ->
  forall a, zbfun_of s1 r1 a = zbfun_of s2 r2 a.
Proof.
  intros s1 s2 r1 r2 n H1 H2 N1 N2 Hb a. destruct (all_asgs_cover n a) as [a' [Hin Hag]].
  unfold bfun_eqb in Hb. rewrite forallb_forall in Hb. specialize (Hb a' Hin). apply eqb_prop in Hb.
  rewrite (zbfun_of_local s1 r1 a a' H1) by (rewrite N1; exact Hag).
  rewrite (zbfun_of_local s2 r2 a a' H2) by (rewrite N2; exact Hag). exact Hb.
Qed.

Lemma zbfun_eq_enum_spec : forall s r n (F : bfun), WF s -> nlevels s = n ->
  (forall a a', (forall v, (v < n)%nat -> a v = a' v) -> F a = F a') ->
  bfun_eqb n (zbfun_of s r) F = true -> forall a, zbfun_of s r a = F a.
Proof.
  intros s r n F H N Hloc Hb a. destruct (all_asgs_cover n a) as [a' [Hin Hag]].
  unfold bfun_eqb in Hb. rewrite forallb_forall in Hb. specialize (Hb a' Hin). apply eqb_prop in Hb.
  rewrite (zbfun_of_local s r a a' H) by (rewrite N; exact Hag). rewrite Hb. symmetry. apply Hloc. exact Hag.
Qed.

(** ** Configuration A: unbounded cache, operands always swapped *)

Definition zgtA : ref -> ref -> bool := fun _ _ => true.
Notation zstepA := (hstep_z zgtA zacache zac_get zac_add []).
Notation zrunA := (hrun_z zgtA zacache zac_get zac_add []).
Lemma zemptyA : forall k a m, zac_get [] k a m = None.
Proof. reflexivity. Qed.

(** ** Configuration B: no cache, operands never swapped *)

Definition zgtB : ref -> ref -> bool := fun _ _ => false.
Notation zstepB := (hstep_z zgtB unit znc_get znc_add tt).
Notation zrunB := (hrun_z zgtB unit znc_get znc_add tt).
Lemma zemptyB : forall k a m, znc_get tt k a m = None.
Proof. reflexivity. Qed.

(** ** The long history *)

Definition exz_ops : list zhop :=
  [ ZHVar 0 0 false;                      (* x0 *)
    ZHVar 1 1 false;                      (* x1 *)
    ZHVar 2 2 true;                       (* ~x2 *)
    ZHConst 3 true;
    ZHBin OAnd 4 0 1;                     (* x0 /\ x1 *)
    ZHBin OXor 5 4 2;                     (* (x0 /\ x1) xor ~x2 *)
    ZHIte 6 0 1 2;                        (* if x0 then x1 else ~x2 *)
    ZHNot 7 6;
    ZHBin OAnd 8 0 2;                     (* the cube x0 /\ ~x2 *)
    ZHRestrict 9 5 8;
    ZHSingleton 10 1%nat;                 (* { {x1} } *)
    ZHSingleton 11 2%nat;                 (* { {x2} } *)
    ZHBase 12;                            (* { {} } *)
    ZHEmpty 13;
    ZHMakeNode 14 10 11 12;               (* { {}, {x1, x2} } *)
    ZHSet ZUnion 15 14 10;
    ZHSub ZChange 16 15 0%nat;
    ZHSub ZSubset1 17 16 1%nat;
    ZHSub ZSubset0 18 16 2%nat;
    ZHSet ZDiff 19 5 15;
    ZHSet ZIntsec 20 5 6;
    ZHClone 21 5;
    ZHDrop 7;
    ZHGc;
    ZHSetVarOrder [2%nat; 0%nat; 1%nat];
    ZHRestrict 22 5 8;                    (* the same call after the reordering *)
    ZHAddVars 1;
    ZHRestrict 23 5 8;                    (* the same operand edges, one more variable *)
    ZHVar 24 3 false;                     (* the new variable *)
    ZHBin OOr 25 5 24;
    ZHGc ].

Definition exz_stA : hstate_z zacache :=
  match zrunA (hinit_z zacache [] 3) exz_ops with Some st => st | None => hinit_z zacache [] 0 end.

Lemma exz_preA : zhops_pre_b zgtA zacache zac_get zac_add [] (hinit_z zacache [] 3) exz_ops = true.
Proof. vm_compute. reflexivity. Qed.

Lemma exz_runA : zrunA (hinit_z zacache [] 3) exz_ops = Some exz_stA.
Proof. vm_compute. reflexivity. Qed.

(** every constructor occurs *)
Definition zhop_tag (o : zhop) : nat :=
  match o with
  | ZHConst _ _ => 0 | ZHVar _ _ _ => 1 | ZHNot _ _ => 2 | ZHBin _ _ _ _ => 3 | ZHIte _ _ _ _ => 4
  | ZHRestrict _ _ _ => 5 | ZHEmpty _ => 6 | ZHBase _ => 7 | ZHSingleton _ _ => 8 | ZHSub _ _ _ _ => 9
  | ZHSet _ _ _ _ => 10 | ZHMakeNode _ _ _ _ => 11 | ZHClone _ _ => 12 | ZHDrop _ => 13 | ZHGc => 14
  | ZHAddVars _ => 15 | ZHSetVarOrder _ => 16
  end%nat.

Lemma exz_ops_cover : forallb (fun t => existsb (fun o => Nat.eqb (zhop_tag o) t) exz_ops) (seq 0 17) = true
                      /\ length exz_ops = 31%nat.
Proof. vm_compute. auto. Qed.

(** the run is not trivial: nodes were created, removed and reordered, the
    chain was dropped, rebuilt and extended *)
Lemma exz_stA_shape :
  PositiveMap.cardinal (s_nodes (hz_s zacache exz_stA)) = 39%nat /\
  s_l2v (hz_s zacache exz_stA) = [2; 0; 1; 3]%nat /\
  s_v2l (hz_s zacache exz_stA) = [1; 2; 0; 3]%nat /\
  length (s_handles (hz_s zacache exz_stA)) = 25%nat /\
  wf_b (hz_s zacache exz_stA) = true /\ zbdd_ok_b (hz_s zacache exz_stA) = true /\
  zchain_ok_b (hz_s zacache exz_stA) = true.
Proof. vm_compute. repeat split; reflexivity. Qed.

Theorem exz_reachA : hreach_z zgtA zacache zac_get zac_add [] 3 exz_stA.
Proof.
  exists exz_ops. split; [|exact exz_runA].
  apply (zhops_pre_b_sound zgtA zacache zac_get zac_add zac_lossy [] zemptyA).
  - apply (hinit_z_inv zacache zac_get [] zemptyA).
  - exact exz_preA.
Qed.

Theorem exz_invA : HInvZ zacache zac_get exz_stA.
Proof. apply (hreach_z_inv zgtA zacache zac_get zac_add zac_lossy [] zemptyA 3). exact exz_reachA. Qed.

(** the theorems, instantiated *)
Theorem exz_wfA : wf_b (hz_s zacache exz_stA) = true /\ zbdd_ok_b (hz_s zacache exz_stA) = true /\
                  zchain_ok_b (hz_s zacache exz_stA) = true.
Proof. apply (histz_wf zgtA zacache zac_get zac_add zac_lossy [] zemptyA 3). exact exz_reachA. Qed.

(** slots 5 and 21 (a clone) hold the same edge, and so do slots 9 and 22: the
    restriction computed before and after collection + reordering (canonicity:
    it is the same function); slots 5 and 6 hold different edges, hence
    different functions *)
Theorem exz_canonA :
  hget (s_handles (hz_s zacache exz_stA)) 5 = hget (s_handles (hz_s zacache exz_stA)) 21 /\
  hget (s_handles (hz_s zacache exz_stA)) 9 = hget (s_handles (hz_s zacache exz_stA)) 22 /\
  forall e5 e6, hget (s_handles (hz_s zacache exz_stA)) 5 = Some e5 ->
                hget (s_handles (hz_s zacache exz_stA)) 6 = Some e6 ->
    ~ (forall a, zbfun_of (hz_s zacache exz_stA) (eref e5) a = zbfun_of (hz_s zacache exz_stA) (eref e6) a).
Proof.
  split; [vm_compute; reflexivity|]. split; [vm_compute; reflexivity|]. intros e5 e6 E5 E6 Heq.
  assert (X : e5 = e6).
  { apply (proj2 (histz_canonical zgtA zacache zac_get zac_add zac_lossy [] zemptyA 3
                    exz_stA exz_reachA 5 6 e5 e6 E5 E6)). exact Heq. }
  assert (Y : hget (s_handles (hz_s zacache exz_stA)) 5 <> hget (s_handles (hz_s zacache exz_stA)) 6)
    by (vm_compute; discriminate).
  apply Y. rewrite E5, E6, X. reflexivity.
Qed.

(** ** [restrict] across [add_vars]: why the key of a Restrict entry carries the number of levels *)

Definition zslot_ref (C : Type) (st : hstate_z C) (k : N) : ref :=
  match zslot C st k with Some r => r | None => RT 0 end.

(** the third [restrict] (slot 23) is NOT the edge of the first two (slots 9, 22),
    and it is the cofactor: the function of slot 5 with x0 := true, x2 := false
    (and x3, which the cube handle now also fixes, := false) *)
Lemma exz_restrict_fresh :
  hget (s_handles (hz_s zacache exz_stA)) 23 <> hget (s_handles (hz_s zacache exz_stA)) 9 /\
  bfun_eqb 4 (zbfun_of (hz_s zacache exz_stA) (zslot_ref zacache exz_stA 23))
             (restrict_s [(0%nat, true); (2%nat, false); (3%nat, false)]
                (zbfun_of (hz_s zacache exz_stA) (zslot_ref zacache exz_stA 5))) = true.
Proof. split; [vm_compute; discriminate | vm_compute; reflexivity]. Qed.

(** the witness of notes/HISTz.md: two variables, [f = x0], the cube handle [x1] *)
Definition exz_keyed_ops : list zhop :=
  [ ZHVar 0 0 false; ZHVar 1 1 false;
    ZHRestrict 2 0 1;                     (* x0 restricted by x1 = true: x0 *)
    ZHAddVars 1;                          (* slot 0 is x0 /\ ~x2 now, slot 1 is x1 /\ ~x2 *)
    ZHRestrict 3 0 1 ].                   (* the cofactor is x0 *)
Definition exz_keyed : hstate_z zacache :=
  match zrunA (hinit_z zacache [] 2) exz_keyed_ops with
  | Some st => st | None => hinit_z zacache [] 0 end.

(** the state machine (Restrict entries keyed by the number of levels, cache kept by
    [add_vars]): the second [restrict] is computed afresh, is the cofactor, and the
    kept cache holds one entry per number of levels for the same operand edges *)
Lemma exz_restrict_keyed :
  hget (s_handles (hz_s zacache exz_keyed)) 3 <> hget (s_handles (hz_s zacache exz_keyed)) 2 /\
  bfun_eqb 3 (zbfun_of (hz_s zacache exz_keyed) (zslot_ref zacache exz_keyed 3))
             (restrict_s [(1%nat, true); (2%nat, false)]
                (zbfun_of (hz_s zacache exz_keyed) (zslot_ref zacache exz_keyed 0))) = true /\
  zac_get (hz_c zacache exz_keyed) zcode_restrict
          [zslot_ref zacache exz_keyed 0; zslot_ref zacache exz_keyed 1] [2%nat] = Some (zslot_ref zacache exz_keyed 2) /\
  zac_get (hz_c zacache exz_keyed) zcode_restrict
          [zslot_ref zacache exz_keyed 0; zslot_ref zacache exz_keyed 1] [3%nat] = Some (zslot_ref zacache exz_keyed 3).
Proof.
  split; [vm_compute; discriminate|]. split; [vm_compute; reflexivity|]. split; vm_compute; reflexivity.
Qed.

(** the same three calls with the DEFECTIVE variant [zrestrict_unkeyed] (Mgr/HistoryZ.v:
    [restrict] of the code before f8637cd, Restrict entries keyed by the operand edges
    only) on the kept cache: (first result, second result, operand, final table) *)
Definition exz_unkeyed : option (ref * ref * ref * snap) :=
  match zrunA (hinit_z zacache [] 2) [ZHVar 0 0 false; ZHVar 1 1 false] with
  | Some st =>
    let s := hz_s zacache st in
    match zslot zacache st 0, zslot zacache st 1 with
    | Some f, Some c =>
      match zrestrict_unkeyed zacache zac_get zac_add (S (nlevels s)) s [] f c 0 with
      | Some (s1, c1, r1) =>
        match zadd_vars s1 1 with
        | Some (s2, _) =>
          match zrestrict_unkeyed zacache zac_get zac_add (S (nlevels s2)) s2 c1 f c 0 with
          | Some (s3, _, r3) => Some (r1, r3, f, s3)
          | None => None
          end
        | None => None
        end
      | None => None
      end
    | _, _ => None
    end
  | None => None
  end.

(** ... the second call is served the first one's entry, and that edge is not the cofactor *)
Lemma exz_restrict_unkeyed :
  match exz_unkeyed with
  | Some (r1, r3, f, s3) =>
    r3 = r1 /\
    bfun_eqb 3 (zbfun_of s3 r3) (restrict_s [(1%nat, true); (2%nat, false)] (zbfun_of s3 f)) = false
  | None => False
  end.
Proof. vm_compute. split; reflexivity. Qed.

(** ** The fresh manager *)

Definition exz_fresh : list zhop :=
  [ ZHSetVarOrder [2%nat; 0%nat; 1%nat];
    ZHVar 0 0 false; ZHVar 1 1 false; ZHVar 2 2 true; ZHVar 3 3 true;
    ZHBin OAnd 4 0 1;
    ZHBin OXor 5 4 2;                     (* (x0 /\ x1) xor ~x2 *)
    ZHBin OAnd 6 5 3;                     (* ... and ~x3: what slot 5 of the long-lived manager denotes now *)
    ZHIte 7 0 1 2;
    ZHBin OAnd 8 7 3 ].

Definition exz_stB : hstate_z unit :=
  match zrunB (hinit_z unit tt 4) exz_fresh with Some st => st | None => hinit_z unit tt 0 end.

Lemma exz_preB : zhops_pre_b zgtB unit znc_get znc_add tt (hinit_z unit tt 4) exz_fresh = true.
Proof. vm_compute. reflexivity. Qed.

Lemma exz_runB : zrunB (hinit_z unit tt 4) exz_fresh = Some exz_stB.
Proof. vm_compute. reflexivity. Qed.

Theorem exz_reachB : hreach_z zgtB unit znc_get znc_add tt 4 exz_stB.
Proof.
  exists exz_fresh. split; [|exact exz_runB].
  apply (zhops_pre_b_sound zgtB unit znc_get znc_add znc_lossy tt zemptyB).
  - apply (hinit_z_inv unit znc_get tt zemptyB).
  - exact exz_preB.
Qed.

Lemma exz_same_order :
  s_l2v (hz_s zacache exz_stA) = s_l2v (hz_s unit exz_stB) /\ s_v2l (hz_s zacache exz_stA) = s_v2l (hz_s unit exz_stB).
Proof. vm_compute. split; reflexivity. Qed.

(** the operands in the two managers *)
Definition zfA5 : bfun := zbfun_of (hz_s zacache exz_stA) (zslot_ref zacache exz_stA 5).
Definition zfA6 : bfun := zbfun_of (hz_s zacache exz_stA) (zslot_ref zacache exz_stA 6).

Lemma exz_holdsA5 : zholds zacache exz_stA 5 zfA5.
Proof. exists (zslot_ref zacache exz_stA 5). split; [vm_compute; reflexivity | intros a; unfold zfA5; reflexivity]. Qed.
Lemma exz_holdsA6 : zholds zacache exz_stA 6 zfA6.
Proof. exists (zslot_ref zacache exz_stA 6). split; [vm_compute; reflexivity | intros a; unfold zfA6; reflexivity]. Qed.

Lemma exz_WFB : WF (hz_s unit exz_stB).
Proof. apply wf_b_spec. vm_compute. reflexivity. Qed.
Lemma exz_WFA : WF (hz_s zacache exz_stA).
Proof. apply wf_b_spec. vm_compute. reflexivity. Qed.
Lemma exz_nA : nlevels (hz_s zacache exz_stA) = 4%nat.
Proof. vm_compute. reflexivity. Qed.
Lemma exz_nB : nlevels (hz_s unit exz_stB) = 4%nat.
Proof. vm_compute. reflexivity. Qed.

Lemma exz_enum6 : bfun_eqb 4 (zbfun_of (hz_s unit exz_stB) (zslot_ref unit exz_stB 6))
                             (zbfun_of (hz_s zacache exz_stA) (zslot_ref zacache exz_stA 5)) = true.
Proof. vm_compute. reflexivity. Qed.
Lemma exz_enum8 : bfun_eqb 4 (zbfun_of (hz_s unit exz_stB) (zslot_ref unit exz_stB 8))
                             (zbfun_of (hz_s zacache exz_stA) (zslot_ref zacache exz_stA 6)) = true.
Proof. vm_compute. reflexivity. Qed.

Lemma exz_slotB6 : zslot unit exz_stB 6 = Some (zslot_ref unit exz_stB 6).
Proof. vm_compute. reflexivity. Qed.
Lemma exz_slotB8 : zslot unit exz_stB 8 = Some (zslot_ref unit exz_stB 8).
Proof. vm_compute. reflexivity. Qed.

(** slot 6 / slot 8 of the fresh manager hold the same functions as slot 5 /
    slot 6 of the long-lived one (decided over all 16 assignments) *)
Lemma exz_holdsB6 : zholds unit exz_stB 6 zfA5.
Proof.
  exists (zslot_ref unit exz_stB 6). split; [exact exz_slotB6|].
  exact (zbfun_eq_enum (hz_s unit exz_stB) (hz_s zacache exz_stA) (zslot_ref unit exz_stB 6) (zslot_ref zacache exz_stA 5)
                       4%nat exz_WFB exz_WFA exz_nB exz_nA exz_enum6).
Qed.
Lemma exz_holdsB8 : zholds unit exz_stB 8 zfA6.
Proof.
  exists (zslot_ref unit exz_stB 8). split; [exact exz_slotB8|].
  exact (zbfun_eq_enum (hz_s unit exz_stB) (hz_s zacache exz_stA) (zslot_ref unit exz_stB 8) (zslot_ref zacache exz_stA 6)
                       4%nat exz_WFB exz_WFA exz_nB exz_nA exz_enum8).
Qed.

(** C08 / C01 / C09: the union computed in the long-lived manager
    (after 31 calls, two collections, a reordering, an added variable; cache,
    swapped operands) and in the fresh one (no cache) denote the same function
    and have the same number of nodes *)
Theorem exz_fresh_equiv :
  exists stA' stB' r1 r2,
    zstepA exz_stA (ZHSet ZUnion 30 5 6) = Some stA' /\ zstepB exz_stB (ZHSet ZUnion 9 6 8) = Some stB' /\
    zslot zacache stA' 30 = Some r1 /\ zslot unit stB' 9 = Some r2 /\
    (forall a, zbfun_of (hz_s zacache stA') r1 a = zop_s ZUnion zfA5 zfA6 a) /\
    (forall a, zbfun_of (hz_s unit stB') r2 a = zop_s ZUnion zfA5 zfA6 a) /\
    count_reach (hz_s zacache stA') (E r1) = count_reach (hz_s unit stB') (E r2) /\
    wf_b (hz_s zacache stA') = true /\ wf_b (hz_s unit stB') = true.
Proof.
  apply (histz_fresh_equiv zgtA zgtB zacache unit zac_get zac_add znc_get znc_add zac_lossy znc_lossy
           [] tt zemptyA zemptyB 3 4 exz_ops exz_fresh exz_stA exz_stB).
  - apply (zhops_pre_b_sound zgtA zacache zac_get zac_add zac_lossy [] zemptyA);
      [apply (hinit_z_inv zacache zac_get [] zemptyA) | exact exz_preA].
  - exact exz_runA.
  - apply (zhops_pre_b_sound zgtB unit znc_get znc_add znc_lossy tt zemptyB);
      [apply (hinit_z_inv unit znc_get tt zemptyB) | exact exz_preB].
  - exact exz_runB.
  - apply exz_same_order.
  - apply exz_same_order.
  - apply ZSpSet; [exact exz_holdsA5 | exact exz_holdsA6].
  - apply ZSpSet; [exact exz_holdsB6 | exact exz_holdsB8].
Qed.

(** the values: the same count, different node ids *)
Lemma exz_fresh_values :
  option_map (fun st => (count_reach (hz_s zacache st) (E (zslot_ref zacache st 30)), zslot_ref zacache st 30))
             (zstepA exz_stA (ZHSet ZUnion 30 5 6)) = Some (7, RN 48) /\
  option_map (fun st => (count_reach (hz_s unit st) (E (zslot_ref unit st 9)), zslot_ref unit st 9))
             (zstepB exz_stB (ZHSet ZUnion 9 6 8)) = Some (7, RN 31).
Proof. split; vm_compute; reflexivity. Qed.

(** ** The hypotheses of [hspec_z] for restriction, change and make_node are satisfiable *)

Lemma zcube_fun_local : forall lits n, (forall p, In p lits -> (fst p < n)%nat) ->
  forall a a', (forall v, (v < n)%nat -> a v = a' v) -> zcube_fun lits a = zcube_fun lits a'.
Proof.
  intros lits n Hlt a a' Hag. unfold zcube_fun. induction lits as [|p r IH]; [reflexivity|]. simpl.
  rewrite (Hag (fst p) (Hlt p (or_introl eq_refl))), IH; [reflexivity|]. intros w Hw. apply Hlt. right. exact Hw.
Qed.

(** slot 8 holds (now, with four variables) the cube x0 /\ ~x2 /\ ~x3 *)
Lemma exz_enum_cube : bfun_eqb 4 (zbfun_of (hz_s zacache exz_stA) (zslot_ref zacache exz_stA 8))
                                 (zcube_fun [(0%nat, true); (2%nat, false); (3%nat, false)]) = true.
Proof. vm_compute. reflexivity. Qed.

Lemma exz_holds_cube : zholds zacache exz_stA 8 (zcube_fun [(0%nat, true); (2%nat, false); (3%nat, false)]).
Proof.
  exists (zslot_ref zacache exz_stA 8). split; [vm_compute; reflexivity|].
  apply (zbfun_eq_enum_spec _ _ 4%nat _ exz_WFA exz_nA); [|exact exz_enum_cube].
  apply zcube_fun_local. intros p [<-|[<-|[<-|[]]]]; simpl; lia.
Qed.

Theorem exz_spec_restrict :
  exists st', zstepA exz_stA (ZHRestrict 31 5 8) = Some st' /\
              zholds zacache st' 31 (restrict_s [(0%nat, true); (2%nat, false); (3%nat, false)] zfA5).
Proof.
  destruct (hstep_z_spec zgtA zacache zac_get zac_add zac_lossy [] zemptyA exz_stA _ 31 _ exz_invA
              (ZSpRestrict zacache exz_stA 31 5 8 zfA5 _ exz_holdsA5 exz_holds_cube
                 ltac:(repeat constructor; simpl; intuition lia)
                 ltac:(intros v b [Hx|[Hx|[Hx|[]]]]; inversion Hx; subst; rewrite exz_nA; lia)))
    as [st' [E [_ [_ Hd]]]].
  exists st'. split; [exact E | exact Hd].
Qed.

Theorem exz_spec_change :
  exists st', zstepA exz_stA (ZHSub ZChange 31 5 3%nat) = Some st' /\
              zholds zacache st' 31 (zsub_s ZChange 3%nat zfA5).
Proof.
  destruct (hstep_z_spec zgtA zacache zac_get zac_add zac_lossy [] zemptyA exz_stA _ 31 _ exz_invA
              (ZSpSub zacache exz_stA ZChange 31 5 3%nat zfA5 exz_holdsA5 ltac:(rewrite exz_nA; lia)))
    as [st' [E [_ [_ Hd]]]].
  exists st'. split; [exact E | exact Hd].
Qed.
