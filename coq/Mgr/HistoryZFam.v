(** * The set-family operations of a ZBDD manager as functions of the VARIABLES

    The C09 theorems describe the results of union / intsec / diff, subset0 /
    subset1 / change, singleton, base, empty and make_node as families of sets
    of LEVELS ([fam_of], DD/FamSpec.v).  For statements that compare two
    managers (different histories, hence possibly different node tables, but
    the same variable order) the result has to be given by the operands'
    FUNCTIONS of the variables ([zbfun_of]: membership of the set of true
    variables).  This file translates: [zop_s], [zsub_s], [singleton_s],
    [base_s], [mknode_s] are the spec functions, [fam_*_bfun] the bridges. *)

From Coq Require Import List NArith PArith Bool Arith Lia FMapPositive.
From OxiVerif Require Import DD.Table DD.TableExtra DD.TableProofs DD.Sem DD.Build DD.BuildProofs
  DD.Apply DD.ApplyProofs DD.ApplyEvalProofs DD.ConfigApply DD.CanonZbdd DD.FamSpec DD.FamSpecProofs
  DD.ZbddOps DD.ZbddOpsProofs DD.ZbddSubsetProofs DD.ZbddSoundProofs DD.ZbddBool DD.ZbddBoolProofs DD.ZbddEvalProofs
  Mgr.LevelSwap Mgr.LevelSwapProofs Mgr.LevelSwapOrder Mgr.LevelSwapZ Mgr.LevelSwapZProofs
  Mgr.LevelSwapZChain Mgr.LevelSwapZOrder Mgr.LevelSwapZFam
  Mgr.HistoryZ Mgr.HistoryZBase.
Import ListNotations.

Local Arguments zbfun_of : simpl never.
Local Arguments fam_of : simpl never.

(** ** The spec functions *)

Definition zop_s (o : zop) (f g : bfun) : bfun :=
  fun a => match o with
           | ZUnion => f a || g a
           | ZIntsec => f a && g a
           | ZDiff => f a && negb (g a)
           end.

(** subset0: the members without [v]; subset1: the members with [v], [v] removed;
    change: [v] toggled in every member *)
Definition zsub_s (o : zsub) (v : nat) (f : bfun) : bfun :=
  fun a => match o with
           | ZSubset0 => f a && negb (a v)
           | ZSubset1 => f (upd a v true) && negb (a v)
           | ZChange => f (upd a v (negb (a v)))
           end.

(** { {v} } and { {} } over [n] variables *)
Definition singleton_s (n v : nat) : bfun :=
  fun a => forallb (fun u => Bool.eqb (a u) (Nat.eqb u v)) (seq 0 n).
Definition base_s (n : nat) : bfun := fun a => forallb (fun u => negb (a u)) (seq 0 n).

(** lo + { S + {v} | S in hi }  ("lo or (var and hi|var=0)") *)
Definition mknode_s (v : nat) (hi lo : bfun) : bfun :=
  fun a => lo a || (a v && hi (upd a v false)).

(** ** Sets of variables as level lists *)

Lemma incr_same_members : forall (X T : lset) lo, incr_from lo X -> incr_from lo T ->
  (forall x, In x X <-> In x T) -> X = T.
Proof.
  induction X as [|x X IH]; intros T lo HS HT Hm.
  - destruct T as [|y T]; [reflexivity|]. exfalso. apply (proj2 (Hm y)). left. reflexivity.
  - destruct T as [|y T]; [exfalso; apply (proj1 (Hm x)); left; reflexivity|].
    simpl in HS, HT. destruct HS as [Lx HS]. destruct HT as [Ly HT].
    assert (x = y).
    { destruct (proj1 (Hm x) (or_introl eq_refl)) as [->|Hx]; [reflexivity|].
      destruct (proj2 (Hm y) (or_introl eq_refl)) as [->|Hy]; [reflexivity|].
      pose proof (incr_from_ge _ _ x HT Hx). pose proof (incr_from_ge _ _ y HS Hy). lia. }
    subst y. f_equal. apply (IH T (S x) HS HT). intros z. split; intros Hz.
    + destruct (proj1 (Hm z) (or_intror Hz)) as [->|Hz']; [|exact Hz'].
      pose proof (incr_from_ge _ _ z HS Hz). lia.
    + destruct (proj2 (Hm z) (or_intror Hz)) as [->|Hz']; [|exact Hz'].
      pose proof (incr_from_ge _ _ z HT Hz). lia.
Qed.

Lemma set_levels_incr : forall s a, incr_from 0 (set_levels s a).
Proof. intros s a. unfold set_levels. apply true_levels_incr. Qed.

Section SetLevels.
Variable s : snap.
Hypothesis H : WF s.

Lemma set_levels_mem : forall a v vl, nth_error (s_v2l s) v = Some vl ->
  (In vl (set_levels s a) <-> a v = true).
Proof.
  intros a v vl Ev. rewrite set_levels_spec.
  assert (Hv : v < length (s_v2l s)) by (apply nth_error_Some; congruence).
  destruct (wf_perm_v2l s H v Hv) as [l [E1 E2]]. rewrite Ev in E1. inversion E1; subst l.
  rewrite (nth_error_nth _ _ 0 E2). pose proof (v2l_range s v vl H Ev). tauto.
Qed.

Lemma set_levels_ext : forall a b, (forall v, v < nlevels s -> a v = b v) ->
  set_levels s a = set_levels s b.
Proof.
  intros a b Hab. unfold set_levels. apply true_levels_ext. intros l Hl. unfold asg_choice.
  destruct (wf_l2v_v2l s l H ltac:(lia)) as [Hv _]. rewrite (Hab _ Hv). reflexivity.
Qed.

Lemma set_levels_inj : forall a b, set_levels s a = set_levels s b ->
  forall v, v < nlevels s -> a v = b v.
Proof.
  intros a b E v Hv. destruct (wf_v2l_l2v s v H Hv) as [Hl Hinv].
  assert (Ev : nth_error (s_v2l s) v = Some (nth v (s_v2l s) 0)).
  { apply nth_error_nth'. rewrite (wf_perm_len s H). exact Hv. }
  pose proof (set_levels_mem a v _ Ev) as Ma. pose proof (set_levels_mem b v _ Ev) as Mb.
  rewrite E in Ma. destruct (a v), (b v); try reflexivity.
  - symmetry. apply Mb, Ma. reflexivity.
  - apply Ma, Mb. reflexivity.
Qed.

(** the level of a variable, the variable of a level *)
Lemma l2v_at : forall v vl x, nth_error (s_v2l s) v = Some vl -> x < nlevels s ->
  (nth x (s_l2v s) 0 = v <-> x = vl).
Proof.
  intros v vl x Ev Hx.
  assert (Hv : v < length (s_v2l s)) by (apply nth_error_Some; congruence).
  destruct (wf_perm_v2l s H v Hv) as [l [E1 E2]]. rewrite Ev in E1. inversion E1; subst l.
  split.
  - intros Ex. destruct (wf_l2v_v2l s x H Hx) as [_ Hinv]. rewrite Ex, (nth_error_nth _ _ 0 Ev) in Hinv.
    symmetry. exact Hinv.
  - intros ->. apply (nth_error_nth _ _ 0 E2).
Qed.

Lemma set_levels_upd_true : forall a v vl, nth_error (s_v2l s) v = Some vl ->
  set_levels s (upd a v true) = sinsert vl (set_levels s a).
Proof.
  intros a v vl Ev. pose proof (v2l_range s v vl H Ev) as Hvl.
  apply (incr_same_members _ _ 0); [apply set_levels_incr | apply incr_from_sinsert; [apply set_levels_incr | lia]|].
  intros x. rewrite in_sinsert, !set_levels_spec. unfold upd. split.
  - intros [Hx Hu]. destruct (Nat.eqb_spec (nth x (s_l2v s) 0) v) as [Ex|Ne].
    + left. apply (l2v_at v vl x Ev Hx). exact Ex.
    + right. auto.
  - intros [->|[Hx Hu]].
    + split; [exact Hvl|]. rewrite (proj2 (l2v_at v vl vl Ev Hvl) eq_refl), Nat.eqb_refl. reflexivity.
    + split; [exact Hx|]. destruct (Nat.eqb (nth x (s_l2v s) 0) v); [reflexivity | exact Hu].
Qed.

Lemma set_levels_upd_false : forall a v vl, nth_error (s_v2l s) v = Some vl ->
  set_levels s (upd a v false) = sremove vl (set_levels s a).
Proof.
  intros a v vl Ev. pose proof (v2l_range s v vl H Ev) as Hvl.
  apply (incr_same_members _ _ 0); [apply set_levels_incr | apply incr_from_sremove; apply set_levels_incr|].
  intros x. rewrite in_sremove, !set_levels_spec. unfold upd. split.
  - intros [Hx Hu]. destruct (Nat.eqb_spec (nth x (s_l2v s) 0) v) as [Ex|Ne]; [discriminate|].
    split; [auto|]. intros ->. apply Ne. apply (l2v_at v vl vl Ev Hvl). reflexivity.
  - intros [[Hx Hu] Hne]. split; [exact Hx|].
    destruct (Nat.eqb_spec (nth x (s_l2v s) 0) v) as [Ex|Ne]; [|exact Hu].
    exfalso. apply Hne. apply (l2v_at v vl x Ev Hx). exact Ex.
Qed.

End SetLevels.

(** ** The bridges: family statement => function statement *)

Section Bridges.
Variable s : snap.
Hypothesis B : ZbddOK s.

Let H : WF s := zo_wf s B.
Let Hk : s_kind s = KZbdd := zo_kind s B.

(** every member of a family is the level list of a set of variables *)
Lemma member_is_levels : forall r F T, fam_of s r = Some F -> In T F -> T = set_levels s (vset s T).
Proof. intros r F T EF HT. symmetry. apply (fam_member_is_set s r F T H Hk EF HT). Qed.

Lemma fmem_bool : forall S F b, (In S F <-> b = true) -> fmem S F = b.
Proof.
  intros S F b Hb. destruct b.
  - apply fmem_spec. apply Hb. reflexivity.
  - apply fmem_false. intros Hin. apply Hb in Hin. discriminate.
Qed.

Theorem fam_bin_bfun : forall o f g r F G R a, ref_ok s f -> ref_ok s g -> ref_ok s r ->
  fam_of s f = Some F -> fam_of s g = Some G -> fam_of s r = Some R -> feq R (f_bin o F G) ->
  zbfun_of s r a = zop_s o (zbfun_of s f) (zbfun_of s g) a.
Proof.
  intros o f g r F G R a Of Og Or EF EG ER Hq. unfold zop_s.
  rewrite (zbfun_fam s r R a B Or ER), (zbfun_fam s f F a B Of EF), (zbfun_fam s g G a B Og EG).
  apply fmem_bool. rewrite (Hq _). destruct o; simpl.
  - rewrite in_f_union, orb_true_iff, !fmem_spec. reflexivity.
  - rewrite in_f_intsec, andb_true_iff, !fmem_spec. reflexivity.
  - rewrite in_f_diff, andb_true_iff, negb_true_iff, fmem_spec, fmem_false. reflexivity.
Qed.

Theorem fam_sub_bfun : forall o v vl f r F R a, ref_ok s f -> ref_ok s r ->
  nth_error (s_v2l s) v = Some vl ->
  fam_of s f = Some F -> fam_of s r = Some R -> feq R (f_sub o vl F) ->
  zbfun_of s r a = zsub_s o v (zbfun_of s f) a.
Proof.
  intros o v vl f r F R a Of Or Ev EF ER Hq. unfold zsub_s.
  pose proof (v2l_range s v vl H Ev) as Hvl.
  assert (Hvn : v < nlevels s).
  { unfold nlevels. rewrite <- (wf_perm_len s H). apply nth_error_Some. congruence. }
  rewrite (zbfun_fam s r R a B Or ER). apply fmem_bool. rewrite (Hq _).
  pose proof (set_levels_mem s H a v vl Ev) as Mem.
  destruct o; simpl.
  - (* subset0 *)
    rewrite in_f_subset0, andb_true_iff, negb_true_iff, (zbfun_fam s f F a B Of EF), fmem_spec.
    rewrite Mem. destruct (a v); intuition congruence.
  - (* subset1 *)
    rewrite in_f_subset1, andb_true_iff, negb_true_iff, (zbfun_fam s f F _ B Of EF), fmem_spec. split.
    + intros [T [HT [Hin E0]]]. pose proof (member_is_levels f F T EF HT) as ET.
      set (b := vset s T) in *.
      assert (Hb : b v = true) by (apply (set_levels_mem s H b v vl Ev); rewrite <- ET; exact Hin).
      rewrite ET, <- (set_levels_upd_false s H b v vl Ev) in E0.
      pose proof (set_levels_inj s H _ _ E0) as Hag.
      split.
      * rewrite ET in HT. rewrite (set_levels_ext s H (upd a v true) b); [exact HT|].
        intros u Hu. unfold upd. destruct (Nat.eqb_spec u v) as [->|Ne]; [symmetry; exact Hb|].
        rewrite (Hag u Hu). unfold upd. destruct (Nat.eqb_spec u v); [contradiction | reflexivity].
      * rewrite (Hag v Hvn). unfold upd. rewrite Nat.eqb_refl. reflexivity.
    + intros [HT Hav]. exists (set_levels s (upd a v true)). split; [exact HT|]. split.
      * apply (set_levels_mem s H _ v vl Ev). unfold upd. rewrite Nat.eqb_refl. reflexivity.
      * rewrite <- (set_levels_upd_false s H _ v vl Ev). apply (set_levels_ext s H).
        intros u Hu. unfold upd. destruct (Nat.eqb_spec u v) as [->|Ne]; [exact Hav | reflexivity].
  - (* change *)
    rewrite in_f_change, (zbfun_fam s f F _ B Of EF), fmem_spec. split.
    + intros [[T [HT [Hnin E0]]]|[T [HT [Hin E0]]]]; pose proof (member_is_levels f F T EF HT) as ET;
        set (b := vset s T) in *.
      * assert (Hb : b v = false).
        { destruct (b v) eqn:Eb; [|reflexivity]. exfalso. apply Hnin. rewrite ET.
          apply (set_levels_mem s H b v vl Ev). exact Eb. }
        rewrite ET, <- (set_levels_upd_true s H b v vl Ev) in E0.
        pose proof (set_levels_inj s H _ _ E0) as Hag.
        rewrite ET in HT. rewrite (set_levels_ext s H _ b); [exact HT|].
        intros u Hu. unfold upd. destruct (Nat.eqb_spec u v) as [->|Ne].
        -- rewrite (Hag v Hvn). unfold upd. rewrite Nat.eqb_refl. symmetry. exact Hb.
        -- rewrite (Hag u Hu). unfold upd. destruct (Nat.eqb_spec u v); [contradiction | reflexivity].
      * assert (Hb : b v = true) by (apply (set_levels_mem s H b v vl Ev); rewrite <- ET; exact Hin).
        rewrite ET, <- (set_levels_upd_false s H b v vl Ev) in E0.
        pose proof (set_levels_inj s H _ _ E0) as Hag.
        rewrite ET in HT. rewrite (set_levels_ext s H _ b); [exact HT|].
        intros u Hu. unfold upd. destruct (Nat.eqb_spec u v) as [->|Ne].
        -- rewrite (Hag v Hvn). unfold upd. rewrite Nat.eqb_refl. symmetry. exact Hb.
        -- rewrite (Hag u Hu). unfold upd. destruct (Nat.eqb_spec u v); [contradiction | reflexivity].
    + intros HT. destruct (a v) eqn:Eav; simpl in HT.
      * left. exists (set_levels s (upd a v false)). split; [exact HT|]. split.
        -- intros Hin. apply (set_levels_mem s H _ v vl Ev) in Hin. unfold upd in Hin.
           rewrite Nat.eqb_refl in Hin. discriminate.
        -- rewrite <- (set_levels_upd_true s H _ v vl Ev). apply (set_levels_ext s H).
           intros u Hu. unfold upd. destruct (Nat.eqb_spec u v) as [->|Ne]; [exact Eav | reflexivity].
      * right. exists (set_levels s (upd a v true)). split; [exact HT|]. split.
        -- apply (set_levels_mem s H _ v vl Ev). unfold upd. rewrite Nat.eqb_refl. reflexivity.
        -- rewrite <- (set_levels_upd_false s H _ v vl Ev). apply (set_levels_ext s H).
           intros u Hu. unfold upd. destruct (Nat.eqb_spec u v) as [->|Ne]; [exact Eav | reflexivity].
Qed.

Lemma forallb_seq0 : forall n (p : nat -> bool), forallb p (seq 0 n) = true <-> forall u, u < n -> p u = true.
Proof.
  intros n p. rewrite forallb_forall. split.
  - intros Hf u Hu. apply Hf. apply in_seq. lia.
  - intros Hf u Hu. apply in_seq in Hu. apply Hf. lia.
Qed.

Theorem fam_empty_bfun : forall r R a, ref_ok s r -> fam_of s r = Some R -> feq R f_empty ->
  zbfun_of s r a = false.
Proof.
  intros r R a Or ER Hq. rewrite (zbfun_fam s r R a B Or ER). apply fmem_false.
  intros Hin. apply Hq in Hin. destruct Hin.
Qed.

Theorem fam_base_bfun : forall r R a, ref_ok s r -> fam_of s r = Some R -> feq R f_base ->
  zbfun_of s r a = base_s (nlevels s) a.
Proof.
  intros r R a Or ER Hq. rewrite (zbfun_fam s r R a B Or ER). apply fmem_bool.
  rewrite (Hq _), in_f_base. unfold base_s. rewrite forallb_seq0.
  assert (E0 : set_levels s (fun _ => false) = []).
  { destruct (set_levels s (fun _ => false)) as [|x T] eqn:E0; [reflexivity|]. exfalso.
    assert (Hx : In x (set_levels s (fun _ => false))) by (rewrite E0; left; reflexivity).
    apply set_levels_spec in Hx. destruct Hx. discriminate. }
  split.
  - intros E1 u Hu. rewrite <- E0 in E1. rewrite (set_levels_inj s H _ _ E1 u Hu). reflexivity.
  - intros Hf. rewrite <- E0. apply (set_levels_ext s H). intros u Hu. specialize (Hf u Hu).
    destruct (a u); [discriminate | reflexivity].
Qed.

Theorem fam_singleton_bfun : forall v vl r R a, ref_ok s r -> nth_error (s_v2l s) v = Some vl ->
  fam_of s r = Some R -> feq R (f_singleton vl) ->
  zbfun_of s r a = singleton_s (nlevels s) v a.
Proof.
  intros v vl r R a Or Ev ER Hq. rewrite (zbfun_fam s r R a B Or ER). apply fmem_bool.
  rewrite (Hq _), in_f_singleton. unfold singleton_s. rewrite forallb_seq0.
  pose proof (v2l_range s v vl H Ev) as Hvl.
  assert (E0 : set_levels s (fun u => Nat.eqb u v) = [vl]).
  { apply (incr_same_members _ _ 0); [apply set_levels_incr | simpl; split; [lia | exact I]|].
    intros x. rewrite set_levels_spec. simpl. split.
    - intros [Hx Hu]. apply Nat.eqb_eq in Hu. left. symmetry. apply (l2v_at s H v vl x Ev Hx). exact Hu.
    - intros [<-|[]]. split; [exact Hvl|]. apply Nat.eqb_eq. apply (l2v_at s H v vl vl Ev Hvl). reflexivity. }
  split.
  - intros E1 u Hu. rewrite <- E0 in E1. rewrite (set_levels_inj s H _ _ E1 u Hu). apply eqb_reflx.
  - intros Hf. rewrite <- E0. apply (set_levels_ext s H). intros u Hu. specialize (Hf u Hu).
    apply eqb_prop in Hf. exact Hf.
Qed.

(** make_node under its precondition: no member of [hi] contains the level [L] *)
Theorem fam_make_node_bfun : forall v L h l r A Bf R a, ref_ok s h -> ref_ok s l -> ref_ok s r ->
  nth_error (s_v2l s) v = Some L -> L < rlevel s h ->
  fam_of s h = Some A -> fam_of s l = Some Bf -> fam_of s r = Some R -> feq R (f_make_node L A Bf) ->
  zbfun_of s r a = mknode_s v (zbfun_of s h) (zbfun_of s l) a.
Proof.
  intros v L h l r A Bf R a Oh Ol Or Ev Lh EA EB ER Hq. unfold mknode_s.
  assert (Hvn : v < nlevels s).
  { unfold nlevels. rewrite <- (wf_perm_len s H). apply nth_error_Some. congruence. }
  rewrite (zbfun_fam s r R a B Or ER). apply fmem_bool. rewrite (Hq _), in_f_make_node.
  rewrite orb_true_iff, andb_true_iff, (zbfun_fam s l Bf a B Ol EB), (zbfun_fam s h A _ B Oh EA), !fmem_spec.
  assert (Hno : forall T, In T A -> ~ In L T).
  { intros T HT Hin. destruct (fam_of_members s H Hk h A T EA HT) as [Hi _].
    pose proof (incr_from_ge _ _ L Hi Hin). lia. }
  split.
  - intros [Hlo|[T [HT E0]]]; [left; exact Hlo | right].
    pose proof (member_is_levels h A T EA HT) as ET. set (b := vset s T) in *.
    assert (Hb : b v = false).
    { destruct (b v) eqn:Eb; [|reflexivity]. exfalso. apply (Hno T HT). rewrite ET.
      apply (set_levels_mem s H b v L Ev). exact Eb. }
    rewrite ET, <- (set_levels_upd_true s H b v L Ev) in E0.
    pose proof (set_levels_inj s H _ _ E0) as Hag. split.
    + rewrite (Hag v Hvn). unfold upd. rewrite Nat.eqb_refl. reflexivity.
    + rewrite ET in HT. rewrite (set_levels_ext s H _ b); [exact HT|].
      intros u Hu. unfold upd. destruct (Nat.eqb_spec u v) as [->|Ne]; [symmetry; exact Hb|].
      rewrite (Hag u Hu). unfold upd. destruct (Nat.eqb_spec u v); [contradiction | reflexivity].
  - intros [Hlo|[Hav HT]]; [left; exact Hlo | right].
    exists (set_levels s (upd a v false)). split; [exact HT|].
    rewrite <- (set_levels_upd_true s H _ v L Ev). apply (set_levels_ext s H).
    intros u Hu. unfold upd. destruct (Nat.eqb_spec u v) as [->|Ne]; [exact Hav | reflexivity].
Qed.

End Bridges.
