(** * The invariant of the ZBDD manager state machine and its preservation by every call

    [HInvZ st]: the table is a well-formed ZBDD table with both terminals
    ([ZbddOK], which includes: every handle slot refers to a stored node or
    terminal), the tautology chain of the manager is complete ([ZChainOK]),
    the apply cache serves only correct entries for all operator codes
    ([ZCacheOKB]; Restrict entries are keyed by the number of levels, DD/ZbddBool.v
    [zrestrict], and an entry says something only for the table's own number of
    levels), and no Restrict entry is keyed with a number of levels the
    manager has not reached yet ([znofuture]; entries of smaller numbers of
    levels may linger after [add_vars]: they are never looked up again).

    [hstep_z_ok]: for every state satisfying [HInvZ], every configuration
    (operand order [gt], any [zlossy] cache with any content that satisfies the
    cache invariant) and every well-formed request ([zhop_pre]), the call
    - runs to completion ([hstep_z] is not [None]),
    - re-establishes [HInvZ],
    - [hframe_z]: changes no slot other than its destination; every edge held
      by a slot before the call is still stored and denotes the same function
      of the variables - for [add_vars]: the old function AND "all new
      variables false" (so the FAMILY of variable sets is the same in all cases,
      [hframe_z_family]);
    - [hpost_z]: leaves in its destination the spec function (DD/Sem.v) of the
      operands' functions resp. the documented family (DD/FamSpec.v) of the
      operands' families at the time of the call. *)

From Coq Require Import List NArith PArith Bool Arith Lia FMapPositive.
From OxiVerif Require Import DD.Table DD.TableExtra DD.TableProofs DD.Sem DD.Build DD.BuildProofs
  DD.Apply DD.ApplyProofs DD.ApplyEvalProofs DD.ConfigApply DD.CanonZbdd DD.FamSpec DD.FamSpecProofs
  DD.ZbddOps DD.ZbddOpsProofs DD.ZbddSubsetProofs DD.ZbddSoundProofs DD.ZbddVars DD.ZbddVarsProofs
  DD.ZbddBool DD.ZbddBoolProofs DD.ZbddXorProofs DD.ZbddIteProofs DD.ZbddEvalProofs
  DD.ZbddRestrictProofs DD.ZbddRestrictTop DD.ZbddCubeCanon
  DD.ConfigInsert DD.ConfigRun DD.ConfigZbddRun DD.ConfigZbddIndep
  Mgr.SortOrder Mgr.SortOrderProofs Mgr.LevelSwap Mgr.LevelSwapOrder Mgr.LevelSwapZ
  Mgr.History Mgr.HistoryBase Mgr.HistoryZ Mgr.HistoryZBase Mgr.HistoryZCache.
Import ListNotations.

Local Arguments hset : simpl never.
Local Arguments hget : simpl never.
Local Arguments hdel : simpl never.
Local Arguments zbfun_of : simpl never.
Local Arguments fam_of : simpl never.
Local Arguments zapply_ite : simpl never.
Local Arguments zapply : simpl never.
Local Arguments zapply_op : simpl never.
Local Arguments zapply_not : simpl never.
Local Arguments znot_var : simpl never.
Local Arguments zsubset : simpl never.
Local Arguments zsubset_top : simpl never.
Local Arguments zrestrict : simpl never.
Local Arguments zrestrict_edge : simpl never.
Local Arguments zvar : simpl never.
Local Arguments zconst : simpl never.
Local Arguments zsingleton : simpl never.
Local Arguments zmake_node : simpl never.
Local Arguments zadd_vars : simpl never.
Local Arguments set_var_order_model_z : simpl never.
Local Arguments gc_model : simpl never.

Lemma fam_of_set_handles : forall s hs r, fam_of (set_handles s hs) r = fam_of s r.
Proof.
  intros s hs r. unfold fam_of. change (nlevels (set_handles s hs)) with (nlevels s).
  apply famz_set_handles.
Qed.

Definition zorder_same (s s' : snap) : Prop := s_l2v s' = s_l2v s /\ s_v2l s' = s_v2l s.

Definition zchanges_order (o : zhop) : bool :=
  match o with ZHAddVars _ | ZHSetVarOrder _ => true | _ => false end.

(** every call but a reordering leaves the level sets of the families as they are *)
Definition zkeeps_levels (o : zhop) : bool :=
  match o with ZHSetVarOrder _ => false | _ => true end.

Section HistZ.
Variable gt : ref -> ref -> bool.
Variable C : Type.
Variable cget : C -> N -> list ref -> list nat -> option ref.
Variable cadd : C -> N -> list ref -> list nat -> ref -> C.
Hypothesis Hlossy : zlossy C cget cadd.
Variable cempty : C.
Hypothesis Hempty : forall k a m, cget cempty k a m = None.

Notation hstate_z := (hstate_z C).
Notation hstep_z := (hstep_z gt C cget cadd cempty).
Notation hrun_z := (hrun_z gt C cget cadd cempty).
Notation mkHZ := (mkHZ C).
Notation ZOKB := (ZCacheOKB C cget).
Notation NOFUT n := (znofuture C cget n).

Record HInvZ (st : hstate_z) : Prop := mkHInvZ {
  hzi_ok : ZbddOK (hz_s C st);
  hzi_chain : ZChainOK (hz_s C st);
  hzi_cache : ZOKB (hz_s C st) (hz_c C st);
  hzi_future : NOFUT (nlevels (hz_s C st)) (hz_c C st)
}.

(** everything a client still holds: the edges in the slots *)
Definition zroot (st : hstate_z) (r : ref) : Prop :=
  exists h, In h (s_handles (hz_s C st)) /\ eref (snd h) = r.

Lemma zroot_ok : forall st r, HInvZ st -> zroot st r -> ref_ok (hz_s C st) r.
Proof. intros st r I [h [Hin <-]]. apply (z_handle_ok _ h (hzi_ok st I) Hin). Qed.

Lemma zslot_root : forall st k r, zslot C st k = Some r -> zroot st r.
Proof.
  intros st k r E. unfold zslot in E.
  destruct (hget (s_handles (hz_s C st)) k) as [e|] eqn:Eg; [|discriminate]. inversion E; subst.
  exists (k, e). split; [apply hget_In; exact Eg | reflexivity].
Qed.

Lemma zslot_ok : forall st k r, HInvZ st -> zslot C st k = Some r -> ref_ok (hz_s C st) r.
Proof. intros st k r I E. apply (zroot_ok st r I). apply (zslot_root st k r E). Qed.

Lemma zokb_empty : forall s, ZOKB s cempty.
Proof. intros s code args nums r E. rewrite Hempty in E. discriminate. Qed.

Lemma nofut_empty : forall n, NOFUT n cempty.
Proof. intros n a m n' r E. rewrite Hempty in E. discriminate. Qed.

(** ** Well-formed requests *)

Definition zoccupied (st : hstate_z) (k : N) : Prop := exists r, zslot C st k = Some r.

Definition zhop_pre (st : hstate_z) (o : zhop) : Prop :=
  let s := hz_s C st in
  match o with
  | ZHConst _ _ | ZHEmpty _ | ZHBase _ | ZHDrop _ | ZHGc | ZHAddVars _ => True
  | ZHVar _ v _ | ZHSingleton _ v => v < nlevels s
  | ZHNot _ a | ZHClone _ a => zoccupied st a
  | ZHBin _ _ a b | ZHSet _ _ a b => zoccupied st a /\ zoccupied st b
  | ZHIte _ a b c => zoccupied st a /\ zoccupied st b /\ zoccupied st c
  | ZHRestrict _ a cube =>
    (* "vars must be a conjunction of literals" *)
    zoccupied st a /\ exists V M, zslot C st cube = Some V /\ ZCube s M 0 V
  | ZHSub _ _ a v => zoccupied st a /\ v < nlevels s
  | ZHMakeNode _ var hi lo =>
    (* "var must be a singleton set, and var's level must be above hi's and lo's levels" *)
    exists v h l Fv L, zslot C st var = Some v /\ zslot C st hi = Some h /\ zslot C st lo = Some l /\
      fam_of s v = Some Fv /\ feq Fv (f_singleton L) /\ L < rlevel s h /\ L < rlevel s l
  | ZHSetVarOrder order => NoDup order /\ Forall (fun v => v < nlevels s) order
  end.

(** ** The frame *)

Definition hframe_z (st : hstate_z) (o : zhop) (st' : hstate_z) : Prop :=
  let s := hz_s C st in
  let s' := hz_s C st' in
  (forall x, zhdst o <> Some x -> hget (s_handles s') x = hget (s_handles s) x) /\
  (forall r, zroot st r ->
     ref_ok s' r /\
     forall a, zbfun_of s' r a = zbfun_of s r a && newfalse (nlevels s) (nlevels s') a) /\
  nlevels s <= nlevels s' /\
  (zchanges_order o = false -> zorder_same s s') /\
  (zkeeps_levels o = true -> forall r, zroot st r -> fam_of s' r = fam_of s r).

(** the family of sets of variables of every kept edge is unchanged - by every
    call, [add_vars] included *)
Theorem hframe_z_family : forall st o st', hframe_z st o st' ->
  forall r, zroot st r -> forall a, vmem (hz_s C st') r a <-> vmem (hz_s C st) r a.
Proof.
  intros st o st' [_ [F2 [Hn _]]] r Hr. apply (vmem_stable _ _ r Hn). apply (proj2 (F2 r Hr)).
Qed.

(** ** What the destination holds afterwards *)

Definition zholds (st : hstate_z) (d : N) (F : bfun) : Prop :=
  exists r, zslot C st d = Some r /\ forall a, zbfun_of (hz_s C st) r a = F a.

(** ... as a family of sets of LEVELS of the current order *)
Definition zholds_fam (st : hstate_z) (d : N) (Fm : fam) : Prop :=
  exists r R, zslot C st d = Some r /\ fam_of (hz_s C st) r = Some R /\ feq R Fm.

Definition hpost_z (st : hstate_z) (o : zhop) (st' : hstate_z) : Prop :=
  let s := hz_s C st in
  let s' := hz_s C st' in
  match o with
  | ZHConst d b => zholds st' d (const_s b)
  | ZHVar d v neg => zholds st' d (fun a => xorb neg (var_s v a))
  | ZHNot d x =>
    exists f, zslot C st x = Some f /\ zholds st' d (lift1 negb (zbfun_of s f))
  | ZHBin op d x y =>
    exists f g, zslot C st x = Some f /\ zslot C st y = Some g /\
      zholds st' d (lift2 op (zbfun_of s f) (zbfun_of s g))
  | ZHIte d x y z =>
    exists f g h, zslot C st x = Some f /\ zslot C st y = Some g /\ zslot C st z = Some h /\
      zholds st' d (ite_s (zbfun_of s f) (zbfun_of s g) (zbfun_of s h))
  | ZHRestrict d x cube =>
    exists f V, zslot C st x = Some f /\ zslot C st cube = Some V /\
      forall lits, NoDup (map fst lits) -> (forall v b, In (v, b) lits -> v < nlevels s) ->
        is_zcube s V lits -> zholds st' d (restrict_s lits (zbfun_of s f))
  | ZHEmpty d => zholds_fam st' d f_empty
  | ZHBase d => zholds_fam st' d f_base
  | ZHSingleton d v =>
    exists vl, nth_error (s_v2l s) v = Some vl /\ zholds_fam st' d (f_singleton vl)
  | ZHSub op d x v =>
    exists f F vl, zslot C st x = Some f /\ fam_of s f = Some F /\ nth_error (s_v2l s) v = Some vl /\
      zholds_fam st' d (f_sub op vl F)
  | ZHSet op d x y =>
    exists f g F G, zslot C st x = Some f /\ zslot C st y = Some g /\
      fam_of s f = Some F /\ fam_of s g = Some G /\ zholds_fam st' d (f_bin op F G)
  | ZHMakeNode d var hi lo =>
    exists v h l Fv L A Bf, zslot C st var = Some v /\ zslot C st hi = Some h /\ zslot C st lo = Some l /\
      fam_of s v = Some Fv /\ feq Fv (f_singleton L) /\ fam_of s h = Some A /\ fam_of s l = Some Bf /\
      zholds_fam st' d (f_make_node L A Bf)
  | ZHClone d x => hget (s_handles s') d = hget (s_handles s) x /\ zoccupied st' d
  | ZHDrop x => hget (s_handles s') x = None /\ s_nodes s' = s_nodes s
  | ZHGc =>
    (forall id nd, find_node s' id = Some nd ->
       find_node s id = Some nd /\
       exists r, (zroot st r \/ exists l, ztaut s l = Some r) /\ reachable s [r] (RN id))
  | ZHAddVars k =>
    s_l2v s' = s_l2v s ++ seq (nlevels s) k /\
    s_v2l s' = s_v2l s ++ seq (nlevels s) k /\ s_handles s' = s_handles s /\
    (forall id nd, find_node s id = Some nd -> find_node s' id = Some nd)
  | ZHSetVarOrder order =>
    nlevels s' = nlevels s /\ s_handles s' = s_handles s /\
    forall a b, a < b < length order ->
      nth (nth a order 0) (s_v2l s') 0 < nth (nth b order 0) (s_v2l s') 0
  end.

(** ** Storing the result of an algorithm *)

Lemma hinvz_put : forall st s' c' d r, HInvZ st ->
  ZbddOK s' -> ZChainOK s' -> ZOKB s' c' -> NOFUT (nlevels s') c' -> ref_ok s' r ->
  HInvZ (mkHZ (put s' d r) c').
Proof.
  intros st s' c' d r I B' Hc' Q' N' Or. constructor; simpl.
  - apply zbddok_put; assumption.
  - apply zchain_set_handles. exact Hc'.
  - unfold put. change (nlevels (set_handles s' (hset (s_handles s') d (E r)))) with (nlevels s').
    apply zcacheokb_set_handles. exact Q'.
  - exact N'.
Qed.

Lemma framez_put : forall st o s' c' d r, HInvZ st -> zhdst o = Some d -> zchanges_order o = false ->
  ZbddOK s' -> extends (hz_s C st) s' ->
  hframe_z st o (mkHZ (put s' d r) c').
Proof.
  intros st o s' c' d r I Hd Hco B' X. pose proof (hzi_ok st I) as B.
  split; [|split; [|split; [|split]]]; simpl.
  - intros x Hx. rewrite Hd in Hx. unfold put. simpl.
    rewrite hget_hset_other by congruence. rewrite (ext_handles _ _ X). reflexivity.
  - intros r0 Hr. pose proof (zroot_ok st r0 I Hr) as Ok. split.
    + unfold put. apply (ext_ref_ok _ _ _ X Ok).
    + intros a. unfold put. rewrite zbfun_of_set_handles.
      change (nlevels (set_handles s' (hset (s_handles s') d (E r)))) with (nlevels s').
      rewrite (ext_nlevels _ _ X), newfalse_same, andb_true_r.
      apply (zbfun_of_extends _ _ r0 a B B' X Ok).
  - unfold put. change (nlevels (set_handles s' (hset (s_handles s') d (E r)))) with (nlevels s').
    rewrite (ext_nlevels _ _ X). lia.
  - intros _. split; [apply (ext_l2v _ _ X) | apply (ext_v2l _ _ X)].
  - intros _ r0 Hr. unfold put. rewrite fam_of_set_handles.
    apply (grows_fam _ s' r0 (zo_wf _ B) (zo_kind _ B) (extends_grows _ _ X) (zroot_ok st r0 I Hr)).
Qed.

Lemma zholds_put : forall s' c' d r F, (forall a, zbfun_of s' r a = F a) ->
  zholds (mkHZ (put s' d r) c') d F.
Proof.
  intros s' c' d r F HF. exists r. split.
  - unfold zslot, put. simpl. rewrite hget_hset_same. reflexivity.
  - intros a. simpl. unfold put. rewrite zbfun_of_set_handles. apply HF.
Qed.

Lemma zholds_fam_put : forall s' c' d r R Fm, fam_of s' r = Some R -> feq R Fm ->
  zholds_fam (mkHZ (put s' d r) c') d Fm.
Proof.
  intros s' c' d r R Fm ER Hq. exists r, R. split; [|split; [|exact Hq]].
  - unfold zslot, put. simpl. rewrite hget_hset_same. reflexivity.
  - simpl. unfold put. rewrite fam_of_set_handles. exact ER.
Qed.

(** the common part of all calls that run an algorithm and store its result *)
Lemma zfinish_ok : forall st o d s' c' r, HInvZ st -> zhdst o = Some d -> zchanges_order o = false ->
  ZbddOK s' -> extends (hz_s C st) s' -> ZOKB s' c' ->
  NOFUT (nlevels (hz_s C st)) c' -> ref_ok s' r ->
  let st' := mkHZ (put s' d r) c' in
  HInvZ st' /\ hframe_z st o st' /\
  (forall F, (forall a, zbfun_of s' r a = F a) -> zholds st' d F) /\
  (forall R Fm, fam_of s' r = Some R -> feq R Fm -> zholds_fam st' d Fm).
Proof.
  intros st o d s' c' r I Hd Hco B' X Q' N' Or. simpl.
  pose proof (zchain_extends _ s' (hzi_ok st I) B' X (hzi_chain st I)) as Hc'.
  rewrite <- (ext_nlevels _ _ X) in N'.
  split; [apply (hinvz_put st); assumption|].
  split; [apply framez_put; assumption|].
  split; [intros F HF; apply zholds_put; exact HF|].
  intros R Fm ER Hq. apply (zholds_fam_put s' c' d r R Fm ER Hq).
Qed.

(** ** One call *)

Theorem hstep_z_ok : forall st o, HInvZ st -> zhop_pre st o ->
  exists st', hstep_z st o = Some st' /\ HInvZ st' /\ hframe_z st o st' /\ hpost_z st o st'.
Proof.
  intros st o I Pre. pose proof (hzi_ok st I) as B. pose proof (hzi_chain st I) as Hc.
  pose proof (hzi_cache st I) as Q. pose proof (hzi_future st I) as NF.
  pose proof (zo_wf _ B) as H. pose proof (zo_kind _ B) as Hk.
  assert (Hlen : length (s_v2l (hz_s C st)) = nlevels (hz_s C st)) by (apply (wf_perm_len _ H)).
  set (n := nlevels (hz_s C st)) in *.
  pose proof (znofuture_add C cget cadd Hlossy n) as NFadd.
  destruct o as [d b|d v neg|d x|op d x y|d x y z|d x cube|d|d|d v|op d x v|op d x y|d var hi lo
                 |d x|x| |k|order]; simpl in Pre; simpl hstep_z; fold n.
  - (* ZHConst *)
    destruct (zconst_bfun _ b B Hc) as [r [E [Or S]]]. rewrite E.
    destruct (zfinish_ok st (ZHConst d b) d _ (hz_c C st) r I eq_refl eq_refl B (extends_refl _) Q NF Or)
      as [I' [F' [P' _]]].
    eexists. split; [reflexivity|]. split; [exact I'|]. split; [exact F'|]. simpl. apply P'. exact S.
  - (* ZHVar *)
    destruct neg.
    + destruct (znot_var_bfun gt C cget cadd Hlossy _ (hz_c C st) v B Hc Q Pre)
        as (s' & c' & r & E & (B' & _ & X & Q' & Or) & S).
      fold n in E. rewrite E. simpl zfinish.
      pose proof (znot_var_pres gt C cget cadd (NOFUT n) n NFadd _ _ _ _ _ _ _ E NF) as NF'.
      destruct (zfinish_ok st (ZHVar d v true) d s' c' r I eq_refl eq_refl B' X Q' NF' Or) as [I' [F' [P' _]]].
      eexists. split; [reflexivity|]. split; [exact I'|]. split; [exact F'|]. simpl. apply P'.
      intros a. rewrite S. reflexivity.
    + destruct (zvar_bfun _ v B Hc Pre) as (s' & r & E & B' & _ & X & Or & S).
      rewrite E. simpl zfinish0.
      destruct (zfinish_ok st (ZHVar d v false) d s' (hz_c C st) r I eq_refl eq_refl B' X
                  (zcacheokb_extends C cget _ s' _ B X Q) NF Or) as [I' [F' [P' _]]].
      eexists. split; [reflexivity|]. split; [exact I'|]. split; [exact F'|]. simpl. apply P'.
      intros a. rewrite S. destruct (var_s v a); reflexivity.
  - (* ZHNot *)
    destruct Pre as [f Ef]. rewrite Ef. pose proof (zslot_ok st x f I Ef) as Of.
    destruct (zapply_not_bfun gt C cget cadd Hlossy _ (hz_c C st) f B Hc Q Of)
      as (s' & c' & r & E & (B' & _ & X & Q' & Or) & S).
    fold n in E. rewrite E. simpl zfinish.
    pose proof (zapply_not_pres gt C cget cadd (NOFUT n) n NFadd _ _ _ _ _ _ _ E NF) as NF'.
    destruct (zfinish_ok st (ZHNot d x) d s' c' r I eq_refl eq_refl B' X Q' NF' Or) as [I' [F' [P' _]]].
    eexists. split; [reflexivity|]. split; [exact I'|]. split; [exact F'|].
    simpl. exists f. split; [exact Ef|]. apply P'. exact S.
  - (* ZHBin *)
    destruct Pre as [[f Ef] [g Eg]]. rewrite Ef, Eg.
    pose proof (zslot_ok st x f I Ef) as Of. pose proof (zslot_ok st y g I Eg) as Og.
    destruct (zapply_op_bfun gt C cget cadd Hlossy op _ (hz_c C st) f g B Hc Q Of Og)
      as (s' & c' & r & E & (B' & _ & X & Q' & Or) & S).
    fold n in E. rewrite E. simpl zfinish.
    pose proof (zapply_op_pres gt C cget cadd (NOFUT n) n NFadd _ _ _ _ _ _ _ _ _ E NF) as NF'.
    destruct (zfinish_ok st (ZHBin op d x y) d s' c' r I eq_refl eq_refl B' X Q' NF' Or) as [I' [F' [P' _]]].
    eexists. split; [reflexivity|]. split; [exact I'|]. split; [exact F'|].
    simpl. exists f, g. split; [exact Ef|]. split; [exact Eg|]. apply P'. exact S.
  - (* ZHIte *)
    destruct Pre as [[f Ef] [[g Eg] [h Eh]]]. rewrite Ef, Eg, Eh.
    pose proof (zslot_ok st x f I Ef) as Of. pose proof (zslot_ok st y g I Eg) as Og.
    pose proof (zslot_ok st z h I Eh) as Oh.
    destruct (zapply_ite_bfun gt C cget cadd Hlossy _ (hz_c C st) f g h B Hc Q Of Og Oh)
      as (s' & c' & r & E & (B' & _ & X & Q' & Or) & S).
    fold n in E. rewrite E. simpl zfinish.
    pose proof (zapply_ite_pres gt C cget cadd (NOFUT n) n NFadd _ _ _ _ _ _ _ _ _ E NF) as NF'.
    destruct (zfinish_ok st (ZHIte d x y z) d s' c' r I eq_refl eq_refl B' X Q' NF' Or) as [I' [F' [P' _]]].
    eexists. split; [reflexivity|]. split; [exact I'|]. split; [exact F'|].
    simpl. exists f, g, h. split; [exact Ef|]. split; [exact Eg|]. split; [exact Eh|]. apply P'. exact S.
  - (* ZHRestrict *)
    destruct Pre as [[f Ef] [V [M [Ev Hcube]]]]. rewrite Ef, Ev.
    pose proof (zslot_ok st x f I Ef) as Of. pose proof (zslot_ok st cube V I Ev) as Ov.
    destruct (zrestrict_edge_cube C cget cadd Hlossy _ _ (hz_c C st) f V M B Hc Q Of Hcube (le_n _))
      as (s' & c' & r & E & (B' & _ & X & Q' & Or) & _).
    fold n in E. rewrite E. simpl zfinish.
    pose proof (zrestrict_edge_pres C cget cadd (NOFUT n) n NFadd _ _ _ _ _ _ _ _ eq_refl E NF) as NF'.
    destruct (zfinish_ok st (ZHRestrict d x cube) d s' c' r I eq_refl eq_refl B' X Q' NF' Or) as [I' [F' [P' _]]].
    eexists. split; [reflexivity|]. split; [exact I'|]. split; [exact F'|].
    simpl. exists f, V. split; [exact Ef|]. split; [exact Ev|].
    intros lits Hnd Hrange Hlits. apply P'.
    destruct (zrestrict_edge_is_cube C cget cadd Hlossy _ (hz_c C st) f V lits B Hc Q Of Ov Hnd Hrange Hlits)
      as (s2 & c2 & r2 & E2 & _ & S & _).
    fold n in E2. rewrite E in E2. inversion E2; subst s2 c2 r2. exact S.
  - (* ZHEmpty *)
    destruct (zempty_sound _ B) as [r [E [Or EF]]]. rewrite E.
    destruct (zfinish_ok st (ZHEmpty d) d _ (hz_c C st) r I eq_refl eq_refl B (extends_refl _) Q NF Or)
      as [I' [F' [_ P']]].
    eexists. split; [reflexivity|]. split; [exact I'|]. split; [exact F'|]. simpl.
    apply (P' _ _ EF). apply feq_refl.
  - (* ZHBase *)
    destruct (zbase_sound _ B) as [r [E [Or EF]]]. rewrite E.
    destruct (zfinish_ok st (ZHBase d) d _ (hz_c C st) r I eq_refl eq_refl B (extends_refl _) Q NF Or)
      as [I' [F' [_ P']]].
    eexists. split; [reflexivity|]. split; [exact I'|]. split; [exact F'|]. simpl.
    apply (P' _ _ EF). apply feq_refl.
  - (* ZHSingleton *)
    destruct (zsingleton_sound _ v B ltac:(rewrite Hlen; exact Pre))
      as (vl & s' & r & R & Ev & E & B' & X & Or & ER & Hq).
    rewrite E. simpl zfinish0.
    destruct (zfinish_ok st (ZHSingleton d v) d s' (hz_c C st) r I eq_refl eq_refl B' X
                (zcacheokb_extends C cget _ s' _ B X Q) NF Or) as [I' [F' [_ P']]].
    eexists. split; [reflexivity|]. split; [exact I'|]. split; [exact F'|]. simpl.
    exists vl. split; [exact Ev|]. apply (P' R _ ER Hq).
  - (* ZHSub *)
    destruct Pre as [[f Ef] Hv]. rewrite Ef. pose proof (zslot_ok st x f I Ef) as Of.
    destruct (fam_of_total _ H Hk f Of) as [F EF].
    destruct (nth_error (s_v2l (hz_s C st)) v) as [vl|] eqn:Ev; [|apply nth_error_None in Ev; lia].
    pose proof (rlevel_le _ H f) as Hrl.
    destruct (zsubset_okB C cget cadd Hlossy op v vl (S n) _ (hz_c C st) f (pof F) B Q
                (zden_of_fam _ f F Of EF) Ev ltac:(unfold n; lia))
      as (s' & c' & r & E & B' & X & Q' & D).
    unfold zsubset_top. rewrite Ev, E. simpl zfinish.
    pose proof (zsubset_pres C cget cadd (NOFUT n) n NFadd _ _ _ _ _ _ _ _ _ _ E NF) as NF'.
    destruct (zfinish_ok st (ZHSub op d x v) d s' c' r I eq_refl eq_refl B' X Q' NF' (zden_ok _ _ _ D))
      as [I' [F' [_ P']]].
    eexists. split; [reflexivity|]. split; [exact I'|]. split; [exact F'|]. simpl.
    exists f, F, vl. split; [exact Ef|]. split; [exact EF|]. split; [exact Ev|].
    destruct (zden_fam s' r _ D) as [R [ER HR]]. apply (P' R _ ER).
    intros S. rewrite (HR S). apply psub_f_sub.
  - (* ZHSet *)
    destruct Pre as [[f Ef] [g Eg]]. rewrite Ef, Eg.
    pose proof (zslot_ok st x f I Ef) as Of. pose proof (zslot_ok st y g I Eg) as Og.
    destruct (fam_of_total _ H Hk f Of) as [F EF]. destruct (fam_of_total _ H Hk g Og) as [G EG].
    pose proof (rlevel_le _ H f) as Hrf. pose proof (rlevel_le _ H g) as Hrg.
    destruct (zapply_okB gt C cget cadd Hlossy op (S n) _ (hz_c C st) f g (pof F) (pof G) B Q
                (zden_of_fam _ f F Of EF) (zden_of_fam _ g G Og EG) ltac:(unfold n; lia))
      as (s' & c' & r & E & B' & X & Q' & D).
    rewrite E. simpl zfinish.
    pose proof (zapply_pres gt C cget cadd (NOFUT n) n NFadd _ _ _ _ _ _ _ _ _ E NF) as NF'.
    destruct (zfinish_ok st (ZHSet op d x y) d s' c' r I eq_refl eq_refl B' X Q' NF' (zden_ok _ _ _ D))
      as [I' [F' [_ P']]].
    eexists. split; [reflexivity|]. split; [exact I'|]. split; [exact F'|]. simpl.
    exists f, g, F, G. split; [exact Ef|]. split; [exact Eg|]. split; [exact EF|]. split; [exact EG|].
    destruct (zden_fam s' r _ D) as [R [ER HR]]. apply (P' R _ ER).
    intros S. rewrite (HR S). apply pbin_f_bin.
  - (* ZHMakeNode *)
    destruct Pre as (v & h & l & Fv & L & Ev & Eh & El & EFv & Hq & Lh & Ll). rewrite Ev, Eh, El.
    pose proof (zslot_ok st var v I Ev) as Ov. pose proof (zslot_ok st hi h I Eh) as Oh.
    pose proof (zslot_ok st lo l I El) as Ol.
    destruct (zmake_node_sound _ v h l Fv L B Ov Oh Ol EFv Hq Lh Ll)
      as (s' & r & A & Bf & R & E & B' & X & Or & EA & EB & ER & HR).
    rewrite E. simpl zfinish0.
    destruct (zfinish_ok st (ZHMakeNode d var hi lo) d s' (hz_c C st) r I eq_refl eq_refl B' X
                (zcacheokb_extends C cget _ s' _ B X Q) NF Or) as [I' [F' [_ P']]].
    eexists. split; [reflexivity|]. split; [exact I'|]. split; [exact F'|]. simpl.
    exists v, h, l, Fv, L, A, Bf. repeat (split; [assumption|]). apply (P' R _ ER HR).
  - (* ZHClone *)
    destruct Pre as [f Ef]. rewrite Ef. pose proof (zslot_ok st x f I Ef) as Of.
    destruct (zfinish_ok st (ZHClone d x) d _ (hz_c C st) f I eq_refl eq_refl B (extends_refl _) Q NF Of)
      as [I' [F' _]].
    eexists. split; [reflexivity|]. split; [exact I'|]. split; [exact F'|].
    simpl. unfold put. simpl. rewrite hget_hset_same.
    unfold zslot in Ef. destruct (hget (s_handles (hz_s C st)) x) as [e|] eqn:Eg; [|discriminate].
    inversion Ef; subst. split.
    + f_equal. apply edge_ext; [reflexivity|]. simpl. symmetry.
      apply (z_handle_ok _ (x, e) B (hget_In _ _ _ Eg)).
    + exists (eref e). unfold zslot. simpl. rewrite hget_hset_same. reflexivity.
  - (* ZHDrop *)
    eexists. split; [reflexivity|]. split; [|split].
    + constructor; simpl.
      * apply zbddok_drop. exact B.
      * apply zchain_set_handles. exact Hc.
      * change (nlevels (set_handles (hz_s C st) (hdel (s_handles (hz_s C st)) x))) with n.
        apply zcacheokb_set_handles. exact Q.
      * exact NF.
    + split; [|split; [|split; [|split]]]; simpl.
      * intros y Hy. apply hget_hdel_other. congruence.
      * intros r Hr. split; [apply (zroot_ok st r I Hr)|]. intros a.
        rewrite zbfun_of_set_handles.
        change (nlevels (set_handles (hz_s C st) (hdel (s_handles (hz_s C st)) x))) with (nlevels (hz_s C st)).
        rewrite newfalse_same, andb_true_r. reflexivity.
      * apply le_n.
      * intros _. split; reflexivity.
      * intros _ r _. apply fam_of_set_handles.
    + simpl. split; [apply hget_hdel_same | reflexivity].
  - (* ZHGc *)
    destruct (zgc_facts _ B Hc) as [Bg [Hcg [Xg [Hh Hlive]]]].
    set (sg := set_handles (gc_model (with_chain (hz_s C st))) (s_handles (hz_s C st))) in *.
    eexists. split; [reflexivity|]. split; [|split].
    + constructor; simpl; [exact Bg | exact Hcg | apply zokb_empty | apply nofut_empty].
    + split; [|split; [|split; [|split]]]; simpl.
      * intros x _. reflexivity.
      * intros r [h [Hin <-]]. pose proof (Hh h Hin) as Ok. split; [exact Ok|]. intros a.
        fold sg. rewrite (ext_nlevels _ _ Xg), newfalse_same, andb_true_r.
        symmetry. apply (zbfun_of_extends sg _ _ a Bg B Xg Ok).
      * fold sg. rewrite (ext_nlevels _ _ Xg). apply le_n.
      * intros _. fold sg. split; [symmetry; apply (ext_l2v _ _ Xg) | symmetry; apply (ext_v2l _ _ Xg)].
      * intros _ r [h [Hin <-]]. fold sg. symmetry.
        apply (grows_fam sg _ _ (zo_wf _ Bg) (zo_kind _ Bg) (extends_grows _ _ Xg) (Hh h Hin)).
    + simpl. intros id nd E0. fold sg in E0. destruct (Hlive id nd E0) as [E1 R1]. split; [exact E1|].
      clear - R1. remember (RN id) as q eqn:Eq. clear Eq.
      induction R1 as [q Hin|pid pnd e R1 IH Ep He].
      * unfold handle_refs in Hin. apply in_map_iff in Hin. destruct Hin as [h [<- Hin]].
        exists (eref (snd h)). split; [|apply reach_root; left; reflexivity].
        unfold with_chain in Hin. simpl in Hin. apply in_app_iff in Hin. destruct Hin as [Hin|Hin].
        -- left. exists h. auto.
        -- right. destruct (zchain_roots_In _ h Hin) as (l & t & _ & Et & ->). exists l. exact Et.
      * destruct IH as [r [Hr Rr]]. exists r. split; [exact Hr|].
        apply (reach_child _ _ pid pnd e Rr Ep He).
  - (* ZHAddVars: the cache is kept; no Restrict entry is keyed with the new number of levels unless it is the old one *)
    destruct (zadd_vars_facts _ k B) as (s' & ch & E & B' & Hc' & G & Hn & Hv2l & Hl2v & Hh & Hold).
    rewrite E. eexists. split; [reflexivity|]. split; [|split].
    + constructor; simpl; [exact B' | exact Hc' | |].
      * apply (zcacheokb_grows C cget _ s' (hz_c C st) B G); [| | exact Q].
        -- intros var vl Ev. rewrite Hv2l. rewrite nth_error_app1; [exact Ev|]. apply nth_error_Some. congruence.
        -- intros a r E0. fold n.
           apply (znofuture_later C cget n (nlevels s') _ a r NF ltac:(fold n in Hn; lia) E0).
      * apply (znofuture_mono C cget n); [fold n in Hn; lia | exact NF].
    + split; [|split; [|split; [|split]]]; simpl.
      * intros x _. rewrite Hh. reflexivity.
      * intros r Hr. pose proof (zroot_ok st r I Hr) as Ok. destruct (Hold r Ok) as [O' [_ Hb]].
        split; [exact O' | exact Hb].
      * lia.
      * discriminate.
      * intros _ r Hr. apply (proj1 (proj2 (Hold r (zroot_ok st r I Hr)))).
    + simpl. split; [exact Hl2v|]. split; [exact Hv2l|]. split; [exact Hh|]. apply (gr_nodes _ _ G).
  - (* ZHSetVarOrder *)
    destruct Pre as [Hnd Hr].
    assert (Hsame : hframe_z st (ZHSetVarOrder order) st).
    { split; [intros; reflexivity|]. split; [|split; [apply le_n | split; discriminate]].
      intros r Hrr. split; [apply (zroot_ok st r I Hrr)|]. intros a.
      rewrite newfalse_same, andb_true_r. reflexivity. }
    destruct (Nat.leb (length order) 1) eqn:Elen.
    { exists st. split; [reflexivity|]. split; [exact I|]. split; [exact Hsame|]. simpl.
      split; [reflexivity|]. split; [reflexivity|]. intros a b Hab. apply Nat.leb_le in Elen. lia. }
    assert (Eok : order_ok_b n order = true)
      by (apply order_ok_b_valid; split; assumption).
    rewrite Eok.
    destruct (nat_list_eqb _ (seq 0 n)) eqn:Esorted.
    { exists st. split; [reflexivity|]. split; [exact I|]. split; [exact Hsame|]. simpl.
      split; [reflexivity|]. split; [reflexivity|]. intros a b Hab. apply nat_list_eqb_eq in Esorted.
      pose proof (sort_order_respects n _
                    (valid_order_levels (hz_s C st) order H Hnd Hr) a b) as R.
      rewrite map_length in R. specialize (R Hab). rewrite Esorted in R.
      rewrite Forall_forall in Hr.
      assert (Hlv : forall k0, k0 < length order ->
                nth k0 (map (fun v => nth v (s_v2l (hz_s C st)) 0) order) 0 = nth (nth k0 order 0) (s_v2l (hz_s C st)) 0).
      { intros k0 Hk0. apply (nth_map_in _ _ (fun v => nth v (s_v2l (hz_s C st)) 0)). exact Hk0. }
      rewrite (Hlv a), (Hlv b) in R by lia.
      assert (Hlt : forall k0, k0 < length order -> nth (nth k0 order 0) (s_v2l (hz_s C st)) 0 < n).
      { intros k0 Hk0. apply (wf_v2l_l2v (hz_s C st) _ H). apply Hr. apply nth_In. exact Hk0. }
      rewrite !seq_nth in R by (apply Hlt; lia). exact R. }
    destruct (zreorder_facts _ order B Hc Hnd Hr) as [B2 [Hc2 [Hn2 [Hh2 [Hf2 Hresp]]]]].
    eexists. split; [reflexivity|]. split; [|split].
    + constructor; simpl; [exact B2 | exact Hc2 | apply zokb_empty | apply nofut_empty].
    + split; [|split; [|split; [|split]]]; simpl.
      * intros x _. rewrite Hh2. reflexivity.
      * intros r [h [Hin <-]]. destruct (Hf2 h Hin) as [O2 F2]. split; [exact O2|]. intros a.
        rewrite Hn2, newfalse_same, andb_true_r. apply F2.
      * rewrite Hn2. apply le_n.
      * discriminate.
      * discriminate.
    + simpl. split; [exact Hn2|]. split; [exact Hh2 | exact Hresp].
Qed.

End HistZ.
