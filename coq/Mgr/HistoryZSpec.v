(** * ZBDD: result correctness along histories; the result is determined by the
      operator, the operands' FUNCTIONS and the variable order

    - [hspec_z st o d F]: read off the spec layer (DD/Sem.v for the Boolean
      interface, Mgr/HistoryZFam.v for the set-family interface): call [o] issued
      in state [st] is to leave the function [F] in slot [d].  [F] is given in
      terms of the functions the operand slots hold ([zholds]), never in terms
      of edges, node ids, cache contents or the way the operands were obtained;
    - [hstep_z_spec]: in every state satisfying the invariant (so: after every
      history) the call completes and its destination holds [F];
    - [histz_result_unique]: every slot that holds [F] afterwards holds the very
      edge that was returned;
    - [histz_result_determined]: two managers with arbitrary different histories,
      operand orders and cache implementations but the same variable order:
      calls with the same spec function return edges with the same function
      and the same node count (isomorphic diagrams);
    - [histz_fresh_equiv]: the instance "history with reorderings / collections
      / added variables vs. freshly built manager". *)

From Coq Require Import List NArith PArith Bool Arith Lia FMapPositive.
From OxiVerif Require Import DD.Table DD.TableExtra DD.TableProofs DD.Sem DD.QuantSpecProofs DD.Build DD.BuildProofs
  DD.Apply DD.ApplyProofs DD.ApplyEvalProofs DD.ConfigApply DD.CanonZbdd DD.FamSpec DD.FamSpecProofs
  DD.ZbddOps DD.ZbddOpsProofs DD.ZbddSubsetProofs DD.ZbddSoundProofs DD.ZbddVars DD.ZbddVarsProofs
  DD.ZbddBool DD.ZbddBoolProofs DD.ZbddEvalProofs
  DD.ZbddRestrictProofs DD.ZbddRestrictTop DD.ZbddCubeCanon
  DD.ConfigInsert DD.ConfigRun DD.ConfigZbddRun DD.ConfigZbddIndep
  Mgr.LevelSwap Mgr.LevelSwapProofs Mgr.LevelSwapOrder Mgr.LevelSwapZ Mgr.LevelSwapZProofs
  Mgr.LevelSwapZChain Mgr.LevelSwapZOrder Mgr.LevelSwapZFam
  Mgr.History Mgr.HistoryBase Mgr.HistoryZ Mgr.HistoryZBase Mgr.HistoryZFam Mgr.HistoryZProofs Mgr.HistoryZThms.
Import ListNotations.

Local Arguments hset : simpl never.
Local Arguments hget : simpl never.
Local Arguments hdel : simpl never.
Local Arguments zbfun_of : simpl never.
Local Arguments fam_of : simpl never.

Definition bfeq (f g : bfun) : Prop := forall a, f a = g a.

(** the conjunction of the literals [lits] *)
Definition zcube_fun (lits : list (nat * bool)) : bfun :=
  fun a => forallb (fun p : nat * bool => Bool.eqb (a (fst p)) (snd p)) lits.

(** no member of the family contains a variable whose level is at or above the level of [v] *)
Definition zabove (s : snap) (v : nat) (F : bfun) : Prop :=
  forall a u, u < nlevels s -> nth u (s_v2l s) 0 <= nth v (s_v2l s) 0 -> a u = true -> F a = false.

(** ** From functions to the structural preconditions of [make_node] *)

Lemma singleton_fun_fam : forall s r v L, ZbddOK s -> ref_ok s r -> nth_error (s_v2l s) v = Some L ->
  (forall a, zbfun_of s r a = singleton_s (nlevels s) v a) ->
  exists Fv, fam_of s r = Some Fv /\ feq Fv (f_singleton L).
Proof.
  intros s r v L B O Ev Hf. pose proof (zo_wf s B) as H. pose proof (zo_kind s B) as Hk.
  destruct (fam_of_total s H Hk r O) as [Fv EF]. exists Fv. split; [exact EF|].
  pose proof (v2l_range s v L H Ev) as HL.
  assert (E0 : set_levels s (fun u => Nat.eqb u v) = [L]).
  { apply (incr_same_members _ _ 0); [apply set_levels_incr | simpl; split; [lia | exact I]|].
    intros x. rewrite set_levels_spec. simpl. split.
    - intros [Hx Hu]. apply Nat.eqb_eq in Hu. left. symmetry. apply (l2v_at s H v L x Ev Hx). exact Hu.
    - intros [<-|[]]. split; [exact HL|]. apply Nat.eqb_eq. apply (l2v_at s H v L L Ev HL). reflexivity. }
  intros T. rewrite in_f_singleton. split.
  - intros HT. pose proof (fam_member_is_set s r Fv T H Hk EF HT) as ET.
    rewrite <- ET, <- E0. apply (set_levels_ext s H). intros u Hu.
    assert (Hs : singleton_s (nlevels s) v (vset s T) = true).
    { rewrite <- Hf, (zbfun_fam s r Fv _ B O EF), ET. apply fmem_spec. exact HT. }
    unfold singleton_s in Hs. rewrite forallb_seq0 in Hs. apply eqb_prop. apply Hs. exact Hu.
  - intros ->. rewrite <- E0. apply fmem_spec. rewrite <- (zbfun_fam s r Fv _ B O EF), Hf.
    unfold singleton_s. apply forallb_seq0. intros u _. apply eqb_reflx.
Qed.

Lemma above_rlevel : forall s r v L, ZbddOK s -> ref_ok s r -> nth_error (s_v2l s) v = Some L ->
  zabove s v (zbfun_of s r) -> L < rlevel s r.
Proof.
  intros s r v L B O Ev Hab. pose proof (zo_wf s B) as H. pose proof (zo_kind s B) as Hk.
  pose proof (v2l_range s v L H Ev) as HL.
  destruct r as [t|id]; [simpl; exact HL|].
  destruct O as [nd En]. rewrite (rlevel_node s id nd En).
  destruct (Nat.lt_ge_cases L (nlevel nd)) as [Hlt|Hge]; [exact Hlt|]. exfalso.
  pose proof (wf_level s H id nd En) as Hnl.
  destruct (fam_nonempty s B (nlevels s) (RN id) (ex_intro _ nd En) ltac:(lia) ltac:(intros t Hx; discriminate))
    as [F [S0 [EF [HS Hh]]]].
  destruct (Hh id nd eq_refl En) as [T ->].
  pose proof (fam_member_is_set s (RN id) F _ H Hk EF HS) as ET.
  set (a := vset s (nlevel nd :: T)) in *.
  assert (Ht : zbfun_of s (RN id) a = true).
  { rewrite (zbfun_fam s (RN id) F a B (ex_intro _ nd En) EF), ET. apply fmem_spec. exact HS. }
  destruct (wf_l2v_v2l s (nlevel nd) H Hnl) as [Hu Hinv].
  rewrite (Hab a (nth (nlevel nd) (s_l2v s) 0) Hu) in Ht; [discriminate| |].
  - rewrite Hinv, (nth_error_nth _ _ 0 Ev). exact Hge.
  - unfold a, vset. rewrite Hinv. simpl. rewrite Nat.eqb_refl. reflexivity.
Qed.

(** same isomorphism class: equal functions of the variables, equal node counts *)
Lemma same_fun_same_count_z : forall s1 s2 r1 r2, ZbddOK s1 -> ZbddOK s2 ->
  s_l2v s1 = s_l2v s2 -> s_v2l s1 = s_v2l s2 -> ref_ok s1 r1 -> ref_ok s2 r2 ->
  (forall a, zbfun_of s1 r1 a = zbfun_of s2 r2 a) ->
  count_reach s1 (E r1) = count_reach s2 (E r2).
Proof.
  intros s1 s2 r1 r2 B1 B2 Hl Hv O1 O2 Heq.
  pose proof (zo_wf s1 B1) as H1. pose proof (zo_wf s2 B2) as H2.
  assert (Hn : nlevels s1 = nlevels s2) by (unfold nlevels; rewrite Hl; reflexivity).
  destruct (fam_of_total s1 H1 (zo_kind s1 B1) r1 O1) as [F1 E1].
  destruct (fam_of_total s2 H2 (zo_kind s2 B2) r2 O2) as [F2 E2].
  apply (count_reach_fam s1 s2 B1 B2 Hn r1 r2 F1 F2 O1 O2 E1 E2).
  assert (HSL : forall a, set_levels s2 a = set_levels s1 a) by (intros a; apply set_levels_l2v; symmetry; exact Hl).
  assert (Hvs : forall T, vset s2 T = vset s1 T) by (intros T; unfold vset; rewrite Hv; reflexivity).
  intros S. split; intros HS.
  - pose proof (fam_member_is_set s1 r1 F1 S H1 (zo_kind s1 B1) E1 HS) as ET.
    set (a := vset s1 S) in *.
    assert (Ht : zbfun_of s1 r1 a = true).
    { rewrite (zbfun_fam s1 r1 F1 a B1 O1 E1), ET. apply fmem_spec. exact HS. }
    rewrite Heq, (zbfun_fam s2 r2 F2 a B2 O2 E2), HSL, ET in Ht. apply fmem_spec. exact Ht.
  - pose proof (fam_member_is_set s2 r2 F2 S H2 (zo_kind s2 B2) E2 HS) as ET.
    set (a := vset s2 S) in *.
    assert (Ht : zbfun_of s2 r2 a = true).
    { rewrite (zbfun_fam s2 r2 F2 a B2 O2 E2), ET. apply fmem_spec. exact HS. }
    rewrite <- Heq, (zbfun_fam s1 r1 F1 a B1 O1 E1), <- HSL, ET in Ht. apply fmem_spec. exact Ht.
Qed.

Section SpecZ.
Variable gt : ref -> ref -> bool.
Variable C : Type.
Variable cget : C -> N -> list ref -> list nat -> option ref.
Variable cadd : C -> N -> list ref -> list nat -> ref -> C.
Hypothesis Hlossy : zlossy C cget cadd.
Variable cempty : C.
Hypothesis Hempty : forall k a m, cget cempty k a m = None.

Notation hstate_z := (hstate_z C).
Notation hstep_z := (hstep_z gt C cget cadd cempty).
Notation hrun_z := (hrun_z gt C cget cadd cempty).
Notation HInvZ := (HInvZ C cget).
Notation zhop_pre := (zhop_pre C).
Notation hframe_z := (hframe_z C).
Notation hpost_z := (hpost_z C).
Notation zholds := (zholds C).
Notation hinit_z := (hinit_z C cempty).
Notation step_ok := (hstep_z_ok gt C cget cadd Hlossy cempty Hempty).

Lemma zholds_ext : forall st d F F', zholds st d F -> bfeq F F' -> zholds st d F'.
Proof. intros st d F F' [r [E HF]] Hf. exists r. split; [exact E|]. intros a. rewrite HF. apply Hf. Qed.

Lemma zholds_slot : forall st d F r, zholds st d F -> zslot C st d = Some r -> bfeq (zbfun_of (hz_s C st) r) F.
Proof. intros st d F r [r0 [E HF]] Er. rewrite E in Er. inversion Er; subst. exact HF. Qed.

Lemma zholds_occupied : forall st d F, zholds st d F -> zoccupied C st d.
Proof. intros st d F [r [E _]]. exists r. exact E. Qed.

Inductive hspec_z (st : hstate_z) : zhop -> N -> bfun -> Prop :=
| ZSpConst : forall d b, hspec_z st (ZHConst d b) d (const_s b)
| ZSpVar : forall d v neg, v < nlevels (hz_s C st) ->
    hspec_z st (ZHVar d v neg) d (fun a => xorb neg (var_s v a))
| ZSpNot : forall d x f, zholds st x f -> hspec_z st (ZHNot d x) d (lift1 negb f)
| ZSpBin : forall op d x y f g, zholds st x f -> zholds st y g ->
    hspec_z st (ZHBin op d x y) d (lift2 op f g)
| ZSpIte : forall d x y z f g h, zholds st x f -> zholds st y g -> zholds st z h ->
    hspec_z st (ZHIte d x y z) d (ite_s f g h)
| ZSpRestrict : forall d x cube f lits, zholds st x f -> zholds st cube (zcube_fun lits) ->
    NoDup (map fst lits) -> (forall v b, In (v, b) lits -> v < nlevels (hz_s C st)) ->
    hspec_z st (ZHRestrict d x cube) d (restrict_s lits f)
| ZSpEmpty : forall d, hspec_z st (ZHEmpty d) d (const_s false)
| ZSpBase : forall d, hspec_z st (ZHBase d) d (base_s (nlevels (hz_s C st)))
| ZSpSingleton : forall d v, v < nlevels (hz_s C st) ->
    hspec_z st (ZHSingleton d v) d (singleton_s (nlevels (hz_s C st)) v)
| ZSpSub : forall op d x v f, zholds st x f -> v < nlevels (hz_s C st) ->
    hspec_z st (ZHSub op d x v) d (zsub_s op v f)
| ZSpSet : forall op d x y f g, zholds st x f -> zholds st y g ->
    hspec_z st (ZHSet op d x y) d (zop_s op f g)
| ZSpMakeNode : forall d var hi lo v h l, v < nlevels (hz_s C st) ->
    zholds st var (singleton_s (nlevels (hz_s C st)) v) -> zholds st hi h -> zholds st lo l ->
    zabove (hz_s C st) v h -> zabove (hz_s C st) v l ->
    hspec_z st (ZHMakeNode d var hi lo) d (mknode_s v h l)
| ZSpClone : forall d x f, zholds st x f -> hspec_z st (ZHClone d x) d f.

Lemma hspec_z_dst : forall st o d F, hspec_z st o d F -> zhdst o = Some d.
Proof. intros st o d F S. destruct S; reflexivity. Qed.

Lemma hspec_z_order : forall st o d F, hspec_z st o d F -> zchanges_order o = false /\ zkeeps_levels o = true.
Proof. intros st o d F S. destruct S; split; reflexivity. Qed.

Lemma v2l_some : forall s v, WF s -> v < nlevels s -> exists L, nth_error (s_v2l s) v = Some L.
Proof.
  intros s v H Hv. exists (nth v (s_v2l s) 0). apply nth_error_nth'. rewrite (wf_perm_len s H). exact Hv.
Qed.

Lemma zabove_ext : forall s v F F', zabove s v F -> bfeq F' F -> zabove s v F'.
Proof. intros s v F F' Ha Hf a u Hu Hl Hau. rewrite Hf. apply (Ha a u Hu Hl Hau). Qed.

Lemma hspec_z_pre : forall st o d F, HInvZ st -> hspec_z st o d F -> zhop_pre st o.
Proof.
  intros st o d F I S. pose proof (hzi_ok C cget st I) as B. pose proof (zo_wf _ B) as H.
  destruct S; simpl; try exact Logic.I; try assumption;
    try (repeat match goal with |- _ /\ _ => split end; eauto using zholds_occupied; fail).
  - (* restrict: the cube operand has the cube shape *)
    split; [apply (zholds_occupied _ _ _ H0)|].
    destruct H1 as [V [Ev HV]]. pose proof (zslot_ok C cget st cube V I Ev) as Ov.
    exists V, (lits_levels (hz_s C st) lits). split; [exact Ev|].
    assert (Hc : is_zcube (hz_s C st) V lits) by (intros a; apply HV).
    pose proof (is_zcube_den _ V lits B Ov H2 H3 Hc) as D.
    apply (zcube_of_den _ B _ 0 V _ (le_n _) ltac:(lia) D).
  - (* make_node *)
    destruct H1 as [rv [Ev Fv]]. destruct H2 as [rh [Eh Fh]]. destruct H3 as [rl [El Fl]].
    destruct (v2l_some _ v H H0) as [L EL].
    pose proof (zslot_ok C cget st var rv I Ev) as Ov. pose proof (zslot_ok C cget st hi rh I Eh) as Oh.
    pose proof (zslot_ok C cget st lo rl I El) as Ol.
    destruct (singleton_fun_fam _ rv v L B Ov EL Fv) as [Fam [EF Hq]].
    exists rv, rh, rl, Fam, L. repeat (split; [assumption|]). split.
    + apply (above_rlevel _ rh v L B Oh EL). apply (zabove_ext _ v h _ H4). exact Fh.
    + apply (above_rlevel _ rl v L B Ol EL). apply (zabove_ext _ v l _ H5). exact Fl.
Qed.

(** what the frame says about an operand of a call that keeps the order *)
Lemma frame_operand : forall st o st' x r, hframe_z st o st' -> zchanges_order o = false ->
  zkeeps_levels o = true -> zslot C st x = Some r ->
  ref_ok (hz_s C st') r /\ bfeq (zbfun_of (hz_s C st') r) (zbfun_of (hz_s C st) r) /\
  fam_of (hz_s C st') r = fam_of (hz_s C st) r /\
  nlevels (hz_s C st') = nlevels (hz_s C st) /\ s_v2l (hz_s C st') = s_v2l (hz_s C st).
Proof.
  intros st o st' x r [_ [F2 [_ [F4 F5]]]] Hco Hkl Er.
  pose proof (zslot_root C st x r Er) as Hr. destruct (F2 r Hr) as [O Hb].
  destruct (F4 Hco) as [Hl Hv].
  assert (Hn : nlevels (hz_s C st') = nlevels (hz_s C st)) by (unfold nlevels; rewrite Hl; reflexivity).
  split; [exact O|]. split; [|split; [apply (F5 Hkl r Hr) | split; [exact Hn | exact Hv]]].
  intros a. rewrite Hb, Hn, newfalse_same, andb_true_r. reflexivity.
Qed.

(** (4) the destination holds the spec function, whatever happened before *)
Theorem hstep_z_spec : forall st o d F, HInvZ st -> hspec_z st o d F ->
  exists st', hstep_z st o = Some st' /\ HInvZ st' /\ hframe_z st o st' /\ zholds st' d F.
Proof.
  intros st o d F I S. pose proof (hspec_z_pre st o d F I S) as Pre.
  destruct (hspec_z_order st o d F S) as [Hco Hkl].
  destruct (step_ok st o I Pre) as [st' [E [I' [Fr P]]]].
  exists st'. split; [exact E|]. split; [exact I'|]. split; [exact Fr|].
  pose proof (hzi_ok C cget st I) as B. pose proof (zo_wf _ B) as H.
  pose proof (hzi_ok C cget st' I') as B'.
  pose proof (fun x r => frame_operand st o st' x r Fr Hco Hkl) as Fop.
  destruct S; simpl in P.
  - exact P.
  - exact P.
  - destruct P as [f0 [E0 P]]. apply (zholds_ext _ _ _ _ P).
    intros a. unfold lift1. rewrite (zholds_slot st x f f0 H0 E0 a). reflexivity.
  - destruct P as [f0 [g0 [E0 [E1 P]]]]. apply (zholds_ext _ _ _ _ P).
    intros a. unfold lift2. rewrite (zholds_slot st x f f0 H0 E0 a), (zholds_slot st y g g0 H1 E1 a). reflexivity.
  - destruct P as [f0 [g0 [h0 [E0 [E1 [E2 P]]]]]]. apply (zholds_ext _ _ _ _ P).
    intros a. unfold ite_s.
    rewrite (zholds_slot st x f f0 H0 E0 a), (zholds_slot st y g g0 H1 E1 a), (zholds_slot st z h h0 H2 E2 a).
    reflexivity.
  - destruct P as [f0 [V [E0 [E1 P]]]].
    specialize (P lits H2 H3 (zholds_slot st cube _ V H1 E1)).
    apply (zholds_ext _ _ _ _ P). intros a. apply restrict_s_ext. apply (zholds_slot st x f f0 H0 E0).
  - (* empty *)
    destruct P as [r [R [Er [ER Hq]]]]. exists r. split; [exact Er|]. intros a.
    apply (fam_empty_bfun _ B' r R a (zslot_ok C cget st' d r I' Er) ER Hq).
  - (* base *)
    destruct P as [r [R [Er [ER Hq]]]]. exists r. split; [exact Er|]. intros a.
    rewrite (fam_base_bfun _ B' r R a (zslot_ok C cget st' d r I' Er) ER Hq).
    destruct Fr as [_ [_ [_ [F4 _]]]]. destruct (F4 Hco) as [Hl _]. unfold nlevels. rewrite Hl. reflexivity.
  - (* singleton *)
    destruct P as [vl [Ev [r [R [Er [ER Hq]]]]]]. exists r. split; [exact Er|]. intros a.
    destruct Fr as [_ [_ [_ [F4 _]]]]. destruct (F4 Hco) as [Hl Hv].
    rewrite (fam_singleton_bfun _ B' v vl r R a (zslot_ok C cget st' d r I' Er) ltac:(rewrite Hv; exact Ev) ER Hq).
    unfold nlevels. rewrite Hl. reflexivity.
  - (* subset0 / subset1 / change *)
    destruct P as [f0 [F0 [vl [E0 [EF [Ev [r [R [Er [ER Hq]]]]]]]]]].
    destruct (Fop x f0 E0) as [O0 [Hb0 [Hf0 [Hn Hv]]]].
    exists r. split; [exact Er|]. intros a.
    rewrite (fam_sub_bfun _ B' op v vl f0 r F0 R a O0 (zslot_ok C cget st' d r I' Er)
               ltac:(rewrite Hv; exact Ev) ltac:(rewrite Hf0; exact EF) ER Hq).
    unfold zsub_s. destruct op; rewrite !Hb0, !(zholds_slot st x f f0 H0 E0); reflexivity.
  - (* union / intsec / diff *)
    destruct P as [f0 [g0 [F0 [G0 [E0 [E1 [EF [EG [r [R [Er [ER Hq]]]]]]]]]]]].
    destruct (Fop x f0 E0) as [O0 [Hb0 [Hf0 _]]]. destruct (Fop y g0 E1) as [O1 [Hb1 [Hf1 _]]].
    exists r. split; [exact Er|]. intros a.
    rewrite (fam_bin_bfun _ B' op f0 g0 r F0 G0 R a O0 O1 (zslot_ok C cget st' d r I' Er)
               ltac:(rewrite Hf0; exact EF) ltac:(rewrite Hf1; exact EG) ER Hq).
    unfold zop_s. rewrite Hb0, Hb1, (zholds_slot st x f f0 H0 E0 a), (zholds_slot st y g g0 H1 E1 a). reflexivity.
  - (* make_node *)
    destruct P as (rv & rh & rl & Fv & L & A & Bf & Ev & Eh & El & EFv & HqL & EA & EB & r & R & Er & ER & Hq).
    destruct (Fop hi rh Eh) as [Oh [Hbh [Hfh [Hn Hv]]]]. destruct (Fop lo rl El) as [Ol [Hbl [Hfl _]]].
    destruct (v2l_some _ v H H0) as [L' EL'].
    pose proof (zslot_ok C cget st var rv I Ev) as Ov.
    destruct (singleton_fun_fam _ rv v L' B Ov EL' (zholds_slot st var _ rv H1 Ev)) as [Fv' [EFv' Hq']].
    rewrite EFv in EFv'. inversion EFv'; subst Fv'.
    assert (L = L').
    { assert (Hin : In [L] Fv) by (apply HqL; left; reflexivity). apply Hq' in Hin. simpl in Hin.
      destruct Hin as [Hx|[]]. inversion Hx. reflexivity. }
    subst L'.
    assert (LhS : L < rlevel (hz_s C st') rh).
    { apply (above_rlevel _ rh v L B' Oh ltac:(rewrite Hv; exact EL')).
      intros a u Hu Hl Hau. rewrite Hbh, (zholds_slot st hi h rh H2 Eh).
      apply (H4 a u); [rewrite <- Hn; exact Hu | rewrite <- Hv; exact Hl | exact Hau]. }
    exists r. split; [exact Er|]. intros a.
    rewrite (fam_make_node_bfun _ B' v L rh rl r A Bf R a Oh Ol (zslot_ok C cget st' d r I' Er)
               ltac:(rewrite Hv; exact EL') LhS ltac:(rewrite Hfh; exact EA) ltac:(rewrite Hfl; exact EB) ER Hq).
    unfold mknode_s. rewrite Hbl, !Hbh, (zholds_slot st lo l rl H3 El a), (zholds_slot st hi h rh H2 Eh). reflexivity.
  - destruct P as [Eg [r' Er']]. destruct H0 as [r [Er HF]].
    exists r. assert (Er2 : zslot C st' d = Some r).
    { unfold zslot in *. rewrite Eg. exact Er. }
    split; [exact Er2|]. intros a.
    destruct (Fop x r Er) as [_ [Hb _]]. rewrite Hb. apply HF.
Qed.

(** in one manager the returned edge is THE edge with that function *)
Theorem histz_result_unique : forall st o d F st', HInvZ st -> hspec_z st o d F -> hstep_z st o = Some st' ->
  forall y, zholds st' y F ->
  hget (s_handles (hz_s C st')) y = hget (s_handles (hz_s C st')) d.
Proof.
  intros st o d F st' I S E y Hy.
  destruct (hstep_z_spec st o d F I S) as [st1 [E1 [I1 [_ Hd]]]]. rewrite E in E1. inversion E1; subst st1.
  destruct Hy as [ry [Ey Fy]]. destruct Hd as [rd [Ed Fd]]. unfold zslot in Ey, Ed.
  destruct (hget (s_handles (hz_s C st')) y) as [ey|] eqn:Gy; [|discriminate].
  destruct (hget (s_handles (hz_s C st')) d) as [ed|] eqn:Gd; [|discriminate].
  inversion Ey; subst ry. inversion Ed; subst rd. f_equal.
  apply (hinvz_canonical C cget st' I1 y d ey ed Gy Gd). intros a. rewrite Fy, Fd. reflexivity.
Qed.

End SpecZ.

(** ** Two managers *)

Section TwoZ.
Variables gt1 gt2 : ref -> ref -> bool.
Variables C1 C2 : Type.
Variable cget1 : C1 -> N -> list ref -> list nat -> option ref.
Variable cadd1 : C1 -> N -> list ref -> list nat -> ref -> C1.
Variable cget2 : C2 -> N -> list ref -> list nat -> option ref.
Variable cadd2 : C2 -> N -> list ref -> list nat -> ref -> C2.
Hypothesis L1 : zlossy C1 cget1 cadd1.
Hypothesis L2 : zlossy C2 cget2 cadd2.
Variable ce1 : C1.
Variable ce2 : C2.
Hypothesis He1 : forall k a m, cget1 ce1 k a m = None.
Hypothesis He2 : forall k a m, cget2 ce2 k a m = None.

Notation step1 := (hstep_z gt1 C1 cget1 cadd1 ce1).
Notation step2 := (hstep_z gt2 C2 cget2 cadd2 ce2).

(** the result is determined by the spec function and the variable order:
    same function, same node count, in any two managers *)
Theorem histz_result_determined : forall st1 st2 o1 o2 d1 d2 F st1' st2',
  HInvZ C1 cget1 st1 -> HInvZ C2 cget2 st2 ->
  s_l2v (hz_s C1 st1) = s_l2v (hz_s C2 st2) -> s_v2l (hz_s C1 st1) = s_v2l (hz_s C2 st2) ->
  hspec_z C1 st1 o1 d1 F -> hspec_z C2 st2 o2 d2 F ->
  step1 st1 o1 = Some st1' -> step2 st2 o2 = Some st2' ->
  exists r1 r2, zslot C1 st1' d1 = Some r1 /\ zslot C2 st2' d2 = Some r2 /\
    (forall a, zbfun_of (hz_s C1 st1') r1 a = F a) /\
    (forall a, zbfun_of (hz_s C2 st2') r2 a = F a) /\
    count_reach (hz_s C1 st1') (E r1) = count_reach (hz_s C2 st2') (E r2).
Proof.
  intros st1 st2 o1 o2 d1 d2 F st1' st2' I1 I2 Hl Hv S1 S2 E1 E2.
  destruct (hstep_z_spec gt1 C1 cget1 cadd1 L1 ce1 He1 st1 o1 d1 F I1 S1) as [sa [Ea [Ia [Fa Ha]]]].
  destruct (hstep_z_spec gt2 C2 cget2 cadd2 L2 ce2 He2 st2 o2 d2 F I2 S2) as [sb [Eb [Ib [Fb Hb]]]].
  rewrite E1 in Ea. inversion Ea; subst sa. rewrite E2 in Eb. inversion Eb; subst sb.
  destruct Ha as [r1 [Er1 F1]]. destruct Hb as [r2 [Er2 F2]].
  exists r1, r2. split; [exact Er1|]. split; [exact Er2|]. split; [exact F1|]. split; [exact F2|].
  destruct (hspec_z_order C1 st1 o1 d1 F S1) as [Hco1 _].
  destruct (hspec_z_order C2 st2 o2 d2 F S2) as [Hco2 _].
  destruct Fa as [_ [_ [_ [Fa4 _]]]]. destruct Fb as [_ [_ [_ [Fb4 _]]]].
  destruct (Fa4 Hco1) as [La Va]. destruct (Fb4 Hco2) as [Lb Vb].
  apply same_fun_same_count_z.
  - apply (hzi_ok C1 cget1 st1' Ia).
  - apply (hzi_ok C2 cget2 st2' Ib).
  - rewrite La, Lb. exact Hl.
  - rewrite Va, Vb. exact Hv.
  - apply (zslot_ok C1 cget1 st1' d1 r1 Ia Er1).
  - apply (zslot_ok C2 cget2 st2' d2 r2 Ib Er2).
  - intros a. rewrite F1, F2. reflexivity.
Qed.

(** C08 "as on a freshly built diagram": [ops1] is any history (reorderings,
    collections, dropped handles, added variables, ...), [ops2] any other one -
    in particular the shortest one that just builds the operands in a fresh
    manager with the same variable order; the same call has the same result *)
Theorem histz_fresh_equiv : forall n1 n2 ops1 ops2 st1 st2 o1 o2 d1 d2 F,
  zhops_pre gt1 C1 cget1 cadd1 ce1 (hinit_z C1 ce1 n1) ops1 ->
  hrun_z gt1 C1 cget1 cadd1 ce1 (hinit_z C1 ce1 n1) ops1 = Some st1 ->
  zhops_pre gt2 C2 cget2 cadd2 ce2 (hinit_z C2 ce2 n2) ops2 ->
  hrun_z gt2 C2 cget2 cadd2 ce2 (hinit_z C2 ce2 n2) ops2 = Some st2 ->
  s_l2v (hz_s C1 st1) = s_l2v (hz_s C2 st2) -> s_v2l (hz_s C1 st1) = s_v2l (hz_s C2 st2) ->
  hspec_z C1 st1 o1 d1 F -> hspec_z C2 st2 o2 d2 F ->
  exists st1' st2' r1 r2,
    step1 st1 o1 = Some st1' /\ step2 st2 o2 = Some st2' /\
    zslot C1 st1' d1 = Some r1 /\ zslot C2 st2' d2 = Some r2 /\
    (forall a, zbfun_of (hz_s C1 st1') r1 a = F a) /\
    (forall a, zbfun_of (hz_s C2 st2') r2 a = F a) /\
    count_reach (hz_s C1 st1') (E r1) = count_reach (hz_s C2 st2') (E r2) /\
    wf_b (hz_s C1 st1') = true /\ wf_b (hz_s C2 st2') = true.
Proof.
  intros n1 n2 ops1 ops2 st1 st2 o1 o2 d1 d2 F P1 R1 P2 R2 Hl Hv S1 S2.
  assert (I1 : HInvZ C1 cget1 st1).
  { apply (hreach_z_inv gt1 C1 cget1 cadd1 L1 ce1 He1 n1). exists ops1. auto. }
  assert (I2 : HInvZ C2 cget2 st2).
  { apply (hreach_z_inv gt2 C2 cget2 cadd2 L2 ce2 He2 n2). exists ops2. auto. }
  destruct (hstep_z_spec gt1 C1 cget1 cadd1 L1 ce1 He1 st1 o1 d1 F I1 S1) as [sa [Ea [Ia _]]].
  destruct (hstep_z_spec gt2 C2 cget2 cadd2 L2 ce2 He2 st2 o2 d2 F I2 S2) as [sb [Eb [Ib _]]].
  destruct (histz_result_determined st1 st2 o1 o2 d1 d2 F sa sb I1 I2 Hl Hv S1 S2 Ea Eb)
    as [r1 [r2 [A1 [A2 [A3 [A4 A5]]]]]].
  exists sa, sb, r1, r2. repeat (split; [assumption|]).
  split; apply wf_b_spec; [apply (zo_wf _ (hzi_ok C1 cget1 sa Ia)) | apply (zo_wf _ (hzi_ok C2 cget2 sb Ib))].
Qed.

End TwoZ.
