(** * Theorems about ALL histories of the ZBDD manager state machine (Mgr/HistoryZ.v)

    For every configuration (operand order [gt], cache implementation
    [C]/[cget]/[cadd] that is [zlossy], its cleared state [cempty]), every
    number [n] of initial variables
    and every history (list of [zhop]) of well-formed requests from the empty
    ZBDD manager [hinit_z n]:

    - [hrun_z_ok], [hreach_z_inv]: the run never gets stuck and every state it
      passes satisfies [HInvZ];
    - [histz_wf]: the table after ANY history passes the checkers [wf_b],
      [zbdd_ok_b] and [zchain_ok_b] (C03);
    - [histz_canonical]: two slots hold the same edge IFF they denote the same
      function of the variables IFF the same family of sets of variables (C01);
    - [histz_frame_slots], [histz_slot_stable], [histz_family_fixed]: a call
      changes neither the edge nor the FAMILY of any slot other than its
      destination - also [add_vars]; the Boolean view of an old edge after
      variables were added is "old function and every new variable false" (C09 /
      C16); [histz_add_vars], [histz_reorder_keeps] (C08);
    - [zhop_pre_b_sound], [hrun_z_checked]: the executable request checker. *)

From Coq Require Import List NArith PArith Bool Arith Lia FMapPositive.
From OxiVerif Require Import DD.Table DD.TableExtra DD.TableProofs DD.Sem DD.Build DD.BuildProofs
  DD.Apply DD.ApplyProofs DD.ApplyEvalProofs DD.ConfigApply DD.CanonZbdd DD.FamSpec DD.FamSpecProofs
  DD.ZbddOps DD.ZbddOpsProofs DD.ZbddSubsetProofs DD.ZbddSoundProofs DD.ZbddVars DD.ZbddVarsProofs
  DD.ZbddBool DD.ZbddBoolProofs DD.ZbddEvalProofs
  DD.ZbddRestrictProofs DD.ZbddRestrictTop DD.ZbddCubeCanon
  DD.ConfigInsert DD.ConfigRun DD.ConfigZbddRun DD.ConfigZbddIndep
  Mgr.SortOrder Mgr.SortOrderProofs Mgr.LevelSwap Mgr.LevelSwapOrder Mgr.LevelSwapZ Mgr.LevelSwapZProofs Mgr.LevelSwapZChain
  Mgr.History Mgr.HistoryBase Mgr.HistoryZ Mgr.HistoryZBase Mgr.HistoryZCache Mgr.HistoryZProofs.
Import ListNotations.

Local Arguments hset : simpl never.
Local Arguments hget : simpl never.
Local Arguments hdel : simpl never.
Local Arguments zbfun_of : simpl never.
Local Arguments fam_of : simpl never.
Local Arguments zadd_vars : simpl never.
Local Arguments set_var_order_model_z : simpl never.
Local Arguments gc_model : simpl never.
Local Arguments zcube_lits : simpl never.

(** ** The empty manager *)

Lemma nth_error_seq0z : forall n i, i < n -> nth_error (seq 0 n) i = Some i.
Proof.
  intros n i Hi. rewrite (nth_error_nth' (seq 0 n) 0) by (rewrite seq_length; exact Hi).
  rewrite seq_nth by exact Hi. reflexivity.
Qed.

Lemma emptyz_find : forall n id, find_node (empty_snap_z n) id = None.
Proof. intros n id. unfold find_node. simpl. apply PositiveMap.gempty. Qed.

Lemma emptyz_wf : forall n, WF (empty_snap_z n).
Proof.
  intros n.
  assert (Hinv : inv_on (seq 0 n) (seq 0 n)).
  { intros i Hi. rewrite seq_length in Hi. exists i. split; apply nth_error_seq0z; exact Hi. }
  constructor; simpl; try exact Hinv;
    try (intros; match goal with E : find_node (empty_snap_z n) _ = Some _ |- _ =>
                   rewrite emptyz_find in E; discriminate end).
  - reflexivity.
  - repeat constructor; simpl; intuition discriminate.
  - repeat constructor; simpl; intuition discriminate.
  - intros h [].
Qed.

Lemma emptyz_ok : forall n, ZbddOK (empty_snap_z n).
Proof.
  intros n. constructor.
  - apply emptyz_wf.
  - reflexivity.
  - intros t v. unfold term_val. cbn [s_terms empty_snap_z assoc_N].
    destruct (N.eqb 0 t); [intros E; inversion E; subst; auto|].
    destruct (N.eqb 1 t); [intros E; inversion E; subst; auto | discriminate].
  - exists 0%N. reflexivity.
  - exists 1%N. reflexivity.
Qed.

Lemma zchain_rebuild_chain : forall s, ZbddOK s ->
  ZbddOK (zchain_rebuild s) /\ ZChainOK (zchain_rebuild s) /\ extends s (zchain_rebuild s).
Proof.
  intros s B. destruct (zchain_after_taut_chain s B) as (s' & ch & E & B' & X & Hc & _).
  unfold zchain_rebuild. rewrite E. auto.
Qed.

Section ThmsZ.
Variable gt : ref -> ref -> bool.
Variable C : Type.
Variable cget : C -> N -> list ref -> list nat -> option ref.
Variable cadd : C -> N -> list ref -> list nat -> ref -> C.
Hypothesis Hlossy : zlossy C cget cadd.
Variable cempty : C.
Hypothesis Hempty : forall k a m, cget cempty k a m = None.

Notation hstate_z := (hstate_z C).
Notation hstep_z := (hstep_z gt C cget cadd cempty).
Notation hrun_z := (hrun_z gt C cget cadd cempty).
Notation HInvZ := (HInvZ C cget).
Notation zhop_pre := (zhop_pre C).
Notation hframe_z := (hframe_z C).
Notation hpost_z := (hpost_z C).
Notation zholds := (zholds C).
Notation zroot := (zroot C).
Notation hinit_z := (hinit_z C cempty).
Notation step_ok := (hstep_z_ok gt C cget cadd Hlossy cempty Hempty).

(** the invariant, spelled out *)
Theorem hinvz_unfold : forall st : hstate_z,
  HInvZ st <->
  (ZbddOK (hz_s C st) /\ ZChainOK (hz_s C st) /\
   ZCacheOKB C cget (hz_s C st) (hz_c C st) /\
   znofuture C cget (nlevels (hz_s C st)) (hz_c C st)).
Proof.
  intros st. split.
  - intros [A B D F]. auto.
  - intros [A [B [D F]]]. constructor; assumption.
Qed.

Theorem hinit_z_inv : forall n, HInvZ (hinit_z n).
Proof.
  intros n. destruct (zchain_rebuild_chain _ (emptyz_ok n)) as [B [Hc _]].
  constructor; simpl; [exact B | exact Hc | |].
  - intros code args nums r E. rewrite Hempty in E. discriminate.
  - intros a m n' r E. rewrite Hempty in E. discriminate.
Qed.

(** ** Runs *)

(** every request is well-formed when it is its turn *)
Fixpoint zhops_pre (st : hstate_z) (ops : list zhop) : Prop :=
  match ops with
  | [] => True
  | o :: rest => zhop_pre st o /\ forall st1, hstep_z st o = Some st1 -> zhops_pre st1 rest
  end.

Theorem hrun_z_ok : forall ops st, HInvZ st -> zhops_pre st ops ->
  exists st', hrun_z st ops = Some st' /\ HInvZ st'.
Proof.
  induction ops as [|o rest IH]; intros st I Pre.
  - exists st. split; [reflexivity | exact I].
  - destruct Pre as [P0 Prest]. destruct (step_ok st o I P0) as [st1 [E [I1 _]]].
    destruct (IH st1 I1 (Prest st1 E)) as [st2 [E2 I2]].
    exists st2. simpl. rewrite E. split; [exact E2 | exact I2].
Qed.

Lemma hrun_z_app : forall ops1 ops2 st, hrun_z st (ops1 ++ ops2) =
  match hrun_z st ops1 with Some st1 => hrun_z st1 ops2 | None => None end.
Proof.
  induction ops1 as [|o r IH]; intros ops2 st; simpl; [reflexivity|].
  destruct (hstep_z st o); [apply IH | reflexivity].
Qed.

Lemma zhops_pre_app : forall ops1 ops2 st, zhops_pre st ops1 ->
  (forall st1, hrun_z st ops1 = Some st1 -> zhops_pre st1 ops2) -> zhops_pre st (ops1 ++ ops2).
Proof.
  induction ops1 as [|o r IH]; intros ops2 st P1 P2; simpl.
  - apply P2. reflexivity.
  - destruct P1 as [P0 Pr]. split; [exact P0|]. intros st1 E. apply IH; [apply Pr; exact E|].
    intros st2 E2. apply P2. simpl. rewrite E. exact E2.
Qed.

(** the states a client can bring a ZBDD manager with [n] initial variables into *)
Definition hreach_z (n : nat) (st : hstate_z) : Prop :=
  exists ops, zhops_pre (hinit_z n) ops /\ hrun_z (hinit_z n) ops = Some st.

Theorem hreach_z_init : forall n, hreach_z n (hinit_z n).
Proof. intros n. exists []. split; [exact I | reflexivity]. Qed.

Theorem hreach_z_inv : forall n st, hreach_z n st -> HInvZ st.
Proof.
  intros n st [ops [P E]]. destruct (hrun_z_ok ops (hinit_z n) (hinit_z_inv n) P) as [st' [E' I']].
  rewrite E in E'. inversion E'; subst. exact I'.
Qed.

Theorem hreach_z_step : forall n st o st', hreach_z n st -> zhop_pre st o -> hstep_z st o = Some st' ->
  hreach_z n st'.
Proof.
  intros n st o st' [ops [P E]] Pre Es. exists (ops ++ [o]). split.
  - apply zhops_pre_app; [exact P|]. intros st1 E1. rewrite E in E1. inversion E1; subst st1.
    simpl. split; [exact Pre | intros; exact Logic.I].
  - rewrite hrun_z_app, E. simpl. rewrite Es. reflexivity.
Qed.

(** (1) no well-formed request ever gets stuck, from any reachable state *)
Theorem histz_progress : forall n st o, hreach_z n st -> zhop_pre st o ->
  exists st', hstep_z st o = Some st' /\ hreach_z n st' /\ hframe_z st o st' /\ hpost_z st o st'.
Proof.
  intros n st o R Pre. destruct (step_ok st o (hreach_z_inv n st R) Pre) as [st' [E [_ [F P]]]].
  exists st'. split; [exact E|]. split; [apply (hreach_z_step n st o st' R Pre E)|]. auto.
Qed.

(** (1) C03: after any history the table passes the structural checkers, and the
    manager's tautology chain is complete *)
Theorem histz_wf : forall n st, hreach_z n st ->
  wf_b (hz_s C st) = true /\ zbdd_ok_b (hz_s C st) = true /\ zchain_ok_b (hz_s C st) = true.
Proof.
  intros n st R. pose proof (hreach_z_inv n st R) as I. pose proof (hzi_ok C cget st I) as B.
  split; [apply wf_b_spec; apply (zo_wf _ B)|]. split; [apply zbdd_ok_b_spec; exact B|].
  apply (hzi_chain C cget st I).
Qed.

(** ** Canonicity *)

Theorem hinvz_canonical : forall st, HInvZ st ->
  forall x y ex ey, hget (s_handles (hz_s C st)) x = Some ex -> hget (s_handles (hz_s C st)) y = Some ey ->
  (ex = ey <-> forall a, zbfun_of (hz_s C st) (eref ex) a = zbfun_of (hz_s C st) (eref ey) a).
Proof.
  intros st I x y ex ey Ex Ey. pose proof (hzi_ok C cget st I) as B.
  destruct (z_handle_ok _ (x, ex) B (hget_In _ _ _ Ex)) as [Ox Tx].
  destruct (z_handle_ok _ (y, ey) B (hget_In _ _ _ Ey)) as [Oy Ty]. simpl in *.
  split; [intros ->; reflexivity|]. intros Heq.
  apply edge_ext; [|congruence]. apply (zbfun_canon _ _ _ B Ox Oy Heq).
Qed.

(** the same with families of sets of variables *)
Theorem hinvz_canonical_fam : forall st, HInvZ st ->
  forall x y ex ey, hget (s_handles (hz_s C st)) x = Some ex -> hget (s_handles (hz_s C st)) y = Some ey ->
  (ex = ey <-> forall a, vmem (hz_s C st) (eref ex) a <-> vmem (hz_s C st) (eref ey) a).
Proof.
  intros st I x y ex ey Ex Ey. split; [intros ->; reflexivity|]. intros Heq.
  apply (hinvz_canonical st I x y ex ey Ex Ey). intros a.
  pose proof (zo_wf _ (hzi_ok C cget st I)) as H.
  (* restrict [a] to the manager's variables: the functions do not read the others *)
  set (a' := fun v => if Nat.ltb v (nlevels (hz_s C st)) then a v else false).
  assert (Hag : forall v, v < nlevels (hz_s C st) -> a v = a' v).
  { intros v Hv. unfold a'. destruct (Nat.ltb_spec v (nlevels (hz_s C st))); [reflexivity | lia]. }
  rewrite (zbfun_of_local _ (eref ex) a a' H Hag), (zbfun_of_local _ (eref ey) a a' H Hag).
  assert (Hs : supp (nlevels (hz_s C st)) a').
  { intros v Hv. unfold a'. destruct (Nat.ltb_spec v (nlevels (hz_s C st))); [lia | reflexivity]. }
  specialize (Heq a'). unfold vmem in Heq.
  destruct (zbfun_of (hz_s C st) (eref ex) a') eqn:E1, (zbfun_of (hz_s C st) (eref ey) a') eqn:E2; try reflexivity.
  - destruct (proj1 Heq (conj Hs eq_refl)) as [_ Hx]. discriminate.
  - destruct (proj2 Heq (conj Hs eq_refl)) as [_ Hx]. discriminate.
Qed.

(** (2) C01: after any history, two slots hold the same edge iff they denote
    the same function of the manager's variables *)
Theorem histz_canonical : forall n st, hreach_z n st ->
  forall x y ex ey, hget (s_handles (hz_s C st)) x = Some ex -> hget (s_handles (hz_s C st)) y = Some ey ->
  (ex = ey <-> forall a, zbfun_of (hz_s C st) (eref ex) a = zbfun_of (hz_s C st) (eref ey) a).
Proof. intros n st R. apply hinvz_canonical. apply (hreach_z_inv n st R). Qed.

Theorem histz_canonical_fam : forall n st, hreach_z n st ->
  forall x y ex ey, hget (s_handles (hz_s C st)) x = Some ex -> hget (s_handles (hz_s C st)) y = Some ey ->
  (ex = ey <-> forall a, vmem (hz_s C st) (eref ex) a <-> vmem (hz_s C st) (eref ey) a).
Proof. intros n st R. apply hinvz_canonical_fam. apply (hreach_z_inv n st R). Qed.

(** ** The frame, slot by slot *)

(** (3) a call changes neither the edge nor the family of any slot other than
    its destination; the Boolean view gains "new variables false" *)
Theorem histz_frame_slots : forall st o st', HInvZ st -> zhop_pre st o -> hstep_z st o = Some st' ->
  forall x e, zhdst o <> Some x -> hget (s_handles (hz_s C st)) x = Some e ->
  hget (s_handles (hz_s C st')) x = Some e /\
  ref_ok (hz_s C st') (eref e) /\
  nlevels (hz_s C st) <= nlevels (hz_s C st') /\
  (forall a, vmem (hz_s C st') (eref e) a <-> vmem (hz_s C st) (eref e) a) /\
  forall a, zbfun_of (hz_s C st') (eref e) a =
            zbfun_of (hz_s C st) (eref e) a && newfalse (nlevels (hz_s C st)) (nlevels (hz_s C st')) a.
Proof.
  intros st o st' I Pre E x e Hx Eg. destruct (step_ok st o I Pre) as [st1 [E1 [_ [Fr _]]]].
  rewrite E in E1. inversion E1; subst st1.
  assert (Hr : zroot st (eref e)) by (exists (x, e); split; [apply hget_In; exact Eg | reflexivity]).
  pose proof (hframe_z_family C st o st' Fr (eref e) Hr) as Hfam.
  destruct Fr as [F1 [F2 [F3 _]]].
  split; [rewrite (F1 x Hx); exact Eg|]. destruct (F2 _ Hr) as [O Hb].
  split; [exact O|]. split; [exact F3|]. split; [exact Hfam | exact Hb].
Qed.

(** (3) along a whole history: as long as no call names slot [x] as its
    destination, the slot keeps its edge, the edge keeps its family of sets of
    variables - through operations, collections, reorderings, added variables,
    with any cache behaviour - and its Boolean view is the old one on the old
    variables and false as soon as a variable added meanwhile is true *)
Theorem histz_slot_stable : forall ops st st', HInvZ st -> zhops_pre st ops -> hrun_z st ops = Some st' ->
  forall x e, (forall o, In o ops -> zhdst o <> Some x) ->
  hget (s_handles (hz_s C st)) x = Some e ->
  hget (s_handles (hz_s C st')) x = Some e /\
  ref_ok (hz_s C st') (eref e) /\
  nlevels (hz_s C st) <= nlevels (hz_s C st') /\
  (forall a, vmem (hz_s C st') (eref e) a <-> vmem (hz_s C st) (eref e) a) /\
  forall a, zbfun_of (hz_s C st') (eref e) a =
            zbfun_of (hz_s C st) (eref e) a && newfalse (nlevels (hz_s C st)) (nlevels (hz_s C st')) a.
Proof.
  induction ops as [|o rest IH]; intros st st' I Pre E x e Hx Eg.
  - simpl in E. inversion E; subst st'. split; [exact Eg|].
    split; [apply (z_handle_ok _ (x, e) (hzi_ok C cget st I) (hget_In _ _ _ Eg))|].
    split; [apply le_n|]. split; [reflexivity|]. intros a. rewrite newfalse_same, andb_true_r. reflexivity.
  - destruct Pre as [P0 Prest]. simpl in E.
    destruct (step_ok st o I P0) as [st1 [E1 [I1 _]]]. rewrite E1 in E.
    destruct (histz_frame_slots st o st1 I P0 E1 x e (Hx o (or_introl eq_refl)) Eg) as [G1 [_ [N1 [V1 F1]]]].
    destruct (IH st1 st' I1 (Prest st1 E1) E x e (fun o' Ho => Hx o' (or_intror Ho)) G1) as [G2 [O2 [N2 [V2 F2]]]].
    split; [exact G2|]. split; [exact O2|]. split; [lia|]. split.
    + intros a. rewrite V2. apply V1.
    + intros a. rewrite F2, F1, <- andb_assoc. f_equal. apply newfalse_trans; assumption.
Qed.

(** (3) C09 / C16 along a whole history, in the vocabulary of families: the
    untouched handle denotes the same family of sets of variables, given by
    level lists of the respective orders *)
Theorem histz_family_fixed : forall ops st st', HInvZ st -> zhops_pre st ops -> hrun_z st ops = Some st' ->
  forall x e, (forall o, In o ops -> zhdst o <> Some x) ->
  hget (s_handles (hz_s C st)) x = Some e ->
  hget (s_handles (hz_s C st')) x = Some e /\
  exists F F', fam_of (hz_s C st) (eref e) = Some F /\ fam_of (hz_s C st') (eref e) = Some F' /\
    forall a, supp (nlevels (hz_s C st')) a ->
      (In (set_levels (hz_s C st') a) F' <-> supp (nlevels (hz_s C st)) a /\ In (set_levels (hz_s C st) a) F).
Proof.
  intros ops st st' I Pre E x e Hx Eg.
  destruct (hrun_z_ok ops st I Pre) as [st2 [E2 I2]]. rewrite E in E2. inversion E2; subst st2.
  destruct (histz_slot_stable ops st st' I Pre E x e Hx Eg) as [G [O' [_ [V _]]]].
  split; [exact G|].
  pose proof (hzi_ok C cget st I) as B. pose proof (hzi_ok C cget st' I2) as B'.
  pose proof (z_handle_ok _ (x, e) B (hget_In _ _ _ Eg)) as [O _]. simpl in O.
  destruct (fam_of_total _ (zo_wf _ B) (zo_kind _ B) _ O) as [F EF].
  destruct (fam_of_total _ (zo_wf _ B') (zo_kind _ B') _ O') as [F' EF'].
  exists F, F'. split; [exact EF|]. split; [exact EF'|]. intros a Hs.
  rewrite <- (vmem_fam _ _ F a B O EF), <- (V a), (vmem_fam _ _ F' a B' O' EF'). tauto.
Qed.

(** (3) C16: [add_vars] keeps every slot, every node and every FAMILY of the
    old table (as the same list of level sets); the Boolean view of an old
    reference is the old one and "all new variables false"; the chain is complete *)
Theorem histz_add_vars : forall st k st', HInvZ st -> hstep_z st (ZHAddVars k) = Some st' ->
  HInvZ st' /\
  nlevels (hz_s C st') = nlevels (hz_s C st) + k /\
  s_handles (hz_s C st') = s_handles (hz_s C st) /\
  (forall id nd, find_node (hz_s C st) id = Some nd -> find_node (hz_s C st') id = Some nd) /\
  (forall v, v < nlevels (hz_s C st) -> nth_error (s_v2l (hz_s C st')) v = nth_error (s_v2l (hz_s C st)) v) /\
  (forall i, i < k -> nth_error (s_v2l (hz_s C st')) (nlevels (hz_s C st) + i) = Some (nlevels (hz_s C st) + i)) /\
  forall r, ref_ok (hz_s C st) r ->
    ref_ok (hz_s C st') r /\ fam_of (hz_s C st') r = fam_of (hz_s C st) r /\
    (forall a, vmem (hz_s C st') r a <-> vmem (hz_s C st) r a) /\
    forall a, zbfun_of (hz_s C st') r a =
              zbfun_of (hz_s C st) r a && newfalse (nlevels (hz_s C st)) (nlevels (hz_s C st')) a.
Proof.
  intros st k st' I E. pose proof (hzi_ok C cget st I) as B. pose proof (zo_wf _ B) as H.
  destruct (step_ok st (ZHAddVars k) I Logic.I) as [st1 [E1 [I1 _]]].
  rewrite E in E1. inversion E1; subst st1. split; [exact I1|].
  simpl in E. destruct (zadd_vars_facts _ k B) as (s' & ch & E0 & B' & Hc' & G & Hn & Hv2l & Hl2v & Hh & Hold).
  rewrite E0 in E. inversion E; subst st'. simpl.
  assert (Lv : length (s_v2l (hz_s C st)) = nlevels (hz_s C st)) by (apply (wf_perm_len _ H)).
  split; [exact Hn|]. split; [exact Hh|]. split; [apply (gr_nodes _ _ G)|]. split; [|split].
  - intros v Hv. rewrite Hv2l. apply nth_error_app1. lia.
  - intros i Hi. rewrite Hv2l. rewrite (nth_error_app_seq _ _ k _ Lv).
    destruct (Nat.ltb_spec (nlevels (hz_s C st) + i) (nlevels (hz_s C st))); [lia|].
    destruct (Nat.ltb_spec (nlevels (hz_s C st) + i) (nlevels (hz_s C st) + k)); [reflexivity | lia].
  - intros r Ok. destruct (Hold r Ok) as [O' [Ef Hb]]. split; [exact O'|]. split; [exact Ef|].
    split; [|exact Hb]. apply vmem_stable; [lia | exact Hb].
Qed.

(** (3) C08: [set_var_order] changes no slot, no function of the variables, no
    family, and establishes the requested relative order; the chain is complete again *)
Theorem histz_reorder_keeps : forall st order st', HInvZ st ->
  zhop_pre st (ZHSetVarOrder order) -> hstep_z st (ZHSetVarOrder order) = Some st' ->
  HInvZ st' /\
  nlevels (hz_s C st') = nlevels (hz_s C st) /\
  s_handles (hz_s C st') = s_handles (hz_s C st) /\
  (forall x e, hget (s_handles (hz_s C st)) x = Some e ->
     ref_ok (hz_s C st') (eref e) /\
     (forall a, zbfun_of (hz_s C st') (eref e) a = zbfun_of (hz_s C st) (eref e) a) /\
     (forall a, vmem (hz_s C st') (eref e) a <-> vmem (hz_s C st) (eref e) a)) /\
  (forall a b, a < b < length order ->
     nth (nth a order 0) (s_v2l (hz_s C st')) 0 < nth (nth b order 0) (s_v2l (hz_s C st')) 0).
Proof.
  intros st order st' I Pre E. destruct (step_ok st _ I Pre) as [st1 [E1 [I1 [Fr P]]]].
  rewrite E in E1. inversion E1; subst st1. simpl in P. destruct P as [P1 [P2 P3]].
  split; [exact I1|]. split; [exact P1|]. split; [exact P2|]. split; [|exact P3].
  intros x e Eg.
  assert (Hr : zroot st (eref e)) by (exists (x, e); split; [apply hget_In; exact Eg | reflexivity]).
  pose proof (hframe_z_family C st _ st' Fr (eref e) Hr) as Hfam.
  destruct Fr as [_ [F2 _]]. destruct (F2 _ Hr) as [O Hb]. split; [exact O|]. split; [|exact Hfam].
  intros a. rewrite Hb, P1, newfalse_same, andb_true_r. reflexivity.
Qed.

(** ** The request checker *)

Lemma zoccupied_b_spec : forall st k, zoccupied_b C st k = true <-> zoccupied C st k.
Proof.
  intros st k. unfold zoccupied_b, zoccupied. destruct (zslot C st k) as [r|].
  - split; [eauto | reflexivity].
  - split; [discriminate | intros [r E]; discriminate].
Qed.

Lemma is_term_with_val : forall s r v, is_term_with s r v = true -> exists t, r = RT t /\ term_val s t = Some v.
Proof.
  intros s [t|id] v E; simpl in E; [|discriminate].
  destruct (term_val s t) as [w|] eqn:Et; [|discriminate]. apply N.eqb_eq in E. subst. eauto.
Qed.

Theorem zhop_pre_b_sound : forall st o, HInvZ st -> zhop_pre_b C st o = true -> zhop_pre st o.
Proof.
  intros st o I. pose proof (hzi_ok C cget st I) as B. pose proof (zo_wf _ B) as H.
  destruct o; simpl;
    rewrite ?andb_true_iff, ?zoccupied_b_spec, ?Nat.ltb_lt; try tauto.
  - (* ZHRestrict *)
    intros [A Hb]. split; [exact A|].
    destruct (zslot C st cube) as [vs|] eqn:Ev; [|discriminate Hb].
    destruct (zcube_lits (S (nlevels (hz_s C st))) (hz_s C st) vs 0) as [lits|] eqn:El; [|discriminate Hb].
    destruct (zcube_lits_cube _ B _ vs 0 lits El ltac:(lia)) as (_ & _ & Hc).
    exists vs, (lits_map lits). auto.
  - (* ZHMakeNode *)
    destruct (zslot C st var) as [v|] eqn:Ev; [|discriminate].
    destruct (zslot C st hi) as [h|] eqn:Eh; [|discriminate].
    destruct (zslot C st lo) as [l|] eqn:El; [|discriminate].
    unfold zsingleton_above_b. destruct v as [t|id]; [discriminate|].
    destruct (find_node (hz_s C st) id) as [nd|] eqn:En; [|discriminate].
    destruct (nchildren nd) as [|chi [|clo [|x rest]]] eqn:Ec; try discriminate.
    rewrite !andb_true_iff, !Nat.ltb_lt. intros [[[T1 T0] L1] L2].
    destruct (is_term_with_val _ _ _ T1) as [t1 [E1 V1]]. destruct (is_term_with_val _ _ _ T0) as [t0 [E0 V0]].
    pose proof (fam_of_node _ H (zo_kind _ B) id nd chi clo En Ec) as EF.
    rewrite E1, E0, (fam_of_term _ t1 1%N V1), (fam_of_term _ t0 0%N V0) in EF. simpl in EF.
    exists (RN id), h, l, (node_fam (nlevel nd) f_base f_empty), (nlevel nd).
    repeat (split; [first [reflexivity | assumption]|]).
    split; [|split; assumption].
    intros S. rewrite in_node_fam, in_f_singleton. unfold f_base, f_empty. simpl. split.
    + intros [[T [-> [<-|[]]]]|[]]. reflexivity.
    + intros ->. left. exists []. auto.
  - (* ZHSetVarOrder *)
    rewrite SortOrderProofs.order_ok_b_valid. unfold SortOrderProofs.valid_order. tauto.
Qed.

Theorem zhops_pre_b_sound : forall ops st, HInvZ st ->
  zhops_pre_b gt C cget cadd cempty st ops = true -> zhops_pre st ops.
Proof.
  induction ops as [|o rest IH]; intros st I Hb; simpl in *; [exact Logic.I|].
  apply andb_true_iff in Hb. destruct Hb as [A B0].
  pose proof (zhop_pre_b_sound st o I A) as P0. split; [exact P0|].
  intros st1 E. rewrite E in B0. destruct (step_ok st o I P0) as [st2 [E2 [I2 _]]].
  rewrite E in E2. inversion E2; subst st2. apply (IH st1 I2 B0).
Qed.

(** a history accepted by the checker runs to completion, in a reachable state *)
Theorem hrun_z_checked : forall n ops, zhops_pre_b gt C cget cadd cempty (hinit_z n) ops = true ->
  exists st, hrun_z (hinit_z n) ops = Some st /\ hreach_z n st.
Proof.
  intros n ops Hb. pose proof (zhops_pre_b_sound ops (hinit_z n) (hinit_z_inv n) Hb) as P.
  destruct (hrun_z_ok ops (hinit_z n) (hinit_z_inv n) P) as [st [E _]].
  exists st. split; [exact E|]. exists ops. auto.
Qed.

End ThmsZ.
