(** * Every branch of [hstep_z] IS the executable model that is compared with the real code

    [hstep_z] (Mgr/HistoryZ.v) was written by putting the existing ZBDD models
    together.  This file states that composition as equations, so that what
    the correspondence runs establish for the parts carries over.  The
    right-hand sides are exactly the functions extracted for and replayed by
    the drivers:

    - [zconst], [zvar], [znot_var], [zapply_not], [zapply_op], [zapply_ite],
      [zrestrict_edge], [zcube_lits] (coq/Extract/ExC02z.v; ./check C02 pass 1z on
      the zbdd cases, ./check C04 pass 1z on the zbdd restrict cases);
    - [zapply], [zsubset_top], [zsingleton], [zmake_node], [zempty], [zbase]
      (coq/Extract/ExDD.v; ./check C09: run on the real operand edges, must return
      the implementation's edge);
    - [zadd_vars] (ExDD.v; ./check C09: snapshot, VARS k, snapshot);
    - [set_var_order_model_z] = [zchain_drop], [level_swap_zc]s, [zchain_rebuild]
      (ExDD.v; ./check C08: ZBDD reorderings replayed swap by swap);
    - [ZHGc] yields [collected] (Mgr/OomGc.v) of the table whose roots are the
      handles and the chain ([gc_model_collected]; the real rc-based collection:
      ./check C05 / C14); the initial state is [zchain_rebuild] = [ztaut_chain]
      (ExDD.v; ./check C09 evaluates it on every snapshot).

    [zchain_ids_found]: in every state satisfying the invariant the model's
    [pre_reorder_mut] ([zchain_drop]) finds the complete chain (its structural
    search [zchain_ids] succeeds), as the code's [tautologies] vector holds it.

    All algorithms run on the plain cache [cget] / [cadd]; the key of a Restrict
    entry carries the number of levels in the model [zrestrict] itself
    (DD/ZbddBool.v, as the code since f8637cd).  [zkeyN_spec] describes the view
    [zcgetN n] / [zcaddN n] through which the un-keyed [restrict] of the code
    before the fix becomes the model (Mgr/HistoryZCache.v [zrestrict_view]).

    The only glue not covered by one of those runs: reading operands from /
    storing the result into slots ([zslot], [put]), the choice "cache kept /
    cache cleared", the key of Restrict entries, and the chain edges as
    collection roots. *)

From Coq Require Import List NArith PArith Bool Arith Lia FMapPositive.
From OxiVerif Require Import DD.Table DD.TableProofs DD.Sem DD.Build DD.BuildProofs DD.Apply DD.ConfigApply DD.FamSpec
  DD.ZbddOps DD.ZbddOpsProofs DD.ZbddBool DD.ZbddBoolProofs DD.ZbddVars DD.ZbddVarsProofs
  Mgr.SortOrder Mgr.LevelSwap Mgr.LevelSwapZ Mgr.LevelSwapZChain Mgr.LevelSwapZFind
  Mgr.OomGc Mgr.History Mgr.HistoryGc Mgr.HistoryZ Mgr.HistoryZBase.
Import ListNotations.

Local Arguments hget : simpl never.
Local Arguments zapply_ite : simpl never.
Local Arguments zapply : simpl never.
Local Arguments zsubset : simpl never.
Local Arguments zrestrict : simpl never.
Local Arguments gc_model : simpl never.
Local Arguments set_var_order_model_z : simpl never.

Section TieZ.
Variable gt : ref -> ref -> bool.
Variable C : Type.
Variable cget : C -> N -> list ref -> list nat -> option ref.
Variable cadd : C -> N -> list ref -> list nat -> ref -> C.
Variable cempty : C.

Notation hstep_z := (hstep_z gt C cget cadd cempty).
Notation FUELZ st := (S (nlevels (hz_s C st))).

(** the view (not used by the state machine: [zrestrict_view]): the Restrict code's numeric
    operands get the number of levels appended, every other code is looked up / inserted as it is *)
Theorem zkeyN_spec : forall n c code args nums r,
  zcgetN C cget n c zcode_restrict args nums = cget c zcode_restrict args (nums ++ [n]) /\
  zcaddN C cadd n c zcode_restrict args nums r = cadd c zcode_restrict args (nums ++ [n]) r /\
  (code <> zcode_restrict ->
     zcgetN C cget n c code args nums = cget c code args nums /\
     zcaddN C cadd n c code args nums r = cadd c code args nums r).
Proof.
  intros n c code args nums r. split; [reflexivity|]. split; [reflexivity|]. intros Hne.
  unfold zcgetN, zcaddN, zkeyN. destruct (N.eqb_spec code zcode_restrict); [contradiction|]. split; reflexivity.
Qed.

Theorem hstep_z_const : forall st d b,
  hstep_z st (ZHConst d b) =
  match zconst (hz_s C st) b with
  | Some r => zfinish C d (Some (hz_s C st, hz_c C st, r))
  | None => None
  end.
Proof. intros st d b. simpl. destruct (zconst (hz_s C st) b); reflexivity. Qed.

Theorem hstep_z_var : forall st d v,
  hstep_z st (ZHVar d v false) = zfinish0 C (hz_c C st) d (zvar (hz_s C st) v) /\
  hstep_z st (ZHVar d v true) = zfinish C d (znot_var gt C cget cadd (FUELZ st) (hz_s C st) (hz_c C st) v).
Proof. intros st d v. split; reflexivity. Qed.

Theorem hstep_z_not : forall st d a f, zslot C st a = Some f ->
  hstep_z st (ZHNot d a) = zfinish C d (zapply_not gt C cget cadd (FUELZ st) (hz_s C st) (hz_c C st) f).
Proof. intros st d a f Ef. simpl. rewrite Ef. reflexivity. Qed.

Theorem hstep_z_bin : forall st op d a b f g, zslot C st a = Some f -> zslot C st b = Some g ->
  hstep_z st (ZHBin op d a b) = zfinish C d (zapply_op gt C cget cadd (FUELZ st) (hz_s C st) (hz_c C st) op f g).
Proof. intros st op d a b f g Ef Eg. simpl. rewrite Ef, Eg. reflexivity. Qed.

Theorem hstep_z_ite : forall st d a b c f g h,
  zslot C st a = Some f -> zslot C st b = Some g -> zslot C st c = Some h ->
  hstep_z st (ZHIte d a b c) = zfinish C d (zapply_ite gt C cget cadd (FUELZ st) (hz_s C st) (hz_c C st) f g h).
Proof. intros st d a b c f g h Ef Eg Eh. simpl. rewrite Ef, Eg, Eh. reflexivity. Qed.

Theorem hstep_z_restrict : forall st d a cube f vs, zslot C st a = Some f -> zslot C st cube = Some vs ->
  hstep_z st (ZHRestrict d a cube) = zfinish C d (zrestrict_edge C cget cadd (FUELZ st) (hz_s C st) (hz_c C st) f vs).
Proof. intros st d a cube f vs Ef Ev. simpl. rewrite Ef, Ev. reflexivity. Qed.

Theorem hstep_z_terminals : forall st d,
  hstep_z st (ZHEmpty d) =
    match zempty (hz_s C st) with Some r => zfinish C d (Some (hz_s C st, hz_c C st, r)) | None => None end /\
  hstep_z st (ZHBase d) =
    match zbase (hz_s C st) with Some r => zfinish C d (Some (hz_s C st, hz_c C st, r)) | None => None end.
Proof.
  intros st d. split; simpl; [destruct (zempty (hz_s C st)) | destruct (zbase (hz_s C st))]; reflexivity.
Qed.

Theorem hstep_z_singleton : forall st d v,
  hstep_z st (ZHSingleton d v) = zfinish0 C (hz_c C st) d (zsingleton (hz_s C st) v).
Proof. reflexivity. Qed.

Theorem hstep_z_sub : forall st op d a v f, zslot C st a = Some f ->
  hstep_z st (ZHSub op d a v) = zfinish C d (zsubset_top C cget cadd (FUELZ st) (hz_s C st) (hz_c C st) op f v).
Proof. intros st op d a v f Ef. simpl. rewrite Ef. reflexivity. Qed.

Theorem hstep_z_set : forall st op d a b f g, zslot C st a = Some f -> zslot C st b = Some g ->
  hstep_z st (ZHSet op d a b) = zfinish C d (zapply gt C cget cadd (FUELZ st) (hz_s C st) (hz_c C st) op f g).
Proof. intros st op d a b f g Ef Eg. simpl. rewrite Ef, Eg. reflexivity. Qed.

Theorem hstep_z_make_node : forall st d var hi lo v h l,
  zslot C st var = Some v -> zslot C st hi = Some h -> zslot C st lo = Some l ->
  hstep_z st (ZHMakeNode d var hi lo) = zfinish0 C (hz_c C st) d (zmake_node (hz_s C st) v h l).
Proof. intros st d var hi lo v h l Ev Eh El. simpl. rewrite Ev, Eh, El. reflexivity. Qed.

(** [add_vars] is the model of C09; the apply cache is kept *)
Theorem hstep_z_add_vars : forall st k,
  hstep_z st (ZHAddVars k) =
  match zadd_vars (hz_s C st) k with
  | Some (s', _) => Some (mkHZ C s' (hz_c C st))
  | None => None
  end.
Proof. reflexivity. Qed.

(** a reordering that does anything is the model of C08 on the current table *)
Theorem hstep_z_reorder : forall st order st', hstep_z st (ZHSetVarOrder order) = Some st' ->
  st' = st \/ st' = mkHZ C (set_var_order_model_z (hz_s C st) order) cempty.
Proof.
  intros st order st' E. simpl in E.
  destruct (Nat.leb (length order) 1); [inversion E; left; reflexivity|].
  destruct (order_ok_b (nlevels (hz_s C st)) order); [|discriminate].
  destruct (nat_list_eqb _ _); inversion E; [left | right]; reflexivity.
Qed.

(** garbage collection yields the reachable part of the table whose roots are
    the handles and the manager's chain edges *)
Theorem hstep_z_gc : forall st, WF (hz_s C st) ->
  (forall l t, ztaut (hz_s C st) l = Some t -> ref_ok (hz_s C st) t) ->
  exists sg, hstep_z st ZHGc = Some (mkHZ C (set_handles sg (s_handles (hz_s C st))) cempty) /\
             collected (with_chain (hz_s C st)) sg.
Proof.
  intros st H Hch. exists (gc_model (with_chain (hz_s C st))). split; [reflexivity|].
  apply gc_model_collected. unfold with_chain. apply ConfigInsert.wf_set_handles; [exact H|].
  intros h Hin. apply in_app_iff in Hin. destruct Hin as [Hin|Hin]; [apply (wf_handles _ H h Hin)|].
  destruct (zchain_roots_In _ h Hin) as (l & t & _ & Et & ->). simpl. split; [apply (Hch l t Et) | reflexivity].
Qed.

End TieZ.

(** ** The model's [pre_reorder_mut] finds the chain *)

Lemma ztaut_build_id : forall cnt s e acc, cnt <= nlevels s ->
  ztaut_up s (nlevels s - cnt) = Some e -> ztaut_up s (nlevels s) <> None ->
  fst (ztaut_build cnt s e acc) = s.
Proof.
  induction cnt as [|c IH]; intros s e acc Hc Ee Hn; [reflexivity|].
  simpl ztaut_build.
  pose proof (ztaut_up_total s (nlevels s) (nlevels s - c) Hn ltac:(lia)) as Hnext.
  replace (nlevels s - c) with (S (nlevels s - S c)) in Hnext by lia.
  simpl ztaut_up in Hnext. rewrite Ee in Hnext.
  replace (nlevels s - S (nlevels s - S c)) with c in Hnext by lia.
  unfold zlookup in Hnext. unfold get_or_insert.
  destruct (find_dup s c [E e; E e]) as [id|] eqn:Ed; [|exfalso; apply Hnext; reflexivity].
  simpl eref. apply (IH s (RN id) (RN id :: acc)); [lia | | exact Hn].
  replace (nlevels s - c) with (S (nlevels s - S c)) by lia.
  simpl ztaut_up. rewrite Ee. replace (nlevels s - S (nlevels s - S c)) with c by lia.
  unfold zlookup. rewrite Ed. reflexivity.
Qed.

(** with a complete chain [post_reorder_mut] creates nothing *)
Theorem zchain_rebuild_same : forall s, ZbddOK s -> ZChainOK s -> zchain_rebuild s = s.
Proof.
  intros s B Hc. destruct (zbase_spec s B) as [tb [Eb _]].
  unfold zchain_rebuild, ztaut_chain. rewrite Eb.
  destruct (ztaut_build (nlevels s) s (RT tb) [RT tb]) as [s' ch] eqn:Ez.
  change s' with (fst (s', ch)). rewrite <- Ez. apply ztaut_build_id; [apply le_n | |].
  - rewrite Nat.sub_diag. simpl. exact Eb.
  - unfold ZChainOK, zchain_ok_b, ztaut in Hc. rewrite Nat.sub_0_r in Hc.
    destruct (ztaut_up s (nlevels s)); [discriminate | discriminate].
Qed.

Theorem zchain_ids_found : forall s, ZbddOK s -> ZChainOK s ->
  exists ids, zchain_ids s = Some ids /\ length ids = nlevels s.
Proof.
  intros s B Hc. destruct (zchain_rebuild_found s B) as [ids [E L]].
  rewrite (zchain_rebuild_same s B Hc) in E. exists ids. auto.
Qed.
