(** * STOREREF — the node store of the index-based manager as ONE state machine:
      slot allocator (Mgr/Alloc.v) x node payloads / reference counts x handle variables
      (executable definitions only, no proofs)

    Mirrors the store layer of /repo/crates/oxidd-manager-index/src/manager.rs and
    src/node/fixed_arity.rs (`NodeBase`):

      [istate]         the allocator state [i_al] (Alloc.v: `SharedStoreState`, the slot array,
                       the threads' `LocalStoreState`), the contents of the slots that hold a
                       node [i_nodes]: slot ID -> (payload, STORED reference count: the `rc`
                       field of `NodeWithLevel`, i.e. the unique table's own edge is counted),
                       the edge values that exist [i_hs] (handle variable -> slot ID, as in
                       Tbl/RcStore.v: every `Edge` that was obtained from `add_node` /
                       `clone_edge` and not yet given back is one variable) and where an edge
                       value sits [i_own]: variable -> node whose `children` array holds it;
                       variables without an entry are held by a client (a thread's local
                       variable, a `Function`, the unique table's entry)
      [istep (IAdd t h h2 p cs)]
                       `Store::add_node(node)` by thread [t]: the caller built `node` with
                       `InnerNode::new(level, children)` = payload [p] + the edges [cs], which
                       are MOVED into the node (their counts do not change), rc = 2
                       (`debug_assert_eq!(node.load_rc(Relaxed), 2)`); the slot comes from
                       Alloc's [add_node]; `Ok([Edge(id), Edge(id)])` = the variables [h], [h2].
                       `Err(OutOfMemory)`: `node.drop_with(|e| self.drop_edge(e))` = every
                       child edge is released ([release_all])
      [istep (IRetain h h2)]
                       `Store::clone_edge` = `NodeBase::retain` (`fetch_add(1)`); the edge may
                       be a borrowed child edge of a node
      [istep (IRelease h)] / [release1]
                       `Store::drop_edge` = `NodeBase::release` (`fetch_sub(1)`).  The code
                       ASSUMES that the edge is not the last one (`debug_assert!(_old_rc > 1)`;
                       "In release builds, this function will simply leak the node"): the slot
                       is NOT freed whatever the count becomes.  The model does the same and
                       reports [leak = true] when the old count was <= 1
      [istep (IRemove t h)]
                       one iteration of `retain` in `LevelViewSet::gc` (also the tail of
                       `Manager::try_remove_node` after its own `release`): [h] is the unique
                       table's edge; `load_rc(Acquire) != 1`: the entry is kept, nothing
                       happens; `== 1`: `mem::forget(edge)`, `Store::free_slot` by thread [t]:
                       `ManuallyDrop::take(&mut slot.node).drop_with(|e| drop_edge(e))` (the
                       node leaves the slot, its child edges are released in order) and the
                       slot goes to the allocator (Alloc's [free_slot])
      [istep (IGet h)] `inner_node(edge)` + `load_rc`: payload and stored count
      [istep (IInternal a)]
                       every other action of Alloc.v (prepare / guard drop / worker binding /
                       use of the thread-local state for another store / collector epilogue /
                       a new thread): the nodes are not touched

    One [iop] is one atomic action in the sense of Alloc.v and Conc.v (critical section of
    `Store::state`, atomic read-modify-write of one counter, or an action under the level
    mutex); a run is ANY list of operations of any threads ([irun]).

    Not modelled: the contents of a payload beyond its child edges, tags, terminals (the
    `id < TERMINALS` branches of `drop_edge` / `clone_edge`), counter overflow (`abort`),
    memory ordering. *)

From Coq Require Import List NArith ZArith PArith Bool Arith FMapPositive.
From OxiVerif Require Import Mgr.Alloc Tbl.RcStore.
Import ListNotations.
Local Open Scope N_scope.

(** ** state *)

Definition nmap := PositiveMap.t (N * N).
Definition nget (m : nmap) (id : N) : option (N * N) := PositiveMap.find (key id) m.
Definition nset (m : nmap) (id : N) (v : N * N) : nmap := PositiveMap.add (key id) v m.
Definition ndel (m : nmap) (id : N) : nmap := PositiveMap.remove (key id) m.

Record istate := mkI {
  i_al : st;                     (* the slot allocator *)
  i_nodes : nmap;                (* slot ID -> (payload, stored count) *)
  i_hs : list (nat * N);         (* edge values: handle variable -> slot ID *)
  i_own : list (nat * N)         (* handle variable -> the node whose children array holds it *)
}.

Definition iinit (c : cfg) (n : nat) : istate := mkI (init c n) (PositiveMap.empty (N * N)) [] [].

Inductive iop :=
| IAdd (t h h2 : nat) (p : N) (cs : list nat)
| IRetain (h h2 : nat)
| IRelease (h : nat)
| IRemove (t h : nat)
| IGet (h : nat)
| IInternal (a : act).

Inductive ires :=
| IRAdded (id : N) (pa : path)                (* `Ok([Edge(id), Edge(id)])` *)
| IROom (leak : bool)                         (* `Err(OutOfMemory)`, children released *)
| IRCount (rc : N)                            (* the count after `retain` *)
| IRReleased (leak : bool)
| IRRemoved (p : N) (kids : list nat) (leak : bool)   (* payload left the store, child edges released *)
| IRKept (rc : N)                             (* `load_rc != 1`: entry kept *)
| IRVal (p rc : N)
| IRObs (o : obs).

(** some `drop_edge` of the operation met the last reference (outside the code's assumption) *)
Definition leaked (r : ires) : bool :=
  match r with
  | IROom lk | IRReleased lk | IRRemoved _ _ lk => lk
  | _ => false
  end.

Definition bound (hs : list (nat * N)) (h : nat) : bool :=
  match afind h hs with Some _ => true | None => false end.

(** an edge value held by a client (not inside a node) *)
Definition client_h (s : istate) (h : nat) : bool := bound (i_hs s) h && negb (bound (i_own s) h).

Fixpoint nodup_nat (l : list nat) : bool :=
  match l with [] => true | x :: r => negb (existsb (Nat.eqb x) r) && nodup_nat r end.

(** the child edges of node [id], in the order in which they were moved into it *)
Definition kids_of (id : N) (own : list (nat * N)) : list nat :=
  map fst (filter (fun e => snd e =? id) own).

(** `Store::drop_edge` of the edge value [c]: `fetch_sub(1)`, the variable is gone; the slot
    keeps its node whatever the count is.  [None]: [c] is no edge or points to no node *)
Definition release1 (s : istate) (c : nat) : option (istate * bool) :=
  match afind c (i_hs s) with
  | Some id =>
    match nget (i_nodes s) id with
    | Some (p, rc) =>
      Some (mkI (i_al s) (nset (i_nodes s) id (p, rc - 1)) (aremove c (i_hs s)) (aremove c (i_own s)),
            rc <=? 1)
    | None => None
    end
  | None => None
  end.

(** `node.drop_with(|e| store.drop_edge(e))` *)
Fixpoint release_all (s : istate) (cs : list nat) : option (istate * bool) :=
  match cs with
  | [] => Some (s, false)
  | c :: r =>
    match release1 s c with
    | Some (s1, lk) =>
      match release_all s1 r with
      | Some (s2, lk2) => Some (s2, lk || lk2)
      | None => None
      end
    | None => None
    end
  end.

Definition internal (a : act) : bool :=
  match a with AAlloc _ | AFree _ _ => false | _ => true end.

(** ** one step.  [None]: the operation is not enabled (a variable that must be new is bound, an
    edge that must exist does not, the thread does not exist) or the allocator is stuck (excluded
    by the invariant) *)
Definition istep (c : cfg) (s : istate) (o : iop) : option (istate * ires) :=
  match o with
  | IAdd t h h2 p cs =>
    if negb (bound (i_hs s) h) && negb (bound (i_hs s) h2) && negb (Nat.eqb h h2) &&
       forallb (client_h s) cs && nodup_nat cs then
      match step c good (i_al s) (AAlloc t) with
      | Some (al', OAlloc (Some id) pa) =>
        Some (mkI al' (nset (i_nodes s) id (p, 2)) ((h2, id) :: (h, id) :: i_hs s)
                  (map (fun k => (k, id)) cs ++ i_own s),
              IRAdded id pa)
      | Some (al', OAlloc None _) =>
        match release_all (mkI al' (i_nodes s) (i_hs s) (i_own s)) cs with
        | Some (s', lk) => Some (s', IROom lk)
        | None => None
        end
      | _ => None
      end
    else None
  | IRetain h h2 =>
    match afind h (i_hs s), afind h2 (i_hs s) with
    | Some id, None =>
      match nget (i_nodes s) id with
      | Some (p, rc) =>
        Some (mkI (i_al s) (nset (i_nodes s) id (p, rc + 1)) ((h2, id) :: i_hs s) (i_own s), IRCount (rc + 1))
      | None => None
      end
    | _, _ => None
    end
  | IRelease h =>
    if client_h s h then
      match release1 s h with Some (s', lk) => Some (s', IRReleased lk) | None => None end
    else None
  | IRemove t h =>
    if client_h s h then
      match afind h (i_hs s) with
      | Some id =>
        match nget (i_nodes s) id with
        | Some (p, rc) =>
          if rc =? 1 then
            let kids := kids_of id (i_own s) in
            match release_all (mkI (i_al s) (ndel (i_nodes s) id) (aremove h (i_hs s)) (i_own s)) kids with
            | Some (s1, lk) =>
              match step c good (i_al s1) (AFree t id) with
              | Some (al', _) => Some (mkI al' (i_nodes s1) (i_hs s1) (i_own s1), IRRemoved p kids lk)
              | None => None
              end
            | None => None
            end
          else Some (s, IRKept rc)
        | None => None
        end
      | None => None
      end
    else None
  | IGet h =>
    match afind h (i_hs s) with
    | Some id => match nget (i_nodes s) id with Some (p, rc) => Some (s, IRVal p rc) | None => None end
    | None => None
    end
  | IInternal a =>
    if internal a then
      match step c good (i_al s) a with
      | Some (al', ob) => Some (mkI al' (i_nodes s) (i_hs s) (i_own s), IRObs ob)
      | None => None
      end
    else None
  end.

(** a run = any list of operations of any threads *)
Fixpoint irun (c : cfg) (s : istate) (ops : list iop) : option (istate * list ires) :=
  match ops with
  | [] => Some (s, [])
  | o :: r =>
    match istep c s o with
    | Some (s1, x) =>
      match irun c s1 r with Some (s2, xs) => Some (s2, x :: xs) | None => None end
    | None => None
    end
  end.

(** ** the abstraction to Tbl/RcStore.v: ids = slot IDs *)

Definition iabs (s : istate) : astate N := mkA (nget (i_nodes s)) (i_hs s).

(** the abstract operations one store operation stands for, and their results *)
Definition abs_ops (o : iop) (r : ires) : list aop :=
  match o, r with
  | IAdd _ h h2 p _, IRAdded _ _ => [AAdd h p; AClone h h2]
  | IAdd _ _ _ _ cs, IROom _ => map AEnd cs
  | IRetain h h2, IRCount _ => [AClone h h2]
  | IRelease h, IRReleased _ => [AEnd h]
  | IRemove _ h, IRRemoved _ kids _ => AEnd h :: map AEnd kids
  | IGet h, IRVal _ _ => [AGet h]
  | _, _ => []
  end.

Definition abs_res (o : iop) (r : ires) : list ares :=
  match o, r with
  | IAdd _ _ _ _ _, IRAdded _ _ => [ARAdded; ARCount 2]
  | IAdd _ _ _ _ cs, IROom _ => map (fun _ => ARKept) cs
  | IRetain _ _, IRCount rc => [ARCount rc]
  | IRelease _, IRReleased _ => [ARKept]
  | IRemove _ _, IRRemoved p kids _ => ARGone p :: map (fun _ => ARKept) kids
  | IGet _, IRVal p rc => [ARVal p rc]
  | _, _ => []
  end.

(** ** observers *)

(** client edges / child edges that point to [id] *)
Definition nclient (s : istate) (id : N) : nat :=
  length (filter (fun e => (snd e =? id) && negb (bound (i_own s) (fst e))) (i_hs s)).
Definition nparent (s : istate) (id : N) : nat :=
  length (filter (fun e => (snd e =? id) && bound (i_own s) (fst e)) (i_hs s)).

(** executable check of the part of the invariant that is about the nodes (small examples) *)
Definition iinv_b (c : cfg) (s : istate) : bool :=
  ainv_b c (i_al s) &&
  forallb (fun id => Bool.eqb (is_node (sget (sl (i_al s)) id))
                              (match nget (i_nodes s) id with Some _ => true | None => false end)) (ids c) &&
  forallb (fun id => match nget (i_nodes s) id with
                     | Some (_, rc) => (rc =? N.of_nat (nclient s id + nparent s id)) && (1 <=? rc)
                     | None => Nat.eqb (nclient s id + nparent s id) 0
                     end) (ids c) &&
  nodup_nat (map fst (i_hs s)) && nodup_nat (map fst (i_own s)) &&
  forallb (fun e => bound (i_hs s) (fst e) &&
                    match nget (i_nodes s) (snd e) with Some _ => true | None => false end) (i_own s).

(** ** a client with `Arc` semantics on top of the store (thread [t], no child edges): the script
    language of Tbl/RcStore.v.  [AAdd]: `add_node`, then the second edge is dropped; [AEnd]:
    `drop_edge`, unless it is the last edge: then the node is removed ([IRemove]) *)

Inductive xres := XOk (r : ares) | XRej | XOom | XBroken.

Definition fresh_h (h : nat) (hs : list (nat * N)) : nat :=
  S (fold_right (fun e a => Nat.max (fst e) a) h hs).

Definition arc_step (c : cfg) (t : nat) (s : istate) (o : aop) : istate * xres :=
  match o with
  | AAdd h p =>
    let h' := fresh_h h (i_hs s) in
    match istep c s (IAdd t h h' p []) with
    | Some (s1, IRAdded _ _) =>
      match istep c s1 (IRelease h') with
      | Some (s2, IRReleased false) => (s2, XOk ARAdded)
      | _ => (s, XBroken)
      end
    | Some (s1, IROom _) => (s1, XOom)
    | _ => (s, XRej)
    end
  | AClone h h2 =>
    match istep c s (IRetain h h2) with
    | Some (s1, IRCount rc) => (s1, XOk (ARCount rc))
    | _ => (s, XRej)
    end
  | AEnd h =>
    match istep c s (IGet h) with
    | Some (_, IRVal _ rc) =>
      if rc =? 1 then
        match istep c s (IRemove t h) with
        | Some (s1, IRRemoved p _ false) => (s1, XOk (ARGone p))
        | _ => (s, XBroken)
        end
      else
        match istep c s (IRelease h) with
        | Some (s1, IRReleased false) => (s1, XOk ARKept)
        | _ => (s, XBroken)
        end
    | _ => (s, XRej)
    end
  | AGet h =>
    match istep c s (IGet h) with
    | Some (_, IRVal p rc) => (s, XOk (ARVal p rc))
    | _ => (s, XRej)
    end
  end.

Fixpoint idx_exec (c : cfg) (t : nat) (s : istate) (ops : list aop) : list xres :=
  match ops with
  | [] => []
  | o :: r => let '(s1, x) := arc_step c t s o in x :: idx_exec c t s1 r
  end.
