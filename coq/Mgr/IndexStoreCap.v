(** * STOREREF — a script with at most as many additions as free slots never meets OutOfMemory
      (one thread, nothing parked with other threads): the hypothesis "without OutOfMemory" of
      [stores_equivalent] is implied by a count of the script. *)

From Coq Require Import List NArith ZArith PArith Bool Arith Lia FMapPositive.
From OxiVerif Require Import Mgr.Alloc Mgr.AllocBase Mgr.AllocInv Mgr.AllocStep Mgr.AllocProofs
  Tbl.RcStore Mgr.IndexStore Mgr.IndexStoreProofs Mgr.IndexStoreEquiv.
From OxiVerif Require Tbl.ArcSlab Tbl.ArcSlabRefine.
Import ListNotations.
Local Open Scope N_scope.

Fixpoint nadds (ops : list aop) : nat :=
  match ops with
  | [] => 0
  | AAdd _ _ :: r => S (nadds r)
  | _ :: r => nadds r
  end.

Lemma free_others c s t id s' o u : step c good s (AFree t id) = Some (s', o) -> u <> t ->
  nth_error (th s') u = nth_error (th s) u.
Proof.
  intros H Hu. simpl in H. destruct (nth_error (th s) t) as [l|]; [|discriminate].
  destruct (is_node (sget (sl s) id)); [|discriminate].
  unfold free_slot in H. cbn [v_ho_drift v_no_reset good] in H.
  destruct (is_this (l_cur l)).
  - destruct (- Z.of_N (chunk c) <? l_delta l - 1)%Z; inversion H; subst; simpl; apply nth_error_upd_other; auto.
  - destruct (s_free (sh s)); inversion H; subst; reflexivity.
Qed.

Lemma free_nlive c s t id s' o : AllocInv.AInv c s -> step c good s (AFree t id) = Some (s', o) ->
  nlive c s = S (nlive c s').
Proof.
  intros (fs & ls & I) H. destruct (free_shape _ _ _ _ _ _ H) as (Hn & nx & Esl).
  unfold nlive, live_slots. rewrite Esl. apply nlive_unset_node; [|exact Hn | discriminate].
  apply (w_nodes _ _ _ _ I). exact Hn.
Qed.

Lemma release1_al s h s' lk : release1 s h = Some (s', lk) -> i_al s' = i_al s.
Proof. intros H. destruct (release1_spec _ _ _ _ H) as (id & p & rc & _ & _ & -> & _). reflexivity. Qed.

(** the allocator part of one operation of the `Arc` client *)
Lemma arc_step_alloc c t s o s' x :
  XInv c t s -> others_idle_p c (i_al s) t -> arc_step c t s o = (s', x) -> x <> XOom ->
  others_idle_p c (i_al s') t /\
  (nlive c (i_al s') <= nlive c (i_al s) + match o with AAdd _ _ => 1 | _ => 0 end)%nat.
Proof.
  intros (HI & Hown & Ht) Ho H Hx. pose proof HI as (HA & _).
  assert (Hsame : others_idle_p c (i_al s) t /\ (nlive c (i_al s) <= nlive c (i_al s) + match o with AAdd _ _ => 1 | _ => 0 end)%nat)
    by (split; [exact Ho | lia]).
  destruct o as [h p|h h2|h|h]; cbn [arc_step] in H.
  - (* AAdd *)
    destruct (istep c s (IAdd t h (fresh_h h (i_hs s)) p [])) as [[s1 r]|] eqn:E; [|inversion H; subst; exact Hsame].
    destruct r; try (inversion H; subst; exact Hsame); [|inversion H; subst; congruence].
    cbn [istep] in E.
    destruct (negb (bound (i_hs s) h) && negb (bound (i_hs s) (fresh_h h (i_hs s))) && negb (h =? fresh_h h (i_hs s))%nat &&
              forallb (client_h s) [] && nodup_nat []); [|discriminate].
    destruct (step c good (i_al s) (AAlloc t)) as [[al' [| |[id0|] pa0| | |]]|] eqn:Hal; try discriminate.
    inversion E; subst s1 id pa.
    destruct (istep c _ (IRelease (fresh_h h (i_hs s)))) as [[s2 r2]|] eqn:E2; [|inversion H; subst; exact Hsame].
    destruct r2 as [| | |[|]| | | |]; try (inversion H; subst; exact Hsame). inversion H; subst s' x.
    assert (Eal : i_al s2 = al').
    { cbn [istep] in E2. destruct (client_h _ _); [|discriminate].
      destruct (release1 _ _) as [[s3 lk]|] eqn:E3; [|discriminate]. inversion E2; subst s3.
      apply release1_al in E3. exact E3. }
    rewrite Eal. split.
    + intros u l0 Hu Hl0. simpl in Hal. destruct (nth_error (th (i_al s)) t) as [l|] eqn:El; [|discriminate].
      rewrite (add_node_others _ _ _ _ _ _ u Hal Hu) in Hl0. eapply Ho; eauto.
    + rewrite (alloc_nlive _ _ _ _ _ _ HA Hal). lia.
  - (* AClone *)
    destruct (istep c s (IRetain h h2)) as [[s1 r]|] eqn:E; [|inversion H; subst; exact Hsame].
    destruct r; try (inversion H; subst; exact Hsame). inversion H; subst s' x.
    cbn [istep] in E. destruct (afind h (i_hs s)); [|discriminate]. destruct (afind h2 (i_hs s)); [discriminate|].
    destruct (nget (i_nodes s) n) as [[? ?]|]; [|discriminate]. inversion E; subst. exact Hsame.
  - (* AEnd *)
    destruct (istep c s (IGet h)) as [[s0 r0]|]; [|inversion H; subst; exact Hsame].
    destruct r0 as [? ?|?|?|?|? ? ?|?|pv rc0|?]; try (inversion H; subst; exact Hsame).
    destruct (rc0 =? 1).
    + destruct (istep c s (IRemove t h)) as [[s1 r]|] eqn:E; [|inversion H; subst; exact Hsame].
      destruct r as [| | | |p0 kids [|]| | |]; try (inversion H; subst; exact Hsame). inversion H; subst s' x.
      cbn [istep] in E. destruct (client_h s h); [|discriminate].
      destruct (afind h (i_hs s)) as [id|]; [|discriminate].
      destruct (nget (i_nodes s) id) as [[p1 rc1]|]; [|discriminate].
      destruct (rc1 =? 1); [|discriminate].
      destruct (release_all _ (kids_of id (i_own s))) as [[s2 lk]|] eqn:Erel; [|discriminate].
      destruct (step c good (i_al s2) (AFree t id)) as [[al' ob]|] eqn:Hfree; [|discriminate].
      inversion E; subst s1 p0 kids lk. cbn [i_al].
      destruct (release_all_spec _ _ _ Erel) as (_ & Ea & _). cbn [i_al] in Ea. rewrite Ea in Hfree. split.
      * intros u l0 Hu Hl0. rewrite (free_others _ _ _ _ _ _ u Hfree Hu) in Hl0. eapply Ho; eauto.
      * rewrite (free_nlive _ _ _ _ _ _ HA Hfree). lia.
    + destruct (istep c s (IRelease h)) as [[s1 r]|] eqn:E; [|inversion H; subst; exact Hsame].
      destruct r as [| | |[|]| | | |]; try (inversion H; subst; exact Hsame). inversion H; subst s' x.
      cbn [istep] in E. destruct (client_h s h); [|discriminate].
      destruct (release1 s h) as [[s3 lk]|] eqn:E3; [|discriminate]. inversion E; subst s3.
      rewrite (release1_al _ _ _ _ E3). exact Hsame.
  - (* AGet *)
    destruct (istep c s (IGet h)) as [[s0 r0]|]; [|inversion H; subst; exact Hsame].
    destruct r0; inversion H; subst; exact Hsame.
Qed.

Theorem idx_exec_no_oom c t ops : forall s,
  XInv c t s -> others_idle_p c (i_al s) t ->
  (nlive c (i_al s) + nadds ops <= N.to_nat (cap c))%nat ->
  ~ In XOom (idx_exec c t s ops).
Proof.
  induction ops as [|o ops IH]; intros s HX Ho Hn; cbn [idx_exec]; [intros []|].
  destruct (arc_step c t s o) as [s1 x] eqn:E. cbn [In]. intros [Ex|Hin].
  - (* the step itself is not OutOfMemory: the store is not full *)
    subst x. pose proof HX as (HI & Hown & Ht).
    destruct (nth_error (th (i_al s)) t) as [l|] eqn:El; [|apply nth_error_None in El; lia].
    pose proof (arc_step_spec c t s o HX) as Hspec. rewrite E in Hspec.
    destruct Hspec as (h & p & lk & -> & Hst).
    assert (Hfull : nlive c (i_al s) = N.to_nat (cap c)).
    { apply (proj1 (iadd_oom_single _ _ _ _ _ _ _ _ _ _ HI El Ho Hst)). eauto. }
    cbn [nadds] in Hn. lia.
  - pose proof (arc_step_spec c t s o HX) as Hspec. rewrite E in Hspec.
    assert (Hx : x <> XOom \/ x = XOom) by (destruct x; auto; left; discriminate).
    destruct Hx as [Hx|Hx]; [|subst x].
    + destruct (arc_step_alloc c t s o s1 x HX Ho E Hx) as [Ho1 Hn1].
      assert (HX1 : XInv c t s1).
      { destruct x; [apply Hspec | destruct Hspec as [-> _]; exact HX | congruence | contradiction]. }
      apply (IH s1 HX1 Ho1); [|exact Hin]. destruct o; cbn [nadds] in Hn; lia.
    + pose proof HX as (HI & Hown & Ht).
      destruct (nth_error (th (i_al s)) t) as [l|] eqn:El; [|apply nth_error_None in El; lia].
      destruct Hspec as (h & p & lk & -> & Hst).
      assert (Hfull : nlive c (i_al s) = N.to_nat (cap c)).
      { apply (proj1 (iadd_oom_single _ _ _ _ _ _ _ _ _ _ HI El Ho Hst)). eauto. }
      cbn [nadds] in Hn. lia.
Qed.

(** all three stores, with a hypothesis that can be read off the script: a new manager with one
    thread, at most [cap c] additions *)
Theorem stores_equivalent_new c spp ops :
  1 <= chunk c -> 1 <= term c -> (1 <= spp)%nat ->
  forallb ArcSlabRefine.item_op ops = true ->
  (nadds (map ArcSlabRefine.aop_of ops) <= N.to_nat (cap c))%nat ->
  idx_exec c 0 (iinit c 1) (map ArcSlabRefine.aop_of ops) =
    map lift (ArcSlabRefine.arc_exec spp (ArcSlab.init spp) ops) /\
  idx_exec c 0 (iinit c 1) (map ArcSlabRefine.aop_of ops) =
    map lift (ArcSlabRefine.ref_exec ArcSlabRefine.rinit (map ArcSlabRefine.aop_of ops)).
Proof.
  intros Hc Ht Hspp Hitem Hn.
  assert (HI : IInv c (iinit c 1)) by (apply iinit_inv; auto).
  apply stores_equivalent; [exact HI | reflexivity | cbn; lia | exact Hspp | exact Hitem |].
  apply idx_exec_no_oom.
  - split; [exact HI|]. split; [reflexivity | cbn; lia].
  - intros u l Hu Hl. cbn in Hl. destruct u as [|u]; [congruence|]. destruct u; discriminate.
  - assert (E : nlive c (i_al (iinit c 1)) = 0%nat); [|rewrite E; exact Hn].
    unfold nlive, live_slots. cbn [iinit i_al init sl]. induction (ids c) as [|x r IHr]; [reflexivity|].
    cbn [filter]. rewrite sget_empty. cbn [is_node]. exact IHr.
Qed.
