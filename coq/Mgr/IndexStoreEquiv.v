(** * STOREREF — the three node stores return the same results

    A client with `Arc` semantics on the index store ([arc_step] of Mgr/IndexStore.v: `add_node`
    + drop of the second edge; the last `drop` removes the node and frees the slot) runs the script
    language of Tbl/RcStore.v.  Each accepted operation is ONE abstract step ([arc_step_spec]);
    with the reference store ([ref_step] of Tbl/ArcSlabRefine.v, ids 0, 1, 2, ... never re-used)
    refining the same abstract store and [astep_id_independent] the results agree for every script
    without OutOfMemory ([index_equiv_reference]); with ARCSLAB's [arcslab_equiv_reference] the
    pointer-based manager's slab returns the same results too ([stores_equivalent]). *)

From Coq Require Import List NArith ZArith PArith Bool Arith Lia FMapPositive.
From OxiVerif Require Import Mgr.Alloc Mgr.AllocBase Mgr.AllocInv Mgr.AllocStep Mgr.AllocProofs
  Tbl.RcStore Mgr.IndexStore Mgr.IndexStoreProofs.
From OxiVerif Require Tbl.ArcSlab Tbl.ArcSlabRefine.
Import ListNotations.
Local Open Scope N_scope.

Arguments N.add : simpl never.
Arguments N.sub : simpl never.

(** ** the allocator keeps its threads *)

Lemma alloc_obs c s t s' o : step c good s (AAlloc t) = Some (s', o) ->
  (exists oid pa, o = OAlloc oid pa) /\ length (th s') = length (th s).
Proof.
  intros H. simpl in H. destruct (nth_error (th s) t) as [l|]; [|discriminate].
  unfold add_node, get_slot_from_shared in H.
  cbn [v_oom_drift v_take_all v_cap_first good negb andb orb] in H.
  split_ifs H; inversion H; subst; simpl; (split; [eauto | apply upd_length]).
Qed.

Lemma free_len c s t id s' o : step c good s (AFree t id) = Some (s', o) -> length (th s') = length (th s).
Proof.
  intros H. simpl in H. destruct (nth_error (th s) t) as [l|]; [|discriminate].
  destruct (is_node (sget (sl s) id)); [|discriminate].
  unfold free_slot in H. cbn [v_ho_drift v_no_reset good] in H.
  destruct (is_this (l_cur l)).
  - destruct (- Z.of_N (chunk c) <? l_delta l - 1)%Z; inversion H; subst; simpl; apply upd_length.
  - destruct (s_free (sh s)); inversion H; subst; reflexivity.
Qed.

Lemma free_enabled c s t id : (t < length (th s))%nat -> sget (sl s) id = SNode ->
  exists s' o, step c good s (AFree t id) = Some (s', o).
Proof.
  intros Ht Hn. simpl. destruct (nth_error (th s) t) as [l|] eqn:E; [|apply nth_error_None in E; lia].
  rewrite Hn. cbn [is_node]. destruct (free_slot c good s t l id). eauto.
Qed.

(** ** a new handle variable *)

Lemma fresh_h_spec h (hs : list (nat * N)) : fresh_h h hs <> h /\ afind (fresh_h h hs) hs = None.
Proof.
  unfold fresh_h.
  assert (Hh : (h <= fold_right (fun e a => Nat.max (fst e) a) h hs)%nat).
  { induction hs as [|e r IH]; cbn [fold_right]; lia. }
  assert (Hk : forall k, In k (map fst hs) -> (k <= fold_right (fun e a => Nat.max (fst e) a) h hs)%nat).
  { induction hs as [|e r IH]; cbn [fold_right map In]; [tauto|]. intros k [E|Hin]; [lia|].
    assert (h <= fold_right (fun e a => Nat.max (fst e) a) h r)%nat by (clear; induction r; cbn [fold_right]; lia).
    specialize (IH H k Hin). lia. }
  split; [lia|]. apply (afind_None N). intros Hin. specialize (Hk _ Hin). lia.
Qed.

Lemma runs_one (s s' : astate N) o r : aruns N N.eqb s [o] [r] s' -> astep N N.eqb s o r s'.
Proof.
  intros R. inversion R as [|? ? ? s1 ? ? ? A R1]; subst. inversion R1; subst. exact A.
Qed.

(** ** one operation of the `Arc` client *)

Definition XInv (c : cfg) (t : nat) (s : istate) : Prop :=
  IInv c s /\ i_own s = [] /\ (t < length (th (i_al s)))%nat.

(** why the client refuses an operation *)
Definition rejects (s : istate) (o : aop) : Prop :=
  match o with
  | AAdd h _ => afind h (i_hs s) <> None
  | AClone h h2 => afind h (i_hs s) = None \/ afind h2 (i_hs s) <> None
  | AEnd h | AGet h => afind h (i_hs s) = None
  end.

Lemma client_h_noown s h : i_own s = [] -> client_h s h = bound (i_hs s) h.
Proof. intros E. unfold client_h. rewrite E. cbn. apply andb_true_r. Qed.

Theorem arc_step_spec c t s o : XInv c t s ->
  match arc_step c t s o with
  | (s', XOk r) => astep N N.eqb (iabs s) o r (iabs s') /\ XInv c t s'
  | (s', XRej) => s' = s /\ rejects s o
  | (s', XOom) => exists h p lk, o = AAdd h p /\ istep c s (IAdd t h (fresh_h h (i_hs s)) p []) = Some (s', IROom lk)
  | (_, XBroken) => False
  end.
Proof.
  intros (HI & Hown & Ht). pose proof HI as (HA & HL & HR & HO).
  assert (Hlive : forall h id, afind h (i_hs s) = Some id -> exists p rc, nget (i_nodes s) id = Some (p, rc) /\ 1 <= rc).
  { intros h id Hf. destruct HR as [_ HC]. specialize (HC id). cbn [iabs a_map a_hs] in HC.
    assert (Hp : (1 <= acount N N.eqb id (i_hs s))%nat) by (apply (acount_pos N N.eqb N.eqb_eq); exists h; apply afind_In; exact Hf).
    destruct (nget (i_nodes s) id) as [[p rc]|]; [|lia]. exists p, rc. split; [reflexivity | lia]. }
  destruct o as [h p|h h2|h|h]; cbn [arc_step].
  - (* AAdd *)
    destruct (fresh_h_spec h (i_hs s)) as [Hne Hfr]. set (h' := fresh_h h (i_hs s)) in *.
    destruct (afind h (i_hs s)) as [id0|] eqn:Hf.
    + assert (E : istep c s (IAdd t h h' p []) = None).
      { cbn [istep]. unfold bound at 1. rewrite Hf. reflexivity. }
      rewrite E. split; [reflexivity|]. cbn [rejects]. congruence.
    + destruct (alloc_enabled c (i_al s) t HA Ht) as (al' & ob & Hal).
      destruct (alloc_obs _ _ _ _ _ Hal) as [(oid & pa & ->) Hlen].
      assert (E : istep c s (IAdd t h h' p []) =
                  match oid with
                  | Some id => Some (mkI al' (nset (i_nodes s) id (p, 2)) ((h', id) :: (h, id) :: i_hs s) (i_own s), IRAdded id pa)
                  | None => Some (mkI al' (i_nodes s) (i_hs s) (i_own s), IROom false)
                  end).
      { cbn [istep]. unfold bound. rewrite Hf, Hfr. destruct (Nat.eqb_spec h h') as [E|_]; [congruence|].
        cbn [negb andb forallb nodup_nat]. rewrite Hal. destruct oid; reflexivity. }
      destruct oid as [id|]; rewrite E.
      * destruct (istep_refines _ _ _ _ _ HI E eq_refl) as [I1 _].
        set (s1 := mkI al' (nset (i_nodes s) id (p, 2)) ((h', id) :: (h, id) :: i_hs s) (i_own s)) in *.
        assert (E2 : istep c s1 (IRelease h') =
                     Some (mkI al' (nset (nset (i_nodes s) id (p, 2)) id (p, 2 - 1)) ((h, id) :: i_hs s) [], IRReleased false)).
        { cbn [istep]. rewrite client_h_noown by exact Hown. unfold bound, release1, s1. cbn [i_hs i_nodes i_al i_own afind aremove].
          rewrite Nat.eqb_refl, nget_nset, N.eqb_refl.
          destruct (Nat.eqb_spec h h') as [E0|_]; [congruence|].
          rewrite (aremove_notin N h' (i_hs s)) by (apply (afind_None N); exact Hfr). rewrite Hown. reflexivity. }
        rewrite E2. destruct (istep_refines _ _ _ _ _ I1 E2 eq_refl) as [I2 _].
        destruct (alloc_fresh _ _ _ _ _ _ HI Hal) as (Hfree & _). split.
        -- cbn [astep iabs a_hs a_map i_hs i_nodes]. split; [exact Hf|]. exists id. repeat split; auto.
           intros j. rewrite !nget_nset. destruct (id =? j); reflexivity.
        -- split; [exact I2|]. split; [reflexivity|]. cbn [i_al]. lia.
      * exists h, p, false. auto.
  - (* AClone *)
    cbn [istep]. destruct (afind h (i_hs s)) as [id|] eqn:Hf; [|split; [reflexivity | left; exact Hf]].
    destruct (afind h2 (i_hs s)) eqn:Hf2; [split; [reflexivity | right; congruence]|].
    destruct (Hlive h id Hf) as (p & rc & Hn & _). rewrite Hn.
    destruct (iretain_ok c s h h2 id p rc HI Hf Hf2 Hn) as [I' A]. split; [exact A|].
    split; [exact I'|]. split; [exact Hown | exact Ht].
  - (* AEnd *)
    destruct (afind h (i_hs s)) as [id|] eqn:Hf.
    2:{ assert (E : istep c s (IGet h) = None) by (cbn [istep]; rewrite Hf; reflexivity).
        rewrite E. split; [reflexivity | exact Hf]. }
    destruct (Hlive h id Hf) as (p & rc & Hn & Hrc).
    assert (EG : istep c s (IGet h) = Some (s, IRVal p rc)) by (cbn [istep]; rewrite Hf, Hn; reflexivity).
    rewrite EG. cbv iota beta.
    assert (Hcl : client_h s h = true) by (rewrite client_h_noown by exact Hown; unfold bound; rewrite Hf; reflexivity).
    destruct (N.eqb_spec rc 1) as [->|Hne].
    + destruct (free_enabled c (i_al s) t id Ht) as (al' & ob & Hfree); [apply HL; congruence|].
      assert (E : istep c s (IRemove t h) = Some (mkI al' (ndel (i_nodes s) id) (aremove h (i_hs s)) [], IRRemoved p [] false)).
      { cbn [istep]. rewrite Hcl, Hf, Hn, Hown. cbn [N.eqb Pos.eqb kids_of filter map release_all i_al].
        rewrite Hfree. reflexivity. }
      rewrite E. destruct (istep_refines _ _ _ _ _ HI E eq_refl) as [I' R]. cbn [abs_ops abs_res map] in R.
      split; [apply runs_one; exact R|]. split; [exact I'|]. split; [reflexivity|]. cbn [i_al].
      rewrite (free_len _ _ _ _ _ _ Hfree). exact Ht.
    + assert (Hle : (rc <=? 1) = false) by (apply N.leb_gt; lia).
      assert (E : istep c s (IRelease h) =
                  Some (mkI (i_al s) (nset (i_nodes s) id (p, rc - 1)) (aremove h (i_hs s)) [], IRReleased false)).
      { cbn [istep]. rewrite Hcl. unfold release1. rewrite Hf, Hn, Hle, Hown. reflexivity. }
      rewrite E. destruct (istep_refines _ _ _ _ _ HI E eq_refl) as [I' R]. cbn [abs_ops abs_res] in R.
      split; [apply runs_one; exact R|]. split; [exact I'|]. split; [reflexivity | exact Ht].
  - (* AGet *)
    cbn [istep]. destruct (afind h (i_hs s)) as [id|] eqn:Hf; [|split; [reflexivity | exact Hf]].
    destruct (Hlive h id Hf) as (p & rc & Hn & _). rewrite Hn. split; [|split; [exact HI | split; [exact Hown | exact Ht]]].
    cbn [astep iabs a_hs a_map]. exists id, p, rc. repeat split; auto.
Qed.

(** ** the reference store accepts / refuses the same operations *)

Import ArcSlabRefine.

Lemma ref_enabled_N (s1 s1' : astate N) r ao res :
  sim N N s1 (rabs r) -> astep N N.eqb s1 ao res s1' -> exists r' res2, ref_step r ao = Some (r', res2).
Proof.
  intros Hsim Hst. pose proof Hsim as (Hk & Hv & _).
  assert (Hb : forall h id1, afind h (a_hs s1) = Some id1 -> exists id2, afind h (r_hs r) = Some id2).
  { intros h id1 Hf. destruct (afind h (r_hs r)) as [id2|] eqn:E; [eauto|].
    apply (sim_bound N N s1 (rabs r) h Hsim) in E. congruence. }
  destruct ao as [h p|h h2|h|h]; cbn [astep] in Hst; cbn [ref_step].
  - destruct Hst as (Hf & _). apply (sim_bound N N s1 (rabs r) h Hsim) in Hf. cbn [rabs a_hs] in Hf. rewrite Hf. eauto.
  - destruct Hst as (id1 & p & rc & Hf & Hf2 & Hm & _). destruct (Hb h id1 Hf) as [id2 Hf'].
    apply (sim_bound N N s1 (rabs r) h2 Hsim) in Hf2. cbn [rabs a_hs] in Hf2. rewrite Hf', Hf2.
    pose proof (Hv h id1 id2 Hf Hf') as E. cbn [rabs a_map] in E. rewrite <- E, Hm. eauto.
  - destruct Hst as (id1 & p & rc & Hf & Hm & _). destruct (Hb h id1 Hf) as [id2 Hf']. rewrite Hf'.
    pose proof (Hv h id1 id2 Hf Hf') as E. cbn [rabs a_map] in E. rewrite <- E, Hm. destruct (rc =? 1); eauto.
  - destruct Hst as (id1 & p & rc & Hf & Hm & _). destruct (Hb h id1 Hf) as [id2 Hf']. rewrite Hf'.
    pose proof (Hv h id1 id2 Hf Hf') as E. cbn [rabs a_map] in E. rewrite <- E, Hm. eauto.
Qed.

Lemma ref_rejects_N s r o : sim N N (iabs s) (rabs r) -> rejects s o -> ref_step r o = None.
Proof.
  intros Hsim Hrej.
  assert (Hn : forall h, afind h (i_hs s) = None <-> afind h (r_hs r) = None).
  { intros h. apply (sim_bound N N (iabs s) (rabs r) h Hsim). }
  destruct o as [h p|h h2|h|h]; cbn [rejects] in Hrej; cbn [ref_step].
  - destruct (afind h (r_hs r)) eqn:E; [reflexivity|]. apply Hn in E. contradiction.
  - destruct Hrej as [Hrej|Hrej].
    + apply Hn in Hrej. rewrite Hrej. reflexivity.
    + destruct (afind h (r_hs r)); [|reflexivity]. destruct (afind h2 (r_hs r)) eqn:E; [reflexivity|].
      apply Hn in E. contradiction.
  - apply Hn in Hrej. rewrite Hrej. reflexivity.
  - apply Hn in Hrej. rewrite Hrej. reflexivity.
Qed.

Definition lift (x : option ares) : xres := match x with Some r => XOk r | None => XRej end.

(** ** the index store and the reference store: same results, rejected operations included *)
Lemma idx_equiv_from c t ops : forall s r,
  XInv c t s -> RInv r -> RcStore.AInv N N.eqb (rabs r) -> sim N N (iabs s) (rabs r) ->
  ~ In XOom (idx_exec c t s ops) ->
  idx_exec c t s ops = map lift (ref_exec r ops).
Proof.
  induction ops as [|o ops IH]; intros s r HX HRI HRA Hsim Hoom; [reflexivity|].
  cbn [idx_exec ref_exec] in *. pose proof (arc_step_spec c t s o HX) as Hspec.
  destruct (arc_step c t s o) as [s1 x]. destruct x as [r0| | |].
  - destruct Hspec as [Hst HX1].
    destruct (ref_enabled_N _ _ r _ _ Hsim Hst) as (r' & res2 & Hrs). rewrite Hrs.
    destruct (ref_refines r _ r' res2 HRI Hrs) as [Hrst HRI'].
    destruct HX as (HI & _).
    destruct (astep_id_independent N N N.eqb N.eqb N.eqb_eq N.eqb_eq _ _ _ _ _ _ _
                (proj1 (proj2 (proj2 HI))) HRA Hsim Hst Hrst) as [Eres Hsim'].
    subst res2. cbn [map lift]. f_equal.
    apply IH; auto.
    + eapply astep_inv; [exact N.eqb_eq | exact HRA | exact Hrst].
    + intro Hin. apply Hoom. right. exact Hin.
  - destruct Hspec as [-> Hrej]. rewrite (ref_rejects_N s r o Hsim Hrej). cbn [map lift]. f_equal.
    apply IH; auto. intro Hin. apply Hoom. right. exact Hin.
  - exfalso. apply Hoom. left. reflexivity.
  - contradiction.
Qed.

(** from ANY state of the index store without edges (after any allocator-internal prefix: prepared
    or bound threads, other threads' parked slots, re-used slots), any thread [t] *)
Theorem index_equiv_reference c t s ops :
  IInv c s -> i_hs s = [] -> (t < length (th (i_al s)))%nat ->
  ~ In XOom (idx_exec c t s ops) ->
  idx_exec c t s ops = map lift (ref_exec rinit ops).
Proof.
  intros HI Hhs Ht Hoom.
  assert (Hown : i_own s = []).
  { destruct HI as (_ & _ & _ & _ & HO). destruct (i_own s) as [|[k pid] r]; [reflexivity|].
    destruct (HO k pid (or_introl eq_refl)) as [B _]. rewrite Hhs in B. cbn in B. congruence. }
  apply idx_equiv_from; auto.
  - split; [exact HI | auto].
  - apply rinit_inv.
  - apply rinit_inv.
  - split; [cbn [iabs a_hs rabs rinit r_hs]; rewrite Hhs; reflexivity|].
    split; [intros h id1 id2 H; cbn [iabs a_hs] in H; rewrite Hhs in H; discriminate H|].
    intros h h' a a' b b' H; cbn [iabs a_hs] in H; rewrite Hhs in H; discriminate H.
Qed.

(** ** all three stores *)
Theorem stores_equivalent c t s spp ops :
  IInv c s -> i_hs s = [] -> (t < length (th (i_al s)))%nat -> (1 <= spp)%nat ->
  forallb item_op ops = true ->
  ~ In XOom (idx_exec c t s (map aop_of ops)) ->
  idx_exec c t s (map aop_of ops) = map lift (arc_exec spp (ArcSlab.init spp) ops) /\
  idx_exec c t s (map aop_of ops) = map lift (ref_exec rinit (map aop_of ops)).
Proof.
  intros HI Hhs Ht Hspp Hitem Hoom.
  rewrite (arcslab_equiv_reference spp Hspp ops Hitem).
  split; apply index_equiv_reference; auto.
Qed.

(** OutOfMemory of the `Arc` client: only [AAdd], and with nothing parked in other threads exactly
    when all [cap c] slots hold a node *)
Theorem arc_step_oom_single c t s o l s' :
  XInv c t s -> nth_error (th (i_al s)) t = Some l -> others_idle_p c (i_al s) t ->
  (exists h p, o = AAdd h p /\ afind h (i_hs s) = None) ->
  (arc_step c t s o = (s', XOom) -> nlive c (i_al s) = N.to_nat (cap c)) /\
  (nlive c (i_al s) = N.to_nat (cap c) -> snd (arc_step c t s o) = XOom).
Proof.
  intros HX Hl Ho (h & p & -> & Hf). pose proof HX as (HI & Hown & Ht). split.
  - intros E. pose proof (arc_step_spec c t s (AAdd h p) HX) as Hspec. rewrite E in Hspec.
    destruct Hspec as (h0 & p0 & lk & E0 & Hst). inversion E0; subst h0 p0.
    apply (proj1 (iadd_oom_single _ _ _ _ _ _ _ _ _ _ HI Hl Ho Hst)). eauto.
  - intros Hfull. cbn [arc_step]. destruct (fresh_h_spec h (i_hs s)) as [Hne Hfr].
    destruct (istep c s (IAdd t h (fresh_h h (i_hs s)) p [])) as [[s1 r]|] eqn:E.
    + destruct (iadd_full_oom _ _ _ _ _ _ _ _ _ HI E Hfull) as [lk ->]. reflexivity.
    + exfalso. cbn [istep] in E. unfold bound in E. rewrite Hf, Hfr in E.
      destruct (Nat.eqb_spec h (fresh_h h (i_hs s))) as [E0|_]; [congruence|]. cbn [negb andb forallb nodup_nat] in E.
      destruct HI as (HA & _). destruct (alloc_enabled c (i_al s) t HA Ht) as (al' & ob & Hal).
      destruct (alloc_obs _ _ _ _ _ Hal) as [(oid & pa & ->) _]. rewrite Hal in E. destruct oid; discriminate.
Qed.
