(** * STOREREF — concrete runs of the index store model: the hypotheses of the theorems of
      Mgr/IndexStoreProofs.v / IndexStoreEquiv.v are satisfiable (capacity 6, chunk size 2, 2
      terminals: slot IDs 2..7; 2-3 threads) *)

From Coq Require Import List NArith ZArith PArith Bool Arith Lia.
From OxiVerif Require Import Mgr.Alloc Mgr.AllocBase Mgr.AllocInv Mgr.AllocStep Mgr.AllocProofs Mgr.AllocExamples
  Tbl.RcStore Mgr.IndexStore Mgr.IndexStoreProofs Mgr.IndexStoreEquiv.
From OxiVerif Require Tbl.ArcSlab Tbl.ArcSlabRefine Tbl.ArcSlabExamples.
Import ListNotations.
Local Open Scope N_scope.

(** thread 0 holds the guard (chunk pre-allocation, range, local list, hand-over of its list after
    two frees, guard drop), thread 1 is a bound worker; nodes with child edges (node 4 holds the
    edges 1 and 3, node 6 the edge 4), a borrowed clone, a removal that releases the children, a
    kept entry, re-use of the freed slots by the other thread, a full store: OutOfMemory releases
    the child edge *)
Definition ex_ops : list iop :=
  [IInternal (APrepare 0); IAdd 0 0 1 10 []; IAdd 0 2 3 11 []; IRetain 0 4; IAdd 0 5 6 12 [1; 3]%nat;
   IInternal (ABind 1); IAdd 1 7 8 13 [4%nat]; IGet 0; IRelease 0; IRelease 5; IRemove 0 6; IRemove 0 2;
   IRemove 1 7; IAdd 1 9 10 14 []; IAdd 1 11 12 15 [8%nat]; IInternal (ADropGuard 0); IAdd 1 13 14 16 [];
   IAdd 1 15 16 17 []; IAdd 1 17 18 18 [10%nat]; IGet 7; IInternal (AGcFlush 1)].

Definition ex_results : list ires :=
  [IRObs (OPrep true); IRAdded 2 PSharedChunk; IRAdded 3 PLocalRange; IRCount 3; IRAdded 4 PSharedChunk;
   IRObs OUnit; IRAdded 6 PSharedBump; IRVal 10 3; IRReleased false; IRReleased false;
   IRRemoved 12 [1; 3]%nat false; IRRemoved 11 [] false; IRKept 2; IRAdded 3 PSharedList; IRAdded 4 PSharedList;
   IRObs (ODrop true 5); IRAdded 5 PSharedList; IRAdded 7 PSharedBump; IROom false; IRVal 13 2;
   IRObs (OFlush 0)].

Theorem ex_run :
  exists s, irun ex_cfg (iinit ex_cfg 2) ex_ops = Some (s, ex_results) /\
    no_leak ex_results = true /\ ireachable ex_cfg s /\ IInv ex_cfg s /\ iinv_b ex_cfg s = true /\
    i_hs s = [(16%nat, 7); (15%nat, 7); (14%nat, 5); (13%nat, 5); (12%nat, 4); (11%nat, 4); (9%nat, 3); (8%nat, 6); (7%nat, 6); (4%nat, 2)] /\
    i_own s = [(8%nat, 4); (4%nat, 6)] /\
    map (nget (i_nodes s)) [2; 3; 4; 5; 6; 7] =
      [Some (10, 1); Some (14, 1); Some (15, 2); Some (16, 2); Some (13, 2); Some (17, 2)] /\
    live_slots ex_cfg (i_al s) = [2; 3; 4; 5; 6; 7] /\
    flat_ops ex_ops ex_results =
      [AAdd 0 10; AClone 0 1; AAdd 2 11; AClone 2 3; AClone 0 4; AAdd 5 12; AClone 5 6; AAdd 7 13; AClone 7 8;
       AGet 0; AEnd 0; AEnd 5; AEnd 6; AEnd 1; AEnd 3; AEnd 2; AAdd 9 14; AClone 9 10; AAdd 11 15; AClone 11 12;
       AAdd 13 16; AClone 13 14; AAdd 15 17; AClone 15 16; AEnd 10; AGet 7].
Proof.
  destruct (irun ex_cfg (iinit ex_cfg 2) ex_ops) as [[s rs]|] eqn:E; [|vm_compute in E; discriminate].
  assert (Ers : rs = ex_results) by (vm_compute in E; inversion E; reflexivity). subst rs.
  assert (Hnl : no_leak ex_results = true) by reflexivity.
  assert (Hre : ireachable ex_cfg s).
  { exists 2%nat, ex_ops, ex_results. destruct ex_cfg_ok. auto. }
  exists s. split; [reflexivity|]. split; [exact Hnl|]. split; [exact Hre|]. split; [apply ireachable_inv; exact Hre|].
  vm_compute in E. inversion E; subst s. repeat split; vm_compute; reflexivity.
Qed.

(** OutOfMemory with free slots parked in other threads: thread 0 (guard) and thread 1 (worker) hold
    the rest of their chunks (slots 3 and 5), thread 2 (no local state for this store) gets the
    last two slots and then OutOfMemory with 4 of 6 slots in use; the child edge 0 is released *)
Definition ex_parked : list iop :=
  [IInternal (APrepare 0); IAdd 0 0 1 1 []; IInternal (ABind 1); IAdd 1 2 3 2 []; IInternal ASpawn;
   IAdd 2 4 5 3 []; IAdd 2 6 7 4 []].

Theorem ex_parked_oom :
  exists s rs s', irun ex_cfg (iinit ex_cfg 2) ex_parked = Some (s, rs) /\ IInv ex_cfg s /\
    istep ex_cfg s (IAdd 2 8 9 5 [0%nat]) = Some (s', IROom false) /\
    live_slots ex_cfg (i_al s) = [2; 4; 6; 7] /\
    thread_slots ex_cfg (i_al s) 0 = [3] /\ thread_slots ex_cfg (i_al s) 1 = [5] /\
    nget (i_nodes s) 2 = Some (1, 2) /\ nget (i_nodes s') 2 = Some (1, 1) /\ afind 0%nat (i_hs s') = None /\
    (* the last edge of node 2: a `drop_edge` outside the code's assumption leaks the node *)
    (exists s'', istep ex_cfg s' (IRelease 1) = Some (s'', IRReleased true) /\
                 nget (i_nodes s'') 2 = Some (1, 0) /\ sget (sl (i_al s'')) 2 = SNode /\ i_hs s'' <> [] /\
                 afind 1%nat (i_hs s'') = None).
Proof.
  destruct (irun ex_cfg (iinit ex_cfg 2) ex_parked) as [[s rs]|] eqn:E; [|vm_compute in E; discriminate].
  assert (HI : IInv ex_cfg s).
  { destruct ex_cfg_ok. eapply irun_refines; [apply iinit_inv; auto | exact E|]. vm_compute in E. inversion E; subst. reflexivity. }
  destruct (istep ex_cfg s (IAdd 2 8 9 5 [0%nat])) as [[s' r]|] eqn:E1; [|vm_compute in E; inversion E; subst; vm_compute in E1; discriminate].
  exists s, rs, s'. split; [reflexivity|]. split; [exact HI|].
  vm_compute in E. inversion E; subst s rs. vm_compute in E1. inversion E1; subst s' r.
  repeat split; try (vm_compute; reflexivity).
  eexists. repeat split; try (vm_compute; reflexivity); vm_compute; discriminate.
Qed.

(** the three stores on ARCSLAB's example script (rejected operations included); eight additions
    on six slots: OutOfMemory exactly from the seventh on *)
Theorem ex_equiv :
  let ops := ArcSlabExamples.ex_item_ops in
  forallb ArcSlabRefine.item_op ops = true /\
  ~ In XOom (idx_exec ex_cfg 0 (iinit ex_cfg 1) (map ArcSlabRefine.aop_of ops)) /\
  idx_exec ex_cfg 0 (iinit ex_cfg 1) (map ArcSlabRefine.aop_of ops) =
    map lift (ArcSlabRefine.arc_exec 3 (ArcSlab.init 3) ops) /\
  idx_exec ex_cfg 0 (iinit ex_cfg 1) (map ArcSlabRefine.aop_of ops) =
    [XOk ARAdded; XOk ARAdded; XOk (ARCount 2); XOk ARKept; XOk (ARVal 1 1); XOk (ARGone 1);
     XOk ARAdded; XOk (ARGone 2); XRej; XRej] /\
  idx_exec ex_cfg 0 (iinit ex_cfg 1) (map (fun k => AAdd k 1) (seq 0 8)) =
    [XOk ARAdded; XOk ARAdded; XOk ARAdded; XOk ARAdded; XOk ARAdded; XOk ARAdded; XOom; XOom].
Proof.
  cbv zeta. split; [reflexivity|].
  assert (E : idx_exec ex_cfg 0 (iinit ex_cfg 1) (map ArcSlabRefine.aop_of ArcSlabExamples.ex_item_ops) =
              [XOk ARAdded; XOk ARAdded; XOk (ARCount 2); XOk ARKept; XOk (ARVal 1 1); XOk (ARGone 1);
               XOk ARAdded; XOk (ARGone 2); XRej; XRej]) by (vm_compute; reflexivity).
  split; [rewrite E; intros H; repeat (destruct H as [H|H]; [discriminate H|]); exact H|].
  split; [|split; [exact E | vm_compute; reflexivity]].
  destruct ex_cfg_ok as [Hc1 Hc2].
  apply (stores_equivalent ex_cfg 0 (iinit ex_cfg 1) 3 ArcSlabExamples.ex_item_ops).
  - apply iinit_inv; auto.
  - reflexivity.
  - cbn. lia.
  - lia.
  - reflexivity.
  - rewrite E. intros Hin. repeat (destruct Hin as [Hin|Hin]; [discriminate Hin|]). exact Hin.
Qed.
