(** * STOREREF — the node store of the index-based manager (Mgr/IndexStore.v = slot allocator of
      Mgr/Alloc.v + payloads / counts + edge values) refines the abstract reference-counted store
      of Tbl/RcStore.v, exactly as the pointer-based manager's slab does (Tbl/ArcSlabRefine.v).

    Abstraction [iabs]: ids = slot IDs, map = the (payload, stored count) of the slots that hold a
    node, handle variables = the edge values.  Invariant [IInv]: Alloc's invariant, "a slot holds a
    node in the allocator iff it has a payload" ([Link]), the counting invariant of the abstract
    store (stored count = number of edge values, never 0), and every child edge is an edge value
    whose holder is a live node ([OwnOK]).

    [istep_refines]: every operation that stays inside the code's assumption (no `drop_edge` of a
    last reference: [leaked r = false]) keeps [IInv] and IS the abstract script [abs_ops] with the
    results [abs_res] (one step for retain / release / get, two for `add_node` (new entry + second
    edge), 1 + #children for a removal, the children's releases for a failed `add_node`, none for
    allocator-internal actions and a kept entry).  Out of memory: [iadd_oom_cases] /
    [iadd_full_oom] / [iadd_capacity]. *)

From Coq Require Import List NArith ZArith PArith Bool Arith Lia FMapPositive Permutation.
From OxiVerif Require Import Mgr.Alloc Mgr.AllocBase Mgr.AllocInv Mgr.AllocStep Mgr.AllocProofs
  Tbl.RcStore Mgr.IndexStore.
Import ListNotations.
Local Open Scope N_scope.

Arguments N.add : simpl never.
Arguments N.sub : simpl never.

Notation AlInv := AllocInv.AInv.
Notation RcInv := (RcStore.AInv N N.eqb).
Notation rstep := (RcStore.astep N N.eqb).
Notation rruns := (RcStore.aruns N N.eqb).

(** ** the node map *)

Lemma nget_nset m id v j : nget (nset m id v) j = if id =? j then Some v else nget m j.
Proof.
  unfold nget, nset. destruct (N.eqb_spec id j) as [->|Hne]; [apply PositiveMap.gss|].
  apply PositiveMap.gso. intro E. apply key_inj in E. congruence.
Qed.

Lemma nget_ndel m id j : nget (ndel m id) j = if id =? j then None else nget m j.
Proof.
  unfold nget, ndel. destruct (N.eqb_spec id j) as [->|Hne]; [apply PositiveMap.grs|].
  apply PositiveMap.gro. intro E. apply key_inj in E. congruence.
Qed.

Lemma nget_empty id : nget (PositiveMap.empty (N * N)) id = None.
Proof. apply PositiveMap.gempty. Qed.

Lemma nset_live_dom m id v0 v j :
  nget m id = Some v0 -> (nget (nset m id v) j <> None <-> nget m j <> None).
Proof.
  intros H. rewrite nget_nset. destruct (N.eqb_spec id j) as [->|Hne]; [|tauto].
  rewrite H. split; discriminate.
Qed.

(** ** handle lists *)

Lemma bound_false hs h : bound hs h = false <-> afind h hs = None.
Proof. unfold bound. destruct (afind h hs); split; congruence. Qed.

Lemma bound_true hs h : bound hs h = true <-> afind h hs <> None.
Proof. unfold bound. destruct (afind h hs); split; congruence. Qed.

Lemma afind_cons_some k e (hs : list (nat * N)) : afind k hs <> None -> afind k (e :: hs) <> None.
Proof. destruct e as [k0 v]. cbn [afind]. destruct (k0 =? k)%nat; [discriminate | auto]. Qed.

Lemma In_afind_some k v (hs : list (nat * N)) : In (k, v) hs -> afind k hs <> None.
Proof.
  intros H E. apply (afind_None N) in E. apply E. apply in_map_iff. exists (k, v). auto.
Qed.

Lemma In_aremove k v c (l : list (nat * N)) : In (k, v) (aremove c l) <-> In (k, v) l /\ k <> c.
Proof.
  induction l as [|[k0 v0] r IH]; cbn [aremove In]; [tauto|].
  destruct (Nat.eqb_spec k0 c) as [->|Hne].
  - rewrite IH. split; [tauto|]. intros [[E|H] Hk]; [inversion E; subst; contradiction | tauto].
  - cbn [In]. rewrite IH. split.
    + intros [E|[H Hk]]; [inversion E; subst; auto | tauto].
    + tauto.
Qed.

Fixpoint rm_all (cs : list nat) (l : list (nat * N)) : list (nat * N) :=
  match cs with [] => l | c :: r => rm_all r (aremove c l) end.

Lemma In_rm_all cs : forall k v l, In (k, v) (rm_all cs l) <-> In (k, v) l /\ ~ In k cs.
Proof.
  induction cs as [|c r IH]; intros k v l; cbn [rm_all In]; [tauto|].
  rewrite IH, In_aremove. split.
  - intros [[A B] C]; split; [auto | intros [E|E]; [congruence | auto]].
  - intros [A B]. split; [split; [exact A | intros E; apply B; left; congruence] | intros E; apply B; right; exact E].
Qed.

Lemma afind_rm_all cs : forall k l, ~ In k cs -> afind k (rm_all cs l) = afind k l.
Proof.
  induction cs as [|c r IH]; intros k l Hk; cbn [rm_all]; [reflexivity|].
  rewrite IH by (intro; apply Hk; right; auto). rewrite afind_aremove.
  destruct (Nat.eqb_spec c k); [exfalso; apply Hk; left; auto | reflexivity].
Qed.

Lemma rm_all_NoDup cs : forall l, NoDup (map fst l) -> NoDup (map fst (rm_all cs l)).
Proof.
  induction cs as [|c r IH]; intros l H; cbn [rm_all]; [exact H|]. apply IH. apply aremove_NoDup. exact H.
Qed.

Lemma nodup_nat_spec l : nodup_nat l = true -> NoDup l.
Proof.
  induction l as [|x r IH]; cbn [nodup_nat]; [constructor|]. intros H. apply andb_prop in H. destruct H as [A B].
  constructor; [|auto]. intro Hin. apply negb_true_iff in A.
  assert (existsb (Nat.eqb x) r = true); [|congruence]. apply existsb_exists. exists x. split; [auto | apply Nat.eqb_refl].
Qed.

Lemma NoDup_app_nat (a b : list nat) :
  NoDup a -> NoDup b -> (forall x, In x a -> ~ In x b) -> NoDup (a ++ b).
Proof.
  induction a as [|x a IH]; cbn; intros Ha Hb Hd; [exact Hb|]. inversion Ha; subst. constructor.
  - intro Hin. apply in_app_or in Hin. destruct Hin; [contradiction | apply (Hd x); auto].
  - apply IH; auto.
Qed.

Lemma In_kids_of k id own : In (k, id) own -> In k (kids_of id own).
Proof.
  intros H. unfold kids_of. apply in_map_iff. exists (k, id). split; [reflexivity|].
  apply filter_In. split; [exact H | apply N.eqb_refl].
Qed.

(** ** the invariant *)

(** a slot holds a node in the allocator iff it has a payload *)
Definition Link (s : istate) : Prop :=
  forall id, sget (sl (i_al s)) id = SNode <-> nget (i_nodes s) id <> None.

(** the child edges are edge values, each held by a live node *)
Definition OwnOK (s : istate) : Prop :=
  NoDup (map fst (i_own s)) /\
  forall k pid, In (k, pid) (i_own s) -> afind k (i_hs s) <> None /\ nget (i_nodes s) pid <> None.

Definition IInv (c : cfg) (s : istate) : Prop :=
  AlInv c (i_al s) /\ Link s /\ RcInv (iabs s) /\ OwnOK s.

Lemma iinit_inv c n : 1 <= chunk c -> 1 <= term c -> IInv c (iinit c n).
Proof.
  intros Hc Ht. split; [apply init_inv; auto|]. split; [|split].
  - intros id. cbn. rewrite sget_empty, nget_empty. split; [discriminate | congruence].
  - split; [constructor|]. intros id. cbn. rewrite nget_empty. reflexivity.
  - split; [constructor|]. intros k pid [].
Qed.

(** ** `drop_edge` *)

Lemma release1_spec s c s1 lk : release1 s c = Some (s1, lk) ->
  exists id p rc, afind c (i_hs s) = Some id /\ nget (i_nodes s) id = Some (p, rc) /\
    s1 = mkI (i_al s) (nset (i_nodes s) id (p, rc - 1)) (aremove c (i_hs s)) (aremove c (i_own s)) /\
    lk = (rc <=? 1).
Proof.
  unfold release1. destruct (afind c (i_hs s)) as [id|]; [|discriminate].
  destruct (nget (i_nodes s) id) as [[p rc]|] eqn:E; [|discriminate].
  intros H. inversion H; subst. exists id, p, rc. auto.
Qed.

(** a `drop_edge` that is not the last reference is the abstract [AEnd] with result "kept" *)
Lemma release1_astep s c s1 : release1 s c = Some (s1, false) -> rstep (iabs s) (AEnd c) ARKept (iabs s1).
Proof.
  intros H. destruct (release1_spec _ _ _ _ H) as (id & p & rc & Hf & Hn & -> & Hlk).
  symmetry in Hlk. apply N.leb_gt in Hlk.
  cbn [astep iabs a_hs a_map i_hs i_nodes]. exists id, p, rc.
  split; [exact Hf|]. split; [exact Hn|]. split; [reflexivity|]. right.
  split; [lia|]. split; [reflexivity|]. intros j. apply nget_nset.
Qed.

(** a `drop_edge` of the LAST reference: the abstract store lets the payload go, the index store
    keeps the node with count 0 in its slot for ever (the documented leak) *)
Theorem release1_leak_iff s c s1 lk : RcInv (iabs s) -> release1 s c = Some (s1, lk) ->
  (lk = true <-> exists id p, afind c (i_hs s) = Some id /\ nget (i_nodes s) id = Some (p, 1)).
Proof.
  intros [_ Hc] H. destruct (release1_spec _ _ _ _ H) as (id & p & rc & Hf & Hn & _ & ->). split.
  - intros E. apply N.leb_le in E. exists id, p. split; [exact Hf|]. rewrite Hn.
    specialize (Hc id). cbn [iabs a_map a_hs] in Hc. rewrite Hn in Hc. destruct Hc as [Hc Hp].
    repeat f_equal. lia.
  - intros (id' & p' & Hf' & Hn'). rewrite Hf in Hf'. inversion Hf'; subst id'. rewrite Hn in Hn'.
    inversion Hn'; subst. reflexivity.
Qed.

Lemma release_all_spec cs : forall s s', release_all s cs = Some (s', false) ->
  rruns (iabs s) (map AEnd cs) (map (fun _ => ARKept) cs) (iabs s') /\
  i_al s' = i_al s /\ i_hs s' = rm_all cs (i_hs s) /\ i_own s' = rm_all cs (i_own s) /\
  (forall j, nget (i_nodes s') j <> None <-> nget (i_nodes s) j <> None).
Proof.
  induction cs as [|c r IH]; intros s s' H; cbn [release_all] in H.
  - inversion H; subst. cbn. split; [constructor|]. repeat split; auto.
  - destruct (release1 s c) as [[s1 lk]|] eqn:E1; [|discriminate].
    destruct (release_all s1 r) as [[s2 lk2]|] eqn:E2; [|discriminate].
    inversion H; subst s2. apply orb_false_elim in H2. destruct H2 as [-> ->].
    destruct (IH _ _ E2) as (R & Ea & Eh & Eo & Ed).
    pose proof (release1_astep _ _ _ E1) as A1.
    destruct (release1_spec _ _ _ _ E1) as (id & p & rc & Hf & Hn & Es1 & _).
    cbn [map rm_all]. split; [econstructor; eauto|].
    rewrite Ea, Eh, Eo, Es1. cbn [i_al i_hs i_own]. repeat split; auto.
    + intros Hj. apply Ed in Hj. rewrite Es1 in Hj. cbn [i_nodes] in Hj.
      eapply nset_live_dom; eauto.
    + intros Hj. apply Ed. rewrite Es1. cbn [i_nodes]. eapply nset_live_dom; eauto.
Qed.

Lemma release_all_inv c cs s s' :
  IInv c s -> release_all s cs = Some (s', false) ->
  IInv c s' /\ rruns (iabs s) (map AEnd cs) (map (fun _ => ARKept) cs) (iabs s').
Proof.
  intros (HA & HL & HR & HO1 & HO2) H. destruct (release_all_spec _ _ _ H) as (R & Ea & Eh & Eo & Ed).
  split; [|exact R]. split; [rewrite Ea; exact HA|]. split; [|split].
  - intros id. rewrite Ea, Ed. apply HL.
  - eapply aruns_inv; [exact N.eqb_eq | exact HR | exact R].
  - split; [rewrite Eo; apply rm_all_NoDup; exact HO1|].
    intros k pid Hin. rewrite Eo in Hin. apply In_rm_all in Hin. destruct Hin as [Hin Hk].
    destruct (HO2 _ _ Hin) as [B L]. split; [rewrite Eh, afind_rm_all; auto | apply Ed; exact L].
Qed.

(** ** the allocator's slots *)

Lemma free_shape c s t id s' o : step c good s (AFree t id) = Some (s', o) ->
  sget (sl s) id = SNode /\ exists nx, sl s' = sset (sl s) id (SFree nx).
Proof.
  intros H. simpl in H. destruct (nth_error (th s) t) as [l|]; [|discriminate].
  destruct (sget (sl s) id) eqn:G; cbn [is_node] in H; try discriminate. split; [reflexivity|].
  unfold free_slot in H. cbn [v_ho_drift v_no_reset good] in H.
  destruct (is_this (l_cur l)).
  - destruct (- Z.of_N (chunk c) <? l_delta l - 1)%Z; inversion H; subst; simpl; eauto.
  - destruct (s_free (sh s)); inversion H; subst; simpl; eauto.
Qed.

(** allocator-internal actions neither create nor destroy a node *)
Lemma internal_nodes c s a s' o : AlInv c s -> internal a = true -> step c good s a = Some (s', o) ->
  forall j, sget (sl s') j = SNode <-> sget (sl s) j = SNode.
Proof.
  intros I Hint H j. split.
  - intros Hj. destruct a; simpl in H; try discriminate Hint.
    + inversion H; subst. exact Hj.
    + destruct (nth_error (th s) t) as [l|]; [|discriminate]. unfold prepare in H.
      destruct (is_none (l_cur l)); inversion H; subst; exact Hj.
    + destruct (nth_error (th s) t) as [l|]; [|discriminate].
      destruct (l_guard l && is_this (l_cur l)); [|discriminate].
      unfold drop_guard in H. cbn [v_tail_zero good] in H.
      destruct (negb (l_next l =? 0) || in_chunk c (l_init l) || negb (l_delta l =? 0)%Z).
      * destruct (in_chunk c (l_init l)); inversion H; subst; simpl in *; [|exact Hj].
        destruct (in_dec N.eq_dec j (range_ids c (l_init l) (N.to_nat (chunk_end c (l_init l) - l_init l)))) as [Hi|Hi].
        -- destruct (link_range_in c _ (sl s) _ (l_next l) j Hi) as [nx E]. rewrite E in Hj. discriminate.
        -- rewrite link_range_other in Hj; auto.
      * inversion H; subst. exact Hj.
    + destruct (nth_error (th s) t) as [l|]; [|discriminate].
      match type of H with (if ?b then _ else _) = _ => destruct b end; inversion H; subst. exact Hj.
    + destruct (nth_error (th s) t) as [l|]; [|discriminate].
      destruct (is_none (l_cur l)); inversion H; subst. exact Hj.
    + destruct (nth_error (th s) t) as [l|]; [|discriminate].
      destruct (is_other (l_cur l)); inversion H; subst. exact Hj.
    + destruct (nth_error (th s) t) as [l|]; [|discriminate].
      destruct (is_this (l_cur l) && negb (l_guard l)); [|discriminate].
      unfold gc_flush in H. destruct (negb (l_next l =? 0)); inversion H; subst; exact Hj.
  - intros Hj. eapply step_keeps_node; eauto. intros t E. subst a. discriminate.
Qed.

(** the slot that `add_node` hands out held no payload *)
Lemma alloc_fresh c s t al' id pa :
  IInv c s -> step c good (i_al s) (AAlloc t) = Some (al', OAlloc (Some id) pa) ->
  nget (i_nodes s) id = None /\ sl al' = sset (sl (i_al s)) id SNode /\ AlInv c al'.
Proof.
  intros (HA & HL & _) H. destruct (alloc_safe _ _ _ _ _ _ HA H) as (Hr & _ & Hnl & _ & _ & I').
  split; [|split; [|exact I']].
  - destruct (nget (i_nodes s) id) eqn:E; [|reflexivity]. exfalso. apply Hnl. apply in_live_slots.
    split; [exact Hr|]. apply HL. congruence.
  - simpl in H. destruct (nth_error (th (i_al s)) t) as [l|]; [|discriminate].
    apply (add_node_shape _ _ _ _ _ _ _ H).
Qed.

(** ** every operation, one by one *)

Lemma iadd_ok c s t h h2 p cs al' id pa :
  IInv c s -> afind h (i_hs s) = None -> afind h2 (i_hs s) = None -> h <> h2 ->
  forallb (client_h s) cs = true -> nodup_nat cs = true ->
  step c good (i_al s) (AAlloc t) = Some (al', OAlloc (Some id) pa) ->
  IInv c (mkI al' (nset (i_nodes s) id (p, 2)) ((h2, id) :: (h, id) :: i_hs s) (map (fun k => (k, id)) cs ++ i_own s)) /\
  rruns (iabs s) [AAdd h p; AClone h h2] [ARAdded; ARCount 2]
        (iabs (mkI al' (nset (i_nodes s) id (p, 2)) ((h2, id) :: (h, id) :: i_hs s) (map (fun k => (k, id)) cs ++ i_own s))).
Proof.
  intros HI Hh Hh2 Hne Hcs Hnd H. destruct (alloc_fresh _ _ _ _ _ _ HI H) as (Hfree & Esl & I').
  destruct HI as (HA & HL & HR & HO1 & HO2).
  assert (R : rruns (iabs s) [AAdd h p; AClone h h2] [ARAdded; ARCount 2]
                (iabs (mkI al' (nset (i_nodes s) id (p, 2)) ((h2, id) :: (h, id) :: i_hs s) (map (fun k => (k, id)) cs ++ i_own s)))).
  { apply aruns_cons with (s1 := mkA (fun j => if id =? j then Some (p, 1) else nget (i_nodes s) j) ((h, id) :: i_hs s)).
    - cbn [astep iabs a_hs a_map]. split; [exact Hh|]. exists id. repeat split; auto.
    - eapply aruns_cons; [|apply aruns_nil].
      cbn [astep iabs a_hs a_map i_hs i_nodes afind]. exists id, p, 1.
      rewrite Nat.eqb_refl. split; [reflexivity|].
      destruct (Nat.eqb_spec h h2) as [E|_]; [contradiction|]. split; [exact Hh2|].
      rewrite N.eqb_refl. split; [reflexivity|]. split; [reflexivity|]. split; [reflexivity|].
      intros j. rewrite nget_nset. destruct (id =? j); reflexivity. }
  split; [|exact R]. split; [exact I'|]. split; [|split].
  - intros j. cbn [i_al i_nodes]. rewrite Esl, nget_nset. destruct (N.eqb_spec id j) as [<-|Hj].
    + rewrite sget_sset_same. split; [discriminate | reflexivity].
    + rewrite sget_sset_other by congruence. apply HL.
  - eapply aruns_inv; [exact N.eqb_eq | exact HR | exact R].
  - rewrite forallb_forall in Hcs. split; cbn [i_own i_hs i_nodes].
    + rewrite map_app, map_map. cbn [fst]. rewrite map_id. apply NoDup_app_nat; [apply nodup_nat_spec; exact Hnd | exact HO1|].
      intros x Hx. specialize (Hcs x Hx). unfold client_h in Hcs. apply andb_prop in Hcs. destruct Hcs as [_ B].
      apply negb_true_iff in B. apply bound_false in B. apply (afind_None N). exact B.
    + intros k pid Hin. apply in_app_or in Hin. destruct Hin as [Hin|Hin].
      * apply in_map_iff in Hin. destruct Hin as (x & E & Hx). inversion E; subst k pid.
        specialize (Hcs x Hx). unfold client_h in Hcs. apply andb_prop in Hcs. destruct Hcs as [B _].
        apply bound_true in B. split; [apply afind_cons_some, afind_cons_some; exact B|].
        rewrite nget_nset, N.eqb_refl. discriminate.
      * destruct (HO2 _ _ Hin) as [B L]. split; [apply afind_cons_some, afind_cons_some; exact B|].
        rewrite nget_nset. destruct (id =? pid); [discriminate | exact L].
Qed.

Lemma iadd_oom c s t cs al' pa s' :
  IInv c s -> step c good (i_al s) (AAlloc t) = Some (al', OAlloc None pa) ->
  release_all (mkI al' (i_nodes s) (i_hs s) (i_own s)) cs = Some (s', false) ->
  IInv c s' /\ rruns (iabs s) (map AEnd cs) (map (fun _ => ARKept) cs) (iabs s').
Proof.
  intros (HA & HL & HR & HO) H Hrel.
  assert (I0 : IInv c (mkI al' (i_nodes s) (i_hs s) (i_own s))).
  { split; [eapply step_inv; eauto|]. split; [|split; [exact HR | exact HO]].
    intros id. cbn [i_al i_nodes]. simpl in H. destruct (nth_error (th (i_al s)) t) as [l|]; [|discriminate].
    destruct (add_node_oom_shape _ _ _ _ _ _ H) as (_ & Esl & _). rewrite Esl. apply HL. }
  exact (release_all_inv _ _ _ _ I0 Hrel).
Qed.

Lemma iretain_ok c s h h2 id p rc :
  IInv c s -> afind h (i_hs s) = Some id -> afind h2 (i_hs s) = None -> nget (i_nodes s) id = Some (p, rc) ->
  IInv c (mkI (i_al s) (nset (i_nodes s) id (p, rc + 1)) ((h2, id) :: i_hs s) (i_own s)) /\
  rstep (iabs s) (AClone h h2) (ARCount (rc + 1))
        (iabs (mkI (i_al s) (nset (i_nodes s) id (p, rc + 1)) ((h2, id) :: i_hs s) (i_own s))).
Proof.
  intros (HA & HL & HR & HO1 & HO2) Hf Hf2 Hn.
  assert (A : rstep (iabs s) (AClone h h2) (ARCount (rc + 1))
                (iabs (mkI (i_al s) (nset (i_nodes s) id (p, rc + 1)) ((h2, id) :: i_hs s) (i_own s)))).
  { cbn [astep iabs a_hs a_map i_hs i_nodes]. exists id, p, rc. repeat split; auto. intros j. apply nget_nset. }
  split; [|exact A]. split; [exact HA|]. split; [|split].
  - intros j. cbn [i_al i_nodes]. rewrite (nset_live_dom _ _ _ _ j Hn). apply HL.
  - eapply astep_inv; [exact N.eqb_eq | exact HR | exact A].
  - split; [exact HO1|]. intros k pid Hin. cbn [i_hs i_nodes]. destruct (HO2 _ _ Hin) as [B L].
    split; [apply afind_cons_some; exact B | apply (nset_live_dom _ _ _ _ pid Hn); exact L].
Qed.

Lemma iremove_ok c s t h id p s1 al' o :
  IInv c s -> client_h s h = true -> afind h (i_hs s) = Some id -> nget (i_nodes s) id = Some (p, 1) ->
  release_all (mkI (i_al s) (ndel (i_nodes s) id) (aremove h (i_hs s)) (i_own s)) (kids_of id (i_own s)) = Some (s1, false) ->
  step c good (i_al s1) (AFree t id) = Some (al', o) ->
  IInv c (mkI al' (i_nodes s1) (i_hs s1) (i_own s1)) /\
  rruns (iabs s) (AEnd h :: map AEnd (kids_of id (i_own s))) (ARGone p :: map (fun _ => ARKept) (kids_of id (i_own s)))
        (iabs (mkI al' (i_nodes s1) (i_hs s1) (i_own s1))).
Proof.
  intros (HA & HL & HR & HO1 & HO2) Hcl Hf Hn Hrel Hfree.
  destruct (release_all_spec _ _ _ Hrel) as (R & Ea & Eh & Eo & Ed). cbn [i_al i_hs i_own i_nodes] in *.
  assert (R' : rruns (iabs s) (AEnd h :: map AEnd (kids_of id (i_own s)))
                 (ARGone p :: map (fun _ => ARKept) (kids_of id (i_own s)))
                 (iabs (mkI al' (i_nodes s1) (i_hs s1) (i_own s1)))).
  { eapply aruns_cons; [|exact R]. cbn [astep iabs a_hs a_map i_hs i_nodes]. exists id, p, 1.
    split; [exact Hf|]. split; [exact Hn|]. split; [reflexivity|]. left.
    split; [reflexivity|]. split; [reflexivity|]. intros j. apply nget_ndel. }
  split; [|exact R']. rewrite Ea in Hfree. destruct (free_shape _ _ _ _ _ _ Hfree) as (Hnode & nx & Esl).
  split; [eapply step_inv; eauto|]. split; [|split].
  - intros j. cbn [i_al i_nodes]. rewrite Esl, Ed, nget_ndel. destruct (N.eqb_spec id j) as [<-|Hj].
    + rewrite sget_sset_same. split; [discriminate | congruence].
    + rewrite sget_sset_other by congruence. apply HL.
  - eapply aruns_inv; [exact N.eqb_eq | exact HR | exact R'].
  - unfold client_h in Hcl. apply andb_prop in Hcl. destruct Hcl as [_ Hcl]. apply negb_true_iff in Hcl.
    apply bound_false in Hcl. split; cbn [i_own i_hs i_nodes].
    + rewrite Eo. apply rm_all_NoDup. exact HO1.
    + intros k pid Hin. rewrite Eo in Hin. apply In_rm_all in Hin. destruct Hin as [Hin Hk].
      destruct (HO2 _ _ Hin) as [B L].
      assert (Hpid : pid <> id) by (intros ->; apply Hk; apply In_kids_of; exact Hin).
      assert (Hkh : h <> k) by (intros ->; apply (In_afind_some _ _ _ Hin); exact Hcl).
      split.
      * rewrite Eh, afind_rm_all by exact Hk. rewrite afind_aremove.
        destruct (Nat.eqb_spec h k); [contradiction | exact B].
      * apply Ed. rewrite nget_ndel. destruct (N.eqb_spec id pid); [congruence | exact L].
Qed.

(** ** the refinement: every operation inside the code's assumption keeps the invariant and IS
    its abstract script *)
Theorem istep_refines c s o s' r :
  IInv c s -> istep c s o = Some (s', r) -> leaked r = false ->
  IInv c s' /\ rruns (iabs s) (abs_ops o r) (abs_res o r) (iabs s').
Proof.
  intros HI H Hlk. destruct o as [t h h2 p cs|h h2|h|t h|h|a]; cbn [istep] in H.
  - (* IAdd *)
    destruct (negb (bound (i_hs s) h) && negb (bound (i_hs s) h2) && negb (h =? h2)%nat &&
              forallb (client_h s) cs && nodup_nat cs) eqn:Hpre; [|discriminate].
    repeat (apply andb_prop in Hpre; destruct Hpre as [Hpre ?]).
    apply negb_true_iff, bound_false in Hpre. apply negb_true_iff, bound_false in H3.
    apply negb_true_iff, Nat.eqb_neq in H2.
    destruct (step c good (i_al s) (AAlloc t)) as [[al' [| |[id|] pa| | |]]|] eqn:Hal; try discriminate.
    + inversion H; subst s' r. cbn [abs_ops abs_res]. eapply iadd_ok; eauto.
    + destruct (release_all (mkI al' (i_nodes s) (i_hs s) (i_own s)) cs) as [[s2 lk]|] eqn:Hrel; [|discriminate].
      inversion H; subst s' r. cbn [leaked] in Hlk. subst lk. cbn [abs_ops abs_res]. eapply iadd_oom; eauto.
  - (* IRetain *)
    destruct (afind h (i_hs s)) as [id|] eqn:Hf; [|discriminate].
    destruct (afind h2 (i_hs s)) eqn:Hf2; [discriminate|].
    destruct (nget (i_nodes s) id) as [[p rc]|] eqn:Hn; [|discriminate].
    inversion H; subst s' r. cbn [abs_ops abs_res].
    destruct (iretain_ok c s h h2 id p rc HI Hf Hf2 Hn) as [I' A]. split; [exact I'|].
    eapply aruns_cons; [exact A | apply aruns_nil].
  - (* IRelease *)
    destruct (client_h s h); [|discriminate].
    destruct (release1 s h) as [[s1 lk]|] eqn:Hrel; [|discriminate]. inversion H; subst s' r.
    cbn [leaked] in Hlk. subst lk. cbn [abs_ops abs_res].
    apply (release_all_inv c [h] s s1 HI). cbn [release_all]. rewrite Hrel. reflexivity.
  - (* IRemove *)
    destruct (client_h s h) eqn:Hcl; [|discriminate].
    destruct (afind h (i_hs s)) as [id|] eqn:Hf; [|discriminate].
    destruct (nget (i_nodes s) id) as [[p rc]|] eqn:Hn; [|discriminate].
    destruct (N.eqb_spec rc 1) as [->|Hrc].
    + destruct (release_all (mkI (i_al s) (ndel (i_nodes s) id) (aremove h (i_hs s)) (i_own s)) (kids_of id (i_own s)))
        as [[s1 lk]|] eqn:Hrel; [|discriminate].
      destruct (step c good (i_al s1) (AFree t id)) as [[al' o]|] eqn:Hfree; [|discriminate].
      inversion H; subst s' r. cbn [leaked] in Hlk. subst lk. cbn [abs_ops abs_res]. eapply iremove_ok; eauto.
    + inversion H; subst s' r. cbn [abs_ops abs_res]. split; [exact HI | apply aruns_nil].
  - (* IGet *)
    destruct (afind h (i_hs s)) as [id|] eqn:Hf; [|discriminate].
    destruct (nget (i_nodes s) id) as [[p rc]|] eqn:Hn; [|discriminate].
    inversion H; subst s' r. cbn [abs_ops abs_res]. split; [exact HI|].
    eapply aruns_cons; [|apply aruns_nil]. cbn [astep iabs a_hs a_map]. exists id, p, rc. repeat split; auto.
  - (* IInternal *)
    destruct (internal a) eqn:Hint; [|discriminate].
    destruct (step c good (i_al s) a) as [[al' ob]|] eqn:Hal; [|discriminate].
    inversion H; subst s' r. cbn [abs_ops abs_res]. split; [|apply aruns_nil].
    destruct HI as (HA & HL & HR & HO). split; [eapply step_inv; eauto|]. split; [|split; [exact HR | exact HO]].
    intros j. cbn [i_al i_nodes]. rewrite (internal_nodes _ _ _ _ _ HA Hint Hal j). apply HL.
Qed.

(** whole runs (any interleaving of the threads' operations) *)
Definition no_leak (rs : list ires) : bool := forallb (fun r => negb (leaked r)) rs.

Fixpoint flat_ops (ops : list iop) (rs : list ires) : list aop :=
  match ops, rs with o :: os, r :: rs' => abs_ops o r ++ flat_ops os rs' | _, _ => [] end.
Fixpoint flat_res (ops : list iop) (rs : list ires) : list ares :=
  match ops, rs with o :: os, r :: rs' => abs_res o r ++ flat_res os rs' | _, _ => [] end.

Lemma aruns_app (s1 s2 s3 : astate N) os1 rs1 os2 rs2 :
  rruns s1 os1 rs1 s2 -> rruns s2 os2 rs2 s3 -> rruns s1 (os1 ++ os2) (rs1 ++ rs2) s3.
Proof. intros R1 R2. induction R1; cbn; [exact R2 | econstructor; eauto]. Qed.

Theorem irun_refines c ops : forall s s' rs,
  IInv c s -> irun c s ops = Some (s', rs) -> no_leak rs = true ->
  IInv c s' /\ rruns (iabs s) (flat_ops ops rs) (flat_res ops rs) (iabs s').
Proof.
  induction ops as [|o ops IH]; intros s s' rs HI H Hnl; cbn [irun] in H.
  - inversion H; subst. split; [exact HI | apply aruns_nil].
  - destruct (istep c s o) as [[s1 x]|] eqn:E1; [|discriminate].
    destruct (irun c s1 ops) as [[s2 xs]|] eqn:E2; [|discriminate]. inversion H; subst s2 rs.
    cbn [no_leak forallb] in Hnl. apply andb_prop in Hnl. destruct Hnl as [Hx Hxs]. apply negb_true_iff in Hx.
    destruct (istep_refines _ _ _ _ _ HI E1 Hx) as [I1 R1]. destruct (IH _ _ _ I1 E2 Hxs) as [I2 R2].
    split; [exact I2|]. cbn [flat_ops flat_res]. eapply aruns_app; eauto.
Qed.

(** states reachable from a new manager under any schedule that stays inside the assumption *)
Definition ireachable (c : cfg) (s : istate) : Prop :=
  exists n ops rs, 1 <= chunk c /\ 1 <= term c /\ irun c (iinit c n) ops = Some (s, rs) /\ no_leak rs = true.

Theorem ireachable_inv c s : ireachable c s -> IInv c s.
Proof.
  intros (n & ops & rs & Hc & Ht & H & Hnl). eapply irun_refines; eauto. apply iinit_inv; auto.
Qed.

(** ** the counts: stored count = client edges + child edges stored in live nodes *)

Lemma acount_split s id :
  acount N N.eqb id (i_hs s) = (nclient s id + nparent s id)%nat.
Proof.
  unfold acount, nclient, nparent. induction (i_hs s) as [|[k v] r IH]; [reflexivity|].
  cbn [filter fst snd]. destruct (v =? id); cbn [andb]; [|exact IH].
  destruct (bound (i_own s) k); cbn [negb length]; rewrite IH; lia.
Qed.

Theorem index_store_counts c s : IInv c s ->
  (forall id, match nget (i_nodes s) id with
              | Some (p, rc) => rc = N.of_nat (nclient s id + nparent s id) /\ 1 <= rc /\
                                sget (sl (i_al s)) id = SNode
              | None => nclient s id = 0%nat /\ nparent s id = 0%nat /\ sget (sl (i_al s)) id <> SNode
              end) /\
  (forall k pid, In (k, pid) (i_own s) -> exists id, afind k (i_hs s) = Some id /\ nget (i_nodes s) pid <> None).
Proof.
  intros (HA & HL & [_ HR] & HO1 & HO2). split.
  - intros id. specialize (HR id). cbn [iabs a_map a_hs] in HR. rewrite acount_split in HR.
    pose proof (HL id) as L. destruct (nget (i_nodes s) id) as [[p rc]|].
    + destruct HR as [E P]. split; [exact E|]. split; [lia|]. apply L. discriminate.
    + split; [lia|]. split; [lia|]. intro E. apply L in E. congruence.
  - intros k pid Hin. destruct (HO2 _ _ Hin) as [B L]. destruct (afind k (i_hs s)) as [id|]; [eauto | congruence].
Qed.

(** ** out of memory *)

(** the abstract store with an optional capacity: [AAdd] fails when (and only when) the store
    holds [k] entries *)
Definition afull (cap : option nat) (s : astate N) : Prop :=
  match cap with
  | None => False
  | Some k => exists l, NoDup l /\ (forall id, In id l <-> a_map s id <> None) /\ length l = k
  end.

Inductive cstep (cap : option nat) : astate N -> aop -> option ares -> astate N -> Prop :=
| cs_ok s o r s' : (forall h p, o = AAdd h p -> ~ afull cap s) -> rstep s o r s' -> cstep cap s o (Some r) s'
| cs_full s h p : afull cap s -> afind h (a_hs s) = None -> cstep cap s (AAdd h p) None s.

Lemma live_listing c s : IInv c s ->
  NoDup (live_slots c (i_al s)) /\ (forall id, In id (live_slots c (i_al s)) <-> a_map (iabs s) id <> None).
Proof.
  intros (HA & HL & _). split.
  - unfold live_slots. apply NoDup_filter. apply ids_nodup.
  - intros id. rewrite in_live_slots. cbn [iabs a_map]. rewrite <- (HL id). split; [tauto|]. intros E. split; [|exact E].
    destruct HA as (fs & ls & I). apply (w_nodes _ _ _ _ I). exact E.
Qed.

Lemma afull_iff c s : IInv c s -> (afull (Some (N.to_nat (cap c))) (iabs s) <-> nlive c (i_al s) = N.to_nat (cap c)).
Proof.
  intros HI. destruct (live_listing c s HI) as [Hnd Hin]. split.
  - intros (l & Hl & Hli & Hlen). unfold nlive. rewrite <- Hlen.
    apply Permutation_length. apply NoDup_Permutation; auto. intros x. rewrite Hin, Hli. tauto.
  - intros E. exists (live_slots c (i_al s)). auto.
Qed.

(** `add_node` fails ONLY IF the store is full (the abstract store with capacity [cap c] must fail
    too) OR free slots are parked in ANOTHER thread's local list / pre-allocated range (ALLOC's
    documented imprecision); the children are released either way *)
Theorem iadd_oom_cases c s t h h2 p cs s' lk :
  IInv c s -> istep c s (IAdd t h h2 p cs) = Some (s', IROom lk) ->
  cstep (Some (N.to_nat (cap c))) (iabs s) (AAdd h p) None (iabs s) \/
  exists u id, u <> t /\ In id (thread_slots c (i_al s) u).
Proof.
  intros HI H. cbn [istep] in H.
  destruct (negb (bound (i_hs s) h) && negb (bound (i_hs s) h2) && negb (h =? h2)%nat &&
            forallb (client_h s) cs && nodup_nat cs) eqn:Hpre; [|discriminate].
  repeat (apply andb_prop in Hpre; destruct Hpre as [Hpre ?]). apply negb_true_iff, bound_false in Hpre.
  destruct (step c good (i_al s) (AAlloc t)) as [[al' [| |[id|] pa| | |]]|] eqn:Hal; try discriminate.
  pose proof HI as (HA & _).
  destruct (oom_only_parked _ _ _ _ _ HA Hal) as (_ & _ & Hpark).
  pose proof (free_count c (i_al s) HA) as Hfc.
  destruct (free_slots c (i_al s)) as [|x r] eqn:Ef.
  - left. apply cs_full; [|exact Hpre]. apply (afull_iff c s HI). cbn [length] in Hfc. lia.
  - right. destruct (Hpark x) as (u & Hu & Hin); [left; reflexivity|]. eauto.
Qed.

(** ... and it DOES fail when the store is full *)
Theorem iadd_full_oom c s t h h2 p cs s' r :
  IInv c s -> istep c s (IAdd t h h2 p cs) = Some (s', r) ->
  nlive c (i_al s) = N.to_nat (cap c) -> exists lk, r = IROom lk.
Proof.
  intros HI H Hfull. cbn [istep] in H.
  destruct (negb (bound (i_hs s) h) && negb (bound (i_hs s) h2) && negb (h =? h2)%nat &&
            forallb (client_h s) cs && nodup_nat cs); [|discriminate].
  destruct (step c good (i_al s) (AAlloc t)) as [[al' [| |[id|] pa| | |]]|] eqn:Hal; try discriminate.
  - exfalso. pose proof HI as (HA & _). destruct (alloc_safe _ _ _ _ _ _ HA Hal) as (_ & Hin & _).
    pose proof (free_count c (i_al s) HA) as Hfc. destruct (free_slots c (i_al s)); [contradiction|]. cbn [length] in Hfc. lia.
  - destruct (release_all _ cs) as [[s2 lk]|]; [|discriminate]. inversion H; subst. eauto.
Qed.

(** a successful `add_node` is a step of the abstract store with capacity [cap c] *)
Theorem iadd_capacity c s t h h2 p cs s' id pa :
  IInv c s -> istep c s (IAdd t h h2 p cs) = Some (s', IRAdded id pa) ->
  exists s1, cstep (Some (N.to_nat (cap c))) (iabs s) (AAdd h p) (Some ARAdded) s1 /\
             cstep (Some (N.to_nat (cap c))) s1 (AClone h h2) (Some (ARCount 2)) (iabs s').
Proof.
  intros HI H. destruct (istep_refines _ _ _ _ _ HI H eq_refl) as [_ R]. cbn [abs_ops abs_res] in R.
  inversion R as [|? ? ? s1 ? ? ? A1 R1]; subst. inversion R1 as [|? ? ? s2 ? ? ? A2 R2]; subst. inversion R2; subst.
  exists s1. split; apply cs_ok; auto; [|intros ? ? E; discriminate E].
  intros h0 p0 _ Hfull. apply (afull_iff c s HI) in Hfull.
  destruct (iadd_full_oom _ _ _ _ _ _ _ _ _ HI H Hfull) as [lk E]. discriminate.
Qed.

(** one thread, nothing parked elsewhere: `add_node` fails IFF the store is full *)
Theorem iadd_oom_single c s t l h h2 p cs s' r :
  IInv c s -> nth_error (th (i_al s)) t = Some l -> others_idle_p c (i_al s) t ->
  istep c s (IAdd t h h2 p cs) = Some (s', r) ->
  ((exists lk, r = IROom lk) <-> nlive c (i_al s) = N.to_nat (cap c)).
Proof.
  intros HI Hl Ho H. split; [|apply (iadd_full_oom _ _ _ _ _ _ _ _ _ HI H)].
  intros [lk ->]. pose proof HI as (HA & _). apply (proj1 (oom_single c (i_al s) t l HA Hl Ho)).
  cbn [istep] in H.
  destruct (negb (bound (i_hs s) h) && negb (bound (i_hs s) h2) && negb (h =? h2)%nat &&
            forallb (client_h s) cs && nodup_nat cs); [|discriminate].
  destruct (step c good (i_al s) (AAlloc t)) as [[al' [| |[id|] pa| | |]]|] eqn:Hal; try discriminate. eauto.
Qed.

(** [cstep] spelled out *)
Lemma cstep_def cap s o r s' : cstep cap s o r s' <->
  ((exists r0, r = Some r0 /\ (forall h p, o = AAdd h p -> ~ afull cap s) /\ rstep s o r0 s') \/
   (exists h p, o = AAdd h p /\ r = None /\ s' = s /\ afull cap s /\ afind h (a_hs s) = None)).
Proof.
  split.
  - intros H. inversion H; subst; [left; eauto | right; eauto 10].
  - intros [(r0 & -> & Hf & Hst)|(h & p & -> & -> & -> & Hf & Hh)]; [apply cs_ok; auto | apply cs_full; auto].
Qed.
