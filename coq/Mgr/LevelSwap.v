(** * C08, part B — executable model of [level_swap] / [level_down]
    (crates/oxidd-reorder/src/lib.rs) on snapshots, for two ADJACENT levels
    [i] (upper) and [i+1] (lower) of a BDD (binary nodes, reduction rule "all
    children equal -> the child", no complement tags).

    Executable definitions only; the proofs are in Mgr/LevelSwap{Base,Inv,WF,Sem,Proofs,Order}.v.

    What is modelled (names refer to the Rust function):
    - [upper.swap(&mut lower)]: the two unique tables and the entries of the
      variable/level maps are exchanged ([swap_idx] on [s_v2l], [swap_adj] on
      [s_l2v]);
    - the loop over [old_upper]: a node none of whose children lies on the old
      lower level just moves down ([relabel]); a node that references the old
      lower level keeps its id and stays on the upper level, its children are
      rebuilt from the cofactors of its cofactors ([bcof], = [Rules::cofactors]
      for a child on the lower level, [cofactor_skipped] = the child itself
      otherwise) through [reduce] + [old_upper.get] / [lower.get_or_insert_unchecked]
      ([mk2]: all children equal -> the child; an existing node of the new lower
      level with these children; otherwise a new node under a fresh id);
    - nodes of the old lower level move up ([relabel]);
    - an old-lower node that was a child of a rewritten node and is referenced
      by nothing afterwards is removed from the table ([sweep]);
    - [update_level_no] on both levels (as in [level_down]): the stored level
      number of every touched node is its new level.  The lazy renumbering
      ([to_pre]) of [set_var_order] is not observable on snapshots taken after
      the reordering and is not modelled.

    Not modelled: the reference counters [nrc] (new nodes get 0, the counters of
    existing nodes are left alone; neither [WF] nor the interpreters read them),
    the slot numbers of new nodes (any fresh id), and the iteration order of the
    hash table (the order of [PositiveMap.elements] here; the resulting diagram
    is the same up to the ids of the new nodes).

    Proofs: Mgr/LevelSwapBase.v (helpers), LevelSwapInv.v (loop invariant and
    relational specification of the table after the loop), LevelSwapWF.v
    (well-formedness), LevelSwapSem.v (functions preserved), LevelSwapProofs.v
    (removal of unreferenced nodes, the theorems about [level_swap]),
    LevelSwapOrder.v ([set_var_order_model]).  The model is compared with
    [oxidd_reorder::level_down] on real managers by ./check C08
    (ocaml/lswap.ml). *)

From Coq Require Import List NArith PArith Bool Arith FMapPositive.
From OxiVerif Require Import DD.Table Mgr.SortOrder.
Import ListNotations.

(** level [l] after exchanging levels [i] and [i+1] *)
Definition swap_idx (i l : nat) : nat :=
  if Nat.eqb l i then S i else if Nat.eqb l (S i) then i else l.

Definition set_level (nd : node) (l : nat) : node :=
  mkNode l (nchildren nd) l (nrc nd).

(** cofactor [b] of the edge [e] w.r.t. the level [lo]: the child [b] of a node
    of level [lo], the edge itself when it skips that level *)
Definition bcof (s : snap) (lo : nat) (e : edge) (b : nat) : edge :=
  match eref e with
  | RN id =>
    match find_node s id with
    | Some nd => if Nat.eqb (nlevel nd) lo then nth b (nchildren nd) e else e
    | None => e
    end
  | RT _ => e
  end.

(** [children.iter().all(|c| level(c) != lower_no_pre)] fails *)
Definition depends (s : snap) (lo : nat) (nd : node) : bool :=
  existsb (fun e => Nat.eqb (rlevel s (eref e)) lo) (nchildren nd).

(** the nodes that only change their level *)
Definition relabel (s : snap) (i : nat) (nd : node) : node :=
  if Nat.eqb (nlevel nd) (S i) then set_level nd i
  else if Nat.eqb (nlevel nd) i && negb (depends s (S i) nd) then set_level nd (S i)
  else nd.

(** unique-table lookup on one level *)
Definition find_at (m : PositiveMap.t node) (lvl : nat) (ch : list edge) : option positive :=
  match find (fun p => Nat.eqb (nlevel (snd p)) lvl && edges_eqb (nchildren (snd p)) ch)
             (PositiveMap.elements m) with
  | Some p => Some (fst p)
  | None => None
  end.

(** table under construction and the next unused id *)
Definition tstate := (PositiveMap.t node * positive)%type.

(** [reduce] of the BDD rules followed by [get_or_insert] on level [lvl] *)
Definition mk2 (st : tstate) (lvl : nat) (x y : edge) : edge * tstate :=
  if edge_eqb x y then (x, st)
  else
    match find_at (fst st) lvl [x; y] with
    | Some id => (mkEdge (RN id) false, st)
    | None =>
      (mkEdge (RN (snd st)) false,
       (PositiveMap.add (snd st) (mkNode lvl [x; y] lvl 0%N) (fst st), Pos.succ (snd st)))
    end.

(** rewrite one node of the upper level that references the lower level *)
Definition rebuild (s : snap) (i : nat) (st : tstate) (id : positive) : tstate :=
  match find_node s id with
  | Some nd =>
    match nchildren nd with
    | [c0; c1] =>
      let '(e0, st1) := mk2 st (S i) (bcof s (S i) c0 0) (bcof s (S i) c1 0) in
      let '(e1, st2) := mk2 st1 (S i) (bcof s (S i) c0 1) (bcof s (S i) c1 1) in
      (PositiveMap.add id (mkNode i [e0; e1] i (nrc nd)) (fst st2), snd st2)
    | _ => st
    end
  | None => st
  end.

Definition is_dep (s : snap) (i : nat) (p : positive * node) : bool :=
  Nat.eqb (nlevel (snd p)) i && depends s (S i) (snd p).

(** ids of the nodes to rewrite, in processing order *)
Definition dep_ids (s : snap) (i : nat) : list positive :=
  map fst (filter (is_dep s i) (PositiveMap.elements (s_nodes s))).

(** an id above all ids in use *)
Definition fresh_id (m : PositiveMap.t node) : positive :=
  Pos.succ (fold_left (fun a p => Pos.max a (fst p)) (PositiveMap.elements m) 1%positive).

(** the node table after the loop, before unreferenced nodes are dropped *)
Definition swap_nodes (s : snap) (i : nat) : PositiveMap.t node :=
  fst (fold_left (rebuild s i) (dep_ids s i)
                 (PositiveMap.map (relabel s i) (s_nodes s), fresh_id (s_nodes s))).

(** [level_swap] without the removal of unreferenced old-lower nodes *)
Definition level_swap_core (s : snap) (i : nat) : snap :=
  mkSnap (s_kind s) (swap_nodes s i) (s_terms s)
         (map (swap_idx i) (s_v2l s)) (swap_adj i (s_l2v s)) (s_handles s).

(** some stored node or some handle refers to [id] *)
Definition referenced (m : PositiveMap.t node) (handles : list (N * edge)) (id : positive) : bool :=
  existsb (fun p => existsb (fun e => ref_eqb (eref e) (RN id)) (nchildren (snd p)))
          (PositiveMap.elements m)
  || existsb (fun h => ref_eqb (eref (snd h)) (RN id)) handles.

(** the old children of the rewritten nodes that lie on the old lower level:
    the nodes whose reference count the loop decrements *)
Definition dropped_children (s : snap) (i : nat) : list positive :=
  flat_map (fun id =>
    match find_node s id with
    | Some nd =>
      flat_map (fun e => match eref e with
                         | RN c => if Nat.eqb (rlevel s (RN c)) (S i) then [c] else []
                         | RT _ => []
                         end) (nchildren nd)
    | None => []
    end) (dep_ids s i).

(** [upper.remove(child_node)] for the children nothing refers to any more *)
Definition sweep (m : PositiveMap.t node) (handles : list (N * edge)) (cands : list positive)
  : PositiveMap.t node :=
  fold_left (fun acc id => PositiveMap.remove id acc)
            (filter (fun id => negb (referenced m handles id)) cands) m.

(** [level_down(manager, i)] *)
Definition level_swap (s : snap) (i : nat) : snap :=
  let s1 := level_swap_core s i in
  mkSnap (s_kind s1) (sweep (s_nodes s1) (s_handles s1) (dropped_children s i))
         (s_terms s1) (s_v2l s1) (s_l2v s1) (s_handles s1).

(** [set_var_order] on a diagram without the empty-level shortcut: compute the
    target order of the levels of the requested variables, bubble-sort it, and
    perform every reported swap as a level swap *)
Definition set_var_order_model (s : snap) (order : list nat) : snap :=
  let target := sort_order (nlevels s) (map (fun v => nth v (s_v2l s) 0) order) in
  fold_left level_swap (snd (bubble_sort target)) s.
