(** * C08, part B — helper lemmas for the proofs about [level_swap]
    (Mgr/LevelSwap.v): index swapping, the variable/level maps, finite maps,
    the unique-table lookup [find_at], fresh ids, the [referenced] test. *)

From Coq Require Import List NArith PArith Bool Arith Lia FMapPositive.
From OxiVerif Require Import DD.Table DD.TableProofs Mgr.SortOrder Mgr.SortOrderProofs Mgr.LevelSwap.
Import ListNotations.

(** ** [swap_idx] *)

Lemma swap_idx_i : forall i, swap_idx i i = S i.
Proof. intros i. unfold swap_idx. rewrite Nat.eqb_refl. reflexivity. Qed.

Lemma swap_idx_Si : forall i, swap_idx i (S i) = i.
Proof.
  intros i. unfold swap_idx. rewrite Nat.eqb_refl.
  destruct (Nat.eqb_spec (S i) i); [lia | reflexivity].
Qed.

Lemma swap_idx_other : forall i l, l <> i -> l <> S i -> swap_idx i l = l.
Proof.
  intros i l A B. unfold swap_idx.
  destruct (Nat.eqb_spec l i); [contradiction|].
  destruct (Nat.eqb_spec l (S i)); [contradiction | reflexivity].
Qed.

Lemma swap_idx_cases : forall i l,
  (l = i /\ swap_idx i l = S i) \/ (l = S i /\ swap_idx i l = i)
  \/ (l <> i /\ l <> S i /\ swap_idx i l = l).
Proof.
  intros i l. destruct (Nat.eq_dec l i) as [->|A].
  - left. split; [reflexivity | apply swap_idx_i].
  - destruct (Nat.eq_dec l (S i)) as [->|B].
    + right. left. split; [reflexivity | apply swap_idx_Si].
    + right. right. repeat split; auto. apply swap_idx_other; assumption.
Qed.

Lemma swap_idx_invol : forall i l, swap_idx i (swap_idx i l) = l.
Proof.
  intros i l. destruct (swap_idx_cases i l) as [[-> ->]|[[-> ->]|[A [B ->]]]].
  - apply swap_idx_Si.
  - apply swap_idx_i.
  - apply swap_idx_other; assumption.
Qed.

Lemma swap_idx_lt : forall i n l, S i < n -> l < n -> swap_idx i l < n.
Proof.
  intros i n l Hi Hl. destruct (swap_idx_cases i l) as [[-> ->]|[[-> ->]|[A [B ->]]]]; lia.
Qed.

Lemma swap_idx_S : forall i k, swap_idx (S i) (S k) = S (swap_idx i k).
Proof.
  intros i k. destruct (swap_idx_cases i k) as [[-> ->]|[[-> ->]|[A [B ->]]]].
  - apply swap_idx_i.
  - apply swap_idx_Si.
  - apply swap_idx_other; lia.
Qed.

Lemma nth_error_swap_adj : forall (A : Type) i (l : list A) k,
  S i < length l -> nth_error (swap_adj i l) k = nth_error l (swap_idx i k).
Proof.
  intros A. induction i as [|i IH]; intros l k Hl.
  - destruct l as [|a [|b r]]; simpl in Hl; try lia.
    destruct k as [|[|k]]; reflexivity.
  - destruct l as [|a r]; simpl in Hl; [lia|].
    destruct k as [|k].
    + rewrite swap_idx_other by lia. reflexivity.
    + rewrite swap_idx_S. cbn [swap_adj nth_error]. apply IH. lia.
Qed.

(** ** the variable/level maps after exchanging two adjacent levels *)

Lemma swap_perm_v2l : forall i v2l l2v,
  length v2l = length l2v -> S i < length l2v ->
  inv_on v2l l2v -> inv_on (map (swap_idx i) v2l) (swap_adj i l2v).
Proof.
  intros i v2l l2v Hlen Hi Hv v Hvl. rewrite map_length in Hvl.
  destruct (Hv v Hvl) as [j [A B]].
  exists (swap_idx i j). split.
  - rewrite nth_error_map, A. reflexivity.
  - rewrite nth_error_swap_adj by exact Hi. rewrite swap_idx_invol. exact B.
Qed.

Lemma swap_perm_l2v : forall i v2l l2v,
  length v2l = length l2v -> S i < length l2v ->
  inv_on l2v v2l -> inv_on (swap_adj i l2v) (map (swap_idx i) v2l).
Proof.
  intros i v2l l2v Hlen Hi Hl l Hll. rewrite swap_adj_length in Hll.
  assert (Hs : swap_idx i l < length l2v) by (apply swap_idx_lt; assumption).
  destruct (Hl _ Hs) as [v [A B]].
  exists v. split.
  - rewrite nth_error_swap_adj by exact Hi. exact A.
  - rewrite nth_error_map, B. simpl. rewrite swap_idx_invol. reflexivity.
Qed.

(** ** finite maps *)

Lemma find_map : forall (A B : Type) (f : A -> B) k (m : PositiveMap.t A),
  PositiveMap.find k (PositiveMap.map f m) = option_map f (PositiveMap.find k m).
Proof. intros. unfold PositiveMap.map. apply PositiveMap.gmapi. Qed.

Lemma find_add : forall (A : Type) k k' (x : A) m,
  PositiveMap.find k (PositiveMap.add k' x m) =
  if Pos.eqb k k' then Some x else PositiveMap.find k m.
Proof.
  intros. destruct (Pos.eqb_spec k k') as [->|Hne].
  - apply PositiveMap.gss.
  - apply PositiveMap.gso. exact Hne.
Qed.

Lemma find_remove_list : forall (A : Type) (l : list positive) (m : PositiveMap.t A) k,
  PositiveMap.find k (fold_left (fun acc id => PositiveMap.remove id acc) l m) =
  if existsb (Pos.eqb k) l then None else PositiveMap.find k m.
Proof.
  intros A. induction l as [|x l IH]; intros m k; simpl; [reflexivity|].
  rewrite IH. destruct (Pos.eqb_spec k x) as [->|Hne]; simpl.
  - rewrite PositiveMap.grs. destruct (existsb (Pos.eqb x) l); reflexivity.
  - rewrite PositiveMap.gro by exact Hne. reflexivity.
Qed.

Lemma existsb_pos_In : forall k l, existsb (Pos.eqb k) l = true <-> In k l.
Proof.
  intros k l. rewrite existsb_exists. split.
  - intros [x [Hx E]]. apply Pos.eqb_eq in E. subst. exact Hx.
  - intros Hk. exists k. split; [exact Hk | apply Pos.eqb_refl].
Qed.

(** ** [find_at] *)

Lemma find_at_some : forall m lvl ch id, find_at m lvl ch = Some id ->
  exists nd, PositiveMap.find id m = Some nd /\ nlevel nd = lvl /\ nchildren nd = ch.
Proof.
  intros m lvl ch id. unfold find_at.
  destruct (find _ (PositiveMap.elements m)) as [[k nd]|] eqn:E; [|discriminate].
  intros Hk. inversion Hk; subst k. apply find_some in E. destruct E as [Hin Hm].
  simpl in Hm. apply andb_true_iff in Hm. destruct Hm as [A B].
  apply Nat.eqb_eq in A. apply edges_eqb_eq in B.
  exists nd. split; [apply PositiveMap.elements_complete; exact Hin | auto].
Qed.

Lemma find_at_none : forall m lvl ch, find_at m lvl ch = None ->
  forall id nd, PositiveMap.find id m = Some nd -> nlevel nd = lvl -> nchildren nd <> ch.
Proof.
  intros m lvl ch. unfold find_at.
  destruct (find _ (PositiveMap.elements m)) as [p|] eqn:E; [discriminate|].
  intros _ id nd Hf Hl Hc. apply PositiveMap.elements_correct in Hf.
  pose proof (find_none _ _ E (id, nd) Hf) as Hm. simpl in Hm.
  assert (Hc' : edges_eqb (nchildren nd) ch = true) by (apply edges_eqb_eq; exact Hc).
  rewrite Hl, Nat.eqb_refl, Hc' in Hm. discriminate.
Qed.

(** ** [fresh_id] *)

Lemma fresh_id_above : forall (m : PositiveMap.t node) id nd,
  PositiveMap.find id m = Some nd -> (id < fresh_id m)%positive.
Proof.
  intros m id nd E. apply PositiveMap.elements_correct in E.
  unfold fresh_id.
  assert (G : forall (l : list (positive * node)) a,
            (a <= fold_left (fun a p => Pos.max a (fst p)) l a)%positive /\
            forall p, In p l -> (fst p <= fold_left (fun a p => Pos.max a (fst p)) l a)%positive).
  { induction l as [|x l IH]; intros a; simpl.
    - split; [lia | intros p []].
    - destruct (IH (Pos.max a (fst x))) as [A B]. split; [lia|].
      intros p [<-|Hp]; [lia | auto]. }
  destruct (G (PositiveMap.elements m) 1%positive) as [_ B].
  specialize (B _ E). simpl in B. lia.
Qed.

(** ** [referenced] *)

Lemma referenced_spec : forall m hs id,
  referenced m hs id = true <->
  (exists k nd e, PositiveMap.find k m = Some nd /\ In e (nchildren nd) /\ eref e = RN id)
  \/ (exists h, In h hs /\ eref (snd h) = RN id).
Proof.
  intros m hs id. unfold referenced. rewrite orb_true_iff, !existsb_exists.
  split; intros [A|A]; [left | right | left | right].
  - destruct A as [[k nd] [Hin Hex]]. simpl in Hex. apply existsb_exists in Hex.
    destruct Hex as [e [He Hr]]. apply ref_eqb_eq in Hr.
    exists k, nd, e. split; [apply PositiveMap.elements_complete; exact Hin | auto].
  - destruct A as [h [Hin Hr]]. apply ref_eqb_eq in Hr. eauto.
  - destruct A as [k [nd [e [Hf [He Hr]]]]]. exists (k, nd).
    split; [apply PositiveMap.elements_correct; exact Hf|].
    simpl. apply existsb_exists. exists e. split; [exact He | apply ref_eqb_eq; exact Hr].
  - destruct A as [h [Hin Hr]]. exists h. split; [exact Hin | apply ref_eqb_eq; exact Hr].
Qed.

(** ** the kinds the theorems cover: binary nodes, no complement tags, reduction rule
    "all children equal", interpreter [semk] *)

Definition bink (k : kind) : Prop := k = KBdd \/ k = KMtbdd.

Lemma bink_arity : forall k, bink k -> arity k = 2.
Proof. intros k [->| ->]; reflexivity. Qed.

Lemma bink_not_bcdd : forall k, bink k -> k <> KBcdd.
Proof. intros k [->| ->]; discriminate. Qed.

Lemma bink_reduced : forall s ch, bink (s_kind s) -> (reduced s ch <-> ~ all_same ch).
Proof. intros s ch [E|E]; unfold reduced; rewrite E; tauto. Qed.

Lemma bink_sem_edge : forall s e c, bink (s_kind s) ->
  sem_edge s e c = semk s (S (nlevels s)) (eref e) c.
Proof. intros s e c [E|E]; unfold sem_edge; rewrite E; reflexivity. Qed.

(** ** binary nodes *)

Lemma all_same_pair : forall a b : edge, all_same [a; b] <-> a = b.
Proof.
  intros a b. unfold all_same. split.
  - intros Hs. apply Hs; simpl; auto.
  - intros -> x y [<-|[<-|[]]] [<-|[<-|[]]]; reflexivity.
Qed.

Lemma length2 : forall (A : Type) (l : list A), length l = 2 -> exists a b, l = [a; b].
Proof.
  intros A [|a [|b [|c r]]] Hl; simpl in Hl; try discriminate. eauto.
Qed.
