(** * C08, part B' — executable model of [level_swap] / [level_down] for BCDDs
    (binary nodes with complement edges; rules:
    crates/oxidd-rules-bdd/src/complement_edge/mod.rs)

    The loop is the one of Mgr/LevelSwap.v; what differs is what the diagram
    rules do with the edge tags:
    - [Rules::cofactors(c.tag(), node)]: the children of the node with the tag
      of the incoming edge xor-ed onto them ([bcofc]);
    - [Rules::reduce]: equal children -> the child; otherwise, if the then-edge
      is complemented, both children are complemented and the resulting edge
      carries the complement tag ([mk2c]: the stored node always has an
      untagged then-edge);
    - [.with_tag_owned(tag)] applies to the node found in the old upper level
      ([old_upper.get]) as well as to the one found or inserted in the new lower
      level.
    Everything that does not look at tags ([relabel], [depends], [dep_ids],
    [dropped_children], [sweep], the maps) is taken from Mgr/LevelSwap.v.

    Executable definitions only; proofs in Mgr/LevelSwapC{Inv,WF,Sem,Proofs}.v. *)

From Coq Require Import List NArith PArith Bool Arith FMapPositive.
From OxiVerif Require Import DD.Table Mgr.SortOrder Mgr.LevelSwap.
Import ListNotations.

(** complement the edge iff [t] *)
Definition xtag (e : edge) (t : bool) : edge := mkEdge (eref e) (xorb (etag e) t).

(** cofactor [b] of the edge [e] w.r.t. the level [lo] *)
Definition bcofc (s : snap) (lo : nat) (e : edge) (b : nat) : edge :=
  match eref e with
  | RN id =>
    match find_node s id with
    | Some nd => if Nat.eqb (nlevel nd) lo then xtag (nth b (nchildren nd) e) (etag e) else e
    | None => e
    end
  | RT _ => e
  end.

(** [reduce] of the BCDD rules followed by the unique-table lookup / insertion *)
Definition mk2c (st : tstate) (lvl : nat) (x y : edge) : edge * tstate :=
  if edge_eqb x y then (x, st)
  else
    let tg := etag x in
    let ch := [xtag x tg; xtag y tg] in
    match find_at (fst st) lvl ch with
    | Some id => (mkEdge (RN id) tg, st)
    | None =>
      (mkEdge (RN (snd st)) tg,
       (PositiveMap.add (snd st) (mkNode lvl ch lvl 0%N) (fst st), Pos.succ (snd st)))
    end.

Definition rebuildc (s : snap) (i : nat) (st : tstate) (id : positive) : tstate :=
  match find_node s id with
  | Some nd =>
    match nchildren nd with
    | [c0; c1] =>
      let '(e0, st1) := mk2c st (S i) (bcofc s (S i) c0 0) (bcofc s (S i) c1 0) in
      let '(e1, st2) := mk2c st1 (S i) (bcofc s (S i) c0 1) (bcofc s (S i) c1 1) in
      (PositiveMap.add id (mkNode i [e0; e1] i (nrc nd)) (fst st2), snd st2)
    | _ => st
    end
  | None => st
  end.

Definition swap_nodes_c (s : snap) (i : nat) : PositiveMap.t node :=
  fst (fold_left (rebuildc s i) (dep_ids s i)
                 (PositiveMap.map (relabel s i) (s_nodes s), fresh_id (s_nodes s))).

Definition level_swap_core_c (s : snap) (i : nat) : snap :=
  mkSnap (s_kind s) (swap_nodes_c s i) (s_terms s)
         (map (swap_idx i) (s_v2l s)) (swap_adj i (s_l2v s)) (s_handles s).

(** [level_down(manager, i)] on a BCDD *)
Definition level_swap_c (s : snap) (i : nat) : snap :=
  let s1 := level_swap_core_c s i in
  mkSnap (s_kind s1) (sweep (s_nodes s1) (s_handles s1) (dropped_children s i))
         (s_terms s1) (s_v2l s1) (s_l2v s1) (s_handles s1).

Definition set_var_order_model_c (s : snap) (order : list nat) : snap :=
  let target := sort_order (nlevels s) (map (fun v => nth v (s_v2l s) 0) order) in
  fold_left level_swap_c (snd (bubble_sort target)) s.
