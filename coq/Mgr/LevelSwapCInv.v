(** * C08, part B' — the node table after [level_swap_core_c] (BCDD kind)

    The BCDD counterpart of Mgr/LevelSwapInv.v: loop invariant [InvC] of the
    fold of [rebuildc] and its instance at the end of the loop, the relational
    specification [SpecC] of [swap_nodes_c s i].  Edges carry complement tags;
    stored nodes have an untagged then-edge.  The tag-agnostic parts
    ([relabel], [depends], [dep_ids], [ext]) come from Mgr/LevelSwapInv.v. *)

From Coq Require Import List NArith PArith Bool Arith Lia FMapPositive.
From OxiVerif Require Import DD.Table DD.TableProofs Mgr.SortOrder Mgr.SortOrderProofs
  Mgr.LevelSwap Mgr.LevelSwapBase Mgr.LevelSwapInv Mgr.LevelSwapC.
Import ListNotations.

(** ** complementing an edge *)

Lemma eref_xtag : forall e t, eref (xtag e t) = eref e.
Proof. reflexivity. Qed.

Lemma etag_xtag : forall e t, etag (xtag e t) = xorb (etag e) t.
Proof. reflexivity. Qed.

Lemma xtag_false : forall e, xtag e false = e.
Proof. intros [r t]. unfold xtag. simpl. rewrite xorb_false_r. reflexivity. Qed.

Lemma xtag_invol : forall e t, xtag (xtag e t) t = e.
Proof. intros [r b] t. unfold xtag. simpl. destruct b, t; reflexivity. Qed.

Lemma xtag_inj : forall a b t, xtag a t = xtag b t -> a = b.
Proof. intros a b t E. rewrite <- (xtag_invol a t), <- (xtag_invol b t), E. reflexivity. Qed.

Lemma xtag_self : forall e, etag (xtag e (etag e)) = false.
Proof. intros [r b]. simpl. apply xorb_nilpotent. Qed.

Section SwapC.
Variable s : snap.
Variable i : nat.
Hypothesis H : WF s.
Hypothesis Hk : s_kind s = KBcdd.
Hypothesis Hi : S i < nlevels s.

Notation isdep := (isdep s i).

(** ** stored BCDD nodes *)

Lemma bc_children : forall id nd, find_node s id = Some nd ->
  exists c0 c1, nchildren nd = [c0; c1] /\ c0 <> c1 /\ etag c0 = false.
Proof.
  intros id nd E. pose proof (wf_arity s H id nd E) as Ha. rewrite Hk in Ha. simpl in Ha.
  destruct (length2 _ _ Ha) as [c0 [c1 Hc]]. exists c0, c1. split; [exact Hc|].
  pose proof (wf_reduced s H id nd E) as Hr. unfold reduced in Hr. rewrite Hk, Hc in Hr.
  destruct Hr as [Hns [t [Ht Htag]]]. simpl in Ht. inversion Ht; subst t.
  split; [|exact Htag]. intros Heq. apply Hns. apply all_same_pair. exact Heq.
Qed.

(** an edge below both levels *)
Definition lowc (e : edge) : Prop := ref_ok s (eref e) /\ S i < rlevel s (eref e).

Lemma lowc_xtag : forall e t, lowc e -> lowc (xtag e t).
Proof. intros e t L. exact L. Qed.

(** ** [bcofc] *)

Lemma bcofc_skip : forall c b, rlevel s (eref c) <> S i -> bcofc s (S i) c b = c.
Proof.
  intros c b Hl. unfold bcofc. destruct (eref c) as [t|id] eqn:Er; [reflexivity|].
  simpl in Hl. destruct (find_node s id) as [nd|]; [|reflexivity].
  destruct (Nat.eqb_spec (nlevel nd) (S i)); [contradiction | reflexivity].
Qed.

Lemma bcofc_at : forall c cid cn g0 g1,
  eref c = RN cid -> find_node s cid = Some cn -> nlevel cn = S i -> nchildren cn = [g0; g1] ->
  bcofc s (S i) c 0 = xtag g0 (etag c) /\ bcofc s (S i) c 1 = xtag g1 (etag c).
Proof.
  intros c cid cn g0 g1 Er E Hl Hc. unfold bcofc. rewrite Er, E, Hl, Nat.eqb_refl, Hc. split; reflexivity.
Qed.

(** the two cases for a child [c] of a node of the upper level *)
Lemma child_cases_c : forall id nd c, find_node s id = Some nd -> nlevel nd = i -> In c (nchildren nd) ->
  (rlevel s (eref c) <> S i /\ lowc c /\ forall b, bcofc s (S i) c b = c)
  \/ (exists cid cn g0 g1, eref c = RN cid /\ find_node s cid = Some cn /\ nlevel cn = S i
        /\ nchildren cn = [g0; g1] /\ g0 <> g1 /\ etag g0 = false /\ lowc g0 /\ lowc g1
        /\ bcofc s (S i) c 0 = xtag g0 (etag c) /\ bcofc s (S i) c 1 = xtag g1 (etag c)).
Proof.
  intros id nd c E Hl Hc.
  destruct (wf_child s H id nd c E Hc) as [Hok Hlt].
  destruct (Nat.eq_dec (rlevel s (eref c)) (S i)) as [Heq|Hne].
  - right. destruct (eref c) as [t|cid] eqn:Er.
    { simpl in Heq. lia. }
    simpl in Heq. destruct (find_node s cid) as [cn|] eqn:Ec; [|lia].
    destruct (bc_children cid cn Ec) as [g0 [g1 [Hg [Hne Hg0]]]].
    exists cid, cn, g0, g1.
    assert (Hlow : forall g, In g (nchildren cn) -> lowc g).
    { intros g Hg'. destruct (wf_child s H cid cn g Ec Hg') as [A B]. split; [exact A | lia]. }
    assert (Er' : eref c = RN cid) by exact Er.
    destruct (bcofc_at c cid cn g0 g1 Er' Ec Heq Hg) as [B0 B1].
    assert (L0 : lowc g0) by (apply Hlow; rewrite Hg; simpl; auto).
    assert (L1 : lowc g1) by (apply Hlow; rewrite Hg; simpl; auto).
    split; [reflexivity|]. split; [exact Ec|]. split; [exact Heq|]. split; [exact Hg|].
    split; [exact Hne|]. split; [exact Hg0|]. split; [exact L0|]. split; [exact L1|].
    split; [exact B0 | exact B1].
  - left. split; [exact Hne|]. split.
    + split; [exact Hok | lia].
    + intros b. apply bcofc_skip. exact Hne.
Qed.

Lemma bcofc_low : forall id nd c b, find_node s id = Some nd -> nlevel nd = i -> In c (nchildren nd) ->
  b < 2 -> lowc (bcofc s (S i) c b).
Proof.
  intros id nd c b E Hl Hc Hb.
  destruct (child_cases_c id nd c E Hl Hc)
    as [[_ [Hlow Hb']]|[cid [cn [g0 [g1 [_ [_ [_ [_ [_ [_ [L0 [L1 [B0 B1]]]]]]]]]]]]]].
  - rewrite Hb'. exact Hlow.
  - destruct b as [|[|b]]; [rewrite B0; exact L0 | rewrite B1; exact L1 | lia].
Qed.

(** the pair of cofactors determines the child (including its tag) *)
Lemma bcofc_inj : forall id1 nd1 c id2 nd2 d,
  find_node s id1 = Some nd1 -> nlevel nd1 = i -> In c (nchildren nd1) ->
  find_node s id2 = Some nd2 -> nlevel nd2 = i -> In d (nchildren nd2) ->
  bcofc s (S i) c 0 = bcofc s (S i) d 0 -> bcofc s (S i) c 1 = bcofc s (S i) d 1 -> c = d.
Proof.
  intros id1 nd1 c id2 nd2 d E1 L1 Hc E2 L2 Hd B0 B1.
  destruct (child_cases_c id1 nd1 c E1 L1 Hc)
    as [[_ [_ Sc]]|[cid [cn [g0 [g1 [Ec [Fc [Lc [Cc [Nc [Tc [_ [_ [C0 C1]]]]]]]]]]]]]];
  destruct (child_cases_c id2 nd2 d E2 L2 Hd)
    as [[_ [_ Sd]]|[did [dn [h0 [h1 [Ed [Fd [Ld [Cd [Nd [Td [_ [_ [D0 D1]]]]]]]]]]]]]].
  - rewrite (Sc 0), (Sd 0) in B0. exact B0.
  - exfalso. rewrite (Sc 0), D0 in B0. rewrite (Sc 1), D1 in B1.
    apply Nd. apply (xtag_inj _ _ (etag d)). congruence.
  - exfalso. rewrite C0, (Sd 0) in B0. rewrite C1, (Sd 1) in B1.
    apply Nc. apply (xtag_inj _ _ (etag c)). congruence.
  - rewrite C0, D0 in B0. rewrite C1, D1 in B1.
    assert (Htag : etag c = etag d).
    { pose proof (f_equal etag B0) as Q. rewrite !etag_xtag, Tc, Td in Q.
      destruct (etag c), (etag d); simpl in Q; congruence. }
    rewrite Htag in B0, B1. apply xtag_inj in B0. apply xtag_inj in B1. subst h0 h1.
    assert (cid = did).
    { apply (wf_unique s H cid did cn dn Fc Fd); congruence. }
    subst did. apply edge_ext; [congruence | exact Htag].
Qed.

Lemma dep_not_both_c : forall id nd c0 c1, find_node s id = Some nd -> isdep nd -> nchildren nd = [c0; c1] ->
  ~ (bcofc s (S i) c0 0 = bcofc s (S i) c0 1 /\ bcofc s (S i) c1 0 = bcofc s (S i) c1 1).
Proof.
  intros id nd c0 c1 E [Hl Hd] Hc [A B].
  apply depends_spec in Hd. destruct Hd as [e [He Hle]]. rewrite Hc in He.
  assert (Hin0 : In c0 (nchildren nd)) by (rewrite Hc; simpl; auto).
  assert (Hin1 : In c1 (nchildren nd)) by (rewrite Hc; simpl; auto).
  destruct He as [<-|[<-|[]]].
  - destruct (child_cases_c id nd c0 E Hl Hin0)
      as [[Hne _]|[cid [cn [g0 [g1 [_ [_ [_ [_ [Hg [_ [_ [_ [B0 B1]]]]]]]]]]]]]].
    + contradiction.
    + apply Hg. apply (xtag_inj _ _ (etag c0)). congruence.
  - destruct (child_cases_c id nd c1 E Hl Hin1)
      as [[Hne _]|[cid [cn [g0 [g1 [_ [_ [_ [_ [Hg [_ [_ [_ [B0 B1]]]]]]]]]]]]]].
    + contradiction.
    + apply Hg. apply (xtag_inj _ _ (etag c1)). congruence.
Qed.

(** the then-cofactor of an untagged child is untagged *)
Lemma bcofc_then_untagged : forall id nd c, find_node s id = Some nd -> nlevel nd = i ->
  In c (nchildren nd) -> etag c = false -> etag (bcofc s (S i) c 0) = false.
Proof.
  intros id nd c E Hl Hc Ht.
  destruct (child_cases_c id nd c E Hl Hc)
    as [[_ [_ Sk]]|[cid [cn [g0 [g1 [_ [_ [_ [_ [_ [T0 [_ [_ [B0 _]]]]]]]]]]]]]].
  - rewrite Sk. exact Ht.
  - rewrite B0, etag_xtag, T0, Ht. reflexivity.
Qed.

(** ** the loop invariant *)

(** [e] is what [reduce] + lookup/insert on the new lower level returns for
    the children [x], [y]: the stored node has the tag of [x] xor-ed onto both
    children, the edge carries that tag *)
Definition repc (m : PositiveMap.t node) (x y e : edge) : Prop :=
  (x = y /\ e = x)
  \/ (x <> y /\ exists id nd, e = mkEdge (RN id) (etag x) /\ PositiveMap.find id m = Some nd
                              /\ nlevel nd = S i /\ nchildren nd = [xtag x (etag x); xtag y (etag x)]).

Definition goodnewc (nd : node) : Prop :=
  nlevel nd = S i /\ nstored nd = S i
  /\ exists x y, nchildren nd = [x; y] /\ x <> y /\ etag x = false /\ lowc x /\ lowc y.

Notation ext := (ext i).

Lemma repc_ext : forall m m' x y e, ext m m' -> repc m x y e -> repc m' x y e.
Proof.
  intros m m' x y e Hx [A|[A [id [nd [B [C [D F]]]]]]]; [left; exact A | right].
  split; [exact A|]. exists id, nd. repeat split; auto.
Qed.

Definition rebuiltc (m : PositiveMap.t node) (id : positive) (nd : node) : Prop :=
  exists c0 c1 e0 e1, nchildren nd = [c0; c1]
    /\ PositiveMap.find id m = Some (mkNode i [e0; e1] i (nrc nd))
    /\ repc m (bcofc s (S i) c0 0) (bcofc s (S i) c1 0) e0
    /\ repc m (bcofc s (S i) c0 1) (bcofc s (S i) c1 1) e1.

Record InvC (P : list positive) (st : tstate) : Prop := mkInvC {
  invc_old : forall id nd, find_node s id = Some nd -> ~ In id P ->
      PositiveMap.find id (fst st) = Some (relabel s i nd);
  invc_done : forall id, In id P ->
      exists nd, find_node s id = Some nd /\ isdep nd /\ rebuiltc (fst st) id nd;
  invc_new : forall id nd, PositiveMap.find id (fst st) = Some nd -> find_node s id = None ->
      goodnewc nd /\ (id < snd st)%positive;
  invc_nxt : forall id nd, find_node s id = Some nd -> (id < snd st)%positive;
  invc_uniq : forall id1 id2 n1 n2,
      PositiveMap.find id1 (fst st) = Some n1 -> PositiveMap.find id2 (fst st) = Some n2 ->
      nlevel n1 = S i -> nlevel n2 = S i -> nchildren n1 = nchildren n2 -> id1 = id2
}.

Lemma invc_free : forall P st id, InvC P st -> (snd st <= id)%positive ->
  PositiveMap.find id (fst st) = None.
Proof.
  intros P st id I Hle. destruct (PositiveMap.find id (fst st)) as [nd|] eqn:E; [|reflexivity].
  exfalso. destruct (find_node s id) as [nd0|] eqn:E0.
  - pose proof (invc_nxt P st I id nd0 E0). lia.
  - destruct (invc_new P st I id nd E E0) as [_ Hlt]. lia.
Qed.

Lemma invc_init : InvC [] (st0 s i).
Proof.
  constructor; unfold st0; simpl.
  - intros id nd E _. rewrite find_map. unfold find_node in E. rewrite E. reflexivity.
  - intros id [].
  - intros id nd E E0. rewrite find_map in E. unfold find_node in E0. rewrite E0 in E. discriminate.
  - intros id nd E. apply (fresh_id_above _ _ _ E).
  - intros id1 id2 n1 n2 E1 E2 L1 L2 Hc. rewrite find_map in E1, E2.
    destruct (PositiveMap.find id1 (s_nodes s)) as [m1|] eqn:F1; [|discriminate].
    destruct (PositiveMap.find id2 (s_nodes s)) as [m2|] eqn:F2; [|discriminate].
    simpl in E1, E2. inversion E1; subst n1. inversion E2; subst n2. clear E1 E2.
    rewrite !relabel_children in Hc.
    apply (wf_unique s H id1 id2 m1 m2 F1 F2); [|exact Hc].
    destruct (relabel_cases s i m1) as [[A R]|[[A [_ R]]|[[[A _] R]|[A [B R]]]]]; rewrite R in L1; simpl in L1; try lia;
    destruct (relabel_cases s i m2) as [[A' R']|[[A' [_ R']]|[[[A' _] R']|[A' [B' R']]]]]; rewrite R' in L2; simpl in L2; try lia.
Qed.

Lemma mk2c_inv : forall P st x y e st',
  InvC P st -> lowc x -> lowc y -> mk2c st (S i) x y = (e, st') ->
  InvC P st' /\ repc (fst st') x y e /\ ext (fst st) (fst st').
Proof.
  intros P [m nxt] x y e st' I Lx Ly. unfold mk2c. simpl fst. simpl snd.
  destruct (edge_eqb x y) eqn:Exy.
  { intros E. inversion E; subst. apply edge_eqb_eq in Exy.
    split; [exact I|]. split; [left; auto | apply ext_refl]. }
  assert (Hne : x <> y) by (intros ->; assert (edge_eqb y y = true) by (apply edge_eqb_eq; reflexivity); congruence).
  set (x' := xtag x (etag x)). set (y' := xtag y (etag x)).
  assert (Hne' : x' <> y') by (intros Q; apply Hne; exact (xtag_inj _ _ _ Q)).
  destruct (find_at m (S i) [x'; y']) as [id|] eqn:F.
  { intros E. inversion E; subst. destruct (find_at_some _ _ _ _ F) as [nd [A [B C]]].
    split; [exact I|]. split; [|apply ext_refl].
    right. split; [exact Hne|]. exists id, nd. auto. }
  intros E. inversion E; subst e st'. clear E. simpl fst. simpl snd.
  pose proof (invc_free P (m, nxt) nxt I (Pos.le_refl _)) as Hfree. simpl in Hfree.
  assert (Hext : ext m (PositiveMap.add nxt (mkNode (S i) [x'; y'] (S i) 0%N) m)).
  { intros id nd E _. rewrite find_add. destruct (Pos.eqb_spec id nxt); [congruence | exact E]. }
  split; [|split; [|exact Hext]].
  - constructor; simpl fst; simpl snd.
    + intros id nd E Hn. rewrite find_add.
      pose proof (invc_nxt _ _ I id nd E) as Hlt. simpl in Hlt.
      destruct (Pos.eqb_spec id nxt); [lia|]. apply (invc_old _ _ I id nd E Hn).
    + intros id Hp. destruct (invc_done _ _ I id Hp) as [nd [E [D [c0 [c1 [e0 [e1 [Hc [Hf [R0 R1]]]]]]]]]].
      exists nd. split; [exact E|]. split; [exact D|]. exists c0, c1, e0, e1.
      simpl in Hf, R0, R1. split; [exact Hc|]. split.
      * rewrite find_add. pose proof (invc_nxt _ _ I id nd E) as Hlt. simpl in Hlt.
        destruct (Pos.eqb_spec id nxt); [lia | exact Hf].
      * split; eapply repc_ext; eauto.
    + intros id nd E E0. rewrite find_add in E. destruct (Pos.eqb_spec id nxt) as [->|Hn].
      * inversion E; subst nd. split; [|lia].
        split; [reflexivity|]. split; [reflexivity|]. exists x', y'.
        split; [reflexivity|]. split; [exact Hne'|]. split; [apply xtag_self|].
        split; apply lowc_xtag; assumption.
      * destruct (invc_new _ _ I id nd E E0) as [G Hlt]. simpl in Hlt. split; [exact G | lia].
    + intros id nd E. pose proof (invc_nxt _ _ I id nd E) as Hlt. simpl in Hlt. lia.
    + intros id1 id2 n1 n2 E1 E2 L1 L2 Hc. rewrite find_add in E1, E2.
      destruct (Pos.eqb_spec id1 nxt) as [->|N1]; destruct (Pos.eqb_spec id2 nxt) as [->|N2].
      * reflexivity.
      * exfalso. inversion E1; subst n1. simpl in Hc.
        apply (find_at_none _ _ _ F id2 n2 E2 L2). congruence.
      * exfalso. inversion E2; subst n2. simpl in Hc.
        apply (find_at_none _ _ _ F id1 n1 E1 L1). congruence.
      * apply (invc_uniq _ _ I id1 id2 n1 n2 E1 E2 L1 L2 Hc).
  - right. split; [exact Hne|]. exists nxt, (mkNode (S i) [x'; y'] (S i) 0%N).
    split; [reflexivity|]. split; [|split; reflexivity].
    rewrite find_add, Pos.eqb_refl. reflexivity.
Qed.

Lemma rebuildc_inv : forall P st id nd,
  InvC P st -> find_node s id = Some nd -> isdep nd -> ~ In id P ->
  InvC (id :: P) (rebuildc s i st id).
Proof.
  intros P st id nd I E D Hn. unfold rebuildc. rewrite E.
  destruct (bc_children id nd E) as [c0 [c1 [Hc [Hne _]]]]. rewrite Hc.
  assert (Hin0 : In c0 (nchildren nd)) by (rewrite Hc; simpl; auto).
  assert (Hin1 : In c1 (nchildren nd)) by (rewrite Hc; simpl; auto).
  destruct D as [Dl Dd].
  destruct (mk2c st (S i) (bcofc s (S i) c0 0) (bcofc s (S i) c1 0)) as [e0 st1] eqn:M0.
  destruct (mk2c st1 (S i) (bcofc s (S i) c0 1) (bcofc s (S i) c1 1)) as [e1 st2] eqn:M1.
  destruct (mk2c_inv P st _ _ e0 st1 I
              (bcofc_low id nd c0 0 E Dl Hin0 ltac:(lia)) (bcofc_low id nd c1 0 E Dl Hin1 ltac:(lia)) M0)
    as [I1 [R0 X1]].
  destruct (mk2c_inv P st1 _ _ e1 st2 I1
              (bcofc_low id nd c0 1 E Dl Hin0 ltac:(lia)) (bcofc_low id nd c1 1 E Dl Hin1 ltac:(lia)) M1)
    as [I2 [R1 X2]].
  pose proof (repc_ext _ _ _ _ _ X2 R0) as R0'.
  pose proof (invc_old _ _ I2 id nd E Hn) as Hold. rewrite (relabel_dep s i nd (conj Dl Dd)) in Hold.
  set (nn := mkNode i [e0; e1] i (nrc nd)).
  assert (Hext : ext (fst st2) (PositiveMap.add id nn (fst st2))).
  { intros k kd Ek Lk. rewrite find_add. destruct (Pos.eqb_spec k id) as [->|]; [|exact Ek].
    rewrite Hold in Ek. inversion Ek; subst kd. lia. }
  constructor; simpl fst; simpl snd.
  - intros k kd Ek Hnk. rewrite find_add. destruct (Pos.eqb_spec k id) as [->|Nk].
    + exfalso. apply Hnk. left. reflexivity.
    + apply (invc_old _ _ I2 k kd Ek). intros Hp. apply Hnk. right. exact Hp.
  - intros k [<-|Hp].
    + exists nd. split; [exact E|]. split; [split; assumption|].
      exists c0, c1, e0, e1. split; [exact Hc|]. split.
      * rewrite find_add, Pos.eqb_refl. reflexivity.
      * split; eapply repc_ext; eauto.
    + destruct (invc_done _ _ I2 k Hp) as [kd [Ek [Dk [d0 [d1 [f0 [f1 [Hd [Hf [Q0 Q1]]]]]]]]]].
      exists kd. split; [exact Ek|]. split; [exact Dk|]. exists d0, d1, f0, f1.
      split; [exact Hd|]. split.
      * rewrite find_add. destruct (Pos.eqb_spec k id) as [->|]; [contradiction | exact Hf].
      * split; eapply repc_ext; eauto.
  - intros k kd Ek E0. rewrite find_add in Ek. destruct (Pos.eqb_spec k id) as [->|Nk]; [congruence|].
    apply (invc_new _ _ I2 k kd Ek E0).
  - intros k kd Ek. apply (invc_nxt _ _ I2 k kd Ek).
  - intros id1 id2 n1 n2 E1 E2 L1 L2 Hcc. rewrite find_add in E1, E2.
    destruct (Pos.eqb_spec id1 id) as [->|N1].
    { inversion E1; subst n1. unfold nn in L1. simpl in L1. lia. }
    destruct (Pos.eqb_spec id2 id) as [->|N2].
    { inversion E2; subst n2. unfold nn in L2. simpl in L2. lia. }
    apply (invc_uniq _ _ I2 id1 id2 n1 n2 E1 E2 L1 L2 Hcc).
Qed.

Lemma foldc_inv : forall R P st,
  InvC P st -> NoDup R ->
  (forall id, In id R -> ~ In id P /\ exists nd, find_node s id = Some nd /\ isdep nd) ->
  InvC (rev R ++ P) (fold_left (rebuildc s i) R st).
Proof.
  induction R as [|id R IH]; intros P st I Hnd HR; simpl; [exact I|].
  inversion Hnd as [|? ? Hid HndR]; subst.
  destruct (HR id (or_introl eq_refl)) as [HnP [nd [E D]]].
  rewrite <- app_assoc. simpl. apply IH.
  - apply (rebuildc_inv P st id nd I E D HnP).
  - exact HndR.
  - intros k Hkin. destruct (HR k (or_intror Hkin)) as [A B]. split; [|exact B].
    intros [<-|Hp]; [contradiction | contradiction].
Qed.

(** ** the table after the loop *)

Record SpecC (m : PositiveMap.t node) : Prop := mkSpecC {
  specc_old : forall id nd, find_node s id = Some nd -> ~ isdep nd ->
      PositiveMap.find id m = Some (relabel s i nd);
  specc_dep : forall id nd, find_node s id = Some nd -> isdep nd -> rebuiltc m id nd;
  specc_new : forall id nd, PositiveMap.find id m = Some nd -> find_node s id = None -> goodnewc nd;
  specc_uniq : forall id1 id2 n1 n2,
      PositiveMap.find id1 m = Some n1 -> PositiveMap.find id2 m = Some n2 ->
      nlevel n1 = S i -> nlevel n2 = S i -> nchildren n1 = nchildren n2 -> id1 = id2
}.

Theorem swap_nodes_c_spec : SpecC (swap_nodes_c s i).
Proof.
  unfold swap_nodes_c.
  pose proof (foldc_inv (dep_ids s i) [] (st0 s i) invc_init (dep_ids_nodup s i)) as I.
  assert (HR : forall id, In id (dep_ids s i) ->
             ~ In id [] /\ exists nd, find_node s id = Some nd /\ isdep nd).
  { intros id Hin. split; [intros []|]. apply dep_ids_spec. exact Hin. }
  specialize (I HR). rewrite app_nil_r in I. fold (st0 s i).
  set (st := fold_left (rebuildc s i) (dep_ids s i) (st0 s i)) in *.
  constructor.
  - intros id nd E Hnd. apply (invc_old _ _ I id nd E).
    intros Hin. apply in_rev in Hin. apply dep_ids_spec in Hin. destruct Hin as [nd' [E' D']].
    rewrite E in E'. inversion E'; subst nd'. contradiction.
  - intros id nd E D.
    assert (Hin : In id (rev (dep_ids s i))).
    { apply in_rev. rewrite rev_involutive. apply dep_ids_spec. eauto. }
    destruct (invc_done _ _ I id Hin) as [nd' [E' [_ R]]].
    rewrite E in E'. inversion E'; subst nd'. exact R.
  - intros id nd E E0. apply (invc_new _ _ I id nd E E0).
  - apply (invc_uniq _ _ I).
Qed.

End SwapC.
