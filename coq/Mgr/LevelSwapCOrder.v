(** * C08, part B' — sequences of adjacent level swaps on BCDDs: [set_var_order_model_c]

    The BCDD counterparts of Mgr/LevelSwapOrder.v ([swaps_fold_c],
    [set_var_order_model_correct_c], [_respects_c], [_canonical_c]) and an
    example with complement edges. *)

From Coq Require Import List NArith PArith Bool Arith Lia FMapPositive Permutation.
From OxiVerif Require Import DD.Table DD.TableProofs DD.CanonBcdd Mgr.SortOrder Mgr.SortOrderProofs
  Mgr.LevelSwap Mgr.LevelSwapBase Mgr.LevelSwapProofs Mgr.LevelSwapOrder
  Mgr.LevelSwapC Mgr.LevelSwapCProofs.
Import ListNotations.

(** ** a sequence of swaps *)

Theorem swaps_fold_c : forall sw s,
  WF s -> s_kind s = KBcdd -> Forall (fun k => S k < nlevels s) sw ->
  let s' := fold_left level_swap_c sw s in
  WF s' /\ s_kind s' = s_kind s /\ nlevels s' = nlevels s /\ s_handles s' = s_handles s
  /\ s_l2v s' = replay sw (s_l2v s)
  /\ (forall h a, In h (s_handles s) ->
        eval_vars s' (snd h) a = eval_vars s (snd h) a /\ exists v, eval_vars s (snd h) a = Some v).
Proof.
  induction sw as [|k sw IH]; intros s H Hk Hsw; simpl.
  - split; [exact H|]. split; [reflexivity|]. split; [reflexivity|]. split; [reflexivity|]. split; [reflexivity|].
    intros h a Hh. split; [reflexivity|].
    destruct (wf_handles s H h Hh) as [Ok _]. unfold eval_vars.
    apply (sem_total s H); [exact Ok | apply asg_choice_ok].
  - inversion Hsw as [|? ? Hk0 Hsw']; subst.
    pose proof (level_swap_wf_c s k H Hk Hk0) as H1.
    pose proof (level_swap_nlevels_c s k) as N1.
    assert (Hsw1 : Forall (fun k0 => S k0 < nlevels (level_swap_c s k)) sw).
    { rewrite N1. exact Hsw'. }
    destruct (IH (level_swap_c s k) H1 Hk Hsw1) as [A [B [C [D [F G]]]]].
    split; [exact A|]. split; [exact B|]. split; [rewrite C; exact N1|]. split; [exact D|].
    split; [exact F|].
    intros h a Hh.
    destruct (level_swap_handles_vars_c s k H Hk Hk0 h a Hh) as [P Q].
    split; [|exact Q]. destruct (G h a Hh) as [G1 _]. rewrite G1. exact P.
Qed.

(** ** [set_var_order_model_c] *)

Section OrderC.
Variable s : snap.
Variable order : list nat.
Hypothesis H : WF s.
Hypothesis Hk : s_kind s = KBcdd.
(* the requests on which [set_var_order] does not panic: variables in range, none twice *)
Hypothesis Hnd : NoDup order.
Hypothesis Hr : Forall (fun v => v < nlevels s) order.

Let n := nlevels s.
Let levels := map (fun v => nth v (s_v2l s) 0) order.
Let target := sort_order n levels.
Let s' := set_var_order_model_c s order.

Lemma levels_valid_c : valid_order n levels.
Proof. apply valid_order_levels; assumption. Qed.

Theorem set_var_order_model_correct_c :
  WF s' /\ s_kind s' = s_kind s /\ nlevels s' = n /\ s_handles s' = s_handles s
  /\ (forall h a, In h (s_handles s) ->
        eval_vars s' (snd h) a = eval_vars s (snd h) a /\ exists v, eval_vars s (snd h) a = Some v)
  /\ (forall v, v < n -> nth v (s_v2l s') 0 = nth (nth v (s_v2l s) 0) target 0)
  /\ length (snd (bubble_sort target)) = inv target.
Proof.
  pose proof levels_valid_c as Hv.
  unfold s', set_var_order_model_c. fold n. fold levels. fold target.
  pose proof (bubble_sort_correct target) as Hb.
  destruct (bubble_sort target) as [t' sw] eqn:Eb. simpl snd.
  destruct Hb as [Hsorted [Hperm [Hvalid [Hreplay Hcount]]]].
  assert (Hlen : length target = n) by (apply sort_order_length; exact Hv).
  assert (Hsw : Forall (fun k => S k < nlevels s) sw).
  { pose proof (valid_swaps_range target sw Hvalid) as R. rewrite Hlen in R. exact R. }
  destruct (swaps_fold_c sw s H Hk Hsw) as [A [B [C [D [F G]]]]].
  set (sf := fold_left level_swap_c sw s) in *.
  split; [exact A|]. split; [exact B|]. split; [exact C|]. split; [exact D|]. split; [exact G|].
  split; [|exact Hcount].
  (* the variable at the final level p is the one whose target position is p *)
  set (key := fun v => nth (nth v (s_v2l s) 0) target 0).
  assert (Hkey : map key (s_l2v s) = target).
  { apply (list_ext _ _ 0); [rewrite map_length; symmetry; exact Hlen|].
    intros l Hl. rewrite map_length in Hl.
    rewrite (nth_indep _ 0 (key 0)) by (rewrite map_length; exact Hl).
    rewrite map_nth. unfold key. destruct (wf_l2v_v2l s l H Hl) as [_ X]. rewrite X. reflexivity. }
  assert (Ht' : t' = seq 0 n).
  { apply sorted_perm_seq; [exact Hsorted|].
    eapply Permutation_trans; [exact Hperm | apply sort_order_perm; exact Hv]. }
  assert (Hfinal : map key (s_l2v sf) = seq 0 n).
  { rewrite F, <- replay_map, Hkey, Hreplay. exact Ht'. }
  intros v Hvn. unfold n in Hvn. rewrite <- C in Hvn.
  destruct (wf_v2l_l2v sf v A Hvn) as [Plt Pinv].
  set (p := nth v (s_v2l sf) 0) in *.
  assert (Hp : nth p (map key (s_l2v sf)) 0 = p).
  { rewrite Hfinal. rewrite C in Plt. rewrite seq_nth by exact Plt. reflexivity. }
  rewrite (nth_indep _ 0 (key 0)) in Hp by (rewrite map_length; exact Plt).
  rewrite map_nth, Pinv in Hp. unfold key in Hp. symmetry. exact Hp.
Qed.

(** the variables named in the request end up in the requested relative order *)
Theorem set_var_order_model_respects_c : forall a b, a < b < length order ->
  nth (nth a order 0) (s_v2l s') 0 < nth (nth b order 0) (s_v2l s') 0.
Proof.
  intros a b Hab.
  destruct set_var_order_model_correct_c as [_ [_ [_ [_ [_ [Hpos _]]]]]].
  assert (Hin : forall k, k < length order ->
            nth k order 0 < n /\ nth k levels 0 = nth (nth k order 0) (s_v2l s) 0).
  { intros k Hkl. split.
    - rewrite Forall_forall in Hr. apply Hr. apply nth_In. exact Hkl.
    - unfold levels. apply (nth_map_in _ _ (fun v => nth v (s_v2l s) 0)). exact Hkl. }
  destruct (Hin a ltac:(lia)) as [Ra La]. destruct (Hin b ltac:(lia)) as [Rb Lb].
  rewrite (Hpos _ Ra), (Hpos _ Rb), <- La, <- Lb.
  apply (sort_order_respects n levels levels_valid_c a b).
  unfold levels. rewrite map_length. exact Hab.
Qed.

(** the reordered diagram is canonical again (C01's theorem for BCDDs applies; it needs the
    manager's single terminal, which a swap does not touch) *)
Theorem set_var_order_model_canonical_c : terms_kind s -> forall h1 h2,
  In h1 (s_handles s) -> In h2 (s_handles s) ->
  (snd h1 = snd h2 <->
   forall c, choice_ok s' c -> sem_edge s' (snd h1) c = sem_edge s' (snd h2) c).
Proof.
  intros Ht h1 h2 H1 H2.
  destruct set_var_order_model_correct_c as [A [B [_ [D _]]]].
  assert (Hterms : forall sw t, s_terms (fold_left level_swap_c sw t) = s_terms t).
  { induction sw as [|k sw IH]; intros t; simpl; [reflexivity|]. rewrite IH. reflexivity. }
  apply (canon_bcdd_handles s' A).
  - rewrite B. exact Hk.
  - unfold terms_kind in *. rewrite B. unfold s', set_var_order_model_c. rewrite Hterms. exact Ht.
  - rewrite D. exact H1.
  - rewrite D. exact H2.
Qed.

End OrderC.

(** ** the hypotheses are satisfiable; complement tags take part

    three variables, one terminal (true; a complemented edge to it is false);
    handles: [x0] (node 2), [x0 -> x1] (node 4), [x2] (node 3).  Swapping levels
    0 and 1 rewrites node 4: its else-child becomes [reduce (not T, T)], i.e. the
    COMPLEMENTED edge to the node [T; not T] on the new lower level -- which is
    the node of [x0] that has just moved down ([old_upper.get] + [with_tag_owned]);
    node 1 ([x1]) loses its last reference and is removed. *)

Definition ex_t : edge := mkEdge (RT 0) false.
Definition ex_f : edge := mkEdge (RT 0) true.

Definition ex_swap_c : snap :=
  mkSnap KBcdd
    (PositiveMap.add 4%positive (mkNode 0 [mkEdge (RN 1) false; ex_t] 0 1)
    (PositiveMap.add 3%positive (mkNode 2 [ex_t; ex_f] 2 1)
    (PositiveMap.add 2%positive (mkNode 0 [ex_t; ex_f] 0 1)
    (PositiveMap.add 1%positive (mkNode 1 [ex_t; ex_f] 1 1)
       (PositiveMap.empty node)))))
    [(0%N, 1%N)]
    [0; 1; 2] [0; 1; 2]
    [(0%N, mkEdge (RN 2) false); (1%N, mkEdge (RN 4) false); (2%N, mkEdge (RN 3) false)].

Example ex_swap_c_all :
  WF ex_swap_c /\ s_kind ex_swap_c = KBcdd /\ terms_kind ex_swap_c /\ 1 < nlevels ex_swap_c
  /\ dep_ids ex_swap_c 0 = [4]%positive
  /\ find_node (level_swap_c ex_swap_c 0) 4 = Some (mkNode 0 [ex_t; mkEdge (RN 2) true] 0 1)
  /\ find_node (level_swap_c ex_swap_c 0) 2 = Some (mkNode 1 [ex_t; ex_f] 1 1)
  /\ find_node (level_swap_c ex_swap_c 0) 1 = None
  /\ s_v2l (set_var_order_model_c ex_swap_c [2; 1; 0]) = [2; 1; 0]
  /\ wf_b (set_var_order_model_c ex_swap_c [2; 1; 0]) = true.
Proof.
  split; [apply wf_b_spec; vm_compute; reflexivity|]. split; [reflexivity|].
  split; [apply terms_kind_b_spec; vm_compute; reflexivity|]. split; [vm_compute; lia|].
  repeat split; vm_compute; reflexivity.
Qed.
